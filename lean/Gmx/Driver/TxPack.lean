import Gmx.Model.TxPack
import Gmx.Driver.Util
-- ENGINE txp txpEngine stateless
/-! driver engine `txp` — C41 (transaction packing and size estimate)

Encodings (no spaces inside a token):
* key list `k,k,k` (`-` = empty); luts `k,k;k,k` (`-` = no tables), tables in `BTreeMap` order;
* memo `-` | `<len>:*` (signer = payer) | `<len>:k,k` | `<len>:-` (explicit empty signer list);
* ix `id~prog~dataLen~k.f,k.f` with `f = 2*signer + writable`;
* atomic group `payer/mergeable/extraSigners/ix+ix` ; parallel group `mergeable|AG|AG`.
-/
namespace Gmx.Drv
open Gmx.TxPack

def splitNE (s : String) (sep : String) : List String :=
  if s = "" || s = "-" then [] else s.splitOn sep

def pKeys (s : String) : Option (List Nat) := (splitNE s ",").mapM pNat

def pLuts (s : String) : Option (List (List Nat)) := (splitNE s ";").mapM pKeys

def pMeta (s : String) : Option Meta :=
  match s.splitOn "." with
  | [k, f] => match pNat k, pNat f with
    | some k, some f => if f < 4 then some ⟨k, f / 2 == 1, f % 2 == 1⟩ else none
    | _, _ => none
  | _ => none

def pIx (s : String) : Option Ix :=
  match s.splitOn "~" with
  | [i, p, d, ms] => match pNat i, pNat p, pNat d, (splitNE ms ",").mapM pMeta with
    | some i, some p, some d, some ms => some ⟨i, p, ms, d⟩
    | _, _, _, _ => none
  | _ => none

def pIxs (s : String) : Option (List Ix) := (splitNE s "+").mapM pIx

def pMemo (s : String) : Option (Option (Nat × Option (List Nat))) :=
  if s = "-" then some none else
  match s.splitOn ":" with
  | [l, sg] => match pNat l with
    | some l => if sg = "*" then some (some (l, none)) else
      match pKeys sg with | some ks => some (some (l, some ks)) | none => none
    | none => none
  | _ => none

def pAG (s : String) : Option AG :=
  match s.splitOn "/" with
  | [p, m, sg, ixs] => match pNat p, pBool m, pKeys sg, pIxs ixs with
    | some p, some m, some sg, some ixs => some ⟨p, unionSorted [p] sg, ixs, m⟩
    | _, _, _, _ => none
  | _ => none

def pPG (s : String) : Option PG :=
  match s.splitOn "|" with
  | m :: gs => match pBool m, gs.mapM pAG with
    | some m, some gs => some ⟨gs, m⟩
    | _, _ => none
  | [] => none

def showKeys (ks : List Nat) : String := ",".intercalate (ks.map toString)

def showAG (o : Opts) (g : AG) : String :=
  s!"{g.payer}/{showBool g.mergeable}/{showKeys g.signers}/{"+".intercalate (g.ixs.map (fun i => toString i.id))}@{g.size o.memo o.luts}"

def showPG (o : Opts) (p : PG) : String :=
  s!"{showBool p.mergeable}[{";".intercalate (p.groups.map (showAG o))}]"

def showAdd : Except AddErr Unit → String
  | .ok () => "ok"
  | .error .tooMany => "errN"
  | .error .tooBig => "errS"

def addAll (o : Opts) : List PG → List PG → List String → List PG × List String
  | acc, [], rs => (acc, rs.reverse)
  | acc, p :: ps, rs => let (acc', r) := tgAdd o acc p; addAll o acc' ps (showAdd r :: rs)

def txHexDigit (n : Nat) : Char := "0123456789abcdef".toList.getD n '?'
def txHexBytes (bs : List Nat) : String :=
  String.ofList (bs.flatMap (fun b => [txHexDigit (b / 16 % 16), txHexDigit (b % 16)]))

def txpEngine (args : List String) : String :=
  match args with
  | ["size", payer, ver, luts, ixs] =>
    match pNat payer, pBool ver, pIxs ixs with
    | some payer, some ver, some ixs =>
      if luts = "none" then s!"est {estimate payer ixs ver none} wire {wireLen payer ixs ver []}"
      else match pLuts luts with
        | some ts => s!"est {estimate payer ixs ver (some ts)} wire {wireLen payer ixs ver ts}"
        | none => "bad-op"
    | _, _, _ => "bad-op"
  | ["bytes", payer, ver, luts, ixs] =>
    match pNat payer, pBool ver, pIxs ixs, (if luts = "none" then some [] else pLuts luts) with
    | some payer, some ver, some ixs, some ts => txHexBytes (serialize payer ixs ver ts)
    | _, _, _, _ => "bad-op"
  | ["sizeset", payer, ver, luts, ixs] =>
    match pNat payer, pBool ver, pIxs ixs with
    | some payer, some ver, some ixs =>
      if luts = "none" then s!"est {estimateSet payer ixs ver none 0} wire {wireLen payer ixs ver []}"
      else match pLuts luts with
        | some ts => s!"est {estimateSet payer ixs ver (some ts.flatten) ts.length} wire {wireLen payer ixs ver ts}"
        | none => "bad-op"
    | _, _, _ => "bad-op"
  | "opt" :: allow :: maxSize :: maxIx :: memo :: luts :: pgs =>
    match pBool allow, pNat maxSize, pNat maxIx, pMemo memo, pLuts luts, pgs.mapM pPG with
    | some allow, some maxSize, some maxIx, some memo, some luts, some pgs =>
      let o : Opts := ⟨maxSize, maxIx, memo, luts⟩
      let (tg, rs) := addAll o [] pgs []
      let out := tgOptimize o allow tg
      s!"{",".intercalate rs} | {" ".intercalate (out.map (showPG o))}"
    | _, _, _, _, _, _ => "bad-op"
  | _ => "bad-op"

end Gmx.Drv
