import Gmx.Model.ConfigUpdate
import Gmx.Driver.Util
-- ENGINE c20 C20.c20Engine stateless
/-! driver engine `c20` — the three market-config update instructions, answered by the interpreter of
the generated step lists (C20). The market's keys hold `1000000 + index` before the call. -/
namespace Gmx.Drv.C20
open Gmx.Drv
open Gmx.Gen.MarketConfig Gmx.Gen.Access Gmx.Gen.ConfigUpdate Gmx.ConfigAccess Gmx.ConfigUpdate

def base : Nat := 1000000

def rolesOf (mk mck : Bool) : Role → Bool := fun r =>
  (mk && r == .MARKET_KEEPER) || (mck && r == .MARKET_CONFIG_KEEPER)

def errName : UErr → String
  | .permissionDenied => "PermissionDenied"
  | .invalidKey => "InvalidMarketConfigKey"
  | .invalidArgument => "InvalidArgument"
  | .unimplemented => "Unimplemented"
  | .exceedMaxFactor => "ExceedMaxMarketConfigFactor"

/-- did the handler leave every key and flag as it was? -/
def sameCfg (a b : Cfg) : Bool :=
  Key.all.all (fun k => a.get k == b.get k) && Flag.all.all (fun x => a.flag x == b.flag x)

def parseEntries (s : String) : Option (List Entry) :=
  if s = "-" then some [] else
  (s.splitOn ",").mapM fun kv =>
    match kv.splitOn "=" with
    | [k, v] =>
      match pNat v with
      | none => none
      | some v =>
        if k.startsWith "#" then (pNat (k.drop 1).toString).map (fun n => (n, v))
        else (Key.ofSnake? k).map (fun key => (key.index, v))
    | _ => none

def parseKeySet (s : String) : Option (List Key) :=
  if s = "-" then some [] else (s.splitOn ",").mapM Key.ofSnake?

def showTouched (es : List Entry) (c : Cfg) : String :=
  let ks := (Key.all.filter fun k => es.any fun e => e.1 == k.index)
  "ok " ++ ";".intercalate (ks.map fun k => s!"{k.snake}={(c.get k).getD 0}")

def c20Engine (args : List String) : String :=
  match args with
  | ["factor", mk, mck, upd, key, v] =>
    match pBool mk, pBool mck, pBool upd, pNat v with
    | some mk, some mck, some upd, some v =>
      let k := Key.ofSnake? key
      let c0 := sentinelCfg base
      let p : Perms := ⟨fun k' => upd && some k' == k, fun _ => false⟩
      match updateFactor (rolesOf mk mck) p k v c0 with
      | (c, .ok ()) => match k with
        | some k => s!"ok {(c.get k).getD 0}"
        | none => "ok ?"
      | (c, .error e) => s!"err {errName e} {if sameCfg c c0 then "same" else "changed"}"
    | _, _, _, _ => "bad-op"
  | ["flag", mk, mck, upd, key, b] =>
    match pBool mk, pBool mck, pBool upd, pBool b with
    | some mk, some mck, some upd, some b =>
      let x := Flag.ofSnake? key
      let c0 := sentinelCfg base
      let p : Perms := ⟨fun _ => false, fun x' => upd && some x' == x⟩
      match updateFlag (rolesOf mk mck) p x b c0 with
      | (c, .ok ()) => match x with
        | some x => s!"ok {showBool (c.flag x)}"
        | none => "ok ?"
      | (c, .error e) => s!"err {errName e} {if sameCfg c c0 then "same" else "changed"}"
    | _, _, _, _ => "bad-op"
  | ["buffer", mk, mck, owned, delta, upd, entries] =>
    match pBool mk, pBool mck, pBool owned, pInt delta, parseKeySet upd, parseEntries entries with
    | some mk, some mck, some owned, some delta, some upd, some es =>
      let c0 := sentinelCfg base
      let p : Perms := ⟨fun k => upd.contains k, fun _ => false⟩
      match updateWithBuffer (rolesOf mk mck) p owned 0 delta es c0 with
      | (c, .ok ()) => showTouched es c
      | (c, .error e) => s!"err {errName e} {if sameCfg c c0 then "same" else "changed"}"
    | _, _, _, _, _, _ => "bad-op"
  | _ => "bad-op"

end Gmx.Drv.C20
