import Gmx.Model.ConfigUpdate
import Gmx.Driver.Util
-- ENGINE c20 C20.c20Engine stateless
/-! driver engine `c20` — the three market-config update instructions, answered by the interpreter of
the generated step lists (C20). The market's keys hold `1000000 + index` before the call. -/
namespace Gmx.Drv.C20
open Gmx.Drv
open Gmx.Gen.MarketConfig Gmx.Gen.Access Gmx.Gen.ConfigUpdate Gmx.ConfigAccess Gmx.ConfigUpdate

def base : Nat := 1000000

def rolesOf (mk mck : Bool) : Role → Bool := fun r =>
  (mk && r == .MARKET_KEEPER) || (mck && r == .MARKET_CONFIG_KEEPER)

def errName : UErr → String
  | .permissionDenied => "PermissionDenied"
  | .invalidKey => "InvalidMarketConfigKey"
  | .invalidArgument => "InvalidArgument"
  | .unimplemented => "Unimplemented"
  | .exceedMaxFactor => "ExceedMaxMarketConfigFactor"
  | .notFound => "NotFound"
  | .preconditionsNotMet => "PreconditionsAreNotMet"

/-- did the handler leave every key and flag as it was? -/
def sameCfg (a b : Cfg) : Bool :=
  Key.all.all (fun k => a.get k == b.get k) && Flag.all.all (fun x => a.flag x == b.flag x)

def parseEntries (s : String) : Option (List Entry) :=
  if s = "-" then some [] else
  (s.splitOn ",").mapM fun kv =>
    match kv.splitOn "=" with
    | [k, v] =>
      match pNat v with
      | none => none
      | some v =>
        if k.startsWith "#" then (pNat (k.drop 1).toString).map (fun n => (n, v))
        else (Key.ofSnake? k).map (fun key => (key.index, v))
    | _ => none

def parseKeySet (s : String) : Option (List Key) :=
  if s = "-" then some [] else (s.splitOn ",").mapM Key.ofSnake?

def showTouched (es : List Entry) (c : Cfg) : String :=
  let ks := (Key.all.filter fun k => es.any fun e => e.1 == k.index)
  "ok " ++ ";".intercalate (ks.map fun k => s!"{k.snake}={(c.get k).getD 0}")

def pState (s : String) : Option Gmx.Access.RoleState :=
  if s = "e" then some .enabled else if s = "n" then some .never else if s = "d" then some .disabled else none

/-- role table of the store for the caller: states of the two roles, and what the caller holds
(`none` = not a member, `other` = member through an unrelated enabled role) -/
def tableOf (mk mck : Gmx.Access.RoleState) (holds : String) : Option Gmx.Access.RoleTable :=
  let okHold := fun (st : Gmx.Access.RoleState) (h : Bool) => !(h && st == .never)
  let hmk := holds = "mk" || holds = "both"
  let hmck := holds = "mck" || holds = "both"
  if !(["none", "other", "mk", "mck", "both"].contains holds) || !okHold mk hmk || !okHold mck hmck then none else
  some ⟨fun r => if r == .MARKET_KEEPER then mk else if r == .MARKET_CONFIG_KEEPER then mck else .enabled,
        holds != "none",
        fun r => (hmk && r == .MARKET_KEEPER) || (hmck && r == .MARKET_CONFIG_KEEPER)⟩

def showRes (c0 : Cfg) (okText : Cfg → String) : Res → String
  | (c, .ok ()) => okText c
  | (c, .error e) => s!"err {errName e} {if sameCfg c c0 then "same" else "changed"}"

def c20Engine (args : List String) : String :=
  match args with
  | "rt" :: op :: mks :: mcks :: holds :: rest =>
    match pState mks, pState mcks with
    | some mks, some mcks =>
      match tableOf mks mcks holds with
      | none => "bad-config"
      | some t =>
        let c0 := sentinelCfg base
        match op, rest with
        | "factor", [upd, key, v] =>
          match pBool upd, pNat v with
          | some upd, some v =>
            let k := Key.ofSnake? key
            let p : Perms := ⟨fun k' => upd && some k' == k, fun _ => false⟩
            showRes c0 (fun c => match k with | some k => s!"ok {(c.get k).getD 0}" | none => "ok ?") (updateFactorE t p k v c0)
          | _, _ => "bad-op"
        | "flag", [upd, key, b] =>
          match pBool upd, pBool b with
          | some upd, some b =>
            let x := Flag.ofSnake? key
            let p : Perms := ⟨fun _ => false, fun x' => upd && some x' == x⟩
            showRes c0 (fun c => match x with | some x => s!"ok {showBool (c.flag x)}" | none => "ok ?") (updateFlagE t p x b c0)
          | _, _ => "bad-op"
        | "buffer", [owned, delta, upd, entries] =>
          match pBool owned, pInt delta, parseKeySet upd, parseEntries entries with
          | some owned, some delta, some upd, some es =>
            let p : Perms := ⟨fun k => upd.contains k, fun _ => false⟩
            showRes c0 (showTouched es) (updateWithBufferE t p owned 0 delta es c0)
          | _, _, _, _ => "bad-op"
        | _, _ => "bad-op"
    | _, _ => "bad-op"
  | ["factor", mk, mck, upd, key, v] =>
    match pBool mk, pBool mck, pBool upd, pNat v with
    | some mk, some mck, some upd, some v =>
      let k := Key.ofSnake? key
      let c0 := sentinelCfg base
      let p : Perms := ⟨fun k' => upd && some k' == k, fun _ => false⟩
      match updateFactor (rolesOf mk mck) p k v c0 with
      | (c, .ok ()) => match k with
        | some k => s!"ok {(c.get k).getD 0}"
        | none => "ok ?"
      | (c, .error e) => s!"err {errName e} {if sameCfg c c0 then "same" else "changed"}"
    | _, _, _, _ => "bad-op"
  | ["flag", mk, mck, upd, key, b] =>
    match pBool mk, pBool mck, pBool upd, pBool b with
    | some mk, some mck, some upd, some b =>
      let x := Flag.ofSnake? key
      let c0 := sentinelCfg base
      let p : Perms := ⟨fun _ => false, fun x' => upd && some x' == x⟩
      match updateFlag (rolesOf mk mck) p x b c0 with
      | (c, .ok ()) => match x with
        | some x => s!"ok {showBool (c.flag x)}"
        | none => "ok ?"
      | (c, .error e) => s!"err {errName e} {if sameCfg c c0 then "same" else "changed"}"
    | _, _, _, _ => "bad-op"
  | ["buffer", mk, mck, owned, delta, upd, entries] =>
    match pBool mk, pBool mck, pBool owned, pInt delta, parseKeySet upd, parseEntries entries with
    | some mk, some mck, some owned, some delta, some upd, some es =>
      let c0 := sentinelCfg base
      let p : Perms := ⟨fun k => upd.contains k, fun _ => false⟩
      match updateWithBuffer (rolesOf mk mck) p owned 0 delta es c0 with
      | (c, .ok ()) => showTouched es c
      | (c, .error e) => s!"err {errName e} {if sameCfg c c0 then "same" else "changed"}"
    | _, _, _, _, _, _ => "bad-op"
  | _ => "bad-op"

end Gmx.Drv.C20
