import Gmx.Model.Glv
import Gmx.Driver.Util
-- ENGINE glv GlvE.glvEngine stateless
/-! driver engine `glv` — C45 -/
namespace Gmx.Drv.GlvE
open Gmx Gmx.Drv

def pMeta (s : String) : Option GMeta :=
  match (s.splitOn ":").mapM pNat with
  | some [t, l, sh] => some ⟨t, l, sh⟩
  | _ => none

def pList {α} (f : String → Option α) (s : String) : Option (List α) :=
  if s = "-" then some [] else (s.splitOn ",").mapM f

def glvEngine (args : List String) : String :=
  match args with
  | ["insert", gl, gs, existing, m] =>
    match allNat [gl, gs], pList pNat existing, pMeta m with
    | some [gl, gs], some ex, some m =>
      match glvInsert ⟨gl, gs, ex.map fun t => { token := t }⟩ m with
      | some _ => "ok" | none => "err"
    | _, _, _ => "bad-op"
  | ["init", metas] =>
    match pList pMeta metas with
    | some ms => match glvValidateInit ms with
      | some (l, s, _) => s!"ok {l} {s}" | none => "err"
    | none => "bad-op"
  | ["balance", ma, mv, nb, pv, sup] =>
    match allNat [ma, mv, nb, sup], pInt pv with
    | some [ma, mv, nb, sup], some pv =>
      if glvValidateBalance { token := 0, maxAmount := ma, maxValue := mv } nb pv sup then "ok" else "err"
    | _, _ => "bad-op"
  | ["value", b, pv, sup] =>
    match allNat [b, sup], pInt pv with
    | some [b, sup], some pv => showOptNat (glvValueForMarket b pv sup)
    | _, _ => "bad-op"
  | ["amount", v, pv, sup, d] =>     -- get_market_token_amount_for_glv_value
    match allNat [v, sup, d], pInt pv with
    | some [v, sup, d], some pv =>
      if pv < 0 then "none" else showOptNat (usdToMarketTokenAmount 128 v pv.natAbs sup d)
    | _, _ => "bad-op"
  | ["mint", r, g, s, d] =>
    match allNat [r, g, s, d] with
    | some [r, g, s, d] => showOptNat (glvMint r g s d) | _ => "bad-op"
  | ["redeem", g, gv, s, pv, ms, d] =>
    match allNat [g, gv, s, ms, d], pInt pv with
    | some [g, gv, s, ms, d], some pv => showOptNat (glvRedeem g gv s pv ms d)
    | _, _ => "bad-op"
  | _ => "bad-op"

end Gmx.Drv.GlvE
