import Gmx.Model.GtBank
import Gmx.Driver.Util
-- ENGINE gtb gtbEngine stateful GtbState gtbInit
/-! driver engine `gtb` — C37 (treasury factors, GT bank claims) -/
namespace Gmx.Drv
open Gmx.GtBank

structure GtbSid where
  bank : Bank
  gt : Nat
  buyback : Nat

abbrev GtbState := List (String × GtbSid)
def gtbInit : GtbState := []

def gtbLookup (ss : GtbState) (sid : String) : Option GtbSid := (ss.find? (fun p => p.1 == sid)).map (·.2)
def gtbSet (ss : GtbState) (sid : String) (s : GtbSid) : GtbState := (sid, s) :: ss.filter (fun p => p.1 != sid)

def gtbShowNats (l : List Nat) : String := ",".intercalate (l.map toString)
def gtbDigest (b : Bank) : String := s!"R={b.remaining} conf={showBool b.confirmed} bal=[{gtbShowNats b.balances}]"

def gtbEngine (ss : GtbState) (args : List String) : GtbState × String :=
  match args with
  | "new" :: sid :: bs =>
    match allNat bs with
    | some bs =>
      if bs.length ≤ 16 && bs.all (· < 2 ^ 64) then
        let s : GtbSid := ⟨⟨false, 0, bs⟩, 0, 0⟩
        (gtbSet ss sid s, s!"ok | {gtbDigest s.bank}")
      else (ss, "bad-op")
    | none => (ss, "bad-op")
  | ["reserve", sid, num, den] =>
    match gtbLookup ss sid, allNat [num, den] with
    | some s, some [num, den] =>
      if num < 2 ^ 128 && den < 2 ^ 128 then
        match reserve s.bank num den with
        | some b => (gtbSet ss sid { s with bank := b }, s!"ok | {gtbDigest b}")
        | none => (ss, s!"err | {gtbDigest s.bank}")
      else (ss, "bad-op")
    | _, _ => (ss, "bad-op")
  | ["confirm", sid, g] =>
    match gtbLookup ss sid, pNat g with
    | some s, some g =>
      if g < 2 ^ 64 then
        match confirm s.bank g with
        | some b => (gtbSet ss sid { s with bank := b }, s!"ok | {gtbDigest b}")
        | none => (ss, s!"err | {gtbDigest s.bank}")
      else (ss, "bad-op")
    | _, _ => (ss, "bad-op")
  | ["claim", sid, g] =>
    match gtbLookup ss sid, pNat g with
    | some s, some g =>
      if g < 2 ^ 64 then
        match claim s.bank g with
        | some (b, n, amts) => (gtbSet ss sid { s with bank := b }, s!"ok {n} [{gtbShowNats amts}] | {gtbDigest b}")
        | none => (ss, s!"err | {gtbDigest s.bank}")
      else (ss, "bad-op")
    | _, _ => (ss, "bad-op")
  -- exchange of vault 0 completed against the bank of vault 1
  | ["claimx", sid, g] =>
    match gtbLookup ss sid, pNat g with
    | some s, some g =>
      if g < 2 ^ 64 then
        match claimWith 1 0 s.bank g with
        | some (b, n, amts) => (gtbSet ss sid { s with bank := b }, s!"ok {n} [{gtbShowNats amts}] | {gtbDigest b}")
        | none => (ss, s!"err | {gtbDigest s.bank}")
      else (ss, "bad-op")
    | _, _ => (ss, "bad-op")
  | ["setf", sid, which, f] =>
    match gtbLookup ss sid, pNat f with
    | some s, some f =>
      if f < 2 ^ 128 then
        if which = "gt" then
          match setFactor s.gt f with
          | .ok (n, prev) => (gtbSet ss sid { s with gt := n }, s!"ok {prev} | {n} {s.buyback}")
          | .error _ => (ss, s!"err | {s.gt} {s.buyback}")
        else if which = "buyback" then
          match setFactor s.buyback f with
          | .ok (n, prev) => (gtbSet ss sid { s with buyback := n }, s!"ok {prev} | {s.gt} {n}")
          | .error _ => (ss, s!"err | {s.gt} {s.buyback}")
        else (ss, "bad-op")
      else (ss, "bad-op")
    | _, _ => (ss, "bad-op")
  | _ => (ss, "bad-op")

end Gmx.Drv
