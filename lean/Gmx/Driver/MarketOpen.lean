import Gmx.Model.MarketOpen
import Gmx.Driver.Util
-- ENGINE mopen mopenEngine stateless
/-! driver engine `mopen` — C27 -/
namespace Gmx.Drv
open Gmx.MarketOpen

def showOpenness : Openness → String
  | .open => "Open" | .closed => "Closed" | .skip => "Skip"

def pCfgOp (s : String) : Option CfgOp :=
  match s.toList with
  | 'f' :: r => (String.ofList r).toNat?.map CfgOp.withFeed
  | 't' :: r => (String.ofList r).toNat?.bind fun t => if t < 2 ^ 32 then some (.withTsAdj t) else none
  | 'd' :: r => (String.ofList r).toNat?.bind fun t => if t < 2 ^ 32 then some (.withRatio t) else none
  | 's' :: r => match (String.ofList r).splitOn ":" with
    | [i, b] => match i.toNat?, b.toNat? with
      | some i, some b => if i < 6 ∧ b ≤ 1 then some (.setFlag i (b == 1)) else none
      | _, _ => none
    | _ => none
  | _ => none

def mopenEngine (args : List String) : String :=
  match args with
  | ["cfg", pol, ops, st] =>
    match allNat [pol, st], (if ops = "-" then some [] else (ops.splitOn ",").mapM pCfgOp) with
    | some [pol, st], some ops =>
      if pol < 64 ∧ st < 256 then
        let c := (⟨1, 0, 0, pol⟩ : FeedCfg).run ops
        s!"{c.feed} {c.tsAdj} {c.ratio} {c.flags} {showOpenness (openness (statusOf st) c.flags)}"
      else "bad-op"
    | _, _ => "bad-op"
  | ["open", st, pf, diff, ts, now, timeout, pol] =>
    match allNat [st, pf, diff, timeout, pol], allInt [ts, now] with
    | some [st, pf, diff, timeout, pol], some [ts, now] =>
      if st < 256 ∧ pf < 256 ∧ pol < 256 ∧ diff < 2 ^ 32 ∧ timeout < 2 ^ 32 ∧
          -(2 ^ 63) ≤ ts ∧ ts < 2 ^ 63 ∧ -(2 ^ 63) ≤ now ∧ now < 2 ^ 63 then
        showBool (isMarketOpen st pf diff ts now timeout pol)
      else "bad-op"
    | _, _ => "bad-op"
  | ["openness", st, pol] =>
    match allNat [st, pol] with
    | some [st, pol] => if st < 256 ∧ pol < 256 then showOpenness (openness (statusOf st) pol) else "bad-op"
    | _ => "bad-op"
  | ["secs", pf, diff] =>
    match allNat [pf, diff] with
    | some [pf, diff] =>
      if pf < 256 ∧ diff < 2 ^ 32 then
        match lastUpdateDiffSecs pf diff with
        | none => "none"
        | some d => s!"ok {d}"
      else "bad-op"
    | _ => "bad-op"
  | _ => "bad-op"

end Gmx.Drv
