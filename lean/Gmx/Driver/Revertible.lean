import Gmx.Model.Revertible
import Gmx.Driver.Util
-- ENGINE rbuf rbufEngine stateful Gmx.Drv.RbufDb []
/-! driver engine `rbuf` — C21.  Payloads are integer vectors: pools (kinds 0–15, `PoolKind` order)
`[long, short]`, clocks (kind 16) `[price_impact_distribution, borrowing, funding]`, other (kind 17)
`[long_balance, short_balance, funding_factor_per_second]`.

`rbuf new <sid> <now>` · `begin|commit|abandon <sid>` · `setrev <sid> <rev>` (test set-up, only
upwards and outside an operation) · reads `rpool <sid> <k>`, `rclock <sid> <i> <now>`, `rother <sid>` ·
writes `wpool <sid> <k> <L|S> <delta>`, `wclock <sid> <i> <now>`, `wffps <sid> <v>`,
`wbal <sid> <L|S> <in|out> <amount>`.  Responses end with `| <digest>` (counter, open flag, all
stored payloads). -/
namespace Gmx.Drv
open Gmx.Rev

structure RbufSt where
  m : M (List Int)
  isOpen : Bool

abbrev RbufDb := List (String × RbufSt)

def rbufInit (now : Int) : M (List Int) :=
  ⟨1, fun k => ⟨0, if k < 16 then [0, 0] else [0, 0, 0]⟩,
      fun k => ⟨0, if k < 16 then [0, 0] else if k = 16 then [now, now, now] else [0, 0, 0]⟩⟩

def showInts (v : List Int) : String := ",".intercalate (v.map toString)

def rbufDigest (s : RbufSt) : String :=
  let cells := (List.range 18).map (fun k => showInts (s.m.store k).val)
  s!"rev={s.m.rev} open={showBool s.isOpen} [{";".intercalate cells}]"

def rbufGet (db : RbufDb) (sid : String) : Option RbufSt :=
  match db with
  | [] => none
  | (k, v) :: rest => if k = sid then some v else rbufGet rest sid

def rbufPut (db : RbufDb) (sid : String) (v : RbufSt) : RbufDb :=
  (sid, v) :: (db.filter (fun kv => kv.1 != sid)).take 8

def rbufOut (db : RbufDb) (sid : String) (s : RbufSt) (head : String) : RbufDb × String :=
  (rbufPut db sid s, s!"{head} | {rbufDigest s}")

/-- `checked_add_signed` on field `i` of a pool payload -/
def poolDelta (i : Nat) (d : Int) (v : List Int) : List Int :=
  let n := v.getD i 0 + d
  if 0 ≤ n ∧ n < 2 ^ 128 then v.set i n else v

/-- `just_passed_in_seconds` on clock `i` -/
def clockTick (i : Nat) (now : Int) (v : List Int) : List Int :=
  if now - v.getD i 0 > 0 then v.set i now else v

def passed (i : Nat) (now : Int) (v : List Int) : Int :=
  if now - v.getD i 0 > 0 then now - v.getD i 0 else 0

/-- `record_transferred_in/out` on balance field `i` (u64) -/
def balMove (i : Nat) (isIn : Bool) (amt : Int) (v : List Int) : List Int :=
  let n := if isIn then v.getD i 0 + amt else v.getD i 0 - amt
  if 0 ≤ n ∧ n < 2 ^ 64 then v.set i n else v

def sideIx (s : String) : Option Nat := if s = "L" then some 0 else if s = "S" then some 1 else none

def rbufEngine (db : RbufDb) (args : List String) : RbufDb × String :=
  match args with
  | ["new", sid, now] =>
    match pInt now with
    | some now => rbufOut db sid ⟨rbufInit now, false⟩ "ok"
    | none => (db, "bad-op")
  | op :: sid :: rest =>
    match rbufGet db sid with
    | none => (db, "bad-op")
    | some s =>
      match op, rest with
      | "begin", [] =>
        if s.isOpen then (db, "bad-op") else
        match begin 64 s.m with
        | none => rbufOut db sid s "panic"
        | some m1 => rbufOut db sid ⟨m1, true⟩ s!"ok {m1.rev}"
      | "commit", [] =>
        if !s.isOpen then (db, "bad-op") else rbufOut db sid ⟨commit s.m, false⟩ "ok"
      | "abandon", [] =>
        if !s.isOpen then (db, "bad-op") else rbufOut db sid ⟨s.m, false⟩ "ok"
      | "setrev", [v] =>
        match pNat v with
        | some v =>
          if s.isOpen ∨ v < s.m.rev ∨ v ≥ 2 ^ 64 then (db, "bad-op")
          else rbufOut db sid ⟨{ s.m with rev := v }, false⟩ "ok"
        | none => (db, "bad-op")
      | "rpool", [k] =>
        match pNat k with
        | some k =>
          if !s.isOpen ∨ k ≥ 16 then (db, "bad-op")
          else rbufOut db sid s s!"ok {joinSp ((read s.m k).map toString)}"
        | none => (db, "bad-op")
      | "rclock", [i, now] =>
        match pNat i, pInt now with
        | some i, some now =>
          if !s.isOpen ∨ i ≥ 2 then (db, "bad-op")
          else rbufOut db sid s s!"ok {passed i now (read s.m 16)}"
        | _, _ => (db, "bad-op")
      | "rother", [] =>
        if !s.isOpen then (db, "bad-op")
        else rbufOut db sid s s!"ok {joinSp ((read s.m 17).map toString)}"
      | "wpool", [k, side, d] =>
        match pNat k, sideIx side, pInt d with
        | some k, some i, some d =>
          if !s.isOpen ∨ k ≥ 16 then (db, "bad-op") else
          let cur := read s.m k
          let ok := poolDelta i d cur != cur ∨ d = 0
          rbufOut db sid { s with m := write s.m k (poolDelta i d) } (if ok then "ok" else "err")
        | _, _, _ => (db, "bad-op")
      | "wclock", [i, now] =>
        match pNat i, pInt now with
        | some i, some now =>
          if !s.isOpen ∨ i ≥ 3 then (db, "bad-op") else
          let p := passed i now (read s.m 16)
          rbufOut db sid { s with m := write s.m 16 (clockTick i now) } s!"ok {p}"
        | _, _ => (db, "bad-op")
      | "wffps", [v] =>
        match pInt v with
        | some v =>
          if !s.isOpen then (db, "bad-op")
          else rbufOut db sid { s with m := write s.m 17 (fun x => x.set 2 v) } "ok"
        | none => (db, "bad-op")
      | "wbal", [side, dir, amt] =>
        match sideIx side, pNat amt with
        | some i, some amt =>
          if !s.isOpen ∨ (dir ≠ "in" ∧ dir ≠ "out") ∨ amt ≥ 2 ^ 64 then (db, "bad-op") else
          let cur := read s.m 17
          let isIn := dir = "in"
          let ok := balMove i isIn amt cur != cur ∨ amt = 0
          rbufOut db sid { s with m := write s.m 17 (balMove i isIn amt) } (if ok then "ok" else "err")
        | _, _ => (db, "bad-op")
      | _, _ => (db, "bad-op")
  | _ => (db, "bad-op")

end Gmx.Drv
