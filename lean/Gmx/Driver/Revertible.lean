import Gmx.Model.Revertible
import Gmx.Driver.Util
-- ENGINE rbuf rbufEngine stateful Gmx.Drv.RbufDb []
/-! driver engine `rbuf` — C21.  Payloads are integer vectors: pools (kinds 0–15, `PoolKind` order)
`[long, short]`, clocks (kind 16) `[price_impact_distribution, borrowing, funding]`, other (kind 17)
`[long_balance, short_balance, funding_factor_per_second]`.

`rbuf new <sid> <now>` · `begin|commit|abandon <sid>` · `setrev <sid> <rev>` (test set-up, only
upwards and outside an operation) · reads `rpool <sid> <k>`, `rclock <sid> <i> <now>`, `rother <sid>` ·
writes `wpool <sid> <k> <L|S> <delta>`, `wclock <sid> <i> <now>`, `wffps <sid> <v>`,
`wbal <sid> <L|S> <in|out> <amount>`; operations may be opened as a liquidity market (`lbegin`:
`mint <a>`, `burn <a>`, `supply`) or as a position (`pbegin`: `pread`, `pwrite <i> <v>`,
`ptouch <inc|dec> <slot> <now>`); the virtual inventory has its own buffer (`vbegin|vcommit|vabandon`,
`vread`, `vwrite <L|S> <d>`, `vsetrev <rev>`).  Responses end with `| <digest>` (counter, open mode,
all stored payloads, mint supply, stored position, virtual inventory). -/
namespace Gmx.Drv
open Gmx.Rev

structure RbufSt where
  m : M (List Int)
  /-- 0 closed · 1 market · 2 liquidity market · 3 position -/
  mode : Nat := 0
  lm : LM := ⟨1000000, 0, 0⟩
  pos : PB (List Int) := ⟨[0, 0, 0, 0, 0, 0, 0, 0, 0, 0, 0], [0, 0, 0, 0, 0, 0, 0, 0, 0, 0, 0]⟩
  vi : VI (List Int) := ⟨0, ⟨0, [0, 0]⟩, ⟨0, [0, 0]⟩⟩
  viOpen : Bool := false

def RbufSt.isOpen (s : RbufSt) : Bool := s.mode != 0

abbrev RbufDb := List (String × RbufSt)

def rbufInit (now : Int) : M (List Int) :=
  ⟨1, fun k => ⟨0, if k < 16 then [0, 0] else [0, 0, 0, 0]⟩,
      fun k => ⟨0, if k < 16 then [0, 0] else if k = 16 then [now, now, now] else [0, 0, 0, 0]⟩⟩

def showInts (v : List Int) : String := ",".intercalate (v.map toString)

def rbufDigest (s : RbufSt) : String :=
  let cells := (List.range 18).map (fun k => showInts (s.m.store k).val)
  s!"rev={s.m.rev} open={s.mode} [{";".intercalate cells}] supply={s.lm.supply} pos={showInts s.pos.stored} vi={s.vi.rev}:{showBool s.viOpen}:{showInts s.vi.store.val}"

def rbufGet (db : RbufDb) (sid : String) : Option RbufSt :=
  match db with
  | [] => none
  | (k, v) :: rest => if k = sid then some v else rbufGet rest sid

def rbufPut (db : RbufDb) (sid : String) (v : RbufSt) : RbufDb :=
  (sid, v) :: (db.filter (fun kv => kv.1 != sid)).take 8

def rbufOut (db : RbufDb) (sid : String) (s : RbufSt) (head : String) : RbufDb × String :=
  (rbufPut db sid s, s!"{head} | {rbufDigest s}")

/-- `checked_add_signed` on field `i` of a pool payload -/
def poolDelta (i : Nat) (d : Int) (v : List Int) : List Int :=
  let n := v.getD i 0 + d
  if 0 ≤ n ∧ n < 2 ^ 128 then v.set i n else v

/-- `just_passed_in_seconds` on clock `i` -/
def clockTick (i : Nat) (now : Int) (v : List Int) : List Int :=
  if now - v.getD i 0 > 0 then v.set i now else v

def passed (i : Nat) (now : Int) (v : List Int) : Int :=
  if now - v.getD i 0 > 0 then now - v.getD i 0 else 0

/-- `record_transferred_in/out` on balance field `i` (u64) -/
def balMove (i : Nat) (isIn : Bool) (amt : Int) (v : List Int) : List Int :=
  let n := if isIn then v.getD i 0 + amt else v.getD i 0 - amt
  if 0 ≤ n ∧ n < 2 ^ 64 then v.set i n else v

def showCpis (c : List Cpi) : String :=
  if c.isEmpty then "-" else ",".intercalate (c.map (fun x => match x with | .mintTo a => s!"M{a}" | .burn a => s!"B{a}"))

def sideIx (s : String) : Option Nat := if s = "L" then some 0 else if s = "S" then some 1 else none

def rbufEngine (db : RbufDb) (args : List String) : RbufDb × String :=
  match args with
  | ["new", sid, now] =>
    match pInt now with
    | some now => rbufOut db sid { m := rbufInit now } "ok"
    | none => (db, "bad-op")
  | op :: sid :: rest =>
    match rbufGet db sid with
    | none => (db, "bad-op")
    | some s =>
      match op, rest with
      | "begin", [] =>
        if s.isOpen then (db, "bad-op") else
        match begin 64 s.m with
        | none => rbufOut db sid s "panic"
        | some m1 => rbufOut db sid { s with m := m1, mode := 1 } s!"ok {m1.rev}"
      | "lbegin", [] =>
        if s.isOpen then (db, "bad-op") else
        match begin 64 s.m with
        | none => rbufOut db sid s "panic"
        | some m1 => rbufOut db sid { s with m := m1, mode := 2, lm := lmBegin s.lm.supply } s!"ok {m1.rev}"
      | "pbegin", [] =>
        if s.isOpen then (db, "bad-op") else
        match begin 64 s.m with
        | none => rbufOut db sid s "panic"
        | some m1 => rbufOut db sid { s with m := m1, mode := 3, pos := pbBegin s.pos } s!"ok {m1.rev}"
      | "commit", [] =>
        if !s.isOpen then (db, "bad-op") else
        if s.mode = 2 then
          rbufOut db sid { s with m := commit s.m, mode := 0, lm := ⟨lmCommitSupply s.lm, 0, 0⟩ }
            s!"ok cpis={showCpis (lmCommitCpis s.lm)}"
        else if s.mode = 3 then
          rbufOut db sid { s with m := commit s.m, mode := 0, pos := pbCommit s.pos } "ok cpis=-"
        else rbufOut db sid { s with m := commit s.m, mode := 0 } "ok cpis=-"
      | "abandon", [] =>
        if !s.isOpen then (db, "bad-op") else rbufOut db sid { s with mode := 0 } "ok cpis=-"
      | "mint", [a] =>
        match pNat a with
        | some a =>
          if s.mode ≠ 2 ∨ a ≥ 2 ^ 128 then (db, "bad-op") else
          match lmMint s.lm a with
          | some l => rbufOut db sid { s with lm := l } "ok"
          | none => rbufOut db sid s "err"
        | none => (db, "bad-op")
      | "burn", [a] =>
        match pNat a with
        | some a =>
          if s.mode ≠ 2 ∨ a ≥ 2 ^ 128 then (db, "bad-op") else
          match lmBurn s.lm a with
          | some l => rbufOut db sid { s with lm := l } "ok"
          | none => rbufOut db sid s "err"
        | none => (db, "bad-op")
      | "supply", [] =>
        if s.mode ≠ 2 then (db, "bad-op") else rbufOut db sid s s!"ok {lmTotalSupply s.lm}"
      | "pread", [] =>
        if s.mode ≠ 3 then (db, "bad-op")
        else rbufOut db sid s s!"ok {joinSp (((pbRead s.pos).drop 4).map toString)}"
      | "pwrite", [i, v] =>
        match pNat i, pNat v with
        | some i, some v =>
          if s.mode ≠ 3 ∨ i < 4 ∨ i > 10 ∨ v ≥ 2 ^ 126 then (db, "bad-op")
          else rbufOut db sid { s with pos := pbWrite s.pos (fun x => x.set i (v : Int)) } "ok"
        | _, _ => (db, "bad-op")
      | "ptouch", [kind, slot, now] =>
        match pNat slot, pInt now with
        | some slot, some now =>
          if s.mode ≠ 3 ∨ (kind ≠ "inc" ∧ kind ≠ "dec") then (db, "bad-op") else
          -- `next_trade_id`: STORED trade count + 1, written to the buffered other state
          let tid := (s.m.store 17).val.getD 3 0 + 1
          let m' := write s.m 17 (fun x => x.set 3 tid)
          let f : List Int → List Int := fun x =>
            let x := (x.set 0 tid).set 2 (slot : Int)
            if kind = "inc" then x.set 1 now else x.set 3 now
          rbufOut db sid { s with m := m', pos := pbWrite s.pos f } "ok"
        | _, _ => (db, "bad-op")
      | "vbegin", [] =>
        if s.viOpen then (db, "bad-op") else
        match viBegin 64 s.vi with
        | none => rbufOut db sid s "panic"
        | some v => rbufOut db sid { s with vi := v, viOpen := true } "ok"
      | "vcommit", [] =>
        if !s.viOpen then (db, "bad-op") else rbufOut db sid { s with vi := viCommit s.vi, viOpen := false } "ok"
      | "vabandon", [] =>
        if !s.viOpen then (db, "bad-op") else rbufOut db sid { s with viOpen := false } "ok"
      | "vsetrev", [v] =>
        match pNat v with
        | some v =>
          if s.viOpen ∨ v < s.vi.rev ∨ v ≥ 2 ^ 64 then (db, "bad-op")
          else rbufOut db sid { s with vi := { s.vi with rev := v } } "ok"
        | none => (db, "bad-op")
      | "vread", [] =>
        if !s.viOpen then (db, "bad-op") else rbufOut db sid s s!"ok {joinSp ((viRead s.vi).map toString)}"
      | "vwrite", [side, d] =>
        match sideIx side, pInt d with
        | some i, some d =>
          if !s.viOpen then (db, "bad-op") else
          let cur := viRead s.vi
          let ok := poolDelta i d cur != cur ∨ d = 0
          rbufOut db sid { s with vi := viWrite s.vi (poolDelta i d) } (if ok then "ok" else "err")
        | _, _ => (db, "bad-op")
      | "setrev", [v] =>
        match pNat v with
        | some v =>
          if s.isOpen ∨ v < s.m.rev ∨ v ≥ 2 ^ 64 then (db, "bad-op")
          else rbufOut db sid { s with m := { s.m with rev := v } } "ok"
        | none => (db, "bad-op")
      | "rpool", [k] =>
        match pNat k with
        | some k =>
          if !s.isOpen ∨ k ≥ 16 then (db, "bad-op")
          else rbufOut db sid s s!"ok {joinSp ((read s.m k).map toString)}"
        | none => (db, "bad-op")
      | "rclock", [i, now] =>
        match pNat i, pInt now with
        | some i, some now =>
          if !s.isOpen ∨ i ≥ 2 then (db, "bad-op")
          else rbufOut db sid s s!"ok {passed i now (read s.m 16)}"
        | _, _ => (db, "bad-op")
      | "rother", [] =>
        if !s.isOpen then (db, "bad-op")
        else rbufOut db sid s s!"ok {joinSp (((read s.m 17).take 3).map toString)}"
      | "wpool", [k, side, d] =>
        match pNat k, sideIx side, pInt d with
        | some k, some i, some d =>
          if !s.isOpen ∨ k ≥ 16 then (db, "bad-op") else
          let cur := read s.m k
          let ok := poolDelta i d cur != cur ∨ d = 0
          rbufOut db sid { s with m := write s.m k (poolDelta i d) } (if ok then "ok" else "err")
        | _, _, _ => (db, "bad-op")
      | "wclock", [i, now] =>
        match pNat i, pInt now with
        | some i, some now =>
          if !s.isOpen ∨ i ≥ 3 then (db, "bad-op") else
          let p := passed i now (read s.m 16)
          rbufOut db sid { s with m := write s.m 16 (clockTick i now) } s!"ok {p}"
        | _, _ => (db, "bad-op")
      | "wffps", [v] =>
        match pInt v with
        | some v =>
          if !s.isOpen then (db, "bad-op")
          else rbufOut db sid { s with m := write s.m 17 (fun x => x.set 2 v) } "ok"
        | none => (db, "bad-op")
      | "wbal", [side, dir, amt] =>
        match sideIx side, pNat amt with
        | some i, some amt =>
          if !s.isOpen ∨ (dir ≠ "in" ∧ dir ≠ "out") ∨ amt ≥ 2 ^ 64 then (db, "bad-op") else
          let cur := read s.m 17
          let isIn := dir = "in"
          let ok := balMove i isIn amt cur != cur ∨ amt = 0
          rbufOut db sid { s with m := write s.m 17 (balMove i isIn amt) } (if ok then "ok" else "err")
        | _, _ => (db, "bad-op")
      | _, _ => (db, "bad-op")
  | _ => (db, "bad-op")

end Gmx.Drv
