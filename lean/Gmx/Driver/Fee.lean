import Gmx.Model.Fee
import Gmx.Driver.Util
-- ENGINE fee feeEngine stateless
/-! driver engine `fee` — C02 -/
namespace Gmx.Drv
open Gmx

def pBC (s : String) : Option BalanceChange :=
  if s = "0" then some .improved else if s = "1" then some .worsened
  else if s = "2" then some .unchanged else none

def feeEngine (args : List String) : String :=
  match args with
  | ["apply", w, u, pos, neg, recv, disc, bc, a] =>
    match allNat [w, u, pos, neg, recv, disc, a], pBC bc with
    | some [w, u, pos, neg, recv, disc, a], some bc =>
      match applyFees w u ⟨pos, neg, recv, disc⟩ bc a with
      | some (net, f) => s!"ok {net} {f.pool} {f.receiver}"
      | none => "none"
    | _, _ => "bad-op"
  | ["fee", w, u, pos, neg, recv, disc, bc, a] =>
    match allNat [w, u, pos, neg, recv, disc, a], pBC bc with
    | some [w, u, pos, neg, recv, disc, a], some bc => showOptNat (feeOf w u ⟨pos, neg, recv, disc⟩ bc a)
    | _, _ => "bad-op"
  | ["order", w, u, pos, neg, recv, disc, pmin, pmax, size, bc] =>
    match allNat [w, u, pos, neg, recv, disc, pmin, pmax, size], pBC bc with
    | some [w, u, pos, neg, recv, disc, pmin, pmax, size], some bc =>
      match orderFees w u ⟨pos, neg, recv, disc⟩ pmin pmax size bc with
      | .ok o => s!"ok {o.pool} {o.receiver} {o.feeValue}"
      | .error .invalidPrices => "err InvalidPrices"
      | .error .computation => "err Computation"
    | _, _ => "bad-op"
  | ["liq", w, u, factor, recv, size, pmin] =>
    match allNat [w, u, factor, recv, size, pmin] with
    | some [w, u, factor, recv, size, pmin] =>
      match liquidationFee w u factor recv size pmin with
      | some l => s!"ok {l.feeValue} {l.amount} {l.receiver}"
      | none => "none"
    | _ => "bad-op"
  | _ => "bad-op"

end Gmx.Drv
