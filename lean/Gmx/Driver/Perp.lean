import Gmx.Model.Perp
import Gmx.Driver.Market
import Gmx.Model.Liquidity
import Gmx.Model.Swap
-- ENGINE perp PerpE.perpEngine stateful Gmx.Drv.PerpE.PerpDb []
/-! driver engine `perp` — C07, C08, C09, C10 (positions over the market state).

`perp new <sid> <W> <U> <30 market config numbers (as `mkt new`)> <10 perp config> <8 funding> <8 borrowing>`
· `perp setpool <sid> <kind> <long> <short>` · `perp tick <sid> <secs>` · `perp dist <sid>`
· `perp ubor <sid> <6 prices>` · `perp ufund <sid> <6 prices>` · `perp open <sid> <pid> <isLong> <collLong>`
· `perp inc <sid> <pid> <collateral> <size> <6 prices>` · `perp dec <sid> <pid> <size> <withdraw> <insolvent> <liquidation> <cap> <6 prices>` (the response ends with the flag
  "`on_insufficient_funding_fee_payment` was reported")
· `perp chk <sid> <pid> <minCollUsd> <forLiq> <6 prices>` (check_liquidatable, read only)
· `perp swap <sid> <isInLong> <amount> <6 prices>` · `perp dep <sid> <long> <short> <6 prices>` · `perp wdr <sid> <market tokens> <6 prices>` · `perp pv <sid> <kind> <maximize> <6 prices>`
  (mkt-liq's deposit / withdraw / pool_value WITH the open interest of the session: pending borrowing fees, capped pnl).
A failing operation leaves the state unchanged. Every response ends with `| <market digest> | <positions>`. -/
namespace Gmx.Drv.PerpE
open Gmx Gmx.Perp Gmx.Drv

structure PerpSt where
  W : Nat
  U : Nat
  m : Market
  c : PerpCfg
  rc : RateCfg
  ps : List (Nat × Pos)

abbrev PerpDb := List (String × PerpSt)

def perpGet (db : PerpDb) (sid : String) : Option PerpSt := (db.find? (fun e => e.1 == sid)).map (·.2)
def perpPut (db : PerpDb) (sid : String) (s : PerpSt) : PerpDb := (sid, s) :: db.filter (fun e => e.1 != sid)

def posGet (ps : List (Nat × Pos)) (pid : Nat) : Option Pos := (ps.find? (fun e => e.1 == pid)).map (·.2)
def posPut (ps : List (Nat × Pos)) (pid : Nat) (p : Pos) : List (Nat × Pos) :=
  let rest := ps.filter (fun e => e.1 != pid)
  let (lo, hi) := rest.partition (fun e => e.1 < pid)
  lo ++ [(pid, p)] ++ hi

def showPos (e : Nat × Pos) : String :=
  let p := e.2
  s!"{e.1}:{showBool p.isLong}{showBool p.collLong},{p.collateral},{p.sizeUsd},{p.sizeTokens},{p.bf},{p.fIdx},{p.cIdxL},{p.cIdxS}"

def perpDigest (s : PerpSt) : String :=
  s!"{mktDigest s.m} | {";".intercalate (s.ps.map showPos)}"

def showStep : Step → String
  | .pnl => "pnl" | .fees => "fees" | .funding => "funding" | .impact => "impact" | .diff => "diff"

def showReason : LiqReason → String
  | .minCollateral => "mincollateral" | .notPositive => "notpositive" | .minCollateralForLeverage => "leverage"

def showPErr : PErr → String
  | .fail => "err fail" | .prices => "err prices" | .arg => "err arg" | .invalidPosition => "err invalidpos"
  | .liquidatable r => s!"err liquidatable {showReason r}" | .notLiquidatable => "err notliquidatable"
  | .insufficient st => s!"err insufficient {showStep st}" | .reserve => "err reserve" | .oiReserve => "err oireserve"
  | .maxOI => "err maxoi"

def showFees (f : PosFees) : String :=
  let l := match f.liq with | some l => s!"{l.feeValue},{l.amount},{l.receiver}" | none => "_"
  s!"{f.paidValue} {f.orderPool} {f.orderRecv} {f.orderValue} {f.borrowAmount} {f.borrowRecv} {f.fundAmount} {f.claimL} {f.claimS} {l}"

def perpReply (db : PerpDb) (sid : String) (s : PerpSt) (r : String) : PerpDb × String :=
  (perpPut db sid s, s!"{r} | {perpDigest s}")

def perpOp (db : PerpDb) (sid : String) (s : PerpSt) (op : String) (args : List String) : PerpDb × String :=
  let W := s.W
  let U := s.U
  match op, args with
  | "tick", [secs] =>
    match pNat secs with
    | some n => if s.m.now + n ≥ 2 ^ 64 then (db, "bad-op") else perpReply db sid { s with m := s.m.tick n } "ok"
    | none => (db, "bad-op")
  | "setpool", [k, l, sh] =>
    match allNat [k, l, sh] with
    | some [k, l, sh] =>
      if l ≥ 2 ^ W ∨ sh ≥ 2 ^ W then (db, "bad-op") else
      match mktSetPool s.m k ⟨l, sh⟩ with
      | some m' => perpReply db sid { s with m := m' } "ok"
      | none => (db, "bad-op")
    | _ => (db, "bad-op")
  | "dist", [] =>
    match distributePositionImpact W U s.m with
    | (m', some r) => perpReply db sid { s with m := m' } s!"ok {r.distributed} {r.next}"
    | (_, none) => perpReply db sid s "err fail"
  | "ubor", prices =>
    match allNat prices >>= parsePrices W with
    | some pr =>
      match marketUpdateBorrowing W U s.m s.rc pr with
      | .ok m' => perpReply db sid { s with m := m' } s!"ok {m'.borrowingFactor.long} {m'.borrowingFactor.short}"
      | .error e => perpReply db sid s (showPErr e)
    | none => (db, "bad-op")
  | "ufund", prices =>
    match allNat prices >>= parsePrices W with
    | some pr =>
      match marketUpdateFunding W U s.m s.rc pr with
      | .ok m' => perpReply db sid { s with m := m' } s!"ok {m'.fundingFactorPerSecond}"
      | .error e => perpReply db sid s (showPErr e)
    | none => (db, "bad-op")
  | "open", [pid, il, cl] =>
    match pNat pid, pBool il, pBool cl with
    | some pid, some il, some cl =>
      if (posGet s.ps pid).isSome then (db, "bad-op") else
      perpReply db sid { s with ps := posPut s.ps pid { isLong := il, collLong := cl } } "ok"
    | _, _, _ => (db, "bad-op")
  | "inc", pid :: coll :: size :: prices =>
    match pNat pid, pNat coll, pNat size, allNat prices >>= parsePrices W with
    | some pid, some coll, some size, some pr =>
      if coll ≥ 2 ^ W ∨ size ≥ 2 ^ W then (db, "bad-op") else
      match posGet s.ps pid with
      | none => (db, "bad-op")
      | some p =>
        match increase W U s.m s.c pr p coll size with
        | .ok (m', p', r) =>
          perpReply db sid { s with m := m', ps := posPut s.ps pid p' }
            s!"ok {r.impactValue} {r.impactAmount} {r.sizeDeltaTokens} {r.collateralDelta} {showFees r.fees}"
        | .error e => perpReply db sid s (showPErr e)
    | _, _, _, _ => (db, "bad-op")
  | "dec", pid :: size :: wd :: ins :: liq :: cap :: prices =>
    match pNat pid, pNat size, pNat wd, allNat prices >>= parsePrices W with
    | some pid, some size, some wd, some pr =>
      match pBool ins, pBool liq, pBool cap with
      | some ins, some liq, some cap =>
        if wd ≥ 2 ^ W ∨ size ≥ 2 ^ W then (db, "bad-op") else
        match posGet s.ps pid with
        | none => (db, "bad-op")
        | some p =>
          match decrease W U s.m s.c pr p size wd ⟨ins, liq, cap⟩ with
          | .ok (m', p', r) =>
            let st := match r.insolventStep with | some x => showStep x | none => "_"
            perpReply db sid { s with m := m', ps := posPut s.ps pid p' }
              s!"ok {r.sizeDelta} {r.sizeDeltaTokens} {r.impactValue} {r.impactDiff} {r.pnl} {r.uncappedPnl} {r.withdrawable} {showBool r.shouldRemove} {r.output} {r.secondary} {r.holdOut} {r.holdSec} {r.userOut} {r.userSec} {st} {showFees r.fees} {showBool r.fundingShort}"
          | .error e => perpReply db sid s (showPErr e)
      | _, _, _ => (db, "bad-op")
    | _, _, _, _ => (db, "bad-op")
  | "chk", pid :: mc :: fl :: prices =>
    match pNat pid, pBool mc, pBool fl, allNat prices >>= parsePrices W with
    | some pid, some mc, some fl, some pr =>
      match posGet s.ps pid with
      | none => (db, "bad-op")
      | some p =>
        match checkLiquidatable W U s.m s.c pr p mc fl with
        | .ok none => perpReply db sid s "ok none"
        | .ok (some r) => perpReply db sid s s!"ok {showReason r}"
        | .error e => perpReply db sid s (showPErr e)
    | _, _, _, _ => (db, "bad-op")
  | "dep", l :: sh :: prices =>
    match pNat l, pNat sh, allNat prices >>= parsePrices W with
    | some l, some sh, some pr =>
      if l ≥ 2 ^ W ∨ sh ≥ 2 ^ W then (db, "bad-op") else
      match perpInOf W U s.m s.rc pr with
      | none =>
        -- the emptiness check of `Deposit::try_new` comes before any pool value is computed
        perpReply db sid s (if l = 0 ∧ sh = 0 then showMErr .emptyDeposit else "err Fail")
      | some pin =>
        match deposit W U s.m ⟨l, sh, pr⟩ pin with
        | (m', .ok t) =>
          let r := t.report
          perpReply db sid { s with m := m' } s!"ok {r.minted} {r.priceImpact} {r.feesL.pool} {r.feesL.receiver} {r.feesS.pool} {r.feesS.receiver}"
        | (_, .error e) => perpReply db sid s (showMErr e)
    | _, _, _ => (db, "bad-op")
  | "wdr", amt :: prices =>
    match pNat amt, allNat prices >>= parsePrices W with
    | some amt, some pr =>
      if amt ≥ 2 ^ W then (db, "bad-op") else
      match perpInOf W U s.m s.rc pr with
      | none =>
        -- the emptiness check of `Withdrawal::try_new` comes before any pool value is computed
        perpReply db sid s (if amt = 0 then showMErr .emptyWithdrawal else "err Fail")
      | some pin =>
        match withdraw W U s.m ⟨amt, pr⟩ pin with
        | (m', .ok r) =>
          perpReply db sid { s with m := m' } s!"ok {r.longOut} {r.shortOut} {r.feesL.pool} {r.feesL.receiver} {r.feesS.pool} {r.feesS.receiver}"
        | (_, .error e) => perpReply db sid s (showMErr e)
    | _, _ => (db, "bad-op")
  | "swap", il :: amt :: prices =>
    match pBool il, pNat amt, allNat prices >>= parsePrices W with
    | some il, some amt, some pr =>
      if amt ≥ 2 ^ W then (db, "bad-op") else
      match swap W U s.m ⟨il, amt, pr⟩ with
      | .ok (m', c) =>
        perpReply db sid { s with m := m' } s!"ok {c.tokenOut} {c.impactValue} {c.impactAmount} {c.fees.pool} {c.fees.receiver}"
      | .error e => perpReply db sid s (showMErr e)
    | _, _, _ => (db, "bad-op")
  | "pv", k :: mx :: prices =>
    match pNat k >>= pKind, pBool mx, allNat prices >>= parsePrices W with
    | some kind, some mx, some pr =>
      match (perpInOf W U s.m s.rc pr).bind (fun pin => poolValue W U s.m pr kind mx pin) with
      | some v => perpReply db sid s s!"ok {v}"
      | none => perpReply db sid s "err Fail"
    | _, _, _ => (db, "bad-op")
  | _, _ => (db, "bad-op")

def perpEngine (db : PerpDb) (args : List String) : PerpDb × String :=
  match args with
  | "new" :: sid :: w :: u :: cfg =>
    match allNat (w :: u :: cfg) with
    | some (W :: U :: xs) =>
      if ¬ ((W = 64 ∧ U = 10 ^ 9) ∨ (W = 128 ∧ U = 10 ^ 20)) then (db, "bad-op") else
      if xs.length ≠ 56 ∨ xs.any (fun x => x ≥ 2 ^ W) then (db, "bad-op") else
      match parseCfg W (xs.take 30), xs.drop 30 with
      | some (cfg, vi, vp), [mps, mcv, mcf, mcfl, mxp, mxn, mxl, oim, lf, lr,
                              fe, ff, fi, fd, fmx, fmn, fts, ftd, skip, el, fl, es, fs, opt, base, above] =>
        if skip > 1 then (db, "bad-op") else
        let m : Market := { cfg := cfg, viSwaps := if vi then some {} else none, viPositions := if vp then some {} else none }
        let c : PerpCfg := ⟨mps, mcv, mcf, mcfl, mxp, mxn, mxl, oim, lf, lr⟩
        let common : BorrowCommon := ⟨skip == 1, cfg.oiReserveFactor, cfg.ignoreOiForUsage⟩
        let rc : RateCfg := ⟨⟨fe, ff, fi, fd, fmx, fmn, fts, ftd⟩, common,
          ⟨el, fl, opt, base, above, cfg.maxOpenInterest⟩, ⟨es, fs, opt, base, above, cfg.maxOpenInterest⟩⟩
        let s : PerpSt := ⟨W, U, m, c, rc, []⟩
        (perpPut db sid s, s!"ok | {perpDigest s}")
      | _, _ => (db, "bad-op")
    | _ => (db, "bad-op")
  | op :: sid :: rest =>
    match perpGet db sid with
    | some s => perpOp db sid s op rest
    | none => (db, "bad-op")
  | _ => (db, "bad-op")

end Gmx.Drv.PerpE
