import Gmx.Model.Access
import Gmx.Gen.StoreBinding
import Gmx.Gen.ConstraintFacts
import Gmx.Driver.Util
-- ENGINE c19 C19.c19Engine stateless
/-! driver engine `c19` — does a caller holding exactly one role (or none) pass the generated
`#[access_control]` guard of an instruction? -/
namespace Gmx.Drv.C19
open Gmx.Drv
open Gmx.Gen.Access Gmx.Access

def c19Engine (args : List String) : String :=
  match args with
  | ["call", ix, role] =>
    match IxId.all.find? (fun i => i.name == "store::" ++ ix) with
    | none => "noix"
    | some i =>
      let has : Role → Bool := fun r => r.name == role
      if guardOk (info i).attr has then "passed" else "denied same"
  | ["gcall", prog, ix, role] =>
    match IxId.all.find? (fun i => i.name == prog ++ "::" ++ ix) with
    | none => "noix"
    | some i =>
      let has : Role → Bool := fun r => r.name == role
      -- `validate_timelocked_role(ctx, role)` with the (empty) role argument of the synthesised call: the caller
      -- must hold `timelocked_role("") = "__TLD_"`
      if handlerAuth i == .timelockedRole then (if role == "__TLD_" then "passed" else "denied same")
      else if guardOk (info i).attr has then "passed"
      -- Anchor `init` creates the account during account validation, before the guard: natively
      -- that creation is visible (on chain the failed transaction rolls it back)
      else if (info i).inits > 0 then "denied init-only" else "denied same"
  | ["ocall", prog, ix, who] =>
    match IxId.all.find? (fun i => i.name == prog ++ "::" ++ ix) with
    | none => "noix"
    | some i => if ownerCallPasses i (who == "owner") then "passed" else "denied clean"
  | ["fcall", prog, ix, acct] =>
    -- the right role holder presents `acct` belonging to ANOTHER store
    match IxId.all.find? (fun i => i.name == prog ++ "::" ++ ix) with
    | none => "noix"
    | some i =>
      match (Gmx.Gen.StoreBinding.stateAccounts i).find? (fun a => a.name == acct) with
      | none => "noacct"
      | some a => match a.binding with
        | .unbound => "accepted"
        | .noStore => "accepted"
        | _ => "rejected clean"
  | ["scall", prog, ix, acct, target] =>
    -- the right caller presents a SIBLING of `acct`: same type and store, but related to a different `target`
    match IxId.all.find? (fun i => i.name == prog ++ "::" ++ ix) with
    | none => "noix"
    | some i => if (Gmx.Gen.ConstraintFacts.hasOnes i).contains (acct, target) then "rejected clean" else "accepted"
  | ["count"] => s!"ok {IxId.all.length}"
  | _ => "bad-op"

end Gmx.Drv.C19
