import Gmx.Model.ConfigAccess
import Gmx.Driver.Util
-- ENGINE c16 Tbl.c16Engine stateless
/-! driver engine `c16` — config key read/write and model-parameter reads, answered from the
generated tables (C16). The harness fills every key with `1000000 + index`. -/
namespace Gmx.Drv.Tbl
open Gmx.Drv
open Gmx.Gen.MarketConfig Gmx.Gen.Pools Gmx.Gen.Wiring Gmx.Gen.StoreKeys Gmx.ConfigAccess

def c16Base : Nat := 1000000

def showVal : Option Val → String
  | some (.num n) => s!"ok {n}"
  | some (.opt (some n)) => s!"ok {n}"
  | some (.opt none) => "none"
  | some (.bool b) => s!"ok b{showBool b}"
  | none => "norow"

def cfgWithMask (c : Cfg) (mask : Nat) : Cfg :=
  Flag.all.foldl (fun c x => c.setFlag x (mask.testBit x.bit)) c

def pSide (s : String) : Option (Option Bool) :=
  if s = "-" then some none else (pBool s).map some

def fillStore : StoreCfg :=
  let s := StoreCfg.zero
  let s := AmountKey.all.foldl (fun s k => (s.setAmount k (c16Base + (AmountKey.all.idxOf k))).getD s) s
  let s := FactorKey.all.foldl (fun s k => (s.setFactor k (c16Base + (FactorKey.all.idxOf k))).getD s) s
  AddressKey.all.foldl (fun s k => (s.setAddress k (c16Base + (AddressKey.all.idxOf k))).getD s) s

def showOpt (tag : String) : Option Nat → String
  | some n => s!"ok {n}"
  | none => tag

def c16Core (args : List String) : String :=
  match args with
  | ["rw", wk, v, rk] =>
    match Key.ofSnake? wk, pNat v, Key.ofSnake? rk with
    | some wk, some v, some rk =>
      match (sentinelCfg c16Base).set wk v with
      | some c => showOpt "unimplemented" (c.get rk)
      | none => "unimplemented"
    | none, some _, _ => "nokey"
    | _, some _, none => "nokey"
    | _, _, _ => "bad-op"
  | ["param", closed, mask, wk, v, m, var, side, p] =>
    match pBool closed, pNat mask, pNat v, Method.ofName? m, Variant.ofName? var, pSide side, Param.ofName? p with
    | some closed, some mask, some v, some m, some var, some side, some p =>
      let c := cfgWithMask (sentinelCfg c16Base) mask
      let c := if wk = "-" then some c else (Key.ofSnake? wk).bind (fun k => c.set k v)
      match c with
      | some c => showVal (c.readParam closed m var side p)
      | none => "nokey"
    | some _, some _, some _, _, _, some _, _ => "norow"
    | _, _, _, _, _, _, _ => "bad-op"
  | ["flagrw", mask, wf, b, rf] =>
    match pNat mask, Flag.ofSnake? wf, pBool b, Flag.ofSnake? rf with
    | some mask, some wf, some b, some rf =>
      s!"ok {showBool (((cfgWithMask Cfg.zero mask).setFlag wf b).flag rf)}"
    | some _, _, some _, _ => "noflag"
    | _, _, _, _ => "bad-op"
  | ["store", "amount", wk, v, rk] =>
    match AmountKey.ofSnake? wk, pNat v, AmountKey.ofSnake? rk with
    | some wk, some v, some rk =>
      match fillStore.setAmount wk v with
      | some s => showOpt "unimplemented" (s.getAmount rk)
      | none => "refused"
    | _, some _, _ => "nokey"
    | _, _, _ => "bad-op"
  | ["store", "factor", wk, v, rk] =>
    match FactorKey.ofSnake? wk, pNat v, FactorKey.ofSnake? rk with
    | some wk, some v, some rk =>
      match fillStore.setFactor wk v with
      | some s => showOpt "unimplemented" (s.getFactor rk)
      | none => "refused"
    | _, some _, _ => "nokey"
    | _, _, _ => "bad-op"
  | ["store", "address", wk, v, rk] =>
    match AddressKey.ofSnake? wk, pNat v, AddressKey.ofSnake? rk with
    | some wk, some v, some rk =>
      match fillStore.setAddress wk v with
      | some s => showOpt "unimplemented" (s.getAddress rk)
      | none => "refused"
    | _, some _, _ => "nokey"
    | _, _, _ => "bad-op"
  | ["nrows"] =>
    let n := (progWiring.filter fun r => match r.src with
      | .field _ => true | .flag _ => true | .helper _ _ => true | _ => false).length
    s!"ok {n} {Key.all.length} {Flag.all.length} {AmountKey.all.length} {FactorKey.all.length} {AddressKey.all.length}"
  | _ => "bad-op"

/-- `pparam <pure> …` = `param …` on a market with `MarketFlag::Pure` set to `<pure>`: the wiring of config
fields into model parameters does not depend on the flag -/
def c16Engine (args : List String) : String :=
  match args with
  | "pparam" :: pure :: rest => if (pBool pure).isSome then c16Core ("param" :: rest) else "bad-op"
  | _ => c16Core args

end Gmx.Drv.Tbl
