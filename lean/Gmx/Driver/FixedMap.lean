import Gmx.Model.FixedMap
import Gmx.Driver.Util
-- ENGINE map mapEngine stateful MapSt mapInit
/-! driver engine `map` — C34. One `FMap` per state id. Keys/values are decimal naturals
(a `[u8; N]` key is sent as its big-endian number). -/
namespace Gmx.Drv
open Gmx.FixedMap

abbrev MapSt := List (String × FMap)
def mapInit : MapSt := []

def mapFind (s : MapSt) (sid : String) : Option FMap := (s.find? (·.1 == sid)).map (·.2)
def mapPut (s : MapSt) (sid : String) (m : FMap) : MapSt := (sid, m) :: s.filter (·.1 != sid)

def showOV : Option Nat → String
  | none => "ok none"
  | some v => s!"ok some {v}"

def showIns : InsResp → String
  | .ok p => showOV p
  | .alreadyExist => "err AlreadyExist"
  | .exceedMax => "err Full"

def showDump (m : FMap) : String :=
  s!"n={m.count} " ++ joinSp ((view m).map fun e => s!"{e.1}:{e.2}") ++ s!" z={showBool (tailZero m)}"

def mapEngine (s : MapSt) (args : List String) : MapSt × String :=
  match args with
  | ["new", sid, cap] =>
    match pNat cap with
    | some cap => (mapPut s sid (empty cap), "ok")
    | none => (s, "bad-op")
  | op :: sid :: rest =>
    match mapFind s sid with
    | none => (s, "bad-op")
    | some m =>
      match op, rest.mapM pNat with
      | "insert", some [k, v, nw] =>
        if nw > 1 then (s, "bad-op") else
        match insertWithOptions m k v (nw == 1) with
        | none => (s, "panic")
        | some (m', r) => (mapPut s sid m', s!"{showIns r} | n={m'.count}")
      | "remove", some [k] =>
        match remove m k with
        | none => (s, "panic")
        | some (m', r) => (mapPut s sid m', s!"{showOV r} | n={m'.count}")
      | "get", some [k] =>
        match get m k with
        | none => (s, "panic")
        | some r => (s, showOV r)
      | "entry", some [i] =>
        match getEntryByIndex m i with
        | none => (s, "panic")
        | some none => (s, "ok none")
        | some (some e) => (s, s!"ok {e.1} {e.2}")
      | "clear", some [] =>
        match clear m with
        | none => (s, "panic")
        | some m' => (mapPut s sid m', "ok | n=0")
      | "dump", some [] => (s, showDump m)
      | _, _ => (s, "bad-op")
  | _ => (s, "bad-op")

end Gmx.Drv
