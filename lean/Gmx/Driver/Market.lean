import Gmx.Model.Market
import Gmx.Driver.Util
/-! shared pieces of the `mkt` engine: state database, config parsing, digest.

The digest lists ALL pools in `PoolKind` order as `long,short`, then supply, funding factor per
second, the clock, the three market clocks and the two optional virtual inventories. -/
namespace Gmx.Drv
open Gmx

structure MktSt where
  W : Nat
  U : Nat
  m : Market

abbrev MktDb := List (String × MktSt)

def mktGet (db : MktDb) (sid : String) : Option MktSt := (db.find? (fun e => e.1 == sid)).map (·.2)

def mktPut (db : MktDb) (sid : String) (s : MktSt) : MktDb :=
  (sid, s) :: db.filter (fun e => e.1 != sid)

def showPool (p : Pool) : String := s!"{p.long},{p.short}"

def showOptPool : Option Pool → String
  | none => "_"
  | some p => showPool p

def showClock : Option Nat → String
  | none => "_"
  | some c => toString c

def mktPools (m : Market) : List Pool :=
  [m.primary, m.swapImpact, m.fee, m.oiL, m.oiS, m.oitL, m.oitS, m.positionImpact, m.borrowingFactor,
   m.fapsL, m.fapsS, m.cfapsL, m.cfapsS, m.collL, m.collS, m.totalBorrowing]

def mktSetPool (m : Market) (k : Nat) (p : Pool) : Option Market :=
  match k with
  | 0 => some { m with primary := p } | 1 => some { m with swapImpact := p } | 2 => some { m with fee := p }
  | 3 => some { m with oiL := p } | 4 => some { m with oiS := p } | 5 => some { m with oitL := p }
  | 6 => some { m with oitS := p } | 7 => some { m with positionImpact := p }
  | 8 => some { m with borrowingFactor := p } | 9 => some { m with fapsL := p } | 10 => some { m with fapsS := p }
  | 11 => some { m with cfapsL := p } | 12 => some { m with cfapsS := p } | 13 => some { m with collL := p }
  | 14 => some { m with collS := p } | 15 => some { m with totalBorrowing := p }
  | _ => none

def mktDigest (m : Market) : String :=
  let ps := ";".intercalate ((mktPools m).map showPool)
  s!"{ps} s={m.supply} ff={m.fundingFactorPerSecond} now={m.now} ck={showClock m.clockImpactDist},{showClock m.clockBorrowing},{showClock m.clockFunding} vi={showOptPool m.viSwaps} vp={showOptPool m.viPositions}"

def showMErr : MErr → String
  | .fail => "err Fail" | .emptySwap => "err EmptySwap" | .emptyDeposit => "err EmptyDeposit"
  | .emptyWithdrawal => "err EmptyWithdrawal" | .invalidPrices => "err InvalidPrices"
  | .poolAmount => "err PoolAmount" | .poolValue => "err PoolValue" | .reserve => "err Reserve"
  | .pnlFactor => "err PnlFactor" | .invalidPoolValue => "err InvalidPoolValue" | .panic => "err Panic"

/-- 28 numbers after `W U`:
swapImpact(e,pos,neg) swapFee(pos,neg,recv) posImpact(e,pos,neg) orderFee(pos,neg,recv)
distFactor minPip borrowRecv reserve oiReserve pnlDeposit pnlWithdrawal pnlTrader pnlAdl minPnlAdl
maxPoolAmount maxPoolValueForDeposit maxOi ignoreOi divisor fundingAdj viSwaps viPositions -/
def parseCfg30 (W : Nat) (xs : List Nat) : Option (MarketConfig × Bool × Bool) :=
  if xs.any (fun x => x ≥ 2 ^ W) then none else
  match xs with
  | [sie, sip, sin, sfp, sfn, sfr, pie, pip, pin, ofp, ofn, ofr, df, mp, br, rf, oirf, pd, pw, pt, pa, mpa,
     mxa, mxv, moi, ign, dv, fa, vi, vp] =>
    if ign > 1 ∨ vi > 1 ∨ vp > 1 then none else
    some ({ swapImpact := ⟨sie, sip, sin⟩, swapFee := ⟨sfp, sfn, sfr, 0⟩, positionImpact := ⟨pie, pip, pin⟩,
            orderFee := ⟨ofp, ofn, ofr, 0⟩, distributeFactor := df, minPositionImpactPool := mp,
            borrowingReceiverFactor := br, reserveFactor := rf, oiReserveFactor := oirf,
            maxPnlDeposit := pd, maxPnlWithdrawal := pw, maxPnlTrader := pt, maxPnlAdl := pa,
            minPnlAfterAdl := mpa, maxPoolAmount := mxa, maxPoolValueForDeposit := mxv,
            maxOpenInterest := moi, ignoreOiForUsage := ign == 1, divisor := dv, fundingAdjustment := fa },
          vi == 1, vp == 1)
  | _ => none

/-- 30 numbers, or 31: the optional last one is the swap fee DISCOUNT factor
(`FeeParams::with_discount_factor`; absent = `None` = 0) -/
def parseCfg (W : Nat) (xs : List Nat) : Option (MarketConfig × Bool × Bool) :=
  if xs.length = 31 then
    match parseCfg30 W (xs.take 30), xs.drop 30 with
    | some (cfg, vi, vp), [d] =>
      if d ≥ 2 ^ W then none else some ({ cfg with swapFee := { cfg.swapFee with disc := d } }, vi, vp)
    | _, _ => none
  else parseCfg30 W xs

def parsePrices (W : Nat) (xs : List Nat) : Option Prices :=
  if xs.any (fun x => x ≥ 2 ^ W) then none else
  match xs with
  | [a, b, c, d, e, f] => some ⟨⟨a, b⟩, ⟨c, d⟩, ⟨e, f⟩⟩
  | _ => none

def pKind (n : Nat) : Option PnlFactorKind :=
  match n with
  | 0 => some .maxAfterDeposit | 1 => some .maxAfterWithdrawal | 2 => some .maxForTrader
  | 3 => some .forAdl | 4 => some .minAfterAdl | _ => none

end Gmx.Drv
