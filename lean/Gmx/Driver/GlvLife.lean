import Gmx.Model.GlvLife
import Gmx.Driver.Util
-- ENGINE gl glEngine stateful GlState glInit
/-! driver engine `gl` — native GLV deposit / withdrawal life cycles (C45, C23 clauses for GLV actions) -/
namespace Gmx.Drv
open Gmx.GlvLife

abbrev GlState := List (String × St)
def glInit : GlState := []
def glLookup (ss : GlState) (sid : String) : Option St := (ss.find? (fun p => p.1 == sid)).map (·.2)
def glSet (ss : GlState) (sid : String) (s : St) : GlState := (sid, s) :: (ss.filter (fun p => p.1 != sid)).take 4

def glDigest (s : St) : String :=
  let us := (List.range 2).map (fun u => let x := s.users u; s!"{u}:{x.long}:{x.short}:{x.mt0}:{x.mt1}:{x.glv}")
  -- harness order: BTreeMap<(u8, char, u8)>, 'd' < 'w' — the slot order
  let ds := (List.range 8).filterMap (fun k => (s.acts k).map (fun (x : Act) =>
    s!"{x.owner}.{if x.kind = 0 then "d" else "w"}.{k % 2}:{x.state}:{x.m}:{x.escLong}:{x.escShort}:{x.escMt}:{x.escGlv}"))
  let hs := (List.range 2).filterMap (fun i => (s.shifts i).map (fun (x : Shift) => s!"{i}:{x.state}:{x.src}:{x.dst}:{x.amount}"))
  s!"now={s.now} users=[{",".intercalate us}] acts=[{",".intercalate ds}] shifts=[{",".intercalate hs}] vault={s.vaultLong}:{s.vaultShort} glvvault={s.glvVault0}:{s.glvVault1} glvrec={s.glvRec0}:{s.glvRec1} mtsupply={s.mtSupply0}:{s.mtSupply1} glvsupply={glvSupply s}"

def glWho (t : String) : Option Who :=
  if t = "k" then some .keeper else if t = "a" then some .admin
  else match t.toList with
    | 'u' :: rest => match (String.ofList rest).toNat? with | some n => if n < 2 then some (.user n) else none | none => none
    | _ => none

def glKind (t : String) : Option Nat := if t = "d" then some 0 else if t = "w" then some 1 else none

def glId (t : String) : Option Nat :=
  match t.splitOn "." with
  | [u, k, i] => match pNat u, glKind k, pNat i with | some u, some k, some i => if u < 2 && i < 2 then some (slotOf u k i) else none | _, _, _ => none
  | _ => none

def glReply (ss : GlState) (sid : String) (s : St) (r : Option St) : GlState × String :=
  match r with
  | some s' => (glSet ss sid s', s!"ok | {glDigest s'}")
  | none => (ss, s!"err | {glDigest s}")

def glEngine (ss : GlState) (args : List String) : GlState × String :=
  match args with
  | ["new", sid] => let s := init 1000000000000 5000000000 1700000000; (glSet ss sid s, s!"ok | {glDigest s}")
  | ["tick", sid, dt] =>
    match glLookup ss sid, pNat dt with
    | some s, some dt => if dt ≤ 100000 then glReply ss sid s (some (tick s dt)) else (ss, "bad-op")
    | _, _ => (ss, "bad-op")
  | ["price", sid, age] =>
    match glLookup ss sid, pNat age with
    | some s, some age => if age ≤ 100000 then glReply ss sid s (some (price s age)) else (ss, "bad-op")
    | _, _ => (ss, "bad-op")
  | ["mdep", sid, u, m, l, sh, f, x] =>
    match glLookup ss sid, allNat [u, m, l, sh, x], pBool f with
    | some s, some [u, m, l, sh, x], some f =>
      if u < 2 && m < 2 && l < 2 ^ 64 && sh < 2 ^ 64 && x < 2 ^ 64 then glReply ss sid s (mdep s u m l sh f x) else (ss, "bad-op")
    | _, _, _ => (ss, "bad-op")
  | ["create", sid, u, k, i, m, a, b, c, fe] =>
    match glLookup ss sid, glKind k, allNat [u, i, m, a, b, c], fe.splitOn ":" with
    | some s, some k, some [u, i, m, a, b, c], [f, el] =>
      match pBool f, pNat el with
      | some f, some el =>
        if u < 2 && i < 2 && m < 2 && el ≤ 50000000 && a < 2 ^ 64 && b < 2 ^ 64 && c < 2 ^ 64 && (k = 0 || (b = 0 && c = 0)) then
          glReply ss sid s (create s u k i m a b c f el) else (ss, "bad-op")
      | _, _ => (ss, "bad-op")
    | _, _, _, _ => (ss, "bad-op")
  | ["exec", sid, who, id, fee, throw, fl, x, y, z] =>
    match glLookup ss sid, glWho who, glId id, allNat [fee, x, y, z], pBool throw, pBool fl with
    | some s, some who, some slot, some [fee, x, y, z], some throw, some fl =>
      if fee < 2 ^ 64 && x < 2 ^ 64 && y < 2 ^ 64 && z < 2 ^ 64 then
        match exec s who slot fee throw fl x y z with
        | some (s', o, paid) =>
          (glSet ss sid s', s!"ok {if o = Outcome.completed then "completed" else "cancelled"} fee={paid} | {glDigest s'}")
        | none => (ss, s!"err | {glDigest s}")
      else (ss, "bad-op")
    | _, _, _, _, _, _ => (ss, "bad-op")
  | ["close", sid, who, id] =>
    match glLookup ss sid, glWho who, glId id with
    | some s, some who, some slot => glReply ss sid s (close s who slot)
    | _, _, _ => (ss, "bad-op")
  | ["screate", sid, who, i, a, b, c, el] =>
    match glLookup ss sid, glWho who, allNat [i, a, b, c, el] with
    | some s, some who, some [i, a, b, c, el] =>
      if i < 2 && a < 2 && b < 2 && c < 2 ^ 64 && el ≤ 50000000 then glReply ss sid s (screate s who i a b c el) else (ss, "bad-op")
    | _, _, _ => (ss, "bad-op")
  | ["sexec", sid, who, i, fee, throw, fl, x] =>
    match glLookup ss sid, glWho who, allNat [i, fee, x], pBool throw, pBool fl with
    | some s, some who, some [i, fee, x], some throw, some fl =>
      if i < 2 && fee < 2 ^ 64 && x < 2 ^ 64 then
        match sexec s who i fee throw fl x with
        | some (s', o, paid) =>
          (glSet ss sid s', s!"ok {if o = Outcome.completed then "completed" else "cancelled"} fee={paid} | {glDigest s'}")
        | none => (ss, s!"err | {glDigest s}")
      else (ss, "bad-op")
    | _, _, _, _, _ => (ss, "bad-op")
  | ["sclose", sid, who, i] =>
    match glLookup ss sid, glWho who, pNat i with
    | some s, some who, some i => if i < 2 then glReply ss sid s (sclose s who i) else (ss, "bad-op")
    | _, _, _ => (ss, "bad-op")
  | ["rt", sid, u, m, l, sh] =>
    -- round-trip probe on clones of the real world: never changes the state
    match glLookup ss sid, allNat [u, m, l, sh] with
    | some s, some [u, m, l, sh] => if u < 2 && m < 2 && l < 2 ^ 64 && sh < 2 ^ 64 then (ss, s!"ok | {glDigest s}") else (ss, "bad-op")
    | _, _ => (ss, "bad-op")
  | _ => (ss, "bad-op")

end Gmx.Drv
