import Gmx.Model.LpStake
import Gmx.Driver.Util
-- ENGINE lp lpEngine stateless
/-! driver engine `lp` — C38 (LP staking rewards and unstaking) -/
namespace Gmx.Drv
open Gmx.Lp

def lpParseG (s : String) : Option (List Nat) :=
  if s = "-" then some [] else
  match (s.splitOn ",").mapM pNat with
  | some l => if l.length ≤ 53 && l.all (· < 2 ^ 128) then some l else none
  | none => none

def lpGFun (l : List Nat) : Nat → Nat := fun i => l.getD i 0

def lpFitsI (z : Int) : Bool := decide (Gmx.Lp.I64MIN ≤ z) && decide (z ≤ Gmx.Lp.I64MAX)

def lpEnv (ce min ctrl dat dcum cumNow now : String) (g : List Nat) : Option Env :=
  match pBool ce, pNat min, pBool ctrl, pInt dat, pNat dcum, pNat cumNow, pInt now with
  | some ce, some min, some ctrl, some dat, some dcum, some cumNow, some now =>
    if min < 2 ^ 128 && dcum < 2 ^ 128 && cumNow < 2 ^ 128 && lpFitsI dat && lpFitsI now then
      some ⟨ce, min, ctrl, dat, dcum, cumNow, now, lpGFun g⟩
    else none
  | _, _, _, _, _, _, _ => none

def lpPos (amt val start pcum : String) : Option Pos :=
  match pNat amt, pNat val, pInt start, pNat pcum with
  | some amt, some val, some start, some pcum =>
    if amt < 2 ^ 64 && val < 2 ^ 128 && pcum < 2 ^ 128 && lpFitsI start then some ⟨amt, val, start, pcum⟩ else none
  | _, _, _, _ => none

def lpShowPos : Option Pos → String
  | some p => s!"{p.amount}:{p.value}:{p.cum}"
  | none => "closed"

def lpShowPosS : Option Pos → String
  | some p => s!"{p.amount}:{p.value}:{p.cum}:{p.start}"
  | none => "closed"

def lpStep (t : String) : Option (Nat × Nat × ChainOp) :=
  match t.splitOn ":" with
  | [dt, dcum, op] =>
    match pNat dt, pNat dcum with
    | some dt, some dcum =>
      if dt ≥ 2 ^ 32 || dcum ≥ 2 ^ 128 then none
      else if op = "c" then some (dt, dcum, .claim)
      else match op.toList with
        | 'u' :: rest => match pNat (String.ofList rest) with
          | some a => if a < 2 ^ 64 then some (dt, dcum, .unstake a) else none
          | none => none
        | _ => none
    | _, _ => none
  | _ => none

def lpEngine (args : List String) : String :=
  match args with
  | ["apy", start, now, g] =>
    match pInt start, pInt now, lpParseG g with
    | some start, some now, some g =>
      if lpFitsI start && lpFitsI now then
        match twApy start now (lpGFun g) with
        | some a => s!"ok {a}"
        | none => "panic"
      else "bad-op"
    | _, _, _ => "bad-op"
  | ["reward", v, d, p, i] =>
    match allNat [v, p, i], pInt d with
    | some [v, p, i], some d =>
      if v < 2 ^ 128 && p < 2 ^ 128 && i < 2 ^ 128 && lpFitsI d then
        match rewardAmount v d p i with
        | some r => s!"ok {r}"
        | none => "err"
      else "bad-op"
    | _, _ => "bad-op"
  | ["unstake", ce, min, ctrl, dat, dcum, cumNow, now, amt, val, start, pcum, vault, un, g] =>
    match lpParseG g, pNat vault, pNat un with
    | some g, some vault, some un =>
      match lpEnv ce min ctrl dat dcum cumNow now g, lpPos amt val start pcum with
      | some e, some p =>
        if vault < 2 ^ 64 && un < 2 ^ 64 then
          match unstakeLp e p vault un with
          | some o =>
            s!"ok mint={o.minted} xfer={o.transfer} closed={showBool o.fullExit} pos={lpShowPos o.pos} n={if o.fullExit then 2 else 3}"
          | none => "err"
        else "bad-op"
      | _, _ => "bad-op"
    | _, _, _ => "bad-op"
  | ["chain", ce, min, ctrl, dat, dcum, cumNow, now, amt, val, start, pcum, vault, g, steps] =>
    match lpParseG g, pNat vault, (steps.splitOn ",").mapM lpStep with
    | some g, some vault, some steps =>
      match lpEnv ce min ctrl dat dcum cumNow now g, lpPos amt val start pcum with
      | some e, some p =>
        let totDt : Nat := (steps.map (·.1)).foldl (· + ·) 0
        let totCum : Nat := (steps.map (·.2.1)).foldl (· + ·) 0
        if vault < 2 ^ 64 && steps.length ≤ 8 && lpFitsI (e.now + Int.ofNat totDt) && e.cumNow + totCum < 2 ^ 128 then
          let r := runChain ⟨e, some p, vault⟩ steps
          let shown := r.2.map (fun x => match x with | some m => toString m | none => "e")
          s!"ok [{";".intercalate shown}] pos={lpShowPosS r.1.pos} vault={r.1.vault}"
        else "bad-op"
      | _, _ => "bad-op"
    | _, _, _ => "bad-op"
  | ["claim", ce, min, ctrl, dat, dcum, cumNow, now, amt, val, start, pcum, g] =>
    match lpParseG g with
    | some g =>
      match lpEnv ce min ctrl dat dcum cumNow now g, lpPos amt val start pcum with
      | some e, some p =>
        match claimGt e p with
        | some (r, p') => s!"ok mint={r} pos={lpShowPos (some p')}"
        | none => "err"
      | _, _ => "bad-op"
    | none => "bad-op"
  | _ => "bad-op"

end Gmx.Drv
