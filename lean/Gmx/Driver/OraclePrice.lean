import Gmx.Model.OraclePrice
import Gmx.Driver.Util
-- ENGINE orc OrcE.orcEngine stateless
/-! driver engine `orc` — C29 (price adjustment) and C24 (validator, price map, oracle) -/
namespace Gmx.Drv.OrcE
open Gmx Gmx.OraclePrice

def orcUnit : Nat := 10 ^ 20

def showVErr : VErr → String
  | .overflow => "err Overflow"
  | .maxAge => "err MaxAge"
  | .future => "err Future"
  | .arg => "err Arg"
  | .deviation => "err Deviation"
  | .range => "err Range"
  | .invalidRange => "err InvalidRange"
  | .notFound => "err NotFound"
  | .pricesSet => "err PricesSet"
  | .disabled => "err Disabled"
  | .provider => "err Provider"
  | .feed => "err Feed"

def mkRef (flag v m : Nat) : Option Dec := if flag = 1 then some ⟨v, m⟩ else none

/-- parse `minV minM maxV maxM refFlag refV refM` -/
def pPrice : List Nat → Option (Price × Option Dec)
  | [a, b, c, d, e, f, g] => if b ≤ 20 ∧ d ≤ 20 ∧ g ≤ 20 ∧ e ≤ 1 then some (⟨⟨a, b⟩, ⟨c, d⟩⟩, mkRef e f g) else none
  | _ => none

def devOfRatio (ratio : Nat) : Option Nat := if ratio = 0 then none else some (ratio * 10 ^ 12)

/-- feeds of a batch: 14 numbers each (oracleTs is the only signed one, parsed separately). -/
def pFeeds : List String → Option (List Feed)
  | [] => some []
  | tok :: adj :: found :: adjm :: ratio :: ots :: slot :: a :: b :: c :: d :: e :: f :: g :: rest =>
    match allNat [tok, adj, found, adjm, ratio, slot], pInt ots, (allNat [a, b, c, d, e, f, g]).bind pPrice, pFeeds rest with
    | some [tok, adj, found, adjm, ratio, slot], some ots, some (p, r), some fs =>
      some ({ token := tok, enabled := true, expectedProvider := 0, provider := 0, feedMatches := true,
              allowAdjust := adj == 1, cfg := { found := found == 1, adjustment := adjm, devFactor := devOfRatio ratio },
              oracleTs := ots, slot := slot, price := p, ref := r } :: fs)
    | _, _, _, _ => none
  | _ => none

/-- feeds of a native batch (`nbatch`): real `PriceFeed` accounts, so one multiplier for min /
max / reference, `min ≤ ref ≤ max`, and flags for the token being enabled, the feed's provider
being the expected one, and the feed id matching. `none` = outside the protocol (bad-op). -/
def pNFeeds (now : Int) : List String → Option (List Feed)
  | [] => some []
  | tok :: adj :: found :: adjm :: ratio :: ots :: slot :: mn :: mx :: m :: rf :: en :: ac :: ex :: fm :: rest =>
    match allNat [tok, adj, found, adjm, ratio, slot, mn, mx, m, rf, en, ac, ex, fm], pInt ots, pNFeeds now rest with
    | some [tok, adj, found, adjm, ratio, slot, mn, mx, m, rf, en, ac, ex, fm], some ots, some fs =>
      -- `ac`: 0 custom feed storing ChainlinkDataStreams, 1 custom feed storing Pyth, 2 Pyth `PriceUpdateV2`
      -- account (price = rf, confidence = mx − rf = rf − mn, no reference price); `ex`: expected provider 0 | 1
      if m ≤ 20 ∧ m % 2 = 0 ∧ mn ≤ rf ∧ rf ≤ mx ∧ mx < 2 ^ 32 ∧ adj ≤ 1 ∧ found ≤ 1 ∧ en ≤ 1 ∧ ac ≤ 2 ∧ ex ≤ 1 ∧ fm ≤ 1 ∧
         (ac = 2 → rf - mn = mx - rf) ∧
         0 ≤ ots ∧ now - ots ≤ 4000000000 ∧ ots - now ≤ 4000000000 then
        some ({ token := tok, enabled := en == 1, expectedProvider := ex, provider := if ac = 1 then 1 else 0,
                acct := if ac = 2 then .pyth else .custom,
                feedMatches := fm == 1, allowAdjust := adj == 1,
                cfg := { found := found == 1, adjustment := adjm, devFactor := devOfRatio ratio },
                oracleTs := ots, slot := slot, price := ⟨⟨mn, m⟩, ⟨mx, m⟩⟩,
                ref := if ac = 2 then none else some ⟨rf, m⟩ } :: fs)
      else none
    | _, _, _ => none
  | _ => none

def showOracle (o : Oracle) : String :=
  let ps := o.prices.toArray.qsort (fun a b => a.1 < b.1) |>.toList
  let ps := ps.map (fun (t, p) => s!"{t}:{p.min.unit}:{p.max.unit}")
  s!"{showBool o.cleared} {o.minSlot} {o.minTs} {o.maxTs} | {joinSp ps}"

def orcEngine (args : List String) : String :=
  match args with
  | "adjust" :: factor :: rest =>
    match pNat factor, (allNat rest).bind pPrice with
    | some f, some (p, r) =>
      (match adjust orcUnit f p r with
       | none => "none"
       | some q => s!"ok {q.min.value} {q.min.mult} {q.max.value} {q.max.mult}")
    | _, _ => "bad-op"
  | "accept" :: factor :: rest =>
    match pNat factor, (allNat rest).bind pPrice with
    | some f, some (p, r) =>
      let a := adjust orcUnit f p r
      let q := a.getD p
      if fromPriceOk q then s!"ok {showBool a.isSome} {q.min.value} {q.max.value} {q.min.mult}" else "err Arg"
    | _, _ => "bad-op"
  | "e2e" :: ratio :: rest =>
    -- one token of set_prices_from_remaining_accounts with adjustment enabled:
    -- try_adjust_price → validate_one (fresh timestamps) → SmallPrices::from_price
    match pNat ratio, (allNat rest).bind pPrice with
    | some ratio, some (p, r) =>
      if ratio = 0 ∨ ratio ≥ 2 ^ 32 then "bad-op" else
      let f := ratio * 10 ^ 12
      let a := adjust orcUnit f p r
      let q := a.getD p
      let v : Validator := { now := 1700000000, maxAge := 60, maxRange := 60, maxFuture := 10 }
      (match validateOne orcUnit v { found := true, adjustment := 0, devFactor := some f } 1700000000 1 q r with
       | .error e => showVErr e
       | .ok _ => if fromPriceOk q then s!"ok {showBool a.isSome} {q.min.value} {q.max.value} {q.min.mult}" else "err Arg")
    | _, _ => "bad-op"
  | ["fromprice", a, b, c, d] =>
    match allNat [a, b, c, d] with
    | some [a, b, c, d] => if fromPriceOk ⟨⟨a, b⟩, ⟨c, d⟩⟩ then s!"ok {a} {c} {b}" else "err Arg"
    | _ => "bad-op"
  | "validate" :: now :: maxAge :: maxRange :: maxFuture :: found :: adjm :: ratio :: ots :: slot :: rest =>
    match pInt now, allNat [maxAge, maxRange, maxFuture, found, adjm, ratio, slot], pInt ots, (allNat rest).bind pPrice with
    | some now, some [maxAge, maxRange, maxFuture, found, adjm, ratio, slot], some ots, some (p, r) =>
      let v : Validator := { now := now, maxAge := maxAge, maxRange := maxRange, maxFuture := maxFuture }
      (match validateOne orcUnit v { found := found == 1, adjustment := adjm, devFactor := devOfRatio ratio } ots slot p r with
       | .error e => showVErr e
       | .ok v' => match finish v' with
         | .error e => showVErr e
         | .ok (some (s, mn, mx)) => s!"ok {s} {mn} {mx}"
         | .ok none => "ok none")
    | _, _, _, _ => "bad-op"
  | "batch" :: now :: maxAge :: maxRange :: maxFuture :: fOk :: n :: rest =>
    match pInt now, allNat [maxAge, maxRange, maxFuture, fOk, n], pFeeds rest with
    | some now, some [maxAge, maxRange, maxFuture, fOk, n], some feeds =>
      if feeds.length ≠ n then "bad-op" else
      let v : Validator := { now := now, maxAge := maxAge, maxRange := maxRange, maxFuture := maxFuture }
      let o : Oracle := {}
      (match withPrices orcUnit o v feeds (fOk == 1) with
       | (.error e, o') => s!"{showVErr e} || {showOracle o'}"
       | (.ok (ok, o1), o') => s!"ok {showOracle o1} || {if ok then "f-ok" else "f-err"} {showOracle o'}")
    | _, _, _ => "bad-op"
  | "nbatch" :: now :: maxAge :: maxRange :: maxFuture :: fOk :: n :: rest =>
    match pInt now, allNat [maxAge, maxRange, maxFuture, fOk, n] with
    | some now, some [maxAge, maxRange, maxFuture, fOk, n] =>
      (match pNFeeds now rest with
       | none => "bad-op"
       | some feeds =>
        if feeds.length ≠ n ∨ fOk > 1 then "bad-op" else
        -- distinct tokens only (the token map is append-only)
        if (feeds.map (·.token)).eraseDups.length ≠ n then "bad-op" else
        let v : Validator := { now := now, maxAge := maxAge, maxRange := maxRange, maxFuture := maxFuture }
        match withPrices orcUnit {} v feeds (fOk == 1) with
        | (.error e, o') => s!"{showVErr e} || {showOracle o'}"
        | (.ok (ok, o1), o') => s!"ok {showOracle o1} || {if ok then "f-ok" else "f-err"} {showOracle o'}")
    | _, _ => "bad-op"
  | _ => "bad-op"

end Gmx.Drv.OrcE
