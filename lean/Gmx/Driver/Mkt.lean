import Gmx.Driver.Market
import Gmx.Model.Liquidity
-- ENGINE mkt mktEngine stateful Gmx.Drv.MktDb []
/-! driver engine `mkt` — C14, C04, C05, C06 (market state; swaps and liquidity).

`mkt new <sid> <W> <U> <28 config numbers>` · `mkt tick <sid> <secs>` · `mkt setpool <sid> <kind> <long> <short>`
· `mkt setclock <sid> <0|1|2> <seconds>` (impact-distribution / borrowing / funding clock, may be AHEAD of `now`)
· `mkt setvi <sid> <which> <long> <short>` · `mkt dist <sid>` · `mkt pv <sid> <kind> <maximize> <6 prices>`
· `mkt swap <sid> <inLong> <amount> <6 prices>` → `ok out impactValue impactAmount feePool feeRecv`
· `mkt deposit <sid> <long> <short> <6 prices>` → `ok minted impact fLpool fLrecv fSpool fSrecv`
· `mkt withdraw <sid> <amount> <6 prices>` → `ok longOut shortOut fLpool fLrecv fSpool fSrecv`.
Prices are `indexMin indexMax longMin longMax shortMin shortMax`. Without a position engine the perp
inputs of `pool_value` are `PerpIn.zero` (mkt-perp's engine supplies them when there is open interest).
Every response ends with `| <digest>` of the state AFTER the op (also after a failing op). -/
namespace Gmx.Drv
open Gmx

def mktReply (db : MktDb) (sid : String) (s : MktSt) (m : Market) (r : String) : MktDb × String :=
  (mktPut db sid { s with m := m }, s!"{r} | {mktDigest m}")

def mktOp (db : MktDb) (sid : String) (s : MktSt) (op : String) (args : List String) : MktDb × String :=
  let W := s.W
  let U := s.U
  let m := s.m
  match op, args with
  | "tick", [secs] =>
    match pNat secs with
    | some n => if m.now + n ≥ 2 ^ 64 then (db, "bad-op") else mktReply db sid s (m.tick n) "ok"
    | none => (db, "bad-op")
  | "setpool", [k, l, sh] =>
    match allNat [k, l, sh] with
    | some [k, l, sh] =>
      if l ≥ 2 ^ W ∨ sh ≥ 2 ^ W then (db, "bad-op") else
      match mktSetPool m k ⟨l, sh⟩ with
      | some m' => mktReply db sid s m' "ok"
      | none => (db, "bad-op")
    | _ => (db, "bad-op")
  | "setvi", [which, l, sh] =>
    match allNat [which, l, sh] with
    | some [which, l, sh] =>
      if l ≥ 2 ^ W ∨ sh ≥ 2 ^ W then (db, "bad-op") else
      if which = 0 then mktReply db sid s { m with viSwaps := some ⟨l, sh⟩ } "ok"
      else if which = 1 then mktReply db sid s { m with viPositions := some ⟨l, sh⟩ } "ok"
      else (db, "bad-op")
    | _ => (db, "bad-op")
  | "setclock", [k, v] =>
    match allNat [k, v] with
    | some [k, v] =>
      if v ≥ 2 ^ 64 then (db, "bad-op") else
      if k = 0 then mktReply db sid s { m with clockImpactDist := some v } "ok"
      else if k = 1 then mktReply db sid s { m with clockBorrowing := some v } "ok"
      else if k = 2 then mktReply db sid s { m with clockFunding := some v } "ok"
      else (db, "bad-op")
    | _ => (db, "bad-op")
  | "dist", [] =>
    match distributePositionImpact W U m with
    | (m', some r) => mktReply db sid s m' s!"ok {r.duration} {r.distributed} {r.next}"
    | (m', none) => mktReply db sid s m' "err Fail"
  | "pv", k :: mx :: prices =>
    match pNat k >>= pKind, pBool mx, allNat prices >>= parsePrices W with
    | some kind, some mx, some pr =>
      match poolValue W U m pr kind mx PerpIn.zero with
      | some v => mktReply db sid s m s!"ok {v}"
      | none => mktReply db sid s m "err Fail"
    | _, _, _ => (db, "bad-op")
  | "swap", il :: amt :: prices =>
    match pBool il, pNat amt, allNat prices >>= parsePrices W with
    | some il, some amt, some pr =>
      if amt ≥ 2 ^ W then (db, "bad-op") else
      match swapStep W U m ⟨il, amt, pr⟩ with
      | (m', .ok c) =>
        mktReply db sid s m' s!"ok {c.tokenOut} {c.impactValue} {c.impactAmount} {c.fees.pool} {c.fees.receiver}"
      | (m', .error e) => mktReply db sid s m' (showMErr e)
    | _, _, _ => (db, "bad-op")
  | "deposit", l :: sh :: prices =>
    match pNat l, pNat sh, allNat prices >>= parsePrices W with
    | some l, some sh, some pr =>
      if l ≥ 2 ^ W ∨ sh ≥ 2 ^ W then (db, "bad-op") else
      match deposit W U m ⟨l, sh, pr⟩ PerpIn.zero with
      | (m', .ok t) =>
        let r := t.report
        mktReply db sid s m' s!"ok {r.minted} {r.priceImpact} {r.feesL.pool} {r.feesL.receiver} {r.feesS.pool} {r.feesS.receiver}"
      | (m', .error e) => mktReply db sid s m' (showMErr e)
    | _, _, _ => (db, "bad-op")
  | "withdraw", amt :: prices =>
    match pNat amt, allNat prices >>= parsePrices W with
    | some amt, some pr =>
      if amt ≥ 2 ^ W then (db, "bad-op") else
      match withdraw W U m ⟨amt, pr⟩ PerpIn.zero with
      | (m', .ok r) =>
        mktReply db sid s m' s!"ok {r.longOut} {r.shortOut} {r.feesL.pool} {r.feesL.receiver} {r.feesS.pool} {r.feesS.receiver}"
      | (m', .error e) => mktReply db sid s m' (showMErr e)
    | _, _ => (db, "bad-op")
  | _, _ => (db, "bad-op")

def mktEngine (db : MktDb) (args : List String) : MktDb × String :=
  match args with
  | "new" :: sid :: w :: u :: cfg =>
    match allNat (w :: u :: cfg) with
    | some (W :: U :: xs) =>
      if ¬ ((W = 64 ∧ U = 10 ^ 9) ∨ (W = 128 ∧ U = 10 ^ 20)) then (db, "bad-op") else
      match parseCfg W xs with
      | some (cfg, vi, vp) =>
        let m : Market := { cfg := cfg, viSwaps := if vi then some {} else none,
                            viPositions := if vp then some {} else none }
        (mktPut db sid ⟨W, U, m⟩, s!"ok | {mktDigest m}")
      | none => (db, "bad-op")
    | _ => (db, "bad-op")
  | op :: sid :: rest =>
    match mktGet db sid with
    | some s => mktOp db sid s op rest
    | none => (db, "bad-op")
  | _ => (db, "bad-op")

end Gmx.Drv
