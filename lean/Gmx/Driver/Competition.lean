import Gmx.Model.Competition
import Gmx.Driver.Util
-- ENGINE lb lbEngine stateful LbState lbInit
/-! driver engine `lb` — C39 (competition leaderboard and time extension) -/
namespace Gmx.Drv
open Gmx.Comp

def lbNT : Nat := 12

abbrev LbState := List (String × St)
def lbInit : LbState := []

def lbLookup (ss : List (String × St)) (sid : String) : Option St :=
  (ss.find? (fun p => p.1 == sid)).map (·.2)

def lbSet (ss : List (String × St)) (sid : String) (s : St) : List (String × St) :=
  (sid, s) :: ss.filter (fun p => p.1 != sid)

def lbShowBoard (b : List Entry) : String :=
  ",".intercalate (b.map (fun e => s!"{e.addr}:{e.vol}"))

def lbDigest (s : St) : String :=
  let parts := (List.range lbNT).filterMap (fun t =>
    match s.parts t with
    | some p => some s!"{t}:{p.vol}:{p.last}:{p.merged}"
    | none => none)
  let trig := match s.comp.triggerer with | some t => toString t | none => "_"
  s!"end={s.comp.end_} trig={trig} board=[{lbShowBoard s.comp.board}] parts=[{",".intercalate parts}]"

def lbFitsI64 (z : Int) : Bool := decide (I64MIN ≤ z) && decide (z ≤ I64MAX)
def lbFitsU128 (n : Nat) : Bool := decide (n ≤ U128MAX)

def lbParseBoard : List String → Option (List Entry)
  | [] => some []
  | a :: v :: rest =>
    match pNat a, pNat v, lbParseBoard rest with
    | some a, some v, some r => if a < lbNT && lbFitsU128 v then some (⟨a, v⟩ :: r) else none
    | _, _, _ => none
  | _ => none

def lbEngine (ss : List (String × St)) (args : List String) : List (String × St) × String :=
  match args with
  | ["new", sid, start, end_, thr, ext, cap, oi, win] =>
    match allInt [start, end_, ext, cap, win], pNat thr, pBool oi with
    | some [start, end_, ext, cap, win], some thr, some oi =>
      if [start, end_, ext, cap, win].all lbFitsI64 && lbFitsU128 thr then
        let s := init start end_ thr ext cap oi win
        (lbSet ss sid s, s!"ok | {lbDigest s}")
      else (ss, "bad-op")
    | _, _, _ => (ss, "bad-op")
  | ["create", sid, t, now] =>
    match lbLookup ss sid, pNat t, pInt now with
    | some s, some t, some now =>
      if t < lbNT && lbFitsI64 now then
        let s' := create s t now
        (lbSet ss sid s', s!"ok | {lbDigest s'}")
      else (ss, "bad-op")
    | _, _, _ => (ss, "bad-op")
  | ["close", sid, t, now] =>
    match lbLookup ss sid, pNat t, pInt now with
    | some s, some t, some now =>
      if t < lbNT && lbFitsI64 now then
        match close s t now with
        | some s' => (lbSet ss sid s', s!"ok | {lbDigest s'}")
        | none => (ss, s!"err | {lbDigest s}")
      else (ss, "bad-op")
    | _, _, _ => (ss, "bad-op")
  | ["trade", sid, t, now, kind, ver, extra, succ, ev, evu, before, after] =>
    match lbLookup ss sid, allNat [t, kind, ver, extra, evu, before, after], pInt now, pBool succ, pBool ev with
    | some s, some [t, kind, ver, extra, evu, before, after], some now, some succ, some ev =>
      if t < lbNT && evu < lbNT && lbFitsI64 now && kind < 256 && ver < 256 && extra < 256
          && lbFitsU128 before && lbFitsU128 after then
        let evo := if ev then some (evu, before, after) else none
        match onExecuted s t now kind ver extra succ evo with
        | some s' => (lbSet ss sid s', s!"ok | {lbDigest s'}")
        | none => (ss, s!"err | {lbDigest s}")
      else (ss, "bad-op")
    | _, _, _, _, _ => (ss, "bad-op")
  | "upd" :: _sid :: t :: v :: rest =>
    match pNat t, pNat v, lbParseBoard rest with
    | some t, some v, some b =>
      if t < lbNT && lbFitsU128 v then (ss, s!"ok [{lbShowBoard (updateBoard b t v)}]") else (ss, "bad-op")
    | _, _, _ => (ss, "bad-op")
  | ["ext", _sid, old, ext, cap, now] =>
    match allInt [old, ext, cap, now] with
    | some [old, ext, cap, now] =>
      if [old, ext, cap, now].all lbFitsI64 then (ss, s!"ok {extendEnd old ext cap now}") else (ss, "bad-op")
    | _ => (ss, "bad-op")
  | _ => (ss, "bad-op")

end Gmx.Drv
