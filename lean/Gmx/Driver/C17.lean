import Gmx.Model.MarketInit
import Gmx.Driver.Util
-- ENGINE c17 Tbl.c17Engine stateless
/-! driver engine `c17` — answers "what does a freshly initialised market contain" from the
tables generated out of the Rust source (C17). -/
namespace Gmx.Drv.Tbl
open Gmx.Drv
open Gmx.Gen.MarketConfig Gmx.Gen.Pools Gmx.MarketInit

def c17Core (args : List String) : String :=
  match args with
  | ["key", k] =>
    match Key.ofSnake? k with
    | none => "nokey"
    | some k => match keyAfterInit k with
      | some v => s!"ok {v}"
      | none => "unimplemented"
  | ["flag", x] =>
    match Flag.ofSnake? x with
    | none => "noflag"
    | some x => match flagAfterInit x with
      | some b => s!"ok {showBool b}"
      | none => "novalue"
  | ["pool", l, s, k] =>
    match pNat l, pNat s, Kind.ofName? k with
    | some l, some s, some k =>
      match poolOfKindAfterInit l s k with
      | some p => s!"ok {showBool p.isPure} {p.long} {p.short}"
      | none => "nopool"
    | _, _, _ => "bad-op"
  | ["const", c] =>
    match Const.ofName? c with
    | none => "noconst"
    | some c => match c.nat?, c.bool? with
      | some n, _ => s!"ok {n}"
      | _, some b => s!"ok {showBool b}"
      | _, _ => "novalue"
  | ["nkeys"] => s!"ok {Key.all.length} {Flag.all.length} {Kind.all.length}"
  | _ => "bad-op"

/-- `skey / sflag / spool <index> <long> <short> …`: the same questions on a market of an explicit shape. In the
model `Market::init` takes no token argument into the config, and only `long == short` into the pools. -/
def c17Engine (args : List String) : String :=
  match args with
  | ["skey", _, _, _, k] => c17Core ["key", k]
  | ["sflag", _, _, _, x] => c17Core ["flag", x]
  | ["spool", _, l, s, k] => c17Core ["pool", l, s, k]
  | other => c17Core other

end Gmx.Drv.Tbl
