import Gmx.Model.Borrowing
import Gmx.Driver.Util
-- ENGINE borr Borr.borrEngine stateless
/-! driver engine `borr` — C13 -/
namespace Gmx.Drv.Borr
open Gmx Gmx.Perp Gmx.Drv

def borrShowErr : BErr → String
  | .comp => "err comp" | .conv => "err conv" | .ovf => "err ovf"
  | .emptyPool => "err emptypool" | .prices => "err prices"

def borrShowNat : Except BErr Nat → String
  | .ok n => s!"ok {n}"
  | .error e => borrShowErr e

/-- pairs `(size, bf)` from a flat list -/
def borrPairsOf : List Nat → Option (List (Nat × Nat))
  | [] => some []
  | a :: b :: rest => (borrPairsOf rest).map (fun xs => (a, b) :: xs)
  | _ => none

/-- side view from the common argument block
`isLong skip exp fac opt base above oiRes ignore maxOI oiLong oiShort oiTokens liq idxMax tokMin` -/
def borrEngine (args : List String) : String :=
  match args with
  | [op, w, u, isLong, skip, exp, fac, opt, base, above, oiRes, ignore, maxOI,
      oiL, oiS, oiT, liq, idxMax, tokMin, cur, dur, total] =>
    match allNat [w, u, exp, fac, opt, base, above, oiRes, maxOI], allNat [oiL, oiS, oiT, liq, idxMax, tokMin, cur, dur, total],
          pBool isLong, pBool skip, pBool ignore with
    | some [w, u, exp, fac, opt, base, above, oiRes, maxOI], some [oiL, oiS, oiT, liq, idxMax, tokMin, cur, dur, total],
      some isLong, some skip, some ignore =>
      let c : BorrowCommon := ⟨skip, oiRes, ignore⟩
      let sp : BorrowSide := ⟨exp, fac, opt, base, above, maxOI⟩
      let v : BorrowView := ⟨oiL, oiS, oiT, liq, idxMax, tokMin⟩
      if op = "fps" then borrShowNat (borrowingFactorPerSecond w u c sp isLong v)
      else if op = "next" then
        match nextCumulativeBorrowingFactor w u c sp isLong v cur dur with
        | .ok (nx, d) => s!"ok {nx} {d}"
        | .error e => borrShowErr e
      else if op = "pending" ∨ op = "hpending" then borrShowNat (totalPendingBorrowingFees w u c sp isLong v cur dur total)
      else "bad-op"
    | _, _, _, _, _ => "bad-op"
  | ["update", w, u, skip, oiRes, ignore, expL, facL, expS, facS, opt, base, above, maxOI,
      oiLL, oiLS, oiSL, oiSS, oitLL, oitLS, liqL, liqS, iMin, iMax, lMin, lMax, sMin, sMax, cumL, cumS, dur] =>
    match allNat [w, u, oiRes, expL, facL, expS, facS, opt, base, above, maxOI],
          allNat [oiLL, oiLS, oiSL, oiSS, oitLL, oitLS, liqL, liqS, iMin, iMax, lMin, lMax, sMin, sMax, cumL, cumS, dur],
          pBool skip, pBool ignore with
    | some [w, u, oiRes, expL, facL, expS, facS, opt, base, above, maxOI],
      some [oiLL, oiLS, oiSL, oiSS, oitLL, oitLS, liqL, liqS, iMin, iMax, lMin, lMax, sMin, sMax, cumL, cumS, dur],
      some skip, some ignore =>
      let c : BorrowCommon := ⟨skip, oiRes, ignore⟩
      let vL : BorrowView := ⟨oiLL + oiLS, oiSL + oiSS, oitLL + oitLS, liqL, iMax, lMin⟩
      let vS : BorrowView := ⟨oiLL + oiLS, oiSL + oiSS, 0, liqS, iMax, sMin⟩
      let pv := priceOk w iMin iMax && priceOk w lMin lMax && priceOk w sMin sMax
      match updateBorrowing w u c ⟨expL, facL, opt, base, above, maxOI⟩ ⟨expS, facS, opt, base, above, maxOI⟩ vL vS pv cumL cumS dur with
      | .ok (a, b) => s!"ok {a} {b}"
      | .error e => borrShowErr e
    | _, _, _, _ => "bad-op"
  | ["utb", w, u, size, bf, nsize, nbf, total] =>
    match allNat [w, u, size, bf, nsize, nbf, total] with
    | some [w, u, size, bf, nsize, nbf, total] => borrShowNat (updateTotalBorrowing w u size bf nsize nbf total)
    | _ => "bad-op"
  | [op, w, u, size, posbf, latest] =>
    if op = "posfee" ∨ op = "hposfee" then
      match allNat [w, u, size, posbf, latest] with
      | some [w, u, size, posbf, latest] => borrShowNat (pendingBorrowingFeeValue w u size posbf latest)
      | _ => "bad-op"
    else "bad-op"
  | "hsum" :: u :: total :: rest =>
    match allNat [u, total], allNat rest with
    | some [u, total], some xs =>
      match borrPairsOf xs with
      | some ps => if u = 0 then "bad-op" else if sumBorrowing u ps = total then "eq" else "ne"
      | none => "bad-op"
    | _, _ => "bad-op"
  | _ => "bad-op"

end Gmx.Drv.Borr
