import Gmx.Model.FixedStr
import Gmx.Model.RoleNames
import Gmx.Driver.Util
import Gmx.Driver.HexUtil
-- ENGINE fstr fstrEngine stateless
/-! driver engine `fstr` — C35 -/
namespace Gmx.Drv
open Gmx.FixedStr

def showFs : Except Err (List Nat) → String
  | .ok b => s!"ok {showHex b}"
  | .error .tooLong => "err TooLong"
  | .error .format => "err Format"
  | .error .utf8 => "err Utf8"
  | .error .panic => "panic"

def fstrEngine3 (op l n : String) : String :=
  match [op, l, n] with
  | ["tobytes", l, n] =>
    match pNat l, pHex n with
    | some l, some n => if utf8Valid n then showFs (toBytes l n) else "bad-op"
    | _, _ => "bad-op"
  | ["frombytes", l, b] =>
    match pNat l, pHex b with
    | some l, some b => if b.length = l then showFs (fromBytes l b) else "bad-op"
    | _, _ => "bad-op"
  | ["roundtrip", l, n] =>
    match pNat l, pHex n with
    | some l, some n =>
      if utf8Valid n then
        match toBytes l n with
        | .ok b => showFs (fromBytes l b)
        | e => "w" ++ showFs e
      else "bad-op"
    | _, _ => "bad-op"
  | _ => "bad-op"


def showW : Except Gmx.RoleNames.WErr (List Nat) → String
  | .ok b => s!"ok {showHex b}"
  | .error .exceedMax => "err ExceedMaxLengthLimit"
  | .error .invalidArgument => "err InvalidArgument"

def fstrEngine (args : List String) : String :=
  match args with
  | ["tcupd", ns] =>
    -- comma-separated hex names, applied as successive updates to one (zeroed) token config
    match (ns.splitOn ",").mapM pHex with
    | some names =>
      if names.all utf8Valid then
        joinSp ((Gmx.RoleNames.tcScenario (List.replicate 32 0) names).map fun (o, r) =>
          o ++ ":" ++ (match r with | .ok b => showHex b | .error _ => "unreadable"))
      else "bad-op"
    | none => "bad-op"
  | ["rolescn", n] =>
    match pHex n with
    | some n => if utf8Valid n then joinSp (Gmx.RoleNames.scenario n) else "bad-op"
    | none => "bad-op"
  | [op, l, n] =>
    if op.startsWith "w." then
      -- program-side wrappers: write then read through the store's error mapping
      match pNat l, pHex n with
      | some l, some n => if utf8Valid n then showW (Gmx.RoleNames.wrappedRoundtrip l n) else "bad-op"
      | _, _ => "bad-op"
    else fstrEngine3 op l n
  | _ => "bad-op"

end Gmx.Drv
