import Gmx.Model.Router
import Gmx.Model.PathCreate
import Gmx.Driver.Util
-- ENGINE rt rtEngine stateless
/-! driver engine `rt` — C44 -/
namespace Gmx.Drv
open Gmx

def pMarket (s : String) : Option RMarket :=
  match (s.splitOn ":").mapM pNat with
  | some [t, l, sh, bl, bs, ml, ms] => some { token := t, long := l, short := sh, balL := bl, balS := bs, minL := ml, minS := ms }
  | some [t, l, sh, bl, bs, ml, ms, cl, cs] =>
    some { token := t, long := l, short := sh, balL := bl, balS := bs, minL := ml, minS := ms, colL := cl, colS := cs }
  | _ => none

def pNatList (s : String) : Option (List Nat) :=
  if s = "-" then some [] else (s.splitOn ",").mapM pNat

def pMarkets (s : String) : Option (List RMarket) :=
  if s = "-" then some [] else (s.splitOn ",").mapM pMarket

def pOptTok (s : String) : Option (Option Nat) :=
  if s = "_" then some none else (pNat s).map some

def showHops (hs : List Hop) : String :=
  if hs.isEmpty then "-" else
  ",".intercalate (hs.map fun h => s!"{h.market}:{h.tokenIn}:{h.tokenOut}:{h.amtIn}:{h.amtOut}")

def showBals (ms : List RMarket) : String :=
  if ms.isEmpty then "-" else
  ",".intercalate (ms.map fun m => s!"{m.token}:{m.balL}:{if m.isPure then 0 else m.balS}")

def pCMarket (s : String) : Option CMarket :=
  match (s.splitOn ":").mapM pNat with
  | some [k, t, i, l, sh, u] => if u ≤ 1 then some { key := k, token := t, index := i, long := l, short := sh, usable := u == 1 } else none
  | _ => none

def pCMarkets (s : String) : Option (List CMarket) :=
  if s = "-" then some [] else (s.splitOn ",").mapM pCMarket

def showNats (l : List Nat) : String :=
  if l.isEmpty then "-" else ",".intercalate (l.map toString)

def rtEngine (args : List String) : String :=
  match args with
  | ["find", first, cur, path, supplied] =>
    match pBool first, pNat cur, pNatList path, pNatList supplied with
    | some first, some cur, some path, some supplied =>
      match findEndMarket first path cur supplied with
      | none => "err"
      | some none => "current"
      | some (some t) => s!"market {t}"
    | _, _, _, _ => "bad-op"
  | ["create", cur, plen, slen, accs, tip, tis, top, tos] =>
    match pCMarket cur, pCMarkets accs, allNat [plen, slen, tip, tis, top, tos] with
    | some cur, some accs, some [plen, slen, tip, tis, top, tos] =>
      if plen ≥ 256 ∨ slen ≥ 256 then "bad-op" else
      match validateAndInit cur plen slen accs tip tis top tos with
      | none => "err"
      | some c => s!"ok {showNats c.primary} | {showNats c.secondary} | {showNats c.tokens} | {c.current}"
    | _, _, _ => "bad-op"
  | ["swap", into, cur, ms, p1, p2, tl, ts, al, as, el, es, outs] =>
    match pBool into, pMarket cur, pMarkets ms, pNatList p1, pNatList p2, pOptTok tl, pOptTok ts,
          allNat [al, as, el, es], pNatList outs with
    | some into, some cur, some ms, some p1, some p2, some tl, some ts, some [al, as, el, es], some outs =>
      -- a pure market keeps everything in the long slot
      let norm (m : RMarket) : RMarket := if m.isPure then { m with balS := 0 } else m
      let s : RState := { markets := ms.map norm, cur := norm cur, outs := outs, trace := [] }
      match routerSwap into s p1 p2 (el, es) (tl, ts) (al, as) with
      | none => "err"
      | some (s', o1, o2) =>
        s!"ok {o1} {o2} | {showHops s'.trace} | {s'.cur.balL}:{if s'.cur.isPure then 0 else s'.cur.balS} | {showBals s'.markets}"
    | _, _, _, _, _, _, _, _, _ => "bad-op"
  | _ => "bad-op"

end Gmx.Drv
