import Gmx.Model.Action
import Gmx.Driver.Util
-- ENGINE act actEngine stateless
/-! driver engine `act` — C23 -/
namespace Gmx.Drv
open Gmx

def pAState (s : String) : Option AState :=
  if s = "0" then some .pending else if s = "1" then some .completed
  else if s = "2" then some .cancelled else none

def showAState : AState → String
  | .pending => "0" | .completed => "1" | .cancelled => "2"

def actEngine (args : List String) : String :=
  match args with
  | [kind, s, op] =>
    if kind = "enum" ∨ kind = "trans" then
      match pAState s with
      | none => if kind = "trans" ∧ (pNat s).isSome then "err" else "bad-op"   -- unknown raw state: rejected
      | some st =>
        let r := if op = "complete" then some st.complete else if op = "cancel" then some st.cancel else none
        match r with
        | none => "bad-op"
        | some none => "err"
        | some (some n) => s!"ok {showAState n}"
    else "bad-op"
  | ["closepre2", who, h, s, k, rd] =>
    let w : Option Caller := if who = "o" then some .owner else if who = "r" then some .receiver else if who = "x" then some .other else none
    match w, pBool h, pAState s, pBool k, pBool rd with
    | some w, some h, some s, some k, some rd =>
      match closePreprocessBy w rd h s k with
      | .asOwner => "ok owner" | .asKeeper => "ok keeper" | .denied => "err"
    | _, _, _, _, _ => "bad-op"
  | ["closepre", o, h, s, k] =>
    match pBool o, pBool h, pAState s, pBool k with
    | some o, some h, some s, some k =>
      match closePreprocess o h s k with
      | .asOwner => "ok owner" | .asKeeper => "ok keeper" | .denied => "err"
    | _, _, _, _ => "bad-op"
  | _ => "bad-op"

end Gmx.Drv
