import Gmx.Model.PriceDecimal
import Gmx.Driver.Util
-- ENGINE pdec pdecEngine stateless
/-! driver engine `pdec` — C26 -/
namespace Gmx.Drv
open Gmx.PriceDecimal

def showDec : Except DecErr Decimal → String
  | .ok r => s!"ok {r.value} {r.mult}"
  | .error .exceedMaxDecimals => "err ExceedMaxDecimals"
  | .error .overflow => "err Overflow"

def showPyth : Except PythErr Decimal → String
  | .ok r => s!"ok {r.value} {r.mult}"
  | .error .exponentTooSmall => "err ExponentTooSmall"
  | .error .exponentTooBig => "err ExponentTooBig"
  | .error .priceOverflow => "err PriceOverflow"
  | .error .converting => "err Converting"

def pdecEngine (args : List String) : String :=
  match args with
  | ["from", p, d, t, q] =>
    match allNat [p, d, t, q] with
    | some [p, d, t, q] => if p < 2 ^ 128 ∧ d < 256 ∧ t < 256 ∧ q < 256 then showDec (tryFromPrice p d t q) else "bad-op"
    | _ => "bad-op"
  | ["unit", v, m] =>
    match allNat [v, m] with
    | some [v, m] =>
      if v < 2 ^ 32 ∧ m < 256 then
        -- `10u128.pow(m)` and the product are overflow-checked
        if 10 ^ m < 2 ^ 128 ∧ toUnitPrice ⟨v, m⟩ < 2 ^ 128 then s!"ok {toUnitPrice ⟨v, m⟩}" else "panic"
      else "bad-op"
    | _ => "bad-op"
  | ["with", v, m, price, up] =>
    match allNat [v, m, price], pBool up with
    | some [v, m, price], some up =>
      if v < 2 ^ 32 ∧ m < 256 ∧ price < 2 ^ 128 then
        if 10 ^ m < 2 ^ 128 then
          match withUnitPrice ⟨v, m⟩ price up with
          | some r => s!"ok {r.value} {r.mult}"
          | none => "none"
        else "panic"
      else "bad-op"
    | _, _ => "bad-op"
  | ["finddiv", n] =>
    match pNat n with
    | some n => if n < 2 ^ 192 then s!"ok {findDivisorDecimals n}" else "bad-op"
    | none => "bad-op"
  | ["conv", n, d] =>
    match allNat [n, d] with
    | some [n, d] =>
      if n < 2 ^ 192 ∧ d < 256 then
        match convertToU128Storage n d with
        | none => "none"
        | some none => "panic"
        | some (some (v, d')) => s!"ok {v} {d'}"
      else "bad-op"
    | _ => "bad-op"
  | ["pythc", pr, cf, e, t, q] =>
    match allNat [cf, t, q], allInt [pr, e] with
    | some [cf, t, q], some [pr, e] =>
      if -(2 ^ 63) ≤ pr ∧ pr < 2 ^ 63 ∧ cf < 2 ^ 64 ∧ -(2 ^ 31) ≤ e ∧ e < 2 ^ 31 ∧ t < 256 ∧ q < 256 then
        match pythWithConfidence pr cf e t q with
        | .ok (mn, mx) => s!"ok {mn.value} {mn.mult} {mx.value} {mx.mult}"
        | .error .midPrice => "err MidPrice"
        | .error .minPrice => "err MinPrice"
        | .error .maxPrice => "err MaxPrice"
        | .error (.value v) => showPyth (.error v)
      else "bad-op"
    | _, _ => "bad-op"
  | ["pyth", v, e, t, q] =>
    match allNat [v, t, q], pInt e with
    | some [v, t, q], some e =>
      if v < 2 ^ 64 ∧ -(2 ^ 31) ≤ e ∧ e < 2 ^ 31 ∧ t < 256 ∧ q < 256 then showPyth (pythValueToDecimal v e t q) else "bad-op"
    | _, _ => "bad-op"
  | _ => "bad-op"

end Gmx.Drv
