import Gmx.Model.Handover
import Gmx.Driver.Util
-- ENGINE c19a Hand.handEngine stateless
/-! driver engine `c19a` — C19 (authority / receiver handover histories) -/
namespace Gmx.Drv.Hand
open Gmx Gmx.Drv Gmx.Handover

/-- op tokens: `ta:<signer>:<next>` `aa:<signer>` (authority) · `tr:<signer>:<next>` `ar:<signer>` (receiver) -/
def runOps : Slot → Slot → List String → Option (Slot × Slot × List String)
  | a, r, [] => some (a, r, [])
  | a, r, tok :: rest =>
    let parts := tok.splitOn ":"
    let res : Option (Bool × Op) :=
      match parts with
      | ["ta", s, n] => (pNat s).bind fun s => (pNat n).map fun n => (true, Op.transfer s n)
      | ["aa", s] => (pNat s).map fun s => (true, Op.accept s)
      | ["tr", s, n] => (pNat s).bind fun s => (pNat n).map fun n => (false, Op.transfer s n)
      | ["ar", s] => (pNat s).map fun s => (false, Op.accept s)
      | _ => none
    match res with
    | none => none
    | some (isAuth, op) =>
      let slot := if isAuth then a else r
      let (slot', out) := match slot.step op with
        | some s' => (s', "ok")
        | none => (slot, "err")
      let (a', r') := if isAuth then (slot', r) else (a, slot')
      match runOps a' r' rest with
      | none => none
      | some (a'', r'', outs) => some (a'', r'', out :: outs)

def handEngine (args : List String) : String :=
  match args with
  | "seq" :: a0 :: r0 :: ops =>
    match pNat a0, pNat r0 with
    | some a0, some r0 =>
      match runOps (Slot.init a0) (Slot.init r0) ops with
      | some (a, r, outs) => joinSp (outs ++ [s!"auth={a.cur},{a.next}", s!"recv={r.cur},{r.next}"])
      | none => "bad-op"
    | _, _ => "bad-op"
  | _ => "bad-op"

end Gmx.Drv.Hand
