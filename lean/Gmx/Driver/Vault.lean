import Gmx.Model.Vault
import Gmx.Driver.Util
-- ENGINE vlt Vlt.vltEngine stateless
/-! driver engine `vlt` — C22 -/
namespace Gmx.Drv.Vlt
open Gmx Gmx.Drv

def vltEngine (args : List String) : String :=
  match args with
  | "validate" :: pure :: rest =>
    match pBool pure, allNat rest with
    | some pure, some [liqL, liqS, impL, impS, feeL, feeS, cLL, cLS, cSL, cSS, balL, balS, exL, exS] =>
      let m : VMarket := ⟨pure, liqL, liqS, impL, impS, feeL, feeS, cLL, cLS, cSL, cSS, balL, balS⟩
      match m.validate exL exS with
      | some true => "ok"
      | _ => "err"
    | _, _ => "bad-op"
  | _ => "bad-op"

end Gmx.Drv.Vlt
