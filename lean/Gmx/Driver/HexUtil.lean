/-! hex byte-string helpers for driver engines (core only; no ENGINE here). -/
namespace Gmx.Drv

def hexVal (c : Char) : Option Nat :=
  if '0' ≤ c ∧ c ≤ '9' then some (c.toNat - '0'.toNat)
  else if 'a' ≤ c ∧ c ≤ 'f' then some (c.toNat - 'a'.toNat + 10)
  else none

def hexPairs : List Char → Option (List Nat)
  | [] => some []
  | [_] => none
  | a :: b :: r =>
    match hexVal a, hexVal b, hexPairs r with
    | some x, some y, some t => some ((x * 16 + y) :: t)
    | _, _, _ => none

/-- lower-case hex → bytes; `_` is the empty string. -/
def pHex (s : String) : Option (List Nat) :=
  if s = "_" then some [] else if s.isEmpty then none else hexPairs s.toList

def hexDigit (n : Nat) : Char :=
  if n < 10 then Char.ofNat (n + '0'.toNat) else Char.ofNat (n - 10 + 'a'.toNat)

def showHex (b : List Nat) : String :=
  if b.isEmpty then "_" else String.ofList (b.flatMap fun x => [hexDigit (x / 16 % 16), hexDigit (x % 16)])

end Gmx.Drv
