import Gmx.Model.Timelock
import Gmx.Driver.Util
-- ENGINE tl tlEngine stateful TlState tlInit
/-! driver engine `tl` — C36 (timelock instruction buffers) -/
namespace Gmx.Drv
open Gmx.Tl

abbrev TlState := List (String × St)
def tlInit : TlState := []

def tlLookup (ss : TlState) (sid : String) : Option St := (ss.find? (fun p => p.1 == sid)).map (·.2)
def tlSet (ss : TlState) (sid : String) (s : St) : TlState := (sid, s) :: ss.filter (fun p => p.1 != sid)

def tlKeyTok (k : Nat) : String := if k ≥ 100 then s!"w{k - 100}" else s!"a{k}"
def tlShowIx (ix : Ix) : String :=
  let ms := ix.metas.map (fun m => s!"{tlKeyTok m.key}.{showBool m.signer}.{showBool m.writable}")
  s!"p{ix.prog}:{ix.data}:[{",".intercalate ms}]"

def tlShowBuf (id : Nat) (b : Buf) : String :=
  let at_ := if b.approved then toString b.approvedAt else "_"
  let ap := match b.approver with | some a => s!"u{a}" | none => "_"
  s!"{id}:{b.role}:{showBool b.approved}:{at_}:{ap}:u{b.rentReceiver}:{tlShowIx b.ix}"

def tlDigest (s : St) : String :=
  let bs := (List.range 10).filterMap (fun id => (s.bufs id).map (tlShowBuf id))
  s!"delay={s.delay} bufs=[{";".intercalate bs}]"

def tlRole (t : String) : Option Nat :=
  if t = "K" then some KEEPER else if t = "A" then some ADMIN
  else if t = "T0" then some (tld 0) else if t = "T1" then some (tld 1) else if t = "T2" then some (tld 2) else none

def tlKey (t : String) : Option Nat :=
  match t.toList with
  | 'a' :: rest => match (String.ofList rest).toNat? with | some n => if n < 20 then some n else none | none => none
  | 'w' :: rest => match (String.ofList rest).toNat? with | some n => if n < 3 then some (wallet n) else none | none => none
  | _ => none

def tlMeta (t : String) : Option (Nat × Bool) :=
  match t.splitOn ":" with
  | [k, w] => match tlKey k, pBool w with | some k, some w => some (k, w) | _, _ => none
  | _ => none

def tlIsHex (s : String) : Bool := s.length % 2 == 0 && s.toList.all (fun c => c.isDigit || ('a' ≤ c && c ≤ 'f'))
def tlFitsI (z : Int) : Bool := decide (-(2 ^ 63 : Int) ≤ z) && decide (z ≤ I64MAX)

def tlReply (ss : TlState) (sid : String) (s : St) (r : Option St) (okTag : String := "ok") : TlState × String :=
  match r with
  | some s' => (tlSet ss sid s', s!"{okTag} | {tlDigest s'}")
  | none => (ss, s!"err | {tlDigest s}")

def tlEngine (ss : TlState) (args : List String) : TlState × String :=
  match args with
  | ["new", sid, now, delay] =>
    match pInt now, pNat delay with
    | some now, some delay =>
      if tlFitsI now && delay < 2 ^ 32 then let s := init delay; (tlSet ss sid s, s!"ok | {tlDigest s}") else (ss, "bad-op")
    | _, _ => (ss, "bad-op")
  | ["delayf", sid, now, caller, delta] =>
    match tlLookup ss sid, pInt now, allNat [caller, delta] with
    | some s, some now, some [caller, delta] =>
      if tlFitsI now && caller < 6 && delta < 2 ^ 32 then tlReply ss sid s (increaseDelayWith 0 s ⟨1, 0, 0, true⟩ caller delta) else (ss, "bad-op")
    | _, _, _ => (ss, "bad-op")
  | [op, sid, now, u, role] =>
    match tlLookup ss sid, pInt now, pNat u, tlRole role with
    | some s, some now, some u, some role =>
      if !tlFitsI now || u ≥ 6 then (ss, "bad-op")
      else if op = "grant" then tlReply ss sid s (grant s u role)
      else if op = "revoke" then tlReply ss sid s (revoke s u role)
      else (ss, "bad-op")
    | some s, some now, some caller, none =>
      if op = "delay" then
        match pNat role with
        | some delta => if tlFitsI now && caller < 6 && delta < 2 ^ 32 then tlReply ss sid s (increaseDelay s caller delta) else (ss, "bad-op")
        | none => (ss, "bad-op")
      else (ss, "bad-op")
    | _, _, _, _ => (ss, "bad-op")
  -- account-binding sweep: the store is `0`, the foreign store `1` (its config has delay 0)
  | ["execf", sid, now, caller, id, r, rr, which] =>
    match tlLookup ss sid, pInt now, allNat [caller, id, r, rr] with
    | some s, some now, some [caller, id, r, rr] =>
      if tlFitsI now && caller < 6 && id < 10 && r < 3 && rr < 6 && rr != caller && (which = "cfg" || which = "exe") then
        let a : Supplied := if which = "cfg" then ⟨1, 0, 0, true⟩ else ⟨0, s.delay, 1, false⟩
        match execWith 0 s a now caller id r rr with
        | some (s', _) => (tlSet ss sid s', s!"ok | {tlDigest s'}")
        | none => (ss, s!"err | {tlDigest s}")
      else (ss, "bad-op")
    | _, _, _ => (ss, "bad-op")
  | ["approvef", sid, now, caller, id, r] =>
    match tlLookup ss sid, pInt now, allNat [caller, id, r] with
    | some s, some now, some [caller, id, r] =>
      if tlFitsI now && caller < 6 && id < 10 && r < 3 then tlReply ss sid s (approveWith 0 s ⟨0, s.delay, 1, false⟩ now caller id r) else (ss, "bad-op")
    | _, _, _ => (ss, "bad-op")
  | ["cancelf", sid, now, caller, id, r, rr] =>
    match tlLookup ss sid, pInt now, allNat [caller, id, r, rr] with
    | some s, some now, some [caller, id, r, rr] =>
      if tlFitsI now && caller < 6 && id < 10 && r < 3 && rr < 6 && rr != caller then tlReply ss sid s (cancelWith 0 s ⟨0, s.delay, 1, false⟩ caller id r rr) else (ss, "bad-op")
    | _, _, _ => (ss, "bad-op")
  -- batch approval: ids = comma-separated buffer ids (possibly repeated), "-" = empty batch
  | ["approveb", sid, now, caller, r, ids] =>
    match tlLookup ss sid, pInt now, allNat [caller, r], (if ids = "-" then some [] else (ids.splitOn ",").mapM pNat) with
    | some s, some now, some [caller, r], some idl =>
      if tlFitsI now && caller < 6 && r < 3 && idl.length ≤ 10 && idl.all (· < 10) then tlReply ss sid s (approveBatch s now caller r idl) else (ss, "bad-op")
    | _, _, _, _ => (ss, "bad-op")
  | ["cancelb", sid, now, caller, r, rr, ids] =>
    match tlLookup ss sid, pInt now, allNat [caller, r, rr], (if ids = "-" then some [] else (ids.splitOn ",").mapM pNat) with
    | some s, some now, some [caller, r, rr], some idl =>
      if tlFitsI now && caller < 6 && r < 3 && rr < 6 && rr != caller && idl.length ≤ 10 && idl.all (· < 10) then tlReply ss sid s (cancelBatch s caller r rr idl) else (ss, "bad-op")
    | _, _, _, _ => (ss, "bad-op")
  | ["approve", sid, now, caller, id, r] =>
    match tlLookup ss sid, pInt now, allNat [caller, id, r] with
    | some s, some now, some [caller, id, r] =>
      if tlFitsI now && caller < 6 && id < 10 && r < 3 then tlReply ss sid s (approve s now caller id r) else (ss, "bad-op")
    | _, _, _ => (ss, "bad-op")
  | ["cancel", sid, now, caller, id, r, rr] =>
    match tlLookup ss sid, pInt now, allNat [caller, id, r, rr] with
    | some s, some now, some [caller, id, r, rr] =>
      if tlFitsI now && caller < 6 && id < 10 && r < 3 && rr < 6 && rr != caller then tlReply ss sid s (cancel s caller id r rr) else (ss, "bad-op")
    | _, _, _ => (ss, "bad-op")
  | ["exec", sid, now, caller, id, r, rr] =>
    match tlLookup ss sid, pInt now, allNat [caller, id, r, rr] with
    | some s, some now, some [caller, id, r, rr] =>
      if tlFitsI now && caller < 6 && id < 10 && r < 3 && rr < 6 && rr != caller then
        match exec s now caller id r rr with
        | some (s', ix) => (tlSet ss sid s', s!"ok {tlShowIx ix} | {tlDigest s'}")
        | none => (ss, s!"err | {tlDigest s}")
      else (ss, "bad-op")
    | _, _, _ => (ss, "bad-op")
  | "create" :: sid :: now :: caller :: id :: r :: prog :: nacc :: dlen :: data :: signers :: metas =>
    match tlLookup ss sid, pInt now, allNat [caller, id, r, prog, nacc, dlen], metas.mapM tlMeta with
    | some s, some now, some [caller, id, r, prog, nacc, dlen], some accs =>
      let sg : Option (List Nat) := if signers = "-" then some [] else (signers.splitOn ",").mapM pNat
      let dataOk := data = "-" || (tlIsHex data && data.length ≤ 128)
      match sg with
      | some sg =>
        if tlFitsI now && caller < 6 && id < 10 && r < 3 && prog < 4 && nacc < 65536 && dlen < 65536 && dataOk
            && accs.length ≤ 12 && sg.all (· < 65536) then
          let actual := if data = "-" then 0 else data.length / 2
          match create s caller id r prog nacc dlen actual data sg accs with
          | some (s', _) => (tlSet ss sid s', s!"ok | {tlDigest s'}")
          | none => (ss, s!"err | {tlDigest s}")
        else (ss, "bad-op")
      | none => (ss, "bad-op")
    | _, _, _, _ => (ss, "bad-op")
  | _ => (ss, "bad-op")

end Gmx.Drv
