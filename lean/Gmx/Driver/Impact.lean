import Gmx.Model.Impact
import Gmx.Driver.Util
-- ENGINE imp impEngine stateless
/-! driver engine `imp` — C03 -/
namespace Gmx.Drv
open Gmx

def showBC : BalanceChange → String
  | .improved => "0" | .worsened => "1" | .unchanged => "2"

def showImpact : Option (Int × BalanceChange) → String
  | some (x, bc) => s!"ok {x} {showBC bc}"
  | none => "none"

def impEngine (args : List String) : String :=
  match args with
  | ["delta", w, u, e, fp, fn, pl, ps, dl, ds, prl, prs] =>
    match allNat [w, u, e, fp, fn, pl, ps, prl, prs], allInt [dl, ds] with
    | some [w, u, e, fp, fn, pl, ps, prl, prs], some [dl, ds] =>
      match PoolDelta.tryNew w pl ps dl ds prl prs with
      | none => "none"
      | some d => showImpact (d.priceImpact w u ⟨e, fp, fn⟩)
    | _, _ => "bad-op"
  | ["deltaamt", w, u, e, fp, fn, pl, ps, al, as, prl, prs] =>
    match allNat [w, u, e, fp, fn, pl, ps, prl, prs], allInt [al, as] with
    | some [w, u, e, fp, fn, pl, ps, prl, prs], some [al, as] =>
      match PoolDelta.tryFromAmounts w pl ps al as prl prs with
      | none => "none"
      | some d => showImpact (d.priceImpact w u ⟨e, fp, fn⟩)
    | _, _ => "bad-op"
  -- swap impact with an optional virtual inventory: `vflag` 1 = virtual pool (vl, vs) present
  | ["vdelta", w, u, e, fp, fn, pl, ps, vflag, vl, vs, dl, ds, prl, prs, incl] =>
    match allNat [w, u, e, fp, fn, pl, ps, vl, vs, prl, prs], allInt [dl, ds], pBool vflag, pBool incl with
    | some [w, u, e, fp, fn, pl, ps, vl, vs, prl, prs], some [dl, ds], some vflag, some incl =>
      showImpact (swapImpactWithVirtual w u ⟨e, fp, fn⟩ pl ps (if vflag then some (vl, vs) else none) dl ds prl prs incl)
    | _, _, _, _ => "bad-op"
  | _ => "bad-op"

end Gmx.Drv
