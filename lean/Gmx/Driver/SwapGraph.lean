import Gmx.Model.SwapGraph
import Gmx.Driver.Util
-- ENGINE swg swgEngine stateless
/-! driver engine `swg` — C42 (swap path search)

`swg paths <n> <maxSteps> <skipBF> <src> <edges>`; edges `src.dst.market.cost,…` in insertion
order (`x` = no estimate, `-` = no edges). Response: `err <kind>` or
`arb=<-|0|1> t=<distance reported by to|->/<path m+m|->/<raw distance|->` for every node `t`. -/
namespace Gmx.Drv
open Gmx.SwapGraph

def pEdge (s : String) : Option Edge :=
  match s.splitOn "." with
  | [a, b, m, c] => match pNat a, pNat b, pNat m with
    | some a, some b, some m =>
      if c = "x" then some ⟨a, b, m, none⟩ else
      match pInt c with | some c => some ⟨a, b, m, some c⟩ | none => none
    | _, _, _ => none
  | _ => none

def pEdges (s : String) : Option (List Edge) :=
  if s = "-" then some [] else (s.splitOn ",").mapM pEdge

def showOI : Option Int → String
  | some d => toString d
  | none => "-"

def swgEngine (args : List String) : String :=
  match args with
  | ["paths", n, ms, skip, src, es] =>
    match pNat n, pNat ms, pBool skip, pNat src, pEdges es with
    | some n, some ms, some skip, some src, some es =>
      let g : Graph := ⟨n, es, ms⟩
      match bestSwapPaths g src skip with
      | .error .unknownSource => "err UnknownSource"
      | .error .negativeCycle => "err NegativeCycle"
      | .ok (dist, pred, arb) =>
        let a := match arb with | none => "-" | some false => "0" | some true => "1"
        let ts := (List.range n).map (fun t =>
          let (d, p) := toPath g src t dist pred
          s!"{t}={showOI d}/{if p.isEmpty then "-" else "+".intercalate (p.map toString)}/{showOI (dist t)}")
        s!"arb={a} {" ".intercalate ts}"
    | _, _, _, _, _ => "bad-op"
  | _ => "bad-op"

end Gmx.Drv
