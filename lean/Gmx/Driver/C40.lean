import Gmx.Model.ConfigAccess
import Gmx.Model.PoolOps
import Gmx.Model.SwapPricing
import Gmx.Gen.Layout
import Gmx.Driver.Util
import Gmx.Driver.C16
-- ENGINE c40 Tbl.c40Engine stateless
/-! driver engine `c40` — what the SDK's `MarketModel` reads (through the tables generated from the
SDK source) for a market whose keys hold sentinels, and the SDK `Pool` operations. -/
namespace Gmx.Drv.Tbl
open Gmx.Drv
open Gmx.Gen.MarketConfig Gmx.Gen.Pools Gmx.Gen.Wiring Gmx.ConfigAccess Gmx.PoolOps Gmx.Gen.Layout

def showPool : Option RawPool → String
  | some p => s!"ok {showBool p.pure} {p.long} {p.short}"
  | none => "err"

def pOptInt (s : String) : Option (Option Int) := if s = "-" then some none else (pInt s).map some

def poolOp (sdk : Bool) (p : RawPool) (op : String) (a b : String) : String :=
  match op with
  | "amounts" => s!"ok {longAmount p} {shortAmount p}"
  | "apply_long" => match pInt a with | some d => showPool (applyLong p d) | none => "bad-op"
  | "apply_short" => match pInt a with | some d => showPool (applyShort p d) | none => "bad-op"
  | "apply_delta" => match pOptInt a, pOptInt b with
    | some dl, some ds => showPool (checkedApplyDelta p dl ds) | _, _ => "bad-op"
  | "cancel" => showPool (if sdk then cancelSdk sdkOverridesCancelAmounts p else cancelProgram p)
  | _ => "bad-op"

open Gmx.SwapPricing in
def pKind (s : String) : Option PKind :=
  if s = "S" then some .swap else if s = "D" then some .deposit else if s = "W" then some .withdrawal else if s = "H" then some .shift else none

open Gmx.SwapPricing in
def pStep (s : String) : Option Step :=
  if s.endsWith "!" then (pKind (s.dropEnd 1).toString).map .failing else
  match s.splitOn ":" with
  | [scope, _] =>
    if scope = "-" then some .plain else
    match scope.splitOn ">" with
    | [k] => (pKind k).map .scoped
    | [k, j] => match pKind k, pKind j with | some k, some j => some (.nested k j) | _, _ => none
    | _ => none
  | _ => none

def c40Engine (args : List String) : String :=
  match args with
  | ["param", closed, mask, wk, v, m, var, side, p] =>
    match pBool closed, pNat mask, pNat v, Method.ofName? m, Variant.ofName? var, pSide side, Param.ofName? p with
    | some closed, some mask, some v, some m, some var, some side, some p =>
      let c := cfgWithMask (sentinelCfg c16Base) mask
      let c := if wk = "-" then some c else (Key.ofSnake? wk).bind (fun k => c.set k v)
      match c with
      | some c =>
        -- `MarketModel::from_parts` starts with `swap_pricing = SwapPricingKind::Swap` (its `Default`)
        -- … and `order_fee_discount_factor = 0`
        if p == .with_discount_factor then
          (match (findRow sdkWiring m var side p).map (·.src) with
           | some (Src.modelField "order_fee_discount_factor") => "ok 0"
           | _ => "norow")
        else
        match c.readParamSdk closed m var side p with
        | some v => showVal (some v)
        | none => if var == .none_ then showVal (c.readParamSdk closed m .swap_pricing_Swap side p) else "norow"
      | none => "nokey"
    | some _, some _, some _, _, _, some _, _ => "norow"
    | _, _, _, _, _, _, _ => "bad-op"
  | ["poolop", side, pure, l, s, op, a, b] =>
    match pBool pure, pNat l, pNat s with
    | some pure, some l, some s =>
      if side = "sdk" then poolOp true ⟨pure, l, s⟩ op a b
      else if side = "prog" then poolOp false ⟨pure, l, s⟩ op a b else "bad-op"
    | _, _, _ => "bad-op"
  | ["layout", "size", t] =>
    match layouts.find? (fun x => x.name == t) with
    | some x => s!"ok {x.size16} {x.size16}"
    | none => "notype"
  | ["layout", "key", k] =>
    match (Key.ofSnake? k).bind getField with
    | some f => s!"ok {8 + marketConfigOffset + configFieldOffset f} 16"
    | none => "nokey"
  | ["layout", "flag", x] =>
    match Flag.ofSnake? x with
    | some x => s!"ok {8 + marketConfigOffset + configFlagOffset + x.bit / 8} {2 ^ (x.bit % 8)}"
    | none => "noflag"
  | ["hist", pos, neg, _, steps] =>
    -- fee factors the long-lived SDK model applies at each operation step (resting kind: Swap)
    match pNat pos, pNat neg, (steps.splitOn ",").mapM pStep with
    | some pos, some neg, some st =>
      "same " ++ ";".intercalate ((Gmx.SwapPricing.runHistory pos neg ⟨.swap, ()⟩ st).map fun f => s!"{f.1}/{f.2}")
    | _, _, _ => "bad-op"
  | ["randbytes", _] => "same"
  -- actions are compared program-vs-SDK inside the harness (`actions_congruent` is why equality is expected)
  | ["action", _] => "same"
  | ["poolkind", k] =>
    match Kind.ofName? k with
    | some k => match sdkPoolGet k with | some f => s!"ok {f.name}" | none => "nopool"
    | none => "nokind"
  | _ => "bad-op"

end Gmx.Drv.Tbl
