import Gmx.Model.BuilderFee
import Gmx.Driver.Util
-- ENGINE bfee BfeeE.bfeeEngine stateless
/-! driver engine `bfee` — C32 (builder fee helpers; `U = 10^20`) -/
namespace Gmx.Drv.BfeeE
open Gmx Gmx.BuilderFee

def bfeeUnit : Nat := 10 ^ 20

def showBErr : BErr → String
  | .overflow => "err Overflow"
  | .exceedsCollateral => "err Exceeds"
  | .swapType => "err SwapType"

def showBNat : Except BErr Nat → String
  | .ok r => s!"ok {r}"
  | .error e => showBErr e

/-- parse the operations of a `hist` request: `i incr size factor pmin` | `d size factor pmin output` | `s` -/
def pHistOps : List String → Option (List Op)
  | [] => some []
  | "i" :: a :: b :: c :: d :: rest =>
    match allNat [a, b, c, d], pHistOps rest with
    | some [a, b, c, d], some ops => if a < 2 ^ 64 then some (.inc a b c d :: ops) else none
    | _, _ => none
  | "d" :: a :: b :: c :: d :: rest =>
    match allNat [a, b, c, d], pHistOps rest with
    | some [a, b, c, d], some ops => if d < 2 ^ 64 then some (.dec a b c d :: ops) else none
    | _, _ => none
  | "s" :: rest => (pHistOps rest).map (fun ops => .settle :: ops)
  | _ => none

def histLabel (s : Settle) : Op → String
  | .inc i sz f p => match increaseCharge bfeeUnit i sz f p s.recorded with
    | .ok (a, e, _) => s!"i:{a}:{e}" | .error _ => "i:err"
  | .dec sz f p out => match decreaseRecord bfeeUnit sz f p out s.recorded with
    | .ok r => s!"d:{r}" | .error _ => "d:err"
  | .settle => match settle s with
    | some (_, amt) => s!"s:{amt}" | none => "s:err"

/-- run a history with the model's `step`; `none` when the escrow would leave the `u64` range
(outside the protocol: the harness keeps token balances in real SPL accounts). -/
def histRun : Settle → List Op → List String → Option (Settle × List String)
  | s, [], acc => some (s, acc.reverse)
  | s, op :: ops, acc =>
    let s' := step bfeeUnit s op
    if s'.escrow < 2 ^ 64 then histRun s' ops (histLabel s op :: acc) else none

def bfeeEngine (args : List String) : String :=
  match args with
  | ["compute", size, factor, pmin, _pmax] =>
    match allNat [size, factor, pmin] with
    | some [size, factor, pmin] =>
      (match computeFee bfeeUnit size factor pmin with | some r => s!"ok {r}" | none => "err Overflow")
    | _ => "bad-op"
  | ["clamp", fee, avail] =>
    match allNat [fee, avail] with
    | some [fee, avail] => s!"ok {clampFee fee avail}" | _ => "bad-op"
  | ["charge", incr, size, factor, pmin, _pmax] =>
    match allNat [incr, size, factor, pmin] with
    | some [incr, size, factor, pmin] =>
      (match chargeOnIncrement bfeeUnit incr size factor pmin with
       | .ok (a, f) => s!"ok {a} {f}" | .error e => showBErr e)
    | _ => "bad-op"
  | ["estimate", w, size, factor, pmin, _pmax, swap] =>
    match allNat [w, size, factor, pmin, swap] with
    | some [w, size, factor, pmin, swap] =>
      if swap > 2 then "bad-op" else showBNat (estimateWithdrawal bfeeUnit w size factor pmin (swap == 2))
    | _ => "bad-op"
  | ["record", cur, amount] =>
    match allNat [cur, amount] with
    | some [cur, amount] => showBNat (recordFee cur amount) | _ => "bad-op"
  | ["decrease", size, factor, pmin, _pmax, output, cur] =>
    match allNat [size, factor, pmin, output, cur] with
    | some [size, factor, pmin, output, cur] => showBNat (decreaseRecord bfeeUnit size factor pmin output cur)
    | _ => "bad-op"
  | ["increase", incr, size, factor, pmin, _pmax, cur] =>
    match allNat [incr, size, factor, pmin, cur] with
    | some [incr, size, factor, pmin, cur] =>
      (match increaseCharge bfeeUnit incr size factor pmin cur with
       | .ok (a, e, r) => s!"ok {a} {e} {r}" | .error e => showBErr e)
    | _ => "bad-op"
  | ["settle", recorded, escrow, vault] =>
    match allNat [recorded, escrow, vault] with
    | some [recorded, escrow, vault] =>
      (match settle ⟨recorded, escrow, vault⟩ with
       | some (s, amt) => s!"ok {amt} {s.recorded} {s.escrow} {s.vault}" | none => "err Transfer")
    | _ => "bad-op"
  | "hist" :: escrow :: vault :: n :: rest =>
    match allNat [escrow, vault, n], pHistOps rest with
    | some [escrow, vault, n], some ops =>
      if ops.length ≠ n ∨ escrow ≥ 2 ^ 64 ∨ vault ≥ 2 ^ 64 then "bad-op" else
      (match histRun ⟨0, escrow, vault⟩ ops [] with
       | none => "bad-op"
       | some (s, labels) => s!"ok {s.recorded} {s.escrow} {s.vault} | {joinSp labels}")
    | _, _ => "bad-op"
  | ["settlef", recorded, escFinal, vaultFinal, escOther, vaultOther, which] =>
    -- the caller passes the recorded final-output accounts (which = 0) or the order's funded escrow
    -- of ANOTHER mint with the builder's vault for that mint (which = 1)
    match allNat [recorded, escFinal, vaultFinal, escOther, vaultOther, which] with
    | some [recorded, escFinal, vaultFinal, escOther, vaultOther, which] =>
      if which > 1 then "bad-op" else
      (match settleWith ⟨recorded, escFinal, vaultFinal⟩ .builder (which == 0) with
       | .error .mismatched => "err Mismatched"
       | .error .transfer => "err Transfer"
       | .error _ => "err Other"
       | .ok (s, amt) => s!"ok {amt} | {s.recorded} {s.escrow} {s.vault} {escOther} {vaultOther}")
    | _ => "bad-op"
  | ["settlex", accounts, recorded, escrow, vault, times] =>
    match allNat [accounts, recorded, escrow, vault, times] with
    | some [accounts, recorded, escrow, vault, times] =>
      if accounts > 2 ∨ times = 0 ∨ times > 2 then "bad-op" else
      let p : Passed := if accounts = 0 then .none else if accounts = 1 then .builder else .otherUser
      let showS (s : Settle) := s!"{s.recorded} {s.escrow} {s.vault}"
      let showE : SErr → String
        | .notProvided => "err NotProvided" | .invalidUser => "err InvalidUser" | .transfer => "err Transfer"
        | .mismatched => "err Mismatched"
      (match settleIx ⟨recorded, escrow, vault⟩ p with
       | .error e => showE e
       | .ok (s1, a1) =>
         if times = 1 then s!"ok {a1} | {showS s1}"
         else match settleIx s1 p with
           | .error e => showE e
           | .ok (s2, a2) => s!"ok {a1} {a2} | {showS s2}")
    | _ => "bad-op"
  | _ => "bad-op"

end Gmx.Drv.BfeeE
