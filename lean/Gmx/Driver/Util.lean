/-! Line-protocol helpers shared by all driver engines (core only). -/
namespace Gmx.Drv

def pNat (s : String) : Option Nat := s.toNat?
def pInt (s : String) : Option Int := s.toInt?
def pBool (s : String) : Option Bool :=
  if s = "1" then some true else if s = "0" then some false else none

def allNat (xs : List String) : Option (List Nat) := xs.mapM pNat
def allInt (xs : List String) : Option (List Int) := xs.mapM pInt

def showOptNat : Option Nat → String
  | some r => s!"ok {r}"
  | none => "none"

def showOptInt : Option Int → String
  | some r => s!"ok {r}"
  | none => "none"

def showBool (b : Bool) : String := if b then "1" else "0"

def joinSp (xs : List String) : String := " ".intercalate xs

end Gmx.Drv
