import Gmx.Model.Gt
import Gmx.Driver.Util
-- ENGINE gt GtE.gtEngine stateful Gmx.Drv.GtE.GtDb []
/-! driver engine `gt` — C30 (GT state histories; `U = 10^20`) -/
namespace Gmx.Drv.GtE
open Gmx Gmx.Gt

abbrev GtDb := List (Nat × Gmx.Gt.World)

def gtUnit : Nat := 10 ^ 20

def showGErr : GErr → String
  | .overflow => "err Overflow"
  | .config => "err Config"
  | .internal => "err Internal"
  | .valueOverflow => "err ValueOverflow"
  | .notEnough => "err NotEnough"
  | .precond => "err Precond"
  | .arg => "err Arg"
  | .initialized => "err Initialized"
  | .divZero => "panic"

def gtDigest (w : World) : String :=
  let g := w.g
  let v := w.vault
  let idx := if v.initialized then windowIndex v.ts v.timeWindow else 0
  let us := w.users.map (fun u => s!"{u.amount}/{u.rank}/{u.totalMinted}/{u.lastMintedAt}/{u.exchange}")
  s!"T={g.totalMinted} S={g.supply} V={g.gtVault} steps={g.growSteps} cost={g.mintingCost} cum={g.cumInvCost} cts={g.lastCumTs} lm={g.lastMintedAt} | vault {showBool v.initialized} {showBool v.confirmed} {idx} {v.timeWindow} {v.amount} | {joinSp us}"

/-- bounded pre-run of the growth loop: `true` iff `n` iterations complete without a `u128`
overflow and without reaching a fixed point first (a fixed point means the real loop would spin
until the last step). -/
def gtLoopRunsLong (U f : Nat) : Nat → Nat → Bool
  | 0, _ => true
  | n + 1, c =>
    match applyFactor 128 U c f with
    | none => false
    | some c' => if c' = c then true else gtLoopRunsLong U f n c'

/-- mirror of the harness guard (`too_many_steps` in `h_store/src/bin/c30.rs`): a mint is skipped
only if it crosses more than 100000 grow steps AND the cost does not overflow within the first
100000 iterations (otherwise the real loop ends early with `Internal` and the mint is compared). -/
def gtTooManySteps (g : Gt) (amount : Nat) : Bool :=
  amount != 0 && g.growStepAmount != 0 && decide (g.totalMinted + amount < 2 ^ 64) &&
    decide ((g.totalMinted + amount) / g.growStepAmount - g.growSteps > 100000) &&
    gtLoopRunsLong gtUnit g.costGrowFactor 100000 g.mintingCost

def gtLookup (st : List (Nat × World)) (sid : Nat) : Option World :=
  (st.find? (fun p => p.1 == sid)).map (·.2)

def gtStore (st : List (Nat × World)) (sid : Nat) (w : World) : List (Nat × World) :=
  (sid, w) :: st.filter (fun p => p.1 != sid)

def gtApply (st : List (Nat × World)) (sid : Nat) (op : Op) (pre : World → String) :
    List (Nat × World) × String :=
  match gtLookup st sid with
  | none => (st, "err NoState")
  | some w =>
    match stepE gtUnit w op with
    | .error e => (st, showGErr e)
    | .ok w' => (gtStore st sid w', s!"ok{pre w} | {gtDigest w'}")

def gtEngine (st : List (Nat × World)) (args : List String) : List (Nat × World) × String :=
  match args with
  | "new" :: sid :: now :: cost :: factor :: step :: n :: ranks =>
    match allNat [sid, cost, factor, step, n], pInt now, allNat ranks with
    | some [sid, cost, factor, step, n], some now, some ranks =>
      (match init {} now cost factor step ranks with
       | .error e => (st, showGErr e)
       | .ok g =>
         let w : World := { g := g, users := List.replicate n {}, vault := {} }
         (gtStore st sid w, s!"ok | {gtDigest w}"))
    | _, _, _ => (st, "bad-op")
  | ["uninit", sid, _now, n] =>
    -- a world whose GT state was never initialised (zeroed account): `grow_step_amount = 0`
    match allNat [sid, n] with
    | some [sid, n] =>
      let w : World := { g := {}, users := List.replicate n {}, vault := {} }
      (gtStore st sid w, s!"ok | {gtDigest w}")
    | _ => (st, "bad-op")
  | ["mint", sid, now, uid, amount] =>
    match allNat [sid, uid, amount], pInt now with
    | some [sid, uid, amount], some now =>
      (match gtLookup st sid with
       | some w => if uid < w.users.length && gtTooManySteps w.g amount then (st, "skip StepLoop")
                   else gtApply st sid (.mint now uid amount) (fun _ => "")
       | none => (st, "err NoState"))
    | _, _ => (st, "bad-op")
  | ["burn", sid, _now, uid, amount] =>
    match allNat [sid, uid, amount] with
    | some [sid, uid, amount] => gtApply st sid (.burn uid amount) (fun _ => "")
    | _ => (st, "bad-op")
  | ["mintvalue", sid, now, uid, value] =>
    match allNat [sid, uid, value], pInt now with
    | some [sid, uid, value], some now =>
      let skip := match gtLookup st sid with
        | some w => (match getMintAmount w.g value with
          | .ok (m, _, _) => uid < w.users.length && gtTooManySteps w.g m
          | .error _ => false)
        | none => false
      if skip then (st, "skip StepLoop") else
      gtApply st sid (.mintValue now uid value) (fun w =>
        match getMintAmount w.g value with
        | .ok (m, mv, c) => s!" {m} {mv} {c}"
        | .error _ => "")
    | _, _ => (st, "bad-op")
  | ["mintamount", sid, _now, value] =>
    match allNat [sid, value] with
    | some [sid, value] =>
      (match gtLookup st sid with
       | none => (st, "err NoState")
       | some w => match getMintAmount w.g value with
         | .ok (m, mv, c) => (st, s!"ok {m} {mv} {c}")
         | .error e => (st, showGErr e))
    | _ => (st, "bad-op")
  | ["vaultinit", sid, now, tw] =>
    match allNat [sid, tw], pInt now with
    | some [sid, tw], some now => gtApply st sid (.vaultInit now tw) (fun _ => "")
    | _, _ => (st, "bad-op")
  | ["request", sid, now, uid, amount] =>
    match allNat [sid, uid, amount], pInt now with
    | some [sid, uid, amount], some now => gtApply st sid (.request now uid amount) (fun _ => "")
    | _, _ => (st, "bad-op")
  | ["confirm", sid, now] =>
    match allNat [sid], pInt now with
    | some [sid], some now =>
      gtApply st sid (.confirm now) (fun w =>
        match confirmVault w.g w.vault now with
        | .ok (_, _, amt) => s!" {amt}"
        | .error _ => "")
    | _, _ => (st, "bad-op")
  | ["depositable", sid, now] =>
    match allNat [sid], pInt now with
    | some [sid], some now =>
      (match gtLookup st sid with
       | none => (st, "err NoState")
       | some w => match validateDepositable w.vault now with
         | .ok _ => (st, "ok") | .error e => (st, showGErr e))
    | _, _ => (st, "bad-op")
  | ["confirmable", sid, now] =>
    match allNat [sid], pInt now with
    | some [sid], some now =>
      (match gtLookup st sid with
       | none => (st, "err NoState")
       | some w => match validateConfirmable w.vault now with
         | .ok _ => (st, "ok") | .error e => (st, showGErr e))
    | _, _ => (st, "bad-op")
  | _ => (st, "bad-op")

end Gmx.Drv.GtE
