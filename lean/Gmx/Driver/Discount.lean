import Gmx.Model.Discount
import Gmx.Driver.Util
-- ENGINE disc DiscE.discEngine stateless
/-! driver engine `disc` — C31 (order-fee discount, program and SDK transcriptions) -/
namespace Gmx.Drv.DiscE
open Gmx Gmx.Discount

def discUnit : Nat := 10 ^ 20

def showDisc : Except DErr Nat → String
  | .ok d => s!"ok {d}"
  | .error .rank => "err Rank"
  | .error .complement => "err Complement"
  | .error .overflow => "err Overflow"
  | .error .index => "err Index"
  | .error .arg => "err Set"

def discEngine (args : List String) : String :=
  match args with
  | "prog" :: maxRank :: rank :: isRef :: ref :: fs =>
    match allNat [maxRank, rank, ref], pBool isRef, allNat fs with
    | some [maxRank, rank, ref], some isRef, some fs =>
      if maxRank > 15 then "bad-op" else
      match setFactors discUnit maxRank (List.replicate 16 0) fs with
      | .error _ => "err Set"
      | .ok table => showDisc (programDiscount discUnit maxRank table ref rank isRef)
    | _, _, _ => "bad-op"
  | "sdk" :: maxRank :: rank :: isRef :: ref :: fs =>
    match allNat [maxRank, rank, ref], pBool isRef, allNat fs with
    | some [maxRank, rank, ref], some isRef, some fs =>
      if fs.length = 16 then showDisc (sdkDiscount discUnit maxRank fs ref rank isRef) else "bad-op"
    | _, _, _ => "bad-op"
  | _ => "bad-op"

end Gmx.Drv.DiscE
