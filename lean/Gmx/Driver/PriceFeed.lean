import Gmx.Model.PriceFeed
import Gmx.Driver.Util
-- ENGINE feed feedEngine stateful Gmx.Drv.FeedDb []
/-! driver engine `feed` — C25.
`feed new <sid>` · `feed upd <sid> <slot> <now> <ts> <price> <min> <max> <maxFutureExcess> <idempotent>`.
Responses `ok 1|ok 0|err <Kind> | <slot> <lastTs> <ts> <price> <min> <max>`. -/
namespace Gmx.Drv
open Gmx.Feed

abbrev FeedDb := List (String × St)

def feedDigest (s : St) : String :=
  s!"{s.lastSlot} {s.lastTs} {s.price.ts} {s.price.price} {s.price.min} {s.price.max}"

def feedGet (db : FeedDb) (sid : String) : Option St :=
  match db with
  | [] => none
  | (k, v) :: rest => if k = sid then some v else feedGet rest sid

def feedPut (db : FeedDb) (sid : String) (v : St) : FeedDb :=
  (sid, v) :: (db.filter (fun kv => kv.1 != sid)).take 8

def feedEngine (db : FeedDb) (args : List String) : FeedDb × String :=
  match args with
  | ["new", sid] => (feedPut db sid St.zero, s!"ok | {feedDigest St.zero}")
  | ["upd", sid, slot, now, ts, price, mn, mx, mfe, idem] =>
    match feedGet db sid, allNat [slot, price, mn, mx, mfe], allInt [now, ts], pBool idem with
    | some s, some [slot, price, mn, mx, mfe], some [now, ts], some idem =>
      if slot ≥ 2 ^ 64 ∨ mfe ≥ 2 ^ 64 ∨ price ≥ 2 ^ 128 ∨ mn ≥ 2 ^ 128 ∨ mx ≥ 2 ^ 128 then (db, "bad-op") else
      match update s ⟨slot, now, ⟨ts, price, mn, mx⟩, mfe, idem⟩ with
      | .ok (s', b) => (feedPut db sid s', s!"ok {showBool b} | {feedDigest s'}")
      | .error .Preconditions => (db, s!"err PreconditionsAreNotMet | {feedDigest s}")
      | .error .InvalidArgument => (db, s!"err InvalidArgument | {feedDigest s}")
    | _, _, _, _ => (db, "bad-op")
  | _ => (db, "bad-op")

end Gmx.Drv
