import Gmx.Model.StorePool
import Gmx.Driver.Util
-- ENGINE spool spoolEngine stateless
/-! driver engine `spool` — C15 (store `Pool` and the SDK copy)

`spool <op> <impl> <flag> <long> <short> …` with `impl ∈ {store, sdk}`; width fixed to 128.
Responses: `ok <flag> <long> <short> <longView> <shortView>` or `err` (`err <i>` for `seq`: the
index of the first failing op). -/
namespace Gmx.Drv
open Gmx Gmx.SPool

def spShow (p : Pool) : String :=
  s!"ok {p.flag} {p.long} {p.short} {longAmount p} {shortAmount p}"

def spShowOpt : Option Pool → String
  | some p => spShow p
  | none => "err"

def spOptInt (s : String) : Option (Option Int) :=
  if s = "_" then some none else (pInt s).map some

def spParseOp (s : String) : Option Op :=
  if s = "C" then some .cancel
  else match s.splitOn ":" with
    | ["L", d] => (pInt d).map .long
    | ["S", d] => (pInt d).map .short
    | _ => none

def spCancel (sdk : Bool) (p : Pool) : Option Pool :=
  if sdk then cancelSdk 128 p else some (cancel p)

def spStep (sdk : Bool) (p : Pool) (o : Op) : Option Pool :=
  if sdk then stepSdk 128 p o else step 128 p o

/-- run, reporting the index of the first failing op -/
def spRun (sdk : Bool) (p : Pool) (i : Nat) : List Op → Except Nat Pool
  | [] => .ok p
  | o :: os => match spStep sdk p o with
    | none => .error i
    | some q => spRun sdk q (i + 1) os

def spoolEngine (args : List String) : String :=
  match args with
  | op :: impl :: f :: l :: s :: rest =>
    match (if impl = "store" then some false else if impl = "sdk" then some true else none),
          allNat [f, l, s] with
    | some sdk, some [f, l, s] =>
      if f ≥ 256 ∨ l ≥ 2 ^ 128 ∨ s ≥ 2 ^ 128 then "bad-op" else
      let p : Pool := ⟨f, l, s⟩
      match op, rest with
      | "view", [] => spShow p
      | "apply", [side, d] =>
        match pInt d with
        | some d =>
          if side = "L" then spShowOpt (applyLong 128 p d)
          else if side = "S" then spShowOpt (applyShort 128 p d) else "bad-op"
        | none => "bad-op"
      | "delta", [dl, ds] =>
        match spOptInt dl, spOptInt ds with
        | some dl, some ds => spShowOpt (applyDelta 128 p dl ds)
        | _, _ => "bad-op"
      | "cancel", [] => spShowOpt (spCancel sdk p)
      | "seq", ops =>
        match ops.mapM spParseOp with
        | some ops =>
          match spRun sdk p 0 ops with
          | .ok q => spShow q
          | .error i => s!"err {i}"
        | none => "bad-op"
      | _, _ => "bad-op"
    | _, _ => "bad-op"
  | _ => "bad-op"

end Gmx.Drv
