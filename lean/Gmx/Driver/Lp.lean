import Gmx.Driver.Perp
import Gmx.Model.Liquidity
-- ENGINE mlp LpE.lpEngine stateful Gmx.Drv.PerpE.PerpDb []
/-! driver engine `mlp` — C06 (and C04/C05) on markets WITH open positions.

The sessions are the position engine's (`PerpE.PerpSt`: market, perp config, rate config,
positions); every op other than the four below is delegated to `PerpE.perpEngine` unchanged.
`mlp deposit|withdraw|swap|pv <sid> …` are the `mkt` ops, with the perp inputs of `pool_value`
(`PerpIn`: borrowing factor per second of the two sides) computed by
`Gmx.Perp.borrowingFactorPerSecond` from the market state and the request's prices. When that
computation fails `pool_value` fails (`err Fail`); whatever the action checks BEFORE its pool value
(empty request, max-pnl validation, price impact for deposits; empty request / invalid prices for
withdrawals) still comes first. -/
namespace Gmx.Drv.LpE
open Gmx Gmx.Perp Gmx.Drv Gmx.Drv.PerpE

def perpInOf (W U : Nat) (s : PerpSt) (pr : Prices) : Option PerpIn :=
  match borrowingFactorPerSecond W U s.rc.common s.rc.sideL true (borrowViewOf s.m pr true) with
  | .error _ => none
  | .ok l => match borrowingFactorPerSecond W U s.rc.common s.rc.sideS false (borrowViewOf s.m pr false) with
    | .error _ => none
    | .ok sh => some ⟨l, sh⟩

/-- `deposit` when the perp inputs cannot be computed: everything up to `pool_value`, which fails. -/
def depositNoPin (W U : Nat) (m : Market) (d : DepositParams) : Market × Except MErr DepositTrace :=
  if d.long = 0 ∧ d.short = 0 then (m, .error .emptyDeposit) else
  match validateMaxPnl W U m d.prices .maxAfterDeposit .maxAfterDeposit with
  | .error e => (m, .error e)
  | .ok () => match depositImpact W U m d true with
    | .error e => (m, .error e)
    | .ok _ => (m, .error .fail)

def withdrawNoPin (W : Nat) (m : Market) (w : WithdrawParams) : Market × Except MErr WithdrawReport :=
  if w.amount = 0 then (m, .error .emptyWithdrawal) else
  if ¬ w.prices.isValid W then (m, .error .invalidPrices) else (m, .error .fail)

def lpReply (db : PerpDb) (sid : String) (s : PerpSt) (m : Market) (r : String) : PerpDb × String :=
  perpReply db sid { s with m := m } r

/-- the pool-value early exits of `total_pending_borrowing_fees`: the open interest of the side is
read before the borrowing factor, so an overflowing merged open interest fails first (same tag). -/
def lpEngine (db : PerpDb) (args : List String) : PerpDb × String :=
  match args with
  | "deposit" :: sid :: l :: sh :: prices =>
    match perpGet db sid with
    | none => (db, "bad-op")
    | some s =>
      match pNat l, pNat sh, allNat prices >>= parsePrices s.W with
      | some l, some sh, some pr =>
        if l ≥ 2 ^ s.W ∨ sh ≥ 2 ^ s.W then (db, "bad-op") else
        let res := match perpInOf s.W s.U s pr with
          | some pin => deposit s.W s.U s.m ⟨l, sh, pr⟩ pin
          | none => depositNoPin s.W s.U s.m ⟨l, sh, pr⟩
        match res with
        | (m', .ok t) =>
          let r := t.report
          lpReply db sid s m' s!"ok {r.minted} {r.priceImpact} {r.feesL.pool} {r.feesL.receiver} {r.feesS.pool} {r.feesS.receiver}"
        | (m', .error e) => lpReply db sid s m' (showMErr e)
      | _, _, _ => (db, "bad-op")
  | "withdraw" :: sid :: amt :: prices =>
    match perpGet db sid with
    | none => (db, "bad-op")
    | some s =>
      match pNat amt, allNat prices >>= parsePrices s.W with
      | some amt, some pr =>
        if amt ≥ 2 ^ s.W then (db, "bad-op") else
        let res := match perpInOf s.W s.U s pr with
          | some pin => withdraw s.W s.U s.m ⟨amt, pr⟩ pin
          | none => withdrawNoPin s.W s.m ⟨amt, pr⟩
        match res with
        | (m', .ok r) =>
          lpReply db sid s m' s!"ok {r.longOut} {r.shortOut} {r.feesL.pool} {r.feesL.receiver} {r.feesS.pool} {r.feesS.receiver}"
        | (m', .error e) => lpReply db sid s m' (showMErr e)
      | _, _ => (db, "bad-op")
  | "swap" :: sid :: il :: amt :: prices =>
    match perpGet db sid with
    | none => (db, "bad-op")
    | some s =>
      match pBool il, pNat amt, allNat prices >>= parsePrices s.W with
      | some il, some amt, some pr =>
        if amt ≥ 2 ^ s.W then (db, "bad-op") else
        match swapStep s.W s.U s.m ⟨il, amt, pr⟩ with
        | (m', .ok c) =>
          lpReply db sid s m' s!"ok {c.tokenOut} {c.impactValue} {c.impactAmount} {c.fees.pool} {c.fees.receiver}"
        | (m', .error e) => lpReply db sid s m' (showMErr e)
      | _, _, _ => (db, "bad-op")
  | "pv" :: sid :: k :: mx :: prices =>
    match perpGet db sid with
    | none => (db, "bad-op")
    | some s =>
      match pNat k >>= pKind, pBool mx, allNat prices >>= parsePrices s.W with
      | some kind, some mx, some pr =>
        match perpInOf s.W s.U s pr >>= poolValue s.W s.U s.m pr kind mx with
        | some v => lpReply db sid s s.m s!"ok {v}"
        | none => lpReply db sid s s.m "err Fail"
      | _, _, _ => (db, "bad-op")
  | ["setclock", sid, k, v] =>
    match perpGet db sid, allNat [k, v] with
    | some s, some [k, v] =>
      if v ≥ 2 ^ 64 then (db, "bad-op") else
      if k = 0 then lpReply db sid s { s.m with clockImpactDist := some v } "ok"
      else if k = 1 then lpReply db sid s { s.m with clockBorrowing := some v } "ok"
      else if k = 2 then lpReply db sid s { s.m with clockFunding := some v } "ok"
      else (db, "bad-op")
    | _, _ => (db, "bad-op")
  | _ => perpEngine db args

end Gmx.Drv.LpE
