import Gmx.Model.Referral
import Gmx.Driver.Util
-- ENGINE ref refEngine stateful RefState refInit
/-! driver engine `ref` — C33 (referral relationships) -/
namespace Gmx.Drv
open Gmx.Ref

abbrev RefState := List (String × St)
def refInit : RefState := []
def refLookup (ss : RefState) (sid : String) : Option St := (ss.find? (fun p => p.1 == sid)).map (·.2)
def refSet (ss : RefState) (sid : String) (s : St) : RefState := (sid, s) :: ss.filter (fun p => p.1 != sid)

def refOpt : Option Nat → String | some n => toString n | none => "_"

def refDigest (s : St) : String :=
  let us := (List.range 6).filterMap (fun u => (s.users u).map (fun (x : User) => s!"{u}:{refOpt x.referrer}:{refOpt x.code}:{x.refereeCount}"))
  let cs := ((List.range 5) ++ [9]).filterMap (fun c => (s.codes c).map (fun (x : Code) => s!"{c}:{x.owner}:{x.nextOwner}"))
  s!"users=[{",".intercalate us}] codes=[{",".intercalate cs}]"

def refUser (t : String) : Option Nat := match pNat t with | some n => if n < 6 then some n else none | none => none
def refCode (t : String) : Option Nat := match pNat t with | some n => if n < 5 || n = 9 then some n else none | none => none

def refReply (ss : RefState) (sid : String) (s : St) (r : Option St) : RefState × String :=
  match r with
  | some s' => (refSet ss sid s', s!"ok | {refDigest s'}")
  | none => (ss, s!"err | {refDigest s}")

def refEngine (ss : RefState) (args : List String) : RefState × String :=
  match args with
  | ["new", sid] => (refSet ss sid init, s!"ok | {refDigest init}")
  | ["prepare", sid, u] =>
    match refLookup ss sid, refUser u with
    | some s, some u => refReply ss sid s (prepare s u)
    | _, _ => (ss, "bad-op")
  | ["initcode", sid, u, c] =>
    match refLookup ss sid, refUser u, refCode c with
    | some s, some u, some c => refReply ss sid s (initCode s u c)
    | _, _, _ => (ss, "bad-op")
  | ["setref", sid, u, c, v] =>
    match refLookup ss sid, refUser u, refCode c, refUser v with
    | some s, some u, some c, some v => refReply ss sid s (setReferrer s u c v)
    | _, _, _, _ => (ss, "bad-op")
  | ["transfer", sid, u, c, v] =>
    match refLookup ss sid, refUser u, refCode c, refUser v with
    | some s, some u, some c, some v => refReply ss sid s (transfer s u c v)
    | _, _, _, _ => (ss, "bad-op")
  | ["cancel", sid, u, c] =>
    match refLookup ss sid, refUser u, refCode c with
    | some s, some u, some c => refReply ss sid s (cancel s u c)
    | _, _, _ => (ss, "bad-op")
  | ["accept", sid, n, c, v] =>
    match refLookup ss sid, refUser n, refCode c, refUser v with
    | some s, some n, some c, some v => refReply ss sid s (accept s n c v)
    | _, _, _, _ => (ss, "bad-op")
  | _ => (ss, "bad-op")

end Gmx.Drv
