import Gmx.Model.Chainlink
import Gmx.Driver.Util
import Gmx.Driver.HexUtil
-- ENGINE cl clEngine stateless
/-! driver engine `cl` — C28 -/
namespace Gmx.Drv
open Gmx.Chainlink

def showFr : Except FrErr (List (List Nat) × List Nat) → String
  | .ok (ctx, blob) => s!"ok {showHex ctx.flatten} {showHex blob}"
  | .error .tooShort => "err TooShort"
  | .error .offset => "err Offset"
  | .error .offsetOverflow => "err OffsetOverflow"
  | .error .lengthWord => "err LengthWord"
  | .error .lengthOverflow => "err LengthOverflow"
  | .error .bytesData => "err BytesData"
  | .error .panic => "panic"

def showCl : Except ClErr Feed → String
  | .ok f => s!"ok {f.decimals} {f.ts} {f.price} {f.min} {f.max} {f.diff} {f.flags} {f.status}"
  | .error .negPrice => "err NegPrice"
  | .error .negBid => "err NegBid"
  | .error .negAsk => "err NegAsk"
  | .error .askLtPrice => "err AskLtPrice"
  | .error .priceLtBid => "err PriceLtBid"
  | .error .divisorOverflow => "err DivisorOverflow"
  | .error .obsOverflow => "err ObsOverflow"
  | .error .lastUpdateAhead => "err LastUpdateAhead"
  | .error .panic => "panic"

def clEngine (args : List String) : String :=
  match args with
  | ["full", h] =>
    match pHex h with
    | some p => showFr (decodeFullReport p)
    | none => "bad-op"
  | ["head", h] =>
    match pHex h with
    | some p =>
      match decodeHead p with
      | none => "panic"
      | some .short => "short"
      | some (.unsupported v) => s!"unsupported {v}"
      | some (.supported _) => "supported"
    | none => "bad-op"
  | ["fromreport", ver, price, bid, ask, obs, lu, st] =>
    match allNat [ver, obs, lu, st], allInt [price, bid, ask] with
    | some [ver, obs, lu, st], some [price, bid, ask] =>
      let inR (z : Int) : Bool := decide (-(2 ^ 191 : Int) ≤ z) && decide (z < (2 ^ 191 : Int))
      if inR price && inR bid && inR ask && decide (obs < 2 ^ 32) && decide (lu < 2 ^ 64) && decide (st < 2 ^ 32) then
        match repOfVersion ver price bid ask obs lu st with
        | some r => showCl (fromReport r)
        | none => "err Decode"
      else "bad-op"
    | _, _ => "bad-op"
  | _ => "bad-op"

end Gmx.Drv
