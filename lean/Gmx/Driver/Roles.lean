import Gmx.Model.Roles
import Gmx.Driver.Util
-- ENGINE role roleEngine stateful Gmx.Drv.RoleDb []
/-! driver engine `role` — C18.  Role names travel as lower-case hex of their bytes (the model is
generic in the key type, hex is injective); addresses are small natural ids.

`role new <sid> <authority>` · `enable|disable <sid> <name>` · `grant|revoke <sid> <addr> <name>` ·
`has|shas <sid> <addr> <name>` · `admin <sid> <addr>` · `restart|refresh <sid>`.
Every response ends with `| <digest>` (roles by index, members by address). -/
namespace Gmx.Drv
open Gmx.Roles

structure RoleSt where
  rs : St String Nat
  authority : Nat
  restarted : Bool

abbrev RoleDb := List (String × RoleSt)

/-- hex("RESTART_ADMIN") -/
def restartAdminHex : String := "524553544152545f41444d494e"

def roleErr : Err → String
  | .PermissionDenied => "err PermissionDenied"
  | .NotFound => "err NotFound"
  | .Preconditions => "err PreconditionsAreNotMet"
  | .ExceedMax => "err ExceedMaxLengthLimit"
  | .StoreOutdated => "err StoreOutdated"

def insertSorted (x : Nat × Nat) : List (Nat × Nat) → List (Nat × Nat)
  | [] => [x]
  | y :: ys => if x.1 ≤ y.1 then x :: y :: ys else y :: insertSorted x ys

def roleDigest (s : RoleSt) : String :=
  let rs := s.rs.roles.map (fun m => s!"{m.name}:{showBool m.enabled}:{m.index}")
  let ms := (s.rs.members.map (fun (a, bits) => (a, bits.foldl (fun acc i => acc + 2 ^ i) 0))).foldr insertSorted []
  let ms := ms.map (fun (a, v) => s!"{a}:{v}")
  s!"roles={rs.length} [{joinSp rs}] members={ms.length} [{joinSp ms}] restarted={showBool s.restarted}"

def roleGet (db : RoleDb) (sid : String) : Option RoleSt :=
  match db with
  | [] => none
  | (k, v) :: rest => if k = sid then some v else roleGet rest sid

def rolePut (db : RoleDb) (sid : String) (v : RoleSt) : RoleDb :=
  (sid, v) :: (db.filter (fun kv => kv.1 != sid)).take 8

def roleMut (db : RoleDb) (sid : String) (s : RoleSt) (r : Except Err (St String Nat)) : RoleDb × String :=
  match r with
  | .ok rs' => let s' := { s with rs := rs' }; (rolePut db sid s', s!"ok | {roleDigest s'}")
  | .error e => (db, s!"{roleErr e} | {roleDigest s}")

def roleQ (db : RoleDb) (s : RoleSt) (r : Except Err Bool) : RoleDb × String :=
  match r with
  | .ok b => (db, s!"ok {showBool b} | {roleDigest s}")
  | .error e => (db, s!"{roleErr e} | {roleDigest s}")

def roleEngine (db : RoleDb) (args : List String) : RoleDb × String :=
  match args with
  | ["new", sid, auth] =>
    match pNat auth with
    | some auth =>
      let s : RoleSt := ⟨St.empty, auth, false⟩
      (rolePut db sid s, s!"ok | {roleDigest s}")
    | none => (db, "bad-op")
  | op :: sid :: rest =>
    match roleGet db sid with
    | none => (db, "bad-op")
    | some s =>
      match op, rest with
      | "enable", [r] => roleMut db sid s (enableRole s.rs r)
      | "disable", [r] => roleMut db sid s (disableRole s.rs r)
      | "grant", [a, r] =>
        match pNat a with
        | some a => roleMut db sid s (grant s.rs a r)
        | none => (db, "bad-op")
      | "revoke", [a, r] =>
        match pNat a with
        | some a => roleMut db sid s (revoke s.rs a r)
        | none => (db, "bad-op")
      | "has", [a, r] =>
        match pNat a with
        | some a => roleQ db s (hasRole s.rs a r)
        | none => (db, "bad-op")
      | "shas", [a, r] =>
        match pNat a with
        | some a => roleQ db s (storeHasRole restartAdminHex s.rs s.restarted a r)
        | none => (db, "bad-op")
      | "admin", [a] =>
        match pNat a with
        | some a => roleQ db s (storeHasAdminRole restartAdminHex s.rs s.authority s.restarted a)
        | none => (db, "bad-op")
      | "restart", [] => let s' := { s with restarted := true }; (rolePut db sid s', s!"ok | {roleDigest s'}")
      | "refresh", [] => let s' := { s with restarted := false }; (rolePut db sid s', s!"ok | {roleDigest s'}")
      | _, _ => (db, "bad-op")
  | _ => (db, "bad-op")

end Gmx.Drv
