import Gmx.Model.Life2
import Gmx.Driver.Util
-- ENGINE l2 l2Engine stateful L2State l2Init
/-! driver engine `l2` — native deposit / withdrawal / swap-order life cycles (C23 / C22 stage 3) -/
namespace Gmx.Drv
open Gmx.Life2

abbrev L2State := List (String × St)
def l2Init : L2State := []
def l2Lookup (ss : L2State) (sid : String) : Option St := (ss.find? (fun p => p.1 == sid)).map (·.2)
def l2Set (ss : L2State) (sid : String) (s : St) : L2State := (sid, s) :: (ss.filter (fun p => p.1 != sid)).take 4

def l2KindName (k : Nat) : String := if k = 0 then "d" else if k = 1 then "w" else if k = 2 then "s" else if k = 3 then "t" else if k = 4 then "i" else "x"
def l2Kind (t : String) : Option Nat := if t = "d" then some 0 else if t = "w" then some 1 else if t = "s" then some 2 else if t = "t" then some 3 else if t = "i" then some 4 else if t = "x" then some 5 else none

def l2Digest (s : St) : String :=
  let us := (List.range 3).map (fun u => let x := s.users u; s!"{u}:{x.long}:{x.short}:{x.mt}")
  -- same order as the harness' BTreeMap<(u8, char, u8)>: kinds sorted by character d < i < s < t < w < x
  let ds := (List.range 3).flatMap (fun u => [0, 4, 2, 3, 1, 5].flatMap (fun k => (List.range 3).filterMap (fun i =>
    (s.acts u k i).map (fun (x : Act) => s!"{u}.{l2KindName k}.{i}:{x.state}:{x.escLong}:{x.escShort}:{x.escMt}:r{x.receiver}"))))
  let ps := (List.range 3).map (fun u => if s.posOpen u then s!"{u}:{s.posSize u}" else s!"{u}:_")
  s!"now={s.now} users=[{",".intercalate us}] acts=[{",".intercalate ds}] vault={s.vaultLong}:{s.vaultShort} rec={s.recLong}:{s.recShort} supply={supply s} pos=[{",".intercalate ps}] claim={s.claimLong}:{s.claimShort}"

def l2Who (t : String) : Option Gmx.Life.Who :=
  if t = "k" then some .keeper else if t = "a" then some .admin
  else match t.toList with
    | 'u' :: rest => match (String.ofList rest).toNat? with | some n => if n < 3 then some (.user n) else none | none => none
    | _ => none

def l2Id (t : String) : Option (Nat × Nat × Nat) :=
  match t.splitOn "." with
  | [u, k, i] => match pNat u, l2Kind k, pNat i with | some u, some k, some i => if u < 3 && i < 3 then some (u, k, i) else none | _, _, _ => none
  | _ => none

def l2Reply (ss : L2State) (sid : String) (s : St) (r : Option St) : L2State × String :=
  match r with
  | some s' => (l2Set ss sid s', s!"ok | {l2Digest s'}")
  | none => (ss, s!"err | {l2Digest s}")

def l2Engine (ss : L2State) (args : List String) : L2State × String :=
  match args with
  | ["new", sid] => let s := init 1000000000000 5000000000 1700000000; (l2Set ss sid s, s!"ok | {l2Digest s}")
  | ["tick", sid, dt] =>
    match l2Lookup ss sid, pNat dt with
    | some s, some dt => if dt ≤ 100000 then l2Reply ss sid s (some (tick s dt)) else (ss, "bad-op")
    | _, _ => (ss, "bad-op")
  | ["price", sid, age] =>
    match l2Lookup ss sid, pNat age with
    | some s, some age => if age ≤ 100000 then l2Reply ss sid s (some (price s age)) else (ss, "bad-op")
    | _, _ => (ss, "bad-op")
  | ["pricex", sid, age, p] =>
    match l2Lookup ss sid, pNat age, pNat p with
    | some s, some age, some p => if age ≤ 100000 && 1 ≤ p && p ≤ 100000 then l2Reply ss sid s (some (price s age)) else (ss, "bad-op")
    | _, _, _ => (ss, "bad-op")
  | ["create", sid, u, k, i, a, b, fe] =>
    match l2Lookup ss sid, l2Id s!"{u}.{k}.{i}", allNat [a, b], fe.splitOn ":" with
    | some s, some (u, k, i), some [a, b], [f, el, rc] =>
      match pBool f, pNat el, pNat rc with
      | some f, some el, some rc =>
        if el ≤ 50000000 && a < 2 ^ 64 && b < 2 ^ 64 && (k = 0 || k = 4 || k = 5 || b = 0) && (k != 4 || b ≤ 100000000) && rc < 3 then
          match create s u k i a b f el rc with
          | some s' => (l2Set ss sid s', s!"ok | {l2Digest s'}")
          | none => let s' := if k = 4 then prepPosition s u else s; (l2Set ss sid s', s!"err | {l2Digest s'}")
        else (ss, "bad-op")
      | _, _, _ => (ss, "bad-op")
    | _, _, _, _ => (ss, "bad-op")
  | ["exec", sid, who, id, fee, throw, fl, x, y, c] =>
    match l2Lookup ss sid, l2Who who, l2Id id, allNat [fee, x, y], pBool throw, pNat fl, allNat (c.splitOn ":") with
    | some s, some who, some (u, k, i), some [fee, x, y], some throw, some fl, some [cl, cs, ch, pc] =>
      if fee < 2 ^ 64 && x < 2 ^ 64 && y < 2 ^ 64 && cl < 2 ^ 64 && cs < 2 ^ 64 && ch < 2 ^ 64 && pc < 2
          && (fl < 2 || (fl = 2 && k ≥ 4)) && (k = 5 || (cl = 0 && cs = 0 && ch = 0 && pc = 0)) then
        match exec s who u k i fee throw (fl = 1) x y (fl = 2) cl cs ch (pc = 1) with
        | some (s', o, paid) =>
          (l2Set ss sid s', s!"ok {if o = Outcome.completed then "completed" else "cancelled"} fee={paid} | {l2Digest s'}")
        | none => (ss, s!"err | {l2Digest s}")
      else (ss, "bad-op")
    | _, _, _, _, _, _, _ => (ss, "bad-op")
  | ["close", sid, who, id] =>
    match l2Lookup ss sid, l2Who who, l2Id id with
    | some s, some who, some (u, k, i) => l2Reply ss sid s (close s who u k i)
    | _, _, _ => (ss, "bad-op")
  | _ => (ss, "bad-op")

end Gmx.Drv
