import Gmx.Model.Dec
import Gmx.Driver.Util
-- ENGINE dec decEngine stateless
/-! driver engine `dec` — C43 (SDK amount/value ↔ Decimal conversions) -/
namespace Gmx.Drv
open Gmx.Dec

def showRes : Res → String
  | .ok d => s!"ok {d.mant} {d.scale}"
  | .none => "none"
  | .panic => "panic"

def showErr : Err → String
  | .tooBig => "err TooBig"
  | .scale => "err Scale"
  | .range => "err Range"

def showExI : Except Err Int → String
  | .ok z => s!"ok {z}"
  | .error e => showErr e

def showExN : Except Err Nat → String
  | .ok z => s!"ok {z}"
  | .error e => showErr e

def showRT : RT → String
  | .ok z => s!"ok {z}"
  | .none => "none"
  | .panic => "panic"
  | .err e => showErr e

/-- a well-formed `Decimal` argument: |mant| ≤ 2^96-1, scale ≤ 28 -/
def pDec (m s : String) : Option Dec :=
  match pInt m, pNat s with
  | some m, some s => if m.natAbs ≤ MAX_REPR ∧ s ≤ MAX_SCALE then some ⟨m, s⟩ else none
  | _, _ => none

def pU (bits : Nat) (s : String) : Option Nat :=
  match pNat s with
  | some n => if n < 2 ^ bits then some n else none
  | none => none

def pI (bits : Nat) (s : String) : Option Int :=
  match pInt s with
  | some z => if -(2 ^ (bits - 1) : Int) ≤ z ∧ z < (2 ^ (bits - 1) : Int) then some z else none
  | none => none

def decEngine (args : List String) : String :=
  match args with
  | ["u2d", n, d] => match pU 128 n, pU 8 d with
    | some n, some d => showRes (unsignedFixedToDecimal n d) | _, _ => "bad-op"
  | ["s2d", z, d] => match pI 128 z, pU 8 d with
    | some z, some d => showRes (signedFixedToDecimal z d) | _, _ => "bad-op"
  | ["uv2d", n] => match pU 128 n with
    | some n => showRes (unsignedValueToDecimal n) | _ => "bad-op"
  | ["sv2d", z] => match pI 128 z with
    | some z => showRes (signedValueToDecimal z) | _ => "bad-op"
  | ["ua2d", n, d] => match pU 64 n, pU 8 d with
    | some n, some d => showRes (unsignedAmountToDecimal n d) | _, _ => "bad-op"
  | ["sa2d", z, d] => match pI 64 z, pU 8 d with
    | some z, some d => showRes (signedAmountToDecimal z d) | _, _ => "bad-op"
  | ["rescale", m, s, n] => match pDec m s, pU 32 n with
    | some x, some n => let r := rescale x n; s!"ok {r.mant} {r.scale}" | _, _ => "bad-op"
  | ["d2a", m, s, d] => match pDec m s, pU 8 d with
    | some x, some d => showExN (decimalToAmount x d) | _, _ => "bad-op"
  | ["d2v", m, s, d] => match pDec m s, pU 8 d with
    | some x, some d => showExN (decimalToValue x d) | _, _ => "bad-op"
  | ["d2sv", m, s, d] => match pDec m s, pU 8 d with
    | some x, some d => showExI (decimalToSignedValue x d) | _, _ => "bad-op"
  | ["rtu", n, d] => match pU 128 n, pU 8 d with
    | some n, some d => showRT (rtUnsignedValue n d) | _, _ => "bad-op"
  | ["rts", z, d] => match pI 128 z, pU 8 d with
    | some z, some d => showRT (rtSignedValue z d) | _, _ => "bad-op"
  | ["rta", n, d] => match pU 64 n, pU 8 d with
    | some n, some d => showRT (rtAmount n d) | _, _ => "bad-op"
  | ["rtsa", z, d] => match pI 64 z, pU 8 d with
    | some z, some d => showRT (rtSignedAmount z d) | _, _ => "bad-op"
  | _ => "bad-op"

end Gmx.Drv
