import Gmx.Model.Life
import Gmx.Driver.Util
-- ENGINE life lifeEngine stateful LifeState lifeInit
/-! driver engine `life` — native deposit life cycle (C23 / C22 stage 2) -/
namespace Gmx.Drv
open Gmx.Life

abbrev LifeState := List (String × St)
def lifeInit : LifeState := []
def lifeLookup (ss : LifeState) (sid : String) : Option St := (ss.find? (fun p => p.1 == sid)).map (·.2)
def lifeSet (ss : LifeState) (sid : String) (s : St) : LifeState := (sid, s) :: (ss.filter (fun p => p.1 != sid)).take 4

def lifePos (b : Bool) : String := if b then "+" else "0"

def lifeDigest (s : St) : String :=
  let us := (List.range 3).map (fun u => let x := s.users u; s!"{u}:{x.long}:{x.short}:{lifePos x.mt}")
  let ds := (List.range 3).flatMap (fun u => (List.range 4).filterMap (fun d =>
    (s.deps u d).map (fun (x : Dep) => s!"{u}.{d}:{x.state}:{x.escLong}:{x.escShort}:{lifePos x.mt}")))
  s!"now={s.now} users=[{",".intercalate us}] deps=[{",".intercalate ds}] vault={s.vaultLong}:{s.vaultShort} rec={s.recLong}:{s.recShort}"

def lifeWho (t : String) : Option Who :=
  if t = "k" then some .keeper else if t = "a" then some .admin
  else match t.toList with
    | 'u' :: rest => match (String.ofList rest).toNat? with | some n => if n < 3 then some (.user n) else none | none => none
    | _ => none

def lifeDep (t : String) : Option (Nat × Nat) :=
  match t.splitOn "." with
  | [u, d] => match pNat u, pNat d with | some u, some d => if u < 3 && d < 4 then some (u, d) else none | _, _ => none
  | _ => none

def lifeReply (ss : LifeState) (sid : String) (s : St) (r : Option St) : LifeState × String :=
  match r with
  | some s' => (lifeSet ss sid s', s!"ok | {lifeDigest s'}")
  | none => (ss, s!"err | {lifeDigest s}")

def lifeEngine (ss : LifeState) (args : List String) : LifeState × String :=
  match args with
  | ["new", sid] => let s := init 1000000000000 5000000000 1700000000; (lifeSet ss sid s, s!"ok | {lifeDigest s}")
  | ["tick", sid, dt] =>
    match lifeLookup ss sid, pNat dt with
    | some s, some dt => if dt ≤ 100000 then lifeReply ss sid s (some (tick s dt)) else (ss, "bad-op")
    | _, _ => (ss, "bad-op")
  | ["price", sid, age] =>
    match lifeLookup ss sid, pNat age with
    | some s, some age => if age ≤ 100000 then lifeReply ss sid s (some (price s age)) else (ss, "bad-op")
    | _, _ => (ss, "bad-op")
  | ["create", sid, u, d, l, sh, mf, el] =>
    match lifeLookup ss sid, allNat [u, d, l, sh, el], pBool mf with
    | some s, some [u, d, l, sh, el], some mf =>
      if u < 3 && d < 4 && el ≤ 50000000 && l < 2 ^ 64 && sh < 2 ^ 64 then lifeReply ss sid s (create s u d l sh mf el) else (ss, "bad-op")
    | _, _, _ => (ss, "bad-op")
  | ["exec", sid, who, dep, fee, throw] =>
    match lifeLookup ss sid, lifeWho who, lifeDep dep, pNat fee, pBool throw with
    | some s, some who, some (u, d), some fee, some throw =>
      if fee < 2 ^ 64 then
        match exec s who u d fee throw with
        | some (s', o, paid) =>
          (lifeSet ss sid s', s!"ok {if o = Outcome.completed then "completed" else "cancelled"} fee={paid} | {lifeDigest s'}")
        | none => (ss, s!"err | {lifeDigest s}")
      else (ss, "bad-op")
    | _, _, _, _, _ => (ss, "bad-op")
  | ["close", sid, who, dep] =>
    match lifeLookup ss sid, lifeWho who, lifeDep dep with
    | some s, some who, some (u, d) => lifeReply ss sid s (close s who u d)
    | _, _, _ => (ss, "bad-op")
  | _ => (ss, "bad-op")

end Gmx.Drv
