import Gmx.Model.Position
import Gmx.Driver.Util
-- ENGINE pos PosE.posEngine stateless
/-! driver engine `pos` — C11 (pnl of a position) -/
namespace Gmx.Drv.PosE
open Gmx Gmx.Perp Gmx.Drv

def posEngine (args : List String) : String :=
  match args with
  | ["pnl", w, u, isLong, sizeUsd, sizeTokens, idxMin, idxMax, delta, oi, oit, poolAmount, tokMin, maxPnl] =>
    match allNat [w, u, sizeUsd, sizeTokens, idxMin, idxMax, delta, oi, oit, poolAmount, tokMin, maxPnl], pBool isLong with
    | some [w, u, sizeUsd, sizeTokens, idxMin, idxMax, delta, oi, oit, poolAmount, tokMin, maxPnl], some isLong =>
      match pnlValue w u isLong ⟨oi, oit, poolAmount, tokMin, maxPnl⟩ sizeUsd sizeTokens idxMin idxMax delta with
      | some (p, up, sdt) => s!"ok {p} {up} {sdt}"
      | none => "err"
    | _, _ => "bad-op"
  | ["sdt", w, isLong, sizeUsd, sizeTokens, delta] =>
    match allNat [w, sizeUsd, sizeTokens, delta], pBool isLong with
    | some [w, sizeUsd, sizeTokens, delta], some isLong => showOptNat (sizeDeltaInTokens w isLong sizeUsd sizeTokens delta)
    | _, _ => "bad-op"
  | _ => "bad-op"

end Gmx.Drv.PosE
