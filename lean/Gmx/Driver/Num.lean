import Gmx.Model.Num
import Gmx.Driver.Util
-- ENGINE num numEngine stateless
/-! driver engine `num` — C01 -/
namespace Gmx.Drv
open Gmx

def showBound : Except BoundErr Int → String
  | .ok r => s!"ok {r}"
  | .error .minGtMax => "err MinGtMax"
  | .error .convert => "err Convert"

def numEngine (args : List String) : String :=
  match args with
  | ["muldiv", w, a, b, c] =>
    match allNat [w, a, b, c] with
    | some [w, a, b, c] => showOptNat (mulDiv w a b c) | _ => "bad-op"
  | ["muldivceil", w, a, b, c] =>
    match allNat [w, a, b, c] with
    | some [w, a, b, c] => showOptNat (mulDivCeil w a b c) | _ => "bad-op"
  | ["roundupdiv", w, a, b] =>
    match allNat [w, a, b] with
    | some [w, a, b] => showOptNat (roundUpDiv w a b) | _ => "bad-op"
  | ["roundupmag", w, k, d] =>
    match allNat [w, k], pInt d with
    | some [w, k], some d => showOptInt (roundUpMagnitudeDiv w k d) | _, _ => "bad-op"
  | ["bound", w, v, mn, mx] =>
    match allNat [w, mn, mx], pInt v with
    | some [w, mn, mx], some v => showBound (boundMagnitude w v mn mx) | _, _ => "bad-op"
  | ["muldivsigned", w, a, n, d] =>
    match allNat [w, a, d], pInt n with
    | some [w, a, d], some n => showOptInt (mulDivSigned w a n d) | _, _ => "bad-op"
  | ["addsigned", w, a, s] =>
    match allNat [w, a], pInt s with
    | some [w, a], some s => showOptNat (checkedAddWithSigned w a s) | _, _ => "bad-op"
  | ["subsigned", w, a, s] =>
    match allNat [w, a], pInt s with
    | some [w, a], some s => showOptNat (checkedSubWithSigned w a s) | _, _ => "bad-op"
  | ["mulsigned", w, a, s] =>
    match allNat [w, a], pInt s with
    | some [w, a], some s => showOptInt (checkedMulWithSigned w a s) | _, _ => "bad-op"
  | ["signedsub", w, a, b] =>
    match allNat [w, a, b] with
    | some [w, a, b] => showOptInt (checkedSignedSub w a b) | _ => "bad-op"
  | ["usd2mt", w, usd, pool, supply, divisor] =>
    match allNat [w, usd, pool, supply, divisor] with
    | some [w, usd, pool, supply, divisor] => showOptNat (usdToMarketTokenAmount w usd pool supply divisor)
    | _ => "bad-op"
  | ["mt2usd", w, amount, pool, supply] =>
    match allNat [w, amount, pool, supply] with
    | some [w, amount, pool, supply] => showOptNat (marketTokenAmountToUsd w amount pool supply)
    | _ => "bad-op"
  | ["applyfactor", w, u, v, f] =>
    match allNat [w, u, v, f] with
    | some [w, u, v, f] => showOptNat (applyFactor w u v f) | _ => "bad-op"
  | ["div2factor", w, u, v, d, up] =>
    match allNat [w, u, v, d], pBool up with
    | some [w, u, v, d], some up => showOptNat (divToFactor w u v d up) | _, _ => "bad-op"
  | ["div2factorsigned", w, u, v, d] =>
    match allNat [w, u, d], pInt v with
    | some [w, u, d], some v => showOptInt (divToFactorSigned w u v d) | _, _ => "bad-op"
  | ["fixedmul", w, u, a, b] =>
    match allNat [w, u, a, b] with
    | some [w, u, a, b] => showOptNat (fixedMul w u a b) | _ => "bad-op"
  | ["pow", w, u, b, e] =>
    match allNat [w, u, b, e] with
    | some [w, u, b, e] => showOptNat (powFixed w u b e) | _ => "bad-op"
  | ["applyfactors", w, u, v, f, e] =>
    match allNat [w, u, v, f, e] with
    | some [w, u, v, f, e] => showOptNat (applyFactors w u v f e) | _ => "bad-op"
  | _ => "bad-op"

end Gmx.Drv
