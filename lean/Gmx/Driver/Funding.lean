import Gmx.Model.Funding
import Gmx.Driver.Util
-- ENGINE fund Fund.fundEngine stateless
/-! driver engine `fund` — C12 -/
namespace Gmx.Drv.Fund
open Gmx Gmx.Drv

def fundShowErr : FErr → String
  | .comp => "err comp" | .conv => "err conv" | .arg => "err arg"
  | .emptyOI => "err emptyoi" | .ovf => "err ovf" | .prices => "err prices"

def fundShowQuad (q : Quad) : String := s!"{q.ll} {q.ls} {q.sl} {q.ss}"

def fundMkParams : List Nat → Option FundingParams
  | [e, f, i, d, mx, mn, ts, td] => some ⟨e, f, i, d, mx, mn, ts, td⟩
  | _ => none

def fundEngine (args : List String) : String :=
  match args with
  | ["change", ts, td, cur, l, s, df] =>
    match allNat [ts, td, l, s, df], pInt cur with
    | some [ts, td, l, s, df], some cur =>
      match (FundingParams.change ⟨0, 0, 0, 0, 0, 0, ts, td⟩ cur l s df) with
      | .noChange => "0" | .increase => "1" | .decrease => "2"
    | _, _ => "bad-op"
  | ["rate", w, u, e, f, i, d, mx, mn, ts, td, cur, dur, l, s] =>
    match allNat [w, u, dur, l, s], allNat [e, f, i, d, mx, mn, ts, td], pInt cur with
    | some [w, u, dur, l, s], some ps, some cur =>
      match fundMkParams ps with
      | none => "bad-op"
      | some p =>
        match nextFundingFactor w u p cur dur l s with
        | .ok (f, lps, nx) => s!"ok {f} {showBool lps} {nx}"
        | .error e => fundShowErr e
    | _, _, _ => "bad-op"
  | ["pack", w, u, adj, fv, oi, price, up] =>
    match allNat [w, u, adj, fv, oi, price], pBool up with
    | some [w, u, adj, fv, oi, price], some up => showOptNat (packFunding w u adj fv oi price up)
    | _, _ => "bad-op"
  | ["unpack", w, u, adj, latest, snap, size, up] =>
    match allNat [w, u, adj, latest, snap, size], pBool up with
    | some [w, u, adj, latest, snap, size], some up => showOptNat (unpackFunding w u adj latest snap size up)
    | _, _ => "bad-op"
  | ["pending", w, u, adj, latest, snap, size, up] =>
    match allNat [w, u, adj, latest, snap, size], pBool up with
    | some [w, u, adj, latest, snap, size], some up => showOptNat (unpackFunding w u adj latest snap size up)
    | _, _ => "bad-op"
  | "update" :: w :: u :: adj :: e :: f :: i :: d :: mx :: mn :: ts :: td :: cur :: dur :: pl :: ps :: rest =>
    match allNat [w, u, adj, dur, pl, ps], allNat [e, f, i, d, mx, mn, ts, td], pInt cur, allNat rest with
    | some [w, u, adj, dur, pl, ps], some fp, some cur,
      some [o1, o2, o3, o4, f1, f2, f3, f4, c1, c2, c3, c4] =>
      match fundMkParams fp with
      | none => "bad-op"
      | some p =>
        let st : FundingState := ⟨⟨o1, o2, o3, o4⟩, ⟨f1, f2, f3, f4⟩, ⟨c1, c2, c3, c4⟩, cur⟩
        match updateFunding w u adj p st dur pl ps with
        | .ok (st', r) => s!"ok {r.next} {fundShowQuad r.dF} {fundShowQuad r.dC} {fundShowQuad st'.fidx} {fundShowQuad st'.cidx}"
        | .error e => fundShowErr e
    | _, _, _, _ => "bad-op"
  | _ => "bad-op"

end Gmx.Drv.Fund
