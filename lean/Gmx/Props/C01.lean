import Gmx.Model.Num
/-!
# C01 — fixed-point arithmetic is exact with the documented rounding

Every helper either returns the mathematically rounded value in the documented direction
(stated against exact `Nat`/`Int` arithmetic) or `none`/an error; the conditions for failure
are characterised exactly, including the spurious failures near the type limit.
-/
namespace Gmx.C01
open Gmx

/-- floor characterisation of natural division. -/
theorem floor_char (n c : Nat) (hc : c ≠ 0) : (n / c) * c ≤ n ∧ n < (n / c + 1) * c := by
  have h1 := Nat.div_add_mod n c
  have h2 := Nat.mod_lt n (Nat.pos_of_ne_zero hc)
  constructor
  · rw [Nat.mul_comm]; omega
  · rw [Nat.add_mul, Nat.mul_comm]; omega

/-- ceiling characterisation of `ceilDiv`: least `q` with `n ≤ q * c`. -/
theorem ceil_char (n c : Nat) (hc : c ≠ 0) :
    n ≤ ceilDiv n c * c ∧ ceilDiv n c * c < n + c := by
  unfold ceilDiv
  have h1 := Nat.div_add_mod (n + c - 1) c
  have h2 := Nat.mod_lt (n + c - 1) (Nat.pos_of_ne_zero hc)
  rw [Nat.mul_comm] at h1
  constructor <;> omega

theorem mulDiv_spec (W a b c r : Nat) :
    mulDiv W a b c = some r ↔ c ≠ 0 ∧ r = a * b / c ∧ r < 2 ^ W := by
  unfold mulDiv toU
  constructor
  · intro h; split at h
    · cases h
    · split at h
      · cases h; exact ⟨by assumption, rfl, by assumption⟩
      · cases h
  · rintro ⟨hc, rfl, hr⟩; simp [hc, hr]

/-- the result of `mulDiv` is the floor of the exact quotient. -/
theorem mulDiv_floor {W a b c r : Nat} (h : mulDiv W a b c = some r) :
    r * c ≤ a * b ∧ a * b < (r + 1) * c := by
  obtain ⟨hc, rfl, _⟩ := (mulDiv_spec W a b c r).1 h
  exact floor_char _ _ hc

theorem mulDiv_none_iff (W a b c : Nat) :
    mulDiv W a b c = none ↔ c = 0 ∨ 2 ^ W ≤ a * b / c := by
  unfold mulDiv toU
  by_cases hc : c = 0
  · simp [hc]
  · simp [hc]

theorem mulDivCeil_spec (W a b c r : Nat) :
    mulDivCeil W a b c = some r ↔ c ≠ 0 ∧ r = ceilDiv (a * b) c ∧ r < 2 ^ W := by
  unfold mulDivCeil toU
  constructor
  · intro h; split at h
    · cases h
    · split at h
      · cases h; exact ⟨by assumption, rfl, by assumption⟩
      · cases h
  · rintro ⟨hc, rfl, hr⟩; simp [hc, hr]

/-- the result of `mulDivCeil` is the ceiling of the exact quotient. -/
theorem mulDivCeil_ceil {W a b c r : Nat} (h : mulDivCeil W a b c = some r) :
    a * b ≤ r * c ∧ r * c < a * b + c := by
  obtain ⟨hc, rfl, _⟩ := (mulDivCeil_spec W a b c r).1 h
  exact ceil_char _ _ hc

theorem mulDivCeil_none_iff (W a b c : Nat) :
    mulDivCeil W a b c = none ↔ c = 0 ∨ 2 ^ W ≤ ceilDiv (a * b) c := by
  unfold mulDivCeil toU
  by_cases hc : c = 0
  · simp [hc]
  · simp [hc]

/-- `checked_round_up_div`: a successful result is the ceiling of `a / b`. -/
theorem roundUpDiv_sound {W a b r : Nat} (h : roundUpDiv W a b = some r) :
    b ≠ 0 ∧ r = ceilDiv a b ∧ a ≤ r * b ∧ r * b < a + b := by
  unfold roundUpDiv checkedAdd checkedSub toU at h
  split at h
  · cases h
  · rename_i hb
    split at h
    · cases h
    · rename_i x hx
      split at hx
      · cases hx
        split at h
        · cases h
        · rename_i y hy
          split at hy
          · cases hy; cases h
            refine ⟨hb, rfl, ?_⟩
            exact ceil_char a b hb
          · cases hy
      · cases hx

/-- it fails exactly for a zero divisor or when `a + b` does not fit (the spurious failure
near the type limit that the property's "or reports failure" allows). -/
theorem roundUpDiv_none_iff (W a b : Nat) :
    roundUpDiv W a b = none ↔ b = 0 ∨ 2 ^ W ≤ a + b := by
  unfold roundUpDiv checkedAdd checkedSub toU
  by_cases hb : b = 0
  · simp [hb]
  · by_cases hf : a + b < 2 ^ W
    · have : 1 ≤ a + b := by omega
      simp [hb, hf, this]
    · simp [hb, hf]; omega

theorem tdiv_nat (m k : Nat) : Int.tdiv (m : Int) (k : Int) = ((m / k : Nat) : Int) := by
  rw [Int.tdiv_eq_ediv_of_nonneg (by omega)]; exact (Int.natCast_ediv m k).symm

theorem neg_tdiv_of_nonneg (m : Nat) (k : Nat) :
    Int.tdiv (-(m : Int)) (k : Int) = -((m / k : Nat) : Int) := by
  rw [Int.neg_tdiv, tdiv_nat]

/-- `as_divisor_to_round_up_magnitude_div`: sign preserved, magnitude is `⌈|d| / k⌉`. -/
theorem roundUpMagnitudeDiv_spec {W k : Nat} {d r : Int} (h : roundUpMagnitudeDiv W k d = some r) :
    k ≠ 0 ∧ r.natAbs = ceilDiv d.natAbs k ∧ (0 ≤ d → 0 ≤ r) ∧ (d < 0 → r ≤ 0) := by
  unfold roundUpMagnitudeDiv toSigned toI at h
  split at h
  · cases h
  · rename_i hk
    split at h
    · cases h
    · rename_i kk hkk
      split at hkk
      · cases hkk
        split at h
        · rename_i hd
          split at h
          · cases h
          · rename_i x hx
            split at hx
            · cases hx
              split at h
              · cases h
              · rename_i y hy
                split at hy
                · cases hy; cases h
                  obtain ⟨m, hm⟩ : ∃ m : Nat, d = -(m : Int) := ⟨d.natAbs, by omega⟩
                  subst hm
                  have e : (-(m : Int) - (k : Int) + 1) = -((m + k - 1 : Nat) : Int) := by omega
                  rw [e, neg_tdiv_of_nonneg]
                  have hc : ceilDiv (-(m : Int)).natAbs k = (m + k - 1) / k := by simp [ceilDiv]
                  rw [hc]
                  generalize (m + k - 1) / k = q
                  refine ⟨hk, ?_, ?_, ?_⟩
                  · omega
                  · intro; omega
                  · intro; omega
                · cases hy
            · cases hx
        · rename_i hd
          split at h
          · cases h
          · rename_i x hx
            split at hx
            · cases hx
              split at h
              · cases h
              · rename_i y hy
                split at hy
                · cases hy; cases h
                  obtain ⟨m, hm⟩ : ∃ m : Nat, d = (m : Int) := ⟨d.natAbs, by omega⟩
                  subst hm
                  have e : ((m : Int) + (k : Int) - 1) = ((m + k - 1 : Nat) : Int) := by omega
                  rw [e, tdiv_nat]
                  have hc : ceilDiv ((m : Int)).natAbs k = (m + k - 1) / k := by simp [ceilDiv]
                  rw [hc]
                  generalize (m + k - 1) / k = q
                  refine ⟨hk, ?_, ?_, ?_⟩
                  · omega
                  · intro; omega
                  · intro; omega
                · cases hy
            · cases hx
      · cases hkk


/-- `bound_magnitude`: a successful result has the input's sign (zero counts as positive) and a
magnitude clamped into `[mn, mx]`; an in-range input is returned unchanged. -/
theorem boundMagnitude_spec {W : Nat} {v r : Int} {mn mx : Nat}
    (h : boundMagnitude W v mn mx = .ok r) :
    mn ≤ mx ∧ (v < 0 → r ≤ 0) ∧ (0 ≤ v → 0 ≤ r) ∧
    (v.natAbs < mn → r.natAbs = mn) ∧ (mx < v.natAbs → r.natAbs = mx) ∧
    (mn ≤ v.natAbs → v.natAbs ≤ mx → r = v) := by
  unfold boundMagnitude toSignedWithSign toOppositeSigned toSigned at h
  by_cases h0 : mn > mx
  · simp [h0] at h
  · by_cases h1 : v.natAbs < mn
    · by_cases h2 : mn < 2 ^ (W - 1) <;> by_cases hv : v < 0 <;> simp [h0, h1, h2, hv] at h <;>
        subst h <;> omega
    · by_cases h3 : v.natAbs > mx
      · by_cases h2 : mx < 2 ^ (W - 1) <;> by_cases hv : v < 0 <;> simp [h0, h1, h2, h3, hv] at h <;>
          subst h <;> omega
      · simp [h0, h1, h3] at h; subst h; omega

/-- corollary: the magnitude of a successful result lies within `[mn, mx]`. -/
theorem boundMagnitude_within {W : Nat} {v r : Int} {mn mx : Nat}
    (h : boundMagnitude W v mn mx = .ok r) : mn ≤ r.natAbs ∧ r.natAbs ≤ mx := by
  obtain ⟨h0, _, _, h1, h2, h3⟩ := boundMagnitude_spec h
  by_cases a : v.natAbs < mn
  · have := h1 a; omega
  · by_cases b : mx < v.natAbs
    · have := h2 b; omega
    · have := h3 (by omega) (by omega); subst this; omega

theorem boundMagnitude_minGtMax (W : Nat) (v : Int) (mn mx : Nat) :
    boundMagnitude W v mn mx = .error .minGtMax ↔ mn > mx := by
  unfold boundMagnitude
  by_cases h : mn > mx
  · simp [h]
  · simp only [h, if_false]
    repeat' split
    all_goals simp

/-- the conversion error happens exactly when the bound that must be taken does not fit the
signed type. -/
theorem boundMagnitude_convert_iff (W : Nat) (v : Int) (mn mx : Nat) :
    boundMagnitude W v mn mx = .error .convert ↔
      mn ≤ mx ∧ ((v.natAbs < mn ∧ 2 ^ (W - 1) ≤ mn) ∨
                 (mn ≤ v.natAbs ∧ mx < v.natAbs ∧ 2 ^ (W - 1) ≤ mx)) := by
  unfold boundMagnitude toSignedWithSign toOppositeSigned toSigned
  by_cases h : mn > mx
  · simp [h]; omega
  · by_cases h1 : v.natAbs < mn
    · by_cases h2 : mn < 2 ^ (W - 1) <;> by_cases hv : v < 0 <;> simp [h, h1, h2, hv] <;> omega
    · by_cases h3 : v.natAbs > mx
      · by_cases h2 : mx < 2 ^ (W - 1) <;> by_cases hv : v < 0 <;> simp [h, h1, h2, h3, hv] <;> omega
      · simp [h, h1, h3]

/-- `checked_mul_div_with_signed_numerator`: floor of the magnitude, sign of the numerator. -/
theorem mulDivSigned_spec {W a den : Nat} {num r : Int} (h : mulDivSigned W a num den = some r) :
    den ≠ 0 ∧ r.natAbs = a * num.natAbs / den ∧ (0 < num → 0 ≤ r) ∧ (num ≤ 0 → r ≤ 0) ∧
    r.natAbs < 2 ^ (W - 1) := by
  unfold mulDivSigned at h
  split at h
  · cases h
  · rename_i q hq
    obtain ⟨hd, rfl, _⟩ := (mulDiv_spec _ _ _ _ _).1 hq
    unfold toSigned at h
    split at h
    · cases h
    · rename_i t ht
      split at ht
      · cases ht
        generalize a * num.natAbs / den = q at *
        split at h <;> cases h <;> refine ⟨hd, ?_, ?_, ?_, ?_⟩ <;> omega
      · cases ht

/-- magnitude `2^(W-1)` is reported as failure although `-2^(W-1)` is representable
(a documented spurious failure, allowed by "or reports failure"). -/
theorem mulDivSigned_none_iff (W a den : Nat) (num : Int) :
    mulDivSigned W a num den = none ↔ den = 0 ∨ 2 ^ (W - 1) ≤ a * num.natAbs / den := by
  unfold mulDivSigned mulDiv toU toSigned
  by_cases hd : den = 0
  · simp [hd]
  · have hp : (2:Nat) ^ (W - 1) ≤ 2 ^ W := Nat.pow_le_pow_right (by omega) (by omega)
    by_cases h1 : a * num.natAbs / den < 2 ^ W
    · by_cases h2 : a * num.natAbs / den < 2 ^ (W - 1)
      · by_cases h3 : num > 0 <;> simp [hd, h1, h2, h3] <;> omega
      · simp [hd, h1, h2]; omega
    · simp [hd, h1]; omega

/-- `usd_to_market_token_amount`: the three documented cases. -/
theorem usdToMt_spec {W usd pool supply divisor r : Nat}
    (h : usdToMarketTokenAmount W usd pool supply divisor = some r) :
    divisor ≠ 0 ∧
    (supply = 0 → pool = 0 → r = usd / divisor) ∧
    (supply = 0 → pool ≠ 0 → r = (pool + usd) / divisor ∧ pool + usd < 2 ^ W) ∧
    (supply ≠ 0 → pool ≠ 0 ∧ r = supply * usd / pool ∧ r < 2 ^ W) := by
  unfold usdToMarketTokenAmount checkedDiv checkedAdd toU at h
  by_cases hd : divisor = 0
  · simp [hd] at h
  · by_cases hs : supply = 0 <;> by_cases hp : pool = 0
    · simp [hd, hs, hp] at h; simp [hd, hs, hp, h]
    · by_cases hf : pool + usd < 2 ^ W
      · simp [hd, hs, hp, hf] at h; simp [hd, hs, hp, hf, h]
      · simp [hd, hs, hp, hf] at h
    · simp [hd, hs, hp, mulDiv] at h
    · simp only [hd, hs, hp, false_and, if_false] at h
      obtain ⟨_, rfl, hr⟩ := (mulDiv_spec _ _ _ _ _).1 h
      simp [hd, hs, hp, hr]

theorem usdToMt_zero_divisor (W usd pool supply : Nat) :
    usdToMarketTokenAmount W usd pool supply 0 = none := by
  simp [usdToMarketTokenAmount]

theorem mtToUsd_spec {W amount pool supply r : Nat}
    (h : marketTokenAmountToUsd W amount pool supply = some r) :
    supply ≠ 0 ∧ r = pool * amount / supply ∧ r < 2 ^ W :=
  (mulDiv_spec _ _ _ _ _).1 h

/-- `apply_factor v f = ⌊v·f / UNIT⌋`. -/
theorem applyFactor_spec (W U v f r : Nat) :
    applyFactor W U v f = some r ↔ U ≠ 0 ∧ r = v * f / U ∧ r < 2 ^ W :=
  mulDiv_spec _ _ _ _ _

/-- a zero divisor in `div_to_factor` yields factor `0` (documented), not an error. -/
theorem divToFactor_zero (W U v : Nat) (up : Bool) : divToFactor W U v 0 up = some 0 := by
  simp [divToFactor]

theorem divToFactor_floor {W U v d r : Nat} (hd : d ≠ 0) (h : divToFactor W U v d false = some r) :
    r = v * U / d := by
  simp only [divToFactor, hd, if_false] at h
  exact ((mulDiv_spec _ _ _ _ _).1 h).2.1

theorem divToFactor_ceil {W U v d r : Nat} (hd : d ≠ 0) (h : divToFactor W U v d true = some r) :
    r = ceilDiv (v * U) d := by
  simp only [divToFactor, hd, if_false, if_true] at h
  exact ((mulDivCeil_spec _ _ _ _ _).1 h).2.1

theorem divToFactorSigned_zero (W U : Nat) (v : Int) : divToFactorSigned W U v 0 = some 0 := by
  simp [divToFactorSigned]

theorem fixedMul_spec (W U a b r : Nat) :
    fixedMul W U a b = some r ↔ U ≠ 0 ∧ r = a * b / U ∧ r < 2 ^ W :=
  mulDiv_spec _ _ _ _ _

/-- exact (unchecked) iterated floor multiplication. -/
def powExact (U base : Nat) : Nat → Nat
  | 0 => U
  | n + 1 => powExact U base n * base / U

/-- integer-exponent `checked_pow`: when it succeeds it is the iterated floor product, and
every intermediate product fits. -/
theorem powInt_spec {W U base : Nat} : ∀ {n r : Nat}, powInt W U base n = some r →
    r = powExact U base n ∧ (n ≠ 0 → U ≠ 0 ∧ r < 2 ^ W)
  | 0, r, h => by simp [powInt] at h; simp [powExact, h]
  | n + 1, r, h => by
    simp only [powInt] at h
    split at h
    · cases h
    · rename_i acc hacc
      obtain ⟨hU, rfl, hr⟩ := (fixedMul_spec _ _ _ _ _).1 h
      obtain ⟨rfl, _⟩ := powInt_spec hacc
      exact ⟨rfl, fun _ => ⟨hU, hr⟩⟩

/-- checked unsigned ± signed: exact or `none`. -/
theorem checkedAddWithSigned_spec {W a : Nat} {s : Int} {r : Nat}
    (h : checkedAddWithSigned W a s = some r) : (a : Int) + s = r := by
  unfold checkedAddWithSigned checkedAdd checkedSub toU at h
  split at h <;> split at h <;> cases h <;> omega

theorem checkedSubWithSigned_spec {W a : Nat} {s : Int} {r : Nat}
    (h : checkedSubWithSigned W a s = some r) : (a : Int) - s = r := by
  unfold checkedSubWithSigned checkedAdd checkedSub toU at h
  split at h <;> split at h <;> cases h <;> omega

theorem checkedMulWithSigned_spec {W a : Nat} {s r : Int}
    (h : checkedMulWithSigned W a s = some r) : r = (a : Int) * s ∧ r.natAbs < 2 ^ (W - 1) := by
  unfold checkedMulWithSigned checkedMul toU toSigned at h
  split at h
  · cases h
  · rename_i m hm
    split at hm
    · cases hm
      split at h
      · cases h
      · rename_i t ht
        split at ht
        · cases ht
          have e : ((a * s.natAbs : Nat) : Int) = (a : Int) * (s.natAbs : Int) := by simp
          split at h <;> cases h
          · refine ⟨?_, by omega⟩
            rw [e]; have : (s.natAbs : Int) = -s := by omega
            rw [this]; simp [Int.mul_neg]
          · refine ⟨?_, by omega⟩
            rw [e]; have : (s.natAbs : Int) = s := by omega
            rw [this]
        · cases ht
    · cases hm

/-! ### Non-vacuity: concrete operands meeting the hypotheses (on-chain width/unit). -/
example : mulDiv 128 (10 ^ 30) (3 * 10 ^ 20) (10 ^ 20) = some (3 * 10 ^ 30) := by decide
example : mulDivCeil 64 650406505 40000000000 80000000000 = some 325203253 := by decide
example : roundUpDiv 64 1 3 = some 1 := by decide
example : roundUpDiv 64 (2 ^ 64 - 1) 2 = none := by decide
example : roundUpMagnitudeDiv 64 3 (-1) = some (-1) := by decide
example : boundMagnitude 64 (-123) 124 256 = .ok (-124) := by rfl
example : boundMagnitude 64 0 (2 ^ 63) (2 ^ 64 - 1) = .error .convert := by rfl
example : mulDivSigned 64 7 (-5) 2 = some (-17) := by decide
example : usdToMarketTokenAmount 128 (10 ^ 22) 0 0 (10 ^ 11) = some (10 ^ 11) := by decide
example : powInt 64 (10 ^ 9) (2 * 10 ^ 9) 3 = some (8 * 10 ^ 9) := by decide

/-! ### Audit additions: stronger statements -/

/-- non-zero divisor (the case `divToFactorSigned_zero` leaves open): magnitude `⌊U·|v|/d⌋`, sign
of `v`, and the magnitude fits the signed type. -/
theorem divToFactorSigned_spec {W U d : Nat} {v r : Int} (hd : d ≠ 0)
    (h : divToFactorSigned W U v d = some r) :
    r.natAbs = U * v.natAbs / d ∧ (0 < v → 0 ≤ r) ∧ (v ≤ 0 → r ≤ 0) ∧ r.natAbs < 2 ^ (W - 1) := by
  simp only [divToFactorSigned, hd, if_false] at h
  exact (mulDivSigned_spec h).2
example : (-35 : Int).natAbs = 10 * (-7 : Int).natAbs / 2 :=
  (divToFactorSigned_spec (W := 64) (by decide) (by decide : divToFactorSigned 64 10 (-7) 2 = some (-35))).1

/-- exact success/failure characterisation of unsigned + signed (for a left operand that fits):
it succeeds exactly when the true sum is a natural number that fits, and then returns it.
(`checkedAddWithSigned_spec` gives soundness only.) -/
theorem checkedAddWithSigned_iff {W a : Nat} {s : Int} {r : Nat} (ha : a < 2 ^ W) :
    checkedAddWithSigned W a s = some r ↔ (a : Int) + s = r ∧ r < 2 ^ W := by
  unfold checkedAddWithSigned checkedAdd checkedSub toU
  constructor
  · intro h; split at h <;> split at h <;> cases h <;> omega
  · rintro ⟨h1, h2⟩
    split <;> split <;> first | exact congrArg some (by omega) | (exfalso; omega)
example : checkedAddWithSigned 64 10 (-3) = some 7 :=
  (checkedAddWithSigned_iff (by decide)).2 ⟨by decide, by decide⟩

/-- same for unsigned − signed. -/
theorem checkedSubWithSigned_iff {W a : Nat} {s : Int} {r : Nat} (ha : a < 2 ^ W) :
    checkedSubWithSigned W a s = some r ↔ (a : Int) - s = r ∧ r < 2 ^ W := by
  unfold checkedSubWithSigned checkedAdd checkedSub toU
  constructor
  · intro h; split at h <;> split at h <;> cases h <;> omega
  · rintro ⟨h1, h2⟩
    split <;> split <;> first | exact congrArg some (by omega) | (exfalso; omega)
example : checkedSubWithSigned 64 10 (-3) = some 13 :=
  (checkedSubWithSigned_iff (by decide)).2 ⟨by decide, by decide⟩

/-- `powExact` (the value `powInt_spec` pins a successful `checked_pow` to) never exceeds the true
power: `powExact U b n · Uⁿ ≤ U · bⁿ`, i.e. `powExact U b n ≤ bⁿ / Uⁿ⁻¹` — the iterated floor only
loses. Ties the recursion-shaped spec to ordinary exponentiation. -/
theorem powExact_le_pow {U b : Nat} : ∀ n, powExact U b n * U ^ n ≤ U * b ^ n
  | 0 => by simp [powExact]
  | n + 1 => by
    have ih := powExact_le_pow (U := U) (b := b) n
    show powExact U b n * b / U * U ^ (n + 1) ≤ U * b ^ (n + 1)
    have h1 : powExact U b n * b / U * U ≤ powExact U b n * b := Nat.div_mul_le_self _ _
    calc powExact U b n * b / U * U ^ (n + 1)
        = (powExact U b n * b / U * U) * U ^ n := by rw [Nat.pow_succ]; ac_rfl
      _ ≤ (powExact U b n * b) * U ^ n := Nat.mul_le_mul_right _ h1
      _ = (powExact U b n * U ^ n) * b := by ac_rfl
      _ ≤ (U * b ^ n) * b := Nat.mul_le_mul_right _ ih
      _ = U * b ^ (n + 1) := by rw [Nat.pow_succ, Nat.mul_assoc]

/-- a successful integer-exponent `checked_pow` is bounded by the true power. -/
theorem powInt_le_pow {W U base n r : Nat} (h : powInt W U base n = some r) :
    r * U ^ n ≤ U * base ^ n := by
  obtain ⟨rfl, _⟩ := powInt_spec h
  exact powExact_le_pow n
example : 8 * 10 ^ 9 * (10 ^ 9) ^ 3 ≤ 10 ^ 9 * (2 * 10 ^ 9) ^ 3 :=
  powInt_le_pow (W := 64) (by decide : powInt 64 (10 ^ 9) (2 * 10 ^ 9) 3 = some (8 * 10 ^ 9))

/-! ### Non-vacuity (audit additions): the remaining hypothesis-carrying theorems, instantiated -/
example : (7 / 2) * 2 ≤ 7 ∧ 7 < (7 / 2 + 1) * 2 := floor_char 7 2 (by decide)
example : 7 ≤ ceilDiv 7 2 * 2 ∧ ceilDiv 7 2 * 2 < 7 + 2 := ceil_char 7 2 (by decide)
example : 3 * 2 ≤ 7 * 1 ∧ 7 * 1 < (3 + 1) * 2 :=
  mulDiv_floor (W := 64) (by decide : mulDiv 64 7 1 2 = some 3)
/-- both failure branches of `mulDiv_none_iff` / `mulDivCeil_none_iff`, and the last fitting value. -/
example : mulDiv 64 (2 ^ 63) 4 2 = none ∧ mulDiv 64 5 5 0 = none ∧
    mulDiv 64 (2 ^ 64 - 1) 2 2 = some (2 ^ 64 - 1) := by decide
example : 7 * 1 ≤ 4 * 2 ∧ 4 * 2 < 7 * 1 + 2 :=
  mulDivCeil_ceil (W := 64) (by decide : mulDivCeil 64 7 1 2 = some 4)
example : mulDivCeil 64 (2 ^ 64 - 1) 3 2 = none ∧ mulDivCeil 64 1 1 0 = none := by decide
example : (3 : Nat) ≠ 0 ∧ 3 = ceilDiv 7 3 ∧ 7 ≤ 3 * 3 ∧ 3 * 3 < 7 + 3 :=
  roundUpDiv_sound (W := 64) (by decide : roundUpDiv 64 7 3 = some 3)
example : roundUpDiv 64 5 0 = none := by decide
/-- `roundUpMagnitudeDiv`: positive and negative dividends, and its four failure causes (zero
divisor, divisor not fitting the signed type, `d + k` / `d − k` overflowing). -/
example : roundUpMagnitudeDiv 64 3 7 = some 3 ∧ roundUpMagnitudeDiv 64 3 (-7) = some (-3) ∧
    roundUpMagnitudeDiv 64 0 5 = none ∧ roundUpMagnitudeDiv 64 (2 ^ 63) 5 = none ∧
    roundUpMagnitudeDiv 64 2 (2 ^ 63 - 1) = none ∧ roundUpMagnitudeDiv 64 2 (-(2 ^ 63 - 1)) = none := by decide
example : (-3 : Int).natAbs = ceilDiv (-7 : Int).natAbs 3 :=
  (roundUpMagnitudeDiv_spec (W := 64) (by decide : roundUpMagnitudeDiv 64 3 (-7) = some (-3))).2.1
/-- `boundMagnitude`: above the maximum, inside the range, and the two error kinds. -/
example : boundMagnitude 64 300 124 256 = .ok 256 := by rfl
example : boundMagnitude 64 (-200) 124 256 = .ok (-200) := by rfl
example : boundMagnitude 64 5 10 3 = .error .minGtMax := by rfl
example : boundMagnitude 64 (-(2 ^ 63)) 0 (2 ^ 63) = .ok (-(2 ^ 63)) := by rfl
example : 124 ≤ (-124 : Int).natAbs ∧ (-124 : Int).natAbs ≤ 256 :=
  boundMagnitude_within (W := 64) (v := -123) (by rfl)
example : (-17 : Int).natAbs = 7 * (-5 : Int).natAbs / 2 :=
  (mulDivSigned_spec (W := 64) (by decide : mulDivSigned 64 7 (-5) 2 = some (-17))).2.1
/-- the spurious failure of `mulDivSigned_none_iff` at magnitude `2^(W-1)`, the last fitting
magnitude, and the zero divisor. -/
example : mulDivSigned 64 (2 ^ 63) (-1) 1 = none ∧
    mulDivSigned 64 (2 ^ 63 - 1) (-1) 1 = some (-9223372036854775807) ∧
    mulDivSigned 64 1 1 0 = none := by decide
/-- `usdToMt_spec`: the two other documented cases, and the failing `supply ≠ 0, pool = 0`. -/
example : usdToMarketTokenAmount 128 (10 ^ 22) (10 ^ 22) 0 (10 ^ 11) = some (2 * 10 ^ 11) := by decide
example : usdToMarketTokenAmount 128 (10 ^ 22) (4 * 10 ^ 22) (2 * 10 ^ 11) (10 ^ 11) = some (5 * 10 ^ 10) := by decide
example : usdToMarketTokenAmount 128 5 0 7 1 = none := by decide
example : (2 * 10 ^ 11 : Nat) ≠ 0 ∧ 10 ^ 22 = 4 * 10 ^ 22 * (5 * 10 ^ 10) / (2 * 10 ^ 11) ∧ 10 ^ 22 < 2 ^ 128 :=
  mtToUsd_spec (by decide : marketTokenAmountToUsd 128 (5 * 10 ^ 10) (4 * 10 ^ 22) (2 * 10 ^ 11) = some (10 ^ 22))
example : marketTokenAmountToUsd 128 5 7 0 = none := by decide
example : applyFactor 128 (10 ^ 20) (10 ^ 12) (5 * 10 ^ 16) = some 500000000 ∧
    applyFactor 128 0 1 1 = none := by decide
example : 33333333333333333333 = 1 * 10 ^ 20 / 3 :=
  divToFactor_floor (W := 128) (by decide) (by decide : divToFactor 128 (10 ^ 20) 1 3 false = some 33333333333333333333)
example : 33333333333333333334 = ceilDiv (1 * 10 ^ 20) 3 :=
  divToFactor_ceil (W := 128) (by decide) (by decide : divToFactor 128 (10 ^ 20) 1 3 true = some 33333333333333333334)
example : fixedMul 64 (10 ^ 9) (2 * 10 ^ 9) (3 * 10 ^ 9) = some (6 * 10 ^ 9) := by decide
/-- an intermediate product of `powInt` that does not fit makes the whole power fail. -/
example : powInt 64 (10 ^ 9) (10 ^ 15) 3 = none := by decide
example : ((10 : Nat) : Int) + (-3) = (7 : Nat) :=
  checkedAddWithSigned_spec (W := 64) (by decide : checkedAddWithSigned 64 10 (-3) = some 7)
example : checkedAddWithSigned 64 10 5 = some 15 ∧ checkedAddWithSigned 64 2 (-3) = none ∧
    checkedAddWithSigned 64 (2 ^ 64 - 1) 1 = none := by decide
example : ((10 : Nat) : Int) - 4 = (6 : Nat) :=
  checkedSubWithSigned_spec (W := 64) (by decide : checkedSubWithSigned 64 10 4 = some 6)
example : checkedSubWithSigned 64 10 (-5) = some 15 ∧ checkedSubWithSigned 64 2 3 = none ∧
    checkedSubWithSigned 64 (2 ^ 64 - 1) (-1) = none := by decide
example : (-42 : Int) = ((6 : Nat) : Int) * (-7) ∧ (-42 : Int).natAbs < 2 ^ (64 - 1) :=
  checkedMulWithSigned_spec (by decide : checkedMulWithSigned 64 6 (-7) = some (-42))
/-- failures of `checkedMulWithSigned`: the product not fitting; note `2^62 · (−2) = −2^63` IS
representable in `i64` but is reported as failure (same spurious failure as `mulDivSigned`). -/
example : checkedMulWithSigned 64 (2 ^ 62) 2 = none ∧ checkedMulWithSigned 64 (2 ^ 62) (-2) = none := by decide

/-! ### exact success conditions added after the audit (design.d/AUDIT.md, C01) -/

/-- `checked_signed_sub`: exact success/failure characterisation -/
theorem checkedSignedSub_iff (W a b : Nat) (r : Int) :
    checkedSignedSub W a b = some r ↔ r = (a : Int) - b ∧ r.natAbs < 2 ^ (W - 1) := by
  unfold checkedSignedSub toOppositeSigned toSigned
  by_cases h : a ≥ b
  · simp only [h, if_true]
    constructor
    · intro hh
      split at hh
      · cases hh; constructor <;> omega
      · cases hh
    · rintro ⟨rfl, hlt⟩
      have : a - b < 2 ^ (W - 1) := by omega
      simp [this]; omega
  · simp only [h, if_false]
    constructor
    · intro hh
      split at hh
      · simp only [Option.map_some, Option.some.injEq] at hh; subst hh; constructor <;> omega
      · simp at hh
    · rintro ⟨rfl, hlt⟩
      have : b - a < 2 ^ (W - 1) := by omega
      simp [this]; omega

/-- `checked_mul_with_signed`: succeeds exactly when the magnitude of the product fits the positive range (so `−2^(W−1)` is a spurious failure) -/
theorem checkedMulWithSigned_iff (W a : Nat) (s r : Int) (hW : 1 ≤ W) :
    checkedMulWithSigned W a s = some r ↔ r = (a : Int) * s ∧ a * s.natAbs < 2 ^ (W - 1) := by
  have hpow : (2 : Nat) ^ (W - 1) ≤ 2 ^ W := Nat.pow_le_pow_right (by decide) (by omega)
  constructor
  · intro h
    have := checkedMulWithSigned_spec h
    refine ⟨this.1, ?_⟩
    have e : (a * s.natAbs : Nat) = ((a : Int) * s).natAbs := by simp [Int.natAbs_mul]
    rw [e, ← this.1]; exact this.2
  · rintro ⟨rfl, hlt⟩
    unfold checkedMulWithSigned checkedMul toU toSigned
    have h1 : a * s.natAbs < 2 ^ W := by omega
    simp only [h1, if_true, hlt]
    by_cases hs : s < 0
    · simp only [hs, if_true, Option.some.injEq]
      have : (s.natAbs : Int) = -s := by omega
      push_cast; rw [this, Int.mul_neg, Int.neg_neg]
    · have : (s.natAbs : Int) = s := by omega
      simp only [hs, if_false, Option.some.injEq]
      push_cast; rw [this]

/-- exact success condition of `as_divisor_to_round_up_magnitude_div` for a dividend of the signed type -/
theorem roundUpMagnitudeDiv_isSome_iff (W k : Nat) (d : Int) (hW : 1 ≤ W)
    (hd : -(2 ^ (W - 1) : Int) ≤ d ∧ d < (2 ^ (W - 1) : Int)) :
    (roundUpMagnitudeDiv W k d).isSome = true ↔
      k ≠ 0 ∧ k < 2 ^ (W - 1) ∧ (d < 0 → -(2 ^ (W - 1) : Int) ≤ d - k) ∧ (0 ≤ d → d + k < (2 ^ (W - 1) : Int)) := by
  unfold roundUpMagnitudeDiv toSigned toI
  by_cases hk : k = 0
  · simp [hk]
  · simp only [hk, if_false, ne_eq, not_false_eq_true, true_and]
    by_cases hkk : k < 2 ^ (W - 1)
    · have hkI : (k : Int) < (2 ^ (W - 1) : Int) := by exact_mod_cast hkk
      simp only [hkk, if_true, true_and]
      by_cases hneg : d < 0
      · simp only [hneg, if_true, true_implies]
        have hnn : ¬ (0 ≤ d) := by omega
        simp only [hnn, false_implies, and_true]
        by_cases hc : -(2 ^ (W - 1) : Int) ≤ d - k
        · have c1 : -(2 ^ (W - 1) : Int) ≤ d - k ∧ d - (k : Int) < (2 ^ (W - 1) : Int) := ⟨hc, by omega⟩
          have c2 : -(2 ^ (W - 1) : Int) ≤ d - k + 1 ∧ d - (k : Int) + 1 < (2 ^ (W - 1) : Int) := ⟨by omega, by omega⟩
          simp [c1, c2, hc]
        · have c1 : ¬ (-(2 ^ (W - 1) : Int) ≤ d - k ∧ d - (k : Int) < (2 ^ (W - 1) : Int)) := fun h => hc h.1
          simp [c1, hc]
      · simp only [hneg, if_false, false_implies, true_and]
        have hnn : 0 ≤ d := by omega
        simp only [hnn, true_implies]
        by_cases hc : d + k < (2 ^ (W - 1) : Int)
        · have c1 : -(2 ^ (W - 1) : Int) ≤ d + k ∧ d + (k : Int) < (2 ^ (W - 1) : Int) := ⟨by omega, hc⟩
          have c2 : -(2 ^ (W - 1) : Int) ≤ d + k - 1 ∧ d + (k : Int) - 1 < (2 ^ (W - 1) : Int) := ⟨by omega, by omega⟩
          simp [c1, c2, hc]
        · have c1 : ¬ (-(2 ^ (W - 1) : Int) ≤ d + k ∧ d + (k : Int) < (2 ^ (W - 1) : Int)) := fun h => hc h.2
          simp [c1, hc]
    · simp [hkk]

example : checkedSignedSub 64 5 9 = some (-4) ∧ checkedSignedSub 64 0 (2 ^ 63) = none := by decide
example : checkedMulWithSigned 64 (2 ^ 61) (-3) = some (-(2 ^ 61 * 3)) ∧ checkedMulWithSigned 64 (2 ^ 62) (-2) = none := by decide
example : (roundUpMagnitudeDiv 64 7 (-15)).isSome = true ∧ (roundUpMagnitudeDiv 64 7 (2 ^ 63 - 3)).isSome = false := by decide

end Gmx.C01
