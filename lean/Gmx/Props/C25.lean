import Gmx.Lemmas.PriceFeed
/-!
# C25 — a custom price feed never moves backwards in time or stores an invalid price

Model: `Gmx.Feed` (`PriceFeed::update`). `apply s u` is the account after one call (a rejected
call leaves it as it was), `run` folds a whole history of calls with ARBITRARY clocks, slots,
timestamps, prices and modes.
-/
namespace Gmx.C25
open Gmx.Feed

/-- complete characterisation of one call (four outcomes, with their exact conditions) -/
theorem update_outcomes (s : St) (u : Upd) :
    (update s u = .error .Preconditions ∧ (u.slot < s.lastSlot ∨ u.now < s.lastTs)) ∨
    (update s u = .ok (s, false) ∧ s.lastSlot ≤ u.slot ∧ s.lastTs ≤ u.now ∧ u.idempotent = true ∧ u.p.ts < s.price.ts) ∨
    (update s u = .error .InvalidArgument ∧ s.lastSlot ≤ u.slot ∧ s.lastTs ≤ u.now ∧
      ((u.idempotent = false ∧ u.p.ts < s.price.ts) ∨
       (s.price.ts ≤ u.p.ts ∧ (satAddUnsigned u.now u.maxFutureExcess < u.p.ts ∨ u.p.max < u.p.min ∨
          u.p.max < u.p.price ∨ u.p.price < u.p.min)))) ∨
    (update s u = .ok (⟨u.slot, u.now, u.p⟩, true) ∧ s.lastSlot ≤ u.slot ∧ s.lastTs ≤ u.now ∧
      s.price.ts ≤ u.p.ts ∧ u.p.ts ≤ satAddUnsigned u.now u.maxFutureExcess ∧
      u.p.min ≤ u.p.price ∧ u.p.price ≤ u.p.max) :=
  update_cases s u

/-- the price timestamp never decreases -/
theorem update_ts_monotone (s : St) (u : Upd) : s.price.ts ≤ (apply s u).price.ts := by
  unfold apply
  rcases update_cases s u with ⟨h, _⟩ | ⟨h, _⟩ | ⟨h, _⟩ | ⟨h, _, _, h3, _⟩ <;> rw [h]
  all_goals first | exact Int.le_refl _ | exact h3

/-- the stored price stays ordered: `min ≤ price ≤ max` -/
theorem stored_price_ordered (s : St) (u : Upd) (hv : Valid s) : Valid (apply s u) := by
  unfold apply
  rcases update_cases s u with ⟨h, _⟩ | ⟨h, _⟩ | ⟨h, _⟩ | ⟨h, _, _, _, _, h5, h6⟩ <;> rw [h]
  all_goals first | exact hv | exact ⟨h5, h6⟩

/-- a rejected update changes nothing -/
theorem rejected_unchanged (s : St) (u : Upd) (e : Err) (h : update s u = .error e) : apply s u = s := by
  unfold apply; rw [h]

/-- a skipped update (answer `false`) changes nothing either, and only happens in idempotent mode
for an older price -/
theorem skipped_unchanged (s s' : St) (u : Upd) (h : update s u = .ok (s', false)) :
    s' = s ∧ u.idempotent = true ∧ u.p.ts < s.price.ts := by
  rcases update_cases s u with ⟨h', _⟩ | ⟨h', _, _, h3, h4⟩ | ⟨h', _⟩ | ⟨h', _⟩ <;> rw [h'] at h
  · cases h
  · cases h; exact ⟨rfl, h3, h4⟩
  · cases h
  · cases h

/-- idempotent mode: an older update is skipped WITHOUT error (when clock and slot are not behind) -/
theorem idempotent_older_skipped (s : St) (u : Upd) (hi : u.idempotent = true) (hold : u.p.ts < s.price.ts)
    (hslot : s.lastSlot ≤ u.slot) (hnow : s.lastTs ≤ u.now) :
    update s u = .ok (s, false) := by
  rcases update_cases s u with ⟨_, h⟩ | ⟨h, _⟩ | ⟨_, _, _, h⟩ | ⟨_, _, _, h, _⟩
  · omega
  · exact h
  · rcases h with ⟨h, _⟩ | ⟨h, _⟩
    · rw [hi] at h; cases h
    · omega
  · omega

/-- strict mode: an older update is rejected -/
theorem strict_older_rejected (s : St) (u : Upd) (hi : u.idempotent = false) (hold : u.p.ts < s.price.ts) :
    ∃ e, update s u = .error e := by
  rcases update_cases s u with ⟨h, _⟩ | ⟨_, _, _, h, _⟩ | ⟨h, _⟩ | ⟨_, _, _, h, _⟩
  · exact ⟨_, h⟩
  · rw [hi] at h; cases h
  · exact ⟨_, h⟩
  · omega

/-- the published slot and clock never decrease -/
theorem slot_and_clock_monotone (s : St) (u : Upd) :
    s.lastSlot ≤ (apply s u).lastSlot ∧ s.lastTs ≤ (apply s u).lastTs := by
  unfold apply
  rcases update_cases s u with ⟨h, _⟩ | ⟨h, _⟩ | ⟨h, _⟩ | ⟨h, h1, h2, _⟩ <;> rw [h]
  all_goals first | exact ⟨Nat.le_refl _, Int.le_refl _⟩ | exact ⟨h1, h2⟩

/-- an accepted price is not from the future beyond the allowed excess and is stored verbatim -/
theorem accepted_spec (s s' : St) (u : Upd) (h : update s u = .ok (s', true)) :
    s' = ⟨u.slot, u.now, u.p⟩ ∧ u.p.ts ≤ satAddUnsigned u.now u.maxFutureExcess ∧ s.price.ts ≤ u.p.ts ∧
      u.p.min ≤ u.p.price ∧ u.p.price ≤ u.p.max := by
  rcases update_cases s u with ⟨h', _⟩ | ⟨h', _⟩ | ⟨h', _⟩ | ⟨h', _, _, h3, h4, h5, h6⟩ <;> rw [h'] at h
  · cases h
  · cases h
  · cases h
  · cases h; exact ⟨rfl, h4, h3, h5, h6⟩

/-- HISTORIES: after any sequence of updates the timestamp, slot and clock have not decreased and
the stored price is ordered -/
theorem history (us : List Upd) : ∀ (s : St), Valid s →
    s.price.ts ≤ (run s us).price.ts ∧ s.lastSlot ≤ (run s us).lastSlot ∧
    s.lastTs ≤ (run s us).lastTs ∧ Valid (run s us) := by
  induction us with
  | nil => intro s hv; exact ⟨Int.le_refl _, Nat.le_refl _, Int.le_refl _, hv⟩
  | cons u us ih =>
    intro s hv
    obtain ⟨a, b, c, d⟩ := ih (apply s u) (stored_price_ordered s u hv)
    have h1 := update_ts_monotone s u
    have h2 := slot_and_clock_monotone s u
    simp only [run]
    exact ⟨by omega, by omega, by omega, d⟩

/-- … in particular from a zero-initialised feed, and at every intermediate point of the history
(every prefix is a history) -/
theorem history_from_zero (us vs : List Upd) :
    Valid (run St.zero us) ∧ (run St.zero us).price.ts ≤ (run St.zero (us ++ vs)).price.ts := by
  have hz : Valid St.zero := by simp [Valid, St.zero]
  have hrun : ∀ (us vs : List Upd) (s : St), run s (us ++ vs) = run (run s us) vs := by
    intro us
    induction us with
    | nil => intro vs s; rfl
    | cons u us ih => intro vs s; simp only [List.cons_append, run]; exact ih vs _
  have h1 := history us St.zero hz
  rw [hrun]
  exact ⟨h1.2.2.2, (history vs _ h1.2.2.2).1⟩

/-! ### non-vacuity -/
example : update St.zero ⟨5, 100, p1, 0, false⟩ = .ok (⟨5, 100, p1⟩, true) := by decide
example : update ⟨5, 100, p1⟩ ⟨6, 101, ⟨99, 50, 49, 51⟩, 0, true⟩ = .ok (⟨5, 100, p1⟩, false) := by decide
example : update ⟨5, 100, p1⟩ ⟨6, 101, ⟨99, 50, 49, 51⟩, 0, false⟩ = .error .InvalidArgument := by decide
example : update ⟨5, 100, p1⟩ ⟨4, 101, ⟨101, 50, 49, 51⟩, 0, true⟩ = .error .Preconditions := by decide
example : update ⟨5, 100, p1⟩ ⟨6, 101, ⟨103, 50, 49, 51⟩, 1, true⟩ = .error .InvalidArgument := by decide
example : update ⟨5, 100, p1⟩ ⟨6, 101, ⟨101, 52, 49, 51⟩, 0, true⟩ = .error .InvalidArgument := by decide

/-! ### audit: further non-vacuity instances (theorems instantiated, a mixed history) -/

/-- `Valid` on the initial and on a non-initial reachable state; `stored_price_ordered` instantiated on the latter
with an ACCEPTED update -/
example : Valid St.zero ∧ Valid ⟨5, 100, p1⟩ := by unfold Valid; decide
example : Valid (apply ⟨5, 100, p1⟩ ⟨6, 101, ⟨101, 60, 58, 61⟩, 0, false⟩) ∧
    apply ⟨5, 100, p1⟩ ⟨6, 101, ⟨101, 60, 58, 61⟩, 0, false⟩ = ⟨6, 101, ⟨101, 60, 58, 61⟩⟩ :=
  ⟨stored_price_ordered _ _ (by unfold Valid; decide), by decide⟩

/-- `rejected_unchanged`, `skipped_unchanged`, `idempotent_older_skipped`, `strict_older_rejected`, `accepted_spec`
instantiated (hypotheses discharged on concrete calls) -/
example : apply ⟨5, 100, p1⟩ ⟨6, 101, ⟨101, 52, 49, 51⟩, 0, true⟩ = ⟨5, 100, p1⟩ :=
  rejected_unchanged _ _ .InvalidArgument (by decide)
example : (⟨5, 100, p1⟩ : St) = ⟨5, 100, p1⟩ ∧ true = true ∧ (99 : Int) < 100 :=
  skipped_unchanged ⟨5, 100, p1⟩ ⟨5, 100, p1⟩ ⟨6, 101, ⟨99, 50, 49, 51⟩, 0, true⟩ (by decide)
example : update ⟨5, 100, p1⟩ ⟨6, 101, ⟨99, 50, 49, 51⟩, 0, true⟩ = .ok (⟨5, 100, p1⟩, false) :=
  idempotent_older_skipped _ _ rfl (by decide) (by decide) (by decide)
example : ∃ e, update ⟨5, 100, p1⟩ ⟨6, 101, ⟨99, 50, 49, 51⟩, 0, false⟩ = .error e :=
  strict_older_rejected _ _ rfl (by decide)
example : (⟨7, 105, ⟨107, 60, 58, 61⟩⟩ : St) = ⟨7, 105, ⟨107, 60, 58, 61⟩⟩ ∧
    (107 : Int) ≤ satAddUnsigned 105 2 ∧ (100 : Int) ≤ 107 ∧ 58 ≤ 60 ∧ 60 ≤ 61 :=
  accepted_spec ⟨5, 100, p1⟩ _ ⟨7, 105, ⟨107, 60, 58, 61⟩, 2, false⟩ (by decide)

/-- `history` / `history_from_zero` on a mixed non-empty history: accepted, skipped (idempotent, older), rejected
(strict, older), rejected (slot behind), rejected (inverted bounds), accepted (from the allowed future) -/
example : run St.zero [⟨5, 100, p1, 0, false⟩, ⟨6, 101, ⟨99, 50, 49, 51⟩, 0, true⟩, ⟨6, 101, ⟨99, 50, 49, 51⟩, 0, false⟩,
      ⟨4, 102, ⟨102, 50, 49, 51⟩, 0, true⟩, ⟨6, 102, ⟨102, 50, 52, 51⟩, 0, true⟩, ⟨7, 105, ⟨107, 60, 58, 61⟩, 2, false⟩] =
    ⟨7, 105, ⟨107, 60, 58, 61⟩⟩ := by decide
example : (100 : Int) ≤ (run ⟨5, 100, p1⟩ [⟨6, 101, ⟨99, 50, 49, 51⟩, 0, true⟩, ⟨7, 105, ⟨107, 60, 58, 61⟩, 2, false⟩]).price.ts :=
  (history [⟨6, 101, ⟨99, 50, 49, 51⟩, 0, true⟩, ⟨7, 105, ⟨107, 60, 58, 61⟩, 2, false⟩] ⟨5, 100, p1⟩ (by unfold Valid; decide)).1

/-- AUDIT (strength): `strict_older_rejected` only says "some error"; when clock and slot are not behind the error
is exactly `InvalidArgument` (and with either behind it is `Preconditions`, by `update_outcomes`) -/
theorem strict_older_rejected_kind (s : St) (u : Upd) (hi : u.idempotent = false) (hold : u.p.ts < s.price.ts)
    (hslot : s.lastSlot ≤ u.slot) (hnow : s.lastTs ≤ u.now) :
    update s u = .error .InvalidArgument := by
  rcases update_cases s u with ⟨_, h⟩ | ⟨_, _, _, h, _⟩ | ⟨h, _⟩ | ⟨_, _, _, h, _⟩
  · omega
  · rw [hi] at h; cases h
  · exact h
  · omega

example : update ⟨5, 100, p1⟩ ⟨6, 101, ⟨99, 50, 49, 51⟩, 0, false⟩ = .error .InvalidArgument :=
  strict_older_rejected_kind _ _ rfl (by decide) (by decide) (by decide)

/-- AUDIT (strength): `history` bounds the stored state from BELOW only; the property's "not from the future" half
as a state invariant over histories: whenever the account holds an accepted price, it was at most the call's
`max_future_excess` ahead of the published clock — stated for one step (the excess is per call): after ANY call,
either nothing changed or the stored timestamp is within the allowed excess of the now-published clock -/
theorem stored_not_from_future (s : St) (u : Upd) :
    apply s u = s ∨ ((apply s u).price.ts ≤ satAddUnsigned (apply s u).lastTs u.maxFutureExcess ∧
      (apply s u).lastTs = u.now ∧ (apply s u).lastSlot = u.slot ∧ (apply s u).price = u.p) := by
  unfold apply
  rcases update_cases s u with ⟨h, _⟩ | ⟨h, _⟩ | ⟨h, _⟩ | ⟨h, _, _, _, h4, _⟩ <;> rw [h]
  · exact .inl rfl
  · exact .inl rfl
  · exact .inl rfl
  · exact .inr ⟨h4, rfl, rfl, rfl⟩

example : update ⟨5, 100, p1⟩ ⟨6, 101, ⟨104, 50, 49, 51⟩, 2, true⟩ = .error .InvalidArgument ∧
    update ⟨5, 100, p1⟩ ⟨6, 101, ⟨103, 50, 49, 51⟩, 2, true⟩ = .ok (⟨6, 101, ⟨103, 50, 49, 51⟩⟩, true) := by decide


end Gmx.C25
