import Gmx.Lemmas.StorePool
/-!
# C15 — single-token (pure) pools account for every token exactly once

`Pool` of `programs/store/src/states/market/pool.rs` (model: `Gmx.SPool`).  For a pure pool the
stored total is the `long` field; the long view is `⌈total/2⌉`, the short view `⌊total/2⌋`.
All theorems are for every width `W` (128 on chain) and every stored total.
-/
namespace Gmx.C15
open Gmx Gmx.SPool

/-- the two views of a pure pool add up to the stored total. -/
theorem pure_sides_sum (p : Pool) (h : p.pure = true) :
    longAmount p + shortAmount p = p.long := by
  simp [longAmount, shortAmount, h, ceilDiv]; omega

/-- long view = ⌈total/2⌉, short view = ⌊total/2⌋ (they differ by the parity bit). -/
theorem pure_views_split (p : Pool) (h : p.pure = true) :
    shortAmount p = p.long / 2 ∧ longAmount p = p.long / 2 + p.long % 2 := by
  simp [longAmount, shortAmount, h, ceilDiv]; omega

/-- `checked_add_signed`: exact or fails, fails iff the exact sum leaves `[0, 2^W)`. -/
theorem addSigned_spec (W a : Nat) (d : Int) (r : Nat) :
    addSigned W a d = some r ↔ (r : Int) = a + d ∧ (a : Int) + d < 2 ^ W :=
  Lem.addSigned_some W a d r

theorem addSigned_none_iff (W a : Nat) (d : Int) :
    addSigned W a d = none ↔ ((a : Int) + d < 0 ∨ (2 : Int) ^ W ≤ a + d) :=
  Lem.addSigned_none W a d

/-- WHAT IS SPECIFIC TO A PURE POOL (the impure long side is `impure_applyLong`, same arithmetic on one field): both
sides share ONE stored total. A delta on the short side is literally the same operation as on the long side; after it
BOTH views have moved — they are again the ceil/floor halves of the new total `total + d`, so each side's view changes
by about `d/2` — and netting afterwards leaves the parity of `total + d`. (On an impure pool the other side's view
does not move at all: `impure_other_side_untouched`.) -/
theorem pure_applyLong_total (W : Nat) (p q : Pool) (d : Int) (h : p.pure = true) (hq : applyLong W p d = some q) :
    applyShort W p d = applyLong W p d ∧
    (q.long : Int) = p.long + d ∧
    longAmount q + shortAmount q = q.long ∧ shortAmount q = q.long / 2 ∧ longAmount q = q.long / 2 + q.long % 2 ∧
    (cancel q).long = q.long % 2 := by
  obtain ⟨h1, _, h3, _⟩ := (Lem.applyLong_some W p q d).1 hq
  have hqp : q.pure = true := by simpa [Pool.pure, h3] using h
  exact ⟨Lem.applyShort_pure W p d h, h1, pure_sides_sum q hqp, (pure_views_split q hqp).1, (pure_views_split q hqp).2,
    by simp [cancel, hqp]⟩

/-- the contrast: on an IMPURE pool a delta on one side leaves the other side's view untouched -/
theorem impure_other_side_untouched (W : Nat) (p q : Pool) (d : Int) (h : p.pure = false) :
    (applyLong W p d = some q → shortAmount q = shortAmount p) ∧
    (applyShort W p d = some q → longAmount q = longAmount p) := by
  constructor
  · intro hq
    obtain ⟨_, _, h3, h4⟩ := (Lem.applyLong_some W p q d).1 hq
    have hqp : q.pure = false := by simpa [Pool.pure, h3] using h
    simp [shortAmount, h, hqp, h4]
  · intro hq
    obtain ⟨_, _, h3, h4⟩ := (Lem.applyShort_impure_some W p q d h).1 hq
    have hqp : q.pure = false := by simpa [Pool.pure, h3] using h
    simp [longAmount, h, hqp, h4]

/-- same for the SHORT side of a pure pool: it writes to the single stored total. -/
theorem pure_applyShort_total (W : Nat) (p q : Pool) (d : Int) (h : p.pure = true) :
    applyShort W p d = some q ↔
      ((q.long : Int) = p.long + d ∧ (p.long : Int) + d < 2 ^ W ∧ q.flag = p.flag ∧ q.short = p.short) := by
  rw [Lem.applyShort_pure W p d h]; exact Lem.applyLong_some W p q d

/-- failure is exactly "the total would leave `[0, 2^W)`", on either side. -/
theorem pure_apply_fails_iff (W : Nat) (p : Pool) (d : Int) (h : p.pure = true) :
    (applyLong W p d = none ↔ ((p.long : Int) + d < 0 ∨ (2 : Int) ^ W ≤ p.long + d)) ∧
    (applyShort W p d = none ↔ ((p.long : Int) + d < 0 ∨ (2 : Int) ^ W ≤ p.long + d)) := by
  rw [Lem.applyShort_pure W p d h]
  exact ⟨Lem.applyLong_none W p d, Lem.applyLong_none W p d⟩

/-- in terms of the two views: after a successful delta on either side the views still sum to the
stored total, which moved by exactly `d`. -/
theorem pure_apply_views (W : Nat) (p q : Pool) (d : Int) (h : p.pure = true)
    (hq : applyLong W p d = some q ∨ applyShort W p d = some q) :
    q.pure = true ∧
    ((longAmount q + shortAmount q : Nat) : Int) = ((longAmount p + shortAmount p : Nat) : Int) + d := by
  rw [Lem.applyShort_pure W p d h, or_self] at hq
  obtain ⟨h1, _, h3, _⟩ := (Lem.applyLong_some W p q d).1 hq
  have hqp : q.pure = true := by simpa [Pool.pure, h3] using h
  rw [pure_sides_sum q hqp, pure_sides_sum p h]
  exact ⟨hqp, h1⟩

/-- netting the two sides of a pure pool leaves only the parity remainder: the stored total
becomes `total % 2`, seen as long view `total % 2` and short view `0`. -/
theorem pure_cancel_parity (p : Pool) (h : p.pure = true) :
    (cancel p).long = p.long % 2 ∧ (cancel p).flag = p.flag ∧ (cancel p).short = p.short ∧
    longAmount (cancel p) = p.long % 2 ∧ shortAmount (cancel p) = 0 := by
  have hc : cancel p = { p with long := p.long % 2 } := by simp [cancel, h]
  have hp : (cancel p).pure = true := by rw [hc]; simpa [Pool.pure] using h
  refine ⟨by rw [hc], by rw [hc], by rw [hc], ?_, ?_⟩
  · have := (pure_views_split _ hp).2; rw [this, hc]; simp
  · have := (pure_views_split _ hp).1; rw [this, hc]; simp

/-- netting never changes the parity of the total and is idempotent. -/
theorem pure_cancel_idem (p : Pool) (h : p.pure = true) :
    (cancel p).long % 2 = p.long % 2 ∧ cancel (cancel p) = cancel p := by
  have hc : cancel p = { p with long := p.long % 2 } := by simp [cancel, h]
  have hp : (cancel p).pure = true := by rw [hc]; simpa [Pool.pure] using h
  refine ⟨by rw [hc]; simp, ?_⟩
  have hp' : ({ p with long := p.long % 2 } : Pool).pure = true := by rw [← hc]; exact hp
  rw [hc]; simp [cancel, hp']

/-- HISTORIES.  A pure pool under any sequence of long/short deltas and nettings is a single
counter: the run succeeds iff the counter machine `Lem.specTotal` does, the stored total is the
counter, the flag and the unused field never change. -/
theorem pure_history (W : Nat) (p : Pool) (ops : List Op) (h : p.pure = true) :
    run W p ops = (Lem.specTotal W p.long ops).map (fun t => { p with long := t }) :=
  Lem.run_pure W ops p h

/-- … and after every successful history the sides again sum to the stored total. -/
theorem pure_history_sides (W : Nat) (p q : Pool) (ops : List Op) (h : p.pure = true)
    (hr : run W p ops = some q) :
    q.pure = true ∧ longAmount q + shortAmount q = q.long := by
  have hq := Lem.run_pure_flag W ops p q hr
  have : q.pure = true := by simpa [Pool.pure, hq] using h
  exact ⟨this, pure_sides_sum q this⟩

/-- without nettings: the stored total moved by exactly the sum of all deltas, whichever sides
they were applied to. -/
theorem pure_history_sum (W : Nat) (p q : Pool) (ops : List Op) (h : p.pure = true)
    (hnc : ∀ o ∈ ops, o ≠ Op.cancel) (hr : run W p ops = some q) :
    (q.long : Int) = p.long + (ops.map Op.delta).sum :=
  Lem.run_pure_sum W ops p q h hnc hr

/-- … and such a history fails iff some non-empty prefix sum leaves `[0, 2^W)`. -/
theorem pure_history_fails_iff (W : Nat) (p : Pool) (ops : List Op) (h : p.pure = true)
    (hnc : ∀ o ∈ ops, o ≠ Op.cancel) :
    run W p ops = none ↔
      ∃ k, k < ops.length ∧ ¬ (0 ≤ (p.long : Int) + ((ops.take (k + 1)).map Op.delta).sum ∧
                                 (p.long : Int) + ((ops.take (k + 1)).map Op.delta).sum < 2 ^ W) :=
  Lem.run_pure_none W ops p h hnc

/-! ### impure analogues -/

theorem impure_views (p : Pool) (h : p.pure = false) :
    longAmount p = p.long ∧ shortAmount p = p.short := by
  simp [longAmount, shortAmount, h]

theorem impure_applyLong (W : Nat) (p q : Pool) (d : Int) :
    applyLong W p d = some q ↔
      ((q.long : Int) = p.long + d ∧ (p.long : Int) + d < 2 ^ W ∧ q.flag = p.flag ∧ q.short = p.short) :=
  Lem.applyLong_some W p q d

theorem impure_applyShort (W : Nat) (p q : Pool) (d : Int) (h : p.pure = false) :
    applyShort W p d = some q ↔
      ((q.short : Int) = p.short + d ∧ (p.short : Int) + d < 2 ^ W ∧ q.flag = p.flag ∧ q.long = p.long) :=
  Lem.applyShort_impure_some W p q d h

/-- netting an impure pool: the smaller side becomes 0 and the signed difference is unchanged. -/
theorem impure_cancel (p : Pool) (h : p.pure = false) :
    ((cancel p).long = 0 ∨ (cancel p).short = 0) ∧
    ((cancel p).long : Int) - (cancel p).short = (p.long : Int) - p.short ∧
    (cancel p).flag = p.flag := by
  simp only [cancel, h, cancelAmounts]
  by_cases hl : p.long ≥ p.short <;> simp [hl] <;> omega

/-- impure histories: the signed difference long − short moves by exactly the long deltas minus
the short deltas (nettings do not change it). -/
theorem impure_history_diff (W : Nat) (p q : Pool) (ops : List Op) (h : p.pure = false)
    (hr : run W p ops = some q) :
    (q.long : Int) - q.short = (p.long : Int) - p.short + (ops.map Lem.signedDelta).sum :=
  Lem.run_impure_diff W ops p q h hr

/-! ### the SDK copy (`crates/programs/src/model/pool.rs`) -/

/-- The SDK copy does not override `checked_cancel_amounts`; the inherited default agrees with
the store's override on every pure pool. -/
theorem sdk_cancel_pure_eq (W : Nat) (p : Pool) (h : p.pure = true) (hw : 1 ≤ W) (hl : p.long < 2 ^ W) :
    cancelDefault W p = some (cancel p) :=
  Lem.cancelDefault_pure W p h hw hl

/-- on impure pools the two agree while the smaller amount fits the signed type … -/
theorem sdk_cancel_impure_partial (W : Nat) (p : Pool) (h : p.pure = false)
    (hl : p.long < 2 ^ W) (hs : p.short < 2 ^ W)
    (hmin : p.long < 2 ^ (W - 1) ∨ p.short < 2 ^ (W - 1)) :
    cancelDefault W p = some (cancel p) :=
  Lem.cancelDefault_impure W p h hl hs hmin

/-- … and diverge above it: the SDK copy fails where the program succeeds (relevant to C40). -/
theorem sdk_cancel_impure_witness :
    cancelDefault 128 ⟨0, 2 ^ 127 + 5, 2 ^ 127⟩ = none ∧ cancel ⟨0, 2 ^ 127 + 5, 2 ^ 127⟩ = ⟨0, 5, 0⟩ := by
  constructor <;> decide

/-- what the SDK copy's netting is, following the source (`Gen.sdkOverridesCancel` is regenerated
from `crates/programs/src/model/pool.rs` on every run): with the override it IS the program's
netting on every pool, pure or not, at every magnitude; without it, the inherited default. -/
theorem sdk_cancel_follows_source (W : Nat) (p : Pool) :
    (Gmx.Gen.sdkOverridesCancel = true → cancelSdk W p = some (cancel p)) ∧
    (Gmx.Gen.sdkOverridesCancel = false → cancelSdk W p = cancelDefault W p) := by
  unfold cancelSdk
  constructor
  · intro h; rw [if_pos h]
  · intro h; rw [if_neg (by simp [h])]

/-- in either case the SDK netting equals the program's on every pure pool … -/
theorem sdk_cancelSdk_pure_eq (W : Nat) (p : Pool) (h : p.pure = true) (hw : 1 ≤ W) (hl : p.long < 2 ^ W) :
    cancelSdk W p = some (cancel p) :=
  Lem.cancelSdk_pure W p h hw hl

/-- whole histories on a pure pool: the SDK transcription and the store transcription agree. -/
theorem sdk_pool_eq_store_pool (W : Nat) (p : Pool) (ops : List Op) (h : p.pure = true)
    (hw : 1 ≤ W) (hl : p.long < 2 ^ W) :
    runSdk W p ops = run W p ops :=
  Lem.runSdk_eq_run W ops p h hw hl

/-! ### non-vacuity -/
example : longAmount ⟨1, 7, 0⟩ = 4 ∧ shortAmount ⟨1, 7, 0⟩ = 3 := by decide
example : applyShort 128 ⟨1, 7, 0⟩ (-7) = some ⟨1, 0, 0⟩ := by decide
example : applyShort 128 ⟨1, 7, 0⟩ (-8) = none := by decide
example : applyLong 128 ⟨1, 2 ^ 128 - 1, 0⟩ 1 = none := by decide
example : cancel ⟨1, 2 ^ 128 - 1, 0⟩ = ⟨1, 1, 0⟩ := by decide
example : run 128 ⟨1, 0, 0⟩ [.long 5, .short 4, .cancel, .short (-1)] = some ⟨1, 0, 0⟩ := by decide
example : run 128 ⟨0, 5, 9⟩ [.cancel] = some ⟨0, 0, 4⟩ := by decide
example : cancelDefault 128 ⟨255, 2 ^ 128 - 1, 0⟩ = some ⟨255, 1, 0⟩ := by decide

-- added by the hygiene audit
-- `pure_history_sum` / `pure_history_fails_iff`: a cancel-free history on a pure pool, succeeding and failing
example : run 128 ⟨1, 10, 0⟩ [.long 5, .short (-4), .short 1] = some ⟨1, 12, 0⟩ ∧ run 128 ⟨1, 10, 0⟩ [.long 5, .short (-16)] = none := by decide
-- `impure_history_diff`: a successful history on an impure pool
example : run 128 ⟨0, 5, 9⟩ [.long 3, .cancel, .short 2] = some ⟨0, 0, 3⟩ := by decide
-- `sdk_cancel_impure_partial`: its hypotheses (both sides fit, the smaller one below 2^127)
example : cancelDefault 128 ⟨0, 2 ^ 127 + 5, 7⟩ = some (cancel ⟨0, 2 ^ 127 + 5, 7⟩) :=
  sdk_cancel_impure_partial 128 ⟨0, 2 ^ 127 + 5, 7⟩ rfl (by decide) (by decide) (Or.inr (by decide))

example : applyShort 128 ⟨1, 7, 0⟩ 3 = applyLong 128 ⟨1, 7, 0⟩ 3 ∧ (cancel ⟨1, 10, 0⟩).long = 10 % 2 :=
  ⟨(pure_applyLong_total 128 ⟨1, 7, 0⟩ ⟨1, 10, 0⟩ 3 (by decide) (by decide)).1, (pure_applyLong_total 128 ⟨1, 7, 0⟩ ⟨1, 10, 0⟩ 3 (by decide) (by decide)).2.2.2.2.2⟩
example : shortAmount ⟨0, 8, 4⟩ = shortAmount ⟨0, 5, 4⟩ := (impure_other_side_untouched 128 ⟨0, 5, 4⟩ ⟨0, 8, 4⟩ 3 (by decide)).1 (by decide)

end Gmx.C15
