import Gmx.Lemmas.Borrowing
/-!
# C13 — borrowing accounting never goes negative

Statements are about `Gmx.Model.Borrowing` (transcription of `market/borrowing.rs`,
`update_borrowing_state.rs`, the kink model of `params/fee.rs`, `update_total_borrowing`),
tied to the implementation by the `borr` correspondence engine.

`BorrowSys` is the borrowing bookkeeping of one side: cumulative factor, recorded total and the
open positions' `(size, factor)`; its operations are exactly what the position actions do to it
(`update_total_borrowing` with the next size and the current cumulative factor *before* the size
changes; borrowing-state updates that add an unsigned delta).
-/
namespace Gmx.C13
open Gmx Gmx.Perp Gmx.Lem

/-- the next cumulative factor is the current one plus an unsigned delta. -/
theorem cumFactor_monotone {W U : Nat} {c : BorrowCommon} {sp : BorrowSide} {isLong : Bool}
    {v : BorrowView} {cur dur nx d : Nat}
    (h : nextCumulativeBorrowingFactor W U c sp isLong v cur dur = .ok (nx, d)) :
    nx = cur + d ∧ cur ≤ nx := by
  unfold nextCumulativeBorrowingFactor at h
  split at h
  · cases h
  · split at h
    · cases h
    · split at h
      · cases h
      · split at h
        · cases h
        · rename_i hadd
          cases h
          unfold checkedAdd toU at hadd
          split at hadd
          · cases hadd; omega
          · cases hadd

/-- a borrowing-state update never lowers either side's cumulative factor. -/
theorem update_monotone {W U : Nat} {c : BorrowCommon} {spL spS : BorrowSide} {vL vS : BorrowView}
    {pv : Bool} {cumL cumS dur nl ns : Nat}
    (h : updateBorrowing W U c spL spS vL vS pv cumL cumS dur = .ok (nl, ns)) :
    cumL ≤ nl ∧ cumS ≤ ns := by
  unfold updateBorrowing at h
  split at h
  · cases h
  · split at h
    · cases h
    · rename_i a ha
      split at h
      · cases h
      · rename_i b hb
        cases h
        unfold updateBorrowingSide at ha hb
        constructor
        · split at ha
          · cases ha
          · rename_i hx
            split at ha
            · cases ha
            · cases ha; exact (cumFactor_monotone hx).2
        · split at hb
          · cases hb
          · rename_i hx
            split at hb
            · cases hb
            · cases hb; exact (cumFactor_monotone hx).2

/-- `update_total_borrowing` adds `⌊next size·next factor/UNIT⌋ − ⌊size·factor/UNIT⌋` exactly. -/
theorem updateTotalBorrowing_spec {W U size bf ns nbf total t : Nat}
    (h : updateTotalBorrowing W U size bf ns nbf total = .ok t) :
    (t : Int) = total + (ns * nbf / U : Nat) - (size * bf / U : Nat) := by
  have := (updateTotalBorrowing_eq h).2
  omega

/-- one operation preserves the invariant. -/
theorem inv_step (W U : Nat) (s : BorrowSys) (o : BorrowOp) (h : s.Inv U) : (s.step W U o).Inv U := by
  obtain ⟨ht, hb⟩ := h
  cases o with
  | update d =>
    simp only [BorrowSys.step]
    split
    · rename_i c hc
      refine ⟨ht, fun x hx => ?_⟩
      unfold checkedAdd toU at hc
      split at hc
      · cases hc; have := hb x hx; simp only; omega
      · cases hc
    · exact ⟨ht, hb⟩
  | add =>
    simp only [BorrowSys.step]
    refine ⟨?_, fun x hx => ?_⟩
    · simp only [sumBorrowing_append, sumBorrowing, Nat.zero_mul, Nat.zero_div]; omega
    · simp only [List.mem_append, List.mem_singleton] at hx
      rcases hx with hx | hx
      · exact hb x hx
      · subst hx; simp
  | settle i newSize =>
    simp only [BorrowSys.step]
    split
    · exact ⟨ht, hb⟩
    · rename_i sz bf hget
      split
      · rename_i t hu
        have e := (updateTotalBorrowing_eq hu).2
        have e2 := sumBorrowing_set U s.pos i sz bf newSize s.cum hget
        refine ⟨?_, fun x hx => ?_⟩
        · simp only; omega
        · rcases mem_set_cases _ _ _ _ hx with hx | hx
          · subst hx; simp
          · exact hb x hx
      · exact ⟨ht, hb⟩

/-- **total borrowing is exact over all histories**: after any sequence of borrowing updates,
position openings and size changes (including failing ones), the recorded total equals
`Σ ⌊sizeᵢ·factorᵢ/UNIT⌋` over the positions and no position's factor exceeds the cumulative one. -/
theorem totalBorrowing_exact (W U : Nat) (ops : List BorrowOp) :
    ∀ s : BorrowSys, s.Inv U → (s.run W U ops).Inv U := by
  induction ops with
  | nil => intro s h; exact h
  | cons o os ih => intro s h; exact ih _ (inv_step W U s o h)

theorem inv_init (U : Nat) : BorrowSys.init.Inv U := by
  refine ⟨rfl, fun x hx => ?_⟩
  simp [BorrowSys.init] at hx

/-- the cumulative factor never decreases along a history. -/
theorem cum_monotone_history (W U : Nat) (ops : List BorrowOp) : ∀ s : BorrowSys, s.cum ≤ (s.run W U ops).cum := by
  induction ops with
  | nil => intro s; exact Nat.le_refl _
  | cons o os ih =>
    intro s
    refine Nat.le_trans ?_ (ih _)
    cases o with
    | update d =>
      simp only [BorrowSys.step]
      split
      · rename_i c hc
        unfold checkedAdd toU at hc
        split at hc
        · cases hc; simp only; omega
        · cases hc
      · exact Nat.le_refl _
    | add => exact Nat.le_refl _
    | settle i n =>
      simp only [BorrowSys.step]
      split
      · exact Nat.le_refl _
      · split <;> exact Nat.le_refl _

/-- **pending borrowing fees are never negative**: with the open interest equal to the sum of
the position sizes (C07) and any factor `F` at or above the cumulative one (the next cumulative
factor used by the pool valuation), `⌊OI·F/UNIT⌋ ≥` the recorded total. -/
theorem pending_nonneg {U : Nat} {s : BorrowSys} {oi F : Nat} (hinv : s.Inv U)
    (hoi : oi = sumSizes s.pos) (hF : s.cum ≤ F) : s.total ≤ oi * F / U := by
  obtain ⟨ht, hb⟩ := hinv
  rw [ht, hoi]
  exact sumBorrowing_le U F s.pos (fun x hx => Nat.le_trans (hb x hx) hF)

/-- **pending borrowing fees never fail to compute**: for a state reachable by any history, if
the next cumulative factor is computable and `⌊OI·next/UNIT⌋` fits the number type, then
`total_pending_borrowing_fees` succeeds with the exact non-negative difference. -/
theorem pending_defined {W U : Nat} {c : BorrowCommon} {sp : BorrowSide} {isLong : Bool}
    {v : BorrowView} {dur nx d : Nat} (ops : List BorrowOp)
    (hnext : nextCumulativeBorrowingFactor W U c sp isLong v (BorrowSys.init.run W U ops).cum dur = .ok (nx, d))
    (hoi : (if isLong then v.oiLong else v.oiShort) = sumSizes (BorrowSys.init.run W U ops).pos)
    (hU : U ≠ 0) (hfit : (if isLong then v.oiLong else v.oiShort) * nx / U < 2 ^ W) :
    totalPendingBorrowingFees W U c sp isLong v (BorrowSys.init.run W U ops).cum dur (BorrowSys.init.run W U ops).total
      = .ok ((if isLong then v.oiLong else v.oiShort) * nx / U - (BorrowSys.init.run W U ops).total) ∧
    (BorrowSys.init.run W U ops).total ≤ (if isLong then v.oiLong else v.oiShort) * nx / U := by
  have hinv := totalBorrowing_exact W U ops _ (inv_init U)
  have hle := pending_nonneg hinv hoi (cumFactor_monotone hnext).2
  refine ⟨?_, hle⟩
  unfold totalPendingBorrowingFees
  rw [hnext]
  simp only
  have : applyFactor W U (if isLong then v.oiLong else v.oiShort) nx
      = some ((if isLong then v.oiLong else v.oiShort) * nx / U) :=
    (C01.mulDiv_spec _ _ _ _ _).2 ⟨hU, rfl, hfit⟩
  rw [this]
  simp only [Option.bind, checkedSub, hle, if_true, optB]

/-- **kink model**: the factor is `⌊usage·base/UNIT⌋` up to the optimal usage and that plus
`⌊(above − base)·(usage − optimal)/(UNIT − optimal)⌋` beyond it (the additional slope is taken
as `0` when `above ≤ base`): it never subtracts, so it is never below the base part. -/
theorem kink_spec {W U : Nat} {c : BorrowCommon} {sp : BorrowSide} {oiSide reserved pv r : Nat}
    (h : kinkFactor W U c sp oiSide reserved pv = .ok (some r)) :
    sp.optimal ≠ 0 ∧ ∃ usage, usageFactor W U c sp oiSide reserved pv = .ok usage ∧
      usage * sp.base / U ≤ r ∧
      (¬ (usage > sp.optimal ∧ U > sp.optimal) → r = usage * sp.base / U) ∧
      (usage > sp.optimal ∧ U > sp.optimal →
        r = usage * sp.base / U + (if sp.above > sp.base then sp.above - sp.base else 0) * (usage - sp.optimal) / (U - sp.optimal)) := by
  unfold kinkFactor at h
  split at h
  · cases h
  · rename_i hopt
    refine ⟨hopt, ?_⟩
    split at h
    · cases h
    · rename_i usage hu
      refine ⟨usage, hu, ?_⟩
      split at h
      · cases h
      · rename_i fps hf
        obtain ⟨_, rfl, _⟩ := (C01.mulDiv_spec _ _ _ _ _).1 hf
        by_cases hk : usage > sp.optimal ∧ U > sp.optimal
        · rw [if_pos hk] at h
          dsimp only at h
          generalize (if sp.above > sp.base then sp.above - sp.base else 0) = add at h ⊢
          cases hm : mulDiv W add (usage - sp.optimal) (U - sp.optimal) with
          | none => rw [hm] at h; cases h
          | some a =>
            rw [hm] at h
            simp only [Option.bind] at h
            obtain ⟨_, rfl, _⟩ := (C01.mulDiv_spec _ _ _ _ _).1 hm
            unfold checkedAdd toU at h
            split at h
            · cases h
            · rename_i r' hr
              cases h
              split at hr
              · cases hr
                exact ⟨Nat.le_add_right _ _, fun hn => absurd hk hn, fun _ => rfl⟩
              · cases hr
        · rw [if_neg hk] at h
          cases h
          exact ⟨Nat.le_refl _, fun _ => rfl, fun hy => absurd hy hk⟩

/-- no borrowing fee accrues for a side without reserved value, or (by default) for the
smaller side. -/
theorem fps_zero_cases {W U : Nat} {c : BorrowCommon} {sp : BorrowSide} {v : BorrowView} :
    (v.oiShort = 0 → borrowingFactorPerSecond W U c sp false v = .ok 0) ∧
    (c.skipSmaller = true → v.oiShort < v.oiLong → borrowingFactorPerSecond W U c sp false v = .ok 0) := by
  constructor
  · intro h; unfold borrowingFactorPerSecond; simp [h]
  · intro h1 h2; unfold borrowingFactorPerSecond
    by_cases h0 : v.oiShort = 0
    · simp [h0]
    · simp [h0, h1, h2]

/-- AUDIT (long-side counterpart of `fps_zero_cases`, which only covers `is_long = false`): no
borrowing fee accrues for the long side without open interest in tokens, or (by default) when
it is the smaller side — provided the reserved value `tokens · max index price` is computable
(otherwise the result is the overflow error, second example below). -/
theorem fps_zero_cases_long {W U : Nat} {c : BorrowCommon} {sp : BorrowSide} {v : BorrowView} :
    (v.oiTokens = 0 → borrowingFactorPerSecond W U c sp true v = .ok 0) ∧
    (c.skipSmaller = true → v.oiLong < v.oiShort → v.oiTokens * v.idxMax < 2 ^ W →
      borrowingFactorPerSecond W U c sp true v = .ok 0) := by
  constructor
  · intro h
    have : 0 < 2 ^ W := Nat.pos_of_ne_zero (by simp)
    unfold borrowingFactorPerSecond checkedMul toU; simp [h, this]
  · intro h1 h2 h3; unfold borrowingFactorPerSecond checkedMul toU
    simp only [if_true, h3]
    by_cases h0 : v.oiTokens * v.idxMax = 0
    · simp [h0]
    · simp [h0, h1, h2]

/-- **the smaller side is never charged** (either side, `skip_borrowing_fee_for_smaller_side`): the
factor per second of the smaller side is `0`, or — long side only — the computation fails with the
overflow error because the reserved value `tokens · max index price` is computed BEFORE the
smaller-side test, exactly as `borrowing_factor_per_second` does (`reserved_value(..)?` first);
it is never a positive factor. The extra premise of `fps_zero_cases_long` is this code order, not a
gap: when it fails the instruction reverts (checked against
`crates/model/src/market/borrowing.rs`; the failing branch needs `tokens · price ≥ 2^W`). -/
theorem fps_smaller_side_never_charged {W U : Nat} {c : BorrowCommon} {sp : BorrowSide} {v : BorrowView} (isLong : Bool)
    (hskip : c.skipSmaller = true)
    (hsmall : (isLong = true ∧ v.oiLong < v.oiShort) ∨ (isLong = false ∧ v.oiShort < v.oiLong)) :
    borrowingFactorPerSecond W U c sp isLong v = .ok 0 ∨
    (isLong = true ∧ 2 ^ W ≤ v.oiTokens * v.idxMax ∧ borrowingFactorPerSecond W U c sp isLong v = .error .ovf) := by
  rcases hsmall with ⟨rfl, h⟩ | ⟨rfl, h⟩
  · by_cases hfit : v.oiTokens * v.idxMax < 2 ^ W
    · exact Or.inl ((fps_zero_cases_long (W := W) (U := U) (c := c) (sp := sp) (v := v)).2 hskip h hfit)
    · right
      refine ⟨rfl, by omega, ?_⟩
      unfold borrowingFactorPerSecond checkedMul toU
      simp [hfit]
  · exact Or.inl ((fps_zero_cases (W := W) (U := U) (c := c) (sp := sp) (v := v)).2 hskip h)

/-- a position's pending borrowing fee is a natural number (never negative): it is the exact
value when the factors are ordered and the value fits, and an error when the position's factor exceeds the cumulative one (the does-not-fit
direction is not stated) — for reachable states the latter cannot happen (`totalBorrowing_exact`). -/
theorem position_fee_spec (W U size posBf latest : Nat) :
    (posBf ≤ latest → U ≠ 0 → size * (latest - posBf) / U < 2 ^ W →
      pendingBorrowingFeeValue W U size posBf latest = .ok (size * (latest - posBf) / U)) ∧
    (latest < posBf → pendingBorrowingFeeValue W U size posBf latest = .error .comp) := by
  unfold pendingBorrowingFeeValue checkedSub
  constructor
  · intro h hU hf
    simp only [h, if_true]
    have : applyFactor W U size (latest - posBf) = some (size * (latest - posBf) / U) :=
      (C01.mulDiv_spec _ _ _ _ _).2 ⟨hU, rfl, hf⟩
    rw [this]; rfl
  · intro h
    have : ¬ posBf ≤ latest := by omega
    simp [this]

/-! ### Non-vacuity -/
example : (BorrowSys.init.run 64 (10 ^ 9) [.add, .settle 0 (5 * 10 ^ 12), .update 3120, .add, .settle 1 (2 * 10 ^ 12),
    .update 500, .settle 0 (10 ^ 12)]) = ⟨3620, 3620000 + 6240000, [(10 ^ 12, 3620), (2 * 10 ^ 12, 3120)]⟩ := by decide
example : updateTotalBorrowing 64 (10 ^ 9) (5 * 10 ^ 12) 3120 (10 ^ 12) 3620 21840000 = .ok 9860000 := by decide
example : kinkFactor 64 (10 ^ 9) ⟨true, 10 ^ 9, true⟩ ⟨10 ^ 9, 0, 750000000, 19, 47, 0⟩ 0 (9 * 10 ^ 11) (10 ^ 12)
    = .ok (some (17 + 28 * 150000000 / 250000000)) := by rfl

/-! #### audit additions -/
/-- `nextCumulativeBorrowingFactor … = .ok` with a non-zero delta (long side, kink model above
the optimal usage: 23 per second · 100 s): hypothesis of `cumFactor_monotone`. -/
example : nextCumulativeBorrowingFactor 64 (10 ^ 9) ⟨true, 10 ^ 9, true⟩ ⟨10 ^ 9, 0, 750000000, 19, 47, 0⟩ true
    ⟨3 * 10 ^ 12, 10 ^ 12, 1500 * 10 ^ 6, 2 * 10 ^ 9, 2200, 2000⟩ 3620 100 = .ok (5920, 2300) := by decide +kernel
example : 5920 = 3620 + 2300 ∧ 3620 ≤ 5920 :=
  cumFactor_monotone (W := 64) (U := 10 ^ 9) (c := ⟨true, 10 ^ 9, true⟩) (sp := ⟨10 ^ 9, 0, 750000000, 19, 47, 0⟩)
    (isLong := true) (v := ⟨3 * 10 ^ 12, 10 ^ 12, 1500 * 10 ^ 6, 2 * 10 ^ 9, 2200, 2000⟩) (dur := 100) (by decide +kernel)
/-- `updateBorrowing … = .ok` raising BOTH sides (no skipping of the smaller side):
hypothesis of `update_monotone`. -/
example : updateBorrowing 64 (10 ^ 9) ⟨false, 10 ^ 9, true⟩ ⟨10 ^ 9, 0, 750000000, 19, 47, 0⟩ ⟨10 ^ 9, 0, 750000000, 19, 47, 0⟩
    ⟨3 * 10 ^ 12, 10 ^ 12, 1500 * 10 ^ 6, 2 * 10 ^ 9, 2200, 2000⟩ ⟨3 * 10 ^ 12, 10 ^ 12, 0, 4 * 10 ^ 12, 1, 1⟩ true 3620 777 100
    = .ok (5920, 1177) := by decide +kernel
example : 3620 ≤ 5920 ∧ 777 ≤ 1177 :=
  update_monotone (W := 64) (U := 10 ^ 9) (c := ⟨false, 10 ^ 9, true⟩) (spL := ⟨10 ^ 9, 0, 750000000, 19, 47, 0⟩)
    (spS := ⟨10 ^ 9, 0, 750000000, 19, 47, 0⟩) (vL := ⟨3 * 10 ^ 12, 10 ^ 12, 1500 * 10 ^ 6, 2 * 10 ^ 9, 2200, 2000⟩)
    (vS := ⟨3 * 10 ^ 12, 10 ^ 12, 0, 4 * 10 ^ 12, 1, 1⟩) (pv := true) (dur := 100) (by decide +kernel)
/-- `updateTotalBorrowing_spec` instantiated on a DECREASE of the position (negative delta). -/
example : ((9860000 : Nat) : Int) = (21840000 : Nat) + ((10 ^ 12 * 3620 / 10 ^ 9 : Nat) : Int) - ((5 * 10 ^ 12 * 3120 / 10 ^ 9 : Nat) : Int) :=
  updateTotalBorrowing_spec (W := 64) (by decide)
/-- the invariant holds, non-trivially, on the state reached by the run of the first example
(two open positions with different factors below the cumulative one). -/
example : BorrowSys.Inv (10 ^ 9) ⟨3620, 9860000, [(10 ^ 12, 3620), (2 * 10 ^ 12, 3120)]⟩ := by
  refine ⟨by decide, fun x hx => ?_⟩
  simp only [List.mem_cons, List.not_mem_nil, or_false] at hx
  rcases hx with rfl | rfl <;> decide
/-- ... and it is NOT trivially true: a wrong total violates it. -/
example : ¬ BorrowSys.Inv (10 ^ 9) ⟨3620, 9860001, [(10 ^ 12, 3620), (2 * 10 ^ 12, 3120)]⟩ := by
  intro h; exact absurd h.1 (by decide)
/-- `inv_step` / `cum_monotone_history` on that state: a further update and a close. -/
example : (BorrowSys.step 64 (10 ^ 9) ⟨3620, 9860000, [(10 ^ 12, 3620), (2 * 10 ^ 12, 3120)]⟩ (.settle 1 0))
    = ⟨3620, 3620000, [(10 ^ 12, 3620), (0, 3620)]⟩ := by decide
/-- `pending_nonneg` instantiated on the reached state (OI `3·10^12`, next factor 5920). -/
example : 9860000 ≤ 3 * 10 ^ 12 * 5920 / 10 ^ 9 :=
  pending_nonneg (U := 10 ^ 9) (s := ⟨3620, 9860000, [(10 ^ 12, 3620), (2 * 10 ^ 12, 3120)]⟩) (oi := 3 * 10 ^ 12) (F := 5920)
    ⟨by decide, fun x hx => by
      simp only [List.mem_cons, List.not_mem_nil, or_false] at hx
      rcases hx with rfl | rfl <;> decide⟩ (by decide) (by decide)
/-- ALL hypotheses of `pending_defined` at once, for the non-trivial history of the first
example and the long-side view above: pending fees `17760000 − 9860000 = 7900000`. -/
example : totalPendingBorrowingFees 64 (10 ^ 9) ⟨true, 10 ^ 9, true⟩ ⟨10 ^ 9, 0, 750000000, 19, 47, 0⟩ true
    ⟨3 * 10 ^ 12, 10 ^ 12, 1500 * 10 ^ 6, 2 * 10 ^ 9, 2200, 2000⟩ 3620 100 9860000 = .ok 7900000 := by decide +kernel
example : True := by
  have h := pending_defined (W := 64) (U := 10 ^ 9) (c := ⟨true, 10 ^ 9, true⟩) (sp := ⟨10 ^ 9, 0, 750000000, 19, 47, 0⟩)
    (isLong := true) (v := ⟨3 * 10 ^ 12, 10 ^ 12, 1500 * 10 ^ 6, 2 * 10 ^ 9, 2200, 2000⟩) (dur := 100) (nx := 5920) (d := 2300)
    [.add, .settle 0 (5 * 10 ^ 12), .update 3120, .add, .settle 1 (2 * 10 ^ 12), .update 500, .settle 0 (10 ^ 12)]
    (by decide +kernel) (by decide +kernel) (by decide) (by decide +kernel)
  obtain ⟨_, _⟩ := h
  trivial
/-- `kink_spec` at or below the optimal usage (no additional slope), and the disabled model. -/
example : kinkFactor 64 (10 ^ 9) ⟨true, 10 ^ 9, true⟩ ⟨10 ^ 9, 0, 750000000, 19, 47, 0⟩ 0 (5 * 10 ^ 11) (10 ^ 12)
    = .ok (some 9) ∧
    kinkFactor 64 (10 ^ 9) ⟨true, 10 ^ 9, true⟩ ⟨10 ^ 9, 0, 0, 19, 47, 0⟩ 0 (5 * 10 ^ 11) (10 ^ 12) = .ok none := by
  constructor <;> rfl
/-- `fps_zero_cases` / `fps_zero_cases_long`: the premises are satisfiable (short side smaller;
long side smaller), and the long-side overflow case excluded by the extra premise is an error. -/
example : borrowingFactorPerSecond 64 (10 ^ 9) ⟨true, 10 ^ 9, true⟩ ⟨10 ^ 9, 0, 750000000, 19, 47, 0⟩ false
    ⟨3 * 10 ^ 12, 10 ^ 12, 1500 * 10 ^ 6, 2 * 10 ^ 9, 2200, 2000⟩ = .ok 0 :=
  fps_zero_cases.2 rfl (by decide)
example : borrowingFactorPerSecond 64 (10 ^ 9) ⟨true, 10 ^ 9, true⟩ ⟨10 ^ 9, 0, 750000000, 19, 47, 0⟩ true
    ⟨10 ^ 12, 3 * 10 ^ 12, 1500 * 10 ^ 6, 2 * 10 ^ 9, 2200, 2000⟩ = .ok 0 :=
  fps_zero_cases_long.2 rfl (by decide) (by decide)
example : borrowingFactorPerSecond 64 (10 ^ 9) ⟨true, 10 ^ 9, true⟩ ⟨10 ^ 9, 0, 750000000, 19, 47, 0⟩ true
    ⟨1, 2, 2 ^ 63, 1, 2, 1⟩ = .error .ovf := by decide +kernel
/-- `position_fee_spec`: both branches on concrete numbers. -/
example : pendingBorrowingFeeValue 64 (10 ^ 9) (2 * 10 ^ 12) 3120 5920 = .ok 5600000 ∧
    pendingBorrowingFeeValue 64 (10 ^ 9) (2 * 10 ^ 12) 5920 3120 = .error .comp := by decide
example : pendingBorrowingFeeValue 64 (10 ^ 9) (2 * 10 ^ 12) 3120 5920 = .ok (2 * 10 ^ 12 * (5920 - 3120) / 10 ^ 9) :=
  (position_fee_spec 64 (10 ^ 9) (2 * 10 ^ 12) 3120 5920).1 (by decide) (by decide) (by decide)

end Gmx.C13
