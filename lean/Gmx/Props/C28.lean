import Gmx.Lemmas.Chainlink
import Gmx.Lemmas.PriceDecimal
/-!
# C28 — Chainlink reports are decoded safely and converted faithfully (external decoders searched)

`decodeFullReport` = `decode_full_report` with every slice bounds-checked (`panic` branch);
`fromReport` = `PriceFeedPrice::from_chainlink_report` on the decoded fields.
NOT modelled (searched by the harness only): `snap` decompression, `ReportDataV*::decode`,
`num_bigint` conversions.
-/
namespace Gmx.C28
open Gmx Gmx.Chainlink

/-- the decoder equals a function without any partial operation … -/
theorem decode_eq (p : List Nat) : decodeFullReport p = decodeSpec p := decode_eq_spec p

/-- … so **no byte string makes `decode_full_report` index out of range** (all crafted offsets
and lengths included). -/
theorem decode_total (p : List Nat) : decodeFullReport p ≠ .error .panic := by
  rw [decode_eq]; unfold decodeSpec
  intro h
  simp only at h
  split at h
  · cases h
  · split at h
    · cases h
    · split at h
      · cases h
      · split at h
        · cases h
        · split at h
          · cases h
          · split at h
            · cases h
            · split at h
              · cases h
              · split at h <;> cases h

/-- a successful decode: the upper 24 bytes of the offset word and of the length word are zero,
the blob is `payload[off+32 .. off+32+len]` with `off`, `len` the low 8 bytes of the words,
everything inside the payload; the context is the first three words. -/
theorem decode_slice_spec {p : List Nat} {ctx : List (List Nat)} {blob : List Nat}
    (h : decodeFullReport p = .ok (ctx, blob)) :
    let off := be ((p.drop 120).take 8)
    let len := be ((p.drop (off + 24)).take 8)
    128 ≤ p.length ∧ 128 ≤ off ∧ off + 32 + len ≤ p.length ∧
    blob = (p.drop (off + 32)).take len ∧ blob.length = len ∧
    ctx = [p.take 32, (p.drop 32).take 32, (p.drop 64).take 32] ∧
    (p.drop 96).take 24 = List.replicate 24 0 ∧ (p.drop off).take 24 = List.replicate 24 0 := by
  rw [decode_eq] at h; unfold decodeSpec at h
  simp only at h ⊢
  split at h
  · cases h
  · split at h
    · cases h
    · rename_i hu
      split at h
      · cases h
      · split at h
        · cases h
        · split at h
          · cases h
          · split at h
            · cases h
            · rename_i hl
              split at h
              · cases h
              · split at h
                · cases h
                · cases h
                  have z1 := all_zero_eq_replicate _ (by simpa using hu)
                  have z2 := all_zero_eq_replicate _ (by simpa using hl)
                  rw [List.length_take, List.length_drop] at z1 z2
                  refine ⟨by omega, by omega, by omega, rfl, ?_, rfl, ?_, ?_⟩
                  · simp only [List.length_take, List.length_drop]; omega
                  · rw [show min 24 (p.length - 96) = 24 by omega] at z1; exact z1
                  · rw [Nat.min_eq_left (by omega)] at z2; exact z2

/-- conversely every payload meeting those bounds (and with zero upper bytes) decodes. -/
theorem decode_ok_of_bounds (p : List Nat) (h0 : 128 ≤ p.length)
    (hz1 : (p.drop 96).take 24 = List.replicate 24 0)
    (h1 : 128 ≤ be ((p.drop 120).take 8))
    (hz2 : (p.drop (be ((p.drop 120).take 8))).take 24 = List.replicate 24 0)
    (h2 : be ((p.drop 120).take 8) + 32 +
      be ((p.drop (be ((p.drop 120).take 8) + 24)).take 8) ≤ p.length) (h3 : p.length < 2 ^ 64) :
    ∃ ctx blob, decodeFullReport p = .ok (ctx, blob) := by
  rw [decode_eq]; unfold decodeSpec
  simp only
  have a1 : ((p.drop 96).take 24).any (· != 0) = false := by rw [hz1]; decide
  have a2 : ((p.drop (be ((p.drop 120).take 8))).take 24).any (· != 0) = false := by rw [hz2]; decide
  rw [if_neg (by omega), if_neg (by simp [a1]), if_neg (by omega), if_neg (by omega), if_neg (by omega),
    if_neg (by simp [a2]), if_neg (by omega), if_neg (by omega)]
  exact ⟨_, _, rfl⟩

/-- **When decoding succeeds the blob is exactly the ABI-described slice of the payload**: the
offset and length are the full 32-byte ABI words (since /repo 3d0a82d non-zero upper bytes are
rejected, so no hypothesis is needed). -/
theorem decode_abi_slice {p : List Nat} {ctx : List (List Nat)} {blob : List Nat}
    (h : decodeFullReport p = .ok (ctx, blob)) :
    abiOffset p + 32 + abiLength p (abiOffset p) ≤ p.length ∧
    blob = (p.drop (abiOffset p + 32)).take (abiLength p (abiOffset p)) := by
  obtain ⟨_, _, h3, h4, _, _, hoff, hlen⟩ := decode_slice_spec h
  have e1 : abiOffset p = be ((p.drop 120).take 8) := be_word_low p 96 hoff
  have e2 : abiLength p (abiOffset p) = be ((p.drop (abiOffset p + 24)).take 8) :=
    be_word_low p (abiOffset p) (by rw [e1]; exact hlen)
  rw [e2, e1]
  exact ⟨h3, h4⟩

/-- the former F-C28 witness (offset word `ff…ff 0000000000000080`) is now rejected … -/
theorem decode_upper_offset_rejected :
    decodeSpec (List.replicate 96 0 ++ (List.replicate 24 255 ++ [0, 0, 0, 0, 0, 0, 0, 128]) ++
      ([1] ++ List.replicate 23 0 ++ [0, 0, 0, 0, 0, 0, 0, 4]) ++ [1, 2, 3, 4]) = .error .offset := by
  decide +kernel

/-- … and so is a non-zero upper byte in the length word alone. -/
theorem decode_upper_length_rejected :
    decodeSpec (List.replicate 96 0 ++ (List.replicate 24 0 ++ [0, 0, 0, 0, 0, 0, 0, 128]) ++
      ([128] ++ List.replicate 23 0 ++ [0, 0, 0, 0, 0, 0, 0, 1]) ++ [238]) = .error .bytesData := by
  decide +kernel

/-- the in-repo head of `report::decode` (feed id, version, dispatch) indexes in range for every
byte string, rejects short data, and dispatches on the big-endian u16 in the first two bytes. -/
theorem decodeHead_spec (p : List Nat) :
    (p.length < 32 → decodeHead p = some .short) ∧
    (32 ≤ p.length → decodeHead p =
      some (if be (p.take 2) = 2 ∨ be (p.take 2) = 3 ∨ be (p.take 2) = 7 ∨ be (p.take 2) = 8 ∨ be (p.take 2) = 11
        then .supported (be (p.take 2)) else .unsupported (be (p.take 2)))) := by
  unfold decodeHead
  constructor
  · intro h; rw [if_pos h]
  · intro h
    rw [if_neg (by omega), slice_eq (by omega) (by omega)]
    simp only [List.drop_zero, Nat.sub_zero]
    rw [slice_eq (by omega) (by simp; omega)]
    simp only [List.drop_zero, Nat.sub_zero, List.take_take]
    rw [show min 2 32 = 2 by decide]
    split <;> rfl

theorem decodeHead_total (p : List Nat) : decodeHead p ≠ none := by
  by_cases h : p.length < 32
  · rw [(decodeHead_spec p).1 h]; exact fun e => nomatch e
  · rw [(decodeHead_spec p).2 (by omega)]; exact fun e => nomatch e

/-- status decoding tables (v8 coarse → extended, v11 extended) agree with what the conversion
model `repOfVersion` assumes; 192-bit magnitudes always convert, larger ones are rejected. -/
theorem status_and_number_tables :
    (∀ s : Fin 8, (decodeMarketStatus s.val).map coarseToExtended =
      (if s.val = 0 then some 0 else if s.val = 1 then some 5 else if s.val = 2 then some 2 else none)) ∧
    (∀ s : Fin 8, decodeExtendedMarketStatus s.val = if s.val ≤ 5 then some s.val else none) ∧
    (∀ z : Int, z.natAbs < 2 ^ 192 → bigintToSigned z = some (decide (0 ≤ z), z.natAbs)) ∧
    (∀ z : Int, 2 ^ 192 ≤ z.natAbs → bigintToSigned z = none) := by
  refine ⟨by decide, by decide, ?_, ?_⟩
  · intro z h; unfold bigintToSigned biguintToU192; rw [if_pos h]; rfl
  · intro z h; unfold bigintToSigned biguintToU192; rw [if_neg (by omega)]; rfl

/-- negative price / bid / ask are rejected. -/
theorem fromReport_rejects_negative (r : Rep)
    (h : r.price.1 = false ∨ r.bid.1 = false ∨ r.ask.1 = false) :
    fromReport r = .error .negPrice ∨ fromReport r = .error .negBid ∨ fromReport r = .error .negAsk := by
  unfold fromReport
  cases hp : r.price.1 <;> cases hb : r.bid.1 <;> cases ha : r.ask.1 <;> simp_all

/-- misordered bid / price / ask are rejected. -/
theorem fromReport_rejects_misordered (r : Rep) (h : r.ask.2 < r.price.2 ∨ r.price.2 < r.bid.2) (f : Feed) :
    fromReport r ≠ .ok f := by
  unfold fromReport
  intro hf
  split at hf
  · cases hf
  · split at hf
    · cases hf
    · split at hf
      · cases hf
      · split at hf
        · cases hf
        · split at hf
          · cases hf
          · omega

/-- **faithful conversion**: all three prices are non-negative and ordered, are divided by the
SAME power of ten `10^dd` (`dd ≤ 18` the divisor decimals of the ask), the decimals drop by `dd`,
the order `bid ≤ price ≤ ask` is preserved, and everything fits `u128`. -/
theorem fromReport_ok_spec {r : Rep} {f : Feed} (h : fromReport r = .ok f) :
    r.price.1 = true ∧ r.bid.1 = true ∧ r.ask.1 = true ∧ r.bid.2 ≤ r.price.2 ∧ r.price.2 ≤ r.ask.2 ∧
    PriceDecimal.findDivisorDecimals r.ask.2 ≤ 18 ∧
    f.decimals = 18 - PriceDecimal.findDivisorDecimals r.ask.2 ∧
    f.price = r.price.2 / 10 ^ PriceDecimal.findDivisorDecimals r.ask.2 ∧
    f.min = r.bid.2 / 10 ^ PriceDecimal.findDivisorDecimals r.ask.2 ∧
    f.max = r.ask.2 / 10 ^ PriceDecimal.findDivisorDecimals r.ask.2 ∧
    f.min ≤ f.price ∧ f.price ≤ f.max ∧ f.max < 2 ^ 128 ∧ f.ts = r.obsTs ∧
    f.status = (match r.extStatus with | none => 0 | some s => s + 1) := by
  unfold fromReport at h
  split at h
  · cases h
  · rename_i h1
    split at h
    · cases h
    · rename_i h2
      split at h
      · cases h
      · rename_i h3
        split at h
        · cases h
        · rename_i h4
          split at h
          · cases h
          · rename_i h5
            split at h
            · cases h
            · rename_i h6
              cases hl : ludOf r with
              | error e => rw [hl] at h; simp only [mkFeed] at h; cases h
              | ok v =>
                obtain ⟨d?, isOpen⟩ := v
                rw [hl] at h
                cases hp : toU128 (r.price.2 / 10 ^ PriceDecimal.findDivisorDecimals r.ask.2) with
                | none => rw [hp] at h; simp only [mkFeed] at h; cases h
                | some pp =>
                  cases hb : toU128 (r.bid.2 / 10 ^ PriceDecimal.findDivisorDecimals r.ask.2) with
                  | none => rw [hp, hb] at h; simp only [mkFeed] at h; cases h
                  | some bb =>
                    cases ha : toU128 (r.ask.2 / 10 ^ PriceDecimal.findDivisorDecimals r.ask.2) with
                    | none => rw [hp, hb, ha] at h; simp only [mkFeed] at h; cases h
                    | some aa =>
                      rw [hp, hb, ha] at h; simp only [mkFeed] at h; cases h
                      unfold toU128 at hp hb ha
                      split at hp <;> cases hp
                      split at hb <;> cases hb
                      split at ha <;> cases ha
                      refine ⟨by simpa using h1, by simpa using h2, by simpa using h3, by omega, by omega,
                        by omega, rfl, rfl, rfl, rfl, ?_, ?_, by assumption, rfl, rfl⟩
                      · exact Nat.div_le_div_right (by omega)
                      · exact Nat.div_le_div_right (by omega)

/-- the `try_into().unwrap()`s cannot fail: with a 192-bit ask the conversion never panics. -/
theorem fromReport_no_panic (r : Rep) (ha : r.ask.2 < 2 ^ 192) : fromReport r ≠ .error .panic := by
  unfold fromReport
  intro hf
  split at hf
  · cases hf
  · split at hf
    · cases hf
    · split at hf
      · cases hf
      · split at hf
        · cases hf
        · rename_i h4
          split at hf
          · cases hf
          · rename_i h5
            split at hf
            · cases hf
            · obtain ⟨_, hfit, _⟩ := PriceDecimal.findDivisor_spec' r.ask.2 ha
              have h1 : r.price.2 / 10 ^ PriceDecimal.findDivisorDecimals r.ask.2 ≤
                  r.ask.2 / 10 ^ PriceDecimal.findDivisorDecimals r.ask.2 := Nat.div_le_div_right (by omega)
              have h2 : r.bid.2 / 10 ^ PriceDecimal.findDivisorDecimals r.ask.2 ≤
                  r.ask.2 / 10 ^ PriceDecimal.findDivisorDecimals r.ask.2 := Nat.div_le_div_right (by omega)
              have e1 : ∀ n, n < 2 ^ 128 → toU128 n = some n := fun n hn => by unfold toU128; rw [if_pos hn]
              rw [e1 _ (by omega), e1 _ (by omega), e1 _ hfit] at hf
              cases hl : ludOf r with
              | error e =>
                rw [hl] at hf; simp only [mkFeed] at hf; cases hf
                exact ludOf_ne_panic r hl
              | ok v => obtain ⟨d?, o⟩ := v; rw [hl] at hf; simp only [mkFeed] at hf; cases hf

/-- last-update difference: for a `u32` observation timestamp the nanosecond product never
overflows, the "too old ⇒ closed" branch is never taken, and the stored seconds are the
difference rounded UP (0 when the last update is less than a second ahead). -/
theorem lastUpdateDiff_spec {obs lu d : Nat} {o : Bool} (hobs : obs < 2 ^ 32)
    (h : lastUpdateDiff obs lu = .ok (d, o)) :
    o = true ∧ d < 2 ^ 32 ∧
    (lu ≤ obs * 1000000000 → obs * 1000000000 - lu ≤ d * 1000000000 ∧
      d * 1000000000 < obs * 1000000000 - lu + 1000000000) ∧
    (obs * 1000000000 < lu → lu - obs * 1000000000 < 1000000000 ∧ d = 0) := by
  unfold lastUpdateDiff at h
  rw [if_neg (by omega)] at h
  have hb := divCeilNs_bounds (obs * 1000000000 - lu)
  by_cases h1 : lu ≤ obs * 1000000000
  · rw [if_pos h1] at h
    by_cases h2 : divCeilNs (obs * 1000000000 - lu) < 4294967296
    · rw [if_pos h2] at h; cases h
      exact ⟨rfl, by omega, fun _ => hb, fun hc => by omega⟩
    · exfalso; omega
  · rw [if_neg h1] at h
    by_cases h2 : lu - obs * 1000000000 ≥ 1000000000
    · rw [if_pos h2] at h; cases h
    · rw [if_neg h2] at h; cases h
      exact ⟨rfl, Nat.two_pow_pos 32, fun hc => absurd hc h1, fun _ => ⟨by omega, rfl⟩⟩

/-- a last update a second or more "from the future" is rejected. -/
theorem lastUpdateDiff_ahead {obs lu : Nat} (hobs : obs < 2 ^ 32)
    (h : obs * 1000000000 + 1000000000 ≤ lu) :
    lastUpdateDiff obs lu = .error .lastUpdateAhead := by
  unfold lastUpdateDiff
  rw [if_neg (by omega), if_neg (by omega), if_pos (by omega)]

/-! ### Non-vacuity -/
-- a well-formed payload decodes (so `decode_abi_slice` is not vacuous)
example : decodeSpec (List.replicate 96 34 ++ (List.replicate 24 0 ++ [0, 0, 0, 0, 0, 0, 0, 128]) ++
    (List.replicate 24 0 ++ [0, 0, 0, 0, 0, 0, 0, 4]) ++ [10, 11, 12, 13]) =
  .ok ([List.replicate 32 34, List.replicate 32 34, List.replicate 32 34], [10, 11, 12, 13]) := by decide +kernel
example : fromReport ⟨(true, 50000 * 10 ^ 18), (true, 49900 * 10 ^ 18), (true, 50100 * 10 ^ 18), 1000,
    some 1000000000000, some 2⟩ =
  .ok ⟨18, 1000, 50000 * 10 ^ 18, 49900 * 10 ^ 18, 50100 * 10 ^ 18, 0, 7, 3⟩ := by decide
example : fromReport ⟨(true, 2 ^ 130), (true, 2 ^ 129), (true, 2 ^ 131), 5, none, none⟩ =
  .ok ⟨17, 5, 2 ^ 130 / 10, 2 ^ 129 / 10, 2 ^ 131 / 10, 0, 1, 0⟩ := by decide
example : fromReport ⟨(false, 1), (true, 1), (true, 1), 0, none, none⟩ = .error .negPrice := by decide
example : fromReport ⟨(true, 2), (true, 3), (true, 4), 0, none, none⟩ = .error .priceLtBid := by decide
example : fromReport ⟨(true, 2 ^ 191), (true, 1), (true, 2 ^ 191), 0, none, none⟩ = .error .divisorOverflow := by decide
example : lastUpdateDiff 1000 999999999999 = .ok (1, true) := by decide

/-! ### Non-vacuity added by the audit (B6): the theorems instantiated on concrete inputs -/
/-- a well-formed 164-byte payload: context `0x22…`, offset word 128, length word 4, blob `0a0b0c0d` -/
local notation "exPayload" =>
  (List.replicate 96 34 ++ (List.replicate 24 0 ++ [0, 0, 0, 0, 0, 0, 0, 128]) ++
    (List.replicate 24 0 ++ [0, 0, 0, 0, 0, 0, 0, 4]) ++ [10, 11, 12, 13] : List Nat)
-- the hypothesis of `decode_slice_spec` / `decode_abi_slice`, on `decodeFullReport` itself
example : decodeFullReport exPayload =
    .ok ([List.replicate 32 34, List.replicate 32 34, List.replicate 32 34], [10, 11, 12, 13]) := by
  rw [decode_eq]; decide +kernel
-- `decode_abi_slice` instantiated: the blob is the ABI slice `payload[160 .. 164]`
example : abiOffset exPayload + 32 + abiLength exPayload (abiOffset exPayload) ≤ (exPayload).length ∧
    [10, 11, 12, 13] = ((exPayload).drop (abiOffset exPayload + 32)).take (abiLength exPayload (abiOffset exPayload)) :=
  decode_abi_slice (p := exPayload) (ctx := [List.replicate 32 34, List.replicate 32 34, List.replicate 32 34])
    (blob := [10, 11, 12, 13]) (by rw [decode_eq]; decide +kernel)
example : abiOffset exPayload = 128 ∧ abiLength exPayload 128 = 4 := by decide +kernel
-- `decode_slice_spec` instantiated (blob length and the bounds)
example : ([10, 11, 12, 13] : List Nat).length = be (((exPayload).drop (be (((exPayload).drop 120).take 8) + 24)).take 8) :=
  (decode_slice_spec (p := exPayload) (ctx := [List.replicate 32 34, List.replicate 32 34, List.replicate 32 34])
    (blob := [10, 11, 12, 13]) (by rw [decode_eq]; decide +kernel)).2.2.2.2.1
-- `decode_ok_of_bounds`: all six hypotheses hold together on the same payload
example : ∃ ctx blob, decodeFullReport exPayload = .ok (ctx, blob) :=
  decode_ok_of_bounds exPayload (by decide +kernel) (by decide +kernel) (by decide +kernel) (by decide +kernel)
    (by decide +kernel) (by decide +kernel)
-- `decode_total` is about every error too: short input and a crafted huge offset stay in the error type
example : decodeFullReport [1, 2, 3] = .error .tooShort := by rw [decode_eq]; decide +kernel
example : decodeFullReport (List.replicate 120 0 ++ List.replicate 8 255) = .error .offsetOverflow := by
  rw [decode_eq]; decide +kernel
-- `decodeHead_spec`: short, supported (v3, v11) and unsupported (v4) heads
example : decodeHead [0, 3] = some .short ∧
    decodeHead ([0, 3] ++ List.replicate 30 7) = some (.supported 3) ∧
    decodeHead ([0, 11] ++ List.replicate 30 7) = some (.supported 11) ∧
    decodeHead ([0, 4] ++ List.replicate 30 7) = some (.unsupported 4) ∧
    decodeHead ([1, 3] ++ List.replicate 30 7) = some (.unsupported 259) := by decide +kernel
example : decodeHead [0, 3] = some .short := (decodeHead_spec [0, 3]).1 (by decide)
-- `status_and_number_tables`: signed conversion on a negative number and at the 192-bit edge
example : bigintToSigned (-5) = some (false, 5) ∧ bigintToSigned (2 ^ 192 - 1) = some (true, 2 ^ 192 - 1) ∧
    bigintToSigned (-(2 ^ 192)) = none := by decide
example : bigintToSigned (-5) = some (decide ((0 : Int) ≤ -5), (-5 : Int).natAbs) :=
  status_and_number_tables.2.2.1 (-5) (by decide)
-- `fromReport_rejects_negative` / `fromReport_rejects_misordered` (each disjunct of the hypotheses)
example : fromReport ⟨(true, 3), (false, 1), (true, 4), 0, none, none⟩ = .error .negBid ∧
    fromReport ⟨(true, 3), (true, 1), (false, 4), 0, none, none⟩ = .error .negAsk ∧
    fromReport ⟨(true, 5), (true, 1), (true, 4), 0, none, none⟩ = .error .askLtPrice := by decide
example : fromReport ⟨(true, 5), (true, 1), (true, 4), 0, none, none⟩ ≠ .ok ⟨18, 0, 5, 1, 4, 0, 1, 0⟩ :=
  fromReport_rejects_misordered ⟨(true, 5), (true, 1), (true, 4), 0, none, none⟩ (Or.inl (by decide)) _
-- `fromReport_ok_spec` instantiated on the scaled report (`dd = 1`): same divisor for all three
example : (2 ^ 130 / 10 : Nat) = 2 ^ 130 / 10 ^ PriceDecimal.findDivisorDecimals (2 ^ 131) ∧
    (2 ^ 129 / 10 : Nat) ≤ 2 ^ 130 / 10 :=
  have h := fromReport_ok_spec (r := ⟨(true, 2 ^ 130), (true, 2 ^ 129), (true, 2 ^ 131), 5, none, none⟩)
    (f := ⟨17, 5, 2 ^ 130 / 10, 2 ^ 129 / 10, 2 ^ 131 / 10, 0, 1, 0⟩) (by decide)
  ⟨h.2.2.2.2.2.2.2.1, h.2.2.2.2.2.2.2.2.2.2.1⟩
-- `fromReport_no_panic`: a 192-bit ask (here the divisor check rejects instead)
example : fromReport ⟨(true, 2 ^ 191), (true, 1), (true, 2 ^ 191), 0, none, none⟩ ≠ .error .panic :=
  fromReport_no_panic _ (by decide)
-- `lastUpdateDiff_spec`: last update behind (rounded up), exactly equal, and < 1 s ahead
example : lastUpdateDiff 1000 999999999999 = .ok (1, true) ∧ lastUpdateDiff 1000 997500000000 = .ok (3, true) ∧
    lastUpdateDiff 1000 1000000000000 = .ok (0, true) ∧ lastUpdateDiff 1000 1000999999999 = .ok (0, true) := by
  decide
example : 1000 * 1000000000 - 997500000000 ≤ 3 * 1000000000 ∧
    3 * 1000000000 < 1000 * 1000000000 - 997500000000 + 1000000000 :=
  (lastUpdateDiff_spec (obs := 1000) (lu := 997500000000) (d := 3) (o := true) (by decide) (by decide)).2.2.1
    (by decide)
example : 1000999999999 - 1000 * 1000000000 < 1000000000 ∧ (0 : Nat) = 0 :=
  (lastUpdateDiff_spec (obs := 1000) (lu := 1000999999999) (d := 0) (o := true) (by decide) (by decide)).2.2.2
    (by decide)
-- `lastUpdateDiff_ahead`: one full second ahead is rejected; the largest u32 timestamp does not overflow
example : lastUpdateDiff 1000 1001000000000 = .error .lastUpdateAhead :=
  lastUpdateDiff_ahead (by decide) (by decide)
example : lastUpdateDiff (2 ^ 32 - 1) 0 = .ok (2 ^ 32 - 1, true) := by decide
-- model only (outside u32): the "too old ⇒ closed" and u64-overflow branches that `lastUpdateDiff_spec` excludes
example : lastUpdateDiff (2 ^ 32) 0 = .ok (4294967295, false) ∧
    lastUpdateDiff (2 ^ 35) 0 = .error .obsOverflow := by decide

/-- AUDIT (B6), new — the part of the conversion `fromReport_ok_spec` is silent about: the stored
**last-update difference and the flag byte**. Without a last-update field only the open flag is
set (`flags = 1`) and the `getD 0` default is what `diff` holds; with one, `diff`/open flag are
exactly those of `lastUpdateDiff` and both tracking flags (enabled, seconds) are set. -/
theorem fromReport_ok_tracking {r : Rep} {f : Feed} (h : fromReport r = .ok f) :
    (r.lastUpdateNs = none → f.flags = 1 ∧ f.diff = 0) ∧
    (∀ lu, r.lastUpdateNs = some lu →
      ∃ d o, lastUpdateDiff r.obsTs lu = .ok (d, o) ∧ f.diff = d ∧ f.flags = (if o then 1 else 0) + 6) := by
  have key : ∃ d? o, ludOf r = .ok (d?, o) ∧ f.diff = d?.getD 0 ∧
      f.flags = (if o then 1 else 0) + (if d?.isSome then 6 else 0) := by
    unfold fromReport at h
    split at h
    · cases h
    split at h
    · cases h
    split at h
    · cases h
    split at h
    · cases h
    split at h
    · cases h
    split at h
    · cases h
    cases hl : ludOf r with
    | error e => rw [hl] at h; simp only [mkFeed] at h; cases h
    | ok v =>
      obtain ⟨d?, isOpen⟩ := v
      rw [hl] at h
      cases hp : toU128 (r.price.2 / 10 ^ PriceDecimal.findDivisorDecimals r.ask.2) with
      | none => rw [hp] at h; simp only [mkFeed] at h; cases h
      | some pp =>
        cases hb : toU128 (r.bid.2 / 10 ^ PriceDecimal.findDivisorDecimals r.ask.2) with
        | none => rw [hp, hb] at h; simp only [mkFeed] at h; cases h
        | some bb =>
          cases ha : toU128 (r.ask.2 / 10 ^ PriceDecimal.findDivisorDecimals r.ask.2) with
          | none => rw [hp, hb, ha] at h; simp only [mkFeed] at h; cases h
          | some aa =>
            rw [hp, hb, ha] at h; simp only [mkFeed] at h; cases h
            exact ⟨d?, isOpen, rfl, rfl, rfl⟩
  obtain ⟨d?, o, hl, hd, hf⟩ := key
  unfold ludOf at hl
  constructor
  · intro hn
    rw [hn] at hl; simp only at hl
    cases hl
    simp [hd, hf]
  · intro lu hs
    rw [hs] at hl; simp only at hl
    cases hld : lastUpdateDiff r.obsTs lu with
    | error e => rw [hld] at hl; simp only [liftLud] at hl; cases hl
    | ok v =>
      obtain ⟨d, o'⟩ := v
      rw [hld] at hl; simp only [liftLud] at hl
      cases hl
      exact ⟨_, _, rfl, by simpa using hd, by simpa using hf⟩

/-- AUDIT (B6): for a `u32` observation timestamp the flag byte is `1` (untracked) or `7` (open +
tracking in seconds) — a converted Chainlink report always carries the open flag, and the stored
difference fits `u32`. -/
theorem fromReport_flags_u32 {r : Rep} {f : Feed} (h : fromReport r = .ok f) (hobs : r.obsTs < 2 ^ 32) :
    (r.lastUpdateNs = none ∧ f.flags = 1 ∧ f.diff = 0) ∨
    (∃ lu, r.lastUpdateNs = some lu ∧ f.flags = 7 ∧ f.diff < 2 ^ 32) := by
  obtain ⟨h1, h2⟩ := fromReport_ok_tracking h
  cases hl : r.lastUpdateNs with
  | none => exact Or.inl ⟨rfl, h1 hl⟩
  | some lu =>
    obtain ⟨d, o, hd, e1, e2⟩ := h2 lu hl
    obtain ⟨ho, hlt, _, _⟩ := lastUpdateDiff_spec hobs hd
    subst ho
    exact Or.inr ⟨lu, rfl, by simpa using e2, by omega⟩
example : (7 : Nat) = 7 ∧ (3 : Nat) < 2 ^ 32 := by
  have h := fromReport_flags_u32
    (r := ⟨(true, 50000 * 10 ^ 18), (true, 49900 * 10 ^ 18), (true, 50100 * 10 ^ 18), 1000, some 997500000000, some 2⟩)
    (f := ⟨18, 1000, 50000 * 10 ^ 18, 49900 * 10 ^ 18, 50100 * 10 ^ 18, 3, 7, 3⟩) (by decide) (by decide)
  rcases h with ⟨hn, _⟩ | ⟨lu, _, h7, hlt⟩
  · cases hn
  · exact ⟨h7, hlt⟩
example : fromReport ⟨(true, 50000 * 10 ^ 18), (true, 49900 * 10 ^ 18), (true, 50100 * 10 ^ 18), 1000,
    some 1001000000000, some 2⟩ = .error .lastUpdateAhead := by decide

end Gmx.C28
