import Gmx.Model.LpStake
import Gmx.Lemmas.LpStake
/-!
# C38 — LP staking rewards follow the APY schedule and unstaking is fair

Model: `Gmx.Model.LpStake`. `exactTotal g T = Σ_{s<T} g (bucket s)` with
`bucket s = min (s / WEEK) 52` is the sum, over each elapsed second, of that second's weekly bucket.
-/
namespace Gmx.C38
open Gmx Gmx.Lp

/-- **APY schedule.** Absent saturation the time-weighted APY is the floor of the per-second average of
the weekly buckets (weeks past the last bucket use the last one). Explicit no-overflow guard: every
bucket is at most `M` and `T · M ≤ u128::MAX` (with the 200% cap `M = 2·10^20` any `T < 1.7·10^18 s`). -/
theorem apy_spec (start now : Int) (g : Nat → Nat) (M : Nat) (h1 : start < now)
    (h2 : now - start ≤ I64MAX) (hM : ∀ i, g i ≤ M) (hguard : (now - start).toNat * M ≤ U128MAX) :
    twApy start now g = some (exactTotal g (now - start).toNat / (now - start).toNat) := by
  rw [twApy_eq start now g h1 h2]
  have hle : exactTotal g (now - start).toNat ≤ (now - start).toNat * M :=
    sumTo_le_mul _ M (fun i => hM _) _
  have hT : (now - start).toNat ≤ U128MAX := by
    unfold I64MAX at h2; unfold U128MAX; omega
  rw [apyAcc_eq g _ (by omega) hT]

/-- In the excluded (saturating) region the result can only be smaller than the exact average. -/
theorem apy_saturated_le (start now : Int) (g : Nat → Nat) (a : Nat) (h1 : start < now)
    (h : twApy start now g = some a) :
    a ≤ exactTotal g (now - start).toNat / (now - start).toNat := by
  by_cases h2 : now - start ≤ I64MAX
  · rw [twApy_eq start now g h1 h2] at h
    cases h
    exact Nat.div_le_div_right (apyAcc_le g _)
  · unfold twApy at h
    have : ¬ now ≤ start := by omega
    have h3 : now - start > I64MAX := by omega
    simp [this, h3] at h

/-- …and never exceeds the largest bucket (so stays within the 200% cap when the buckets do). -/
theorem apy_le_max (start now : Int) (g : Nat → Nat) (M a : Nat) (hM : ∀ i, g i ≤ M)
    (h : twApy start now g = some a) : a ≤ M := by
  by_cases h1 : start < now
  · have hs := apy_saturated_le start now g a h1 h
    have hle : exactTotal g (now - start).toNat ≤ (now - start).toNat * M :=
      sumTo_le_mul _ M (fun i => hM _) _
    have hpos : 0 < (now - start).toNat := by omega
    have : exactTotal g (now - start).toNat / (now - start).toNat ≤ M := by
      apply Nat.div_le_of_le_mul
      exact hle
    omega
  · unfold twApy at h
    have : now ≤ start := by omega
    simp [this] at h
    rw [← h]; exact hM 0

/-- an empty (or negative) window uses bucket 0; the only failure is the `i64` overflow of `now - start`. -/
theorem apy_empty_window (start now : Int) (g : Nat → Nat) (h : now ≤ start) :
    twApy start now g = some (g 0) := by
  simp [twApy, h]

theorem apy_none_iff (start now : Int) (g : Nat → Nat) :
    twApy start now g = none ↔ now - start > I64MAX := by
  unfold twApy
  by_cases h : now ≤ start
  · simp [h]; unfold I64MAX; omega
  · by_cases h3 : now - start > I64MAX <;> simp [h, h3]

/-- `calculate_gt_reward_amount`: two floor multiplications, saturated to `u64`. -/
theorem reward_spec {v p i r : Nat} {d : Int} (h : rewardAmount v d p i = some r) :
    0 ≤ d ∧ r = (if v * p / UNIT * i / UNIT > U64MAX then U64MAX else v * p / UNIT * i / UNIT) := by
  unfold rewardAmount at h
  split at h
  · cases h
  · rename_i hd
    split at h
    · cases h
    · rename_i a ha
      split at h
      · cases h
      · rename_i b hb
        obtain ⟨_, rfl, _⟩ := applyFactor_some ha
        obtain ⟨_, rfl, _⟩ := applyFactor_some hb
        cases h
        exact ⟨by omega, rfl⟩

/-- rewards never decrease with a larger stake … -/
theorem reward_mono_stake {v v' p i r r' : Nat} {d : Int} (hv : v ≤ v')
    (h : rewardAmount v d p i = some r) (h' : rewardAmount v' d p i = some r') : r ≤ r' := by
  obtain ⟨_, rfl⟩ := reward_spec h
  obtain ⟨_, rfl⟩ := reward_spec h'
  have : v * p / UNIT * i / UNIT ≤ v' * p / UNIT * i / UNIT :=
    Nat.div_le_div_right (Nat.mul_le_mul_right _ (Nat.div_le_div_right (Nat.mul_le_mul_right _ hv)))
  split <;> split <;> omega

/-- … nor with a longer cost integral … -/
theorem reward_mono_integral {v p i i' r r' : Nat} {d : Int} (hi : i ≤ i')
    (h : rewardAmount v d p i = some r) (h' : rewardAmount v d p i' = some r') : r ≤ r' := by
  obtain ⟨_, rfl⟩ := reward_spec h
  obtain ⟨_, rfl⟩ := reward_spec h'
  have : v * p / UNIT * i / UNIT ≤ v * p / UNIT * i' / UNIT :=
    Nat.div_le_div_right (Nat.mul_le_mul_left _ hi)
  split <;> split <;> omega

/-- … nor with a larger per-second APY. -/
theorem reward_mono_apy {v p p' i r r' : Nat} {d : Int} (hp : p ≤ p')
    (h : rewardAmount v d p i = some r) (h' : rewardAmount v d p' i = some r') : r ≤ r' := by
  obtain ⟨_, rfl⟩ := reward_spec h
  obtain ⟨_, rfl⟩ := reward_spec h'
  have : v * p / UNIT * i / UNIT ≤ v * p' / UNIT * i / UNIT :=
    Nat.div_le_div_right (Nat.mul_le_mul_right _ (Nat.div_le_div_right (Nat.mul_le_mul_left _ hp)))
  split <;> split <;> omega

/-- **Partial unstake**: returns exactly the requested tokens and keeps the proportional value rounded
down (which is at least the minimum stake value, otherwise the request is promoted to a full exit). -/
theorem partial_unstake_spec {ce : Bool} {minStake amt val vault un transfer remaining newValue : Nat}
    (h : unstakeSplit ce minStake amt val vault un = some (transfer, false, remaining, newValue)) :
    transfer = un ∧ remaining = amt - un ∧ 0 < remaining ∧ un ≤ amt ∧
    newValue = val * remaining / amt ∧ minStake ≤ newValue := by
  unfold unstakeSplit at h
  split at h; · cases h
  split at h; · cases h
  by_cases hr : amt - un = 0
  · simp [hr] at h
  · simp only [hr, if_false] at h
    cases hm : mulDiv 128 val (amt - un) amt with
    | none => simp [hm] at h
    | some nv =>
      simp only [hm] at h
      by_cases hlt : nv < minStake
      · simp [hlt] at h
      · simp [hlt] at h
        obtain ⟨rfl, rfl, rfl⟩ := h
        obtain ⟨_, rfl, _⟩ := applyFactor_some (W := 128) (U := amt) (v := val) (f := amt - un) hm
        exact ⟨rfl, rfl, by omega, by omega, rfl, by omega⟩

/-- **Full exit** (everything unstaked, or the remainder would fall below the minimum stake value):
the whole vault is swept, whatever it holds. -/
theorem full_exit_sweeps {ce : Bool} {minStake amt val vault un transfer remaining newValue : Nat}
    (h : unstakeSplit ce minStake amt val vault un = some (transfer, true, remaining, newValue)) :
    transfer = vault ∧ (remaining = 0 ∨ newValue < minStake) := by
  unfold unstakeSplit at h
  split at h; · cases h
  split at h; · cases h
  by_cases hr : amt - un = 0
  · simp [hr] at h
    obtain ⟨h1, h2, _⟩ := h
    exact ⟨h1.symm, Or.inl h2.symm⟩
  · simp only [hr, if_false] at h
    cases hm : mulDiv 128 val (amt - un) amt with
    | none => simp [hm] at h
    | some nv =>
      simp only [hm] at h
      by_cases hlt : nv < minStake
      · simp [hlt] at h
        obtain ⟨h1, _, h3⟩ := h
        exact ⟨h1.symm, Or.inr (h3 ▸ hlt)⟩
      · simp [hr, hlt] at h

/-- which requests are full exits: exactly `un = amt` or remainder value below the minimum. -/
theorem full_exit_iff {ce : Bool} {minStake amt val vault un transfer remaining newValue : Nat} {fe : Bool}
    (h : unstakeSplit ce minStake amt val vault un = some (transfer, fe, remaining, newValue)) :
    fe = true ↔ (un = amt ∨ val * (amt - un) / amt < minStake) := by
  unfold unstakeSplit at h
  split at h; · cases h
  rename_i hle
  split at h; · cases h
  by_cases hr : amt - un = 0
  · simp [hr] at h
    obtain ⟨_, rfl, _, _⟩ := h
    simp; left; omega
  · simp only [hr, if_false] at h
    cases hm : mulDiv 128 val (amt - un) amt with
    | none => simp [hm] at h
    | some nv =>
      simp only [hm, Option.some.injEq, Prod.mk.injEq] at h
      obtain ⟨_, rfl, _, _⟩ := h
      obtain ⟨_, rfl, _⟩ := applyFactor_some (W := 128) (U := amt) (v := val) (f := amt - un) hm
      simp [hr]
      intro h; omega

/-- **While claims are disabled only full exits are allowed**: a successful unstake takes the whole
stake and sweeps the vault; `claim_gt` itself is rejected. -/
theorem claims_disabled_full_only {minStake amt val vault un transfer remaining newValue : Nat} {fe : Bool}
    (h : unstakeSplit false minStake amt val vault un = some (transfer, fe, remaining, newValue)) :
    un = amt ∧ fe = true ∧ transfer = vault ∧ remaining = 0 := by
  unfold unstakeSplit at h
  split at h; · cases h
  split at h; · cases h
  rename_i hne
  have hu : un = amt := by simpa using hne
  subst hu
  simp at h
  obtain ⟨rfl, rfl, rfl, _⟩ := h
  exact ⟨rfl, rfl, rfl, rfl⟩

theorem claim_disabled_rejected (e : Env) (p : Pos) (h : e.claimEnabled = false) : claimGt e p = none := by
  simp [claimGt, h]

/-- the handler-level statement: what `unstake_lp` transfers and leaves behind. -/
theorem unstake_lp_spec {e : Env} {p : Pos} {vault un : Nat} {o : UnstakeOut}
    (h : unstakeLp e p vault un = some o) :
    0 < un ∧ un ≤ p.amount ∧
    (o.fullExit = true → o.transfer = vault ∧ o.pos = none) ∧
    (o.fullExit = false → o.transfer = un ∧
      ∃ q, o.pos = some q ∧ q.amount = p.amount - un ∧ q.value = p.value * (p.amount - un) / p.amount ∧
        q.start = p.start ∧ e.minStake ≤ q.value) ∧
    (e.claimEnabled = false → un = p.amount ∧ o.fullExit = true) := by
  unfold unstakeLp at h
  split at h; · cases h
  rename_i hun
  split at h; · cases h
  split at h; · cases h
  rename_i r cumEnd _ transfer fe remaining newValue hs
  cases h
  have hle : un ≤ p.amount := by
    unfold unstakeSplit at hs
    split at hs
    · cases hs
    · omega
  refine ⟨by omega, hle, ?_, ?_, ?_⟩
  · intro hfe
    simp only at hfe
    subst hfe
    exact ⟨(full_exit_sweeps hs).1, by simp⟩
  · intro hfe
    simp only at hfe
    subst hfe
    obtain ⟨h1, h2, _, _, h5, h6⟩ := partial_unstake_spec hs
    simp only [Bool.false_eq_true, if_false]
    exact ⟨h1, _, rfl, h2, by rw [h5, h2], rfl, h6⟩
  · intro hce
    rw [hce] at hs
    obtain ⟨h1, h2, _, _⟩ := claims_disabled_full_only hs
    exact ⟨h1, h2⟩

/-- **While claims are disabled only full exits are allowed — whatever the state of the LP-token controller.** The
handler-level form of `claims_disabled_full_only`, with the controller flag explicit: for an ENABLED and for a DISABLED
controller alike (the flag only selects the reward window in `computeReward`), a successful `unstake_lp` with claims
disabled takes the whole stake, sweeps the vault and closes the position; every partial unstake is rejected. -/
theorem claims_disabled_full_only_any_controller (e : Env) (ctrl : Bool) (p : Pos) (vault un : Nat)
    (hce : e.claimEnabled = false) :
    (∀ o, unstakeLp { e with ctrlEnabled := ctrl } p vault un = some o →
      un = p.amount ∧ o.fullExit = true ∧ o.transfer = vault ∧ o.pos = none) ∧
    (un ≠ p.amount → unstakeLp { e with ctrlEnabled := ctrl } p vault un = none) := by
  have key : ∀ o, unstakeLp { e with ctrlEnabled := ctrl } p vault un = some o →
      un = p.amount ∧ o.fullExit = true ∧ o.transfer = vault ∧ o.pos = none := by
    intro o h
    obtain ⟨_, _, hfull, _, hdis⟩ := unstake_lp_spec h
    obtain ⟨h1, h2⟩ := hdis hce
    obtain ⟨h3, h4⟩ := hfull h2
    exact ⟨h1, h2, h3, h4⟩
  refine ⟨key, ?_⟩
  intro hne
  rcases Option.eq_none_or_eq_some (unstakeLp { e with ctrlEnabled := ctrl } p vault un) with h | ⟨o, h⟩
  · exact h
  · exact absurd (key o h).1 hne

/-! ### histories of one position: the stake start time is immutable -/

/-- **A claim keeps the stake start time** (and the staked amount and value): `claim_gt` only advances the cost-integral
snapshot to the checkpoint; so every later reward is averaged over the APY gradient since the ORIGINAL stake time. -/
theorem claim_keeps_stake_start {e : Env} {p p' : Pos} {r : Nat} (h : claimGt e p = some (r, p')) :
    p'.start = p.start ∧ p'.amount = p.amount ∧ p'.value = p.value ∧ computeReward e p = some (r, p'.cum) := by
  unfold claimGt at h
  split at h; · cases h
  cases hc : computeReward e p with
  | none => simp [hc] at h
  | some rc =>
    obtain ⟨r0, c0⟩ := rc
    simp [hc] at h
    obtain ⟨rfl, rfl⟩ := h
    exact ⟨rfl, rfl, rfl, rfl⟩

/-- a partial unstake keeps it too (a full exit closes the position). -/
theorem unstake_keeps_stake_start {e : Env} {p q : Pos} {vault un : Nat} {o : UnstakeOut}
    (h : unstakeLp e p vault un = some o) (hq : o.pos = some q) : q.start = p.start := by
  obtain ⟨_, _, hfull, hpart, _⟩ := unstake_lp_spec h
  cases hf : o.fullExit with
  | true => rw [(hfull hf).2] at hq; cases hq
  | false =>
    obtain ⟨_, q', hq', _, _, hs, _⟩ := hpart hf
    rw [hq'] at hq; cases hq; exact hs

/-- **Over every history** of claims and unstakes of one position (any clock advances, any cost integrals, failed
instructions included): while the position exists its stake start time is the original one. -/
theorem chain_keeps_stake_start (steps : List (Nat × Nat × ChainOp)) (c : ChainSt) (s0 : Int)
    (h0 : ∀ p, c.pos = some p → p.start = s0) :
    ∀ q, (runChain c steps).1.pos = some q → q.start = s0 := by
  induction steps generalizing c with
  | nil => exact h0
  | cons st rest ih =>
    obtain ⟨dt, dcum, op⟩ := st
    simp only [runChain]
    apply ih
    intro p hp
    unfold chainStep at hp
    cases hc : c.pos with
    | none => simp [hc] at hp
    | some p0 =>
      have hs := h0 p0 hc
      simp only [hc] at hp
      cases op with
      | claim =>
        simp only at hp
        cases hcl : claimGt { c.e with now := c.e.now + dt, cumNow := c.e.cumNow + dcum } p0 with
        | none => simp [hcl] at hp; rw [← hp]; exact hs
        | some rp =>
          obtain ⟨r, p'⟩ := rp
          simp [hcl] at hp
          rw [← hp, (claim_keeps_stake_start hcl).1]; exact hs
      | unstake a =>
        simp only at hp
        cases hu : unstakeLp { c.e with now := c.e.now + dt, cumNow := c.e.cumNow + dcum } p0 c.vault a with
        | none => simp [hu] at hp; rw [← hp]; exact hs
        | some o =>
          simp [hu] at hp
          rw [unstake_keeps_stake_start hu hp]; exact hs

/-- … hence the reward of every successful claim in a history is `computeReward` of a position that still carries the
ORIGINAL stake time: the APY average runs over `[original start, checkpoint]`, not from the previous claim. -/
theorem chain_claim_uses_original_start (steps : List (Nat × Nat × ChainOp)) (c : ChainSt) (s0 : Int)
    (h0 : ∀ p, c.pos = some p → p.start = s0) (e : Env) (p p' : Pos) (r : Nat)
    (hp : (runChain c steps).1.pos = some p) (h : claimGt e p = some (r, p')) :
    p.start = s0 ∧ p'.start = s0 ∧ computeReward e p = some (r, p'.cum) := by
  have hs := chain_keeps_stake_start steps c s0 h0 p hp
  obtain ⟨h1, _, _, h4⟩ := claim_keeps_stake_start h
  exact ⟨hs, by rw [h1]; exact hs, h4⟩

/-! ### Non-vacuity -/
private def g1 : Nat → Nat := fun i => if i = 0 then 100 else if i = 1 then 40 else if i < 52 then 10 else 7
example : twApy 1000 (1000 + 604800 + 302400) g1 = some 80 := by decide
example : exactTotal g1 3 = 300 := by decide
example : twApy 0 (60 * 604800) g1 = some ((604800 * (100 + 40 + 50 * 10) + 8 * 604800 * 7) / (60 * 604800)) := by decide +kernel
example : twApy (-(2 ^ 63)) 1 g1 = none := by decide
example : rewardAmount (1000 * 10 ^ 20) 86400 (10 ^ 12) (5 * 10 ^ 22) = some 500000000000000000 := by decide
example : unstakeSplit true (50 * 10 ^ 20) 1000 (100 * 10 ^ 20) 1003 400 = some (400, false, 600, 60 * 10 ^ 20) := by decide
example : unstakeSplit true (50 * 10 ^ 20) 1000 (100 * 10 ^ 20) 1003 600 = some (1003, true, 400, 40 * 10 ^ 20) := by decide
example : unstakeSplit false 0 1000 (100 * 10 ^ 20) 1003 600 = none := by decide

-- added by the hygiene audit
-- `apy_spec` / `apy_le_max`: all hypotheses at once (bounded schedule, no saturation), theorem instantiated
example : (1000 : Int) < 1000 + 604800 + 302400 ∧ (∀ i, g1 i ≤ 100) ∧
    ((1000 + 604800 + 302400 : Int) - 1000 ≤ I64MAX) := by
  refine ⟨by decide, ?_, by decide⟩
  intro i; unfold g1; repeat' split
  all_goals omega
-- reward monotonicity: two defined rewards with v ≤ v'
example : rewardAmount (1000 * 10 ^ 20) 86400 (10 ^ 12) (5 * 10 ^ 22) = some 500000000000000000 ∧
    rewardAmount (2000 * 10 ^ 20) 86400 (10 ^ 12) (5 * 10 ^ 22) = some 1000000000000000000 := by decide
-- `claims_disabled_full_only`: with claims disabled a FULL unstake does succeed
example : unstakeSplit false 0 1000 (100 * 10 ^ 20) 1003 1000 = some (1003, true, 0, 0) := by decide
-- `unstake_lp_spec`: a successful partial unstake through the whole instruction
example : (unstakeLp ⟨true, 50 * 10 ^ 20, true, 0, 0, 7, 2000, g1⟩ ⟨1000, 100 * 10 ^ 20, 1000, 3⟩ 1003 400).map
    (fun o => (o.transfer, o.fullExit, o.pos.map (fun q => (q.amount, q.value)))) =
    some (400, false, some (600, 60 * 10 ^ 20)) := by decide

-- `claims_disabled_full_only_any_controller`: claims disabled, controller DISABLED (reward window frozen at `disabledAt`):
-- the full exit succeeds, the partial one is rejected; same with the controller enabled
example : (unstakeLp ⟨false, 50 * 10 ^ 20, false, 1500, 5, 7, 2000, g1⟩ ⟨1000, 100 * 10 ^ 20, 1000, 3⟩ 1003 1000).map
    (fun o => (o.transfer, o.fullExit, o.pos.isNone)) = some (1003, true, true) := by decide
example : unstakeLp ⟨false, 50 * 10 ^ 20, false, 1500, 5, 7, 2000, g1⟩ ⟨1000, 100 * 10 ^ 20, 1000, 3⟩ 1003 400 = none ∧
    unstakeLp ⟨false, 50 * 10 ^ 20, true, 0, 0, 7, 2000, g1⟩ ⟨1000, 100 * 10 ^ 20, 1000, 3⟩ 1003 400 = none := by decide

-- histories: stake at 1000, claim after 2 weeks, claim 1 week later, partial unstake: the start stays 1000 and the rewards are
-- those of the window since 1000 (non-flat gradient g1)
private def chainDemo : ChainSt × List (Option Nat) :=
  runChain ⟨⟨true, 0, true, 0, 0, 3, 1000, g1⟩, some ⟨1000, 100 * 10 ^ 20, 1000, 3⟩, 1003⟩
    [(2 * 604800, 5 * 10 ^ 22, ChainOp.claim), (604800, 5 * 10 ^ 22, ChainOp.claim), (10, 0, ChainOp.unstake 400)]
example : chainDemo.1.pos.map (fun q => (q.start, q.amount)) = some (1000, 600) ∧ chainDemo.2.all (·.isSome) = true ∧
    chainDemo.1.vault = 603 := by decide

end Gmx.C38
