import Gmx.Model.TxPack
import Gmx.Lemmas.TxPack
import Gmx.Lemmas.TxPack2
/-!
# C41 — transaction packing preserves instructions and respects size limits

Model: `Gmx.Model.TxPack` (`TransactionGroup::{add, optimize}`, `ParallelGroup::optimize`,
`TransactionGroupOptions::{optimize, optimizable}`, `AtomicGroup::merge`,
`transaction_size_with_luts`, and a model of the legacy / v0 wire format).

One clause of the literal property is FALSE of the code and is stated as `…_partial` with a
witness: "estimate ≥ serialized" fails by one byte per index list when one lookup table resolves
128 or more keys of one kind (finding F-C41-compact).  (A second finding, groups validated by
`add` without the memo, was fixed in /repo during this work; `limits_respected_size` now holds
in full and the old witness is a regression input.)
The wire-format model is tied to `solana_sdk` only by differential testing (partial).
-/
namespace Gmx.C41
open Gmx.TxPack

/-- No drop, no duplicate, no reorder: optimizing leaves the flattened instruction sequence of
the whole transaction group unchanged, for all groups, options, tables and both payer modes. -/
theorem optimize_preserves_sequence (o : Opts) (allow : Bool) (gs : List PG) :
    flattenPGs (tgOptimize o allow gs) = flattenPGs gs := by
  cases gs with
  | nil => rfl
  | cons g0 rest =>
    have h := tgLoop_flatten o allow (rest.map (PG.optimize o allow)) (g0.optimize o allow)
    rw [pgOptimize_flatten, flattenPGs_map_optimize] at h
    unfold tgOptimize
    simp only [List.map_cons]
    split
    · rw [flattenPGs_filter, h, flattenPGs_cons]
    · rw [h, flattenPGs_cons]

/-- Payer rule: when payer changes are not allowed every instruction stays in a transaction
paid by the payer of the group it was added with (sequence of (payer, instruction) unchanged). -/
theorem payer_rule (o : Opts) (gs : List PG) :
    taggedPGs (tgOptimize o false gs) = taggedPGs gs := by
  cases gs with
  | nil => rfl
  | cons g0 rest =>
    have h := tgLoop_tagged o (rest.map (PG.optimize o false)) (g0.optimize o false)
    rw [pgOptimize_tagged, taggedPGs_map_optimize] at h
    unfold tgOptimize
    simp only [List.map_cons]
    split
    · rw [taggedPGs_filter, h, taggedPGs_cons]
    · rw [h, taggedPGs_cons]

/-- …and when they are allowed, a merged transaction is paid by the payer of its FIRST group. -/
theorem merge_keeps_first_payer (x y : AG) :
    (x.merge y).payer = x.payer ∧ (x.merge y).ixs = x.ixs ++ y.ixs ∧
    (x.merge y).mergeable = x.mergeable := ⟨rfl, rfl, rfl⟩

/-- A merge happens only if BOTH groups are mergeable, the payers agree (or changing is allowed),
the instruction count fits and the size estimate of the merged transaction fits. -/
theorem merge_only_if_both_mergeable (o : Opts) (allow : Bool) (x y : AG) :
    optimizable o allow x y = true ↔
      x.mergeable = true ∧ y.mergeable = true ∧ (allow = true ∨ x.payer = y.payer) ∧
      x.ixs.length + y.ixs.length ≤ o.maxIx ∧ (x.merge y).size o.memo o.luts ≤ o.maxSize := by
  rw [size_merge]; exact optimizable_spec o allow x y

/-- Atomic groups are never split: the instructions of every (non-empty) atomic group that was
added end up contiguous and in order inside ONE atomic group of the result. -/
theorem atomic_never_split (o : Opts) (allow : Bool) (gs : List PG) (p : PG) (hp : p ∈ gs)
    (g : AG) (hg : g ∈ p.groups) (hne : g.ixs ≠ []) :
    ∃ p' ∈ tgOptimize o allow gs, ∃ g' ∈ p'.groups, g.ixs <:+: g'.ixs := by
  cases gs with
  | nil => cases hp
  | cons g0 rest =>
    obtain ⟨g1, m1, i1⟩ := pgOptimize_infix o allow p g hg hne
    obtain ⟨a, b⟩ := tgLoop_infix o allow (rest.map (PG.optimize o allow)) (g0.optimize o allow)
    have : ∃ p' ∈ (tgLoop o allow (g0.optimize o allow) (rest.map (PG.optimize o allow))).1,
        ∃ g' ∈ p'.groups, g1.ixs <:+: g'.ixs := by
      rcases List.mem_cons.1 hp with rfl | hp
      · exact a g1 m1 _ (List.infix_refl _)
      · exact b (p.optimize o allow) (List.mem_map.2 ⟨p, hp, rfl⟩) g1 m1
    obtain ⟨p', mp, g', mg, i2⟩ := this
    refine ⟨p', mem_tgOptimize o allow g0 rest p' mp ?_, g', mg, List.IsInfix.trans i1 i2⟩
    intro e; rw [e] at mg; cases mg

/-- A non-mergeable (non-empty) atomic group is carried into the result exactly as it was added:
same payer, same signers, same instructions. -/
theorem nonmergeable_group_untouched (o : Opts) (allow : Bool) (gs : List PG) (p : PG) (hp : p ∈ gs)
    (g : AG) (hg : g ∈ p.groups) (hm : g.mergeable = false) (hne : g.ixs ≠ []) :
    ∃ p' ∈ tgOptimize o allow gs, g ∈ p'.groups := by
  cases gs with
  | nil => cases hp
  | cons g0 rest =>
    have m1 := pgOptimize_keeps_nonmergeable o allow p g hg hm hne
    have : ∃ q ∈ (g0.optimize o allow) :: rest.map (PG.optimize o allow), g ∈ q.groups := by
      rcases List.mem_cons.1 hp with rfl | hp
      · exact ⟨_, List.mem_cons_self .., m1⟩
      · exact ⟨_, List.mem_cons_of_mem _ (List.mem_map.2 ⟨p, hp, rfl⟩), m1⟩
    obtain ⟨p', mp, mg⟩ := tgLoop_keeps_nonmergeable_ag o allow g hm _ _ this
    refine ⟨p', mem_tgOptimize o allow g0 rest p' mp ?_, mg⟩
    intro e; rw [e] at mg; cases mg

/-- A non-mergeable parallel group is never merged with a neighbour: it is carried over with
only its own internal optimization applied. -/
theorem nonmergeable_parallel_untouched (o : Opts) (allow : Bool) (gs : List PG) (p : PG)
    (hp : p ∈ gs) (hm : p.mergeable = false) (hne : (p.optimize o allow).groups ≠ []) :
    p.optimize o allow ∈ tgOptimize o allow gs := by
  cases gs with
  | nil => cases hp
  | cons g0 rest =>
    refine mem_tgOptimize o allow g0 rest _ ?_ hne
    apply tgLoop_keeps_nonmergeable_pg o allow _ (by rw [pgOptimize_mergeable]; exact hm)
    rcases List.mem_cons.1 hp with rfl | hp
    · exact List.mem_cons_self ..
    · exact List.mem_cons_of_mem _ (List.mem_map.2 ⟨p, hp, rfl⟩)

/-- `add` only stores groups every atomic group of which passed `validate_one`. -/
theorem add_validates (o : Opts) (groups : List PG) (pg : PG) (groups' : List PG)
    (h : tgAdd o groups pg = (groups', .ok ())) :
    groups' = groups ∨ (groups' = groups ++ [pg] ∧ ∀ g ∈ pg.groups, validateOne o g = .ok ()) := by
  unfold tgAdd at h
  split at h
  · left; cases h; rfl
  · split at h
    · cases h
    · rename_i hv
      right
      cases h
      refine ⟨rfl, ?_⟩
      generalize pg.groups = l at hv
      induction l with
      | nil => intro g hg; cases hg
      | cons a t ih =>
        intro g hg
        unfold validatePG at hv
        split at hv
        · cases hv
        · rename_i ha
          rcases List.mem_cons.1 hg with rfl | hg
          · exact ha
          · exact ih hv g hg

theorem validateOne_ok (o : Opts) (g : AG) (h : validateOne o g = .ok ()) :
    g.ixs.length ≤ o.maxIx ∧ g.size o.memo o.luts ≤ o.maxSize := by
  unfold validateOne at h
  split at h
  · cases h
  · split at h
    · cases h
    · omega

/-- Instruction-count limit: if every added atomic group respects `max_instructions_per_tx`
(which `add` enforces), so does every transaction after optimizing. -/
theorem limits_respected_count (o : Opts) (allow : Bool) (gs : List PG)
    (h : ∀ p ∈ gs, ∀ g ∈ p.groups, g.ixs.length ≤ o.maxIx) :
    ∀ p ∈ tgOptimize o allow gs, ∀ g ∈ p.groups, g.ixs.length ≤ o.maxIx := by
  cases gs with
  | nil => intro p hp; cases hp
  | cons g0 rest =>
    intro p hp
    have hM : ∀ x y, optimizable o allow x y = true → x.ixs.length ≤ o.maxIx → y.ixs.length ≤ o.maxIx →
        (x.merge y).ixs.length ≤ o.maxIx := by
      intro x y hxy _ _
      have := ((optimizable_spec o allow x y).1 hxy).2.2.2.1
      simpa [AG.merge] using this
    have hE : emptyAG.ixs.length ≤ o.maxIx := by simp [emptyAG]
    refine tgLoop_all o allow (fun g => g.ixs.length ≤ o.maxIx) hM _ _ ?_ ?_ p
      (of_mem_tgOptimize o allow g0 rest p hp)
    · exact pgOptimize_all o allow _ hE hM g0 (h g0 (List.mem_cons_self ..))
    · intro q hq
      obtain ⟨q0, hq0, rfl⟩ := List.mem_map.1 hq
      exact pgOptimize_all o allow _ hE hM q0 (h q0 (List.mem_cons_of_mem _ hq0))

/-- Size limit: if every added atomic group's size estimate (with the configured memo, as `add`
checks it) is within `max_transaction_size`, so is the estimate of every transaction after
optimizing (placeholders left behind by merges are empty and are filtered out or never built). -/
theorem limits_respected_size (o : Opts) (allow : Bool) (gs : List PG)
    (h : ∀ p ∈ gs, ∀ g ∈ p.groups, g.size o.memo o.luts ≤ o.maxSize) :
    ∀ p ∈ tgOptimize o allow gs, ∀ g ∈ p.groups, g.size o.memo o.luts ≤ o.maxSize ∨ g = emptyAG := by
  cases gs with
  | nil => intro p hp; cases hp
  | cons g0 rest =>
    intro p hp
    let Q : AG → Prop := fun g => g.size o.memo o.luts ≤ o.maxSize ∨ g = emptyAG
    have hM : ∀ x y, optimizable o allow x y = true → Q x → Q y → Q (x.merge y) := by
      intro x y hxy _ _
      left
      rw [size_merge]
      exact ((optimizable_spec o allow x y).1 hxy).2.2.2.2
    have hE : Q emptyAG := Or.inr rfl
    refine tgLoop_all o allow Q hM _ _ ?_ ?_ p (of_mem_tgOptimize o allow g0 rest p hp)
    · exact pgOptimize_all o allow Q hE hM g0 (fun g hg => Or.inl (h g0 (List.mem_cons_self ..) g hg))
    · intro q hq
      obtain ⟨q0, hq0, rfl⟩ := List.mem_map.1 hq
      exact pgOptimize_all o allow Q hE hM q0
        (fun g hg => Or.inl (h q0 (List.mem_cons_of_mem _ hq0) g hg))

/-- regression of the fixed finding: limit 400, memo of 100 bytes, one instruction with 150 data
bytes: 374 bytes without the memo, 510 with it — `add` now rejects the group. -/
theorem memo_regression :
    let o : Opts := ⟨400, 14, some (100, none), []⟩
    let g : AG := ⟨1, [1], [⟨1, 500, [], 150⟩], true⟩
    g.size none o.luts = 374 ∧ g.size o.memo o.luts = 510 ∧
    wireLen 1 (g.allIxs o.memo) true [] = 510 ∧ addCode (tgAdd o [] ⟨[g], true⟩).2 = 2 := by
  decide

/-- **Packed size = length of the serialized transaction.** `serialize` lays the transaction out
byte by byte (compact-u16 signature count, 64-byte signatures, v0 prefix, 3-byte header, account
keys in `CompiledKeys` order, blockhash, compiled instructions with compact-u16 lengths and
one-byte account indexes, address-table lookups); its length is `wireLen` for ALL inputs. The
bytes themselves are compared with solana_sdk's bincode output on every run (`txp bytes`). -/
theorem serialized_length_eq_wireLen (payer : Nat) (ixs : List Ix) (versioned : Bool)
    (luts : List (List Nat)) :
    (serialize payer ixs versioned luts).length = wireLen payer ixs versioned luts :=
  serialize_length payer ixs versioned luts

/-- the header bytes are the signature count and the two readonly counts of `CompiledKeys`. -/
theorem compactBytes_length_eq (n : Nat) : (compactBytes n).length = compactLen n :=
  compactBytes_length n

/-- The size estimate never EXCEEDS the serialized size of the v0 transaction… -/
theorem estimate_le_serialized (payer : Nat) (ixs : List Ix) (ts : List (List Nat)) :
    estimate payer ixs true (some ts) ≤ wireLen payer ixs true ts := by
  unfold estimate wireLen lookupsLen
  simp only [if_true]
  rw [nStatic_eq_nAfter, lookups_eq_statsSum]
  have h1 := booked_le_usedBytes (lutStats payer ixs ts)
  have h2 := compactLen_pos (usedTables (lutStats payer ixs ts)).length
  have h3 : compactLen 0 = 1 := by decide
  unfold usedBytes at h1
  omega

/-- …and EQUALS it (so in particular is not below it) whenever every lookup table resolves at
most 127 writable and at most 127 readonly keys and at most 127 tables are used. -/
theorem estimate_eq_serialized_partial (payer : Nat) (ixs : List Ix) (ts : List (List Nat))
    (hs : ∀ s ∈ lutStats payer ixs ts, s.1 ≤ 127 ∧ s.2 ≤ 127)
    (hu : (usedTables (lutStats payer ixs ts)).length ≤ 127) :
    estimate payer ixs true (some ts) = wireLen payer ixs true ts := by
  unfold estimate wireLen lookupsLen
  simp only [if_true]
  rw [nStatic_eq_nAfter, lookups_eq_statsSum]
  have h1 := booked_eq_usedBytes (lutStats payer ixs ts) hs
  have h2 := compactLen_small _ hu
  have h3 : compactLen 0 = 1 := by decide
  unfold usedBytes at h1
  omega

/-- the clause as stated in the property, under the same guard. -/
theorem estimate_ge_serialized_partial (payer : Nat) (ixs : List Ix) (ts : List (List Nat))
    (hs : ∀ s ∈ lutStats payer ixs ts, s.1 ≤ 127 ∧ s.2 ≤ 127)
    (hu : (usedTables (lutStats payer ixs ts)).length ≤ 127) :
    wireLen payer ixs true ts ≤ estimate payer ixs true (some ts) :=
  Nat.le_of_eq (estimate_eq_serialized_partial payer ixs ts hs hu).symm

/-- the per-table estimate never exceeds the number of serialized bytes, and equals it under the
compact-u16 guard — now a statement about the byte string itself. -/
theorem estimate_vs_serialized_bytes (payer : Nat) (ixs : List Ix) (ts : List (List Nat)) :
    estimate payer ixs true (some ts) ≤ (serialize payer ixs true ts).length ∧
    ((∀ s ∈ lutStats payer ixs ts, s.1 ≤ 127 ∧ s.2 ≤ 127) →
      (usedTables (lutStats payer ixs ts)).length ≤ 127 →
      estimate payer ixs true (some ts) = (serialize payer ixs true ts).length) := by
  rw [serialize_length]
  exact ⟨estimate_le_serialized payer ixs ts, estimate_eq_serialized_partial payer ixs ts⟩

/-- `transaction_size` (the `HashSet` variant of `TransactionBuilder`, called with the union of the
tables' addresses and the NUMBER of tables) equals the per-table estimate plus 34 bytes for every
table that ends up unused. -/
theorem estimateSet_eq_estimate (payer : Nat) (ixs : List Ix) (ts : List (List Nat)) :
    estimateSet payer ixs true (some ts.flatten) ts.length =
      estimate payer ixs true (some ts) +
        (ts.length - (usedTables (lutStats payer ixs ts)).length) * 34 := by
  have hle : (usedTables (lutStats payer ixs ts)).length ≤ ts.length := by
    have := usedTables_length_le (lutStats payer ixs ts)
    unfold lutStats at this ⊢
    rw [tableStats_length] at this
    exact this
  unfold estimateSet estimate
  simp only [if_true]
  rw [← nAfter_eq_set]
  generalize (usedTables (lutStats payer ixs ts)).length = u at *
  generalize ts.length = n at *
  have : n * (32 + 2) = u * (32 + 2) + (n - u) * 34 := by
    obtain ⟨r, rfl⟩ : ∃ r, n = u + r := ⟨n - u, by omega⟩
    rw [show u + r - u = r by omega]
    omega
  omega

/-- `estimate ≥ serialized` for `transaction_size`: under the same guard as for the per-table
variant (every table resolves ≤ 127 writable and ≤ 127 readonly keys, ≤ 127 tables used) the
estimate is the serialized size plus 34 bytes per unused table, hence never below it. -/
theorem estimateSet_ge_serialized_partial (payer : Nat) (ixs : List Ix) (ts : List (List Nat))
    (hs : ∀ s ∈ lutStats payer ixs ts, s.1 ≤ 127 ∧ s.2 ≤ 127)
    (hu : (usedTables (lutStats payer ixs ts)).length ≤ 127) :
    wireLen payer ixs true ts ≤ estimateSet payer ixs true (some ts.flatten) ts.length := by
  rw [estimateSet_eq_estimate, ← estimate_eq_serialized_partial payer ixs ts hs hu]
  omega

/-- …and without tables it is exact (v0 and legacy). -/
theorem estimateSet_eq_serialized_no_luts (payer : Nat) (ixs : List Ix) :
    estimateSet payer ixs false none 0 = wireLen payer ixs false [] ∧
    estimateSet payer ixs true none 0 = estimate payer ixs true none := by
  constructor <;> simp [estimateSet, estimate, wireLen]

/-- Without lookup tables (v0 or legacy) the estimate is exactly the serialized size. -/
theorem estimate_eq_serialized_no_luts (payer : Nat) (ixs : List Ix) :
    estimate payer ixs false none = wireLen payer ixs false [] ∧
    estimate payer ixs true none = wireLen payer ixs true [] ∧
    estimate payer ixs true (some []) = wireLen payer ixs true [] := by
  have h3 : compactLen 0 = 1 := by decide
  refine ⟨?_, ?_, ?_⟩
  · simp [estimate, wireLen]
  · have e : nStatic payer ixs [] = (keysOf payer ixs).length := by
      unfold nStatic
      simp only [canFinal]
      have a := countP_add_not (keysOf payer ixs) (fun k => !(can0 payer ixs k && !can0 payer ixs k))
      have z := countP_false (keysOf payer ixs) (fun x => !(!(can0 payer ixs x && !can0 payer ixs x)))
        (fun x => by cases can0 payer ixs x <;> rfl)
      omega
    simp [estimate, wireLen, lookupsLen, lutStats, tableStats, usedTables, e, h3]
  · exact estimate_eq_serialized_partial payer ixs [] (by simp [lutStats, tableStats])
      (by simp [lutStats, tableStats, usedTables])

def manyMetas (n : Nat) : List Meta := (List.range n).map (fun i => ⟨1000 + i, false, true⟩)
def manyKeys (n : Nat) : List Nat := (List.range n).map (fun i => 1000 + i)

/-- F-C41-compact witness: one instruction with 128 writable non-signer accounts, all found in
one lookup table: the estimate is 470 bytes, the serialized v0 transaction 471 (the two-byte
compact-u16 count of 128 indexes is booked as one byte). -/
theorem compact_witness :
    estimate 1 [⟨1, 500, manyMetas 128, 8⟩] true (some [manyKeys 128]) = 470 ∧
    wireLen 1 [⟨1, 500, manyMetas 128, 8⟩] true [manyKeys 128] = 471 := by
  constructor <;> decide +kernel

/-- the serialized bytes of a small legacy transaction (payer 1 signs, program 500, one writable
account 7, eight data bytes tagged 1): 1 signature, header (1,0,1), keys 1, 7, 500. -/
theorem serialize_example :
    (serialize 1 [⟨1, 500, [⟨7, false, true⟩], 8⟩] false []).take 1 = [1] ∧
    ((serialize 1 [⟨1, 500, [⟨7, false, true⟩], 8⟩] false []).drop 65).take 4 = [1, 0, 1, 3] ∧
    (serialize 1 [⟨1, 500, [⟨7, false, true⟩], 8⟩] false []).length = 210 := by
  decide +kernel

/-! ### Non-vacuity -/
-- two mergeable groups with the same payer are merged into one transaction, first payer kept
example : tgOptimize ⟨1232, 14, none, []⟩ false
    [⟨[⟨1, [1], [⟨1, 500, [], 8⟩], true⟩], true⟩, ⟨[⟨1, [1], [⟨2, 500, [], 8⟩], true⟩], true⟩] =
    [⟨[⟨1, [1], [⟨1, 500, [], 8⟩, ⟨2, 500, [], 8⟩], true⟩], true⟩] := by decide
-- different payers: merged only when payer change is allowed
example : (tgOptimize ⟨1232, 14, none, []⟩ false
    [⟨[⟨1, [1], [⟨1, 500, [], 8⟩], true⟩], true⟩, ⟨[⟨2, [2], [⟨2, 500, [], 8⟩], true⟩], true⟩]).length = 2 := by decide
example : tgOptimize ⟨1232, 14, none, []⟩ true
    [⟨[⟨1, [1], [⟨1, 500, [], 8⟩], true⟩], true⟩, ⟨[⟨2, [2], [⟨2, 500, [], 8⟩], true⟩], true⟩] =
    [⟨[⟨1, [1, 2], [⟨1, 500, [], 8⟩, ⟨2, 500, [], 8⟩], true⟩], true⟩] := by decide
-- a non-mergeable group blocks the merge
example : (tgOptimize ⟨1232, 14, none, []⟩ true
    [⟨[⟨1, [1], [⟨1, 500, [], 8⟩], false⟩], true⟩, ⟨[⟨1, [1], [⟨2, 500, [], 8⟩], true⟩], true⟩]).length = 2 := by decide
-- the instruction-count limit blocks the merge
example : (tgOptimize ⟨1232, 1, none, []⟩ true
    [⟨[⟨1, [1], [⟨1, 500, [], 8⟩], true⟩], true⟩, ⟨[⟨1, [1], [⟨2, 500, [], 8⟩], true⟩], true⟩]).length = 2 := by decide
-- `add` rejects an oversized group
example : addCode (tgAdd ⟨200, 14, none, []⟩ [] ⟨[⟨1, [1], [⟨1, 500, [], 150⟩], true⟩], true⟩).2 = 2 := by decide
-- the `HashSet` variant pays 34 bytes for a table nobody uses
example : estimateSet 1 [⟨1, 500, [⟨7, false, true⟩], 8⟩] true (some ([[7], [9]] : List (List Nat)).flatten) 2 = 249 ∧
    wireLen 1 [⟨1, 500, [⟨7, false, true⟩], 8⟩] true [[7], [9]] = 215 := by decide
-- one looked-up key costs 32 (table) + 2 + 1 bytes and saves 32: with a single key the table does not pay off
example : estimate 1 [⟨1, 500, [⟨7, false, true⟩], 8⟩] true (some [[7]]) = 215 ∧
    wireLen 1 [⟨1, 500, [⟨7, false, true⟩], 8⟩] true [[7]] = 215 ∧
    wireLen 1 [⟨1, 500, [⟨7, false, true⟩], 8⟩] true [] = 212 := by decide

-- added by the hygiene audit
-- `estimate_eq_serialized_partial` / `estimate_ge_serialized_partial`: both side conditions hold for a small transaction with a lookup table
example : (∀ s ∈ lutStats 1 [⟨1, 500, [⟨7, false, true⟩], 8⟩] [[7]], s.1 ≤ 127 ∧ s.2 ≤ 127) ∧
    (usedTables (lutStats 1 [⟨1, 500, [⟨7, false, true⟩], 8⟩] [[7]])).length ≤ 127 := by decide
-- `limits_respected_count`, `atomic_never_split`, `nonmergeable_group_untouched`: groups within the limits, a non-empty and a non-mergeable group
example : (∀ p ∈ ([⟨[⟨1, [1], [⟨1, 500, [], 8⟩], false⟩], true⟩, ⟨[⟨1, [1], [⟨2, 500, [], 8⟩], true⟩], true⟩] : List PG),
    ∀ g ∈ p.groups, g.ixs.length ≤ 14 ∧ g.ixs ≠ []) := by decide
-- `add_validates` / `validateOne_ok`: a successful add
example : (tgAdd ⟨1232, 14, none, []⟩ [] ⟨[⟨1, [1], [⟨1, 500, [], 8⟩], true⟩], true⟩).1.length = 1 ∧
    validateOne ⟨1232, 14, none, []⟩ ⟨1, [1], [⟨1, 500, [], 8⟩], true⟩ = .ok () := ⟨by decide, rfl⟩

end Gmx.C41
