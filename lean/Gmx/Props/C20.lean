import Gmx.Model.ConfigUpdate
/-!
# C20 — market config updates follow the keeper permission policy

The attribute guards (`Gen.Access.info`) and the handlers' step lists (`Gen.ConfigUpdate`) are
REGENERATED from `programs/store/src/{lib.rs, instructions/market.rs, states/market/mod.rs,
states/permissions/market_config.rs}` on every run; `Gmx.ConfigUpdate` interprets them.
`mk` = the caller has MARKET_KEEPER, `mck` = MARKET_CONFIG_KEEPER.
-/
namespace Gmx.C20
open Gmx.Gen.MarketConfig Gmx.Gen.Access Gmx.Gen.ConfigUpdate Gmx.ConfigAccess Gmx.ConfigUpdate

/-- every key fits the permission table, so `is_factor_updatable` never fails -/
theorem keys_fit_permission_table : ∀ k : Key, k.index ≤ maxConfigFactors - 1 := by
  intro k; cases k <;> decide

theorem flags_fit_permission_table : ∀ x : Flag, x.bit ≤ maxConfigFlags - 1 := by
  intro x; cases x <;> decide

private theorem factorUpdatable_eq (p : Perms) (k : Key) : factorUpdatable p k = .ok (p.factor k) := by
  unfold factorUpdatable
  have := keys_fit_permission_table k
  simp [Nat.not_lt.2 this]

/-- the source order of the checks, as extracted -/
theorem handler_shapes :
    factorHandler = [.parseKey, .requireUpdatableOr [.MARKET_KEEPER], .writeFactor] ∧
    flagHandler = [.parseKey, .requireUpdatableOr [.MARKET_KEEPER], .writeFlag] ∧
    bufferHandler = [.requireExpiryGtNow, .unlessRolesAllUpdatable [.MARKET_KEEPER], .applyInOrder] ∧
    bufferHasOneAuthority = true ∧ bufferHasOneStore = true ∧ marketHasOneStore = true := by
  decide

private theorem guard_f (has : Role → Bool) :
    Access.guardOk (info .store_update_market_config).attr has = (has .MARKET_KEEPER || has .MARKET_CONFIG_KEEPER) := by
  simp [Access.guardOk, info]
private theorem guard_fl (has : Role → Bool) :
    Access.guardOk (info .store_update_market_config_flag).attr has = (has .MARKET_KEEPER || has .MARKET_CONFIG_KEEPER) := by
  simp [Access.guardOk, info]
private theorem guard_b (has : Role → Bool) :
    Access.guardOk (info .store_update_market_config_with_buffer).attr has = (has .MARKET_KEEPER || has .MARKET_CONFIG_KEEPER) := by
  simp [Access.guardOk, info]

private theorem set_some (c : Cfg) (k : Key) (v : Nat) : ∃ c', c.set k v = some c' := by
  have : (c.set k v).isSome = true := by unfold Cfg.set; cases k <;> rfl
  exact Option.isSome_iff_exists.1 this

/-! ## single key / flag -/

/-- a MARKET_KEEPER may update ANY key, whatever the updatable table says -/
theorem keeper_any_key (has : Role → Bool) (p : Perms) (k : Key) (v : Nat) (c : Cfg) (hmk : has .MARKET_KEEPER = true) :
    ∃ c', c.set k v = some c' ∧ updateFactor has p (some k) v c = (c', .ok ()) := by
  obtain ⟨c', hc'⟩ := set_some c k v
  refine ⟨c', hc', ?_⟩
  unfold updateFactor
  rw [guard_f, hmk]
  simp [factorHandler, runFactor, factorUpdatable_eq, hmk, hc']
  cases p.factor k <;> simp [hc']

/-- a MARKET_CONFIG_KEEPER (not MARKET_KEEPER) updates exactly the keys marked updatable; a
non-updatable key is rejected with `PermissionDenied` and the config is untouched -/
theorem config_keeper_only_updatable (has : Role → Bool) (p : Perms) (k : Key) (v : Nat) (c : Cfg)
    (hmk : has .MARKET_KEEPER = false) (hmck : has .MARKET_CONFIG_KEEPER = true) :
    (p.factor k = true → ∃ c', c.set k v = some c' ∧ updateFactor has p (some k) v c = (c', .ok ())) ∧
    (p.factor k = false → updateFactor has p (some k) v c = (c, .error .permissionDenied)) := by
  obtain ⟨c', hc'⟩ := set_some c k v
  constructor
  · intro hu
    refine ⟨c', hc', ?_⟩
    unfold updateFactor
    rw [guard_f, hmk, hmck]
    simp [factorHandler, runFactor, factorUpdatable_eq, hu, hc']
  · intro hu
    unfold updateFactor
    rw [guard_f, hmk, hmck]
    simp [factorHandler, runFactor, factorUpdatable_eq, hu, hmk]

/-- anyone else is rejected by all three instructions, before the handler runs -/
theorem stranger_rejected (has : Role → Bool) (p : Perms) (hmk : has .MARKET_KEEPER = false) (hmck : has .MARKET_CONFIG_KEEPER = false) :
    (∀ k v c, updateFactor has p k v c = (c, .error .permissionDenied)) ∧
    (∀ x b c, updateFlag has p x b c = (c, .error .permissionDenied)) ∧
    (∀ owned now expiry es c, updateWithBuffer has p owned now expiry es c = (c, .error .permissionDenied)) := by
  refine ⟨?_, ?_, ?_⟩
  · intro k v c; unfold updateFactor; rw [guard_f, hmk, hmck]; simp
  · intro x b c; unfold updateFlag; rw [guard_fl, hmk, hmck]; simp
  · intro owned now expiry es c; unfold updateWithBuffer; rw [guard_b, hmk, hmck]; cases owned <;> simp

/-- a string that is not a config key is rejected and nothing is written (any role) -/
theorem unknown_key_rejected (has : Role → Bool) (p : Perms) (v : Nat) (c : Cfg) :
    (updateFactor has p none v c).1 = c ∧ (updateFactor has p none v c).2 ≠ .ok () := by
  unfold updateFactor
  cases hg : Access.guardOk (info .store_update_market_config).attr has <;> simp [factorHandler, runFactor]

theorem flag_keeper_any (has : Role → Bool) (p : Perms) (x : Flag) (b : Bool) (c : Cfg) (hmk : has .MARKET_KEEPER = true) :
    updateFlag has p (some x) b c = (c.setFlag x b, .ok ()) := by
  unfold updateFlag
  rw [guard_fl, hmk]
  simp [flagHandler, runFlag, hmk]

theorem flag_config_keeper_only_updatable (has : Role → Bool) (p : Perms) (x : Flag) (b : Bool) (c : Cfg)
    (hmk : has .MARKET_KEEPER = false) (hmck : has .MARKET_CONFIG_KEEPER = true) :
    (p.flag x = true → updateFlag has p (some x) b c = (c.setFlag x b, .ok ())) ∧
    (p.flag x = false → updateFlag has p (some x) b c = (c, .error .permissionDenied)) := by
  constructor <;> intro hu <;> unfold updateFlag <;> rw [guard_fl, hmk, hmck] <;> simp [flagHandler, runFlag, hu, hmk]

/-! ## buffers -/

/-- all entries decodable and updatable -/
def allUpdatable (p : Perms) (es : List Entry) : Bool :=
  es.all fun e => match keyOf e.1 with | some k => p.factor k | none => false

private theorem check_ok_iff (p : Perms) (es : List Entry) :
    checkAllUpdatable p es = .ok () ↔ allUpdatable p es = true := by
  induction es with
  | nil => simp [checkAllUpdatable, allUpdatable]
  | cons e rest ih =>
    obtain ⟨n, v⟩ := e
    have hall : allUpdatable p ((n, v) :: rest)
        = ((match keyOf n with | some k => p.factor k | none => false) && allUpdatable p rest) := by
      simp [allUpdatable, List.all_cons]
    rw [hall]
    unfold checkAllUpdatable
    cases hk : keyOf n with
    | none => simp
    | some k =>
      simp only [factorUpdatable_eq]
      cases hp : p.factor k
      · simp
      · simpa using ih

/-- ONE non-updatable (or undecodable) entry rejects the WHOLE buffer for a config keeper, and no
entry — not even the updatable ones before it — has been written -/
theorem buffer_all_or_nothing (has : Role → Bool) (p : Perms) (now expiry : Int) (es : List Entry) (c : Cfg)
    (hmk : has .MARKET_KEEPER = false) (hmck : has .MARKET_CONFIG_KEEPER = true)
    (hbad : allUpdatable p es = false) :
    (updateWithBuffer has p true now expiry es c).1 = c ∧ (updateWithBuffer has p true now expiry es c).2 ≠ .ok () := by
  unfold updateWithBuffer
  rw [guard_b, hmk, hmck]
  have hne : checkAllUpdatable p es ≠ .ok () := by
    intro h; rw [(check_ok_iff p es).1 h] at hbad; cases hbad
  by_cases hexp : expiry > now
  · simp [bufferHandler, runBuffer, hexp, hmk]
    cases hc : checkAllUpdatable p es with
    | ok u => cases u; exact absurd hc hne
    | error e => simp
  · simp [bufferHandler, runBuffer, hexp]

/-- an expired buffer (`expiry ≤ now`) is never applied, whoever presents it -/
theorem expired_buffer_rejected (has : Role → Bool) (p : Perms) (owned : Bool) (now expiry : Int) (es : List Entry) (c : Cfg)
    (hexp : expiry ≤ now) :
    (updateWithBuffer has p owned now expiry es c).1 = c ∧ (updateWithBuffer has p owned now expiry es c).2 ≠ .ok () := by
  unfold updateWithBuffer
  have : ¬ expiry > now := by omega
  cases owned <;> cases hg : Access.guardOk (info .store_update_market_config_with_buffer).attr has <;>
    simp [bufferHandler, runBuffer, this, bufferHasOneAuthority]

/-- a buffer whose authority is not the caller is rejected -/
theorem foreign_buffer_rejected (has : Role → Bool) (p : Perms) (now expiry : Int) (es : List Entry) (c : Cfg) :
    updateWithBuffer has p false now expiry es c = (c, .error .permissionDenied) := by
  simp [updateWithBuffer, bufferHasOneAuthority]

/-- an accepted buffer is applied entry by entry IN ORDER (so a later entry for the same key wins) -/
theorem buffer_applies_in_order (has : Role → Bool) (p : Perms) (now expiry : Int) (es : List Entry) (c : Cfg)
    (hexp : expiry > now) (hperm : has .MARKET_KEEPER = true ∨ (has .MARKET_CONFIG_KEEPER = true ∧ allUpdatable p es = true)) :
    updateWithBuffer has p true now expiry es c = applyEntries es c := by
  unfold updateWithBuffer
  have hg : (has .MARKET_KEEPER || has .MARKET_CONFIG_KEEPER) = true := by
    rcases hperm with h | ⟨h, _⟩ <;> simp [h]
  rw [guard_b, hg]
  have happly : ∀ r : Res, (match r with | (c', .ok ()) => runBuffer has p now expiry es [] c' | r => r) = r := by
    intro r; obtain ⟨c', e⟩ := r; cases e with
    | ok u => cases u; simp [runBuffer]
    | error e => rfl
  cases hmk : has .MARKET_KEEPER
  · rcases hperm with h | ⟨_, hall⟩
    · rw [hmk] at h; cases h
    · have := (check_ok_iff p es).2 hall
      simp [bufferHandler, runBuffer, hexp, hmk, this]
      exact happly _
  · simp [bufferHandler, runBuffer, hexp, hmk]
    exact happly _

/-- in-order application on distinct, decodable keys is a left fold of `set` -/
theorem applyEntries_two (c : Cfg) (k : Key) (v₁ v₂ : Nat) :
    ((applyEntries [(k.index, v₁), (k.index, v₂)] c).1.get k = some v₂) := by
  cases k <;> simp [applyEntries, keyOf, Key.all, Key.index, Cfg.set, Cfg.get, getMutField, getField]

/-- a MARKET_KEEPER's buffer may contain any keys -/
theorem keeper_buffer_any_keys (has : Role → Bool) (p : Perms) (now expiry : Int) (es : List Entry) (c : Cfg)
    (hexp : expiry > now) (hmk : has .MARKET_KEEPER = true) :
    updateWithBuffer has p true now expiry es c = applyEntries es c :=
  buffer_applies_in_order has p now expiry es c hexp (Or.inl hmk)

/-! ## role-table configurations: the guard is an ordered, failing fold over `has_role` -/
open Gmx.Access

/-- a caller who is a member, holds MARKET_KEEPER, and whose MARKET_KEEPER role is enabled -/
def IsLiveKeeper (t : RoleTable) : Prop :=
  t.member = true ∧ t.state .MARKET_KEEPER = .enabled ∧ t.bit .MARKET_KEEPER = true

/-- A market keeper passes the guard of all three instructions WHATEVER the state of the other role
(never enabled, disabled, enabled) — true because the source lists MARKET_KEEPER first: `has_role`
fails for a role that is not enabled and `ensure_has_any_role` propagates the first failure. (With the
role list in the other order this statement is false and does not compile.) -/
theorem market_keeper_passes_regardless_of_other_role (t : RoleTable) (h : IsLiveKeeper t) :
    guardE (info .store_update_market_config).attr t = .ok () ∧
    guardE (info .store_update_market_config_flag).attr t = .ok () ∧
    guardE (info .store_update_market_config_with_buffer).attr t = .ok () := by
  obtain ⟨hm, he, hb⟩ := h
  simp [guardE, info, ensureAnyE, hasRoleE, hm, he, hb]

/-- … and then updates any key, whatever the updatable table and the other role's state -/
theorem keeper_any_key_any_role_table (t : RoleTable) (h : IsLiveKeeper t) (p : Perms) (k : Key) (v : Nat) (c : Cfg) :
    ∃ c', c.set k v = some c' ∧ updateFactorE t p (some k) v c = (c', .ok ()) := by
  obtain ⟨c', hc'⟩ := set_some c k v
  refine ⟨c', hc', ?_⟩
  obtain ⟨hm, he, hb⟩ := h
  have hg : guardRes t [.MARKET_KEEPER] = .ok () := by simp [guardRes, ensureAnyE, hasRoleE, hm, he, hb]
  unfold updateFactorE withGuard
  simp only [(market_keeper_passes_regardless_of_other_role t ⟨hm, he, hb⟩).1]
  cases hp : p.factor k <;> simp [factorHandler, runFactorE, factorUpdatable_eq, hp, hg, hc']

theorem keeper_any_flag_any_role_table (t : RoleTable) (h : IsLiveKeeper t) (p : Perms) (x : Flag) (b : Bool) (c : Cfg) :
    updateFlagE t p (some x) b c = (c.setFlag x b, .ok ()) := by
  obtain ⟨hm, he, hb⟩ := h
  have hg : guardRes t [.MARKET_KEEPER] = .ok () := by simp [guardRes, ensureAnyE, hasRoleE, hm, he, hb]
  unfold updateFlagE withGuard
  simp only [(market_keeper_passes_regardless_of_other_role t ⟨hm, he, hb⟩).2.1]
  cases hp : p.flag x <;> simp [flagHandler, runFlagE, hp, hg]

theorem keeper_buffer_any_role_table (t : RoleTable) (h : IsLiveKeeper t) (p : Perms) (now expiry : Int) (es : List Entry) (c : Cfg)
    (hexp : expiry > now) : updateWithBufferE t p true now expiry es c = applyEntries es c := by
  obtain ⟨hm, he, hb⟩ := h
  have hg : guardRes t [.MARKET_KEEPER] = .ok () := by simp [guardRes, ensureAnyE, hasRoleE, hm, he, hb]
  have happly : ∀ r : Res, (match r with | (c', .ok ()) => runBufferE t p now expiry es [] c' | r => r) = r := by
    intro r; obtain ⟨c', e⟩ := r; cases e with
    | ok u => cases u; simp [runBufferE]
    | error e => rfl
  unfold updateWithBufferE withGuard
  simp only [(market_keeper_passes_regardless_of_other_role t ⟨hm, he, hb⟩).2.2]
  simp [bufferHandler, runBufferE, hexp, hg]
  exact happly _

/-- a non-member, or a member holding neither role while both are enabled, is rejected unchanged -/
theorem stranger_rejected_any_role_table (t : RoleTable) (p : Perms)
    (h : t.member = false ∨ (t.state .MARKET_KEEPER = .enabled ∧ t.state .MARKET_CONFIG_KEEPER = .enabled ∧
          t.bit .MARKET_KEEPER = false ∧ t.bit .MARKET_CONFIG_KEEPER = false)) :
    (∀ k v c, (updateFactorE t p k v c).1 = c ∧ (updateFactorE t p k v c).2 = .error .permissionDenied) ∧
    (∀ x b c, (updateFlagE t p x b c).1 = c ∧ (updateFlagE t p x b c).2 = .error .permissionDenied) := by
  have hg : ∀ ix, (info ix).attr = some [.MARKET_KEEPER, .MARKET_CONFIG_KEEPER] → guardE (info ix).attr t = .error .permissionDenied := by
    intro ix hix; rw [hix]
    rcases h with hm | ⟨h1, h2, h3, h4⟩
    · simp [guardE, ensureAnyE, hasRoleE, hm]
    · cases hm : t.member <;> simp [guardE, ensureAnyE, hasRoleE, hm, h1, h2, h3, h4]
  constructor
  · intro k v c; unfold updateFactorE withGuard; rw [hg _ (by decide)]; simp [ofG]
  · intro x b c; unfold updateFlagE withGuard; rw [hg _ (by decide)]; simp [ofG]

/-- OBSERVATION about the code as it is (source order MARKET_KEEPER first): a MARKET_CONFIG_KEEPER is
rejected — with `NotFound` / `PreconditionsAreNotMet`, config untouched — while the MARKET_KEEPER role
is not enabled in the store, even for an updatable key. The property does not promise otherwise (a
config keeper is only bounded by the allow list), but the dependency is real. -/
theorem config_keeper_needs_enabled_keeper_role_witness :
    let t : RoleTable := ⟨fun r => if r = .MARKET_CONFIG_KEEPER then .enabled else .never, true, fun r => r == .MARKET_CONFIG_KEEPER⟩
    updateFactorE t ⟨fun _ => true, fun _ => true⟩ (some .ReserveFactor) 7 Cfg.zero = (Cfg.zero, .error .notFound) := by
  rfl

/-! ## non-vacuity -/
def onlyMck : Role → Bool := fun r => r == .MARKET_CONFIG_KEEPER
def permsReserve : Perms := ⟨fun k => k == .ReserveFactor, fun _ => false⟩
example : (updateFactor onlyMck permsReserve (some .ReserveFactor) 7 Cfg.zero).2 = .ok () := by rfl
example : (updateFactor onlyMck permsReserve (some .OpenInterestReserveFactor) 7 Cfg.zero).2 = .error .permissionDenied := by rfl
example : allUpdatable permsReserve [(Key.index .ReserveFactor, 1), (Key.index .MinCollateralValue, 2)] = false := by decide +kernel
example : (updateWithBuffer onlyMck permsReserve true 10 11 [(Key.index .ReserveFactor, 1), (Key.index .MinCollateralValue, 2)] Cfg.zero).2
    = .error .permissionDenied := by rfl
example : ((updateWithBuffer onlyMck permsReserve true 10 11 [(Key.index .ReserveFactor, 1), (Key.index .ReserveFactor, 5)] Cfg.zero).1.get .ReserveFactor)
    = some 5 := by decide +kernel

/-! ## audit additions -/

def onlyMk : Role → Bool := fun r => r == .MARKET_KEEPER
def noRole : Role → Bool := fun _ => false

/-- `keeper_any_key` on a key that is NOT updatable for config keepers -/
example : ∃ c', Cfg.zero.set .MinCollateralValue 7 = some c' ∧
    updateFactor onlyMk permsReserve (some .MinCollateralValue) 7 Cfg.zero = (c', .ok ()) :=
  keeper_any_key onlyMk permsReserve .MinCollateralValue 7 Cfg.zero rfl
/-- `config_keeper_only_updatable`, both branches (the premises `p.factor k = true/false` are both met) -/
example : ∃ c', Cfg.zero.set .ReserveFactor 7 = some c' ∧
    updateFactor onlyMck permsReserve (some .ReserveFactor) 7 Cfg.zero = (c', .ok ()) :=
  (config_keeper_only_updatable onlyMck permsReserve .ReserveFactor 7 Cfg.zero rfl rfl).1 (by decide)
example : updateFactor onlyMck permsReserve (some .MinCollateralValue) 7 Cfg.zero = (Cfg.zero, .error .permissionDenied) :=
  (config_keeper_only_updatable onlyMck permsReserve .MinCollateralValue 7 Cfg.zero rfl rfl).2 (by decide)
example : updateFactor noRole permsReserve (some .ReserveFactor) 7 Cfg.zero = (Cfg.zero, .error .permissionDenied) :=
  (stranger_rejected noRole permsReserve rfl rfl).1 _ _ _
example : updateWithBuffer noRole permsReserve true 10 11 [(Key.index .ReserveFactor, 1)] Cfg.zero
    = (Cfg.zero, .error .permissionDenied) :=
  (stranger_rejected noRole permsReserve rfl rfl).2.2 _ _ _ _ _
example : updateFlag onlyMk permsReserve (some .EnableMarketClosedParams) true Cfg.zero
    = (Cfg.zero.setFlag .EnableMarketClosedParams true, .ok ()) :=
  flag_keeper_any onlyMk permsReserve .EnableMarketClosedParams true Cfg.zero rfl
example : updateFlag onlyMck ⟨fun _ => false, fun x => x == .EnableMarketClosedParams⟩ (some .EnableMarketClosedParams) true Cfg.zero
    = (Cfg.zero.setFlag .EnableMarketClosedParams true, .ok ()) :=
  (flag_config_keeper_only_updatable onlyMck _ .EnableMarketClosedParams true Cfg.zero rfl rfl).1 (by decide)
example : updateFlag onlyMck permsReserve (some .EnableMarketClosedParams) true Cfg.zero
    = (Cfg.zero, .error .permissionDenied) :=
  (flag_config_keeper_only_updatable onlyMck permsReserve .EnableMarketClosedParams true Cfg.zero rfl rfl).2 (by decide)

/-- `buffer_all_or_nothing`: an updatable entry FIRST, a non-updatable one after it — nothing is written -/
example : (updateWithBuffer onlyMck permsReserve true 10 11
      [(Key.index .ReserveFactor, 1), (Key.index .MinCollateralValue, 2)] Cfg.zero).1 = Cfg.zero :=
  (buffer_all_or_nothing onlyMck permsReserve 10 11 _ Cfg.zero rfl rfl (by decide +kernel)).1
/-- … and an undecodable raw key counts as not updatable -/
example : allUpdatable permsReserve [(Key.index .ReserveFactor, 1), (60000, 2)] = false := by decide +kernel
example : (updateWithBuffer onlyMk permsReserve true 11 11 [(Key.index .ReserveFactor, 1)] Cfg.zero).1 = Cfg.zero ∧
    (updateWithBuffer onlyMk permsReserve true 11 11 [(Key.index .ReserveFactor, 1)] Cfg.zero).2 ≠ .ok () :=
  expired_buffer_rejected onlyMk permsReserve true 11 11 _ Cfg.zero (by decide)
/-- `buffer_applies_in_order`: both disjuncts of the permission premise -/
example : updateWithBuffer onlyMk permsReserve true 10 11 [(Key.index .MinCollateralValue, 2), (Key.index .ReserveFactor, 1)] Cfg.zero
    = applyEntries [(Key.index .MinCollateralValue, 2), (Key.index .ReserveFactor, 1)] Cfg.zero :=
  keeper_buffer_any_keys onlyMk permsReserve 10 11 _ Cfg.zero (by decide) rfl
example : updateWithBuffer onlyMck permsReserve true 10 11 [(Key.index .ReserveFactor, 1), (Key.index .ReserveFactor, 5)] Cfg.zero
    = applyEntries [(Key.index .ReserveFactor, 1), (Key.index .ReserveFactor, 5)] Cfg.zero :=
  buffer_applies_in_order onlyMck permsReserve 10 11 _ Cfg.zero (by decide) (.inr ⟨rfl, by decide +kernel⟩)
/-- … and `applyEntries` really succeeds there (the right-hand side above is not an error) -/
example : (applyEntries [(Key.index .MinCollateralValue, 2), (Key.index .ReserveFactor, 1)] Cfg.zero).2 = .ok () ∧
    (applyEntries [(Key.index .MinCollateralValue, 2), (Key.index .ReserveFactor, 1)] Cfg.zero).1.get .MinCollateralValue = some 2 :=
  ⟨by rfl, by decide +kernel⟩
/-- `applyEntries` stops at the first undecodable raw key, KEEPING the writes made before it (this is
inside the handler; only the runtime's rollback undoes them) -/
example : (applyEntries [(Key.index .ReserveFactor, 1), (60000, 2)] Cfg.zero).2 = .error .invalidKey ∧
    (applyEntries [(Key.index .ReserveFactor, 1), (60000, 2)] Cfg.zero).1.get .ReserveFactor = some 1 :=
  ⟨by rfl, by decide +kernel⟩

/-! role tables: a live market keeper with the OTHER role never enabled / disabled / enabled -/
def tKeeper (other : RoleState) : RoleTable :=
  ⟨fun r => if r = .MARKET_KEEPER then .enabled else other, true, fun r => r == .MARKET_KEEPER⟩
example : IsLiveKeeper (tKeeper .never) ∧ IsLiveKeeper (tKeeper .disabled) ∧ IsLiveKeeper (tKeeper .enabled) := by
  refine ⟨⟨rfl, rfl, rfl⟩, ⟨rfl, rfl, rfl⟩, ⟨rfl, rfl, rfl⟩⟩
example : guardE (info .store_update_market_config).attr (tKeeper .never) = .ok () :=
  (market_keeper_passes_regardless_of_other_role (tKeeper .never) ⟨rfl, rfl, rfl⟩).1
example : ∃ c', Cfg.zero.set .MinCollateralValue 7 = some c' ∧
    updateFactorE (tKeeper .disabled) permsReserve (some .MinCollateralValue) 7 Cfg.zero = (c', .ok ()) :=
  keeper_any_key_any_role_table (tKeeper .disabled) ⟨rfl, rfl, rfl⟩ permsReserve .MinCollateralValue 7 Cfg.zero
example : updateFlagE (tKeeper .never) permsReserve (some .EnableMarketClosedParams) true Cfg.zero
    = (Cfg.zero.setFlag .EnableMarketClosedParams true, .ok ()) :=
  keeper_any_flag_any_role_table (tKeeper .never) ⟨rfl, rfl, rfl⟩ permsReserve .EnableMarketClosedParams true Cfg.zero
example : updateWithBufferE (tKeeper .never) permsReserve true 10 11 [(Key.index .MinCollateralValue, 2)] Cfg.zero
    = applyEntries [(Key.index .MinCollateralValue, 2)] Cfg.zero :=
  keeper_buffer_any_role_table (tKeeper .never) ⟨rfl, rfl, rfl⟩ permsReserve 10 11 _ Cfg.zero (by decide)
/-- `stranger_rejected_any_role_table`, both disjuncts of its premise -/
example : (updateFactorE ⟨fun _ => .enabled, false, fun _ => true⟩ permsReserve (some .ReserveFactor) 7 Cfg.zero).2
    = .error .permissionDenied :=
  ((stranger_rejected_any_role_table ⟨fun _ => .enabled, false, fun _ => true⟩ permsReserve (.inl rfl)).1 _ _ _).2
example : (updateFactorE ⟨fun _ => .enabled, true, fun r => r == .ORDER_KEEPER⟩ permsReserve (some .ReserveFactor) 7 Cfg.zero).2
    = .error .permissionDenied :=
  ((stranger_rejected_any_role_table ⟨fun _ => .enabled, true, fun r => r == .ORDER_KEEPER⟩ permsReserve
      (.inr ⟨rfl, rfl, rfl, rfl⟩)).1 _ _ _).2

/-- a caller who is a member and holds MARKET_CONFIG_KEEPER only, with BOTH roles enabled in the store -/
def IsLiveConfigKeeper (t : RoleTable) : Prop :=
  t.member = true ∧ t.state .MARKET_KEEPER = .enabled ∧ t.bit .MARKET_KEEPER = false ∧
  t.state .MARKET_CONFIG_KEEPER = .enabled ∧ t.bit .MARKET_CONFIG_KEEPER = true

/-- The role-table (order-sensitive) counterpart of `config_keeper_only_updatable`, which the file
only had for the Boolean guard: with both roles enabled, a config keeper writes exactly the updatable
keys and is refused (`PermissionDenied`, config untouched) on the others. Together with
`config_keeper_needs_enabled_keeper_role_witness` this delimits the config keeper completely. -/
theorem config_keeper_only_updatable_role_table (t : RoleTable) (h : IsLiveConfigKeeper t) (p : Perms)
    (k : Key) (v : Nat) (c : Cfg) :
    (p.factor k = true → ∃ c', c.set k v = some c' ∧ updateFactorE t p (some k) v c = (c', .ok ())) ∧
    (p.factor k = false → updateFactorE t p (some k) v c = (c, .error .permissionDenied)) := by
  obtain ⟨hm, he1, hb1, he2, hb2⟩ := h
  obtain ⟨c', hc'⟩ := set_some c k v
  have hgE : guardE (info .store_update_market_config).attr t = .ok () := by
    simp [guardE, info, ensureAnyE, hasRoleE, hm, he1, hb1, he2, hb2]
  have hg : guardRes t [.MARKET_KEEPER] = .error .permissionDenied := by
    simp [guardRes, ensureAnyE, hasRoleE, hm, he1, hb1, ofG]
  constructor
  · intro hu
    refine ⟨c', hc', ?_⟩
    unfold updateFactorE withGuard
    simp only [hgE]
    simp [factorHandler, runFactorE, factorUpdatable_eq, hu, hc']
  · intro hu
    unfold updateFactorE withGuard
    simp only [hgE]
    simp [factorHandler, runFactorE, factorUpdatable_eq, hu, hg]

def tConfigKeeper : RoleTable := ⟨fun _ => .enabled, true, fun r => r == .MARKET_CONFIG_KEEPER⟩
example : ∃ c', Cfg.zero.set .ReserveFactor 7 = some c' ∧
    updateFactorE tConfigKeeper permsReserve (some .ReserveFactor) 7 Cfg.zero = (c', .ok ()) :=
  (config_keeper_only_updatable_role_table tConfigKeeper ⟨rfl, rfl, rfl, rfl, rfl⟩ permsReserve .ReserveFactor 7 Cfg.zero).1
    (by decide)
example : updateFactorE tConfigKeeper permsReserve (some .MinCollateralValue) 7 Cfg.zero = (Cfg.zero, .error .permissionDenied) :=
  (config_keeper_only_updatable_role_table tConfigKeeper ⟨rfl, rfl, rfl, rfl, rfl⟩ permsReserve .MinCollateralValue 7 Cfg.zero).2
    (by decide)

/-- `stranger_rejected_any_role_table` omits the third instruction; the buffer variant is rejected for
the same callers too, config untouched (a foreign buffer is refused even earlier) -/
theorem stranger_buffer_rejected_any_role_table (t : RoleTable) (p : Perms)
    (h : t.member = false ∨ (t.state .MARKET_KEEPER = .enabled ∧ t.state .MARKET_CONFIG_KEEPER = .enabled ∧
          t.bit .MARKET_KEEPER = false ∧ t.bit .MARKET_CONFIG_KEEPER = false)) :
    ∀ owned now expiry es c, updateWithBufferE t p owned now expiry es c = (c, .error .permissionDenied) := by
  have hg : guardE (info .store_update_market_config_with_buffer).attr t = .error .permissionDenied := by
    have hix : (info .store_update_market_config_with_buffer).attr = some [.MARKET_KEEPER, .MARKET_CONFIG_KEEPER] := by decide
    rw [hix]
    rcases h with hm | ⟨h1, h2, h3, h4⟩
    · simp [guardE, ensureAnyE, hasRoleE, hm]
    · cases hm : t.member <;> simp [guardE, ensureAnyE, hasRoleE, hm, h1, h2, h3, h4]
  intro owned now expiry es c
  unfold updateWithBufferE withGuard
  rw [hg]
  cases owned <;> simp [ofG]

example : updateWithBufferE ⟨fun _ => .enabled, false, fun _ => true⟩ permsReserve true 10 11 [(Key.index .ReserveFactor, 1)] Cfg.zero
    = (Cfg.zero, .error .permissionDenied) :=
  stranger_buffer_rejected_any_role_table _ permsReserve (.inl rfl) _ _ _ _ _

end Gmx.C20
