import Gmx.Model.MarketOpen
/-!
# C27 — market openness follows the per-feed status policy and freshness

All theorems are for ALL `i64` timestamps (hypotheses `I64_MIN ≤ · ≤ I64_MAX`) and ALL `u32`
timeouts / last-update differences, all status bytes and all flag bytes.
-/
namespace Gmx.C27
open Gmx.MarketOpen

/-- the saturating arithmetic of the code decides exactly the exact-integer freshness
condition — including every overflow / underflow case near ±2^63. -/
theorem fresh_iff (now ts : Int) (timeout d : Nat)
    (hn : -(2 ^ 63) ≤ now ∧ now ≤ 2 ^ 63 - 1) (ht : -(2 ^ 63) ≤ ts ∧ ts ≤ 2 ^ 63 - 1)
    (hto : timeout < 2 ^ 32) (hd : d < 2 ^ 32) :
    freshCode now ts timeout d ↔ freshSpec now ts timeout d := by
  unfold freshCode freshSpec satSub
  simp only []
  repeat' split
  all_goals omega

/-- **`is_market_open` = the specification**: open exactly when the status is not closed under
the policy flags, the price carries the open flag, and — when last-update tracking is enabled —
both the report and the underlying last update are no older than the timeout. -/
theorem isMarketOpen_spec (statusValue priceFlags diff : Nat) (ts now : Int) (timeout polFlags : Nat)
    (hn : -(2 ^ 63) ≤ now ∧ now ≤ 2 ^ 63 - 1) (ht : -(2 ^ 63) ≤ ts ∧ ts ≤ 2 ^ 63 - 1)
    (hto : timeout < 2 ^ 32) (hd : diff < 2 ^ 32) :
    isMarketOpen statusValue priceFlags diff ts now timeout polFlags = true ↔
      openness (statusOf statusValue) polFlags ≠ .closed ∧ bit priceFlags 0 = true ∧
      (∀ d, lastUpdateDiffSecs priceFlags diff = some d → freshSpec now ts timeout d) := by
  unfold isMarketOpen
  by_cases h1 : openness (statusOf statusValue) polFlags = .closed
  · simp [h1]
  · by_cases h2 : bit priceFlags 0 = true
    · cases h3 : lastUpdateDiffSecs priceFlags diff with
      | none => simp [h1, h2]
      | some d =>
        have hd32 : d < 2 ^ 32 := by
          unfold lastUpdateDiffSecs at h3
          split at h3
          · cases h3
          · split at h3
            · cases h3; exact hd
            · cases h3; unfold divCeil; split <;> omega
        have key := fresh_iff now ts timeout d hn ht hto hd32
        unfold freshCode at key
        constructor
        · intro h
          refine ⟨h1, h2, ?_⟩
          intro d' hd'
          cases hd'
          apply key.1
          simp only [h1, h2, if_false, Bool.not_true, Bool.false_eq_true] at h
          by_cases h4 : satSub now ts > (timeout : Int)
          · simp [h4] at h
          · simp only [h4, if_false, decide_eq_true_eq] at h
            exact ⟨h4, h⟩
        · rintro ⟨_, _, hf⟩
          have hc := key.2 (hf d rfl)
          simp only [h1, h2, if_false, Bool.not_true, Bool.false_eq_true, hc.1, decide_eq_true_eq]
          exact hc.2
    · simp [h1, h2]

/-- **freshness is a hard floor**: with tracking enabled a stale report or a stale last update
is closed whatever the status and the policy flags say. -/
theorem stale_is_closed (statusValue priceFlags diff : Nat) (ts now : Int) (timeout polFlags d : Nat)
    (hn : -(2 ^ 63) ≤ now ∧ now ≤ 2 ^ 63 - 1) (ht : -(2 ^ 63) ≤ ts ∧ ts ≤ 2 ^ 63 - 1)
    (hto : timeout < 2 ^ 32) (hd : diff < 2 ^ 32)
    (htrack : lastUpdateDiffSecs priceFlags diff = some d)
    (hstale : now - ts > (timeout : Int) ∨ now - (ts - (d : Int)) > (timeout : Int)) :
    isMarketOpen statusValue priceFlags diff ts now timeout polFlags = false := by
  cases h : isMarketOpen statusValue priceFlags diff ts now timeout polFlags with
  | false => rfl
  | true =>
    have := ((isMarketOpen_spec statusValue priceFlags diff ts now timeout polFlags hn ht hto hd).1 h).2.2 d htrack
    unfold freshSpec at this
    omega

/-- without last-update tracking only the status policy and the open flag matter. -/
theorem untracked (statusValue priceFlags diff : Nat) (ts now : Int) (timeout polFlags : Nat)
    (h : bit priceFlags 1 = false) :
    isMarketOpen statusValue priceFlags diff ts now timeout polFlags =
      (decide (openness (statusOf statusValue) polFlags ≠ .closed) && bit priceFlags 0) := by
  unfold isMarketOpen lastUpdateDiffSecs
  by_cases h1 : openness (statusOf statusValue) polFlags = .closed <;>
    by_cases h2 : bit priceFlags 0 = true <;> simp [h, h1, h2]

/-- **status × policy decision table**, for every flag byte: which bit governs which status. -/
theorem openness_table : ∀ f : Fin 256,
    openness .disabled f.val = .skip ∧
    openness .unknown f.val = openIf (bit f.val 0) ∧
    openness .preMarket f.val = openIf (bit f.val 1) ∧
    openness .regularHours f.val = openIf (!bit f.val 2) ∧
    openness .postMarket f.val = openIf (bit f.val 3) ∧
    openness .overnight f.val = openIf (bit f.val 4) ∧
    openness .closed f.val = openIf (bit f.val 5) := by
  intro f; exact ⟨rfl, rfl, rfl, rfl, rfl, rfl, rfl⟩

/-- the all-zero (unconfigured) policy: only RegularHours is open, Disabled defers, the rest
is closed; each single flag flips exactly its own status. -/
theorem default_policy_and_single_flags :
    (List.map (fun s => openness s 0) [.disabled, .unknown, .preMarket, .regularHours, .postMarket, .overnight, .closed]
      = [.skip, .closed, .closed, .open, .closed, .closed, .closed]) ∧
    (∀ i : Fin 6, List.map (fun s => openness s (2 ^ i.val))
        [.disabled, .unknown, .preMarket, .regularHours, .postMarket, .overnight, .closed] =
      [.skip, openIf (i.val == 0), openIf (i.val == 1), openIf (i.val != 2), openIf (i.val == 3),
        openIf (i.val == 4), openIf (i.val == 5)]) := by
  decide

/-- every stored status byte: 1..6 are the named statuses, everything else is `Disabled`. -/
theorem statusOf_table : ∀ v : Fin 256, statusOf v.val =
    (if v.val = 1 then .unknown else if v.val = 2 then .preMarket else if v.val = 3 then .regularHours
     else if v.val = 4 then .postMarket else if v.val = 5 then .overnight else if v.val = 6 then .closed
     else .disabled) := by
  intro v
  unfold statusOf
  split <;> simp_all

set_option maxRecDepth 8000 in
/-- the full decision over all 7 × 64 (status, policy) pairs × open flag, without tracking. -/
theorem decision_table : ∀ (s : Fin 7) (f : Fin 64) (o : Fin 2),
    isMarketOpen s.val o.val 0 0 0 0 f.val =
      (o.val == 1 && (match s.val with
        | 0 => true | 1 => bit f.val 0 | 2 => bit f.val 1 | 3 => !bit f.val 2
        | 4 => bit f.val 3 | 5 => bit f.val 4 | _ => bit f.val 5)) := by
  decide +kernel

/-- nanoseconds are converted to whole seconds rounding UP (the age is never under-estimated). -/
theorem diff_secs_ceil (n : Nat) :
    n ≤ divCeil n 1000000000 * 1000000000 ∧ divCeil n 1000000000 * 1000000000 < n + 1000000000 := by
  unfold divCeil
  split <;> omega

/-! ### Non-vacuity (the repo's own boundary tests) -/
example : isMarketOpen 0 1 0 0 (2 ^ 63 - 1) 0 0 = true := by decide
example : isMarketOpen 0 3 (2 ^ 32 - 1) (-(2 ^ 63)) (2 ^ 63 - 1) (2 ^ 32 - 1) 0 = false := by decide
example : isMarketOpen 0 3 (2 ^ 32 - 1) (2 ^ 63 - 1) (-(2 ^ 63)) 0 0 = true := by decide
example : isMarketOpen 0 7 (2 ^ 32 - 11) (2 ^ 63 - 11) (2 ^ 63 - 1) (2 ^ 32 - 2) 0 = false := by decide
example : isMarketOpen 0 7 (2 ^ 32 - 11) (2 ^ 63 - 11) (2 ^ 63 - 1) (2 ^ 32 - 1) 0 = true := by decide
example : isMarketOpen 6 1 0 0 0 (2 ^ 32 - 1) 0 = false := by decide
example : isMarketOpen 6 1 0 0 0 (2 ^ 32 - 1) 32 = true := by decide
example : freshSpec 100 90 10 0 ∧ ¬ freshSpec 100 90 10 1 := by unfold freshSpec; omega

/-! ### Non-vacuity added by the audit (B6): the theorems instantiated on concrete inputs -/
-- `fresh_iff` in the ordinary range and at the saturating corner (`now − ts` overflows i64)
example : freshCode 100 90 12 2 :=
  (fresh_iff 100 90 12 2 (by omega) (by omega) (by omega) (by omega)).2 (by unfold freshSpec; omega)
example : ¬ freshCode (2 ^ 63 - 1) (-(2 ^ 63)) (2 ^ 32 - 1) 0 := fun h =>
  absurd ((fresh_iff (2 ^ 63 - 1) (-(2 ^ 63)) (2 ^ 32 - 1) 0 (by omega) (by omega) (by omega) (by omega)).1 h)
    (by unfold freshSpec; omega)
-- `isMarketOpen_spec` with tracking enabled (flags 7 = open + tracking + seconds), RegularHours:
-- the open market yields the exact-integer freshness of report and last update
example : freshSpec 100 90 12 2 :=
  ((isMarketOpen_spec 3 7 2 90 100 12 0 (by omega) (by omega) (by omega) (by omega)).1 (by decide)).2.2 2 (by decide)
-- ... and conversely (the `←` direction builds an open market from the three clauses)
example : isMarketOpen 3 7 2 90 100 12 0 = true :=
  (isMarketOpen_spec 3 7 2 90 100 12 0 (by omega) (by omega) (by omega) (by omega)).2
    ⟨by decide, by decide, fun d hd => by
      have : d = 2 := by
        have e : lastUpdateDiffSecs 7 2 = some 2 := by decide
        rw [e] at hd; exact (Option.some.inj hd).symm
      subst this; unfold freshSpec; omega⟩
-- `stale_is_closed`: the report itself is fresh (10 ≤ 12) but the last update is 5 s older (15 > 12);
-- status RegularHours and the open flag would otherwise open the market
example : isMarketOpen 3 7 5 90 100 12 0 = false :=
  stale_is_closed 3 7 5 90 100 12 0 5 (by omega) (by omega) (by omega) (by omega) (by decide) (by omega)
example : isMarketOpen 3 7 2 90 100 12 0 = true ∧ isMarketOpen 3 7 5 90 100 12 0 = false := by decide
-- nanosecond tracking (flags 3): 2.5 s are counted as 3 s
example : lastUpdateDiffSecs 3 2500000000 = some 3 := by decide
example : isMarketOpen 3 3 2500000000 90 100 13 0 = true ∧ isMarketOpen 3 3 2500000000 90 100 12 0 = false := by
  decide
-- `untracked`: price flag bit 1 clear; the stale report (age 100 > timeout 0) does not matter
example : isMarketOpen 3 1 0 0 100 0 0 = true :=
  (untracked 3 1 0 0 100 0 0 (by decide)).trans (by decide)
-- `diff_secs_ceil` on a non-multiple
example : 2500000000 ≤ divCeil 2500000000 1000000000 * 1000000000 ∧
    divCeil 2500000000 1000000000 * 1000000000 < 2500000000 + 1000000000 := diff_secs_ceil 2500000000

/-- AUDIT (B6), new: **openness only decays with time** — with the same report, status and policy,
a market open at `now'` was open at every earlier instant `now ≤ now'`; equivalently, once a
report has gone stale it stays closed until a new report arrives (covers tracked and untracked
reports, and timestamps in the future of `now`). -/
theorem open_earlier (statusValue priceFlags diff : Nat) (ts now now' : Int) (timeout polFlags : Nat)
    (hn : -(2 ^ 63) ≤ now ∧ now ≤ 2 ^ 63 - 1) (hn' : -(2 ^ 63) ≤ now' ∧ now' ≤ 2 ^ 63 - 1)
    (ht : -(2 ^ 63) ≤ ts ∧ ts ≤ 2 ^ 63 - 1) (hto : timeout < 2 ^ 32) (hd : diff < 2 ^ 32)
    (hle : now ≤ now')
    (h : isMarketOpen statusValue priceFlags diff ts now' timeout polFlags = true) :
    isMarketOpen statusValue priceFlags diff ts now timeout polFlags = true := by
  obtain ⟨h1, h2, h3⟩ := (isMarketOpen_spec statusValue priceFlags diff ts now' timeout polFlags hn' ht hto hd).1 h
  refine (isMarketOpen_spec statusValue priceFlags diff ts now timeout polFlags hn ht hto hd).2 ⟨h1, h2, ?_⟩
  intro d hd'
  have := h3 d hd'
  unfold freshSpec at this ⊢
  omega
example : isMarketOpen 3 7 2 90 95 12 0 = true :=
  open_earlier 3 7 2 90 95 100 12 0 (by omega) (by omega) (by omega) (by omega) (by omega) (by omega) (by decide)

/-! ### The policy a verdict is computed under survives every re-configuration of the feed -/

/-- switching the feed id, the timestamp adjustment or the deviation ratio — in any order, any number of
times — leaves the market-status policy, and therefore the openness verdict of every status, untouched;
only `set_market_status_flag` changes it -/
theorem policy_survives_reconfiguration (c : FeedCfg) (ops : List CfgOp)
    (h : ∀ op ∈ ops, op.isSetFlag = false) (s : Status) :
    (c.run ops).flags = c.flags ∧ openness s (c.run ops).flags = openness s c.flags := by
  have key : (c.run ops).flags = c.flags := by
    unfold FeedCfg.run
    induction ops generalizing c with
    | nil => rfl
    | cons op ops ih =>
      simp only [List.foldl_cons]
      rw [ih (c.apply op) (fun o ho => h o (List.mem_cons_of_mem _ ho))]
      have := h op List.mem_cons_self
      cases op <;> simp_all [FeedCfg.apply, CfgOp.isSetFlag]
  exact ⟨key, by rw [key]⟩

/-- a feed switch in the middle of a history: the flags set before it are still in force after it -/
example : ((⟨1, 0, 0, 0⟩ : FeedCfg).run [.setFlag 2 true, .withFeed 9, .withTsAdj 5]).flags = 4 ∧
    openness .regularHours ((⟨1, 0, 0, 0⟩ : FeedCfg).run [.setFlag 2 true, .withFeed 9, .withTsAdj 5]).flags = .closed := by decide

end Gmx.C27
