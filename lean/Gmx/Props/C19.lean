import Gmx.Model.Access
import Gmx.Gen.StoreBinding
import Gmx.Gen.Constraints
import Gmx.Gen.ConstraintsReviewed
import Gmx.Gen.ConstraintFacts
import Gmx.Model.Handover
/-!
# C19 — privileged instructions reject callers without the required role

The table `Gmx.Gen.Access.info` is REGENERATED from the five programs' `lib.rs`, handler and
accounts-struct sources on every run. An instruction must be either on the reviewed allow-list of
instructions that need no privilege by design, or guarded.
-/
namespace Gmx.C19
open Gmx.Gen.Access Gmx.Access

/-- Reviewed allow-list: instructions that carry no `access_control` attribute and whose accounts
struct does not tie an account to the signer — each with the reason it needs no role. -/
def unprivileged : List IxId := [
  -- permissionless PDA initialisers (the address is derived; the payer only pays rent)
  .store_initialize, .store_initialize_token_map, .store_initialize_oracle, .store_initialize_callback_authority,
  .store_prepare_associated_token_account, .store_prepare_gt_exchange_vault,
  .treasury_initialize_config, .timelock_initialize_executor, .liquidity_provider_initialize,
  .competition_create_participant_idempotent,
  -- the signer becomes the authority of the buffer it creates (own account)
  .store_initialize_market_config_buffer,
  -- read-only views (no writable account / return data only)
  .store_check_admin, .store_check_role, .store_has_admin, .store_has_role,
  .store_is_token_config_enabled, .store_token_expected_provider, .store_token_feed,
  .store_token_timestamp_adjustment, .store_token_name, .store_token_decimals, .store_token_precision,
  .store_get_market_status, .store_get_market_token_price, .liquidity_provider_calculate_gt_reward,
  -- the store checks ownership of the exchange in the CPI the handler makes (reviewed, not extracted)
  .treasury_complete_gt_exchange,
  -- permissionless crank: pays the recorded builder fee to the recorded builder only
  .store_settle_builder_fee,
  -- callbacks: the signer must be the store's callback-authority PDA (`seeds::program = CALLER_PROGRAM_ID`)
  .competition_on_created, .competition_on_updated, .competition_on_executed, .competition_on_closed
]

/-- every instruction is allow-listed, guarded by attribute / account constraints, or performs an
authority check inside its handler (extracted by the translator into `handlerAuth`) -/
theorem policy_complete : ∀ ix : IxId, unprivileged.contains ix = true ∨ Protected ix = true := by
  intro ix; cases ix <;> decide +kernel

/-- every attribute-less instruction that can write an account and is neither on the by-design
allow-list nor checked in its handler is OWNER-BOUND: some account is tied to a signer by the accounts
struct, so only the recorded owner can present it (exercised natively by `c19 ocall`) -/
theorem writable_unguarded_is_owner_bound :
    ∀ ix : IxId, (info ix).attr = none → (info ix).writable = true → handlerAuth ix = .none →
      unprivileged.contains ix = false → OwnerBound ix = true := by
  intro ix; cases ix <;> decide +kernel

/-- liquidity-provider and competition carry no `access_control` attribute at all: every one of their
instructions is owner-bound or on the allow-list -/
theorem lp_competition_owner_bound :
    ∀ ix : IxId, ((info ix).program = .liquidity_provider ∨ (info ix).program = .competition) →
      (info ix).attr = none ∧ (OwnerBound ix = true ∨ unprivileged.contains ix = true) := by
  intro ix; cases ix <;> decide +kernel

/-- a signer who is not the recorded owner never gets past account validation of an owner-bound
instruction; the recorded owner does -/
theorem owner_call_semantics (ix : IxId) (h : OwnerBound ix = true) :
    ownerCallPasses ix false = false ∧ ownerCallPasses ix true = true := by
  simp [ownerCallPasses, h]

/-! ## a role in store A is no role in store B -/
open Gmx.Gen.StoreBinding in
/-- state accounts of role-guarded instructions that the accounts struct does NOT tie to the `store`
whose roles are checked — reviewed, each with its reason -/
def foreignStateAllowed : List (IxId × String) := [
  -- the callback authority is ONE global PDA of the store program (`seeds = [CALLBACK_AUTHORITY_SEED]`), not per-store state
  (.store_execute_increase_or_swap_order_v2, "callback_authority"),
  (.store_execute_decrease_order_v2, "callback_authority"),
  -- passed on to the store CPI, whose own accounts struct binds it (`oracle: has_one = store`)
  (.treasury_confirm_gt_buyback, "oracle"),
  -- a fresh account created by this very instruction (`init`) and bound to the (store-bound) executor by the handler
  (.timelock_create_instruction_buffer, "instruction_buffer")
]

open Gmx.Gen.StoreBinding in
/-- is the state account tied, directly or through other accounts of the struct, to the store? -/
def storeBound (b : Binding) : Bool :=
  match b with
  | .unbound | .noStore => false
  | _ => true

open Gmx.Gen.StoreBinding in
/-- every state account of every role-guarded instruction is bound to the store whose roles the guard
checks (`has_one = store`, store key in the seeds, referenced by the store, a constraint naming it,
or transitively through an account that is) — except the reviewed allow-list. So the role holder of
store A cannot apply the instruction to state of store B. -/
theorem store_binding_complete :
    ∀ ix : IxId, (info ix).attr.isSome = true →
      ((stateAccounts ix).all fun a => storeBound a.binding || foreignStateAllowed.contains (ix, a.name)) = true := by
  intro ix; cases ix <;> decide +kernel

open Gmx.Gen.StoreBinding in
/-- the allow-list is tight: every entry is a guarded instruction's state account that really is unbound -/
theorem foreign_allowlist_tight :
    (foreignStateAllowed.all fun p => (info p.1).attr.isSome &&
      (stateAccounts p.1).any fun a => a.name == p.2 && !storeBound a.binding) = true := by
  decide +kernel

/-! ## account constraints are how authority and ownership are enforced -/

/-- EVERY relation Anchor enforces on EVERY field of EVERY accounts struct of the five programs (type,
signer / mut / init, `has_one`, `constraint`, `seeds`, `seeds::program`, `bump`, `address`, `owner`, `close`,
`token::*`, `associated_token::*`, `mint::*`, …) is exactly the reviewed one (pinned in
translator/c19_expected_constraints.json). A dropped, weakened or added constraint anywhere breaks
this; the translator prints the readable diff (struct.field, relation). -/
theorem constraints_match_reviewed : Gmx.Gen.Constraints.rows = Gmx.Gen.ConstraintsReviewed.rows := by
  decide +kernel

/-- the lamports of a closed account go to a signer of the call or to the account the closed account itself
names (`has_one`) — except the two reviewed cases: a config buffer is closed by its (signing, `has_one`)
authority towards a receiver of its choice; a virtual inventory's rent goes to the store's wallet PDA -/
theorem close_targets_bound :
    (Gmx.Gen.ConstraintFacts.closeTargets.all fun r =>
      r.2.2.1 || r.2.2.2 ||
      r.1 == "store::CloseMarketConfigBuffer.buffer" || r.1 == "store::CloseVirtualInventory.virtual_inventory") = true := by
  decide +kernel

/-- the in-handler authority checks, exactly: the six owner-or-keeper `close_*` (ORDER_KEEPER, only
for finished actions), `close_glv_shift` (keeper only: it also carries the attribute),
`claim_fees_from_market` (treasury receiver), `approve_instruction(s)` (timelocked role) -/
theorem handler_auth_table :
    ∀ ix : IxId, handlerAuth ix =
      (if [IxId.store_close_deposit, .store_close_withdrawal, .store_close_order_v2, .store_close_shift,
           .store_close_glv_deposit, .store_close_glv_withdrawal].contains ix then .closeOwnerOrKeeper .ORDER_KEEPER false
       else if ix = .store_close_glv_shift then .closeOwnerOrKeeper .ORDER_KEEPER true
       else if ix = .store_claim_fees_from_market then .treasuryReceiver
       else if ix = .timelock_approve_instruction ∨ ix = .timelock_approve_instructions then .timelockedRole
       else .none) := by
  intro ix; cases ix <;> decide +kernel

/-- an instruction relying ONLY on its in-handler check (no attribute, no owner-bound account) is one
of the nine reviewed ones -/
theorem handler_only_instructions :
    ∀ ix : IxId, Guarded ix = false → handlerAuth ix ≠ .none →
      [IxId.store_close_deposit, .store_close_withdrawal, .store_close_order_v2, .store_close_shift,
       .store_close_glv_deposit, .store_close_glv_withdrawal, .store_claim_fees_from_market,
       .timelock_approve_instruction, .timelock_approve_instructions].contains ix = true := by
  intro ix; cases ix <;> decide +kernel

/-- the keeper role of every owner-or-keeper close is the one its own docs name -/
theorem close_keeper_role_documented :
    ∀ ix : IxId, (match handlerAuth ix with
      | .closeOwnerOrKeeper r _ => (info ix).docRoles.contains r
      | _ => true) = true := by
  intro ix; cases ix <;> decide +kernel

/-- `Close::preprocess`: a caller that neither owns the action nor holds the keeper role is rejected;
a keeper may close only finished actions (unless the implementation skips that check); the owner
always may -/
theorem close_policy (isOwner hasRole skip completed : Bool) :
    (isOwner = false → hasRole = false → closeAllowed isOwner hasRole skip completed = false) ∧
    (isOwner = false → skip = false → completed = false → closeAllowed isOwner hasRole skip completed = false) ∧
    (isOwner = true → closeAllowed isOwner hasRole skip completed = true) ∧
    (hasRole = true → completed = true → closeAllowed isOwner hasRole skip completed = true) := by
  cases isOwner <;> cases hasRole <;> cases skip <;> cases completed <;> decide

/-- a stranger (no role at all, owner of nothing, not the receiver) fails every in-handler check -/
theorem stranger_fails_handler_checks (ix : IxId) (completed : Bool) (h : handlerAuth ix ≠ .none) :
    handlerAuthOk ⟨fun _ => false, false, false, false⟩ completed (handlerAuth ix) = false := by
  cases ix <;> first | exact absurd rfl h | (cases completed <;> rfl)

/-- the allow-list hides nothing: no entry carries an attribute (those are guarded anyway), entries
are distinct, and none of them calls an `unchecked_*` handler -/
theorem allowlist_is_tight :
    (∀ ix ∈ unprivileged, (info ix).attr = none ∧ (info ix).callsUnchecked = false ∧ handlerAuth ix = .none) ∧ unprivileged.Nodup := by
  decide +kernel

/-- the repo's naming convention: a handler named `unchecked_*` / `*_unchecked` does no permission
check of its own, so the instruction calling it must carry the attribute -/
theorem unchecked_naming : ∀ ix : IxId, (info ix).callsUnchecked = true → (info ix).attr.isSome = true := by
  intro ix; cases ix <;> decide +kernel

/-- the role phrase in the instruction's own `# Errors`/`# Accounts` doc sections agrees with the
attribute: if the docs name any role, one of the accepted roles is among them -/
theorem doc_role_matches_attr :
    ∀ ix : IxId, ∀ rs, (info ix).attr = some rs → (info ix).docRoles = [] ∨ (rs.any fun r => (info ix).docRoles.contains r) = true := by
  intro ix; cases ix <;> decide +kernel

/-- … and docs never promise a role that nothing enforces: a documented role without attribute only
on the owner-or-keeper `close_*` instructions -/
theorem doc_role_without_attr :
    ∀ ix : IxId, (info ix).attr = none → (info ix).docRoles ≠ [] →
      [IxId.store_close_deposit, .store_close_withdrawal, .store_close_order_v2, .store_close_shift,
       .store_close_glv_deposit, .store_close_glv_withdrawal].contains ix = true := by
  intro ix; cases ix <;> decide +kernel

/-- an attribute never accepts an empty role set (which would reject everybody) -/
theorem attr_roles_nonempty : ∀ ix : IxId, ∀ rs, (info ix).attr = some rs → rs ≠ [] := by
  intro ix; cases ix <;> decide +kernel

/-- guard evaluated before the handler: a signer lacking every accepted role gets
`PermissionDenied` and the handler has not touched the state -/
theorem guard_rejects {σ : Type} (ix : IxId) (has : Role → Bool) (handler : σ → σ × Except Err Unit) (s : σ)
    (rs : List Role) (hattr : (info ix).attr = some rs) (hno : ∀ r ∈ rs, has r = false) :
    run ix has handler s = (s, .error .permissionDenied) := by
  unfold run guardOk
  rw [hattr]
  have : rs.any has = false := by
    rw [List.any_eq_false]; intro r hr; simp [hno r hr]
  simp [this]

/-- … and with an accepted role the handler's own outcome is returned unchanged -/
theorem guard_accepts {σ : Type} (ix : IxId) (has : Role → Bool) (handler : σ → σ × Except Err Unit) (s : σ)
    (rs : List Role) (hattr : (info ix).attr = some rs) (r : Role) (hr : r ∈ rs) (hhas : has r = true) :
    run ix has handler s = handler s := by
  unfold run guardOk
  rw [hattr]
  have : rs.any has = true := List.any_eq_true.2 ⟨r, hr, hhas⟩
  simp [this]

/-- Anchor `init` creates accounts during account validation, i.e. BEFORE the attribute guard runs.
For exactly these guarded instructions a rejected call has already created an account inside the
(failed, rolled back) transaction: "a rejection leaves all accounts unchanged" rests on runtime
atomicity for them and on the guard alone for every other guarded instruction. (Observed natively
as `denied init-only`.) -/
theorem init_before_guard :
    ∀ ix : IxId, (info ix).attr.isSome = true → (info ix).inits > 0 →
      [IxId.store_initialize_price_feed, .store_initialize_market, .store_initialize_market_vault,
       .store_use_claimable_account, .store_liquidate, .store_auto_deleverage, .store_initialize_glv,
       .store_insert_glv_market, .store_remove_glv_market, .store_create_glv_shift,
       .store_create_virtual_inventory_for_swaps, .store_create_virtual_inventory_for_positions,
       .treasury_initialize_treasury_vault_config, .treasury_claim_fees, .treasury_prepare_gt_bank,
       .timelock_initialize_config, .timelock_create_instruction_buffer].contains ix = true := by
  intro ix; cases ix <;> decide +kernel

/-- Guards that accept MORE THAN ONE role are order-sensitive (`ensure_has_any_role` asks the roles in
source order and `has_role` fails for a role that is not enabled): the only such guards are those of
the three market-config instructions, whose order and role-table configurations are covered by C20
(`market_keeper_passes_regardless_of_other_role`, native `c20 rt …` runs). -/
theorem multi_role_guards :
    ∀ ix : IxId, ∀ rs, (info ix).attr = some rs → rs.length > 1 →
      [IxId.store_update_market_config, .store_update_market_config_flag, .store_update_market_config_with_buffer].contains ix = true := by
  intro ix; cases ix <;> decide +kernel

/-- the three market-config instructions accept exactly MARKET_KEEPER or MARKET_CONFIG_KEEPER (used by C20) -/
theorem market_config_guards :
    (info .store_update_market_config).attr = some [.MARKET_KEEPER, .MARKET_CONFIG_KEEPER] ∧
    (info .store_update_market_config_flag).attr = some [.MARKET_KEEPER, .MARKET_CONFIG_KEEPER] ∧
    (info .store_update_market_config_with_buffer).attr = some [.MARKET_KEEPER, .MARKET_CONFIG_KEEPER] := by
  decide +kernel

/-! ## two-step handover of the store authority / the treasury receiver

`accept_store_authority` and `accept_receiver` carry no role attribute: the privilege they require is
*being the nominated successor*. The theorems below say that this privilege exists only between a
nomination by the current holder and its acceptance — in particular a displaced holder has none. -/
section Handover
open Gmx.Handover

/-- a nomination is accepted only from the current holder -/
theorem transfer_requires_holder (s s' : Slot) (signer nxt : Nat) (h : s.transfer signer nxt = some s') :
    signer = s.cur ∧ s'.cur = s.cur ∧ s'.next = nxt := by
  unfold Slot.transfer at h
  split at h
  · cases h
  · split at h
    · cases h
    · cases h; rename_i h1 _; exact ⟨by simpa using h1, rfl, rfl⟩

/-- an acceptance succeeds only for the nominated key, only while a nomination is pending, and consumes it -/
theorem accept_requires_nomination (s s' : Slot) (signer : Nat) (h : s.accept signer = some s') :
    signer = s.next ∧ s.next ≠ s.cur ∧ s'.cur = signer ∧ s'.next = signer := by
  unfold Slot.accept at h
  split at h
  · cases h
  · split at h
    · cases h
    · cases h; rename_i h1 h2
      have : signer = s.next := by simpa using h1
      exact ⟨this, fun e => h2 e.symm, this.symm ▸ rfl, this.symm ▸ rfl⟩

/-- after a handover nobody can accept again until the NEW holder nominates somebody -/
theorem no_reaccept (s s' : Slot) (signer : Nat) (h : s.accept signer = some s') (anyone : Nat) :
    s'.accept anyone = none := by
  obtain ⟨_, _, hc, hn⟩ := accept_requires_nomination s s' signer h
  unfold Slot.accept
  split
  · rfl
  · simp [hc, hn]

/-- a signer that is neither the holder nor the nominated successor has every instruction rejected and
the slot unchanged -/
theorem stranger_rejected (s : Slot) (op : Op) (h1 : op.signer ≠ s.cur) (h2 : op.signer ≠ s.next) :
    s.step op = none := by
  cases op with
  | transfer sg n => simp [Slot.step, Slot.transfer, Op.signer] at *; intro h; exact absurd h h1
  | accept sg => simp [Slot.step, Slot.accept, Op.signer] at *; intro h; exact absurd h h2

/-- … for any number of attempts -/
theorem stranger_powerless (s : Slot) (ops : List Op)
    (h : ∀ op ∈ ops, op.signer ≠ s.cur ∧ op.signer ≠ s.next) : s.run ops = s := by
  induction ops with
  | nil => rfl
  | cons op rest ih =>
    have h0 := h op (by simp)
    have : s.apply op = s := by simp [Slot.apply, stranger_rejected s op h0.1 h0.2]
    simp only [Slot.run, List.foldl_cons, this]
    exact ih (fun o ho => h o (by simp [ho]))

/-- THE handover property: once `new` has accepted, the displaced holder `old` — signing any sequence of
`transfer_*` / `accept_*` on its own — changes nothing: it is neither holder nor nominee any more. -/
theorem displaced_holder_powerless (s s' : Slot) (new : Nat) (hacc : s.accept new = some s')
    (ops : List Op) (hops : ∀ op ∈ ops, op.signer = s.cur) : s'.run ops = s' := by
  obtain ⟨hs, hne, hc, hn⟩ := accept_requires_nomination s s' new hacc
  apply stranger_powerless
  intro op hop
  rw [hops op hop, hc, hn, hs]
  exact ⟨fun e => hne e.symm, fun e => hne e.symm⟩

/-- the holder changes only by accepting a nomination made by the then-holder: along any history, every
state's holder is the initial one or a key some earlier holder nominated -/
theorem holder_was_nominated (s : Slot) (ops : List Op) :
    (s.run ops).cur = s.cur ∨ (s.run ops).cur = s.next ∨
      ∃ sg n, Op.transfer sg n ∈ ops ∧ (s.run ops).cur = n := by
  induction ops generalizing s with
  | nil => left; rfl
  | cons op rest ih =>
    simp only [Slot.run, List.foldl_cons]
    have ih' := ih (s.apply op)
    simp only [Slot.run] at ih'
    cases hstep : s.step op with
    | none =>
      have e : s.apply op = s := by simp [Slot.apply, hstep]
      rw [e] at ih' ⊢
      rcases ih' with h | h | ⟨sg, n, hm, h⟩
      · exact .inl h
      · exact .inr (.inl h)
      · exact .inr (.inr ⟨sg, n, by simp [hm], h⟩)
    | some s1 =>
      have e : s.apply op = s1 := by simp [Slot.apply, hstep]
      rw [e] at ih' ⊢
      cases op with
      | transfer sg0 n0 =>
        obtain ⟨_, hc, hn⟩ := transfer_requires_holder s s1 sg0 n0 hstep
        rcases ih' with h | h | ⟨sg, n, hm, h⟩
        · exact .inl (h.trans hc)
        · exact .inr (.inr ⟨sg0, n0, by simp, h.trans hn⟩)
        · exact .inr (.inr ⟨sg, n, by simp [hm], h⟩)
      | accept sg0 =>
        obtain ⟨hs, _, hc, hn⟩ := accept_requires_nomination s s1 sg0 hstep
        rcases ih' with h | h | ⟨sg, n, hm, h⟩
        · exact .inr (.inl (h.trans (hc.trans hs)))
        · exact .inr (.inl (h.trans (hn.trans hs)))
        · exact .inr (.inr ⟨sg, n, by simp [hm], h⟩)

/-! non-vacuity: a full handover 1 → 2, after which 1 is rejected and 2 can nominate -/
example : (Slot.init 1).run [.transfer 1 2, .accept 2] = ⟨2, 2⟩ := by decide
example : (Slot.init 1).run [.transfer 1 2, .accept 2, .accept 1, .transfer 1 3, .accept 3] = ⟨2, 2⟩ := by decide
example : (Slot.init 1).run [.transfer 1 2, .accept 2, .transfer 2 1, .accept 1] = ⟨1, 1⟩ := by decide
/-! audit additions: each handover theorem instantiated on the 1 → 2 handover -/
example : 1 = (Slot.init 1).cur ∧ (⟨1, 2⟩ : Slot).cur = (Slot.init 1).cur ∧ (⟨1, 2⟩ : Slot).next = 2 :=
  transfer_requires_holder (Slot.init 1) ⟨1, 2⟩ 1 2 (by decide)
example : 2 = (⟨1, 2⟩ : Slot).next ∧ (⟨1, 2⟩ : Slot).next ≠ (⟨1, 2⟩ : Slot).cur ∧
    (⟨2, 2⟩ : Slot).cur = 2 ∧ (⟨2, 2⟩ : Slot).next = 2 :=
  accept_requires_nomination ⟨1, 2⟩ ⟨2, 2⟩ 2 (by decide)
example : (⟨2, 2⟩ : Slot).accept 1 = none := no_reaccept ⟨1, 2⟩ ⟨2, 2⟩ 2 (by decide) 1
example : (⟨1, 2⟩ : Slot).step (.accept 3) = none := stranger_rejected ⟨1, 2⟩ (.accept 3) (by decide) (by decide)
example : (⟨1, 2⟩ : Slot).run [.accept 3, .transfer 3 3, .transfer 4 1] = ⟨1, 2⟩ :=
  stranger_powerless _ _ (by decide)
example : (⟨2, 2⟩ : Slot).run [.transfer 1 3, .accept 1, .transfer 1 1] = ⟨2, 2⟩ :=
  displaced_holder_powerless ⟨1, 2⟩ ⟨2, 2⟩ 2 (by decide) _ (by decide)
/-- `holder_was_nominated`: the third disjunct is needed (the holder after two handovers is neither the
initial holder nor the initial nominee) -/
example : ((Slot.init 1).run [.transfer 1 2, .accept 2, .transfer 2 3, .accept 3]).cur = 3 ∧
    (3 : Nat) ≠ (Slot.init 1).cur ∧ (3 : Nat) ≠ (Slot.init 1).next := by decide

/-- Per-step sharpening of `holder_was_nominated` (whose third disjunct accepts ANY `transfer` op in the
history, including rejected ones signed by strangers): the holder changes only through an `accept`
signed by the pending nominee … -/
theorem holder_changes_only_by_accept (s : Slot) (op : Op) (h : (s.apply op).cur ≠ s.cur) :
    op = .accept s.next ∧ s.next ≠ s.cur ∧ (s.apply op).cur = s.next := by
  cases hstep : s.step op with
  | none => simp [Slot.apply, hstep] at h
  | some s1 =>
    have e : s.apply op = s1 := by simp [Slot.apply, hstep]
    rw [e] at h ⊢
    cases op with
    | transfer sg n =>
      obtain ⟨_, hc, _⟩ := transfer_requires_holder s s1 sg n hstep
      exact absurd hc h
    | accept sg =>
      obtain ⟨hs, hne, hc, _⟩ := accept_requires_nomination s s1 sg hstep
      exact ⟨by rw [hs], hne, hc.trans hs⟩

/-- … and the nominee changes only through a `transfer` signed by the CURRENT holder -/
theorem nominee_changes_only_by_holder (s : Slot) (op : Op) (h : (s.apply op).next ≠ s.next) :
    ∃ n, op = .transfer s.cur n ∧ (s.apply op).next = n := by
  cases hstep : s.step op with
  | none => simp [Slot.apply, hstep] at h
  | some s1 =>
    have e : s.apply op = s1 := by simp [Slot.apply, hstep]
    rw [e] at h ⊢
    cases op with
    | transfer sg n =>
      obtain ⟨hs, _, hn⟩ := transfer_requires_holder s s1 sg n hstep
      exact ⟨n, by rw [hs], hn⟩
    | accept sg =>
      obtain ⟨hs, _, _, hn⟩ := accept_requires_nomination s s1 sg hstep
      exact absurd (hn.trans hs) h

example : Op.accept 2 = .accept (⟨1, 2⟩ : Slot).next ∧ (⟨1, 2⟩ : Slot).next ≠ (⟨1, 2⟩ : Slot).cur ∧
    ((⟨1, 2⟩ : Slot).apply (.accept 2)).cur = (⟨1, 2⟩ : Slot).next :=
  holder_changes_only_by_accept ⟨1, 2⟩ (.accept 2) (by decide)
example : ∃ n, Op.transfer 1 2 = .transfer (Slot.init 1).cur n ∧ ((Slot.init 1).apply (.transfer 1 2)).next = n :=
  nominee_changes_only_by_holder (Slot.init 1) (.transfer 1 2) (by decide)
end Handover

/-! ## non-vacuity -/
example : Guarded .store_market_transfer_in = true ∧ (info .store_market_transfer_in).attr = some [.MARKET_KEEPER] := by decide +kernel
example : Guarded .store_create_deposit = true ∧ (info .store_create_deposit).attr = none := by decide +kernel
example : run (σ := Nat) .store_market_transfer_in (fun _ => false) (fun s => (s + 1, .ok ())) 5 = (5, .error .permissionDenied) := by rfl
example : run (σ := Nat) .store_market_transfer_in (fun r => r == .MARKET_KEEPER) (fun s => (s + 1, .ok ())) 5 = (6, .ok ()) := by rfl

/-! ## audit additions: the premises of the table theorems are met by many instructions, and the
reviewed lists in their conclusions are tight -/

/-- how many instructions satisfy the premises of, in this order: `writable_unguarded_is_owner_bound`,
`lp_competition_owner_bound`, `owner_call_semantics`, `store_binding_complete` (with at least one state
account), `handler_only_instructions`, `stranger_fails_handler_checks`, `unchecked_naming`,
`doc_role_matches_attr` (second disjunct), `doc_role_without_attr`, `init_before_guard`, `multi_role_guards` -/
example :
    (IxId.all.filter fun ix => (info ix).attr == none && (info ix).writable && handlerAuth ix == .none
        && !unprivileged.contains ix).length ≥ 20 ∧
    (IxId.all.filter fun ix => (info ix).program == .liquidity_provider || (info ix).program == .competition).length ≥ 10 ∧
    (IxId.all.filter fun ix => OwnerBound ix).length ≥ 20 ∧
    (IxId.all.filter fun ix => (info ix).attr.isSome && !(Gmx.Gen.StoreBinding.stateAccounts ix).isEmpty).length ≥ 50 ∧
    (IxId.all.filter fun ix => !Guarded ix && handlerAuth ix != .none).length = 9 ∧
    (IxId.all.filter fun ix => handlerAuth ix != .none).length ≥ 9 ∧
    (IxId.all.filter fun ix => (info ix).callsUnchecked).length ≥ 50 ∧
    (IxId.all.filter fun ix => (info ix).attr.isSome && (info ix).docRoles != []).length ≥ 30 ∧
    (IxId.all.filter fun ix => (info ix).attr == none && (info ix).docRoles != []).length = 6 ∧
    (IxId.all.filter fun ix => (info ix).attr.isSome && decide ((info ix).inits > 0)).length = 17 ∧
    (IxId.all.filter fun ix => match (info ix).attr with | some rs => decide (rs.length > 1) | none => false).length = 3 := by
  decide +kernel

/-- the reviewed lists in the conclusions of `handler_only_instructions`, `doc_role_without_attr`,
`init_before_guard` and `multi_role_guards` contain no entry that does not satisfy the premises
(so each of those theorems is an "exactly these") -/
theorem reviewed_lists_are_tight :
    ([IxId.store_close_deposit, .store_close_withdrawal, .store_close_order_v2, .store_close_shift,
      .store_close_glv_deposit, .store_close_glv_withdrawal, .store_claim_fees_from_market,
      .timelock_approve_instruction, .timelock_approve_instructions].all
        fun ix => !Guarded ix && handlerAuth ix != .none) = true ∧
    ([IxId.store_close_deposit, .store_close_withdrawal, .store_close_order_v2, .store_close_shift,
      .store_close_glv_deposit, .store_close_glv_withdrawal].all
        fun ix => (info ix).attr == none && (info ix).docRoles != []) = true ∧
    ([IxId.store_initialize_price_feed, .store_initialize_market, .store_initialize_market_vault,
      .store_use_claimable_account, .store_liquidate, .store_auto_deleverage, .store_initialize_glv,
      .store_insert_glv_market, .store_remove_glv_market, .store_create_glv_shift,
      .store_create_virtual_inventory_for_swaps, .store_create_virtual_inventory_for_positions,
      .treasury_initialize_treasury_vault_config, .treasury_claim_fees, .treasury_prepare_gt_bank,
      .timelock_initialize_config, .timelock_create_instruction_buffer].all
        fun ix => (info ix).attr.isSome && decide ((info ix).inits > 0)) = true ∧
    ([IxId.store_update_market_config, .store_update_market_config_flag, .store_update_market_config_with_buffer].all
        fun ix => match (info ix).attr with | some rs => decide (rs.length > 1) | none => false) = true := by
  decide +kernel

/-- `policy_complete` is not satisfied through one disjunct only: both kinds exist, and some
instruction is protected ONLY by its in-handler check -/
example : unprivileged.length ≥ 20 ∧ (IxId.all.filter fun ix => Protected ix).length ≥ 100 ∧
    (IxId.all.filter fun ix => Protected ix && !Guarded ix).length = 9 := by decide +kernel

/-- `owner_call_semantics`, `stranger_fails_handler_checks`, `guard_rejects`, `guard_accepts` instantiated -/
example : ownerCallPasses .store_create_deposit false = false ∧ ownerCallPasses .store_create_deposit true = true :=
  owner_call_semantics .store_create_deposit (by decide +kernel)
example : handlerAuthOk ⟨fun _ => false, false, false, false⟩ true (handlerAuth .store_close_deposit) = false :=
  stranger_fails_handler_checks .store_close_deposit true (by decide +kernel)
/-- … while the owner, and a keeper on a finished action, pass the same check (the check is not constant `false`) -/
example : handlerAuthOk ⟨fun _ => false, true, false, false⟩ false (handlerAuth .store_close_deposit) = true ∧
    handlerAuthOk ⟨fun r => r == .ORDER_KEEPER, false, false, false⟩ true (handlerAuth .store_close_deposit) = true ∧
    handlerAuthOk ⟨fun r => r == .ORDER_KEEPER, false, false, false⟩ false (handlerAuth .store_close_deposit) = false := by
  decide +kernel
example : run (σ := Nat) .store_market_transfer_in (fun _ => false) (fun s => (s + 1, .ok ())) 5 = (5, .error .permissionDenied) :=
  guard_rejects _ _ _ _ [.MARKET_KEEPER] (by decide +kernel) (by intro r _; rfl)
example : run (σ := Nat) .store_market_transfer_in (fun r => r == .MARKET_KEEPER) (fun s => (s + 1, .ok ())) 5 = (6, .ok ()) :=
  guard_accepts _ _ _ _ [.MARKET_KEEPER] (by decide +kernel) .MARKET_KEEPER (by simp) (by decide)
/-- a two-role guard: the SECOND role alone is accepted by the Boolean guard (`guard_accepts` with `r` not the head) -/
example : run (σ := Nat) .store_update_market_config (fun r => r == .MARKET_CONFIG_KEEPER) (fun s => (s + 1, .ok ())) 5 = (6, .ok ()) :=
  guard_accepts _ _ _ _ [.MARKET_KEEPER, .MARKET_CONFIG_KEEPER] market_config_guards.1 .MARKET_CONFIG_KEEPER (by simp) (by decide)
/-- `store_binding_complete` / `foreign_allowlist_tight`: an unbound state account really occurs -/
example : (Gmx.Gen.StoreBinding.stateAccounts .timelock_create_instruction_buffer).any
    (fun a => a.name == "instruction_buffer" && !storeBound a.binding) = true := by decide +kernel

end Gmx.C19
