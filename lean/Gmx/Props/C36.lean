import Gmx.Model.Timelock
import Gmx.Lemmas.Timelock
/-!
# C36 — timelocked instructions run only as approved, after the delay

Model: `Gmx.Model.Timelock`. A history is any list of `Op` (create / approve / cancel / execute /
increase-delay / role grants and revocations, each with its own clock value and arbitrary arguments);
`run` returns the final state and the list of `Event`s of the successful operations.
-/
namespace Gmx.C36
open Gmx.Tl

/-- **Execution requires**: the buffer is approved, its approver holds the timelocked role of the
buffer's executor *now*, the clock has reached `approved_at ⊕ delay`, and the caller is a keeper.
The executed instruction is exactly the buffered one and the buffer is closed. -/
theorem execute_requires {s s' : St} {now : Int} {caller id r rr : Nat} {ix : Ix}
    (h : exec s now caller id r rr = some (s', ix)) :
    ∃ b a, s.bufs id = some b ∧ b.approved = true ∧ b.approver = some a ∧
      s.mem a (tld b.role) = true ∧ executableAt b.approvedAt s.delay ≤ now ∧
      s.mem caller KEEPER = true ∧ ix = b.ix ∧ s'.bufs id = none := by
  obtain ⟨b, a, hb, _, _, hk, ha, hm, hap, ht, hix, rfl⟩ := exec_some h
  exact ⟨b, a, hb, hap, ha, hm, ht, hk, hix, by simp [bufs_setBuf]⟩

/-- The delay clause at full strength wherever `approved_at + delay` fits `i64` (every realistic clock):
at least `delay` seconds have passed since approval. -/
theorem execute_delay_partial {s s' : St} {now : Int} {caller id r rr : Nat} {ix : Ix}
    (h : exec s now caller id r rr = some (s', ix)) :
    ∃ b, s.bufs id = some b ∧ (b.approvedAt + s.delay ≤ I64MAX → b.approvedAt + s.delay ≤ now) := by
  obtain ⟨b, a, hb, _, _, _, _, _, _, ht, _, _⟩ := exec_some h
  refine ⟨b, hb, ?_⟩
  intro hfit
  unfold executableAt at ht
  split at ht <;> omega

/-- Finding F-C36-sat (witness): when `approved_at + delay` exceeds `i64::MAX` the deadline saturates, so at
clock `i64::MAX` the instruction runs although fewer than `delay` seconds have passed since approval. -/
theorem execute_delay_witness :
    let b : Buf := ⟨0, true, 2 ^ 63 - 108, some 2, 4, ⟨1, "-", []⟩⟩
    let s : St := ⟨600, fun u r => (u == 0 && r == KEEPER) || (u == 2 && r == tld 0), fun i => if i = 0 then some b else none⟩
    (exec s (2 ^ 63 - 1) 0 0 0 4).isSome = true ∧ (2 ^ 63 - 1 : Int) < b.approvedAt + s.delay := by
  decide

/-! ## account binding: the delay that gates execution is the delay of the store's OWN config

`execute_instruction` reads the delay from whichever `TimelockConfig` account it is handed. The
`has_one = store` constraints make that the config of the store whose roles were checked; a config
account is a PDA of `[SEED, store]`, so there is exactly one per store. -/

/-- accounts of another store are rejected, whatever they say -/
theorem execWith_foreign_rejected (me : Nat) (s : St) (a : Supplied) (now : Int) (caller id r rr : Nat)
    (h : a.cfgStore ≠ me ∨ a.exeStore ≠ me ∨ a.bufExeOwn = false) : execWith me s a now caller id r rr = none := by
  unfold execWith
  rcases h with h | h | h
  · simp [h]
  · by_cases h1 : a.cfgStore = me <;> simp [h, h1]
  · by_cases h1 : a.cfgStore = me <;> by_cases h2 : a.exeStore = me <;> simp [h, h1, h2]

/-- with the store's own accounts the instruction is exactly `exec` -/
theorem execWith_own (me : Nat) (s : St) (now : Int) (caller id r rr : Nat) :
    execWith me s (own me s) now caller id r rr = exec s now caller id r rr := by
  unfold execWith own
  simp only [ne_eq, not_true_eq_false, if_false, Bool.not_true, Bool.false_eq_true]
  have : ({ s with delay := s.delay } : St) = s := rfl
  rw [this]
  cases h : exec s now caller id r rr with
  | none => rfl
  | some p =>
    obtain ⟨s', ix⟩ := p
    obtain ⟨b, a, hb, _, _, _, _, _, _, _, _, rfl⟩ := exec_some h
    rfl

/-- **The delay clause over supplied accounts**: whatever config account is passed — as long as the only
config that names this store carries the store's delay (PDA uniqueness) — a successful execution happened
no earlier than `approved_at ⊕ the store's own delay`. -/
theorem execWith_respects_own_delay (me : Nat) {s s' : St} {a : Supplied} {now : Int} {caller id r rr : Nat} {ix : Ix}
    (huniq : a.cfgStore = me → a.cfgDelay = s.delay)
    (h : execWith me s a now caller id r rr = some (s', ix)) :
    ∃ b, s.bufs id = some b ∧ b.approved = true ∧ executableAt b.approvedAt s.delay ≤ now ∧ ix = b.ix := by
  unfold execWith at h
  split at h
  · cases h
  · rename_i hc
    split at h
    · cases h
    · split at h
      · cases h
      · have hd : a.cfgDelay = s.delay := huniq (by simpa using hc)
        rw [hd] at h
        have : ({ s with delay := s.delay } : St) = s := rfl
        rw [this] at h
        cases he : exec s now caller id r rr with
        | none => rw [he] at h; cases h
        | some p =>
          obtain ⟨s1, ix1⟩ := p
          rw [he] at h
          simp only [Option.some.injEq, Prod.mk.injEq] at h
          obtain ⟨b, _, hb, hap, _, _, ht, _, hix, _⟩ := execute_requires he
          exact ⟨b, hb, hap, ht, h.2 ▸ hix⟩

theorem increaseDelayWith_foreign_rejected (me : Nat) (s : St) (a : Supplied) (caller delta : Nat)
    (h : a.cfgStore ≠ me) : increaseDelayWith me s a caller delta = none := by
  simp [increaseDelayWith, h]

theorem approve_cancel_foreign_rejected (me : Nat) (s : St) (a : Supplied) (now : Int) (caller id r rr : Nat)
    (h : a.exeStore ≠ me ∨ a.bufExeOwn = false) :
    approveWith me s a now caller id r = none ∧ cancelWith me s a caller id r rr = none := by
  unfold approveWith cancelWith
  rcases h with h | h
  · simp [h]
  · by_cases h1 : a.exeStore = me <;> simp [h, h1]

/-- non-vacuity: the same approved buffer runs with the own config after the delay, and not with a foreign
config of delay 0 one second after approval -/
example :
    let b : Buf := ⟨0, true, 1000, some 2, 4, ⟨1, "-", []⟩⟩
    let s : St := ⟨600, fun u r => (u == 0 && r == KEEPER) || (u == 2 && r == tld 0), fun i => if i = 0 then some b else none⟩
    (execWith 0 s (own 0 s) 1600 0 0 0 4).isSome = true ∧ (execWith 0 s (own 0 s) 1599 0 0 0 4).isSome = false ∧
    (execWith 0 s ⟨1, 0, 0, true⟩ 1001 0 0 0 4).isSome = false := by decide

/-- **Approval happens at most once**: approving requires an unapproved buffer of the executor named by
the role, by a holder of the timelocked role; it records approver and time and leaves the buffered
instruction untouched … -/
theorem approve_spec {s s' : St} {now : Int} {caller id r : Nat} (h : approve s now caller id r = some s') :
    ∃ b, s.bufs id = some b ∧ b.role = r ∧ s.mem caller (tld r) = true ∧ b.approved = false ∧ b.approver = none ∧
      s'.bufs id = some { b with approved := true, approvedAt := now, approver := some caller } ∧
      ∀ i, i ≠ id → s'.bufs i = s.bufs i := by
  obtain ⟨b, hb, hr, hm, h1, h2, rfl⟩ := approve_some h
  refine ⟨b, hb, hr, hm, h1, h2, by simp [bufs_setBuf], ?_⟩
  intro i hi; simp [bufs_setBuf, hi]

/-- … and an approved buffer can never be approved again (by anyone, at any time). -/
theorem approve_once {s : St} (hI : Inv s) {b : Buf} {id : Nat} (hb : s.bufs id = some b)
    (ha : b.approved = true ∨ b.approver.isSome = true) (now : Int) (caller r : Nat) :
    approve s now caller id r = none := by
  have hf := hI.flag id b hb
  have h1 : b.approved = true := by rcases ha with h | h; exact h; exact hf.2 h
  simp [approve, hb, h1]

/-! ## batch approval (`approve_instructions`) and "approved by a holder of the corresponding role" -/

/-- **Batch approval is a list of ordinary approvals for ONE executor**: a successful batch means the caller holds
the timelocked role named by the call and EVERY listed buffer satisfies the conclusion of `approve_spec` for that same
role — it exists, belongs to that role's executor, was unapproved, and is now approved by the caller at `now` with its
instruction untouched; unlisted buffers, the delay and the role table are unchanged; no buffer is listed twice. -/
theorem approveBatch_spec {s s' : St} {now : Int} {caller r : Nat} {ids : List Nat}
    (h : approveBatch s now caller r ids = some s') :
    s.mem caller (tld r) = true ∧
    (∀ id, id ∈ ids → ∃ b, s.bufs id = some b ∧ b.role = r ∧ s.mem caller (tld b.role) = true ∧
        b.approved = false ∧ b.approver = none ∧
        s'.bufs id = some { b with approved := true, approvedAt := now, approver := some caller }) ∧
    (∀ id, id ∉ ids → s'.bufs id = s.bufs id) ∧ s'.delay = s.delay ∧ s'.mem = s.mem ∧ ids.Nodup := by
  obtain ⟨hm, hd, hmem, hin, hout, hnd⟩ := approveBatch_some ids h
  refine ⟨hm, ?_, hout, hd, hmem, hnd⟩
  intro id hid
  obtain ⟨b, hb, hr, h1, h2, hs'⟩ := hin id hid
  exact ⟨b, hb, hr, by rw [hr]; exact hm, h1, h2, hs'⟩

/-- **A batch containing a buffer of another role's executor is rejected as a whole** (so is one containing a missing
or an already approved buffer) — nothing is approved. -/
theorem approveBatch_foreign_rejected (s : St) (now : Int) (caller r : Nat) (ids : List Nat) (id : Nat) (hid : id ∈ ids)
    (hbad : ∀ b, s.bufs id = some b → b.role ≠ r ∨ b.approved = true) :
    approveBatch s now caller r ids = none := by
  rcases Option.eq_none_or_eq_some (approveBatch s now caller r ids) with h | ⟨s', h⟩
  · exact h
  · obtain ⟨_, _, _, hin, _, _⟩ := approveBatch_some ids h
    obtain ⟨b, hb, hr, hna, _, _⟩ := hin id hid
    rcases hbad b hb with h1 | h1
    · exact absurd hr h1
    · rw [hna] at h1; cases h1

/-- the batch is equivalent to approving its buffers one after the other (when the caller holds the role). -/
theorem approveBatch_cons (s : St) (now : Int) (caller r id : Nat) (ids : List Nat) :
    approveBatch s now caller r (id :: ids) = (approve s now caller id r).bind (fun s1 => approveBatch s1 now caller r ids) := by
  simp only [approveBatch]
  cases approve s now caller id r <;> rfl

/-- **Batch cancel is a list of ordinary cancels for ONE executor and ONE rent receiver**: a successful batch means the
caller is a TIMELOCK_ADMIN and every listed buffer existed, belonged to the executor named by the call, recorded the
rent receiver named by the call (who therefore gets its rent) and is closed; unlisted buffers, the delay and the role
table are unchanged; no buffer is listed twice. -/
theorem cancelBatch_spec {s s' : St} {caller r rr : Nat} {ids : List Nat}
    (h : cancelBatch s caller r rr ids = some s') :
    s.mem caller ADMIN = true ∧
    (∀ id, id ∈ ids → ∃ b, s.bufs id = some b ∧ b.role = r ∧ b.rentReceiver = rr ∧ s'.bufs id = none) ∧
    (∀ id, id ∉ ids → s'.bufs id = s.bufs id) ∧ s'.delay = s.delay ∧ s'.mem = s.mem ∧ ids.Nodup := by
  obtain ⟨hm, hd, hmem, hin, hout, hnd⟩ := cancelBatch_some ids h
  exact ⟨hm, hin, hout, hd, hmem, hnd⟩

/-- **One bad buffer rejects the whole batch cancel**: a listed buffer that is missing, belongs to another role's
executor or records another rent receiver — or a caller who is not an admin — and nothing is cancelled. -/
theorem cancelBatch_bad_rejected (s : St) (caller r rr : Nat) (ids : List Nat)
    (hbad : s.mem caller ADMIN = false ∨ ∃ id, id ∈ ids ∧ ∀ b, s.bufs id = some b → b.role ≠ r ∨ b.rentReceiver ≠ rr) :
    cancelBatch s caller r rr ids = none := by
  rcases Option.eq_none_or_eq_some (cancelBatch s caller r rr ids) with h | ⟨s', h⟩
  · exact h
  · obtain ⟨hm, _, _, hin, _, _⟩ := cancelBatch_some ids h
    rcases hbad with hb | ⟨id, hid, hb⟩
    · rw [hm] at hb; cases hb
    · obtain ⟨b, hb', hr, hrr, _⟩ := hin id hid
      rcases hb b hb' with h1 | h1
      · exact absurd hr h1
      · exact absurd hrr h1

/-- the batch is equivalent to cancelling its buffers one after the other. -/
theorem cancelBatch_cons (s : St) (caller r rr id : Nat) (ids : List Nat) :
    cancelBatch s caller r rr (id :: ids) = (cancel s caller id r rr).bind (fun s1 => cancelBatch s1 caller r rr ids) := by
  simp only [cancelBatch]
  cases cancel s caller id r rr <;> rfl

/-- **Execution requires, with the approval-time clause**: in any state reached from an empty timelock by any history
(ghost `held` maintained by `gstep`: set at approval to "the approver holds the timelocked role of the executor the
buffer belongs to"), a successful execution means the buffer is approved, its approver held the buffer's own
timelocked role WHEN APPROVING and holds it NOW, `approved_at ⊕ delay` has passed, the caller is a keeper, and the
instruction is the buffered one. -/
theorem execute_requires_held (d : Nat) (ops : List Op) {s' : St} {now : Int} {caller id r rr : Nat} {ix : Ix}
    (h : exec (grun (ginit d) ops).1.s now caller id r rr = some (s', ix)) :
    ∃ b a, (grun (ginit d) ops).1.s.bufs id = some b ∧ b.approved = true ∧ b.approver = some a ∧
      (grun (ginit d) ops).1.held id = true ∧
      (grun (ginit d) ops).1.s.mem a (tld b.role) = true ∧
      executableAt b.approvedAt (grun (ginit d) ops).1.s.delay ≤ now ∧
      (grun (ginit d) ops).1.s.mem caller KEEPER = true ∧ ix = b.ix ∧ s'.bufs id = none := by
  obtain ⟨b, a, hb, hap, ha, hm, ht, hk, hix, hn⟩ := execute_requires h
  exact ⟨b, a, hb, hap, ha, ginv_run (ginv_init d) ops id b hb hap, hm, ht, hk, hix, hn⟩

/-- the ghost is what the property text says: when an approval (single or batch) of buffer `id` succeeds, the ghost
recorded for `id` is "the approver holds `tld` of the role stored IN THE BUFFER" evaluated in the state before. -/
theorem ghost_is_role_of_own_executor (g : GSt) (now : Int) (caller id r : Nat) (s' : St)
    (h : approve g.s now caller id r = some s') :
    (gstep g (.approve now caller id r)).1.held id = heldNow g.s caller id ∧
    (gstep g (.approve now caller id r)).1.s = s' := by
  simp [gstep, step, h]

/-- the ghost run is the ordinary run (same states, same events). -/
theorem ghost_run_is_run (d : Nat) (ops : List Op) :
    (grun (ginit d) ops).1.s = (run (init d) ops).1 ∧ (grun (ginit d) ops).2 = (run (init d) ops).2 :=
  grun_run (ginit d) ops

/-- **The delay can only increase**, over any history. -/
theorem delay_monotone (s : St) (ops : List Op) : s.delay ≤ (run s ops).1.delay := by
  induction ops generalizing s with
  | nil => exact Nat.le_refl _
  | cons op ops ih => exact Nat.le_trans (delay_step s op) (ih (step s op).1)

theorem increase_delay_spec {s s' : St} {caller delta : Nat} (h : increaseDelay s caller delta = some s') :
    s.mem caller ADMIN = true ∧ 0 < delta ∧ s'.delay = s.delay + delta ∧ s'.delay < 2 ^ 32 := by
  unfold increaseDelay at h
  split at h; · cases h
  rename_i h1
  split at h; · cases h
  split at h; · cases h
  cases h
  exact ⟨by simpa using h1, by omega, rfl, by simp; omega⟩

/-- **Executed or cancelled buffers cannot run again**: closing removes the buffer, and nothing can be
executed (or approved, or cancelled) on a missing buffer. -/
theorem closed_never_runs (s : St) (id : Nat) (h : s.bufs id = none) (now : Int) (caller r rr : Nat) :
    exec s now caller id r rr = none ∧ approve s now caller id r = none ∧ cancel s caller id r rr = none := by
  simp [exec, approve, cancel, h]

theorem cancel_spec {s s' : St} {caller id r rr : Nat} (h : cancel s caller id r rr = some s') :
    s.mem caller ADMIN = true ∧ (s.bufs id).isSome = true ∧ s'.bufs id = none := by
  obtain ⟨b, hb, _, _, hm, rfl⟩ := cancel_some h
  exact ⟨hm, by simp [hb], by simp [bufs_setBuf]⟩

/-- history form: for every buffer address, the number of executions plus cancellations never exceeds the
number of creations (each incarnation is closed at most once), and approvals never exceed creations. -/
theorem closes_le_creates (d : Nat) (ops : List Op) (id : Nat) :
    (run (init d) ops).2.countP (isClosed id) + openCount (run (init d) ops).1 id
      = (run (init d) ops).2.countP (isCreated id) ∧
    (run (init d) ops).2.countP (isApproved id) ≤ (run (init d) ops).2.countP (isCreated id) := by
  have key : ∀ (ops : List Op) (s : St), Inv s →
      (run s ops).2.countP (isClosed id) + openCount (run s ops).1 id
        = (run s ops).2.countP (isCreated id) + openCount s id ∧
      (run s ops).2.countP (isApproved id) + pendingCount (run s ops).1 id
        ≤ (run s ops).2.countP (isCreated id) + pendingCount s id := by
    intro ops
    induction ops with
    | nil => intro s _; simp [run]
    | cons op ops ih =>
      intro s hI
      have hI' := inv_step hI op
      obtain ⟨ih1, ih2⟩ := ih (step s op).1 hI'
      simp only [run, List.countP_cons]
      -- the single step
      have hstep := step_counts s op id
      obtain ⟨hs1, hs2⟩ := hstep
      constructor
      · omega
      · omega
  obtain ⟨k1, k2⟩ := key ops (init d) (inv_init d)
  have o0 : openCount (init d) id = 0 := by simp [openCount, init]
  have p0 : pendingCount (init d) id = 0 := by simp [pendingCount, init]
  exact ⟨by omega, by omega⟩

/-- **The executed instruction is exactly the buffered one**: creation stores the requested program id,
data and the first `numAcc` accounts with their writable flags (signer flag = index listed in `signers`),
approval does not touch it, execution emits it unchanged (`execute_requires`). -/
theorem create_stores_request {s s' : St} {caller id r prog numAcc dataLen actualLen : Nat} {data : String}
    {signers : List Nat} {accs : List (Nat × Bool)} {ix : Ix}
    (h : create s caller id r prog numAcc dataLen actualLen data signers accs = some (s', ix)) :
    s.mem caller KEEPER = true ∧ s.bufs id = none ∧
    s'.bufs id = some ⟨r, false, 0, none, caller, ix⟩ ∧
    ix.prog = prog ∧ ix.data = data ∧
    ix.metas.map (fun m => (m.key, m.writable)) = accs.take numAcc ∧ ix.metas.length = numAcc ∧
    (∀ i (hi : i < ix.metas.length), (ix.metas[i]).signer = signers.contains i) := by
  obtain ⟨hk, hn, hl, _, hp, hd, hm, rfl⟩ := create_some h
  obtain ⟨c1, c2, c3⟩ := storeMetas_content r signers _ 0 _ hm
  refine ⟨hk, hn, by simp [bufs_setBuf], hp, hd, c1, ?_, ?_⟩
  · rw [c2, List.length_take]; omega
  · intro i hi; simpa using c3 i hi

/-- **Only the executor wallet may be marked as signer** — in every buffer of every reachable state,
hence in every executed instruction. -/
theorem only_wallet_signer (d : Nat) (ops : List Op) (id : Nat) (b : Buf)
    (hb : (run (init d) ops).1.bufs id = some b) :
    ∀ m ∈ b.ix.metas, m.signer = true → m.key = wallet b.role :=
  (inv_run (inv_init d) ops).signer id b hb

theorem executed_only_wallet_signer {s s' : St} (hI : Inv s) {now : Int} {caller id r rr : Nat} {ix : Ix}
    (h : exec s now caller id r rr = some (s', ix)) :
    ∀ m ∈ ix.metas, m.signer = true → m.key = wallet r := by
  obtain ⟨b, a, hb, hr, _, _, _, _, _, _, rfl, _⟩ := exec_some h
  rw [← hr]; exact hI.signer id b hb

/-- creating with a non-wallet signer is rejected. -/
theorem create_rejects_foreign_signer (s : St) (caller id r prog dataLen : Nat) (data : String) (k : Nat) (w : Bool)
    (hk : k ≠ wallet r) : create s caller id r prog 1 dataLen dataLen data [0] [(k, w)] = none := by
  unfold create
  repeat' split
  all_goals first | rfl | (rename_i h; simp [storeMetas, hk] at h)

/-! ### Non-vacuity -/
private def demoOps : List Op :=
  [.grant 0 KEEPER, .grant 1 ADMIN, .grant 2 (tld 1),
   .create 100 0 3 1 2 2 2 2 "beef" [1] [(7, true), (wallet 1, false), (9, false)],
   .approve 110 2 3 1, .approve 120 2 3 1, .exec 300 0 3 1 0, .delay 305 1 50, .exec 460 0 3 1 0, .exec 470 0 3 1 0]
example : (run (init 300) demoOps).2 =
    [.none, .none, .none, .created 3 ⟨2, "beef", [⟨7, false, true⟩, ⟨101, true, false⟩]⟩, .approved 3 2, .none, .none, .none,
     .executed 3 ⟨2, "beef", [⟨7, false, true⟩, ⟨101, true, false⟩]⟩, .none] := by decide
example : (run (init 300) demoOps).1.delay = 350 := by decide
example : (run (init 300) (demoOps.take 5 ++ [.revoke 2 (tld 1), .exec 1000 0 3 1 0])).2.getLast? = some .none := by decide

-- added by the hygiene audit: `cancel_spec` (a successful cancel by an admin), `approve_once` (an approved buffer in a reachable
-- state: a second approve is refused), `increase_delay_spec`
example : (run (init 300) (demoOps.take 5 ++ [.cancel 130 1 3 1 0])).2.getLast? = some (.cancelled 3) ∨
    ((run (init 300) (demoOps.take 5 ++ [.cancel 130 1 3 1 0])).1.bufs 3).isNone = true := by decide
example : ((run (init 300) (demoOps.take 5)).1.bufs 3).map (·.approved) = some true ∧
    (approve (run (init 300) (demoOps.take 5)).1 120 2 3 1).isNone = true := by decide
example : (increaseDelay (run (init 300) (demoOps.take 3)).1 1 50).isSome = true := by decide

/-! batch approval: buffers 3 (role 1) and 4 (role 0 = ADMIN). User 2 holds only `tld 1`. A same-executor batch [3]
succeeds; the mixed batch [3, 4] through role 1's executor is rejected as a whole (nothing approved); so the seeded
history — approve the ADMIN buffer through the MARKET_KEEPER executor, get `tld 0` later, execute after the delay —
executes nothing. -/
private def batchOps : List Op :=
  [.grant 0 KEEPER, .grant 2 (tld 1),
   .create 100 0 3 1 2 0 0 0 "-" [] [], .create 100 0 4 0 2 0 0 0 "-" [] []]
example : (run (init 300) (batchOps ++ [.approveb 110 2 1 [3, 4]])).2.getLast? = some .none := by decide
example : (run (init 300) (batchOps ++ [.approveb 110 2 1 [3]])).2.getLast? = some (.approvedBatch [3] 2) := by decide
example : (run (init 300) (batchOps ++ [.approveb 110 2 1 [3, 4], .grant 2 (tld 0), .exec 500 0 4 0 0])).2.getLast? = some .none := by decide
example : (run (init 300) (batchOps ++ [.approveb 110 2 1 [3, 3]])).2.getLast? = some .none ∧
    (run (init 300) (batchOps ++ [.approveb 110 2 1 [3, 7]])).2.getLast? = some .none ∧
    (run (init 300) (batchOps ++ [.approveb 110 2 1 []])).2.getLast? = some (.approvedBatch [] 2) ∧
    (run (init 300) (batchOps ++ [.approveb 110 0 1 []])).2.getLast? = some .none := by decide
example : (grun (ginit 300) (batchOps ++ [.approveb 110 2 1 [3]])).1.held 3 = true ∧
    (grun (ginit 300) (batchOps ++ [.approveb 110 2 1 [3]])).1.held 4 = false ∧
    (exec (grun (ginit 300) (batchOps ++ [.approveb 110 2 1 [3]])).1.s 410 0 3 1 0).isSome = true := by decide

/-! batch cancel: admin 1 cancels buffers 3 and 5 (role 1, rent receiver 0) in one batch; a batch that also lists buffer 4
(role 0) is rejected as a whole; so is a batch by a non-admin, one naming another rent receiver, one listing a buffer twice. -/
private def cbOps : List Op :=
  [.grant 0 KEEPER, .grant 1 ADMIN, .create 100 0 3 1 2 0 0 0 "-" [] [], .create 100 0 5 1 2 0 0 0 "-" [] [],
   .create 100 0 4 0 2 0 0 0 "-" [] []]
example : (run (init 300) (cbOps ++ [.cancelb 110 1 1 0 [3, 5]])).2.getLast? = some (.cancelledBatch [3, 5]) ∧
    ((run (init 300) (cbOps ++ [.cancelb 110 1 1 0 [3, 5]])).1.bufs 3).isNone = true ∧
    ((run (init 300) (cbOps ++ [.cancelb 110 1 1 0 [3, 5]])).1.bufs 4).isSome = true := by decide
example : (run (init 300) (cbOps ++ [.cancelb 110 1 1 0 [3, 4]])).2.getLast? = some .none ∧
    (run (init 300) (cbOps ++ [.cancelb 110 0 1 0 [3]])).2.getLast? = some .none ∧
    (run (init 300) (cbOps ++ [.cancelb 110 1 1 2 [3]])).2.getLast? = some .none ∧
    (run (init 300) (cbOps ++ [.cancelb 110 1 1 0 [3, 3]])).2.getLast? = some .none ∧
    (run (init 300) (cbOps ++ [.cancelb 110 1 1 0 []])).2.getLast? = some (.cancelledBatch []) := by decide

end Gmx.C36
