import Gmx.Lemmas.RolesEffects
/-!
# C18 — role membership behaves like a set of grants gated by enabled roles

Model: `Gmx.Roles` (`RoleStore` of `programs/store/src/states/roles.rs`, `Store::has_role` /
`has_admin_role` of `states/store.rs`).  The abstract view of a store is
`enabledB s : role → Bool` and `grantedB s : addr → role → Bool` (the set of grants); `Inv` is the
representation invariant (role indices are creation positions, every member holds at least one
bit and only bits of existing roles, ≤ 32 roles, ≤ 64 members).  Key hashing is assumed
injective (see the model file).  Generic in the role-key and address types.
-/
namespace Gmx.C18
open Gmx.Roles

section
variable {K A : Type} [DecidableEq K] [DecidableEq A]

/-! ### `has_role` is "enabled ∧ granted", and its error kinds -/

theorem hasRole_spec (s : St K A) (a : A) (r : K) :
    hasRole s a r = .ok true ↔ (enabledB s r = true ∧ grantedB s a r = true) := by
  unfold hasRole enabledB grantedB
  cases lookup s.members a <;> cases findRole s.roles r <;> simp
  all_goals (rename_i bits m; cases m.enabled <;> simp)

/-- the answer `false` means: member, role enabled, but not granted -/
theorem hasRole_false_iff (s : St K A) (a : A) (r : K) :
    hasRole s a r = .ok false ↔ (memberB s a = true ∧ enabledB s r = true ∧ grantedB s a r = false) := by
  unfold hasRole enabledB grantedB memberB
  cases lookup s.members a <;> cases findRole s.roles r <;> simp
  all_goals (rename_i bits m; cases m.enabled <;> simp)

/-- a non-member is refused with `PermissionDenied` whatever the role -/
theorem hasRole_permissionDenied_iff (s : St K A) (a : A) (r : K) :
    hasRole s a r = .error .PermissionDenied ↔ memberB s a = false := by
  unfold hasRole memberB
  cases lookup s.members a <;> cases findRole s.roles r <;> simp
  all_goals (rename_i bits m; cases m.enabled <;> simp)

/-- a member asking for an unknown role gets `NotFound` -/
theorem hasRole_notFound_iff (s : St K A) (a : A) (r : K) :
    hasRole s a r = .error .NotFound ↔ (memberB s a = true ∧ knownB s r = false) := by
  unfold hasRole memberB knownB
  cases lookup s.members a <;> cases findRole s.roles r <;> simp
  all_goals (rename_i bits m; cases m.enabled <;> simp)

/-- a member asking for a disabled role gets `PreconditionsAreNotMet` -/
theorem hasRole_disabled_iff (s : St K A) (a : A) (r : K) :
    hasRole s a r = .error .Preconditions ↔
      (memberB s a = true ∧ knownB s r = true ∧ enabledB s r = false) := by
  unfold hasRole memberB knownB enabledB
  cases lookup s.members a <;> cases findRole s.roles r <;> simp
  all_goals (rename_i bits m; cases m.enabled <;> simp)

/-! ### each successful operation is the corresponding set update (under the invariant) -/

theorem grant_adds_exactly (s s' : St K A) (a : A) (r : K) (hi : Inv s) (h : grant s a r = .ok s') :
    (∀ a' r', grantedB s' a' r' = if a' = a ∧ r' = r then true else grantedB s a' r') ∧
    (∀ r', enabledB s' r' = enabledB s r') := by
  obtain ⟨hr, hg⟩ := grant_effect hi h
  exact ⟨hg, fun r' => by unfold enabledB; rw [hr]⟩

theorem revoke_removes_exactly (s s' : St K A) (a : A) (r : K) (hi : Inv s) (h : revoke s a r = .ok s') :
    (∀ a' r', grantedB s' a' r' = if a' = a ∧ r' = r then false else grantedB s a' r') ∧
    (∀ r', enabledB s' r' = enabledB s r') := by
  obtain ⟨hr, hg⟩ := revoke_effect hi h
  exact ⟨hg, fun r' => by unfold enabledB; rw [hr]⟩

theorem enable_sets_exactly (s s' : St K A) (r : K) (hi : Inv s) (h : enableRole s r = .ok s') :
    (∀ r', enabledB s' r' = if r' = r then true else enabledB s r') ∧
    (∀ a' r', grantedB s' a' r' = grantedB s a' r') :=
  (enable_effect hi h).2

theorem disable_clears_exactly (s s' : St K A) (r : K) (h : disableRole s r = .ok s') :
    (∀ r', enabledB s' r' = if r' = r then false else enabledB s r') ∧
    (∀ a' r', grantedB s' a' r' = grantedB s a' r') :=
  (disable_effect h).2

/-! ### failing operations (a failing call returns no new state; `apply` keeps the old one) -/

theorem failing_op_unchanged (s : St K A) (o : Op K A) (h : succeeds s o = false) : apply s o = s := by
  unfold succeeds at h; unfold apply
  cases hs : step s o with
  | ok s' => rw [hs] at h; cases h
  | error e => rfl

/-- granting an already-held role fails (`PreconditionsAreNotMet`) -/
theorem grant_twice_fails (s : St K A) (a : A) (r : K) (he : enabledB s r = true) (hg : grantedB s a r = true) :
    grant s a r = .error .Preconditions := by
  unfold grant; unfold enabledB at he; unfold grantedB at hg
  cases hf : findRole s.roles r with
  | none => rw [hf] at he; cases he
  | some m =>
    rw [hf] at he hg; simp only at he
    cases hl : lookup s.members a with
    | none => rw [hl] at hg; cases hg
    | some bits =>
      rw [hl] at hg; simp only at hg
      have hg' : m.index ∈ bits := by simpa using hg
      simp [he, hg']

/-- granting on a disabled role fails too, held or not -/
theorem grant_disabled_fails (s : St K A) (a : A) (r : K) (hk : knownB s r = true) (he : enabledB s r = false) :
    grant s a r = .error .Preconditions := by
  unfold grant; unfold enabledB at he; unfold knownB at hk
  cases hf : findRole s.roles r with
  | none => rw [hf] at hk; cases hk
  | some m => rw [hf] at he; simp only at he; simp [he]

/-- revoking a role that is not held fails: `NotFound` for an unknown role, `PermissionDenied` for
a non-member, `PreconditionsAreNotMet` for a member without that role -/
theorem revoke_absent_fails (s : St K A) (a : A) (r : K) (hg : grantedB s a r = false) :
    revoke s a r = .error (if knownB s r = false then .NotFound
                          else if memberB s a = false then .PermissionDenied else .Preconditions) := by
  unfold revoke; unfold grantedB at hg; unfold knownB memberB
  cases hf : findRole s.roles r with
  | none => simp
  | some m =>
    cases hl : lookup s.members a with
    | none => simp
    | some bits =>
      rw [hf, hl] at hg; simp only at hg
      have hg' : ¬ m.index ∈ bits := by simpa using hg
      simp [hg']

/-- enabling an enabled role fails -/
theorem enable_enabled_fails (s : St K A) (r : K) (he : enabledB s r = true) :
    enableRole s r = .error .Preconditions := by
  unfold enableRole; unfold enabledB at he
  cases hf : findRole s.roles r with
  | none => rw [hf] at he; cases he
  | some m => rw [hf] at he; simp only at he; simp [he]

/-- disabling a disabled role fails; disabling an unknown role is a silent no-op -/
theorem disable_disabled_fails (s : St K A) (r : K) (he : enabledB s r = false) :
    disableRole s r = if knownB s r then .error .Preconditions else .ok s := by
  unfold disableRole; unfold enabledB at he; unfold knownB
  cases hf : findRole s.roles r with
  | none => simp
  | some m => rw [hf] at he; simp only at he; simp [he]

/-- NOTE (code vs. property text): the property lists three calls that must FAIL without side
effects (grant held / revoke absent / enable enabled — the three theorems above). `disable_role`
on a role that was never created is not among them and the code answers `Ok(())`; it is a no-op:
no role is created, nothing changes. -/
theorem disable_unknown_is_noop (s : St K A) (r : K) (hk : knownB s r = false) :
    disableRole s r = .ok s ∧ apply s (.disable r) = s := by
  have h : disableRole s r = .ok s := by
    unfold disableRole; unfold knownB at hk
    cases hf : findRole s.roles r with
    | none => rfl
    | some m => rw [hf] at hk; cases hk
  exact ⟨h, by simp [apply, step, h]⟩

/-! ### members -/

/-- revoking the last role held removes the member: afterwards every query about that address
is refused with `PermissionDenied` -/
theorem last_revoke_removes_member (s s' : St K A) (a : A) (r : K) (hi : Inv s)
    (h : revoke s a r = .ok s') (hlast : ∀ r', r' ≠ r → grantedB s a r' = false) :
    memberB s' a = false ∧ ∀ r', hasRole s' a r' = .error .PermissionDenied := by
  obtain ⟨m, bits, hf, hl, hc, hcase⟩ := revoke_ok_shape h
  have hm : memberB s' a = false := by
    rcases hcase with ⟨_, rfl⟩ | ⟨hne, rfl⟩
    · simp [memberB, lookup_removeMember]
    · -- the remaining bits would be a role other than `r` still held
      exfalso
      cases hfl : bits.filter (fun i => i != m.index) with
      | nil => exact hne hfl
      | cons x xs =>
        have hx : x ∈ bits.filter (fun i => i != m.index) := by rw [hfl]; simp
        obtain ⟨hxb, hxne⟩ := List.mem_filter.1 hx
        have hxlt := (hi.bits a bits hl).2 x hxb
        -- some role has index x
        obtain ⟨r', m', hf', hidx⟩ := hi.complete x hxlt
        have hr' : r' ≠ r := by
          intro e; subst e; rw [hf] at hf'; cases hf'; simp [hidx] at hxne
        have := hlast r' hr'
        rw [grantedB_eq hf' hl, hidx] at this
        have hcx : bits.contains x = true := by simpa using hxb
        rw [hcx] at this; cases this
  exact ⟨hm, fun r' => (hasRole_permissionDenied_iff s' a r').2 hm⟩

/-- a member always holds at least one role, and a holder is always a member -/
theorem member_iff_holds (s : St K A) (a : A) (hi : Inv s) :
    memberB s a = true ↔ ∃ r, grantedB s a r = true := by
  constructor
  · intro hm
    unfold memberB at hm
    cases hl : lookup s.members a with
    | none => rw [hl] at hm; cases hm
    | some bits =>
      obtain ⟨hne, hlt⟩ := hi.bits a bits hl
      cases bits with
      | nil => exact absurd rfl hne
      | cons x xs =>
        obtain ⟨r', m', hf', hidx⟩ := hi.complete x (hlt x (by simp))
        exact ⟨r', by rw [grantedB_eq hf' hl, hidx]; simp⟩
  · rintro ⟨r, hg⟩
    unfold grantedB at hg; unfold memberB
    cases hl : lookup s.members a with
    | none => rw [hl] at hg; cases findRole s.roles r <;> simp at hg
    | some bits => rfl

/-- revocation works on a disabled role -/
theorem revoke_on_disabled_ok (s : St K A) (a : A) (r : K) (hg : grantedB s a r = true) :
    ∃ s', revoke s a r = .ok s' := by
  unfold revoke; unfold grantedB at hg
  cases hf : findRole s.roles r with
  | none => rw [hf] at hg; cases hg
  | some m =>
    cases hl : lookup s.members a with
    | none => rw [hf, hl] at hg; cases hg
    | some bits =>
      rw [hf, hl] at hg; simp only at hg
      simp only [hg, Bool.not_true, Bool.false_eq_true, if_false]
      split <;> exact ⟨_, rfl⟩

/-! ### capacities: 32 roles, 64 members -/

theorem role_capacity (s : St K A) (r : K) (hfull : s.roles.length = 32) (hk : knownB s r = false) :
    enableRole s r = .error .ExceedMax := by
  unfold enableRole; unfold knownB at hk
  cases hf : findRole s.roles r with
  | some m => rw [hf] at hk; cases hk
  | none => simp [MAX_ROLES, hfull]

theorem member_capacity (s : St K A) (a : A) (r : K) (hfull : s.members.length = 64)
    (he : enabledB s r = true) (hm : memberB s a = false) :
    grant s a r = .error .ExceedMax := by
  unfold grant; unfold enabledB at he; unfold memberB at hm
  cases hf : findRole s.roles r with
  | none => rw [hf] at he; cases he
  | some m =>
    rw [hf] at he; simp only at he
    cases hl : lookup s.members a with
    | some b => rw [hl] at hm; cases hm
    | none => simp [he, MAX_MEMBERS, hfull]

/-- below capacity, enabling an unknown role and granting to a new member succeed -/
theorem below_capacity_ok (s : St K A) (a : A) (r : K) :
    (knownB s r = false → s.roles.length < 32 → ∃ s', enableRole s r = .ok s') ∧
    (enabledB s r = true → memberB s a = false → s.members.length < 64 → ∃ s', grant s a r = .ok s') := by
  constructor
  · intro hk hlt
    unfold enableRole; unfold knownB at hk
    cases hf : findRole s.roles r with
    | some m => rw [hf] at hk; cases hk
    | none =>
      have : ¬ s.roles.length ≥ MAX_ROLES := by unfold MAX_ROLES; omega
      simp only [this, if_false]; exact ⟨_, rfl⟩
  · intro he hm hlt
    unfold grant; unfold enabledB at he; unfold memberB at hm
    cases hf : findRole s.roles r with
    | none => rw [hf] at he; cases he
    | some m =>
      rw [hf] at he; simp only at he
      cases hl : lookup s.members a with
      | some b => rw [hl] at hm; cases hm
      | none =>
        have : ¬ s.members.length ≥ MAX_MEMBERS := by unfold MAX_MEMBERS; omega
        simp only [he, Bool.not_true, Bool.false_eq_true, if_false, this]; exact ⟨_, rfl⟩

/-! ### histories -/

/-- the invariant (hence the capacities) holds after ANY operation sequence from the empty store -/
theorem history_invariant (ops : List (Op K A)) :
    Inv (run (St.empty : St K A) ops) ∧
    (run (St.empty : St K A) ops).roles.length ≤ 32 ∧ (run (St.empty : St K A) ops).members.length ≤ 64 := by
  have := inv_run ops (inv_empty (K := K) (A := A))
  exact ⟨this, this.nroles, this.nmembers⟩

theorem history_refines (ops : List (Op K A)) : ∀ (s : St K A) (E : K → Bool) (G : A → K → Bool),
    Inv s → (∀ r, E r = enabledB s r) → (∀ a r, G a r = grantedB s a r) →
    (∀ r, (specRun s E G ops).1 r = enabledB (run s ops) r) ∧
    (∀ a r, (specRun s E G ops).2 a r = grantedB (run s ops) a r) := by
  induction ops with
  | nil => intro s E G _ hE hG; exact ⟨hE, hG⟩
  | cons o os ih =>
    intro s E G hi hE hG
    simp only [specRun, run]
    apply ih _ _ _ (inv_apply o hi)
    · intro r'
      unfold succeeds apply specStep
      cases hs : step s o with
      | error e => simpa using hE r'
      | ok s' =>
        cases o with
        | enable r => simp only [step] at hs; simp [(enable_effect hi hs).2.1 r', hE]
        | disable r => simp only [step] at hs; simp [(disable_effect hs).2.1 r', hE]
        | grant a r =>
          simp only [step] at hs
          have := (grant_effect hi hs).1
          simp [enabledB, this, hE]
        | revoke a r =>
          simp only [step] at hs
          have := (revoke_effect hi hs).1
          simp [enabledB, this, hE]
    · intro a' r'
      unfold succeeds apply specStep
      cases hs : step s o with
      | error e => simpa using hG a' r'
      | ok s' =>
        cases o with
        | enable r => simp only [step] at hs; simp [(enable_effect hi hs).2.2 a' r', hG]
        | disable r => simp only [step] at hs; simp [(disable_effect hs).2.2 a' r', hG]
        | grant a r => simp only [step] at hs; simp [(grant_effect hi hs).2 a' r', hG]
        | revoke a r => simp only [step] at hs; simp [(revoke_effect hi hs).2 a' r', hG]

/-- THE PROPERTY: after any sequence of enable/disable/grant/revoke calls on a fresh store, an
address holds a role exactly when the role is enabled and the address was granted it and not
revoked since. -/
theorem history_hasRole (ops : List (Op K A)) (a : A) (r : K) :
    hasRole (run (St.empty : St K A) ops) a r = .ok true ↔
      ((specRun (St.empty : St K A) (fun _ => false) (fun _ _ => false) ops).1 r = true ∧
       (specRun (St.empty : St K A) (fun _ => false) (fun _ _ => false) ops).2 a r = true) := by
  have := history_refines ops (St.empty : St K A) (fun _ => false) (fun _ _ => false) inv_empty
    (by intro r; simp [enabledB, St.empty, findRole]) (by intro a r; simp [grantedB, St.empty, findRole])
  rw [hasRole_spec, this.1 r, this.2 a r]

/-! ### cluster restart and the store authority -/

/-- after a restart only RESTART_ADMIN holders are authorised, and for EVERY role (existing,
disabled or unknown); nobody gets the answer `false` -/
theorem restart_spec (ra : K) (s : St K A) (a : A) (r : K) :
    (storeHasRole ra s true a r = .ok true ↔ (enabledB s ra = true ∧ grantedB s a ra = true)) ∧
    storeHasRole ra s true a r ≠ .ok false ∧
    storeHasRole ra s true a r = storeHasRole ra s true a ra := by
  refine ⟨?_, ?_, rfl⟩
  · rw [← hasRole_spec]
    unfold storeHasRole
    simp only [if_true]
    cases h : hasRole s a ra with
    | error e => simp
    | ok b => cases b <;> simp
  · unfold storeHasRole
    simp only [if_true]
    cases h : hasRole s a ra with
    | error e => simp
    | ok b => cases b <;> simp

/-- NOTE ("authorised for every role" is literal): after a restart a holder of the enabled
RESTART_ADMIN role is authorised even for a role name that was never created, and for a disabled
one — the requested role is not looked at. Conversely, if RESTART_ADMIN itself is disabled or was
never created, NOBODY is authorised through `has_role` after a restart (the call errs). -/
theorem restart_any_role_name (ra : K) (s : St K A) (a : A) (r : K)
    (he : enabledB s ra = true) (hg : grantedB s a ra = true) :
    storeHasRole ra s true a r = .ok true :=
  ((restart_spec ra s a r).1).2 ⟨he, hg⟩

/-- if RESTART_ADMIN is not an enabled role, nobody passes `has_role` after a restart -/
theorem restart_without_admin_role (ra : K) (s : St K A) (a : A) (r : K) (he : enabledB s ra = false) :
    ∃ e, storeHasRole ra s true a r = .error e := by
  have h1 := (restart_spec ra s a r).1
  have h2 := (restart_spec ra s a r).2.1
  cases h : storeHasRole ra s true a r with
  | error e => exact ⟨e, rfl⟩
  | ok b =>
    cases b
    · exact absurd h h2
    · have := (h1.1 h).1; rw [he] at this; cases this

/-- without a pending restart `Store::has_role` is `RoleStore::has_role` -/
theorem no_restart_spec (ra : K) (s : St K A) (a : A) (r : K) :
    storeHasRole ra s false a r = hasRole s a r := rfl

/-- the store authority is always an admin -/
theorem authority_always_admin (ra : K) (s : St K A) (authority : A) (restarted : Bool) :
    storeHasAdminRole ra s authority restarted authority = .ok true := by
  simp [storeHasAdminRole]

/-- anybody else is an admin exactly when the cluster restarted and they hold RESTART_ADMIN -/
theorem admin_spec (ra : K) (s : St K A) (authority a : A) (restarted : Bool) (hne : a ≠ authority) :
    storeHasAdminRole ra s authority restarted a = .ok true ↔
      (restarted = true ∧ enabledB s ra = true ∧ grantedB s a ra = true) := by
  rw [← hasRole_spec]
  unfold storeHasAdminRole
  cases restarted <;> simp [hne]

end

/-! ### non-vacuity (concrete stores; roles are strings, addresses numbers) -/

example : hasRole ex1 7 "KEEPER" = .ok true := by decide
example : hasRole ex1 7 "ADMIN" = .error .Preconditions := by decide
example : hasRole ex1 8 "KEEPER" = .error .PermissionDenied := by decide
example : hasRole ex1 7 "NOPE" = .error .NotFound := by decide
example : grant ex1 7 "KEEPER" = .error .Preconditions := by decide
example : (revoke ex1 7 "ADMIN").toOption.isSome = true := by decide
example : hasRole (run ex1 [.revoke 7 "ADMIN", .revoke 7 "KEEPER"]) 7 "KEEPER" = .error .PermissionDenied := by decide
example : storeHasRole "RESTART_ADMIN" (run ex1 [.enable "RESTART_ADMIN", .grant 9 "RESTART_ADMIN"]) true 9 "NOPE" = .ok true := by decide
example : storeHasRole "RESTART_ADMIN" (run ex1 [.enable "RESTART_ADMIN", .grant 9 "RESTART_ADMIN"]) true 7 "KEEPER" = .error .StoreOutdated := by decide

end Gmx.C18
