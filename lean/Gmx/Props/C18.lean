import Gmx.Lemmas.RolesSpec
/-!
# C18 — role membership behaves like a set of grants gated by enabled roles

Model: `Gmx.Roles` (`RoleStore` of `programs/store/src/states/roles.rs`, `Store::has_role` /
`has_admin_role` of `states/store.rs`).  The abstract view of a store is
`enabledB s : role → Bool` and `grantedB s : addr → role → Bool` (the set of grants); `Inv` is the
representation invariant (role indices are creation positions, every member holds at least one
bit and only bits of existing roles, ≤ 32 roles, ≤ 64 members).  Key hashing is assumed
injective (see the model file).  Generic in the role-key and address types.
-/
namespace Gmx.C18
open Gmx.Roles

section
variable {K A : Type} [DecidableEq K] [DecidableEq A]

/-! ### `has_role` is "enabled ∧ granted", and its error kinds -/

theorem hasRole_spec (s : St K A) (a : A) (r : K) :
    hasRole s a r = .ok true ↔ (enabledB s r = true ∧ grantedB s a r = true) := by
  unfold hasRole enabledB grantedB
  cases lookup s.members a <;> cases findRole s.roles r <;> simp
  all_goals (rename_i bits m; cases m.enabled <;> simp)

/-- the answer `false` means: member, role enabled, but not granted -/
theorem hasRole_false_iff (s : St K A) (a : A) (r : K) :
    hasRole s a r = .ok false ↔ (memberB s a = true ∧ enabledB s r = true ∧ grantedB s a r = false) := by
  unfold hasRole enabledB grantedB memberB
  cases lookup s.members a <;> cases findRole s.roles r <;> simp
  all_goals (rename_i bits m; cases m.enabled <;> simp)

/-- a non-member is refused with `PermissionDenied` whatever the role -/
theorem hasRole_permissionDenied_iff (s : St K A) (a : A) (r : K) :
    hasRole s a r = .error .PermissionDenied ↔ memberB s a = false := by
  unfold hasRole memberB
  cases lookup s.members a <;> cases findRole s.roles r <;> simp
  all_goals (rename_i bits m; cases m.enabled <;> simp)

/-- a member asking for an unknown role gets `NotFound` -/
theorem hasRole_notFound_iff (s : St K A) (a : A) (r : K) :
    hasRole s a r = .error .NotFound ↔ (memberB s a = true ∧ knownB s r = false) := by
  unfold hasRole memberB knownB
  cases lookup s.members a <;> cases findRole s.roles r <;> simp
  all_goals (rename_i bits m; cases m.enabled <;> simp)

/-- a member asking for a disabled role gets `PreconditionsAreNotMet` -/
theorem hasRole_disabled_iff (s : St K A) (a : A) (r : K) :
    hasRole s a r = .error .Preconditions ↔
      (memberB s a = true ∧ knownB s r = true ∧ enabledB s r = false) := by
  unfold hasRole memberB knownB enabledB
  cases lookup s.members a <;> cases findRole s.roles r <;> simp
  all_goals (rename_i bits m; cases m.enabled <;> simp)

/-! ### each successful operation is the corresponding set update (under the invariant) -/

theorem grant_adds_exactly (s s' : St K A) (a : A) (r : K) (hi : Inv s) (h : grant s a r = .ok s') :
    (∀ a' r', grantedB s' a' r' = if a' = a ∧ r' = r then true else grantedB s a' r') ∧
    (∀ r', enabledB s' r' = enabledB s r') := by
  obtain ⟨hr, hg⟩ := grant_effect hi h
  exact ⟨hg, fun r' => by unfold enabledB; rw [hr]⟩

theorem revoke_removes_exactly (s s' : St K A) (a : A) (r : K) (hi : Inv s) (h : revoke s a r = .ok s') :
    (∀ a' r', grantedB s' a' r' = if a' = a ∧ r' = r then false else grantedB s a' r') ∧
    (∀ r', enabledB s' r' = enabledB s r') := by
  obtain ⟨hr, hg⟩ := revoke_effect hi h
  exact ⟨hg, fun r' => by unfold enabledB; rw [hr]⟩

theorem enable_sets_exactly (s s' : St K A) (r : K) (hi : Inv s) (h : enableRole s r = .ok s') :
    (∀ r', enabledB s' r' = if r' = r then true else enabledB s r') ∧
    (∀ a' r', grantedB s' a' r' = grantedB s a' r') :=
  (enable_effect hi h).2

theorem disable_clears_exactly (s s' : St K A) (r : K) (h : disableRole s r = .ok s') :
    (∀ r', enabledB s' r' = if r' = r then false else enabledB s r') ∧
    (∀ a' r', grantedB s' a' r' = grantedB s a' r') :=
  (disable_effect h).2

/-! ### failing operations (a failing call returns no new state; `apply` keeps the old one) -/

theorem failing_op_unchanged (s : St K A) (o : Op K A) (h : succeeds s o = false) : apply s o = s := by
  unfold succeeds at h; unfold apply
  cases hs : step s o with
  | ok s' => rw [hs] at h; cases h
  | error e => rfl

/-- granting an already-held role fails (`PreconditionsAreNotMet`) -/
theorem grant_twice_fails (s : St K A) (a : A) (r : K) (he : enabledB s r = true) (hg : grantedB s a r = true) :
    grant s a r = .error .Preconditions := by
  unfold grant; unfold enabledB at he; unfold grantedB at hg
  cases hf : findRole s.roles r with
  | none => rw [hf] at he; cases he
  | some m =>
    rw [hf] at he hg; simp only at he
    cases hl : lookup s.members a with
    | none => rw [hl] at hg; cases hg
    | some bits =>
      rw [hl] at hg; simp only at hg
      have hg' : m.index ∈ bits := by simpa using hg
      simp [he, hg']

/-- granting on a disabled role fails too, held or not -/
theorem grant_disabled_fails (s : St K A) (a : A) (r : K) (hk : knownB s r = true) (he : enabledB s r = false) :
    grant s a r = .error .Preconditions := by
  unfold grant; unfold enabledB at he; unfold knownB at hk
  cases hf : findRole s.roles r with
  | none => rw [hf] at hk; cases hk
  | some m => rw [hf] at he; simp only at he; simp [he]

/-- revoking a role that is not held fails: `NotFound` for an unknown role, `PermissionDenied` for
a non-member, `PreconditionsAreNotMet` for a member without that role -/
theorem revoke_absent_fails (s : St K A) (a : A) (r : K) (hg : grantedB s a r = false) :
    revoke s a r = .error (if knownB s r = false then .NotFound
                          else if memberB s a = false then .PermissionDenied else .Preconditions) := by
  unfold revoke; unfold grantedB at hg; unfold knownB memberB
  cases hf : findRole s.roles r with
  | none => simp
  | some m =>
    cases hl : lookup s.members a with
    | none => simp
    | some bits =>
      rw [hf, hl] at hg; simp only at hg
      have hg' : ¬ m.index ∈ bits := by simpa using hg
      simp [hg']

/-- enabling an enabled role fails -/
theorem enable_enabled_fails (s : St K A) (r : K) (he : enabledB s r = true) :
    enableRole s r = .error .Preconditions := by
  unfold enableRole; unfold enabledB at he
  cases hf : findRole s.roles r with
  | none => rw [hf] at he; cases he
  | some m => rw [hf] at he; simp only at he; simp [he]

/-- disabling a disabled role fails; disabling an unknown role is a silent no-op -/
theorem disable_disabled_fails (s : St K A) (r : K) (he : enabledB s r = false) :
    disableRole s r = if knownB s r then .error .Preconditions else .ok s := by
  unfold disableRole; unfold enabledB at he; unfold knownB
  cases hf : findRole s.roles r with
  | none => simp
  | some m => rw [hf] at he; simp only at he; simp [he]

/-- NOTE (code vs. property text): the property lists three calls that must FAIL without side
effects (grant held / revoke absent / enable enabled — the three theorems above). `disable_role`
on a role that was never created is not among them and the code answers `Ok(())`; it is a no-op:
no role is created, nothing changes. -/
theorem disable_unknown_is_noop (s : St K A) (r : K) (hk : knownB s r = false) :
    disableRole s r = .ok s ∧ apply s (.disable r) = s := by
  have h : disableRole s r = .ok s := by
    unfold disableRole; unfold knownB at hk
    cases hf : findRole s.roles r with
    | none => rfl
    | some m => rw [hf] at hk; cases hk
  exact ⟨h, by simp [apply, step, h]⟩

/-! ### members -/

/-- revoking the last role held removes the member: afterwards every query about that address
is refused with `PermissionDenied` -/
theorem last_revoke_removes_member (s s' : St K A) (a : A) (r : K) (hi : Inv s)
    (h : revoke s a r = .ok s') (hlast : ∀ r', r' ≠ r → grantedB s a r' = false) :
    memberB s' a = false ∧ ∀ r', hasRole s' a r' = .error .PermissionDenied := by
  obtain ⟨m, bits, hf, hl, hc, hcase⟩ := revoke_ok_shape h
  have hm : memberB s' a = false := by
    rcases hcase with ⟨_, rfl⟩ | ⟨hne, rfl⟩
    · simp [memberB, lookup_removeMember]
    · -- the remaining bits would be a role other than `r` still held
      exfalso
      cases hfl : bits.filter (fun i => i != m.index) with
      | nil => exact hne hfl
      | cons x xs =>
        have hx : x ∈ bits.filter (fun i => i != m.index) := by rw [hfl]; simp
        obtain ⟨hxb, hxne⟩ := List.mem_filter.1 hx
        have hxlt := (hi.bits a bits hl).2 x hxb
        -- some role has index x
        obtain ⟨r', m', hf', hidx⟩ := hi.complete x hxlt
        have hr' : r' ≠ r := by
          intro e; subst e; rw [hf] at hf'; cases hf'; simp [hidx] at hxne
        have := hlast r' hr'
        rw [grantedB_eq hf' hl, hidx] at this
        have hcx : bits.contains x = true := by simpa using hxb
        rw [hcx] at this; cases this
  exact ⟨hm, fun r' => (hasRole_permissionDenied_iff s' a r').2 hm⟩

/-- a member always holds at least one role, and a holder is always a member -/
theorem member_iff_holds (s : St K A) (a : A) (hi : Inv s) :
    memberB s a = true ↔ ∃ r, grantedB s a r = true := by
  constructor
  · intro hm
    unfold memberB at hm
    cases hl : lookup s.members a with
    | none => rw [hl] at hm; cases hm
    | some bits =>
      obtain ⟨hne, hlt⟩ := hi.bits a bits hl
      cases bits with
      | nil => exact absurd rfl hne
      | cons x xs =>
        obtain ⟨r', m', hf', hidx⟩ := hi.complete x (hlt x (by simp))
        exact ⟨r', by rw [grantedB_eq hf' hl, hidx]; simp⟩
  · rintro ⟨r, hg⟩
    unfold grantedB at hg; unfold memberB
    cases hl : lookup s.members a with
    | none => rw [hl] at hg; cases findRole s.roles r <;> simp at hg
    | some bits => rfl

/-- revocation works on a disabled role -/
theorem revoke_on_disabled_ok (s : St K A) (a : A) (r : K) (hg : grantedB s a r = true) :
    ∃ s', revoke s a r = .ok s' := by
  unfold revoke; unfold grantedB at hg
  cases hf : findRole s.roles r with
  | none => rw [hf] at hg; cases hg
  | some m =>
    cases hl : lookup s.members a with
    | none => rw [hf, hl] at hg; cases hg
    | some bits =>
      rw [hf, hl] at hg; simp only at hg
      simp only [hg, Bool.not_true, Bool.false_eq_true, if_false]
      split <;> exact ⟨_, rfl⟩

/-! ### capacities: 32 roles, 64 members -/

theorem role_capacity (s : St K A) (r : K) (hfull : s.roles.length = 32) (hk : knownB s r = false) :
    enableRole s r = .error .ExceedMax := by
  unfold enableRole; unfold knownB at hk
  cases hf : findRole s.roles r with
  | some m => rw [hf] at hk; cases hk
  | none => simp [MAX_ROLES, hfull]

theorem member_capacity (s : St K A) (a : A) (r : K) (hfull : s.members.length = 64)
    (he : enabledB s r = true) (hm : memberB s a = false) :
    grant s a r = .error .ExceedMax := by
  unfold grant; unfold enabledB at he; unfold memberB at hm
  cases hf : findRole s.roles r with
  | none => rw [hf] at he; cases he
  | some m =>
    rw [hf] at he; simp only at he
    cases hl : lookup s.members a with
    | some b => rw [hl] at hm; cases hm
    | none => simp [he, MAX_MEMBERS, hfull]

/-- below capacity, enabling an unknown role and granting to a new member succeed -/
theorem below_capacity_ok (s : St K A) (a : A) (r : K) :
    (knownB s r = false → s.roles.length < 32 → ∃ s', enableRole s r = .ok s') ∧
    (enabledB s r = true → memberB s a = false → s.members.length < 64 → ∃ s', grant s a r = .ok s') := by
  constructor
  · intro hk hlt
    unfold enableRole; unfold knownB at hk
    cases hf : findRole s.roles r with
    | some m => rw [hf] at hk; cases hk
    | none =>
      have : ¬ s.roles.length ≥ MAX_ROLES := by unfold MAX_ROLES; omega
      simp only [this, if_false]; exact ⟨_, rfl⟩
  · intro he hm hlt
    unfold grant; unfold enabledB at he; unfold memberB at hm
    cases hf : findRole s.roles r with
    | none => rw [hf] at he; cases he
    | some m =>
      rw [hf] at he; simp only at he
      cases hl : lookup s.members a with
      | some b => rw [hl] at hm; cases hm
      | none =>
        have : ¬ s.members.length ≥ MAX_MEMBERS := by unfold MAX_MEMBERS; omega
        simp only [he, Bool.not_true, Bool.false_eq_true, if_false, this]; exact ⟨_, rfl⟩

/-! ### histories -/

/-- the invariant (hence the capacities) holds after ANY operation sequence from the empty store -/
theorem history_invariant (ops : List (Op K A)) :
    Inv (run (St.empty : St K A) ops) ∧
    (run (St.empty : St K A) ops).roles.length ≤ 32 ∧ (run (St.empty : St K A) ops).members.length ≤ 64 := by
  have := inv_run ops (inv_empty (K := K) (A := A))
  exact ⟨this, this.nroles, this.nmembers⟩

theorem history_refines (ops : List (Op K A)) : ∀ (s : St K A) (E : K → Bool) (G : A → K → Bool),
    Inv s → (∀ r, E r = enabledB s r) → (∀ a r, G a r = grantedB s a r) →
    (∀ r, (specRun s E G ops).1 r = enabledB (run s ops) r) ∧
    (∀ a r, (specRun s E G ops).2 a r = grantedB (run s ops) a r) := by
  induction ops with
  | nil => intro s E G _ hE hG; exact ⟨hE, hG⟩
  | cons o os ih =>
    intro s E G hi hE hG
    simp only [specRun, run]
    apply ih _ _ _ (inv_apply o hi)
    · intro r'
      unfold succeeds apply specStep
      cases hs : step s o with
      | error e => simpa using hE r'
      | ok s' =>
        cases o with
        | enable r => simp only [step] at hs; simp [(enable_effect hi hs).2.1 r', hE]
        | disable r => simp only [step] at hs; simp [(disable_effect hs).2.1 r', hE]
        | grant a r =>
          simp only [step] at hs
          have := (grant_effect hi hs).1
          simp [enabledB, this, hE]
        | revoke a r =>
          simp only [step] at hs
          have := (revoke_effect hi hs).1
          simp [enabledB, this, hE]
    · intro a' r'
      unfold succeeds apply specStep
      cases hs : step s o with
      | error e => simpa using hG a' r'
      | ok s' =>
        cases o with
        | enable r => simp only [step] at hs; simp [(enable_effect hi hs).2.2 a' r', hG]
        | disable r => simp only [step] at hs; simp [(disable_effect hs).2.2 a' r', hG]
        | grant a r => simp only [step] at hs; simp [(grant_effect hi hs).2 a' r', hG]
        | revoke a r => simp only [step] at hs; simp [(revoke_effect hi hs).2 a' r', hG]

/-- THE PROPERTY: after any sequence of enable/disable/grant/revoke calls on a fresh store, an
address holds a role exactly when the role is enabled and the address was granted it and not
revoked since. -/
theorem history_hasRole (ops : List (Op K A)) (a : A) (r : K) :
    hasRole (run (St.empty : St K A) ops) a r = .ok true ↔
      ((specRun (St.empty : St K A) (fun _ => false) (fun _ _ => false) ops).1 r = true ∧
       (specRun (St.empty : St K A) (fun _ => false) (fun _ _ => false) ops).2 a r = true) := by
  have := history_refines ops (St.empty : St K A) (fun _ => false) (fun _ _ => false) inv_empty
    (by intro r; simp [enabledB, St.empty, findRole]) (by intro a r; simp [grantedB, St.empty, findRole])
  rw [hasRole_spec, this.1 r, this.2 a r]

/-! ### cluster restart and the store authority -/

/-- after a restart only RESTART_ADMIN holders are authorised, and for EVERY role (existing,
disabled or unknown); nobody gets the answer `false` -/
theorem restart_spec (ra : K) (s : St K A) (a : A) (r : K) :
    (storeHasRole ra s true a r = .ok true ↔ (enabledB s ra = true ∧ grantedB s a ra = true)) ∧
    storeHasRole ra s true a r ≠ .ok false ∧
    storeHasRole ra s true a r = storeHasRole ra s true a ra := by
  refine ⟨?_, ?_, rfl⟩
  · rw [← hasRole_spec]
    unfold storeHasRole
    simp only [if_true]
    cases h : hasRole s a ra with
    | error e => simp
    | ok b => cases b <;> simp
  · unfold storeHasRole
    simp only [if_true]
    cases h : hasRole s a ra with
    | error e => simp
    | ok b => cases b <;> simp

/-- NOTE ("authorised for every role" is literal): after a restart a holder of the enabled
RESTART_ADMIN role is authorised even for a role name that was never created, and for a disabled
one — the requested role is not looked at. Conversely, if RESTART_ADMIN itself is disabled or was
never created, NOBODY is authorised through `has_role` after a restart (the call errs). -/
theorem restart_any_role_name (ra : K) (s : St K A) (a : A) (r : K)
    (he : enabledB s ra = true) (hg : grantedB s a ra = true) :
    storeHasRole ra s true a r = .ok true :=
  ((restart_spec ra s a r).1).2 ⟨he, hg⟩

/-- if RESTART_ADMIN is not an enabled role, nobody passes `has_role` after a restart -/
theorem restart_without_admin_role (ra : K) (s : St K A) (a : A) (r : K) (he : enabledB s ra = false) :
    ∃ e, storeHasRole ra s true a r = .error e := by
  have h1 := (restart_spec ra s a r).1
  have h2 := (restart_spec ra s a r).2.1
  cases h : storeHasRole ra s true a r with
  | error e => exact ⟨e, rfl⟩
  | ok b =>
    cases b
    · exact absurd h h2
    · have := (h1.1 h).1; rw [he] at this; cases this

/-- without a pending restart `Store::has_role` is `RoleStore::has_role` -/
theorem no_restart_spec (ra : K) (s : St K A) (a : A) (r : K) :
    storeHasRole ra s false a r = hasRole s a r := rfl

/-- the store authority is always an admin -/
theorem authority_always_admin (ra : K) (s : St K A) (authority : A) (restarted : Bool) :
    storeHasAdminRole ra s authority restarted authority = .ok true := by
  simp [storeHasAdminRole]

/-- anybody else is an admin exactly when the cluster restarted and they hold RESTART_ADMIN -/
theorem admin_spec (ra : K) (s : St K A) (authority a : A) (restarted : Bool) (hne : a ≠ authority) :
    storeHasAdminRole ra s authority restarted a = .ok true ↔
      (restarted = true ∧ enabledB s ra = true ∧ grantedB s a ra = true) := by
  rw [← hasRole_spec]
  unfold storeHasAdminRole
  cases restarted <;> simp [hne]

end


/-! ### audit additions: exact success conditions (the history spec `specRun` is driven by which calls
SUCCEED; these say when they do, so the spec is closed) -/
section
variable {K A : Type} [DecidableEq K] [DecidableEq A]

/-- `grant` succeeds exactly when the role is enabled, not yet held, and the member table has room
(or the address is already a member) -/
theorem grant_succeeds_iff (s : St K A) (a : A) (r : K) :
    (∃ s', grant s a r = .ok s') ↔
      (enabledB s r = true ∧ grantedB s a r = false ∧ (memberB s a = true ∨ s.members.length < 64)) := by
  unfold grant enabledB grantedB memberB
  cases hf : findRole s.roles r with
  | none => simp
  | some m =>
    cases hl : lookup s.members a with
    | none =>
      cases he : m.enabled
      · simp [he]
      · by_cases hlen : s.members.length ≥ MAX_MEMBERS
        · have : ¬ s.members.length < 64 := by unfold MAX_MEMBERS at hlen; omega
          simp [he, hlen, this]
        · have : s.members.length < 64 := by unfold MAX_MEMBERS at hlen; omega
          simp [he, hlen, this]
    | some bits =>
      cases he : m.enabled
      · simp [he]
      · by_cases hc : m.index ∈ bits <;> simp [he, hc]

/-- `revoke` succeeds exactly when the grant is held (enabled role or not) -/
theorem revoke_succeeds_iff (s : St K A) (a : A) (r : K) :
    (∃ s', revoke s a r = .ok s') ↔ grantedB s a r = true := by
  constructor
  · rintro ⟨s', h⟩
    cases hg : grantedB s a r with
    | true => rfl
    | false => rw [revoke_absent_fails s a r hg] at h; cases h
  · exact revoke_on_disabled_ok s a r

/-- `enable_role` succeeds exactly when the role is not enabled and is known or there is room -/
theorem enable_succeeds_iff (s : St K A) (r : K) :
    (∃ s', enableRole s r = .ok s') ↔
      (enabledB s r = false ∧ (knownB s r = true ∨ s.roles.length < 32)) := by
  unfold enableRole enabledB knownB
  cases hf : findRole s.roles r with
  | some m => cases he : m.enabled <;> simp [he]
  | none =>
    by_cases hlen : s.roles.length ≥ MAX_ROLES
    · have : ¬ s.roles.length < 32 := by unfold MAX_ROLES at hlen; omega
      simp [hlen, this]
    · have : s.roles.length < 32 := by unfold MAX_ROLES at hlen; omega
      simp [hlen, this]

/-- `disable_role` fails exactly on a known, disabled role -/
theorem disable_succeeds_iff (s : St K A) (r : K) :
    (∃ s', disableRole s r = .ok s') ↔ (enabledB s r = true ∨ knownB s r = false) := by
  unfold disableRole enabledB knownB
  cases hf : findRole s.roles r with
  | some m => cases he : m.enabled <;> simp [he]
  | none => simp


/-! ### THE SET SEMANTICS, with success and failure decided from the abstract state alone

`Abs` (created role names, enabled flags, the set of grants, the member list) and `absStep` (in
`Lemmas/RolesSpec.lean`) never look at the implementation: whether a call succeeds is a function of the
abstract state (`enable_succeeds_iff` … `disable_succeeds_iff` are what makes that possible). -/

theorem rel_known {s : St K A} {x : Abs K A} (h : Rel s x) (r : K) : knownB s r = true ↔ r ∈ x.created := by
  rw [h.created]; exact knownB_iff_mem s.roles r

theorem rel_member {s : St K A} {x : Abs K A} (h : Rel s x) (a : A) : memberB s a = true ↔ a ∈ x.members := by
  rw [h.members]; exact memberB_iff_mem s.members a

/-- one call: the implementation succeeds iff the abstract step does, and the results stay related -/
theorem abs_simulates (s : St K A) (x : Abs K A) (o : Op K A) (hr : Rel s x) (hi : Inv s) :
    (∀ s', step s o = .ok s' → ∃ x', absStep x o = some x' ∧ Rel s' x') ∧
    ((¬ ∃ s', step s o = .ok s') → absStep x o = none) := by
  have hlenR : x.created.length = s.roles.length := by rw [hr.created]; simp
  have hlenM : x.members.length = s.members.length := by rw [hr.members]; simp
  cases o with
  | enable r =>
    simp only [step, absStep]
    constructor
    · intro s' h
      have hcond := (enable_succeeds_iff s r).1 ⟨s', h⟩
      obtain ⟨hm, hE, hG⟩ := enable_effect hi h
      have hEr : ¬ x.enabled r = true := by rw [hr.enabled r, hcond.1]; simp
      rw [if_neg hEr]
      by_cases hk : r ∈ x.created
      · rw [if_pos hk]
        refine ⟨_, rfl, ?_, fun r' => ?_, fun a r' => ?_, ?_⟩
        · -- a known role: the role table keeps its names
          have hkn := (rel_known hr r).2 hk
          unfold enableRole at h; unfold knownB at hkn
          cases hf : findRole s.roles r with
          | none => rw [hf] at hkn; cases hkn
          | some m =>
            rw [hf] at h; simp only at h
            cases he : m.enabled with
            | true => simp [he] at h
            | false =>
              simp only [he, Bool.false_eq_true, if_false] at h
              cases h
              simp only [map_name_setEnabled]; exact hr.created
        · simp only [setE]; rw [hE r']; by_cases e : r' = r <;> simp [e, hr.enabled]
        · simp only; rw [hG a r']; exact hr.grants a r'
        · simp only; rw [hm]; exact hr.members
      · rw [if_neg hk]
        have hnk : knownB s r = false := by
          cases hkb : knownB s r with
          | false => rfl
          | true => exact absurd ((rel_known hr r).1 hkb) hk
        have hlt : x.created.length < 32 := by
          rcases hcond.2 with h1 | h1
          · rw [hnk] at h1; cases h1
          · omega
        rw [if_pos hlt]
        refine ⟨_, rfl, ?_, fun r' => ?_, fun a r' => ?_, ?_⟩
        · unfold enableRole at h; unfold knownB at hnk
          cases hf : findRole s.roles r with
          | some m => rw [hf] at hnk; cases hnk
          | none =>
            rw [hf] at h; simp only at h
            by_cases hcap : s.roles.length ≥ MAX_ROLES
            · simp [hcap] at h
            · simp only [hcap, if_false] at h
              cases h
              simp [hr.created]
        · simp only [setE]; rw [hE r']; by_cases e : r' = r <;> simp [e, hr.enabled]
        · simp only; rw [hG a r']; exact hr.grants a r'
        · simp only; rw [hm]; exact hr.members
    · intro hno
      have hcond := mt (enable_succeeds_iff s r).2 hno
      by_cases hEr : x.enabled r = true
      · rw [if_pos hEr]
      · rw [if_neg hEr]
        have he : enabledB s r = false := by
          rw [← hr.enabled r]; cases hh : x.enabled r with
          | false => rfl
          | true => exact absurd hh hEr
        have hnk : ¬ r ∈ x.created := fun hk => hcond ⟨he, Or.inl ((rel_known hr r).2 hk)⟩
        have hnl : ¬ x.created.length < 32 := fun hl => hcond ⟨he, Or.inr (by omega)⟩
        rw [if_neg hnk, if_neg hnl]
  | disable r =>
    simp only [step, absStep]
    constructor
    · intro s' h
      obtain ⟨hm, hE, hG⟩ := disable_effect h
      have hcond := (disable_succeeds_iff s r).1 ⟨s', h⟩
      have hroles : s'.roles.map (·.name) = s.roles.map (·.name) := by
        unfold disableRole at h
        cases hf : findRole s.roles r with
        | none => rw [hf] at h; cases h; rfl
        | some m =>
          rw [hf] at h; simp only at h
          cases he : m.enabled with
          | false => simp [he] at h
          | true => simp only [he, if_true] at h; cases h; exact map_name_setEnabled _ _ _
      by_cases hEr : x.enabled r = true
      · rw [if_pos hEr]
        refine ⟨_, rfl, by simp only; rw [hroles]; exact hr.created, fun r' => ?_, fun a r' => by simp only; rw [hG a r']; exact hr.grants a r',
          by simp only; rw [hm]; exact hr.members⟩
        simp only [setE]; rw [hE r']; by_cases e : r' = r <;> simp [e, hr.enabled]
      · rw [if_neg hEr]
        have he : enabledB s r = false := by
          rw [← hr.enabled r]; cases hh : x.enabled r with
          | false => rfl
          | true => exact absurd hh hEr
        have hnk : ¬ r ∈ x.created := by
          intro hk
          rcases hcond with h1 | h1
          · rw [he] at h1; cases h1
          · rw [(rel_known hr r).2 hk] at h1; cases h1
        rw [if_neg hnk]
        refine ⟨_, rfl, by rw [hroles]; exact hr.created, fun r' => ?_, fun a r' => by rw [hG a r']; exact hr.grants a r',
          by rw [hm]; exact hr.members⟩
        rw [hE r']; by_cases e : r' = r
        · subst e; simp [hr.enabled, he]
        · simp [e, hr.enabled]
    · intro hno
      have hcond := mt (disable_succeeds_iff s r).2 hno
      have he : ¬ x.enabled r = true := fun hh => hcond (Or.inl (by rw [← hr.enabled r]; exact hh))
      have hk : r ∈ x.created := by
        cases hkb : knownB s r with
        | true => exact (rel_known hr r).1 hkb
        | false => exact absurd (Or.inr hkb) hcond
      rw [if_neg he, if_pos hk]
  | grant a r =>
    simp only [step, absStep]
    constructor
    · intro s' h
      have hcond := (grant_succeeds_iff s a r).1 ⟨s', h⟩
      obtain ⟨hroles, hG⟩ := grant_effect hi h
      have hc : x.enabled r = true ∧ x.grants a r = false ∧ (a ∈ x.members ∨ x.members.length < 64) := by
        refine ⟨by rw [hr.enabled]; exact hcond.1, by rw [hr.grants]; exact hcond.2.1, ?_⟩
        rcases hcond.2.2 with h1 | h1
        · exact Or.inl ((rel_member hr a).1 h1)
        · exact Or.inr (by omega)
      rw [if_pos hc]
      refine ⟨_, rfl, by simp only; rw [hroles]; exact hr.created, fun r' => by simp only; unfold enabledB; rw [hroles]; exact hr.enabled r',
        fun a' r' => ?_, ?_⟩
      · simp only [setG]; rw [hG a' r']; by_cases e : a' = a ∧ r' = r <;> simp [e, hr.grants]
      · obtain ⟨m, _, _, hcase⟩ := grant_ok_shape h
        rcases hcase with ⟨bits, hl, _, rfl⟩ | ⟨hl, _, rfl⟩
        · have hm : a ∈ x.members := (rel_member hr a).1 (by simp [memberB, hl])
          simp only [hm, if_true, map_fst_setBits]; exact hr.members
        · have hm : ¬ a ∈ x.members := fun hm => by
            have := (rel_member hr a).2 hm; simp [memberB, hl] at this
          simp only [hm, if_false, List.map_append, List.map_cons, List.map_nil]; rw [hr.members]
    · intro hno
      have hcond := mt (grant_succeeds_iff s a r).2 hno
      have : ¬ (x.enabled r = true ∧ x.grants a r = false ∧ (a ∈ x.members ∨ x.members.length < 64)) := by
        rintro ⟨h1, h2, h3⟩
        apply hcond
        refine ⟨by rw [← hr.enabled]; exact h1, by rw [← hr.grants]; exact h2, ?_⟩
        rcases h3 with h3 | h3
        · exact Or.inl ((rel_member hr a).2 h3)
        · exact Or.inr (by omega)
      rw [if_neg this]
  | revoke a r =>
    simp only [step, absStep]
    constructor
    · intro s' h
      have hcond := (revoke_succeeds_iff s a r).1 ⟨s', h⟩
      obtain ⟨hroles, hG⟩ := revoke_effect hi h
      have hi' : Inv s' := inv_step (o := .revoke a r) hi h
      rw [if_pos (by rw [hr.grants]; exact hcond)]
      have hGrel : ∀ a' r', setG x.grants a r false a' r' = grantedB s' a' r' := by
        intro a' r'
        simp only [setG]; rw [hG a' r']; by_cases e : a' = a ∧ r' = r <;> simp [e, hr.grants]
      refine ⟨_, rfl, by simp only; rw [hroles]; exact hr.created, fun r' => by simp only; unfold enabledB; rw [hroles]; exact hr.enabled r',
        hGrel, ?_⟩
      -- the address stays a member iff it still holds some role
      have hmem : (∃ r', setG x.grants a r false a r' = true) ↔ memberB s' a = true := by
        rw [member_iff_holds s' a hi']
        constructor
        · rintro ⟨r', h1⟩; exact ⟨r', by rw [← hGrel]; exact h1⟩
        · rintro ⟨r', h1⟩; exact ⟨r', by rw [hGrel]; exact h1⟩
      obtain ⟨m, bits, _, hl, _, hcase⟩ := revoke_ok_shape h
      rcases hcase with ⟨_, rfl⟩ | ⟨_, rfl⟩
      · have hnm : ¬ ∃ r', setG x.grants a r false a r' = true := by
          rw [hmem]; simp [memberB, lookup_removeMember]
        simp only [hnm, if_false, map_fst_removeMember]; rw [hr.members]
      · have hm : ∃ r', setG x.grants a r false a r' = true := by
          rw [hmem]; simp [memberB, lookup_setBits, hl]
        simp only [hm, if_true, map_fst_setBits]; exact hr.members
    · intro hno
      have hcond := mt (revoke_succeeds_iff s a r).2 hno
      rw [if_neg (by rw [hr.grants]; exact hcond)]

/-- the relation is kept by whole histories (a failing call changes neither side) -/
theorem abs_run_related (ops : List (Op K A)) : ∀ (s : St K A) (x : Abs K A), Rel s x → Inv s →
    Rel (run s ops) (absRun x ops) := by
  induction ops with
  | nil => intro s x hr _; exact hr
  | cons o os ih =>
    intro s x hr hi
    simp only [run, absRun]
    apply ih _ _ _ (inv_apply o hi)
    obtain ⟨h1, h2⟩ := abs_simulates s x o hr hi
    unfold apply absApply
    cases hs : step s o with
    | ok s' =>
      obtain ⟨x', hx, hrel⟩ := h1 s' hs
      simp only [hx, Option.getD_some]; exact hrel
    | error e =>
      have : ¬ ∃ s', step s o = .ok s' := by rintro ⟨s', h⟩; rw [hs] at h; cases h
      rw [h2 this]; exact hr

/-- THE PROPERTY, with nothing taken from the implementation: after any sequence of enable / disable / grant /
revoke calls on a fresh store, `has_role` answers `true` exactly for the pairs in the set of grants whose role
is enabled, where the set of grants, the enabled flags AND the success or failure of every call are those of the
abstract specification `absRun` (which calls fail is decided from the abstract state: enabling an enabled role,
a 33rd role, disabling a disabled role, granting on a missing/disabled role or a held grant, a 65th member,
revoking an absent grant). -/
theorem history_set_semantics (ops : List (Op K A)) (a : A) (r : K) :
    hasRole (run (St.empty : St K A) ops) a r = .ok true ↔
      ((absRun (Abs.empty : Abs K A) ops).enabled r = true ∧ (absRun (Abs.empty : Abs K A) ops).grants a r = true) := by
  have h := abs_run_related ops (St.empty : St K A) Abs.empty rel_empty inv_empty
  rw [hasRole_spec, h.enabled r, h.grants a r]

/-- … and call by call: the implementation accepts a call exactly when the specification does -/
theorem history_success_agrees (ops : List (Op K A)) (o : Op K A) :
    succeeds (run (St.empty : St K A) ops) o = (absStep (absRun (Abs.empty : Abs K A) ops) o).isSome := by
  have hrel := abs_run_related ops (St.empty : St K A) Abs.empty rel_empty inv_empty
  have hinv := inv_run ops (inv_empty (K := K) (A := A))
  obtain ⟨h1, h2⟩ := abs_simulates _ _ o hrel hinv
  unfold succeeds
  cases hs : step (run (St.empty : St K A) ops) o with
  | ok s' => obtain ⟨x', hx, _⟩ := h1 s' hs; simp [hx]
  | error e =>
    have : ¬ ∃ s', step (run (St.empty : St K A) ops) o = .ok s' := by rintro ⟨s', h⟩; rw [hs] at h; cases h
    simp [h2 this]

end

/-! ### non-vacuity (concrete stores; roles are strings, addresses numbers) -/

example : hasRole ex1 7 "KEEPER" = .ok true := by decide
example : hasRole ex1 7 "ADMIN" = .error .Preconditions := by decide
example : hasRole ex1 8 "KEEPER" = .error .PermissionDenied := by decide
example : hasRole ex1 7 "NOPE" = .error .NotFound := by decide
example : grant ex1 7 "KEEPER" = .error .Preconditions := by decide
example : (revoke ex1 7 "ADMIN").toOption.isSome = true := by decide
example : hasRole (run ex1 [.revoke 7 "ADMIN", .revoke 7 "KEEPER"]) 7 "KEEPER" = .error .PermissionDenied := by decide
example : storeHasRole "RESTART_ADMIN" (run ex1 [.enable "RESTART_ADMIN", .grant 9 "RESTART_ADMIN"]) true 9 "NOPE" = .ok true := by decide
example : storeHasRole "RESTART_ADMIN" (run ex1 [.enable "RESTART_ADMIN", .grant 9 "RESTART_ADMIN"]) true 7 "KEEPER" = .error .StoreOutdated := by decide

/-! ### audit additions: every hypothesis set is met by a concrete, non-initial store -/

/-- the invariant holds on `ex1` (two roles, one disabled; one member holding both) -/
theorem ex1_inv_witness : Inv ex1 := (history_invariant _).1

/-- a store over `Bool` role keys (so that `∀ r'` premises are decidable): 7 holds only `true`, 8 holds `false` -/
def exB : St Bool Nat :=
  run St.empty [.enable true, .enable false, .grant 7 true, .grant 7 false, .grant 8 false, .revoke 7 false]
theorem exB_inv_witness : Inv exB := (history_invariant _).1

/-- 32 roles / 64 members: the stores at capacity -/
def exFullRoles : St Nat Nat := run St.empty ((List.range 32).map Op.enable)
def exFullMembers : St Nat Nat := run St.empty (.enable 0 :: (List.range 64).map (fun a => Op.grant a 0))

-- successful operations under the invariant, instantiating the `…_exactly` theorems
example : ∃ s', grant ex1 8 "KEEPER" = .ok s' ∧ grantedB s' 8 "KEEPER" = true ∧
    grantedB s' 7 "KEEPER" = grantedB ex1 7 "KEEPER" ∧ enabledB s' "ADMIN" = enabledB ex1 "ADMIN" :=
  ⟨(run ex1 [.grant 8 "KEEPER"]), by decide,
    by rw [(grant_adds_exactly ex1 _ 8 "KEEPER" ex1_inv_witness (by decide)).1]; simp,
    by rw [(grant_adds_exactly ex1 _ 8 "KEEPER" ex1_inv_witness (by decide)).1]; simp,
    (grant_adds_exactly ex1 _ 8 "KEEPER" ex1_inv_witness (by decide)).2 _⟩
example : ∃ s', revoke ex1 7 "ADMIN" = .ok s' ∧ grantedB s' 7 "ADMIN" = false ∧ grantedB s' 7 "KEEPER" = true :=
  ⟨(run ex1 [.revoke 7 "ADMIN"]), by decide,
    by rw [(revoke_removes_exactly ex1 _ 7 "ADMIN" ex1_inv_witness (by decide)).1]; simp,
    by decide⟩
example : ∃ s', enableRole ex1 "ADMIN" = .ok s' ∧ enabledB s' "ADMIN" = true ∧ grantedB s' 7 "ADMIN" = true :=
  ⟨(run ex1 [.enable "ADMIN"]), by decide,
    by rw [(enable_sets_exactly ex1 _ "ADMIN" ex1_inv_witness (by decide)).1]; simp,
    by rw [(enable_sets_exactly ex1 _ "ADMIN" ex1_inv_witness (by decide)).2]; decide⟩
example : ∃ s', disableRole ex1 "KEEPER" = .ok s' ∧ enabledB s' "KEEPER" = false ∧ grantedB s' 7 "KEEPER" = true :=
  ⟨(run ex1 [.disable "KEEPER"]), by decide,
    by rw [(disable_clears_exactly ex1 _ "KEEPER" (by decide)).1]; simp,
    by rw [(disable_clears_exactly ex1 _ "KEEPER" (by decide)).2]; decide⟩

-- failing operations
example : apply ex1 (.grant 7 "KEEPER") = ex1 := failing_op_unchanged ex1 _ (by decide)
example : grant ex1 7 "KEEPER" = .error .Preconditions := grant_twice_fails ex1 7 "KEEPER" (by decide) (by decide)
example : grant ex1 8 "ADMIN" = .error .Preconditions := grant_disabled_fails ex1 8 "ADMIN" (by decide) (by decide)
example : revoke ex1 8 "KEEPER" = .error .PermissionDenied :=
  (revoke_absent_fails ex1 8 "KEEPER" (by decide)).trans (by decide)
example : revoke ex1 7 "NOPE" = .error .NotFound :=
  (revoke_absent_fails ex1 7 "NOPE" (by decide)).trans (by decide)
example : revoke exB 7 false = .error .Preconditions :=
  (revoke_absent_fails exB 7 false (by decide)).trans (by decide)
example : enableRole ex1 "KEEPER" = .error .Preconditions := enable_enabled_fails ex1 "KEEPER" (by decide)
example : disableRole ex1 "ADMIN" = .error .Preconditions :=
  (disable_disabled_fails ex1 "ADMIN" (by decide)).trans (by decide)
example : disableRole ex1 "NOPE" = .ok ex1 ∧ apply ex1 (.disable "NOPE") = ex1 :=
  disable_unknown_is_noop ex1 "NOPE" (by decide)

-- members
example : memberB (run exB [.revoke 7 true]) 7 = false ∧
    ∀ r', hasRole (run exB [.revoke 7 true]) 7 r' = .error .PermissionDenied :=
  last_revoke_removes_member exB _ 7 true exB_inv_witness (by decide) (by decide)
example : ∃ r, grantedB ex1 7 r = true := (member_iff_holds ex1 7 ex1_inv_witness).1 (by decide)
example : memberB exB 8 = true := (member_iff_holds exB 8 exB_inv_witness).2 ⟨false, by decide⟩
example : enabledB ex1 "ADMIN" = false ∧ ∃ s', revoke ex1 7 "ADMIN" = .ok s' :=
  ⟨by decide, revoke_on_disabled_ok ex1 7 "ADMIN" (by decide)⟩

-- capacities
example : enableRole exFullRoles 99 = .error .ExceedMax :=
  role_capacity exFullRoles 99 (by decide +kernel) (by decide +kernel)
example : grant exFullMembers 99 0 = .error .ExceedMax :=
  member_capacity exFullMembers 99 0 (by decide +kernel) (by decide +kernel) (by decide +kernel)
example : (∃ s', enableRole ex1 "NOPE" = .ok s') ∧ (∃ s', grant ex1 8 "KEEPER" = .ok s') :=
  ⟨(below_capacity_ok ex1 8 "NOPE").1 (by decide) (by decide),
   (below_capacity_ok ex1 8 "KEEPER").2 (by decide) (by decide) (by decide)⟩
/-- the invariant's capacity bounds are attained (not just `≤` of something small) -/
example : exFullRoles.roles.length = 32 ∧ exFullMembers.members.length = 64 := by decide +kernel

-- histories: a non-empty run with a failing call, a disable/enable and a revoke in it
example : hasRole (run (St.empty : St String Nat)
      [.enable "K", .grant 7 "K", .grant 7 "K", .disable "K", .grant 8 "K", .enable "K", .grant 9 "K", .revoke 9 "K"]) 7 "K"
    = .ok true :=
  (history_hasRole _ 7 "K").2 ⟨by decide, by decide⟩
example : (specRun (St.empty : St String Nat) (fun _ => false) (fun _ _ => false)
      [.enable "K", .grant 7 "K", .grant 7 "K", .disable "K", .grant 8 "K", .enable "K", .grant 9 "K", .revoke 9 "K"]).2 9 "K"
    = false := by decide
example : (∀ r, (specRun ex1 (enabledB ex1) (grantedB ex1) [.enable "ADMIN", .revoke 7 "KEEPER"]).1 r
      = enabledB (run ex1 [.enable "ADMIN", .revoke 7 "KEEPER"]) r) :=
  (history_refines _ ex1 _ _ ex1_inv_witness (fun _ => rfl) (fun _ _ => rfl)).1

-- restart / admin
example : storeHasRole "KEEPER" ex1 true 7 "NOPE" = .ok true :=
  restart_any_role_name "KEEPER" ex1 7 "NOPE" (by decide) (by decide)
example : ∃ e, storeHasRole "ADMIN" ex1 true 7 "KEEPER" = .error e :=
  restart_without_admin_role "ADMIN" ex1 7 "KEEPER" (by decide)
example : storeHasAdminRole "KEEPER" ex1 1 true 7 = .ok true :=
  (admin_spec "KEEPER" ex1 1 7 true (by decide)).2 ⟨rfl, by decide, by decide⟩
example : storeHasAdminRole "KEEPER" ex1 1 false 7 = .ok false := by decide
example : storeHasAdminRole "KEEPER" ex1 1 false 1 = .ok true := authority_always_admin "KEEPER" ex1 1 false

-- the success characterisations, instantiated in both directions
example : ¬ ∃ s', grant exFullMembers 99 0 = .ok s' := by
  rw [grant_succeeds_iff]; decide +kernel
example : ∃ s', grant ex1 8 "KEEPER" = .ok s' :=
  (grant_succeeds_iff ex1 8 "KEEPER").2 ⟨by decide, by decide, .inr (by decide)⟩
example : ∃ s', enableRole ex1 "ADMIN" = .ok s' := (enable_succeeds_iff ex1 "ADMIN").2 ⟨by decide, .inl (by decide)⟩
example : ∃ s', disableRole ex1 "KEEPER" = .ok s' := (disable_succeeds_iff ex1 "KEEPER").2 (.inl (by decide))
example : ¬ ∃ s', revoke ex1 8 "KEEPER" = .ok s' := by rw [revoke_succeeds_iff]; decide

/-! the abstract specification agrees with the implementation on a concrete history (non-vacuity of
`history_set_semantics` / `history_success_agrees`; `absRun` is a specification, not a program) -/
example : (absRun (Abs.empty : Abs String Nat) [.enable "K", .grant 7 "K", .grant 7 "K", .disable "K", .enable "K"]).enabled "K" = true ∧
    (absRun (Abs.empty : Abs String Nat) [.enable "K", .grant 7 "K", .grant 7 "K", .disable "K", .enable "K"]).grants 7 "K" = true :=
  (history_set_semantics [.enable "K", .grant 7 "K", .grant 7 "K", .disable "K", .enable "K"] 7 "K").1 (by decide)
example : (absStep (absRun (Abs.empty : Abs String Nat) [.enable "K", .grant 7 "K"]) (.grant 7 "K")).isSome = false := by
  rw [← history_success_agrees]; decide
example : (absStep (absRun (Abs.empty : Abs String Nat) [.enable "K", .grant 7 "K"]) (.revoke 7 "K")).isSome = true := by
  rw [← history_success_agrees]; decide

end Gmx.C18
