import Gmx.Model.MarketInit
/-!
# C17 — a newly created market starts from the documented default configuration

All statements are about the tables REGENERATED from the Rust source on every run
(`Gmx.Gen.MarketConfig`: `MarketConfig::init`, `get`, constants; `Gmx.Gen.Pools`:
`Pools::init`, `Pools::get`), executed by `Gmx.MarketInit`.

The "documented default constant for a setting" is derived from the setting's NAME:
field `x_y_z` ↦ constant `DEFAULT_X_Y_Z`, with the exceptions listed (and justified) below.
-/
namespace Gmx.C17
open Gmx.Gen.MarketConfig Gmx.Gen.Pools Gmx.MarketInit

/-- ASCII codes of a string literal (names are compared as code lists: kernel evaluation of
`String` operations is very slow in Lean 4.33, `Nat` lists are fast) -/
def asc (s : String) : List Nat := s.toList.map Char.toNat
/-- ASCII upper-casing -/
def upper (l : List Nat) : List Nat := l.map fun n => if 97 ≤ n ∧ n ≤ 122 then n - 32 else n

/-- The documented default constant of a `MarketConfig` factor field, from its name. -/
def expectedDefaultName (f : Field) : List Nat :=
  match f with
  -- the four fee-receiver shares have one shared documented default ("Default receiver factor")
  | .swap_fee_receiver_factor => asc "DEFAULT_RECEIVER_FACTOR"
  | .order_fee_receiver_factor => asc "DEFAULT_RECEIVER_FACTOR"
  | .liquidation_fee_receiver_factor => asc "DEFAULT_RECEIVER_FACTOR"
  | .borrowing_fee_receiver_factor => asc "DEFAULT_RECEIVER_FACTOR"
  -- naming variant: the constant drops `_MULTIPLIER` ("Default min collateral factor for open interest for long/short")
  | .min_collateral_factor_for_open_interest_multiplier_for_long => asc "DEFAULT_MIN_COLLATERAL_FACTOR_FOR_OPEN_INTEREST_FOR_LONG"
  | .min_collateral_factor_for_open_interest_multiplier_for_short => asc "DEFAULT_MIN_COLLATERAL_FACTOR_FOR_OPEN_INTEREST_FOR_SHORT"
  -- naming variant: the constant drops the second `_FOR` ("…_FOR_DEPOSIT_LONG_TOKEN")
  | .max_pool_value_for_deposit_for_long_token => asc "DEFAULT_MAX_POOL_VALUE_FOR_DEPOSIT_LONG_TOKEN"
  | .max_pool_value_for_deposit_for_short_token => asc "DEFAULT_MAX_POOL_VALUE_FOR_DEPOSIT_SHORT_TOKEN"
  -- closed-market parameters start equal to their open-market base setting (long side for the
  -- side-less borrowing parameters), so that enabling the switch changes nothing by default
  | .market_closed_min_collateral_factor_for_liquidation => asc "DEFAULT_MIN_COLLATERAL_FACTOR_FOR_LIQUIDATION"
  | .market_closed_borrowing_fee_base_factor => asc "DEFAULT_BORROWING_FEE_BASE_FACTOR_FOR_LONG"
  | .market_closed_borrowing_fee_above_optimal_usage_factor => asc "DEFAULT_BORROWING_FEE_ABOVE_OPTIMAL_USAGE_FACTOR_FOR_LONG"
  -- the rule
  | f => asc "DEFAULT_" ++ upper f.codes

/-- The same rule stated on config KEYS (`snake_case` of the key is the setting's name); it
does not mention the key→field table, so it is an independent oracle for `get` ∘ `init`. -/
def expectedKeyDefaultName (k : Key) : List Nat :=
  match k with
  | .SwapFeeReceiverFactor | .OrderFeeReceiverFactor | .LiquidationFeeReceiverFactor
  | .BorrowingFeeReceiverFactor => asc "DEFAULT_RECEIVER_FACTOR"
  | .MinCollateralFactorForOpenInterestMultiplierForLong => asc "DEFAULT_MIN_COLLATERAL_FACTOR_FOR_OPEN_INTEREST_FOR_LONG"
  | .MinCollateralFactorForOpenInterestMultiplierForShort => asc "DEFAULT_MIN_COLLATERAL_FACTOR_FOR_OPEN_INTEREST_FOR_SHORT"
  | .MaxPoolValueForDepositForLongToken => asc "DEFAULT_MAX_POOL_VALUE_FOR_DEPOSIT_LONG_TOKEN"
  | .MaxPoolValueForDepositForShortToken => asc "DEFAULT_MAX_POOL_VALUE_FOR_DEPOSIT_SHORT_TOKEN"
  | .MarketClosedMinCollateralFactorForLiquidation => asc "DEFAULT_MIN_COLLATERAL_FACTOR_FOR_LIQUIDATION"
  | .MarketClosedBorrowingFeeBaseFactor => asc "DEFAULT_BORROWING_FEE_BASE_FACTOR_FOR_LONG"
  | .MarketClosedBorrowingFeeAboveOptimalUsageFactor => asc "DEFAULT_BORROWING_FEE_ABOVE_OPTIMAL_USAGE_FACTOR_FOR_LONG"
  | k => asc "DEFAULT_" ++ upper k.snakeCodes

/-- the constant `init` assigns to the field a key reads -/
def keyInitConst (k : Key) : Option Const := (getField k).bind initAssign

/-- the constant of the LAST `set_flag` call for a flag in `init` (`none`: never set, stays zeroed) -/
def flagInitConst (x : Flag) : Option Const :=
  (initFlags.reverse.find? (fun p => p.1 == x)).map Prod.snd

/-- Documented default of a config flag: `DEFAULT_<FLAG>`; exceptions: -/
def expectedFlagDefaultName (x : Flag) : Option (List Nat) :=
  match x with
  -- closed-market variant starts equal to its base flag
  | .MarketClosedSkipBorrowingFeeForSmallerSide => some (asc "DEFAULT_SKIP_BORROWING_FEE_FOR_SMALLER_SIDE")
  -- the closed-market switch has no constant: it is documented as off until enabled (stays zeroed)
  | .EnableMarketClosedParams => none
  | x => some (asc "DEFAULT_" ++ upper x.snakeCodes)

/-- pools that must never be pure (single-sided bookkeeping pools) -/
def alwaysImpure : Kind → Bool
  | .PositionImpact | .BorrowingFactor | .TotalBorrowing => true
  | _ => false

/-! ## configuration values -/

/-- Every factor field is assigned by `init`, and from the constant its own name documents. -/
theorem init_uses_own_default :
    ∀ f : Field, (initAssign f).map Const.codes = some (expectedDefaultName f) := by
  intro f; cases f <;> decide +kernel

theorem every_field_initialised : ∀ f : Field, (initAssign f).isSome = true := by
  intro f; cases f <;> rfl

/-- every assigned constant has a numeric value, so every field has a defined initial value -/
theorem every_field_has_value : ∀ f : Field, (fieldAfterInit f).isSome = true := by
  intro f; cases f <;> decide +kernel

/-- Reading any key right after init returns the constant documented by THAT key's own name
(through the `get` table and the `init` list; stated on keys, independent of field names). -/
theorem key_reads_documented_default :
    ∀ k : Key, (keyInitConst k).map Const.codes = some (expectedKeyDefaultName k) := by
  intro k; cases k <;> decide +kernel

/-- … and that constant has a numeric value, which is what `get_config(key)` returns. -/
theorem key_default_value :
    ∀ k : Key, keyAfterInit k = (keyInitConst k).bind Const.nat? ∧ (keyAfterInit k).isSome = true := by
  intro k; cases k <;> decide +kernel

/-- every config flag starts at its documented default constant (or stays off) -/
theorem flag_defaults :
    ∀ x : Flag, (flagInitConst x).map Const.codes = expectedFlagDefaultName x
      ∧ flagAfterInit x = (match flagInitConst x with | some c => c.bool? | none => some false)
      ∧ (flagAfterInit x).isSome = true := by
  intro x; cases x <;> decide +kernel

/-- closed-market parameters start equal to the open-market value they replace -/
theorem market_closed_defaults_equal_base :
    fieldAfterInit .market_closed_min_collateral_factor_for_liquidation
        = fieldAfterInit .min_collateral_factor_for_liquidation
    ∧ fieldAfterInit .market_closed_borrowing_fee_base_factor
        = fieldAfterInit .borrowing_fee_base_factor_for_long
    ∧ fieldAfterInit .market_closed_borrowing_fee_base_factor
        = fieldAfterInit .borrowing_fee_base_factor_for_short
    ∧ fieldAfterInit .market_closed_borrowing_fee_above_optimal_usage_factor
        = fieldAfterInit .borrowing_fee_above_optimal_usage_factor_for_long
    ∧ fieldAfterInit .market_closed_borrowing_fee_above_optimal_usage_factor
        = fieldAfterInit .borrowing_fee_above_optimal_usage_factor_for_short := by
  decide +kernel

/-- No documented `DEFAULT_*` constant of constants/market.rs is dead: each one is used by
`init` (a default that exists but is not applied is exactly the past defect class). -/
theorem every_default_constant_used :
    ∀ c ∈ marketConsts, (c.codes.take 8 = asc "DEFAULT_") →
      (Field.all.any (fun f => initAssign f == some c) || initFlags.any (fun p => p.2 == c)) = true := by
  decide +kernel

/-! ## pools -/

/-- purity flag per pool KIND after init: never pure for the three single-sided pools,
otherwise pure exactly when the long and short tokens coincide -/
theorem purity_spec : ∀ (long short : Nat) (k : Kind),
    (poolOfKindAfterInit long short k).map Pool.isPure
      = some (if alwaysImpure k then false else decide (long = short)) := by
  intro long short k
  have h : ∀ b : Bool, ((poolGet k).map (runInit b initPurity (fun _ => Pool.zeroed))).map Pool.isPure
      = some (if alwaysImpure k then false else b) := by
    intro b; cases b <;> cases k <;> decide +kernel
  have h2 : isPureOf long short = decide (long = short) := by
    by_cases hls : long = short <;> simp [isPureOf, hls]
  rw [← h2]; exact h (isPureOf long short)

/-- all pool amounts start at zero (both sides, every kind, pure or not) -/
theorem pools_start_zero : ∀ (long short : Nat) (k : Kind),
    (poolOfKindAfterInit long short k).map (fun p => (p.long, p.short)) = some (0, 0) := by
  intro long short k
  have h : ∀ b : Bool, ((poolGet k).map (runInit b initPurity (fun _ => Pool.zeroed))).map (fun p => (p.long, p.short))
      = some (0, 0) := by
    intro b; cases b <;> cases k <;> decide +kernel
  exact h (isPureOf long short)

/-- every pool field of the storage is visited by `Pools::init` exactly once -/
theorem every_pool_initialised_once :
    ∀ p : PoolField, (initPurity.filter (fun q => q.1 == p)).length = 1 := by
  intro p; cases p <;> decide +kernel

/-- every pool kind resolves to a storage field, distinct kinds to distinct fields -/
theorem kinds_map_to_distinct_pools :
    (∀ k : Kind, (poolGet k).isSome = true) ∧
    (∀ k₁ ∈ Kind.all, ∀ k₂ ∈ Kind.all, poolGet k₁ = poolGet k₂ → k₁ = k₂) := by
  constructor
  · intro k; cases k <;> rfl
  · decide +kernel

/-! ## non-vacuity -/
example : expectedDefaultName .reserve_factor = asc "DEFAULT_RESERVE_FACTOR" := by decide +kernel
example : expectedDefaultName .swap_impact_exponent = asc "DEFAULT_SWAP_IMPACT_EXPONENT" := by decide +kernel
example : (keyAfterInit .ReserveFactor).isSome = true ∧ keyAfterInit .ReserveFactor ≠ some 0 := by decide +kernel
example : isPureOf 7 7 = true ∧ isPureOf 7 8 = false := by decide
example : (poolOfKindAfterInit 7 7 .Primary).map Pool.isPure = some true := by decide +kernel
example : (poolOfKindAfterInit 7 7 .PositionImpact).map Pool.isPure = some false := by decide +kernel
example : (poolOfKindAfterInit 7 8 .SwapImpact).map Pool.isPure = some false := by decide +kernel
example : flagAfterInit .SkipBorrowingFeeForSmallerSide = some true := by decide +kernel

/-! ## audit additions -/

/-- `every_default_constant_used` ranges over a non-trivial set: many `DEFAULT_*` constants, and the
prefix premise does discriminate (some market constant is not a default) -/
example : (marketConsts.filter fun c => c.codes.take 8 == asc "DEFAULT_").length ≥ 50 ∧
    (marketConsts.filter fun c => !(c.codes.take 8 == asc "DEFAULT_")).length ≥ 1 := by decide +kernel

/-- … instantiated: the reserve-factor default is consumed by `init` -/
example : (Field.all.any (fun f => initAssign f == some .DEFAULT_RESERVE_FACTOR)
    || initFlags.any (fun p => p.2 == Const.DEFAULT_RESERVE_FACTOR)) = true :=
  every_default_constant_used .DEFAULT_RESERVE_FACTOR (by decide +kernel) (by decide +kernel)

/-- `market_closed_defaults_equal_base` does not hold through `none = none`: the closed-market
parameters start at defined, NON-ZERO values -/
example : (fieldAfterInit .market_closed_min_collateral_factor_for_liquidation).isSome = true ∧
    fieldAfterInit .market_closed_min_collateral_factor_for_liquidation ≠ some 0 ∧
    fieldAfterInit .market_closed_borrowing_fee_base_factor ≠ some 0 ∧
    (fieldAfterInit .market_closed_borrowing_fee_base_factor).isSome = true ∧
    fieldAfterInit .market_closed_borrowing_fee_above_optimal_usage_factor ≠ some 0 ∧
    (fieldAfterInit .market_closed_borrowing_fee_above_optimal_usage_factor).isSome = true := by decide +kernel

/-- the defaults are not all one value (the table is not degenerate): two keys with different defaults -/
example : keyAfterInit .ReserveFactor ≠ keyAfterInit .MinCollateralFactorForLiquidation := by decide +kernel

/-- `flagInitConst` / `flagAfterInit` take the LAST `set_flag` of a flag; `init` sets every flag at most
once, so "last" and "first" coincide and no earlier assignment is silently overwritten -/
theorem flag_set_at_most_once : ∀ x : Flag, (initFlags.filter (fun p => p.1 == x)).length ≤ 1 := by
  intro x; cases x <;> decide +kernel

/-- `fieldAfterInit` answers `some 0` for a field `init` does NOT assign (the zeroed default). That
branch is never taken (`every_field_initialised`); stated on the value function itself: the value of
every field IS the numeric value of the constant assigned to it. -/
theorem field_value_is_its_constant :
    ∀ f : Field, ∃ c, initAssign f = some c ∧ fieldAfterInit f = c.nat? ∧ (c.nat?).isSome = true := by
  intro f
  have h1 := every_field_initialised f
  have h2 := every_field_has_value f
  cases hc : initAssign f with
  | none => rw [hc] at h1; cases h1
  | some c =>
    refine ⟨c, rfl, ?_, ?_⟩
    · simp [fieldAfterInit, hc]
    · simpa [fieldAfterInit, hc] using h2

/-- flag defaults, concretely (both closed-market related flags: the variant starts equal to its base
flag, the switch starts off) -/
example : flagAfterInit .MarketClosedSkipBorrowingFeeForSmallerSide = flagAfterInit .SkipBorrowingFeeForSmallerSide ∧
    flagAfterInit .EnableMarketClosedParams = some false ∧ flagInitConst .EnableMarketClosedParams = none := by
  decide +kernel

/-- the pool tables are non-trivial: several kinds, every storage field visited -/
example : Kind.all.length ≥ 10 ∧ initPurity.length = Kind.all.length := by decide +kernel

end Gmx.C17
