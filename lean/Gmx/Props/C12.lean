import Gmx.Lemmas.Funding
/-!
# C12 — funding rates stay within bounds and funding indices only grow

Statements are about `Gmx.Model.Funding` (transcription of `update_funding_state.rs`,
`FundingFeeParams::change`, `unpack_to_funding_amount_delta`), tied to the implementation by the
`fund` correspondence engine.

* adaptive mode (`increase_factor_per_second ≠ 0`): used rate within `[min, max]`, stored rate
  within `[0, max]` (`rate_within_min_max_partial`);
* fallback mode: rate `≤ max`, larger side pays, stored rate `0`; the configured minimum is NOT
  applied (`fallback_rate_below_min_witness`, known finding F-C12);
* indices only grow, over single updates and over histories;
* a pending funding amount is a natural number or an error, and it is defined whenever the
  position's snapshot was taken from an earlier state of the same history.
-/
namespace Gmx.C12
open Gmx Gmx.Lem

/-- decision table of `FundingFeeParams::change`. -/
theorem change_type_spec (p : FundingParams) (cur : Int) (l s df : Nat) :
    let same := (cur > 0 ∧ l > s) ∨ (cur < 0 ∧ l < s)
    (¬ same → p.change cur l s df = .increase) ∧
    (same → df > p.thrStable → p.change cur l s df = .increase) ∧
    (same → df ≤ p.thrStable → df < p.thrDecrease → p.change cur l s df = .decrease) ∧
    (same → df ≤ p.thrStable → p.thrDecrease ≤ df → p.change cur l s df = .noChange) := by
  intro same
  unfold FundingParams.change
  refine ⟨?_, ?_, ?_, ?_⟩
  · intro h; simp only [same] at h; simp [h]
  · intro h h1; simp only [same] at h; simp [h, h1]
  · intro h h1 h2; simp only [same] at h
    have : ¬ df > p.thrStable := by omega
    simp [h, this, h2]
  · intro h h1 h2; simp only [same] at h
    have a : ¬ df > p.thrStable := by omega
    have b : ¬ df < p.thrDecrease := by omega
    simp [h, a, b]

/-- the rate never *decreases in magnitude* when the skew opposes the current funding direction
or the funding rate is zero: `change` answers `increase`. -/
theorem change_increase_when_opposed (p : FundingParams) (cur : Int) (l s df : Nat)
    (h : cur = 0 ∨ (cur > 0 ∧ l ≤ s) ∨ (cur < 0 ∧ s ≤ l)) : p.change cur l s df = .increase := by
  apply (change_type_spec p cur l s df).1
  omega

/-- **adaptive mode** (`increase_factor_per_second ≠ 0`): whenever the computation succeeds the
used rate has a magnitude within the configured `[min, max]` and the stored next rate within
`[0, max]`. (The unrestricted clause is false in fallback mode, see
`fallback_rate_below_min_witness`.) -/
theorem rate_within_min_max_partial {W U : Nat} {p : FundingParams} {cur : Int} {dur l s f : Nat}
    {lps : Bool} {nx : Int} (hinc : p.inc ≠ 0)
    (h : nextFundingFactor W U p cur dur l s = .ok (f, lps, nx)) :
    p.minF ≤ f ∧ f ≤ p.maxF ∧ nx.natAbs ≤ p.maxF := by
  obtain ⟨v, hv⟩ := nextFundingFactor_adaptive hinc h
  unfold finishAdaptive at hv
  split at hv
  · cases hv
  · rename_i n1 h1
    split at hv
    · cases hv
    · rename_i n2 h2
      cases hv
      have a := C01.boundMagnitude_within (boundE_ok h1)
      have b := C01.boundMagnitude_within (boundE_ok h2)
      omega

/-- adaptive mode: the paying side is the sign of the bounded rate, which is the sign of the
stored rate (a stored rate of zero counts as "longs pay" when a positive minimum is applied). -/
theorem adaptive_payer_is_sign {W U : Nat} {p : FundingParams} {cur : Int} {dur l s f : Nat}
    {lps : Bool} {nx : Int} (hinc : p.inc ≠ 0)
    (h : nextFundingFactor W U p cur dur l s = .ok (f, lps, nx)) :
    (lps = true → 0 ≤ nx) ∧ (lps = false → nx < 0 ∨ f = 0) := by
  obtain ⟨v, hv⟩ := nextFundingFactor_adaptive hinc h
  unfold finishAdaptive at hv
  split at hv
  · cases hv
  · rename_i n1 h1
    split at hv
    · cases hv
    · rename_i n2 h2
      cases hv
      obtain ⟨_, s1, s2, _⟩ := C01.boundMagnitude_spec (boundE_ok h2)
      constructor
      · intro hl
        have : n2 > 0 := by simpa using hl
        by_cases hn : nx < 0
        · have := s1 hn; omega
        · omega
      · intro hl
        have : ¬ n2 > 0 := by simpa using hl
        by_cases hn : nx < 0
        · left; exact hn
        · right; have := s2 (by omega); omega

/-- **fallback mode** (`increase_factor_per_second = 0`): the rate is capped by the maximum and
nothing is stored. -/
theorem fallback_rate_le_max {W U : Nat} {p : FundingParams} {cur : Int} {dur l s f : Nat}
    {lps : Bool} {nx : Int} (hinc : p.inc = 0)
    (h : nextFundingFactor W U p cur dur l s = .ok (f, lps, nx)) : f ≤ p.maxF ∧ nx = 0 := by
  rcases nextFundingFactor_fallback hinc h with ⟨a, b⟩ | ⟨a, b, _⟩
  · exact ⟨b, a⟩
  · exact ⟨by omega, a⟩

/-- **fallback mode**: a non-zero rate is paid by the strictly larger side. -/
theorem fallback_larger_side_pays {W U : Nat} {p : FundingParams} {cur : Int} {dur l s f : Nat}
    {lps : Bool} {nx : Int} (hinc : p.inc = 0)
    (h : nextFundingFactor W U p cur dur l s = .ok (f, lps, nx)) (hf : 0 < f) :
    l ≠ s ∧ (lps = true ↔ s < l) ∧ (lps = false ↔ l < s) := by
  unfold nextFundingFactor at h
  simp only [hinc, and_true, if_true] at h
  split at h
  · cases h; omega
  · rename_i hd
    have hne : l ≠ s := by
      intro e; apply hd; unfold natAbsDiff; subst e; simp
    split at h
    · cases h
    · split at h
      · cases h
      · split at h
        · cases h
        · split at h
          · cases h
          · split at h
            · cases h
            · cases h
              refine ⟨hne, by simp, ?_⟩
              simp only [decide_eq_false_iff_not]; omega

/-- **negation of the literal clause** "the rate has a magnitude within the configured minimum
and maximum whenever both sides have open interest": min 5 / max 10, open interest 1000 vs 990,
no adaptive funding ⇒ rate 0 < min. Replayed on the implementation (known finding F-C12). -/
theorem fallback_rate_below_min_witness :
    nextFundingFactor 64 (10 ^ 9) ⟨10 ^ 9, 20, 0, 0, 10, 5, 0, 0⟩ 0 3600 1000 990 = .ok (0, true, 0) ∧
    nextFundingFactor 64 (10 ^ 9) ⟨10 ^ 9, 20, 0, 0, 10, 5, 0, 0⟩ 0 3600 (1000 * 10 ^ 9) (990 * 10 ^ 9)
      = .ok (0, true, 0) := by
  constructor <;> rfl

/-- AUDIT (general form of `fallback_rate_below_min_witness`): in fallback mode
(`increase_factor_per_second = 0`) the configured minimum rate is never read — the result is the
same for every value of `min_funding_factor_per_second`. -/
theorem fallback_ignores_min {W U : Nat} (p : FundingParams) (m : Nat) (cur : Int) (dur l s : Nat)
    (hinc : p.inc = 0) :
    nextFundingFactor W U { p with minF := m } cur dur l s = nextFundingFactor W U p cur dur l s := by
  unfold nextFundingFactor
  simp only [hinc, and_true, if_true]

/-- one funding update adds the (unsigned) deltas of its report: no index ever decreases. -/
theorem indices_monotone {W U adj : Nat} {p : FundingParams} {st st' : FundingState} {dur pl ps : Nat}
    {r : FundingReport} (h : updateFunding W U adj p st dur pl ps = .ok (st', r)) :
    (∀ a b, st'.fidx.get a b = st.fidx.get a b + r.dF.get a b) ∧
    (∀ a b, st'.cidx.get a b = st.cidx.get a b + r.dC.get a b) ∧
    st'.oi = st.oi ∧ st'.rate = r.next := by
  unfold updateFunding at h
  split at h
  · cases h
  · split at h
    · cases h
    · rename_i r' _
      split at h
      · cases h
      · rename_i f1 c1 h1
        split at h
        · cases h
        · rename_i f2 c2 h2
          split at h
          · cases h
          · rename_i f3 c3 h3
            split at h
            · cases h
            · rename_i f4 c4 h4
              cases h
              obtain ⟨a1, b1⟩ := applyPair_ok h1
              obtain ⟨a2, b2⟩ := applyPair_ok h2
              obtain ⟨a3, b3⟩ := applyPair_ok h3
              obtain ⟨a4, b4⟩ := applyPair_ok h4
              refine ⟨?_, ?_, rfl, rfl⟩
              · intro a b; cases a <;> cases b <;> simp [Quad.get, *]
              · intro a b; cases a <;> cases b <;> simp [Quad.get, *]

/-- `set_deltas` never touches the stored next rate. -/
theorem setDeltasOne_next {W U adj : Nat} {st : FundingState} {lps c : Bool} {fv price ro : Nat}
    {r r' : FundingReport} (h : setDeltasOne W U adj st lps c fv price ro r = .ok r') : r'.next = r.next := by
  unfold setDeltasOne at h
  split at h
  · cases h
  · split at h
    · cases h
    · cases h; rfl

/-- after a successful update the stored funding rate has magnitude `≤ max` in adaptive mode and
is `0` in fallback mode or when a side has no open interest. -/
theorem update_rate_le_max {W U adj : Nat} {p : FundingParams} {st st' : FundingState} {dur pl ps : Nat}
    {r : FundingReport} (h : updateFunding W U adj p st dur pl ps = .ok (st', r)) :
    st'.rate.natAbs ≤ p.maxF ∧ (p.inc = 0 → st'.rate = 0) := by
  have hr := (indices_monotone h).2.2.2
  rw [hr]
  unfold updateFunding at h
  split at h
  · cases h
  · split at h
    · cases h
    · rename_i r0 hna
      have hr0 : r0 = r := by
        repeat' split at h
        all_goals first | (cases h; rfl) | cases h
      subst hr0
      unfold nextFundingAmounts at hna
      simp only at hna
      split at hna
      · rename_i lo so _ _
        split at hna
        · cases hna; simp
        · split at hna
          · cases hna
          · rename_i f lps nx hff
            split at hna
            · cases hna
            · split at hna
              · cases hna
              · split at hna
                · cases hna
                · split at hna
                  · split at hna
                    · cases hna
                    · rename_i r1 h1
                      have e1 := setDeltasOne_next h1
                      have e2 := setDeltasOne_next hna
                      simp only at e1
                      rw [e2, e1]
                      by_cases hinc : p.inc = 0
                      · have := fallback_rate_le_max hinc hff
                        refine ⟨by omega, fun _ => this.2⟩
                      · have := rate_within_min_max_partial hinc hff
                        exact ⟨this.2.2, fun h0 => absurd h0 hinc⟩
                  · cases hna
      · cases hna

theorem step_monotone (W U adj : Nat) (p : FundingParams) (st : FundingState) (x : FundingStep) :
    QuadLe st.fidx (stepFunding W U adj p st x).fidx ∧ QuadLe st.cidx (stepFunding W U adj p st x).cidx := by
  unfold stepFunding
  split
  · rename_i st' r h
    obtain ⟨hf, hc, _, _⟩ := indices_monotone h
    constructor
    · intro a b; have := hf a b; simp only at this; omega
    · intro a b; have := hc a b; simp only at this; omega
  · exact ⟨fun _ _ => Nat.le_refl _, fun _ _ => Nat.le_refl _⟩

/-- **indices only grow**: after any history of open-interest changes and funding updates (with
any prices, durations and failing attempts) every funding-per-size and claimable-per-size index
is at least what it was. -/
theorem indices_monotone_history (W U adj : Nat) (p : FundingParams) (steps : List FundingStep) :
    ∀ st, QuadLe st.fidx (runFunding W U adj p st steps).fidx ∧
          QuadLe st.cidx (runFunding W U adj p st steps).cidx := by
  induction steps with
  | nil => intro st; exact ⟨fun _ _ => Nat.le_refl _, fun _ _ => Nat.le_refl _⟩
  | cons x xs ih =>
    intro st
    obtain ⟨a1, a2⟩ := step_monotone W U adj p st x
    obtain ⟨b1, b2⟩ := ih (stepFunding W U adj p st x)
    exact ⟨fun a b => Nat.le_trans (a1 a b) (b1 a b), fun a b => Nat.le_trans (a2 a b) (b2 a b)⟩

/-- a pending funding amount is never negative: the code returns a natural number, which is
the exactly rounded share, and this requires snapshot ≤ latest; otherwise it is an error. -/
theorem pending_funding_nonneg {W U adj latest snap size r : Nat} {up : Bool}
    (h : unpackFunding W U adj latest snap size up = some r) :
    snap ≤ latest ∧ adj * U ≠ 0 ∧
    r = (if up then ceilDiv (size * (latest - snap)) (adj * U) else size * (latest - snap) / (adj * U)) := by
  unfold unpackFunding checkedSub checkedMul toU at h
  split at h
  · cases h
  · rename_i d hd
    split at hd
    · cases hd
      split at h
      · cases h
      · rename_i a ha
        split at ha
        · cases ha
          cases up
          · simp only [Bool.false_eq_true, if_false] at h ⊢
            obtain ⟨h1, h2, _⟩ := (C01.mulDiv_spec _ _ _ _ _).1 h
            exact ⟨by omega, h1, h2⟩
          · simp only [if_true] at h ⊢
            obtain ⟨h1, h2, _⟩ := (C01.mulDivCeil_spec _ _ _ _ _).1 h
            exact ⟨by omega, h1, h2⟩
        · cases ha
    · cases hd

/-- a snapshot above the latest index yields an error, never a negative amount. -/
theorem pending_funding_error_of_gt (W U adj latest snap size : Nat) (up : Bool) (h : latest < snap) :
    unpackFunding W U adj latest snap size up = none := by
  unfold unpackFunding checkedSub
  have : ¬ snap ≤ latest := by omega
  simp [this]

/-- with snapshot ≤ latest the pending amount is defined exactly when the packing unit and the
rounded result fit the number type. -/
theorem pending_funding_defined {W U adj latest snap size : Nat} (up : Bool) (hs : snap ≤ latest)
    (hU : adj * U ≠ 0) (hfit : adj * U < 2 ^ W)
    (hres : ceilDiv (size * (latest - snap)) (adj * U) < 2 ^ W) :
    ∃ r, unpackFunding W U adj latest snap size up = some r := by
  unfold unpackFunding checkedSub checkedMul toU
  simp only [hs, if_true, hfit]
  cases up
  · refine ⟨size * (latest - snap) / (adj * U), ?_⟩
    simp only [Bool.false_eq_true, if_false]
    apply (C01.mulDiv_spec _ _ _ _ _).2
    refine ⟨hU, rfl, ?_⟩
    have : size * (latest - snap) / (adj * U) ≤ ceilDiv (size * (latest - snap)) (adj * U) := by
      unfold ceilDiv; apply Nat.div_le_div_right; omega
    omega
  · refine ⟨ceilDiv (size * (latest - snap)) (adj * U), ?_⟩
    simp only [if_true]
    exact (C01.mulDivCeil_spec _ _ _ _ _).2 ⟨hU, rfl, hres⟩

/-- **pending funding after any history**: a position that snapshotted the indices at some point
of a history (`pre`) sees, after any continuation (`post`), indices at least as large as its
snapshots; hence its pending funding fee (rounded up) and claimable amount (rounded down) are
defined natural numbers whenever the packing unit and the rounded results fit the number type. -/
theorem pending_defined_after_history (W U adj : Nat) (p : FundingParams) (st : FundingState)
    (pre post : List FundingStep) (isLong isLongCol : Bool) (size : Nat)
    (hU : adj * U ≠ 0) (hfit : adj * U < 2 ^ W) :
    let s1 := runFunding W U adj p st pre
    let s2 := runFunding W U adj p s1 post
    s1.fidx.get isLong isLongCol ≤ s2.fidx.get isLong isLongCol ∧
    s1.cidx.get isLong isLongCol ≤ s2.cidx.get isLong isLongCol ∧
    (ceilDiv (size * (s2.fidx.get isLong isLongCol - s1.fidx.get isLong isLongCol)) (adj * U) < 2 ^ W →
      ∃ r, unpackFunding W U adj (s2.fidx.get isLong isLongCol) (s1.fidx.get isLong isLongCol) size true = some r) ∧
    (ceilDiv (size * (s2.cidx.get isLong isLongCol - s1.cidx.get isLong isLongCol)) (adj * U) < 2 ^ W →
      ∃ r, unpackFunding W U adj (s2.cidx.get isLong isLongCol) (s1.cidx.get isLong isLongCol) size false = some r) := by
  intro s1 s2
  obtain ⟨a, b⟩ := indices_monotone_history W U adj p post s1
  exact ⟨a _ _, b _ _, fun h => pending_funding_defined true (a _ _) hU hfit h,
    fun h => pending_funding_defined false (b _ _) hU hfit h⟩

/-! ### Non-vacuity -/
example : nextFundingFactor 64 (10 ^ 9) ⟨10 ^ 9, 20, 10, 0, 10, 1, 5 * 10 ^ 7, 0⟩ 0 2
    (50000 * 10 ^ 9) (25000 * 10 ^ 9) = .ok (6, true, 6) := by rfl
example : nextFundingFactor 64 (10 ^ 9) ⟨10 ^ 9, 2 * 10 ^ 7, 0, 0, 10 ^ 6, 5, 0, 0⟩ 0 2
    (25000 * 10 ^ 9) (50000 * 10 ^ 9) = .ok (1000000, false, 0) := by rfl
example : unpackFunding 64 (10 ^ 9) 10000 8156165899989 7901279999996 20624852318 true = some 525698405 := by rfl
example : (FundingParams.change ⟨0, 0, 0, 0, 0, 0, 5, 3⟩ 7 10 9 2) = .decrease := by decide

/-! #### audit additions -/
/-- a successful ADAPTIVE update with non-zero deltas (longs 50000 vs shorts 25000 USD, one hour,
token prices 2000 / 3): hypotheses of `indices_monotone` / `update_rate_le_max`. -/
example : updateFunding 64 (10 ^ 9) 10000 ⟨10 ^ 9, 20, 10, 0, 10, 1, 5 * 10 ^ 7, 0⟩
    ⟨⟨30000 * 10 ^ 9, 20000 * 10 ^ 9, 15000 * 10 ^ 9, 10000 * 10 ^ 9⟩, ⟨5, 6, 7, 8⟩, ⟨1, 2, 3, 4⟩, 0⟩ 3600 2000 3
    = .ok (⟨⟨30000 * 10 ^ 9, 20000 * 10 ^ 9, 15000 * 10 ^ 9, 10000 * 10 ^ 9⟩,
            ⟨180005, 120000006, 7, 8⟩, ⟨1, 2, 216003, 96000004⟩, 10⟩,
           ⟨10, ⟨180000, 120000000, 0, 0⟩, ⟨0, 0, 216000, 96000000⟩⟩) := by decide +kernel
example : ((10 : Int).natAbs ≤ 10) ∧ ((10 : Nat) = 0 → (10 : Int) = 0) :=
  update_rate_le_max (W := 64) (U := 10 ^ 9) (adj := 10000) (p := ⟨10 ^ 9, 20, 10, 0, 10, 1, 5 * 10 ^ 7, 0⟩)
    (st := ⟨⟨30000 * 10 ^ 9, 20000 * 10 ^ 9, 15000 * 10 ^ 9, 10000 * 10 ^ 9⟩, ⟨5, 6, 7, 8⟩, ⟨1, 2, 3, 4⟩, 0⟩)
    (dur := 3600) (pl := 2000) (ps := 3)
    (st' := ⟨⟨30000 * 10 ^ 9, 20000 * 10 ^ 9, 15000 * 10 ^ 9, 10000 * 10 ^ 9⟩,
            ⟨180005, 120000006, 7, 8⟩, ⟨1, 2, 216003, 96000004⟩, 10⟩)
    (r := ⟨10, ⟨180000, 120000000, 0, 0⟩, ⟨0, 0, 216000, 96000000⟩⟩) (by decide +kernel)
/-- a successful FALLBACK update where the SHORTS pay (15000 vs 25000): stored rate 0. -/
example : updateFunding 64 (10 ^ 9) 10000 ⟨10 ^ 9, 2 * 10 ^ 7, 0, 0, 10 ^ 6, 5, 0, 0⟩
    ⟨⟨10000 * 10 ^ 9, 5000 * 10 ^ 9, 15000 * 10 ^ 9, 10000 * 10 ^ 9⟩, Quad.zero, Quad.zero, 0⟩ 3600 2000 3
    = .ok (⟨⟨10000 * 10 ^ 9, 5000 * 10 ^ 9, 15000 * 10 ^ 9, 10000 * 10 ^ 9⟩,
            ⟨0, 0, 18000000000, 12000000000000⟩, ⟨18000000000, 8000000000000, 0, 0⟩, 0⟩,
           ⟨0, ⟨0, 0, 18000000000, 12000000000000⟩, ⟨18000000000, 8000000000000, 0, 0⟩⟩) := by decide +kernel
/-- `setDeltasOne … = .ok` with a non-zero funding value; the stored next rate `7` is kept
(`setDeltasOne_next`). -/
example : setDeltasOne 64 (10 ^ 9) 10000
    ⟨⟨30000 * 10 ^ 9, 20000 * 10 ^ 9, 15000 * 10 ^ 9, 10000 * 10 ^ 9⟩, Quad.zero, Quad.zero, 0⟩ true true (10 ^ 9) 2000
    (25000 * 10 ^ 9) ⟨7, Quad.zero, Quad.zero⟩ = .ok ⟨7, ⟨166667, 0, 0, 0⟩, ⟨0, 0, 200000, 0⟩⟩ := by decide +kernel
/-- adaptive mode with the SHORTS paying (`lps = false`, stored rate negative): second clause of
`adaptive_payer_is_sign`, and a rate clipped at the maximum. -/
example : nextFundingFactor 64 (10 ^ 9) ⟨10 ^ 9, 20, 10, 0, 10, 1, 5 * 10 ^ 7, 0⟩ (-6) 2
    (25000 * 10 ^ 9) (50000 * 10 ^ 9) = .ok (10, false, -10) := by rfl
example : (1 ≤ 10 ∧ 10 ≤ 10 ∧ (-10 : Int).natAbs ≤ 10) :=
  rate_within_min_max_partial (W := 64) (U := 10 ^ 9) (p := ⟨10 ^ 9, 20, 10, 0, 10, 1, 5 * 10 ^ 7, 0⟩)
    (cur := -6) (dur := 2) (l := 25000 * 10 ^ 9) (s := 50000 * 10 ^ 9) (lps := false) (by decide) (by rfl)
/-- fallback mode with `0 < f`: all hypotheses of `fallback_larger_side_pays` (and `fallback_rate_le_max`),
here with the rate clipped at `max = 10 ^ 6`. -/
example : (25000 * 10 ^ 9 ≠ 50000 * 10 ^ 9) ∧ (false = true ↔ 50000 * 10 ^ 9 < 25000 * 10 ^ 9) ∧
    (false = false ↔ 25000 * 10 ^ 9 < 50000 * 10 ^ 9) :=
  fallback_larger_side_pays (W := 64) (U := 10 ^ 9) (p := ⟨10 ^ 9, 2 * 10 ^ 7, 0, 0, 10 ^ 6, 5, 0, 0⟩)
    (cur := 0) (dur := 2) (f := 1000000) (nx := 0) (by rfl) (by rfl) (by decide)
/-- `change`: the other rows of the table, and `change_increase_when_opposed` on a non-zero rate. -/
example : (FundingParams.change ⟨0, 0, 0, 0, 0, 0, 5, 3⟩ 7 10 9 4) = .noChange ∧
    (FundingParams.change ⟨0, 0, 0, 0, 0, 0, 5, 3⟩ 7 10 9 6) = .increase ∧
    (FundingParams.change ⟨0, 0, 0, 0, 0, 0, 5, 3⟩ (-7) 10 9 2) = .increase := by decide
example : (FundingParams.change ⟨0, 0, 0, 0, 0, 0, 5, 3⟩ (-7) 10 9 2) = .increase :=
  change_increase_when_opposed _ _ _ _ _ (by decide)
/-- a non-empty history (two successful adaptive updates and one failing attempt with price 0 in
between): the indices strictly grow (`step_monotone`, `indices_monotone_history`). -/
example : (runFunding 64 (10 ^ 9) 10000 ⟨10 ^ 9, 20, 10, 0, 10, 1, 5 * 10 ^ 7, 0⟩
      ⟨Quad.zero, Quad.zero, Quad.zero, 0⟩
      [⟨⟨30000 * 10 ^ 9, 20000 * 10 ^ 9, 15000 * 10 ^ 9, 10000 * 10 ^ 9⟩, 3600, 2000, 3⟩,
       ⟨⟨30000 * 10 ^ 9, 20000 * 10 ^ 9, 15000 * 10 ^ 9, 10000 * 10 ^ 9⟩, 3600, 0, 3⟩,
       ⟨⟨30000 * 10 ^ 9, 20000 * 10 ^ 9, 15000 * 10 ^ 9, 10000 * 10 ^ 9⟩, 3600, 2000, 3⟩]).fidx
    = ⟨360000, 240000000, 0, 0⟩ := by decide +kernel
/-- `pending_funding_defined` / `pending_funding_error_of_gt` instantiated. -/
example : ∃ r, unpackFunding 64 (10 ^ 9) 10000 360000 180000 (10 ^ 12) true = some r :=
  pending_funding_defined true (by decide) (by decide) (by decide) (by decide)
example : unpackFunding 64 (10 ^ 9) 10000 360000 180000 (10 ^ 12) true = some 18000 ∧
    unpackFunding 64 (10 ^ 9) 10000 360001 180000 (10 ^ 12) false = some 18000 ∧
    unpackFunding 64 (10 ^ 9) 10000 360001 180000 (10 ^ 12) true = some 18001 := by decide
example : unpackFunding 64 (10 ^ 9) 10000 180000 360000 (10 ^ 12) true = none :=
  pending_funding_error_of_gt _ _ _ _ _ _ _ (by decide)
/-- `pending_defined_after_history` on a concrete history (snapshot after one update: index
180000 by the run above; one more update: 360000): ALL its hypotheses including the fit premise
of the third conjunct hold, so a pending fee `∃ r, unpackFunding … = some r` is obtained for a
`10 ^ 12` position (its value is `18000`, example above). -/
example : True := by
  have h := (pending_defined_after_history 64 (10 ^ 9) 10000 ⟨10 ^ 9, 20, 10, 0, 10, 1, 5 * 10 ^ 7, 0⟩
    ⟨Quad.zero, Quad.zero, Quad.zero, 0⟩
    [⟨⟨30000 * 10 ^ 9, 20000 * 10 ^ 9, 15000 * 10 ^ 9, 10000 * 10 ^ 9⟩, 3600, 2000, 3⟩]
    [⟨⟨30000 * 10 ^ 9, 20000 * 10 ^ 9, 15000 * 10 ^ 9, 10000 * 10 ^ 9⟩, 3600, 2000, 3⟩]
    true true (10 ^ 12) (by decide) (by decide)).2.2.1 (by decide +kernel)
  obtain ⟨_, _⟩ := h
  trivial
/-- `fallback_ignores_min` instantiated: minimum 777 instead of 5, same result. -/
example : nextFundingFactor 64 (10 ^ 9) ⟨10 ^ 9, 2 * 10 ^ 7, 0, 0, 10 ^ 6, 777, 0, 0⟩ 0 2
    (25000 * 10 ^ 9) (50000 * 10 ^ 9) = .ok (1000000, false, 0) :=
  (fallback_ignores_min ⟨10 ^ 9, 2 * 10 ^ 7, 0, 0, 10 ^ 6, 5, 0, 0⟩ 777 0 2 _ _ rfl).trans (by rfl)

end Gmx.C12
