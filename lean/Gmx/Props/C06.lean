import Gmx.Lemmas.PoolValue
import Gmx.Gen.C06Kinds
/-!
# C06 — liquidity providers cannot profit from a deposit/withdraw round trip

`deposit` / `withdraw` are `Deposit::execute` / `Withdrawal::execute` (NOT atomic in the model
crate; the theorems are about successful executions, the market reached by a failing one is
tied by the correspondence run). `t : DepositTrace` carries, per token side, what the Rust code
computes on the way (`SideResult`: net amount, fee shares, positive impact amount credited from the
OPPOSITE swap-impact pool, negative impact amount charged into the SAME side's pool).

The literal first sentence of C06 is FALSE of the code in two ways, both proved on concrete
witnesses and replayed on the implementation (known findings F-C06, F-C06b):
* a deposit that improves the balance is *credited* positive swap impact (`roundtrip_profit_witness`);
* with zero supply but a non-empty pool the depositor is minted the leftover (`zero_supply_leftover_witness`).
`roundtrip_bound` is the refined statement that is true: the round trip returns at most what was
deposited, plus the credited positive impact, minus receiver fees and charged negative impact.
-/
namespace Gmx.C06
open Gmx Gmx.Lem

/-! ### first deposit -/

/-- one side of the first deposit (zero supply, zero pool value): minted = ⌊net · price.min /
divisor⌋ — one USD of net deposit per market token, in amount units — and no positive impact. -/
theorem first_deposit_price_side {W U : Nat} {m m' : Market} {d : DepositParams} {isLong : Bool}
    {impact : Int} {bc : BalanceChange} {r : SideResult}
    (h : executeDeposit W U m d isLong 0 impact bc = (m', .ok r)) (hs : m.supply = 0) :
    r.minted = r.netAmount * (d.prices.collateral isLong).min / m.cfg.divisor ∧
    r.positiveImpactAmount = 0 ∧ m.cfg.divisor ≠ 0 := by
  have f := executeDeposit_spec h
  obtain ⟨mtPos, mtNet, e, z, _, hn⟩ := f.minted
  have hp := f.first hs
  obtain ⟨hd, c1, _, _⟩ := C01.usdToMt_spec hn
  rw [e, z hp, c1 hs rfl]
  exact ⟨by omega, hp, hd⟩

/-- **the first deposit into an empty pool is priced at one USD per market token**: with zero
supply and zero pool value, minted = ⌊net_long·p_long.min/divisor⌋ + ⌊net_short·p_short.min/divisor⌋
where `net` is the amount after fees and negative impact; no positive impact is granted. -/
theorem first_deposit_price {W U : Nat} {m m' : Market} {d : DepositParams} {pin : PerpIn} {t : DepositTrace}
    (h : deposit W U m d pin = (m', .ok t)) (hs : m.supply = 0) (hp : t.poolValue = 0) :
    t.report.minted = t.long.netAmount * d.prices.long.min / m.cfg.divisor
                    + t.short.netAmount * d.prices.short.min / m.cfg.divisor ∧
    t.long.positiveImpactAmount = 0 ∧ t.short.positiveImpactAmount = 0 := by
  have f := deposit_spec h
  obtain ⟨mL, mS, hl, hl0, hsh, hs0, _, _⟩ := f.sides
  have hL : t.long.minted = t.long.netAmount * d.prices.long.min / m.cfg.divisor ∧ t.long.positiveImpactAmount = 0 ∧
      mL.supply = m.supply ∧ mL.cfg = m.cfg := by
    by_cases hz : d.long = 0
    · obtain ⟨e1, e2⟩ := hl0 hz; rw [e1, e2]; simp
    · have g := hl hz
      obtain ⟨mtPos, mtNet, e, z, _, hn⟩ := g.minted
      have hp0 := g.first hs
      rw [hp] at hn
      obtain ⟨_, c1, _, _⟩ := C01.usdToMt_spec hn
      refine ⟨by rw [e, z hp0, c1 hs rfl]; simp [Prices.collateral], hp0, by rw [g.frame], by rw [g.frame]⟩
  obtain ⟨a1, a2, a3, a4⟩ := hL
  have hS : t.short.minted = t.short.netAmount * d.prices.short.min / m.cfg.divisor ∧ t.short.positiveImpactAmount = 0 := by
    by_cases hz : d.short = 0
    · obtain ⟨e1, e2⟩ := hs0 hz; rw [e2]; simp
    · have g := hsh hz
      obtain ⟨mtPos, mtNet, e, z, _, hn⟩ := g.minted
      have hp0 := g.first (by rw [a3]; exact hs)
      rw [hp, a3, a4] at hn
      obtain ⟨_, c1, _, _⟩ := C01.usdToMt_spec hn
      exact ⟨by rw [e, z hp0, c1 hs rfl]; simp [Prices.collateral], hp0⟩
  rw [f.minted, a1, hS.1]
  exact ⟨rfl, a2, hS.2⟩

/-! ### neither leg dilutes the other holders -/

/-- USD value one side of a deposit is *minted for*: the credited positive impact at the opposite
token's MAX price plus the net amount at the token's MIN price. -/
def sideMintValue (d : DepositParams) (isLong : Bool) (r : SideResult) : Nat :=
  r.positiveImpactAmount * (d.prices.collateral (!isLong)).max + r.netAmount * (d.prices.collateral isLong).min

/-- one side, existing supply: `minted · poolValue ≤ supply · value` — the depositor pays at least
the current value per market token (minting rounds DOWN). -/
theorem side_mint_no_dilution {W : Nat} {m m' : Market} {d : DepositParams} {isLong : Bool} {pv : Nat}
    {r : SideResult} (f : SideFacts W m m' d isLong pv r) (hs : m.supply ≠ 0) :
    r.minted * pv ≤ m.supply * sideMintValue d isLong r := by
  obtain ⟨mtPos, mtNet, e, z, nz, hn⟩ := f.minted
  obtain ⟨_, _, _, c3⟩ := C01.usdToMt_spec hn
  obtain ⟨_, en, _⟩ := c3 hs
  have h2 : mtNet * pv ≤ m.supply * (r.netAmount * (d.prices.collateral isLong).min) := by
    rw [en]; exact Nat.div_mul_le_self _ _
  have h1 : mtPos * pv ≤ m.supply * (r.positiveImpactAmount * (d.prices.collateral (!isLong)).max) := by
    by_cases hp : r.positiveImpactAmount = 0
    · rw [z hp]; simp
    · obtain ⟨_, _, _, d3⟩ := C01.usdToMt_spec (nz hp)
      obtain ⟨_, ep, _⟩ := d3 hs
      rw [ep]; exact Nat.div_mul_le_self _ _
  unfold sideMintValue
  rw [e, Nat.add_mul, Nat.mul_add]
  omega

/-- **deposit**: with existing holders, `minted · poolValue ≤ supply · (value minted for)`, i.e.
`poolValue/supply ≤ (poolValue + value)/(supply + minted)`: the value of one market token (at the
deposit's own, maximised valuation) does not fall — no rounding slack is needed because minting
rounds down. The value actually added to the liquidity pool is even larger (pool fees, max price). -/
theorem deposit_no_dilution {W U : Nat} {m m' : Market} {d : DepositParams} {pin : PerpIn} {t : DepositTrace}
    (h : deposit W U m d pin = (m', .ok t)) (hs : m.supply ≠ 0) :
    t.report.minted * t.poolValue ≤ m.supply * (sideMintValue d true t.long + sideMintValue d false t.short) ∧
    t.poolValue * (m.supply + t.report.minted)
      ≤ (t.poolValue + (sideMintValue d true t.long + sideMintValue d false t.short)) * m.supply ∧
    m'.supply = m.supply + t.report.minted := by
  have f := deposit_spec h
  obtain ⟨mL, mS, hl, hl0, hsh, hs0, _, hsup⟩ := f.sides
  have hL : t.long.minted * t.poolValue ≤ m.supply * sideMintValue d true t.long ∧ mL.supply = m.supply := by
    by_cases hz : d.long = 0
    · obtain ⟨e1, e2⟩ := hl0 hz; rw [e1, e2]; simp [sideMintValue]
    · have g := hl hz
      exact ⟨side_mint_no_dilution g hs, by rw [g.frame]⟩
  have hS : t.short.minted * t.poolValue ≤ m.supply * sideMintValue d false t.short ∧ mS.supply = m.supply := by
    by_cases hz : d.short = 0
    · obtain ⟨e1, e2⟩ := hs0 hz; rw [e1, e2]; simp [sideMintValue, hL.2]
    · have g := hsh hz
      have := side_mint_no_dilution g (by rw [hL.2]; exact hs)
      rw [hL.2] at this
      exact ⟨this, by rw [g.frame]; exact hL.2⟩
  have key : t.report.minted * t.poolValue ≤ m.supply * (sideMintValue d true t.long + sideMintValue d false t.short) := by
    rw [f.minted, Nat.add_mul, Nat.mul_add]; omega
  refine ⟨key, ?_, by rw [hsup, hS.2]⟩
  rw [Nat.mul_add, Nat.add_mul, Nat.mul_comm t.poolValue t.report.minted,
      Nat.mul_comm (sideMintValue d true t.long + sideMintValue d false t.short) m.supply]
  omega

/-- **withdrawal**: the burnt tokens are valued at `⌊poolValue·amount/supply⌋` (pool value
MINIMISED, `MaxAfterWithdrawal`), so `value · supply ≤ poolValue · amount`; and everything that
leaves the liquidity pool — outputs plus receiver fees, even with the pool-fee share that stays —
is worth at most that value at the MAX prices. The remaining holders' share does not fall. -/
theorem withdraw_no_dilution {W U : Nat} {m m' : Market} {w : WithdrawParams} {pin : PerpIn} {r : WithdrawReport}
    (h : withdraw W U m w pin = (m', .ok r)) :
    r.value * m.supply ≤ r.poolValue * w.amount ∧
    (r.longOut + r.feesL.pool + r.feesL.receiver) * w.prices.long.max
      + (r.shortOut + r.feesS.pool + r.feesS.receiver) * w.prices.short.max ≤ r.value ∧
    poolValue W U m w.prices .maxAfterWithdrawal false pin = some (r.poolValue : Int) ∧ 0 < r.poolValue ∧
    m'.supply + w.amount = m.supply := by
  have f := withdraw_spec h
  obtain ⟨la0, sa0, ho, e1, e2⟩ := f.outputs
  obtain ⟨hpv, hpos, hs0, hv, hle⟩ := withdrawOutputs_spec ho
  refine ⟨by rw [hv]; exact Nat.div_mul_le_self _ _, by rw [e1, e2]; exact hle, hpv, hpos, f.supply⟩

/-! ### token conservation of both legs (the C04 statement for deposits and withdrawals) -/

theorem side_holdings {W : Nat} {m m' : Market} {d : DepositParams} {isLong : Bool} {pv : Nat} {r : SideResult}
    (f : SideFacts W m m' d isLong pv r) :
    m'.holdings isLong = m.holdings isLong + (if isLong then d.long else d.short) ∧
    m'.holdings (!isLong) = m.holdings (!isLong) := Lem.side_holdings f

/-- a successful deposit increases the holdings (liquidity + swap impact + claimable fees) of each
token by exactly the deposited amount and the supply by the minted amount. -/
theorem deposit_holdings {W U : Nat} {m m' : Market} {d : DepositParams} {pin : PerpIn} {t : DepositTrace}
    (h : deposit W U m d pin = (m', .ok t)) :
    m'.holdings true = m.holdings true + d.long ∧ m'.holdings false = m.holdings false + d.short :=
  Lem.deposit_holdings h

/-- a successful withdrawal decreases the holdings of each token by exactly the amount paid out. -/
theorem withdraw_holdings {W U : Nat} {m m' : Market} {w : WithdrawParams} {pin : PerpIn} {r : WithdrawReport}
    (h : withdraw W U m w pin = (m', .ok r)) :
    m'.holdings true + r.longOut = m.holdings true ∧ m'.holdings false + r.shortOut = m.holdings false :=
  Lem.withdraw_holdings h

/-! ### the round trip -/

/-- USD value (at MAX prices) a deposit adds to the liquidity pool: net amounts + pool fees, plus
the positive impact credited from the swap-impact pools. -/
def creditedValue (d : DepositParams) (t : DepositTrace) : Nat :=
  (t.long.netAmount + t.long.fees.pool + t.short.positiveImpactAmount) * d.prices.long.max
  + (t.short.netAmount + t.short.fees.pool + t.long.positiveImpactAmount) * d.prices.short.max

theorem sideMintValue_le {d : DepositParams} {t : DepositTrace}
    (hl : d.prices.long.min ≤ d.prices.long.max) (hs : d.prices.short.min ≤ d.prices.short.max) :
    sideMintValue d true t.long + sideMintValue d false t.short ≤ creditedValue d t := by
  unfold sideMintValue creditedValue
  simp only [Prices.collateral, if_true, Bool.not_true, Bool.false_eq_true, if_false, Bool.not_false]
  have a := Nat.mul_le_mul_left t.long.netAmount hl
  have b := Nat.mul_le_mul_left t.short.netAmount hs
  rw [Nat.add_mul, Nat.add_mul, Nat.add_mul, Nat.add_mul]
  omega

/-- **round trip, refined statement**. Deposit, then withdraw exactly the minted tokens at the same
prices (`min ≤ max`), with existing holders. If the pool value the withdrawal sees is at most the
pool value the deposit saw plus the value the deposit added to the liquidity pool (`hP`; this is
`poolValue_after_deposit_le` below when there is no open interest), then the value paid out, at MAX
prices and including all withdrawal fees, is at most `creditedValue`:

`out ≤ deposited + positive impact credited − receiver fees − negative impact charged`. -/
theorem roundtrip_bound {W U : Nat} {m m₁ m₂ : Market} {d : DepositParams} {pin pin' : PerpIn}
    {t : DepositTrace} {r : WithdrawReport}
    (hd : deposit W U m d pin = (m₁, .ok t))
    (hw : withdraw W U m₁ ⟨t.report.minted, d.prices⟩ pin' = (m₂, .ok r))
    (hs : m.supply ≠ 0)
    (hl : d.prices.long.min ≤ d.prices.long.max) (hsh : d.prices.short.min ≤ d.prices.short.max)
    (hP : r.poolValue ≤ t.poolValue + creditedValue d t) :
    (r.longOut + r.feesL.pool + r.feesL.receiver) * d.prices.long.max
      + (r.shortOut + r.feesS.pool + r.feesS.receiver) * d.prices.short.max ≤ creditedValue d t ∧
    creditedValue d t + (t.long.fees.receiver + t.long.negativeImpactAmount) * d.prices.long.max
        + (t.short.fees.receiver + t.short.negativeImpactAmount) * d.prices.short.max
      = d.long * d.prices.long.max + d.short * d.prices.short.max
        + (t.short.positiveImpactAmount * d.prices.long.max + t.long.positiveImpactAmount * d.prices.short.max) := by
  obtain ⟨k1, _, k3⟩ := deposit_no_dilution hd hs
  obtain ⟨w1, w2, _, _, w5⟩ := withdraw_no_dilution hw
  have hv : sideMintValue d true t.long + sideMintValue d false t.short ≤ creditedValue d t := sideMintValue_le hl hsh
  have h1 : t.report.minted * t.poolValue ≤ m.supply * creditedValue d t :=
    Nat.le_trans k1 (Nat.mul_le_mul_left _ hv)
  have hs1 : m₁.supply = m.supply + t.report.minted := k3
  have hpos : 0 < m.supply + t.report.minted := by omega
  have h3 : r.value * (m.supply + t.report.minted) ≤ r.poolValue * t.report.minted := by
    rw [← hs1]; exact w1
  have hval := roundtrip_core hpos h1 hP h3
  refine ⟨Nat.le_trans w2 hval, ?_⟩
  -- accounting identity: every deposited token is either credited, a receiver fee or negative impact
  have f := deposit_spec hd
  obtain ⟨mL, mS, fl, fl0, fs, fs0, _, _⟩ := f.sides
  have aL : t.long.netAmount + t.long.negativeImpactAmount + t.long.fees.pool + t.long.fees.receiver = d.long := by
    by_cases hz : d.long = 0
    · obtain ⟨_, e2⟩ := fl0 hz; rw [e2, hz]; rfl
    · have := (fl hz).amount; simpa using this
  have aS : t.short.netAmount + t.short.negativeImpactAmount + t.short.fees.pool + t.short.fees.receiver = d.short := by
    by_cases hz : d.short = 0
    · obtain ⟨_, e2⟩ := fs0 hz; rw [e2, hz]; rfl
    · have := (fs hz).amount; simpa using this
  unfold creditedValue
  rw [← aL, ← aS]
  simp only [Nat.add_mul]
  omega

/-- **no positive impact ⇒ no profit** (the strongest true refinement of the literal sentence):
under the hypotheses of `roundtrip_bound`, if the deposit was credited no positive impact then the
value paid out (at MAX prices, fees included) is at most the value deposited (at MAX prices). -/
theorem roundtrip_no_profit_partial {W U : Nat} {m m₁ m₂ : Market} {d : DepositParams} {pin pin' : PerpIn}
    {t : DepositTrace} {r : WithdrawReport}
    (hd : deposit W U m d pin = (m₁, .ok t))
    (hw : withdraw W U m₁ ⟨t.report.minted, d.prices⟩ pin' = (m₂, .ok r))
    (hs : m.supply ≠ 0)
    (hl : d.prices.long.min ≤ d.prices.long.max) (hsh : d.prices.short.min ≤ d.prices.short.max)
    (hP : r.poolValue ≤ t.poolValue + creditedValue d t)
    (hno : t.long.positiveImpactAmount = 0 ∧ t.short.positiveImpactAmount = 0) :
    r.longOut * d.prices.long.max + r.shortOut * d.prices.short.max
      ≤ d.long * d.prices.long.max + d.short * d.prices.short.max := by
  obtain ⟨b1, b2⟩ := roundtrip_bound hd hw hs hl hsh hP
  rw [hno.1, hno.2] at b2
  simp only [Nat.zero_mul, Nat.add_zero] at b2
  simp only [Nat.add_mul] at b1 b2
  omega

/-! ### discharging the pool-value hypothesis when there are no positions -/

/-- a successful deposit changes only the liquidity, swap-impact, claimable-fee pools, the swap
virtual inventory and the supply; the liquidity pools grow by the credited amounts. -/
theorem deposit_frame {W U : Nat} {m m₁ : Market} {d : DepositParams} {pin : PerpIn} {t : DepositTrace}
    (hd : deposit W U m d pin = (m₁, .ok t)) :
    m₁ = { m with primary := m₁.primary, swapImpact := m₁.swapImpact, fee := m₁.fee, viSwaps := m₁.viSwaps,
                  supply := m₁.supply } ∧
    m₁.primary.long = m.primary.long + (t.long.netAmount + t.long.fees.pool + t.short.positiveImpactAmount) ∧
    m₁.primary.short = m.primary.short + (t.short.netAmount + t.short.fees.pool + t.long.positiveImpactAmount) :=
  Lem.deposit_frame hd

/-- without open interest (no positions) and with well-formed prices (`min ≤ max` for the index,
long and short tokens), the pool value the withdrawal sees is at most the pool value the deposit
saw plus the value it credited — the hypothesis `hP` of `roundtrip_bound`. -/
theorem poolValue_after_deposit_le {W U : Nat} {m m₁ m₂ : Market} {d : DepositParams} {pin pin' : PerpIn}
    {t : DepositTrace} {r : WithdrawReport}
    (hd : deposit W U m d pin = (m₁, .ok t))
    (hw : withdraw W U m₁ ⟨t.report.minted, d.prices⟩ pin' = (m₂, .ok r))
    (hno : NoOI m)
    (hi : d.prices.index.min ≤ d.prices.index.max)
    (hl : d.prices.long.min ≤ d.prices.long.max) (hsh : d.prices.short.min ≤ d.prices.short.max) :
    r.poolValue ≤ t.poolValue + creditedValue d t := by
  have f := deposit_spec hd
  obtain ⟨hfr, eL, eS⟩ := deposit_frame hd
  obtain ⟨_, _, hpw, _, _⟩ := withdraw_no_dilution hw
  have hno₁ : NoOI m₁ := by
    rw [hfr]; exact ⟨hno.oiL, hno.oiS, hno.oitL, hno.oitS, hno.tb⟩
  obtain ⟨dd, ni, hp, hv⟩ := poolValue_noOI hno f.pv
  obtain ⟨dd', ni', hp', hv'⟩ := poolValue_noOI hno₁ hpw
  have hsame : m₁.pendingDistribution W U (passedInSeconds m₁.now m₁.clockImpactDist)
      = m.pendingDistribution W U (passedInSeconds m.now m.clockImpactDist) := by
    rw [hfr]; rfl
  rw [hsame, hp] at hp'
  cases hp'
  simp only [Price.pick, if_true, Bool.false_eq_true, if_false, Bool.not_true, Bool.not_false] at hv hv'
  rw [eL, eS] at hv'
  unfold creditedValue
  generalize t.long.netAmount + t.long.fees.pool + t.short.positiveImpactAmount = x at *
  generalize t.short.netAmount + t.short.fees.pool + t.long.positiveImpactAmount = y at *
  have a1 := Nat.add_le_add (Nat.mul_le_mul_left m.primary.long hl) (Nat.mul_le_mul_left x hl)
  have a2 := Nat.add_le_add (Nat.mul_le_mul_left m.primary.short hsh) (Nat.mul_le_mul_left y hsh)
  have a3 := Nat.mul_le_mul_left ni hi
  simp only [Nat.add_mul] at hv'
  push_cast at hv hv'
  have b1 : (m.primary.long * d.prices.long.min + x * d.prices.long.min : Int)
      ≤ m.primary.long * d.prices.long.max + x * d.prices.long.max := by exact_mod_cast a1
  have b2 : (m.primary.short * d.prices.short.min + y * d.prices.short.min : Int)
      ≤ m.primary.short * d.prices.short.max + y * d.prices.short.max := by exact_mod_cast a2
  have b3 : (ni * d.prices.index.min : Int) ≤ ni * d.prices.index.max := by exact_mod_cast a3
  have goal : (r.poolValue : Int) ≤ t.poolValue + (x * d.prices.long.max + y * d.prices.short.max : Nat) := by
    push_cast; omega
  exact_mod_cast goal

/-- **round trip without positions** — `roundtrip_bound` with its pool-value hypothesis discharged:
no open interest, existing holders, prices with `min ≤ max`. -/
theorem roundtrip_bound_no_positions {W U : Nat} {m m₁ m₂ : Market} {d : DepositParams} {pin pin' : PerpIn}
    {t : DepositTrace} {r : WithdrawReport}
    (hd : deposit W U m d pin = (m₁, .ok t))
    (hw : withdraw W U m₁ ⟨t.report.minted, d.prices⟩ pin' = (m₂, .ok r))
    (hno : NoOI m) (hs : m.supply ≠ 0)
    (hi : d.prices.index.min ≤ d.prices.index.max)
    (hl : d.prices.long.min ≤ d.prices.long.max) (hsh : d.prices.short.min ≤ d.prices.short.max) :
    (r.longOut + r.feesL.pool + r.feesL.receiver) * d.prices.long.max
      + (r.shortOut + r.feesS.pool + r.feesS.receiver) * d.prices.short.max ≤ creditedValue d t ∧
    ((t.long.positiveImpactAmount = 0 ∧ t.short.positiveImpactAmount = 0) →
      r.longOut * d.prices.long.max + r.shortOut * d.prices.short.max
        ≤ d.long * d.prices.long.max + d.short * d.prices.short.max) := by
  have hP := poolValue_after_deposit_le hd hw hno hi hl hsh
  exact ⟨(roundtrip_bound hd hw hs hl hsh hP).1, fun h0 => roundtrip_no_profit_partial hd hw hs hl hsh hP h0⟩

/-! ### the pool-value hypothesis WITH open positions -/

/-- **pool value after a deposit, with open positions.** Assumptions, all explicit:
* the borrowing clock is fresh (`passedInSeconds now clockBorrowing = 0`) — on chain every deposit
  and withdrawal is preceded by `pre_execute` (distribute impact, update borrowing, update funding);
  otherwise the *estimate* of pending borrowing fees falls when a deposit lowers the utilisation;
* prices `min ≤ max` (index, long, short);
* `hcapL`/`hcapS`: in the withdrawal's valuation the pnl cap cuts at most `eL`/`eS` off the pnl of
  the long/short side (`withdraw_caps_slack` derives these from the withdrawal's own validations).
Nothing is assumed about the deposit's cap (a capped pnl only raises the deposit's pool value),
about pnl signs, or about the funding state. Then the pool value the withdrawal sees is at most
the pool value the deposit saw plus the value it credited plus `eL + eS`. -/
theorem poolValue_after_deposit_le_open {W U : Nat} {m m₁ m₂ : Market} {d : DepositParams} {pin pin' : PerpIn}
    {t : DepositTrace} {r : WithdrawReport} {eL eS : Nat}
    (hd : deposit W U m d pin = (m₁, .ok t))
    (hw : withdraw W U m₁ ⟨t.report.minted, d.prices⟩ pin' = (m₂, .ok r))
    (fresh : passedInSeconds m.now m.clockBorrowing = 0)
    (hi : d.prices.index.min ≤ d.prices.index.max)
    (hl : d.prices.long.min ≤ d.prices.long.max) (hsh : d.prices.short.min ≤ d.prices.short.max)
    (hcapL : ∀ p c lv, marketPnl W m₁ d.prices.index true true = some p →
      poolValueWithoutPnlOneSide W m₁ d.prices true false = some lv →
      capPnl W U p lv (m₁.cfg.pnlFactor .maxAfterWithdrawal) = some c → p ≤ c + eL)
    (hcapS : ∀ p c sv, marketPnl W m₁ d.prices.index false true = some p →
      poolValueWithoutPnlOneSide W m₁ d.prices false false = some sv →
      capPnl W U p sv (m₁.cfg.pnlFactor .maxAfterWithdrawal) = some c → p ≤ c + eS) :
    r.poolValue ≤ t.poolValue + creditedValue d t + eL + eS := by
  have f := deposit_spec hd
  obtain ⟨hfr, eLq, eSq⟩ := deposit_frame hd
  obtain ⟨_, _, hpw, _, _⟩ := withdraw_no_dilution hw
  obtain ⟨⟨lv, sv, fl, fs, pL, pS, cL, cS, dd, ni, lvN, svN, flN, fsN, niN, dN, e1, e2, e3, e4, e5, e6,
    hlv, hsv, hfl, hfs, hrc, hpL, hpS, hcL, hcS, hpd, hv⟩⟩ := poolValue_parts f.pv
  obtain ⟨⟨lv', sv', fl', fs', pL', pS', cL', cS', dd', ni', lvN', svN', flN', fsN', niN', dN', e1', e2', e3', e4', e5', e6',
    hlv', hsv', hfl', hfs', hrc', hpL', hpS', hcL', hcS', hpd', hv'⟩⟩ := poolValue_parts hpw
  -- frame: everything `pool_value` reads besides the liquidity pool is unchanged by the deposit
  have hcfg : m₁.cfg = m.cfg := by rw [hfr]
  have hT : ∀ b x, totalPendingBorrowingFees W U m₁ b x = totalPendingBorrowingFees W U m b x := by
    intro b x; rw [hfr]; rfl
  have hM : ∀ b mx, marketPnl W m₁ d.prices.index b mx = marketPnl W m d.prices.index b mx := by
    intro b mx; rw [hfr]; rfl
  have hD : m₁.pendingDistribution W U (passedInSeconds m₁.now m₁.clockImpactDist)
      = m.pendingDistribution W U (passedInSeconds m.now m.clockImpactDist) := by rw [hfr]; rfl
  -- same pending fees (fresh clock), same impact pool
  rw [hT, tpbf_fresh fresh true _ pin.bfpsL, hfl] at hfl'
  rw [hT, tpbf_fresh fresh false _ pin.bfpsS, hfs] at hfs'
  cases hfl'; cases hfs'
  rw [hD, hpd] at hpd'
  cases hpd'
  -- pnl: the withdrawal maximises, the deposit minimises
  simp only [Bool.not_true, Bool.not_false] at hpL hpS hpL' hpS' hv hv'
  have hpL'' := hpL'; have hpS'' := hpS'
  rw [hM] at hpL'' hpS''
  have mL := marketPnl_min_le_max hi hpL hpL''
  have mS := marketPnl_min_le_max hi hpS hpS''
  have cLle := (capPnl_spec hcL).1
  have cSle := (capPnl_spec hcS).1
  have kL := hcapL pL' cL' lvN' hpL' hlv' hcL'
  have kS := hcapS pS' cS' svN' hpS' hsv' hcS'
  -- liquidity values
  unfold poolValueWithoutPnlOneSide at hlv hsv hlv' hsv'
  simp only [if_true, Bool.false_eq_true, if_false, Price.pick] at hlv hsv hlv' hsv' hv hv'
  have hlv := checkedMul_eq hlv; have hsv := checkedMul_eq hsv
  have hlv' := checkedMul_eq hlv'; have hsv' := checkedMul_eq hsv'
  rw [eLq] at hlv'; rw [eSq] at hsv'
  unfold creditedValue
  generalize t.long.netAmount + t.long.fees.pool + t.short.positiveImpactAmount = x at *
  generalize t.short.netAmount + t.short.fees.pool + t.long.positiveImpactAmount = y at *
  have a1 := Nat.add_le_add (Nat.mul_le_mul_left m.primary.long hl) (Nat.mul_le_mul_left x hl)
  have a2 := Nat.add_le_add (Nat.mul_le_mul_left m.primary.short hsh) (Nat.mul_le_mul_left y hsh)
  have a3 := Nat.mul_le_mul_left niN hi
  rw [Nat.add_mul] at hlv' hsv'
  rw [hcfg] at hv'
  subst e1 e2 e3 e4 e5 e6 e1' e2' e3' e4' e5' e6' hlv hsv hlv' hsv'
  have b1 : ((m.primary.long * d.prices.long.min + x * d.prices.long.min : Nat) : Int)
      ≤ ((m.primary.long * d.prices.long.max + x * d.prices.long.max : Nat) : Int) := by exact_mod_cast a1
  have b2 : ((m.primary.short * d.prices.short.min + y * d.prices.short.min : Nat) : Int)
      ≤ ((m.primary.short * d.prices.short.max + y * d.prices.short.max : Nat) : Int) := by exact_mod_cast a2
  have b3 : ((niN * d.prices.index.min : Nat) : Int) ≤ ((niN * d.prices.index.max : Nat) : Int) := by exact_mod_cast a3
  have goal : (r.poolValue : Int) ≤ ((t.poolValue + (x * d.prices.long.max + y * d.prices.short.max) + eL + eS : Nat) : Int) := by
    push_cast at *
    omega
  exact_mod_cast goal

/-- `roundtrip_bound` with an explicit slack `e` in the pool-value hypothesis: the pay-out is at
most `creditedValue + e`. -/
theorem roundtrip_bound_slack {W U : Nat} {m m₁ m₂ : Market} {d : DepositParams} {pin pin' : PerpIn}
    {t : DepositTrace} {r : WithdrawReport} {e : Nat}
    (hd : deposit W U m d pin = (m₁, .ok t))
    (hw : withdraw W U m₁ ⟨t.report.minted, d.prices⟩ pin' = (m₂, .ok r))
    (hs : m.supply ≠ 0)
    (hl : d.prices.long.min ≤ d.prices.long.max) (hsh : d.prices.short.min ≤ d.prices.short.max)
    (hP : r.poolValue ≤ t.poolValue + (creditedValue d t + e)) :
    (r.longOut + r.feesL.pool + r.feesL.receiver) * d.prices.long.max
      + (r.shortOut + r.feesS.pool + r.feesS.receiver) * d.prices.short.max ≤ creditedValue d t + e := by
  obtain ⟨k1, _, k3⟩ := deposit_no_dilution hd hs
  obtain ⟨w1, w2, _, _, _⟩ := withdraw_no_dilution hw
  have hv : sideMintValue d true t.long + sideMintValue d false t.short ≤ creditedValue d t + e :=
    Nat.le_trans (sideMintValue_le hl hsh) (Nat.le_add_right _ _)
  have h1 : t.report.minted * t.poolValue ≤ m.supply * (creditedValue d t + e) :=
    Nat.le_trans k1 (Nat.mul_le_mul_left _ hv)
  have hpos : 0 < m.supply + t.report.minted := by omega
  have h3 : r.value * (m.supply + t.report.minted) ≤ r.poolValue * t.report.minted := by
    rw [← k3]; exact w1
  exact Nat.le_trans w2 (roundtrip_core hpos h1 hP h3)

/-! ### the post-check of the withdrawal and its kind

`Gmx.Gen.C06` is REGENERATED from `action/{deposit,withdraw,swap}.rs` on every run
(`translator/c06_kinds.py`, fail closed): which pnl-factor kinds each action validates and values
the pool with, and that the withdrawal's validation sits after its pool deltas. The statements
below are about those generated constants, so a changed kind in the source breaks them. -/

/-- the model's actions use exactly the kinds found in the source: deposits validate
(`MaxAfterDeposit`, `MaxAfterDeposit`) first and value the pool maximised with `MaxAfterDeposit`;
withdrawals value the pool minimised with `MaxAfterWithdrawal` and validate (`MaxAfterWithdrawal`,
`MaxAfterWithdrawal`) afterwards; swaps validate the receiving side against the deposit factor and
the paying side against the withdrawal factor. -/
theorem source_kinds :
    Gen.C06.depositPreCheck = (.maxAfterDeposit, .maxAfterDeposit) ∧
    Gen.C06.depositPoolValue = (.maxAfterDeposit, true) ∧
    Gen.C06.withdrawPostCheck = (.maxAfterWithdrawal, .maxAfterWithdrawal) ∧
    Gen.C06.withdrawPoolValue = (.maxAfterWithdrawal, false) ∧
    Gen.C06.swapKindsInLong = (.maxAfterDeposit, .maxAfterWithdrawal) ∧
    Gen.C06.swapKindsInShort = (.maxAfterWithdrawal, .maxAfterDeposit) := by decide

/-- the kind the withdrawal VALIDATES with is the kind it VALUES the pool with (on both sides) —
this equality is what the no-gain bound needs: the cap used for pricing is the cap that was checked. -/
theorem withdraw_postcheck_matches_valuation :
    Gen.C06.withdrawPostCheck.1 = Gen.C06.withdrawPoolValue.1 ∧
    Gen.C06.withdrawPostCheck.2 = Gen.C06.withdrawPoolValue.1 := by decide

/-- **`withdraw_postcheck_kind`**: a successful withdrawal leaves, on BOTH sides, a pnl factor that
passes the max-pnl validation with the source's post-check kinds (the withdrawal cap) on the pools
AFTER the withdrawal, and both reserve validations; i.e. `pnl factor ≤ MaxAfterWithdrawal` cap
whenever the pnl is positive. A deposit passes the same validation with the deposit kinds BEFORE
anything else (`deposit_precheck_kind`). -/
theorem withdraw_postcheck_kind {W U : Nat} {m₁ m₂ : Market} {w : WithdrawParams} {pin : PerpIn} {r : WithdrawReport}
    (hw : withdraw W U m₁ w pin = (m₂, .ok r)) :
    validateMaxPnl W U m₂ w.prices Gen.C06.withdrawPostCheck.1 Gen.C06.withdrawPostCheck.2 = .ok () ∧
    (∀ b, validatePnlFactor W U m₂ w.prices Gen.C06.withdrawPoolValue.1 b = .ok ()) ∧
    (∀ b f pv, pnlFactorWithPoolValue W U m₂ w.prices b true = some (f, pv) →
        ¬ (f > 0 ∧ f.natAbs > m₂.cfg.maxPnlWithdrawal)) ∧
    (∀ b, validateReserve W U m₂ w.prices b = .ok ()) := by
  have f := withdraw_spec hw
  have hm : validateMaxPnl W U m₂ w.prices .maxAfterWithdrawal .maxAfterWithdrawal = .ok () := f.maxpnl
  have hb : ∀ b, validatePnlFactor W U m₂ w.prices .maxAfterWithdrawal b = .ok () := by
    intro b
    unfold validateMaxPnl at hm
    split at hm
    · cases hm
    · rename_i hlong
      cases b
      · exact hm
      · exact hlong
  refine ⟨hm, hb, ?_, fun b => by cases b; exact f.reserve_short; exact f.reserve_long⟩
  intro b fac pv hf
  have := hb b
  unfold validatePnlFactor at this
  rw [hf] at this
  simp only at this
  split at this
  · cases this
  · rename_i hne
    intro ⟨h1, h2⟩
    apply hne
    simp [pnlExceeded, h1, MarketConfig.pnlFactor]
    exact h2

theorem deposit_precheck_kind {W U : Nat} {m m' : Market} {d : DepositParams} {pin : PerpIn} {t : DepositTrace}
    (hd : deposit W U m d pin = (m', .ok t)) :
    validateMaxPnl W U m d.prices Gen.C06.depositPreCheck.1 Gen.C06.depositPreCheck.2 = .ok () ∧
    poolValue W U m d.prices Gen.C06.depositPoolValue.1 Gen.C06.depositPoolValue.2 pin = some (t.poolValue : Int) := by
  refine ⟨?_, (deposit_spec hd).pv⟩
  unfold deposit at hd
  split at hd
  · cases hd
  · split at hd
    · cases hd
    · rename_i hv; exact hv

/-- **what the no-gain bound takes from the post-check.** For ANY factor kind `K`: if a side of the
market `m₂` passes the reserve validation and the max-pnl validation with kind `K`, and `m₁` has
the same positions and configuration and at least as much liquidity on that side, then capping
that side's pnl in `m₁` with the SAME kind `K` cuts off at most `⌊pv₂/U⌋ + 1`. With a looser kind in
the post-check than in the valuation this fails (`postcheck_rejects_between_caps_witness` is the
state where it would). -/
theorem caps_slack_of_postcheck {W U : Nat} {m₁ m₂ : Market} {pr : Prices} {K : PnlFactorKind} (b : Bool)
    (hcfg : m₂.cfg = m₁.cfg)
    (hM : marketPnl W m₂ pr.index b true = marketPnl W m₁ pr.index b true)
    (hle : m₂.primary.amount b ≤ m₁.primary.amount b)
    (hres : validateReserve W U m₂ pr b = .ok ())
    (hpf : validatePnlFactor W U m₂ pr K b = .ok ()) :
    ∀ p c lv, marketPnl W m₁ pr.index b true = some p →
      poolValueWithoutPnlOneSide W m₁ pr b false = some lv →
      capPnl W U p lv (m₁.cfg.pnlFactor K) = some c →
      p ≤ c + ((m₂.primary.amount b * (pr.collateral b).min / U + 1 : Nat) : Int) := by
  intro p c lv hp hlv hc
  cases hpv2 : poolValueWithoutPnlOneSide W m₂ pr b false with
  | none => unfold validateReserve at hres; rw [hpv2] at hres; cases hres
  | some pv2 =>
    have key := pnl_le_cap_of_validated hres hpf (by rw [hM]; exact hp) hpv2
    rw [hcfg] at key
    have e2 : pv2 = m₂.primary.amount b * (pr.collateral b).min := by
      unfold poolValueWithoutPnlOneSide at hpv2
      cases b <;> simp only [Bool.false_eq_true, if_false, if_true, Price.pick] at hpv2 <;>
        have := checkedMul_eq hpv2 <;> simpa [Pool.amount, Prices.collateral] using this
    have e1 : lv = m₁.primary.amount b * (pr.collateral b).min := by
      unfold poolValueWithoutPnlOneSide at hlv
      cases b <;> simp only [Bool.false_eq_true, if_false, if_true, Price.pick] at hlv <;>
        have := checkedMul_eq hlv <;> simpa [Pool.amount, Prices.collateral] using this
    have hpvle : pv2 ≤ lv := by rw [e1, e2]; exact Nat.mul_le_mul_right _ hle
    have hcaple : pv2 * m₁.cfg.pnlFactor K / U ≤ lv * m₁.cfg.pnlFactor K / U :=
      Nat.div_le_div_right (Nat.mul_le_mul_right _ hpvle)
    obtain ⟨_, _, h3⟩ := capPnl_spec hc
    rw [← e2]
    push_cast
    have : ((pv2 * m₁.cfg.pnlFactor K / U : Nat) : Int) ≤ ((lv * m₁.cfg.pnlFactor K / U : Nat) : Int) := by
      exact_mod_cast hcaple
    rcases h3 with h3 | h3
    · have : (0 : Int) ≤ ((pv2 / U : Nat) : Int) := Int.natCast_nonneg _
      omega
    · omega

/-- the withdrawal's own post-check (`withdraw_postcheck_kind`: reserve and max pnl factor with the
VALUATION kind, on the pools AFTER the withdrawal) bounds how much its pnl cap could have cut: at
most `⌊poolValue_side/U⌋ + 1` (the rounding of the pnl factor). This is the ONLY place where the
round-trip bound with open positions uses the post-check. -/
theorem withdraw_caps_slack {W U : Nat} {m₁ m₂ : Market} {w : WithdrawParams} {pin : PerpIn} {r : WithdrawReport}
    (hw : withdraw W U m₁ w pin = (m₂, .ok r)) (b : Bool) :
    ∀ p c lv, marketPnl W m₁ w.prices.index b true = some p →
      poolValueWithoutPnlOneSide W m₁ w.prices b false = some lv →
      capPnl W U p lv (m₁.cfg.pnlFactor Gen.C06.withdrawPoolValue.1) = some c →
      p ≤ c + ((m₂.primary.amount b * (w.prices.collateral b).min / U + 1 : Nat) : Int) := by
  have f := withdraw_spec hw
  obtain ⟨_, hpf, _, hres⟩ := withdraw_postcheck_kind hw
  have hfr := f.frame
  have hle : m₂.primary.amount b ≤ m₁.primary.amount b := by
    have := f.liq_long; have := f.liq_short
    cases b <;> simp [Pool.amount] <;> omega
  exact caps_slack_of_postcheck b (by rw [hfr]) (by rw [hfr]; rfl) hle (hres b) (hpf b)

/-- **round trip with open positions** (the on-chain flow: `pre_execute` has just updated the
borrowing state, so the borrowing clock is fresh). With existing holders and prices `min ≤ max`,
depositing and immediately withdrawing the minted tokens pays out at most

`deposited + positive impact credited − receiver fees − negative impact + ε`,

`ε = ⌊L₂·pL.min/U⌋ + ⌊S₂·pS.min/U⌋ + 2` being the rounding of the max-pnl-factor validation (`L₂`,
`S₂` the liquidity left after the withdrawal; on chain `U = 10²⁰`, i.e. ε is the pool's USD value
in units of 10⁻²⁰ USD … per whole USD one such unit). No assumption on pnl, caps or funding. -/
theorem roundtrip_bound_open_positions {W U : Nat} {m m₁ m₂ : Market} {d : DepositParams} {pin pin' : PerpIn}
    {t : DepositTrace} {r : WithdrawReport}
    (hd : deposit W U m d pin = (m₁, .ok t))
    (hw : withdraw W U m₁ ⟨t.report.minted, d.prices⟩ pin' = (m₂, .ok r))
    (hs : m.supply ≠ 0)
    (fresh : passedInSeconds m.now m.clockBorrowing = 0)
    (hi : d.prices.index.min ≤ d.prices.index.max)
    (hl : d.prices.long.min ≤ d.prices.long.max) (hsh : d.prices.short.min ≤ d.prices.short.max) :
    (r.longOut + r.feesL.pool + r.feesL.receiver) * d.prices.long.max
      + (r.shortOut + r.feesS.pool + r.feesS.receiver) * d.prices.short.max
      ≤ creditedValue d t
        + ((m₂.primary.long * d.prices.long.min / U + 1) + (m₂.primary.short * d.prices.short.min / U + 1)) := by
  have cL := withdraw_caps_slack hw true
  have cS := withdraw_caps_slack hw false
  simp only [Pool.amount, Prices.collateral, if_true, Bool.false_eq_true, if_false] at cL cS
  have hP := poolValue_after_deposit_le_open hd hw fresh hi hl hsh cL cS
  exact roundtrip_bound_slack hd hw hs hl hsh (by omega)

/-! ### the literal statement is false of the code: two witnesses (replayed on the implementation) -/

/-- run a round trip on the model: `(value deposited, value returned, positive impact value
credited, supply before the deposit, pool value the deposit saw)`, all at MAX prices. -/
def roundTrip (W U : Nat) (m : Market) (d : DepositParams) : Option (Nat × Nat × Nat × Nat × Nat) :=
  match deposit W U m d PerpIn.zero with
  | (_, .error _) => none
  | (m₁, .ok t) =>
    match withdraw W U m₁ ⟨t.report.minted, d.prices⟩ PerpIn.zero with
    | (_, .error _) => none
    | (_, .ok r) =>
      some (d.long * d.prices.long.max + d.short * d.prices.short.max,
            r.longOut * d.prices.long.max + r.shortOut * d.prices.short.max,
            t.short.positiveImpactAmount * d.prices.long.max + t.long.positiveImpactAmount * d.prices.short.max,
            m.supply, t.poolValue)

def cfgW (feePos feeNeg : Nat) (impact : ImpactParams) : MarketConfig :=
  { swapImpact := impact, swapFee := ⟨feePos, feeNeg, 500000000, 0⟩,
    positionImpact := ⟨2000000000, 1, 2⟩, orderFee := ⟨500000, 700000, 370000000, 0⟩,
    distributeFactor := 1000000000, minPositionImpactPool := 1000000000, borrowingReceiverFactor := 370000000,
    reserveFactor := 1000000000, oiReserveFactor := 1000000000, maxPnlDeposit := 600000000,
    maxPnlWithdrawal := 300000000, maxPnlTrader := 500000000, maxPnlAdl := 500000000, minPnlAfterAdl := 0,
    maxPoolAmount := 1000000000000000000, maxPoolValueForDeposit := 18446744073709551615,
    maxOpenInterest := 18446744073709551615, ignoreOiForUsage := false, divisor := 1, fundingAdjustment := 10000 }

def flat (l s : Nat) : Prices := ⟨⟨l, l⟩, ⟨l, l⟩, ⟨s, s⟩⟩

/-- the market of corpus/C06/c06-positive-impact-roundtrip.ops before its third deposit: zero fees,
impact factors 4000/8000 exponent 2, reached by two deposits (3e9 long + 1e9 short, then 1e9 long). -/
def mImpact : Market :=
  liqRun 64 1000000000 { cfg := cfgW 0 0 ⟨2000000000, 4000, 8000⟩ }
    [.deposit ⟨3000000000, 1000000000, flat 1 1⟩, .deposit ⟨1000000000, 0, flat 1 1⟩]

/-- **F-C06**: depositing 1 000 000 000 short tokens (which improves the balance) is credited 19 999
of positive impact; withdrawing the minted tokens at the same prices returns 1 000 019 998 > 1 000 000 000.
The surplus (19 998) is within the credited impact (19 999), as `roundtrip_bound` says. -/
theorem roundtrip_profit_witness :
    roundTrip 64 1000000000 mImpact ⟨0, 1000000000, flat 1 1⟩
      = some (1000000000, 1000019998, 19999, 4999928000, 4999928000) := by decide +kernel

/-- the market of corpus/C06/c06-zero-supply-leftover.ops after the only holder left: swap fees
0.05 % (half to the pool), no impact. Supply 0, pool 249 938 long / 499 875 short. -/
def mLeftover : Market :=
  liqRun 64 1000000000 { cfg := cfgW 500000 500000 ⟨2000000000, 0, 0⟩ }
    [.deposit ⟨1000000000, 2000000000, flat 2 1⟩, .withdraw ⟨3998000000, flat 2 1⟩]

/-- **F-C06b**: with zero supply but pool value 999 751 left over, depositing 7 short tokens
(value 7) mints (999 751 + 7)/divisor tokens and the round trip returns 999 261. -/
theorem zero_supply_leftover_witness :
    roundTrip 64 1000000000 mLeftover ⟨0, 7, flat 2 1⟩ = some (7, 999261, 0, 0, 999751) := by decide +kernel

/-- a market with a profitable long position whose pending profit is 42 % of the long pool value:
between the withdrawal cap (30 %) and the deposit cap (60 %). Liquidity 1 000 long @ 100 and
100 000 short @ 1, supply 200 000; long open interest 84 000 USD / 840 tokens entered at 100, index
now 200 ⇒ pnl = 840·200 − 84 000 = 84 000 = 42 % of 200 000. -/
def mBand : Market :=
  { cfg := cfgW 0 0 ⟨2000000000, 0, 0⟩, primary := ⟨1000, 100000⟩, supply := 200000,
    oiL := ⟨84000, 0⟩, oitL := ⟨840, 0⟩ }

/-- **the post-check at work**: in that state a deposit is accepted (42 % ≤ deposit cap 60 %) and
priced with the whole pending profit deducted, but the withdrawal of the minted tokens is REJECTED
by the post-check with the withdrawal kind (42 % > 30 %) — with the deposit kind there instead it
would be paid at a pool value with only 30 % deducted, i.e. more than was deposited. -/
theorem postcheck_rejects_between_caps_witness :
    (match deposit 64 1000000000 mBand ⟨10, 0, flat 200 1⟩ PerpIn.zero with
     | (m₁, .ok t) =>
       (match withdraw 64 1000000000 m₁ ⟨t.report.minted, flat 200 1⟩ PerpIn.zero with
        | (_, .error e) => some (t.report.minted, t.poolValue, e)
        | _ => none)
     | _ => none) = some (1851, 216000, MErr.pnlFactor) := by decide +kernel

/-- what "fresh borrowing clock" means: `passed_in_seconds` SATURATES, so the hypothesis `fresh` of the
open-position theorems holds exactly when the clock was never set, is at `now`, or is AHEAD of `now`
(the real code behaves the same: replayed through the `setclock` op of the `mkt` / `mlp` engines). In all
three cases the pending borrowing fees do not depend on the borrowing factor per second (`tpbf_fresh`). -/
theorem fresh_clock_cases (m : Market) :
    passedInSeconds m.now m.clockBorrowing = 0 ↔
      m.clockBorrowing = none ∨ ∃ c, m.clockBorrowing = some c ∧ m.now ≤ c :=
  passedInSeconds_eq_zero_iff _ _

/-- borrowing clock 490 s AHEAD of `now`, open interest and an accrued cumulative factor: the pending
fees are the same for a borrowing factor per second of 0 and of 10⁶ (and not zero: 84 000 · 0.5 = 42 000). -/
example : totalPendingBorrowingFees 64 1000000000
      { mBand with now := 10, clockBorrowing := some 500, borrowingFactor := ⟨500000000, 0⟩ } true 1000000 = some 42000 ∧
    totalPendingBorrowingFees 64 1000000000
      { mBand with now := 10, clockBorrowing := some 500, borrowingFactor := ⟨500000000, 0⟩ } true 0 = some 42000 ∧
    -- … whereas 490 s BEHIND it matters
    totalPendingBorrowingFees 64 1000000000
      { mBand with now := 500, clockBorrowing := some 10, borrowingFactor := ⟨500000000, 0⟩ } true 1000000 = some 83160 := by
  decide +kernel

/-! ### Non-vacuity -/
/-- first deposit into the empty market: 1 USD per token, minted = 3·1 + 2·1 (amount units). -/
example : (match deposit 64 1000000000 { cfg := cfgW 0 0 ⟨2000000000, 0, 0⟩ } ⟨3, 2, flat 1 1⟩ PerpIn.zero with
    | (m', .ok t) => [t.report.minted, t.poolValue, m'.supply, m'.primary.long, m'.primary.short]
    | _ => []) = [5, 0, 5, 3, 2] := by decide +kernel
/-- a round trip without positive impact and with fees loses value (hypotheses of
`roundtrip_no_profit_partial` are satisfiable). -/
example : roundTrip 64 1000000000
    (liqRun 64 1000000000 { cfg := cfgW 500000 500000 ⟨2000000000, 0, 0⟩ } [.deposit ⟨1000000000, 2000000000, flat 2 1⟩])
    ⟨5000, 10000, flat 2 1⟩ = some (20000, 19980, 0, 3998000000, 3999000000) := by decide +kernel

/-! #### audit additions: witnesses for the remaining hypotheses -/
/-- `first_deposit_price_side`: a single side executed into the EMPTY market (zero supply, pool value 0,
fees 0.05 %): ok, minted 5998 = ⌊2999·2/1⌋ for the net amount 2999, no positive impact. -/
example : (match executeDeposit 64 1000000000 { cfg := cfgW 500000 500000 ⟨2000000000, 0, 0⟩ } ⟨3000, 2000, flat 2 1⟩
      true 0 0 .worsened with
    | (m', .ok r) => [r.minted, r.netAmount, r.positiveImpactAmount, r.fees.pool, m'.primary.long, r.netAmount * 2 / 1]
    | _ => []) = [5998, 2999, 0, 1, 3000, 5998] := by decide +kernel
/-- `side_mint_no_dilution` / `side_holdings` (their `SideFacts` come from `executeDeposit_spec`): one
side executed with EXISTING supply 4 999 928 000 and a positive impact of 19 999: minted 1 000 019 999 for
the value 1 000 019 999 (`minted · pv ≤ supply · value` with equality, `pv = supply`), the short
holdings grow by the deposited 1 000 000 000 and the long holdings do not move. -/
example : (match executeDeposit 64 1000000000 mImpact ⟨0, 1000000000, flat 1 1⟩ false 4999928000 19999 .improved with
    | (m', .ok r) => [mImpact.supply, r.minted, r.netAmount, r.positiveImpactAmount,
        sideMintValue ⟨0, 1000000000, flat 1 1⟩ false r,
        m'.holdings false - mImpact.holdings false, m'.holdings true - mImpact.holdings true]
    | _ => []) = [4999928000, 1000019999, 1000000000, 19999, 1000019999, 1000000000, 0] := by decide +kernel
/-- `roundtrip_bound` (all hypotheses, including `hP`) on the positive-impact market: supply ≠ 0, flat
prices, `r.poolValue = 5 999 947 999 ≤ t.poolValue + creditedValue = 4 999 928 000 + 1 000 019 999`; the
conclusion: paid out 1 000 019 998 ≤ credited 1 000 019 999. -/
example : (match deposit 64 1000000000 mImpact ⟨0, 1000000000, flat 1 1⟩ PerpIn.zero with
     | (m₁, .ok t) =>
       (match withdraw 64 1000000000 m₁ ⟨t.report.minted, flat 1 1⟩ PerpIn.zero with
        | (_, .ok r) => [mImpact.supply, t.poolValue, creditedValue ⟨0, 1000000000, flat 1 1⟩ t, r.poolValue,
            (r.longOut + r.feesL.pool + r.feesL.receiver) * 1 + (r.shortOut + r.feesS.pool + r.feesS.receiver) * 1]
        | _ => [])
     | _ => []) = [4999928000, 4999928000, 1000019999, 5999947999, 1000019998] := by decide +kernel
/-- `roundtrip_no_profit_partial`, `poolValue_after_deposit_le`, `roundtrip_bound_no_positions`,
`roundtrip_bound_slack`, `sideMintValue_le` with a REAL spread (`min < max` for index, long, short), fees,
existing supply, no positive impact: `hP` holds (36 990 934 963 ≤ 42 989 250 000 + 214 957), paid out incl.
fees 159 100 ≤ credited 214 957, and outputs 159 046 ≤ deposited 215 000 (all at max prices). -/
example : (let m := liqRun 64 1000000000 { cfg := cfgW 500000 500000 ⟨2000000000, 0, 0⟩ } [.deposit ⟨1000000000, 2000000000, flat 2 1⟩]
   let d : DepositParams := ⟨5000, 10000, ⟨⟨19, 21⟩, ⟨19, 21⟩, ⟨9, 11⟩⟩⟩
   match deposit 64 1000000000 m d PerpIn.zero with
     | (m₁, .ok t) =>
       (match withdraw 64 1000000000 m₁ ⟨t.report.minted, d.prices⟩ PerpIn.zero with
        | (_, .ok r) => [m.supply, t.long.positiveImpactAmount, t.short.positiveImpactAmount, t.poolValue, creditedValue d t, r.poolValue,
            (r.longOut + r.feesL.pool + r.feesL.receiver) * 21 + (r.shortOut + r.feesS.pool + r.feesS.receiver) * 11,
            r.longOut * 21 + r.shortOut * 11, d.long * 21 + d.short * 11]
        | _ => [])
     | _ => []) = [3998000000, 0, 0, 42989250000, 214957, 36990934963, 159100, 159046, 215000] := by decide +kernel
/-- `NoOI` holds of that (reachable, non-initial) market. -/
example : NoOI (liqRun 64 1000000000 { cfg := cfgW 500000 500000 ⟨2000000000, 0, 0⟩ } [.deposit ⟨1000000000, 2000000000, flat 2 1⟩]) :=
  ⟨by decide +kernel, by decide +kernel, by decide +kernel, by decide +kernel, by decide +kernel⟩
/-- `roundtrip_bound_open_positions`, `poolValue_after_deposit_le_open`, `withdraw_caps_slack`,
`caps_slack_of_postcheck`, `withdraw_postcheck_kind` with OPEN INTEREST and a spread: `mBand` at index
149/151 has a long pnl of 42 840 > 0 (pnl factor 28.67 % of the long pool after the withdrawal, under
the 30 % withdrawal cap), supply 200 000, fresh borrowing clock; deposit then withdraw both succeed;
`r.poolValue = 208 150 ≤ t.poolValue + credited = 209 840 + 2 010`, paid out 1 833 ≤ 2 010 + ε, ε = 2. -/
example : (match deposit 64 1000000000 mBand ⟨10, 500, ⟨⟨149, 151⟩, ⟨149, 151⟩, ⟨1, 1⟩⟩⟩ PerpIn.zero with
     | (m₁, .ok t) =>
       (match withdraw 64 1000000000 m₁ ⟨t.report.minted, ⟨⟨149, 151⟩, ⟨149, 151⟩, ⟨1, 1⟩⟩⟩ PerpIn.zero with
        | (m₂, .ok r) => some ([mBand.supply, passedInSeconds mBand.now mBand.clockBorrowing,
            t.poolValue, creditedValue ⟨10, 500, ⟨⟨149, 151⟩, ⟨149, 151⟩, ⟨1, 1⟩⟩⟩ t, r.poolValue,
            (r.longOut + r.feesL.pool + r.feesL.receiver) * 151 + (r.shortOut + r.feesS.pool + r.feesS.receiver) * 1,
            (m₂.primary.long * 149 / 1000000000 + 1) + (m₂.primary.short * 1 / 1000000000 + 1)],
            marketPnl 64 m₁ ⟨149, 151⟩ true true,
            pnlFactorWithPoolValue 64 1000000000 m₂ ⟨⟨149, 151⟩, ⟨149, 151⟩, ⟨1, 1⟩⟩ true true)
        | _ => none)
     | _ => none) = some ([200000, 0, 209840, 2010, 208150, 1833, 2], some 42840, some (286656808, 149447)) := by
  decide +kernel

end Gmx.C06
