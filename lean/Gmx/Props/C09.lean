import Gmx.Lemmas.Perp
import Gmx.Lemmas.Guard
/-!
# C09 — positions are left healthy, and only unhealthy ones can be liquidated

Statements are about `Gmx.Model.Perp` (transcription of `position.rs`, `increase_position.rs`,
`decrease_position/*`), tied to the implementation by the stateful `perp` correspondence engine,
and about the store's liquidation / ADL guard in `programs/store/src/ops/order.rs`
(`execute_decrease_position`): its checks are EXTRACTED from the source on every run into
`Gmx.Gen.C09.checks` by the fail-closed `translator/c09_guard.py` (operands, comparison macros,
error codes, order relative to the model call, the flags handed to `decrease`); `runGuard` gives
the table its meaning and `guard_generated_is_model` shows that it is the hand transcription
`guardedDecrease`, so the guard theorems quantify over the generated table. What stays trusted:
the meaning of the operand names (`Term`) — e.g. that `pnl_factor_exceeded(ForAdl)` is
`adlFactorBefore` — and that the accounts' `Market`/`Position` implement the model traits.

* a successful increase ends with `check_liquidatable(min collateral, not for liquidation) = None`;
* a decrease that leaves the position open ends with `check_liquidatable(false, false) = None`;
* the liquidation check agrees with the validation whenever the liquidation factor does not
  exceed the open-position factor and the min-collateral-USD test passes; otherwise a position
  can be liquidatable right after a successful decrease (`decrease_leaves_liquidatable_witness`,
  known finding F-C09);
* a liquidation succeeds only for a liquidatable position and closes the whole position;
* the ADL guard.
-/
namespace Gmx.C09
open Gmx Gmx.Perp Gmx.Lem

/-- **a successful increase leaves the position healthy** at the execution prices: non-zero
sizes, at least the minimum size, and not liquidatable with the min-collateral-USD test on. -/
theorem increase_ok_healthy {W U : Nat} {m m' : Market} {c : PerpCfg} {pr : Prices} {p p' : Pos} {ci sd : Nat}
    {r : IncreaseReport} (h : increase W U m c pr p ci sd = .ok (m', p', r)) :
    checkLiquidatable W U m' c pr p' true false = .ok none ∧
    p'.sizeUsd ≠ 0 ∧ p'.sizeTokens ≠ 0 ∧ c.minPositionSize ≤ p'.sizeUsd := by
  obtain ⟨a, b, d, e⟩ := validatePos_ok (increase_validated h).1
  exact ⟨e, a, b, d rfl⟩

/-- **a decrease that leaves the position open leaves it healthy** in the sense of the
validation the code performs: `check_liquidatable(no min-collateral test, not for liquidation)`. -/
theorem decrease_open_healthy {W U : Nat} {m m' : Market} {c : PerpCfg} {pr : Prices} {p p' : Pos} {sd0 wd : Nat}
    {fl : DecreaseFlags} {r : DecreaseReport} (h : decrease W U m c pr p sd0 wd fl = .ok (m', p', r))
    (hopen : r.shouldRemove = false) :
    checkLiquidatable W U m' c pr p' false false = .ok none ∧ p'.sizeUsd ≠ 0 ∧ p'.sizeTokens ≠ 0 := by
  obtain ⟨m1, rem, out0, out1, hs, _⟩ := decrease_settle h
  rw [hopen] at hs
  obtain ⟨a, b, _, e⟩ := validatePos_ok (settleDecrease_validated hs)
  exact ⟨e, a, b⟩

/-- the leverage test is monotone in the factor. -/
theorem checkLeverage_mono {W U size f₁ f₂ : Nat} {az : Bool} {cv : Nat} (hf : f₂ ≤ f₁)
    (h : checkLeverage W U size f₁ az cv = some .sufficient) :
    checkLeverage W U size f₂ az cv = some .sufficient := by
  unfold checkLeverage at h ⊢
  split at h
  · cases h
  · rename_i hz
    simp only [hz, if_false]
    split at h
    · cases h
    · rename_i need hn
      obtain ⟨hU, rfl, hfit⟩ := (C01.mulDiv_spec _ _ _ _ _).1 hn
      have hle : size * f₂ / U ≤ size * f₁ / U := Nat.div_le_div_right (Nat.mul_le_mul_left _ hf)
      have : applyFactor W U size f₂ = some (size * f₂ / U) :=
        (C01.mulDiv_spec _ _ _ _ _).2 ⟨hU, rfl, by omega⟩
      rw [this]
      split at h
      · cases h
      · rename_i hc
        have : ¬ cv < size * f₂ / U := by omega
        simp [this]

/-- `check_collateral` is monotone in the factor: sufficient for a factor ⇒ sufficient for any
smaller one (same min-collateral setting). -/
theorem checkCollateral_mono {W U size f₁ f₂ : Nat} {mv : Option Nat} {az : Bool} {v : Int} (hf : f₂ ≤ f₁)
    (h : checkCollateral W U size f₁ mv az v = some .sufficient) :
    checkCollateral W U size f₂ mv az v = some .sufficient := by
  unfold checkCollateral at h ⊢
  by_cases hv : v < 0
  · simp only [hv, if_true] at h
    split at h <;> cases h
  · simp only [hv, if_false] at h ⊢
    cases mv with
    | none => exact checkLeverage_mono hf h
    | some x =>
      simp only at h ⊢
      split at h
      · cases h
      · rename_i hx
        simp only [hx, if_false]
        exact checkLeverage_mono hf h

/-- **validation and liquidation check agree** when the liquidation factor does not exceed the
open-position factor: a position that passes the increase validation is not liquidatable. -/
theorem healthy_implies_not_liquidatable {W U : Nat} {m : Market} {c : PerpCfg} {pr : Prices} {p : Pos}
    (hf : c.minCollateralFactorLiq ≤ c.minCollateralFactor)
    (h : checkLiquidatable W U m c pr p true false = .ok none) :
    checkLiquidatable W U m c pr p true true = .ok none := by
  unfold checkLiquidatable at h ⊢
  split at h
  · cases h
  · rename_i rem hr
    simp only [Bool.false_eq_true, if_false, if_true] at h ⊢
    cases hc : checkCollateral W U p.sizeUsd c.minCollateralFactor (some c.minCollateralValue) false rem with
    | none => rw [hc] at h; cases h
    | some res =>
      rw [hc] at h
      cases res <;> simp at h
      rw [checkCollateral_mono hf hc]

/-- **after a decrease the position is not liquidatable — under explicit guards**: the
liquidation factor does not exceed the open-position factor and the remaining collateral value
after close costs is at least the minimum collateral value. (Without the guards the clause is
FALSE, see `decrease_leaves_liquidatable_witness`.) -/
theorem decrease_open_not_liquidatable_partial {W U : Nat} {m m' : Market} {c : PerpCfg} {pr : Prices} {p p' : Pos}
    {sd0 wd : Nat} {fl : DecreaseFlags} {r : DecreaseReport} {rem : Int}
    (h : decrease W U m c pr p sd0 wd fl = .ok (m', p', r)) (hopen : r.shouldRemove = false)
    (hf : c.minCollateralFactorLiq ≤ c.minCollateralFactor)
    (hrem : remainingCollateralValue W U m' c pr p' = .ok rem) (hmin : (c.minCollateralValue : Int) ≤ rem) :
    checkLiquidatable W U m' c pr p' true true = .ok none := by
  have h0 := (decrease_open_healthy h hopen).1
  unfold checkLiquidatable at h0 ⊢
  rw [hrem] at h0 ⊢
  simp only [Bool.false_eq_true, if_false, if_true] at h0 ⊢
  cases hc : checkCollateral W U p'.sizeUsd c.minCollateralFactor none false rem with
  | none => rw [hc] at h0; cases h0
  | some res =>
    rw [hc] at h0
    cases res <;> simp at h0
    have h1 := checkCollateral_mono hf hc
    -- adding the min-collateral test does not change the verdict when rem ≥ min value
    have : checkCollateral W U p'.sizeUsd c.minCollateralFactorLiq (some c.minCollateralValue) false rem = some .sufficient := by
      unfold checkCollateral at h1 ⊢
      have hn : ¬ rem < 0 := by omega
      simp only [hn, if_false] at h1 ⊢
      have hm : ¬ rem.natAbs < c.minCollateralValue := by omega
      simp only [hm, if_false]
      exact h1
    rw [this]

/-- **negation of the literal clause** "a decrease that leaves the position open never leaves
it liquidatable at the execution prices": decreasing by 10 USD and withdrawing 1.799 USD
succeeds, the position stays open with collateral 0.901 USD (< the 1 USD minimum, because the
estimate did not include the order fee), the code's own validation `(false, false)` passes, and
`check_liquidatable(min collateral, for liquidation)` says `MinCollateral` at the same prices.
Replayed on the implementation (known finding F-C09). -/
theorem decrease_leaves_liquidatable_witness :
    wOutcome = some (false, 901000000, 10 * 10 ^ 9, some none, some (some .minCollateral)) := by rfl

/-- **a liquidation succeeds only for a liquidatable position**: a successful liquidation order
implies `check_liquidatable(min collateral test, liquidation factor) = Some(reason)` on the state
and prices it was executed at. -/
theorem liquidation_only_unhealthy {W U : Nat} {m m' : Market} {c : PerpCfg} {pr : Prices} {p p' : Pos} {sd0 wd : Nat}
    {ins cap : Bool} {r : DecreaseReport}
    (h : decrease W U m c pr p sd0 wd ⟨ins, true, cap⟩ = .ok (m', p', r)) :
    ∃ reason, checkLiquidatable W U m c pr p true true = .ok (some reason) :=
  decrease_liquidation_checked h rfl

/-- a healthy position cannot be liquidated: the order fails with `NotLiquidatable`-class errors
(never succeeds). -/
theorem healthy_not_liquidated {W U : Nat} {m : Market} {c : PerpCfg} {pr : Prices} {p : Pos} {sd0 wd : Nat}
    {ins cap : Bool} (hh : checkLiquidatable W U m c pr p true true = .ok none) :
    ∀ m' p' r, decrease W U m c pr p sd0 wd ⟨ins, true, cap⟩ ≠ .ok (m', p', r) := by
  intro m' p' r h
  obtain ⟨reason, hr⟩ := liquidation_only_unhealthy h
  rw [hh] at hr; cases hr

/-- a decrease by the whole size removes the position and zeroes it. -/
theorem full_size_removes {W U : Nat} {m m' : Market} {c : PerpCfg} {pr : Prices} {p p' : Pos}
    {sdt rem out out' : Nat} {rm : Bool}
    (h : settleDecrease W U m c pr p p.sizeUsd sdt rem out = .ok (m', p', rm, out')) :
    rm = true ∧ p'.sizeUsd = 0 ∧ p'.sizeTokens = 0 ∧ p'.collateral = 0 := by
  obtain ⟨_, _, _, _, hiff, hr, _⟩ := settleDecrease_pos h
  have : rm = true := hiff.2 (Or.inl (Nat.sub_self _))
  obtain ⟨a, b, d, _⟩ := hr this
  exact ⟨this, a, b, d⟩

/-- **a liquidation always closes the whole position** (store guard `size_delta ≥ size`;
with or without the cap flag the executed delta is the whole size). -/
theorem liquidation_full_close {W U : Nat} {m m' : Market} {c : PerpCfg} {pr : Prices} {p p' : Pos} {sd wd : Nat}
    {ins cap : Bool} {r : DecreaseReport}
    (h : guardedDecrease W U m c pr p sd wd ins cap .liquidation = .ok (m', p', r)) :
    r.sizeDelta = p.sizeUsd ∧ r.shouldRemove = true ∧ p'.sizeUsd = 0 ∧ p'.sizeTokens = 0 ∧ p'.collateral = 0 ∧
    ∃ reason, checkLiquidatable W U m c pr p true true = .ok (some reason) := by
  unfold guardedDecrease at h
  split at h
  · cases h
  · rename_i hg
    simp only [show ¬ (OrderTag.liquidation = OrderTag.adl) by decide, if_false] at h
    split at h
    · cases h
    · rename_i m1 p1 r1 hd
      cases h
      have hge : p.sizeUsd ≤ sd := by
        have : ¬ sd < p.sizeUsd := fun hlt => hg ⟨rfl, hlt⟩
        omega
      obtain ⟨sd1, wd0, wd1, hadj, hle, hgt⟩ := decrease_adjusted hd
      have hsd1 : sd1 = p.sizeUsd := by
        by_cases he : sd ≤ p.sizeUsd
        · have := hle he; omega
        · exact (hgt (by omega)).1
      subst hsd1
      have hfull := adjustDecrease_full hadj
      obtain ⟨m2, rem, out0, out1, hs, _⟩ := decrease_settle hd
      rw [hfull] at hs
      obtain ⟨a, b, d, e⟩ := full_size_removes hs
      have hl : (⟨ins, decide (OrderTag.liquidation = OrderTag.liquidation), cap⟩ : DecreaseFlags).liquidation = true := by simp
      exact ⟨hfull, a, b, d, e, decrease_liquidation_checked hd hl⟩

/-- **the ADL guard**: a successful auto-deleveraging order implies that the pnl-to-pool factor
of the side exceeded the `ForAdl` limit before the order (positive and above the limit), that
the order strictly lowered it, and that the factor after the order is not below `MinAfterAdl`. -/
theorem adl_guard_spec {W U : Nat} {m m' : Market} {c : PerpCfg} {pr : Prices} {p p' : Pos} {sd wd : Nat}
    {ins cap : Bool} {r : DecreaseReport}
    (h : guardedDecrease W U m c pr p sd wd ins cap .adl = .ok (m', p', r)) :
    ∃ f0 f1 : Int, ∃ pv0 pv1 : Nat,
      pnlFactorWithPoolValue W U m pr p.isLong true = some (f0, pv0) ∧
      pnlFactorWithPoolValue W U m' pr p.isLong true = some (f1, pv1) ∧
      0 < f0 ∧ m.cfg.pnlFactor .forAdl < f0.natAbs ∧ f1 < f0 ∧ (m'.cfg.pnlFactor .minAfterAdl : Int) ≤ f1 ∧
      decrease W U m c pr p sd wd ⟨ins, false, cap⟩ = .ok (m', p', r) := by
  unfold guardedDecrease at h
  simp only [show ¬ (OrderTag.adl = OrderTag.liquidation) by decide, false_and, if_false, if_true, decide_false] at h
  unfold adlFactorBefore at h
  cases hb : pnlFactorWithPoolValue W U m pr p.isLong true with
  | none => simp [hb, Except.map] at h
  | some fb =>
    obtain ⟨f0, pv0⟩ := fb
    simp only [hb] at h
    by_cases hex : pnlExceeded f0 (m.cfg.pnlFactor .forAdl) = true
    · simp only [hex, if_true, Except.map] at h
      split at h
      · cases h
      · rename_i m1 p1 r1 hd
        split at h
        · cases h
        · rename_i f1 pv1 ha
          split at h
          · cases h
          · rename_i h1
            split at h
            · cases h
            · rename_i mn hm
              split at h
              · cases h
              · rename_i h2
                cases h
                have hmn := Lem.toSigned_some hm
                unfold pnlExceeded at hex
                simp only [Bool.and_eq_true, decide_eq_true_eq] at hex
                exact ⟨f0, f1, pv0, pv1, rfl, ha, hex.1, hex.2, by omega, by omega, hd⟩
    · simp [hex, Except.map] at h

/-- **the generated guard table is the transcribed guard**: interpreting the checks extracted
from `execute_decrease_position` (before-checks of the order's tag, the model's `decrease` with
the flags of the source, after-checks) is `guardedDecrease`, for every order tag and input. -/
theorem guard_generated_is_model (W U : Nat) (m : Market) (c : PerpCfg) (pr : Prices) (p : Pos) (sd wd : Nat)
    (ins cap : Bool) (tag : OrderTag) :
    runGuard Gmx.Gen.C09.checks W U m c pr p sd wd ins cap tag = guardedDecrease W U m c pr p sd wd ins cap tag :=
  Lem.runGuard_generated_eq W U m c pr p sd wd ins cap tag

/-- `liquidation_full_close` for the guard as extracted from the source. -/
theorem liquidation_full_close_generated {W U : Nat} {m m' : Market} {c : PerpCfg} {pr : Prices} {p p' : Pos} {sd wd : Nat}
    {ins cap : Bool} {r : DecreaseReport}
    (h : runGuard Gmx.Gen.C09.checks W U m c pr p sd wd ins cap .liquidation = .ok (m', p', r)) :
    r.sizeDelta = p.sizeUsd ∧ r.shouldRemove = true ∧ p'.sizeUsd = 0 ∧ p'.sizeTokens = 0 ∧ p'.collateral = 0 ∧
    ∃ reason, checkLiquidatable W U m c pr p true true = .ok (some reason) := by
  rw [guard_generated_is_model] at h
  exact liquidation_full_close h

/-- `adl_guard_spec` for the guard as extracted from the source: a successful ADL order implies
the side's pnl factor exceeded `ForAdl` before, strictly decreased, and stays ≥ `MinAfterAdl`. -/
theorem adl_guard_spec_generated {W U : Nat} {m m' : Market} {c : PerpCfg} {pr : Prices} {p p' : Pos} {sd wd : Nat}
    {ins cap : Bool} {r : DecreaseReport}
    (h : runGuard Gmx.Gen.C09.checks W U m c pr p sd wd ins cap .adl = .ok (m', p', r)) :
    ∃ f0 f1 : Int, ∃ pv0 pv1 : Nat,
      pnlFactorWithPoolValue W U m pr p.isLong true = some (f0, pv0) ∧
      pnlFactorWithPoolValue W U m' pr p.isLong true = some (f1, pv1) ∧
      0 < f0 ∧ m.cfg.pnlFactor .forAdl < f0.natAbs ∧ f1 < f0 ∧ (m'.cfg.pnlFactor .minAfterAdl : Int) ≤ f1 ∧
      decrease W U m c pr p sd wd ⟨ins, false, cap⟩ = .ok (m', p', r) := by
  rw [guard_generated_is_model] at h
  exact adl_guard_spec h

/-! ### Non-vacuity -/
example : Gmx.Gen.C09.checks.length = 4 ∧ Gmx.Gen.C09.liquidationFlagIsLiquidationTag = true := by decide
example : (increase 64 (10 ^ 9) { wMarket with oiL := {}, oitL := {}, collL := {}, primary := ⟨10 ^ 12, 10 ^ 14⟩ } wPerp wPrices
    { isLong := true, collLong := false } (3 * 10 ^ 9) (20 * 10 ^ 9)).toOption.map (fun x => x.2.1)
    = some wPos := by rfl
example : (checkLiquidatable 64 (10 ^ 9) wMarket wPerp wPrices wPos true true).toOption = some none := by rfl

/-! #### audit additions: witnesses for the remaining hypotheses -/
/-- `checkLeverage_mono` / `checkCollateral_mono`: sufficient at the 1 % factor (and at the smaller 0.5 %),
with the min-collateral test on. -/
example : checkLeverage 64 (10 ^ 9) (20 * 10 ^ 9) (10 ^ 7) false (28 * 10 ^ 8) = some .sufficient ∧
    checkLeverage 64 (10 ^ 9) (20 * 10 ^ 9) (5 * 10 ^ 6) false (28 * 10 ^ 8) = some .sufficient ∧
    checkCollateral 64 (10 ^ 9) (20 * 10 ^ 9) (10 ^ 7) (some (10 ^ 9)) false (28 * 10 ^ 8) = some .sufficient := by
  refine ⟨by rfl, by rfl, by rfl⟩
example : checkCollateral 64 (10 ^ 9) (20 * 10 ^ 9) (5 * 10 ^ 6) (some (10 ^ 9)) false (28 * 10 ^ 8) = some .sufficient :=
  checkCollateral_mono (f₁ := 10 ^ 7) (by decide) (by rfl)
/-- `healthy_implies_not_liquidatable`: both hypotheses hold of `wPos` in `wMarket` (`wPerp` has equal
factors), instantiating the theorem. -/
example : checkLiquidatable 64 (10 ^ 9) wMarket wPerp wPrices wPos true true = .ok none :=
  healthy_implies_not_liquidatable (by decide) (by rfl)
/-- `decrease_open_not_liquidatable_partial`: a partial decrease withdrawing only 0.1 USD leaves the position
open with remaining collateral value 2.5·10⁹ ≥ the minimum 10⁹ (and `wPerp`'s factors are equal):
`(removed, collateral, remaining value, min value, liq factor, open factor)`. -/
example : (match decrease 64 (10 ^ 9) wMarket wPerp wPrices wPos (10 * 10 ^ 9) (10 ^ 8) {} with
  | .ok (m', p', r) => some (r.shouldRemove, p'.collateral, (remainingCollateralValue 64 (10 ^ 9) m' wPerp wPrices p').toOption,
      wPerp.minCollateralValue, wPerp.minCollateralFactorLiq, wPerp.minCollateralFactor)
  | .error _ => none) = some (false, 2600000000, some 2500000000, 1000000000, 10000000, 10000000) := by decide +kernel
/-- `liquidation_only_unhealthy`, `liquidation_full_close`, `liquidation_full_close_generated`: at index 87 the
long entered at 100 has lost 2.6·10⁹ of its 2.8·10⁹ collateral: it IS liquidatable, and the liquidation order
(insolvent close allowed) succeeds — directly, through the transcribed guard and through the generated guard
table — closing the whole size: `(removed, executed delta, remaining size, collateral, output)` and the pnl. -/
example : (checkLiquidatable 64 (10 ^ 9) wMarket wPerp ⟨⟨87, 87⟩, ⟨87, 87⟩, ⟨1, 1⟩⟩ wPos true true).toOption
    = some (some .minCollateral) := by rfl
example : (match decrease 64 (10 ^ 9) wMarket wPerp ⟨⟨87, 87⟩, ⟨87, 87⟩, ⟨1, 1⟩⟩ wPos (20 * 10 ^ 9) 0 ⟨true, true, false⟩ with
  | .ok (_, p', r) => some (r.shouldRemove, [r.sizeDelta, p'.sizeUsd, p'.collateral, r.output], r.pnl) | .error _ => none)
    = some (true, [20000000000, 0, 0, 0], -2600000000) := by decide +kernel
example : (match guardedDecrease 64 (10 ^ 9) wMarket wPerp ⟨⟨87, 87⟩, ⟨87, 87⟩, ⟨1, 1⟩⟩ wPos (20 * 10 ^ 9) 0 true false .liquidation with
  | .ok (_, p', r) => some (r.shouldRemove, [r.sizeDelta, p'.sizeUsd, p'.collateral, r.output], r.pnl) | .error _ => none)
    = some (true, [20000000000, 0, 0, 0], -2600000000) := by decide +kernel
example : (match runGuard Gmx.Gen.C09.checks 64 (10 ^ 9) wMarket wPerp ⟨⟨87, 87⟩, ⟨87, 87⟩, ⟨1, 1⟩⟩ wPos (20 * 10 ^ 9) 0 true false .liquidation with
  | .ok (_, p', r) => some (r.shouldRemove, [r.sizeDelta, p'.sizeUsd, p'.collateral, r.output], r.pnl) | .error _ => none)
    = some (true, [20000000000, 0, 0, 0], -2600000000) := by decide +kernel
/-- `full_size_removes`: `settleDecrease` by the whole size with 2.6·10⁹ remaining collateral. -/
example : (match settleDecrease 64 (10 ^ 9) wMarket wPerp wPrices wPos wPos.sizeUsd wPos.sizeTokens (26 * 10 ^ 8) 0 with
  | .ok (_, p', rm, out') => some (rm, [p'.sizeUsd, p'.sizeTokens, p'.collateral, out']) | .error _ => none)
    = some (true, [0, 0, 0, 2600000000]) := by decide +kernel
/-- `adl_guard_spec` / `adl_guard_spec_generated`: long pool 10⁹ tokens, `ForAdl` limit 1 %, index 110: the
long's pnl is 1.82 % of the pool (> 1 %); an ADL order for half the size succeeds (transcribed and generated
guard) and lowers the factor to 0.92 % ≥ `MinAfterAdl` = 0: `(factor before, after, removed, delta, size left, pnl)`. -/
example : (match guardedDecrease 64 (10 ^ 9) { wMarket with cfg := { wCfg with maxPnlAdl := 10 ^ 7 }, primary := ⟨10 ^ 9, 10 ^ 14 + 2 * 10 ^ 8⟩ }
      wPerp ⟨⟨110, 110⟩, ⟨110, 110⟩, ⟨1, 1⟩⟩ wPos (10 * 10 ^ 9) 0 false false .adl with
  | .ok (m', p', r) => some (pnlFactorWithPoolValue 64 (10 ^ 9)
        { wMarket with cfg := { wCfg with maxPnlAdl := 10 ^ 7 }, primary := ⟨10 ^ 9, 10 ^ 14 + 2 * 10 ^ 8⟩ } ⟨⟨110, 110⟩, ⟨110, 110⟩, ⟨1, 1⟩⟩ true true,
      pnlFactorWithPoolValue 64 (10 ^ 9) m' ⟨⟨110, 110⟩, ⟨110, 110⟩, ⟨1, 1⟩⟩ true true,
      r.shouldRemove, [r.sizeDelta, p'.sizeUsd], r.pnl)
  | .error _ => none)
    = some (some (18181818, 110000000000), some (9174311, 109000000010), false, [10000000000, 10000000000], 1000000000) := by
  decide +kernel
example : (match runGuard Gmx.Gen.C09.checks 64 (10 ^ 9) { wMarket with cfg := { wCfg with maxPnlAdl := 10 ^ 7 }, primary := ⟨10 ^ 9, 10 ^ 14 + 2 * 10 ^ 8⟩ }
      wPerp ⟨⟨110, 110⟩, ⟨110, 110⟩, ⟨1, 1⟩⟩ wPos (10 * 10 ^ 9) 0 false false .adl with
  | .ok (_, p', r) => some (r.shouldRemove, [r.sizeDelta, p'.sizeUsd], r.pnl)
  | .error _ => none) = some (false, [10000000000, 10000000000], 1000000000) := by decide +kernel

end Gmx.C09
