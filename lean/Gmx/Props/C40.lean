import Gmx.Model.ConfigAccess
import Gmx.Gen.Layout
import Gmx.Gen.SdkPool
import Gmx.Model.PoolOps
import Gmx.Model.SwapPricing
/-!
# C40 — the SDK market model agrees with the on-chain program

Both sides are TABLES regenerated from the Rust source on every run:
program `states/market/{model,pool,config}.rs` vs SDK `crates/programs/src/model/{market,pool}.rs`,
`utils/store.rs` (`Gmx.Gen.Wiring`, `Gmx.Gen.Pools`, `Gmx.Gen.MarketConfig`).
The gmsol-model actions (deposit, withdrawal, swap, position changes) are generic functions of what
the trait accessors return, so equal accessor tables give equal action results
(`actions_congruent`); what is NOT an accessor table is the `Pool` trait implementation, compared
method by method below (all methods incl. `checked_cancel_amounts` since the F-C40 fix).
-/
namespace Gmx.C40
open Gmx.Gen.MarketConfig Gmx.Gen.Pools Gmx.Gen.Wiring Gmx.ConfigAccess Gmx.Gen.Layout

/-- SDK-only features that are outside the program's `Market` trait impl:
* the swap-pricing switch (`swap_pricing_*` variants): Swap/Deposit/Withdrawal must behave as the
  program's `Market`; `Shift` zeroes the two swap fee factors (as the program's `RevertibleMarket` does);
* `with_discount_factor(order_fee_discount_factor)` on the order fee (the program applies the
  discount in the order instruction). -/
def sdkNormalise (rows : List Row) : List Row :=
  (rows.filter fun r => r.variant != .swap_pricing_Shift && r.param != .with_discount_factor).map fun r =>
    if r.variant == .swap_pricing_Swap || r.variant == .swap_pricing_Deposit || r.variant == .swap_pricing_Withdrawal
    then { r with variant := .none_ } else r

def asc (s : String) : List Nat := s.toList.map Char.toNat

/-! ## tables -/

/-- pool kind → storage field: SDK `Pools::get/get_mut` = program `Pools::get/get_mut` -/
theorem sdk_pool_kinds_eq :
    ∀ k : Kind, sdkPoolGet k = poolGet k ∧ sdkPoolGetMut k = poolGetMut k ∧ poolGet k = poolGetMut k := by
  intro k; cases k <;> exact ⟨rfl, rfl, rfl⟩

/-- key → field: SDK `MarketConfig::get` = program `MarketConfig::get` -/
theorem sdk_config_keys_eq : ∀ k : Key, sdkGetField k = getField k := by
  intro k; cases k <;> rfl

/-- every program wiring row is present, identically, in the (normalised) SDK wiring and vice versa -/
theorem sdk_config_wiring_eq :
    (∀ r ∈ progWiring, (sdkNormalise sdkWiring).contains r = true) ∧
    (∀ r ∈ sdkNormalise sdkWiring, progWiring.contains r = true) := by
  decide +kernel

/-- row lookup agrees (no shadowing by an earlier, different SDK row) -/
theorem sdk_row_lookup_eq :
    ∀ r ∈ progWiring, findRow (sdkNormalise sdkWiring) r.method r.variant r.side r.param
      = findRow progWiring r.method r.variant r.side r.param := by
  decide +kernel

/-- closed-market helper switches agree -/
theorem sdk_helpers_eq :
    ∀ h u l, sdkHelperEval h u l = Helper.eval h u l ∧ sdkHelperOptNonzero h = Helper.optNonzero h := by
  intro h u l; cases h <;> cases u <;> cases l <;> exact ⟨rfl, rfl⟩

/-- the SDK's private flag enums have the program's names and bit positions -/
theorem sdk_flag_bits_eq :
    sdkFlagBits.map (fun p => (asc p.1, p.2)) = Flag.all.map (fun x => (x.codes, x.bit)) ∧
    sdkMFlagBits.map (fun p => (asc p.1, p.2)) = MFlag.all.map (fun x => (x.codes, x.bit)) := by
  decide +kernel

/-- the two SDK-only row families are exactly the documented ones -/
theorem sdk_only_rows :
    (sdkWiring.filter fun r => r.param == .with_discount_factor)
      = [⟨.order_fee_params, .none_, none, .with_discount_factor, .modelField "order_fee_discount_factor"⟩] ∧
    (sdkWiring.filter fun r => r.variant == .swap_pricing_Shift)
      = [⟨.swap_fee_params, .swap_pricing_Shift, none, .fee_receiver_factor, .field .swap_fee_receiver_factor⟩,
         ⟨.swap_fee_params, .swap_pricing_Shift, none, .positive_impact_fee_factor, .lit 0⟩,
         ⟨.swap_fee_params, .swap_pricing_Shift, none, .negative_impact_fee_factor, .lit 0⟩] := by
  decide +kernel

/-! ## semantics -/

/-- For every config record, closed state and program parameter, reading through the SDK's tables
gives what reading through the program's tables gives. -/
theorem params_congruent (c : Cfg) (closed : Bool) :
    ∀ r ∈ progWiring,
      ((findRow (sdkNormalise sdkWiring) r.method r.variant r.side r.param).bind fun r' =>
          c.readSrc sdkHelperEval sdkHelperOptNonzero closed r'.src)
      = c.readParam closed r.method r.variant r.side r.param := by
  intro r hr
  have hE : sdkHelperEval = Helper.eval := by
    funext h u l; exact (sdk_helpers_eq h u l).1
  have hO : sdkHelperOptNonzero = Helper.optNonzero := by
    funext h; exact (sdk_helpers_eq h true true).2
  rw [sdk_row_lookup_eq r hr, hE, hO]; rfl

/-- gmsol-model actions are functions of the accessor results: if two markets return equal values
for every accessor an action reads, the action's result is equal. (Stated for an arbitrary action
`act` over an accessor record `P`; this is the reason the table equalities above suffice.) -/
theorem actions_congruent {P S R : Type} (act : P → S → R) (p₁ p₂ : P) (s : S) (h : p₁ = p₂) :
    act p₁ s = act p₂ s := by rw [h]

/-! ## the scoped pricing setter of the long-lived SDK model -/
section pricing
open Gmx.SwapPricing

/-- after `with_swap_pricing(k, f)` the model's pricing kind is what it was before — whatever `f` does,
in particular when `f` fails (its result type `α` is arbitrary) -/
theorem withSwapPricing_restores {σ α : Type} (k : PKind) (f : Model σ → Model σ × α) (m : Model σ) :
    (withSwapPricing k f m).1.pricing = m.pricing := rfl

/-- `f` runs under the requested kind -/
theorem withSwapPricing_sets {σ α : Type} (k : PKind) (g : PKind → α) (m : Model σ) :
    (withSwapPricing k (fun m' => (m', g m'.pricing)) m).2 = g k := rfl

/-- nested scopes: the inner scope runs under its own kind, hands the OUTER kind back to the rest of
the outer closure, and the whole thing restores the original -/
theorem withSwapPricing_nested {σ α : Type} (k j : PKind) (f : Model σ → Model σ × α) (m : Model σ) :
    (withSwapPricing k (fun m' => let r := withSwapPricing j f m'; (r.1, (r.1.pricing, r.2))) m).2.1 = k ∧
    (withSwapPricing k (withSwapPricing j f) m).1.pricing = m.pricing := ⟨rfl, rfl⟩

/-- every step of a history leaves the resting kind alone … -/
theorem runStep_keeps_resting_kind (pos neg : Nat) (m : Model Unit) (s : Step) :
    (runStep pos neg m s).1.pricing = m.pricing := by
  cases s <;> rfl

/-- … so a plain operation after ANY history is priced with the model's own (resting) kind: a
temporary `Shift` never leaks into later swaps / deposits / withdrawals -/
theorem plain_step_after_history (pos neg : Nat) (m : Model Unit) (h : List Step) :
    runHistory pos neg m (h ++ [.plain]) = runHistory pos neg m h ++ [feeFactors pos neg m.pricing] := by
  induction h generalizing m with
  | nil => simp [runHistory, runStep, opStep]
  | cons s rest ih =>
    have hk := runStep_keeps_resting_kind pos neg m s
    simp only [List.cons_append, runHistory]
    cases hr : (runStep pos neg m s).2 with
    | none => simp only []; rw [ih, hk]
    | some f => simp only []; rw [ih, hk]; rfl

/-- the fee factors per kind are the ones of the generated SDK wiring: `Shift` rows are literal zeros,
all other kinds read the two configured swap fee factors -/
theorem fee_factors_match_sdk_table :
    (sdkWiring.filter fun r => r.method == .swap_fee_params && r.variant == .swap_pricing_Shift && r.param != .fee_receiver_factor).map (·.src)
      = [.lit 0, .lit 0] ∧
    (sdkWiring.filter fun r => r.method == .swap_fee_params && r.variant == .swap_pricing_Swap && r.param != .fee_receiver_factor).map (·.src)
      = [.field .swap_fee_factor_for_positive_impact, .field .swap_fee_factor_for_negative_impact] := by
  decide +kernel

end pricing

/-! ## the `Pool` trait implementation -/

/-- every method implemented on both sides has a token-identical body -/
theorem pool_shared_bodies_identical : (sharedPoolFnBodyEq.all fun p => p.2) = true := by decide +kernel

/-- all required trait methods are implemented on both sides -/
theorem pool_required_methods :
    (poolTraitRequired.all fun f => progPoolFns.contains f && sdkPoolFns.contains f) = true := by decide +kernel

/-- every `Balance`/`Pool` method the program implements is implemented by the SDK as well
(since /repo af87de1 this includes `checked_cancel_amounts`; before, F-C40) -/
theorem sdk_pool_overrides_complete :
    (∀ f ∈ progPoolFns, sdkPoolFns.contains f = true) ∧ (∀ f ∈ sdkPoolFns, progPoolFns.contains f = true) := by
  decide +kernel

/-- the `cancel_amounts` helper of the override is token-identical on both sides, and the SDK has the override -/
theorem sdk_cancel_override_identical :
    sdkOverridesCancelAmounts = true ∧ cancelHelperBodyEq = true ∧
    (sharedPoolFnBodyEq.find? (fun p => p.1 == "checked_cancel_amounts")).map (·.2) = some true := by
  decide +kernel

/-- C15's translator (`Gmx.Gen.sdkOverridesCancel`, regenerated by translator/c15_sdk_pool.py) and this
property's table agree about the override -/
theorem sdk_cancel_flag_consistent_with_c15 : Gmx.Gen.sdkOverridesCancel = sdkOverridesCancelAmounts := by
  decide +kernel

/-- the two transcriptions agree on `checked_cancel_amounts` for EVERY pool (pure or not, any amounts) -/
theorem sdk_cancel_eq_program (p : Gmx.PoolOps.RawPool) :
    Gmx.PoolOps.cancelSdk sdkOverridesCancelAmounts p = Gmx.PoolOps.cancelProgram p := by
  have h : sdkOverridesCancelAmounts = true := sdk_cancel_override_identical.1
  simp [Gmx.PoolOps.cancelSdk, h]

/-- why the override matters — the two `checked_cancel_amounts` as arithmetic on an impure pool
`(long, short)`: the override (program, and SDK since af87de1) … -/
def cancelProg (long short : Nat) : Option (Nat × Nat) :=
  if long ≥ short then some (long - short, 0) else some (0, short - long)

/-- … and the trait default a `Pool` WITHOUT the override would use (128-bit): the cancelled amount `min long short` must fit `i128` -/
def cancelDefault (long short : Nat) : Option (Nat × Nat) :=
  let m := if long ≥ short then short else long
  if m < 2 ^ 127 then some (long - m, short - m) else none

/-- where the default succeeds, both agree … -/
theorem cancel_agree (long short : Nat) (r : Nat × Nat) (h : cancelDefault long short = some r) :
    cancelProg long short = some r := by
  unfold cancelDefault at h; unfold cancelProg
  by_cases hls : long ≥ short
  · simp [hls] at h ⊢; obtain ⟨_, rfl⟩ := h; simp
  · simp [hls] at h ⊢; obtain ⟨_, rfl⟩ := h; simp

/-- … and the default fails exactly when both sides exceed `i128::MAX` -/
theorem cancel_default_fails_iff (long short : Nat) :
    cancelDefault long short = none ↔ 2 ^ 127 ≤ long ∧ 2 ^ 127 ≤ short := by
  unfold cancelDefault
  by_cases hls : long ≥ short <;> simp [hls] <;> omega

/-- the former F-C40 witness (kept in the corpus as a regression input): long = short = 2^127 -/
theorem cancel_witness :
    cancelProg (2 ^ 127) (2 ^ 127) = some (0, 0) ∧ cancelDefault (2 ^ 127) (2 ^ 127) = none := by decide

/-! ## account layouts declared for the SDK (IDL) -/

/-- fields of a laid-out type are in order, do not overlap and fit the type's size -/
def wellFormed (t : TypeL) : Bool :=
  let rec go : Nat → List FieldL → Bool
    | pos, [] => pos ≤ t.size16
    | pos, f :: rest => pos ≤ f.off16 && go (f.off16 + f.size) rest
  go 0 t.fields

/-- every zero-copy type of the IDL has the SAME size and field offsets whether `u128` is 16-aligned
(x86-64 host, where the correspondence runs) or 8-aligned (SBF, on chain): explicit padding makes
the layout target independent, so natively observed layouts are the on-chain ones -/
theorem layout_target_independent :
    (layouts.all fun t => t.size16 == t.size8 && t.fields.all fun f => f.off16 == f.off8) = true := by
  decide +kernel

theorem layout_well_formed : (layouts.all wellFormed) = true := by decide +kernel

/-- the IDL places the factor fields of `MarketConfig` in the program's declaration order, one
16-byte slot each, right after the flag word -/
theorem config_offsets_spec :
    ∀ f : Field, configFieldOffset f = configFlagOffset + 16 * (1 + Field.all.idxOf f) := by
  intro f; cases f <;> decide +kernel

/-- the reserved tail keeps `MarketConfig` at `16 · (1 + fields + reserved)` bytes -/
theorem config_size_spec :
    (layouts.find? (fun t => t.name == "MarketConfig")).map (·.size16)
      = some (16 * (1 + Field.all.length + reservedFactors)) := by
  decide +kernel

/-! ## non-vacuity -/
example : Gmx.SwapPricing.runHistory 5 7 ⟨.swap, ()⟩ [.scoped .shift, .plain, .nested .deposit .shift, .failing .shift, .plain]
    = [(0, 0), (5, 7), (0, 0), (5, 7)] := by decide
example : layouts.length ≥ 50 ∧ (layouts.filter (·.isAccount)).length ≥ 15 := by decide +kernel
example : progWiring.length ≥ 60 ∧ (sdkNormalise sdkWiring).length ≥ 60 := by decide +kernel
example : cancelDefault 1000 200 = some (800, 0) ∧ cancelProg 1000 200 = some (800, 0) := by decide
example : (sentinelCfg 1000).readParamSdk false .order_fee_params .none_ none .fee_receiver_factor
    = (sentinelCfg 1000).readParam false .order_fee_params .none_ none .fee_receiver_factor := by decide +kernel

end Gmx.C40
