import Gmx.Lemmas.FixedStr
import Gmx.Lemmas.RoleNames
/-!
# C35 — stored names read back exactly as they were accepted

`toBytes L` = `fixed_str_to_bytes::<L>`, `fromBytes L` = `bytes_to_fixed_str::<L>` (as of the
`fix:` commit 4dfac7c). A name is the byte list of a Rust `&str`, hence `utf8Valid n`.
All theorems are for every capacity `L` and every byte list.
-/
namespace Gmx.C35
open Gmx.FixedStr

/-- acceptance is characterised exactly; the stored buffer is the name padded with NULs. -/
theorem toBytes_ok_iff (L : Nat) (n b : List Nat) :
    toBytes L n = .ok b ↔ n.length ≤ L ∧ 0 ∉ n ∧ b = n ++ List.replicate (L - n.length) 0 := by
  unfold toBytes
  by_cases h1 : n.length > L
  · simp [h1]; omega
  · by_cases h2 : 0 ∈ n
    · simp [h1, h2]
    · simp [h1, h2]; constructor
      · intro h; exact ⟨by omega, h.symm⟩
      · intro h; exact h.2.symm

/-- the stored buffer always has exactly the field's size. -/
theorem toBytes_length {L : Nat} {n b : List Nat} (h : toBytes L n = .ok b) : b.length = L := by
  obtain ⟨h1, _, rfl⟩ := (toBytes_ok_iff L n b).1 h
  simp; omega

/-- **Round trip**: every accepted name is read back unchanged. -/
theorem roundtrip {L : Nat} {n b : List Nat} (hv : utf8Valid n = true)
    (h : toBytes L n = .ok b) : fromBytes L b = .ok n := by
  obtain ⟨h1, h2, rfl⟩ := (toBytes_ok_iff L n b).1 h
  unfold fromBytes
  by_cases hk : L - n.length = 0
  · -- the name fills the whole field: no NUL in the buffer
    have hL : L = n.length := by omega
    subst hL
    simp only [hk, List.replicate_zero, List.append_nil, position0_none h2]
    simp [hv]
  · obtain ⟨k, hk'⟩ : ∃ k, L - n.length = k + 1 := ⟨L - n.length - 1, by omega⟩
    rw [hk', List.replicate_succ, position0_append_zero _ h2]
    simp [hv]

/-- a too-long name is rejected with `ExceedMaxLengthLimit`, and only such names are. -/
theorem toBytes_tooLong_iff (L : Nat) (n : List Nat) :
    toBytes L n = .error .tooLong ↔ n.length > L := by
  unfold toBytes
  by_cases h1 : n.length > L
  · simp [h1]
  · by_cases h2 : 0 ∈ n <;> simp [h1, h2]

/-- a fitting name containing NUL is rejected with `InvalidFormat`, and only such names are. -/
theorem toBytes_format_iff (L : Nat) (n : List Nat) :
    toBytes L n = .error .format ↔ n.length ≤ L ∧ 0 ∈ n := by
  unfold toBytes
  by_cases h1 : n.length > L
  · simp [h1]; omega
  · by_cases h2 : 0 ∈ n <;> simp [h1, h2]; omega

/-- the write side never produces any other outcome. -/
theorem toBytes_total (L : Nat) (n : List Nat) :
    (∃ b, toBytes L n = .ok b) ∨ toBytes L n = .error .tooLong ∨ toBytes L n = .error .format := by
  unfold toBytes
  by_cases h1 : n.length > L
  · simp [h1]
  · by_cases h2 : 0 ∈ n <;> simp [h1, h2]

/-- reading never indexes outside the buffer (`&bytes[..end]` is in range). -/
theorem fromBytes_no_panic {L : Nat} {b : List Nat} (hb : b.length = L) :
    fromBytes L b ≠ .error .panic := by
  unfold fromBytes
  cases hp : position0 b with
  | none => simp [hb]; split <;> simp
  | some i =>
    have := (position0_some hp).1
    simp [show ¬ i > b.length by omega]; split <;> simp

/-- what a successful read returns: the bytes before the first NUL, or the whole buffer. -/
theorem fromBytes_spec {L : Nat} {b s : List Nat} (hb : b.length = L) (h : fromBytes L b = .ok s) :
    s = b.take s.length ∧ 0 ∉ s ∧ utf8Valid s = true ∧ (s.length = L ∨ b[s.length]? = some 0) := by
  unfold fromBytes at h
  cases hp : position0 b with
  | none =>
    simp only [hp, hb] at h
    have hn : 0 ∉ b := fun hm => by
      obtain ⟨i, hi⟩ := position0_isSome_of_mem hm; simp [hp] at hi
    split at h
    · cases h
    · split at h
      · rename_i hv
        cases h
        rw [← hb, List.take_length] at hv ⊢
        exact ⟨by simp, hn, hv, Or.inl rfl⟩
      · cases h
  | some i =>
    obtain ⟨h1, h2, h3⟩ := position0_some hp
    simp only [hp] at h
    split at h
    · cases h
    · split at h
      · rename_i hv
        cases h
        have hl : (b.take i).length = i := by simp; omega
        refine ⟨by rw [hl], h3, hv, Or.inr (by rw [hl]; exact h2)⟩
      · cases h

/-- **Names that cannot be read back are rejected at creation** — and nothing else is: a
fitting name is accepted exactly when its padded buffer reads back as the same name. -/
theorem accepted_iff_readable {L : Nat} {n : List Nat} (hl : n.length ≤ L)
    (hv : utf8Valid n = true) :
    (∃ b, toBytes L n = .ok b) ↔
      fromBytes L (n ++ List.replicate (L - n.length) 0) = .ok n := by
  constructor
  · rintro ⟨b, hb⟩
    have := roundtrip hv hb
    obtain ⟨_, _, rfl⟩ := (toBytes_ok_iff L n b).1 hb
    exact this
  · intro h
    have hlen : (n ++ List.replicate (L - n.length) 0).length = L := by simp; omega
    have h0 := (fromBytes_spec hlen h).2.1
    exact ⟨_, (toBytes_ok_iff L n _).2 ⟨hl, h0, rfl⟩⟩

/-- distinct accepted names are stored as distinct byte strings. -/
theorem toBytes_injective {L : Nat} {n m b : List Nat} (hn : utf8Valid n = true)
    (hm : utf8Valid m = true) (h1 : toBytes L n = .ok b) (h2 : toBytes L m = .ok b) : n = m := by
  have a := roundtrip hn h1
  have c := roundtrip hm h2
  rw [a] at c; cases c; rfl

/-- what the fix changed (1): before it a name exactly filling the field was accepted but
could not be read back. -/
theorem prefix_full_length_witness :
    toBytesOld 4 [0x61, 0x62, 0x63, 0x64] = .ok [0x61, 0x62, 0x63, 0x64] ∧
    fromBytesOld 4 [0x61, 0x62, 0x63, 0x64] = .error .format ∧
    fromBytes 4 [0x61, 0x62, 0x63, 0x64] = .ok [0x61, 0x62, 0x63, 0x64] := by decide

/-- what the fix changed (2): before it an interior NUL was accepted and read back truncated. -/
theorem prefix_interior_nul_witness :
    toBytesOld 4 [0x61, 0, 0x62] = .ok [0x61, 0, 0x62, 0] ∧
    fromBytesOld 4 [0x61, 0, 0x62, 0] = .ok [0x61] ∧
    toBytes 4 [0x61, 0, 0x62] = .error .format := by decide

/-! ### Non-vacuity -/
example : toBytes 8 [0x41, 0x42] = .ok [0x41, 0x42, 0, 0, 0, 0, 0, 0] := by decide
example : fromBytes 8 [0x41, 0x42, 0, 0, 0, 0, 0, 0] = .ok [0x41, 0x42] := by decide
-- "é€" = c3 a9 e2 82 ac fills a 5-byte field exactly
example : utf8Valid [0xc3, 0xa9, 0xe2, 0x82, 0xac] = true := by decide
example : toBytes 5 [0xc3, 0xa9, 0xe2, 0x82, 0xac] = .ok [0xc3, 0xa9, 0xe2, 0x82, 0xac] := by decide
example : fromBytes 5 [0xc3, 0xa9, 0xe2, 0x82, 0xac] = .ok [0xc3, 0xa9, 0xe2, 0x82, 0xac] := by decide
example : toBytes 2 [0x41, 0x42, 0x43] = .error .tooLong := by decide
example : fromBytes 3 [0xc3, 0x28, 0] = .error .utf8 := by decide

/-! ### program-side wrappers and role usability (with the C18 role-table model) -/
section
open Gmx.RoleNames Gmx.Roles

/-- the store-side wrappers (`Store::init/key`, `Market::init/name`, `Executor::try_init/
role_name`, `RoleMetadata::new/name`): an accepted name is read back unchanged; the error kinds. -/
theorem wrapped_roundtrip (L : Nat) (n : List Nat) (hv : utf8Valid n = true) :
    (n.length ≤ L ∧ 0 ∉ n → wrappedRoundtrip L n = .ok n) ∧
    (n.length > L → wrappedRoundtrip L n = .error .exceedMax) ∧
    (n.length ≤ L ∧ 0 ∈ n → wrappedRoundtrip L n = .error .invalidArgument) := by
  unfold wrappedRoundtrip
  refine ⟨fun h => ?_, fun h => ?_, fun h => ?_⟩
  · have hb := (toBytes_ok_iff L n _).2 ⟨h.1, h.2, rfl⟩
    rw [hb]; simp only; rw [roundtrip hv hb]
  · rw [(toBytes_tooLong_iff L n).2 h]; rfl
  · rw [(toBytes_format_iff L n).2 h]; rfl

/-- **An accepted role can be used, granted and disabled.** If `enable_role` accepts a new role
name (any name of at most 32 bytes without NUL — including one that fills the field) then: its
stored name reads back as the same name (so every later `require_eq!(metadata.name()?, role)`
passes), granting it to a new member succeeds (room permitting), `has_role` then says yes,
disabling succeeds, after which `has_role` reports the role as disabled, and it can be
re-enabled. -/
theorem role_usable_after_accept {A : Type} [DecidableEq A] (s : St (List Nat) A) (n : List Nat) (a : A)
    (hv : utf8Valid n = true) (hnew : findRole s.roles n = none) (hroom : s.roles.length < 32)
    (hlen : n.length ≤ 32) (hnul : 0 ∉ n) :
    ∃ b s1, toBytes 32 n = .ok b ∧ fromBytes 32 b = .ok n ∧ enableNamed s n = .ok s1 ∧
      (lookup s1.members a = none → s1.members.length < 64 →
        ∃ s2, grant s1 a n = .ok s2 ∧ hasRole s2 a n = .ok true ∧
        ∃ s3, disableRole s2 n = .ok s3 ∧ hasRole s3 a n = .error .Preconditions ∧
        ∃ s4, enableNamed s3 n = .ok s4 ∧ hasRole s4 a n = .ok true) := by
  have hb := (toBytes_ok_iff 32 n _).2 ⟨hlen, hnul, rfl⟩
  refine ⟨_, ⟨s.roles ++ [⟨n, true, s.roles.length⟩], s.members⟩, hb, roundtrip hv hb, ?_, ?_⟩
  · unfold enableNamed
    rw [hnew]; simp only; rw [hb]; simp only
    unfold enableRole
    rw [hnew]; simp only
    rw [if_neg (by unfold MAX_ROLES; omega)]; rfl
  · intro hmem hcap
    simp only at hmem hcap
    have hf1 : findRole (s.roles ++ [⟨n, true, s.roles.length⟩]) n = some ⟨n, true, s.roles.length⟩ :=
      findRole_append_new _ hnew rfl
    refine ⟨⟨s.roles ++ [⟨n, true, s.roles.length⟩], s.members ++ [(a, [s.roles.length])]⟩, ?_, ?_, ?_⟩
    · unfold grant
      simp only [hf1, hmem]
      have hc : ¬ s.members.length ≥ MAX_MEMBERS := by unfold MAX_MEMBERS; omega
      simp [hc]
    · unfold hasRole
      simp only [lookup_append_new _ hmem, hf1]
      simp
    · have hf2 := findRole_setEnabled false hf1
      refine ⟨⟨setEnabled (s.roles ++ [⟨n, true, s.roles.length⟩]) n false, s.members ++ [(a, [s.roles.length])]⟩, ?_, ?_, ?_⟩
      · unfold disableRole; simp only [hf1]; simp
      · unfold hasRole; simp only [lookup_append_new _ hmem, hf2]; simp
      · have hf3 := findRole_setEnabled true hf2
        refine ⟨⟨setEnabled (setEnabled (s.roles ++ [⟨n, true, s.roles.length⟩]) n false) n true,
          s.members ++ [(a, [s.roles.length])]⟩, ?_, ?_⟩
        · unfold enableNamed; simp only [hf2]
          unfold enableRole; simp only [hf2]; simp [liftRole]
        · unfold hasRole; simp only [lookup_append_new _ hmem, hf3]; simp

/-- a name that cannot be read back never enters the role table: the gate fails before any
change (too long ⇒ `ExceedMaxLengthLimit`, NUL ⇒ `InvalidArgument`). -/
theorem role_rejected_unchanged {A : Type} [DecidableEq A] (s : St (List Nat) A) (n : List Nat)
    (hnew : findRole s.roles n = none) (hbad : n.length > 32 ∨ 0 ∈ n) :
    enableNamed s n = .error (.name .exceedMax) ∨ enableNamed s n = .error (.name .invalidArgument) := by
  unfold enableNamed
  rw [hnew]; simp only
  by_cases h : n.length > 32
  · rw [(toBytes_tooLong_iff 32 n).2 h]; exact Or.inl rfl
  · have h0 : 0 ∈ n := by rcases hbad with h' | h'; exact absurd h' h; exact h'
    rw [(toBytes_format_iff 32 n).2 ⟨by omega, h0⟩]; exact Or.inr rfl

end

/-- **An update rewrites the whole field**: after ANY history of name updates on one record (accepted and rejected ones, names of
any lengths in any order, starting from any stored bytes) the stored field is exactly the encoding of the LAST accepted name —
nothing of an earlier, longer name survives — or the original bytes if none was accepted. -/
theorem update_rewrites_whole_field (names : List (List Nat)) : ∀ stored : List Nat,
    RoleNames.tcRun stored names = (match RoleNames.lastOk names with | some b => b | none => stored) := by
  induction names with
  | nil => intro st; rfl
  | cons n ns ih =>
    intro st
    simp only [RoleNames.tcRun, RoleNames.lastOk, ih]
    cases h : RoleNames.lastOk ns with
    | some b => rfl
    | none =>
      simp only [RoleNames.tcStep]
      cases toBytes 32 n <;> rfl

/-- hence after any history the name read back is exactly the last accepted name. -/
theorem update_reads_back_last_accepted (stored : List Nat) (names : List (List Nat)) (n : List Nat)
    (hv : utf8Valid n = true) (hlen : n.length ≤ 32) (hnul : 0 ∉ n) :
    fromBytes 32 (RoleNames.tcRun stored (names ++ [n])) = .ok n := by
  have hb := (toBytes_ok_iff 32 n _).2 ⟨hlen, hnul, rfl⟩
  have hl : RoleNames.lastOk (names ++ [n]) = some (n ++ List.replicate (32 - n.length) 0) := by
    induction names with
    | nil => simp [RoleNames.lastOk, hb]
    | cons x xs ih => simp [RoleNames.lastOk, ih]
  rw [update_rewrites_whole_field, hl]
  exact roundtrip hv hb

-- a long name followed by an accepted shorter one: nothing of the longer name survives (seed C35-3 shape)
example : RoleNames.tcRun (List.replicate 32 0) [[0x41, 0x42, 0x43, 0x44, 0x45, 0x46], [0x78, 0x79]] = [0x78, 0x79] ++ List.replicate 30 0 ∧
    fromBytes 32 (RoleNames.tcRun (List.replicate 32 0) [[0x41, 0x42, 0x43, 0x44, 0x45, 0x46], [0x78, 0x79]]) = .ok [0x78, 0x79] := by decide
example : fromBytes 32 (RoleNames.tcRun (List.replicate 32 0) [[0x41, 0x42, 0x43], List.replicate 33 0x5a, [0x41, 0, 0x42]]) = .ok [0x41, 0x42, 0x43] := by decide

-- a role name that fills the 32-byte field exactly: enable → grant → has → disable all work
example : RoleNames.scenario (List.replicate 32 0x41) = ["ok", "PermissionDenied", "ok", "1", "ok",
    "PreconditionsAreNotMet", "ok", "1", "ok", "PermissionDenied"] := by decide
example : (RoleNames.scenario (List.replicate 33 0x41)).head? = some "ExceedMaxLengthLimit" := by decide
example : (RoleNames.scenario [0x41, 0, 0x42]).head? = some "InvalidArgument" := by decide

-- `role_usable_after_accept` / `role_rejected_unchanged` instantiated on the empty role table
example : ∃ b s1, toBytes 32 (List.replicate 32 0x41) = .ok b ∧ fromBytes 32 b = .ok (List.replicate 32 0x41) ∧
    RoleNames.enableNamed (Roles.St.empty : Roles.St (List Nat) Nat) (List.replicate 32 0x41) = .ok s1 := by
  obtain ⟨b, s1, h1, h2, h3, _⟩ := role_usable_after_accept (A := Nat) Roles.St.empty (List.replicate 32 0x41) 1
    (by decide) rfl (by decide) (by decide) (by decide)
  exact ⟨b, s1, h1, h2, h3⟩
example : RoleNames.enableNamed (Roles.St.empty : Roles.St (List Nat) Nat) (List.replicate 33 0x41) = .error (.name .exceedMax) ∨
    RoleNames.enableNamed (Roles.St.empty : Roles.St (List Nat) Nat) (List.replicate 33 0x41) = .error (.name .invalidArgument) :=
  role_rejected_unchanged Roles.St.empty (List.replicate 33 0x41) rfl (Or.inl (by decide))
-- `roundtrip`, `toBytes_length`, `fromBytes_spec`, `toBytes_injective` on a concrete multi-byte name
example : fromBytes 8 [0xc3, 0xa9, 0x41, 0, 0, 0, 0, 0] = .ok [0xc3, 0xa9, 0x41] :=
  roundtrip (n := [0xc3, 0xa9, 0x41]) (by decide) (by decide)
example : ([0xc3, 0xa9, 0x41] : List Nat) = [0xc3, 0xa9, 0x41, 0, 0, 0, 0, 0].take 3 ∧ (0 : Nat) ∉ [0xc3, 0xa9, 0x41] :=
  let h := fromBytes_spec (L := 8) (b := [0xc3, 0xa9, 0x41, 0, 0, 0, 0, 0]) (s := [0xc3, 0xa9, 0x41]) rfl (by decide)
  ⟨h.1, h.2.1⟩
example : RoleNames.wrappedRoundtrip 64 [0x42, 0x54, 0x43] = .ok [0x42, 0x54, 0x43] :=
  (wrapped_roundtrip 64 [0x42, 0x54, 0x43] (by decide)).1 (by decide)

end Gmx.C35
