import Gmx.Props.C04
import Gmx.Props.C03
/-!
# C05 — a swap never pays out more value than it takes in, beyond capped impact

Prices are taken as the code takes them: the input token at `.min`, the output token at `.max`
(`Prices::validate` does not require `min ≤ max`, so the statements are about these two fields).
`c.impactAmount` / `c.cappedIn` are the tokens a positive impact takes out of the output-token /
input-token swap-impact pools (C04 shows they are exactly the decreases of those pools).
-/
namespace Gmx.C05
open Gmx Gmx.Lem Gmx.C04

/-- `pool_amount_out = ⌊token_in · price_in.min / price_out.max⌋`: worth no more than the credited
input. -/
theorem poolOut_floor {W a p q r : Nat} (h : mulDiv W a p q = some r) : r * q ≤ a * p ∧ r = a * p / q ∧ q ≠ 0 := by
  obtain ⟨hq, rfl, _⟩ := (C01.mulDiv_spec W a p q r).1 h
  exact ⟨Nat.div_mul_le_self _ _, rfl, hq⟩

/-- **value bound**: output value at the max output price ≤ input value at the min input price
+ the tokens actually paid by the two swap-impact pools (output pool at the max output price,
input pool at the min input price), and those tokens are bounded by the pools' balances. -/
theorem swap_value_bound {W U : Nat} {m m' : Market} {q : SwapParams} {c : SwapCalc}
    (h : swap W U m q = .ok (m', c)) :
    c.tokenOut * q.outPrice.max ≤ q.amount * q.inPrice.min
        + (if c.impactValue > 0 then c.impactAmount * q.outPrice.max + c.cappedIn * q.inPrice.min else 0) ∧
    (c.impactValue > 0 → c.impactAmount ≤ m.swapImpact.amount (!q.isInLong) ∧
                          c.cappedIn ≤ m.swapImpact.amount q.isInLong) := by
  obtain ⟨_, _, hc, _, _⟩ := swap_ok h
  obtain ⟨hcons, _, hpos, hneg⟩ := swapCalc_spec hc
  by_cases hp : c.impactValue > 0
  · have p := hpos hp
    simp only [hp, if_true]
    refine ⟨?_, fun _ => ⟨p.impact_le_pool, p.capped_le_pool⟩⟩
    obtain ⟨hfl, _, _⟩ := poolOut_floor p.poolOut
    rw [p.tokenOut, Nat.add_mul]
    have h1 : c.tokenIn * q.inPrice.min ≤ q.amount * q.inPrice.min + c.cappedIn * q.inPrice.min := by
      rw [← Nat.add_mul]; apply Nat.mul_le_mul_right; rw [p.tokenIn]; omega
    omega
  · have n := hneg hp
    simp only [hp, if_false]
    refine ⟨?_, fun h' => h'.elim⟩
    obtain ⟨hfl, _, _⟩ := poolOut_floor n.poolOut
    rw [n.tokenOut]
    have h1 : c.tokenIn * q.inPrice.min ≤ q.amount * q.inPrice.min := by
      apply Nat.mul_le_mul_right; have := n.tokenIn; omega
    omega

/-- the impact pools never pay more than the positive impact VALUE (output pool at the max output
price, input pool at the max input price). -/
theorem swap_impact_funded {W U : Nat} {m m' : Market} {q : SwapParams} {c : SwapCalc}
    (h : swap W U m q = .ok (m', c)) (hp : c.impactValue > 0) :
    (c.impactAmount * q.outPrice.max + c.cappedIn * q.inPrice.max : Int) ≤ c.impactValue := by
  obtain ⟨_, _, hc, _, _⟩ := swap_ok h
  obtain ⟨_, _, hpos, _⟩ := swapCalc_spec hc
  exact (hpos hp).funded

/-- a non-positive impact gives no bonus: output value ≤ input value after fees, the impact pools
pay nothing, and the charge covers the impact value at the min input price. -/
theorem swap_negative_impact_no_bonus {W U : Nat} {m m' : Market} {q : SwapParams} {c : SwapCalc}
    (h : swap W U m q = .ok (m', c)) (hp : ¬ c.impactValue > 0) :
    c.tokenOut * q.outPrice.max ≤ (c.afterFees - c.impactAmount) * q.inPrice.min ∧
    c.afterFees ≤ q.amount ∧ c.cappedIn = 0 ∧
    (-c.impactValue : Int) ≤ c.impactAmount * q.inPrice.min ∧
    m'.swapImpact.amount (!q.isInLong) = m.swapImpact.amount (!q.isInLong) ∧
    m.swapImpact.amount q.isInLong ≤ m'.swapImpact.amount q.isInLong := by
  obtain ⟨_, _, hc, ha, _⟩ := swap_ok h
  obtain ⟨hcons, _, _, hneg⟩ := swapCalc_spec hc
  have n := hneg hp
  obtain ⟨hfl, _, _⟩ := poolOut_floor n.poolOut
  have f := (swapApply_spec ha).imp_neg hp
  have e : c.afterFees - c.impactAmount = c.tokenIn := by have := n.tokenIn; omega
  rw [e, n.tokenOut]
  exact ⟨hfl, by omega, n.cappedIn, n.charged, f.2, by omega⟩

/-- zero fee factors: nothing is deducted. -/
theorem applyFees_zero {W U : Nat} {p : FeeParams} {bc : BalanceChange} {a net : Nat} {f : Fees}
    (h : applyFees W U p bc a = some (net, f)) (hz : p.pos = 0 ∧ p.neg = 0) : net = a ∧ f.pool = 0 ∧ f.receiver = 0 := by
  obtain ⟨fee, hfee, hr, h1, h2, h3, h4⟩ := C02.applyFees_some h
  obtain ⟨hU, hf, _⟩ := C02.feeOf_spec hfee
  have hfac : p.factor bc = 0 := by cases bc <;> simp [FeeParams.factor, hz.1, hz.2]
  rw [hfac] at hf
  simp at hf
  omega

/-- **zero fees and zero impact**: the output is the input converted at the least favourable
prices (input at min, output at max), rounded down. -/
theorem swap_zero_fee_zero_impact {W U : Nat} {m m' : Market} {q : SwapParams} {c : SwapCalc}
    (h : swap W U m q = .ok (m', c)) (hfee : m.cfg.swapFee.pos = 0 ∧ m.cfg.swapFee.neg = 0)
    (himp : c.impactValue = 0) :
    c.tokenOut = q.amount * q.inPrice.min / q.outPrice.max ∧ q.outPrice.max ≠ 0 := by
  obtain ⟨_, _, hc, _, _⟩ := swap_ok h
  obtain ⟨_, ⟨bc, hf⟩, _, hneg⟩ := swapCalc_spec hc
  have n := hneg (by omega)
  obtain ⟨e1, _, _⟩ := applyFees_zero hf hfee
  have hz := n.zero himp
  obtain ⟨_, hfl, hne⟩ := poolOut_floor n.poolOut
  have e : c.tokenIn = q.amount := by have := n.tokenIn; omega
  rw [n.tokenOut, hfl, e]
  exact ⟨rfl, hne⟩

/-- in general the output never exceeds the converted input plus the impact-pool payment, in
tokens: `out ≤ ⌊(in + cappedIn)·pInMin/pOutMax⌋ + impactAmount`. -/
theorem swap_out_le {W U : Nat} {m m' : Market} {q : SwapParams} {c : SwapCalc}
    (h : swap W U m q = .ok (m', c)) :
    c.tokenOut ≤ (q.amount + c.cappedIn) * q.inPrice.min / q.outPrice.max
      + (if c.impactValue > 0 then c.impactAmount else 0) := by
  obtain ⟨_, _, hc, _, _⟩ := swap_ok h
  obtain ⟨hcons, _, hpos, hneg⟩ := swapCalc_spec hc
  by_cases hp : c.impactValue > 0
  · have p := hpos hp
    simp only [hp, if_true]
    obtain ⟨_, hfl, _⟩ := poolOut_floor p.poolOut
    rw [p.tokenOut, hfl]
    have : c.tokenIn * q.inPrice.min / q.outPrice.max ≤ (q.amount + c.cappedIn) * q.inPrice.min / q.outPrice.max := by
      apply Nat.div_le_div_right; apply Nat.mul_le_mul_right; rw [p.tokenIn]; omega
    omega
  · have n := hneg hp
    simp only [hp, if_false, Nat.add_zero]
    obtain ⟨_, hfl, _⟩ := poolOut_floor n.poolOut
    rw [n.tokenOut, hfl]
    apply Nat.div_le_div_right; apply Nat.mul_le_mul_right; have := n.tokenIn; omega

/-- **a swap does not dilute the liquidity providers**: what the liquidity pool receives on the
input side, valued at the MIN input price, is worth at least what it pays on the output side at the
MAX output price (the impact-pool payments are outside the liquidity pool). With unchanged supply
the value of one market token — at this swap's own, LP-unfavourable valuation — does not fall. -/
theorem swap_lp_no_loss {W U : Nat} {m m' : Market} {q : SwapParams} {c : SwapCalc}
    (h : swap W U m q = .ok (m', c)) :
    (m.primary.amount (!q.isInLong) - m'.primary.amount (!q.isInLong)) * q.outPrice.max
      ≤ (m'.primary.amount q.isInLong - m.primary.amount q.isInLong) * q.inPrice.min ∧
    m'.primary.amount (!q.isInLong) ≤ m.primary.amount (!q.isInLong) ∧
    m.primary.amount q.isInLong ≤ m'.primary.amount q.isInLong ∧ m'.supply = m.supply := by
  obtain ⟨_, _, hc, ha, _⟩ := swap_ok h
  obtain ⟨_, _, hpos, hneg⟩ := swapCalc_spec hc
  have f := swapApply_spec ha
  have hpo : mulDiv W c.tokenIn q.inPrice.min q.outPrice.max = some c.poolOut := by
    by_cases hp : c.impactValue > 0
    · exact (hpos hp).poolOut
    · exact (hneg hp).poolOut
  obtain ⟨hfl, _, _⟩ := poolOut_floor hpo
  have e1 : m.primary.amount (!q.isInLong) - m'.primary.amount (!q.isInLong) = c.poolOut := by
    have := f.liq_out; omega
  have e2 : m'.primary.amount q.isInLong - m.primary.amount q.isInLong = c.tokenIn + c.fees.pool := by
    have := f.liq_in; omega
  rw [e1, e2]
  refine ⟨Nat.le_trans hfl (Nat.mul_le_mul_right _ (Nat.le_add_right _ _)), by have := f.liq_out; omega,
    by have := f.liq_in; omega, by rw [f.frame]⟩

/-! ### zero impact from the CONFIGURATION -/

/-- with both impact factors zero every price impact is zero. -/
theorem priceImpact_zero_factors {W U : Nat} {p : ImpactParams} {d : PoolDelta} {x : Int} {bc : BalanceChange}
    (hz : p.pos = 0 ∧ p.neg = 0) (h : d.priceImpact W U p = some (x, bc)) : x = 0 := by
  have hadj : adjustedFactors p = (0, 0) := by
    unfold adjustedFactors; rw [hz.1, hz.2]; simp
  have f0 : ∀ v, fExact U p.exponent 0 v = 0 := by intro v; simp [fExact]
  unfold PoolDelta.priceImpact at h
  simp only at h
  split at h
  · cases h
  · rename_i v hv
    cases h
    split at hv
    · obtain ⟨a, b⟩ := C03.sameSide_spec hv
      rw [hadj] at a b
      simp only [f0] at a b
      by_cases hlt : d.nextDiff < d.initialDiff
      · exact (a hlt).1.trans (by simp)
      · exact (b (by omega)).1.trans (by simp)
    · obtain ⟨a, _⟩ := C03.crossOver_spec hv
      rw [hadj] at a
      simp only [f0] at a
      exact a.trans (by simp)

theorem swapImpactValue_zero_factors {W U : Nat} {p : ImpactParams} {vi : Option Pool} {d : PoolDelta}
    {dL dS : Int} {pL pS : Nat} {incl : Bool} {x : Int} {bc : BalanceChange}
    (hz : p.pos = 0 ∧ p.neg = 0) (h : swapImpactValue W U p vi d dL dS pL pS incl = some (x, bc)) : x = 0 := by
  obtain ⟨real, rbc, hr, _, heq, _⟩ := swapImpact_worse_of_two h
  have h0 := priceImpact_zero_factors hz hr
  have := heq (Or.inl (by omega))
  cases this
  exact h0

/-- **zero fees and zero impact FACTORS** (a statement about the configuration only): the output
is the input converted at the least favourable prices, rounded down. -/
theorem swap_zero_fee_zero_impact_config {W U : Nat} {m m' : Market} {q : SwapParams} {c : SwapCalc}
    (h : swap W U m q = .ok (m', c)) (hfee : m.cfg.swapFee.pos = 0 ∧ m.cfg.swapFee.neg = 0)
    (himp : m.cfg.swapImpact.pos = 0 ∧ m.cfg.swapImpact.neg = 0) :
    c.impactValue = 0 ∧ c.tokenOut = q.amount * q.inPrice.min / q.outPrice.max := by
  obtain ⟨_, _, hc, _, _⟩ := swap_ok h
  have hi : c.impactValue = 0 := by
    unfold swapCalc at hc
    split at hc
    · cases hc
    · rename_i impact bc himpact
      have hx : impact = 0 := by
        unfold swapImpact at himpact
        split at himpact
        · cases himpact
        · split at himpact
          · cases himpact
          · exact swapImpactValue_zero_factors himp himpact
      split at hc
      · cases hc
      · rename_i af fees hf
        subst hx
        simp only [Int.lt_irrefl, gt_iff_lt, if_false] at hc
        exact (swapCalcNegative_spec hc (by omega)).1
  exact ⟨hi, (swap_zero_fee_zero_impact h hfee hi).1⟩

/-! ### Non-vacuity (states of `C04`): spread prices, zero fees / zero impact -/

def cfgZ : MarketConfig := { cfg0 with swapImpact := ⟨2000000000, 0, 0⟩, swapFee := ⟨0, 0, 370000000, 0⟩ }
def mZ : Market := { cfg := cfgZ, primary := ⟨3000000000, 1000000000⟩, supply := 4000000000 }

/-- zero fees, zero impact, spread 119/121 on the long token and 1/2 on the short one:
`⌊1000 · 119 / 2⌋ = 59 500`. -/
example : obs (swap 64 1000000000 mZ ⟨true, 1000, ⟨⟨120, 120⟩, ⟨119, 121⟩, ⟨1, 2⟩⟩⟩)
    = [0, 0, 0, 59500, 0, 0, 3000001000, 999940500, 0, 0] := by decide +kernel
/-- the positive-impact swap of C04 satisfies the bound with both pools contributing:
`99 951 050 ≤ 100 000 000 + 1 000 + 50`. -/
example : obs (swap 64 1000000000 m0 ⟨false, 100000000, pr0⟩)
    = [3040, 1000, 50, 99951050, 0, 0, 2900049950, 1099981550, 0, 18500] := by decide +kernel

/-! ### Audit additions -/

/-- with a non-positive impact the charge is strictly below the amount after fees, so the truncated
subtraction `c.afterFees - c.impactAmount` in `swap_negative_impact_no_bonus` is a true difference
(it is the non-zero amount credited to the pool). -/
theorem swap_negative_charge_lt {W U : Nat} {m m' : Market} {q : SwapParams} {c : SwapCalc}
    (h : swap W U m q = .ok (m', c)) (hp : ¬ c.impactValue > 0) :
    c.impactAmount < c.afterFees ∧ c.tokenIn + c.impactAmount = c.afterFees ∧ c.tokenIn ≠ 0 := by
  obtain ⟨_, _, hc, _, _⟩ := swap_ok h
  obtain ⟨_, _, _, hneg⟩ := swapCalc_spec hc
  have n := hneg hp
  have h1 := n.tokenIn
  have h2 := n.tokenIn_pos
  exact ⟨by omega, h1, h2⟩

example : 3 * 2 ≤ 7 * 1 ∧ 3 = 7 * 1 / 2 ∧ 2 ≠ 0 := poolOut_floor (W := 64) (by decide : mulDiv 64 7 1 2 = some 3)
example : (1000 : Nat) = 1000 ∧ (0 : Nat) = 0 ∧ (0 : Nat) = 0 :=
  applyFees_zero (W := 64) (U := 10 ^ 9) (p := ⟨0, 0, 370000000, 0⟩) (bc := .worsened) (a := 1000) (f := ⟨0, 0⟩)
    (by decide) (by decide)
/-- NEGATIVE impact with fees and a real min<max spread (long 3/5, short 2/4): `swap_negative_impact_no_bonus`,
`swap_negative_charge_lt`; `74 917 419 · 4 ≤ 100 000 000 · 3`. -/
example : obs (swap 64 1000000000 m0 ⟨true, 100000000, ⟨⟨1, 1⟩, ⟨3, 5⟩, ⟨2, 4⟩⟩⟩)
    = [-120320, 40107, 0, 74917419, 41107, 50, 3099933993, 925082581, 25900, 0] := by decide +kernel
example : (match swap 64 1000000000 m0 ⟨true, 100000000, ⟨⟨1, 1⟩, ⟨3, 5⟩, ⟨2, 4⟩⟩⟩ with
    | .ok (_, c) => decide (¬ c.impactValue > 0 ∧ c.impactAmount < c.afterFees ∧ c.impactAmount ≠ 0)
    | .error _ => false) = true := by decide +kernel
/-- POSITIVE impact with the same spread, both impact pools paying: `swap_impact_funded`
(`1 000 · 5 + 50 · 4 ≤ 41 760`) and `swap_value_bound`. -/
example : obs (swap 64 1000000000 m0 ⟨false, 100000000, ⟨⟨1, 1⟩, ⟨3, 5⟩, ⟨2, 4⟩⟩⟩)
    = [41760, 1000, 50, 39981020, 0, 0, 2960019980, 1099981550, 0, 18500] := by decide +kernel

end Gmx.C05
