import Gmx.Lemmas.PerpBook
import Gmx.Lemmas.WholeFrame
import Gmx.Lemmas.Borrowing
/-!
# C07 — open interest and collateral totals always match the open positions

Statements are about the faithful position model `Gmx.Model.Perp` (`increase`, `decrease` with
`check_partial_close`, `check_close`, the collateral processor, `should_remove`,
`update_open_interest`), tied to the implementation by the stateful `perp` engine, and about
`PSys`, histories of these operations with the on-chain revert semantics (a failing operation
leaves the state unchanged).

`Inv`: for each side and collateral token the open-interest pool, the open-interest-in-tokens
pool and the collateral-sum pool equal the sums over the positions; every position has
`size_in_usd = 0 ↔ size_in_tokens = 0`.
-/
namespace Gmx.C07
open Gmx Gmx.Perp Gmx.Lem

/-- the invariant of C07. -/
def Inv (s : PSys) : Prop :=
  (∀ il cl, bk s.m il cl = (sumKey (·.sizeUsd) il cl s.ps, sumKey (·.sizeTokens) il cl s.ps, sumKey (·.collateral) il cl s.ps)) ∧
  (∀ p ∈ s.ps, (p.sizeUsd = 0 ↔ p.sizeTokens = 0))

theorem sumKey_append (f : Pos → Nat) (il cl : Bool) (a b : List Pos) :
    sumKey f il cl (a ++ b) = sumKey f il cl a + sumKey f il cl b := by
  induction a with
  | nil => simp [sumKey]
  | cons x xs ih => simp [sumKey, ih]; omega

/-- replacing position `i` by one of the same side/token changes the key's sum by the difference
and no other sum. -/
theorem sumKey_set (f : Pos → Nat) (il cl : Bool) : ∀ (ps : List Pos) (i : Nat) (p p' : Pos),
    ps[i]? = some p → p'.isLong = p.isLong → p'.collLong = p.collLong →
    sumKey f il cl (ps.set i p') + (if p.isLong = il ∧ p.collLong = cl then f p else 0)
      = sumKey f il cl ps + (if p.isLong = il ∧ p.collLong = cl then f p' else 0) := by
  intro ps
  induction ps with
  | nil => intro i p p' h; simp at h
  | cons x xs ih =>
    intro i p p' h h1 h2
    cases i with
    | zero =>
      simp at h; subst h
      simp only [List.set, sumKey, h1, h2]
      omega
    | succ j =>
      simp at h
      have := ih j p p' h h1 h2
      simp only [List.set, sumKey]
      omega

theorem mem_set {α : Type} (l : List α) (i : Nat) (a x : α) (h : x ∈ l.set i a) : x = a ∨ x ∈ l :=
  mem_set_cases l i a x h

theorem inv_init (m : Market) (h : ∀ il cl, bk m il cl = (0, 0, 0)) : Inv ⟨m, []⟩ :=
  ⟨fun il cl => by rw [h]; rfl, fun p hp => by cases hp⟩

/-- a market of all-empty pools satisfies the premise of `inv_init`. -/
theorem inv_init_empty (cfg : MarketConfig) : Inv ⟨{ cfg := cfg }, []⟩ :=
  inv_init _ (fun il cl => by cases il <;> cases cl <;> rfl)

/-- **a position reported as removed has zero size and zero collateral**, and a position left
open has non-zero size in USD and in tokens (the production regression: a decrease that would
zero the tokens is promoted to a full close or rejected, never left half-zeroed). -/
theorem removed_is_empty {W U : Nat} {m m' : Market} {c : PerpCfg} {pr : Prices} {p p' : Pos} {sd0 wd : Nat}
    {fl : DecreaseFlags} {r : DecreaseReport} (h : decrease W U m c pr p sd0 wd fl = .ok (m', p', r))
    (hp : p.sizeUsd = 0 → p.sizeTokens = 0) :
    (r.shouldRemove = true → p'.sizeUsd = 0 ∧ p'.sizeTokens = 0 ∧ p'.collateral = 0) ∧
    (r.shouldRemove = false → p'.sizeUsd ≠ 0 ∧ p'.sizeTokens ≠ 0) := by
  obtain ⟨_, _, _, _, _, _, hr, ho⟩ := decrease_book h hp
  exact ⟨hr, fun hh => ⟨(ho hh).2.2.1, (ho hh).2.2.2⟩⟩

/-- open interest is updated by the EXECUTED deltas: whatever was requested (capped, promoted to
a full close, collateral-only), the pools and the position move by the same reported amounts. -/
theorem oi_updated_by_executed_delta {W U : Nat} {m m' : Market} {c : PerpCfg} {pr : Prices} {p p' : Pos} {sd0 wd : Nat}
    {fl : DecreaseFlags} {r : DecreaseReport} (h : decrease W U m c pr p sd0 wd fl = .ok (m', p', r))
    (hp : p.sizeUsd = 0 ↔ p.sizeTokens = 0) :
    (bk m' p.isLong p.collLong).1 + r.sizeDelta = (bk m p.isLong p.collLong).1 ∧
    (bk m' p.isLong p.collLong).2.1 + r.sizeDeltaTokens = (bk m p.isLong p.collLong).2.1 ∧
    p'.sizeUsd + r.sizeDelta = p.sizeUsd ∧ p'.sizeTokens + r.sizeDeltaTokens = p.sizeTokens := by
  obtain ⟨⟨b1, b2, _, _⟩, _, _, _, q1, q2, hr, ho⟩ := decrease_book h hp.1
  refine ⟨b1, b2, ?_, ?_⟩
  all_goals
    (cases hrm : r.shouldRemove
     · obtain ⟨a, b, _, _⟩ := ho hrm; first | exact a | exact b
     · obtain ⟨a, b, _⟩ := hr hrm
       obtain ⟨f1, f2⟩ := decrease_removed_full h hrm
       omega)

/-- **the production regression**: a decrease whose token delta would consume all the tokens
while USD size remains is never executed as such — the executed delta is the whole position, or
both remaining sizes are strictly positive. -/
theorem partial_close_keeps_both_positive {W U : Nat} {m m' : Market} {c : PerpCfg} {pr : Prices} {p p' : Pos} {sd0 wd : Nat}
    {fl : DecreaseFlags} {r : DecreaseReport} (h : decrease W U m c pr p sd0 wd fl = .ok (m', p', r)) :
    (r.sizeDelta = p.sizeUsd ∧ r.sizeDeltaTokens = p.sizeTokens ∧ r.shouldRemove = true) ∨
    (r.sizeDelta < p.sizeUsd ∧ r.sizeDeltaTokens < p.sizeTokens ∧ r.shouldRemove = false) := by
  obtain ⟨s, fees0, ins, rem, out0, out1, _, hset, hpnl, _, _⟩ := decrease_parts h
  obtain ⟨q1, q2, _, _, hiff, _, _⟩ := settleDecrease_pos hset
  cases hrm : r.shouldRemove
  · right
    have : ¬ (p.sizeUsd - r.sizeDelta = 0 ∨ p.sizeTokens - r.sizeDeltaTokens = 0) := by
      intro hh; have := hiff.2 hh; rw [hrm] at this; cases this
    exact ⟨by omega, by omega, rfl⟩
  · left
    obtain ⟨f1, f2⟩ := decrease_removed_full h hrm
    exact ⟨f1, f2, rfl⟩

/-- bookkeeping of `increase` (with `initialize_position_if_empty`). -/
theorem increase_book {W U : Nat} {m m' : Market} {c : PerpCfg} {pr : Prices} {p p' : Pos} {ci sd : Nat}
    {r : IncreaseReport} (h : increase W U m c pr p ci sd = .ok (m', p', r)) (hp : p.sizeUsd = 0 ↔ p.sizeTokens = 0) :
    ((bk m' p.isLong p.collLong).1 = (bk m p.isLong p.collLong).1 + sd ∧
     (bk m' p.isLong p.collLong).2.1 = (bk m p.isLong p.collLong).2.1 + r.sizeDeltaTokens ∧
     ((bk m' p.isLong p.collLong).2.2 : Int) = (bk m p.isLong p.collLong).2.2 + r.collateralDelta) ∧
    (∀ il cl, ¬ (il = p.isLong ∧ cl = p.collLong) → bk m' il cl = bk m il cl) ∧
    p'.isLong = p.isLong ∧ p'.collLong = p.collLong ∧
    p'.sizeUsd = p.sizeUsd + sd ∧ p'.sizeTokens = p.sizeTokens + r.sizeDeltaTokens ∧
    (p'.collateral : Int) = p.collateral + r.collateralDelta ∧ p'.sizeUsd ≠ 0 ∧ p'.sizeTokens ≠ 0 := by
  have hv := (increase_validated h).1
  obtain ⟨v1, v2, _, _⟩ := validatePos_ok hv
  unfold increase at h
  split at h
  · cases h
  · obtain ⟨a, b, c1, c2, c3, c4, c5⟩ := increaseCore_book h
    have e1 : (initIfEmpty p m).isLong = p.isLong := by unfold initIfEmpty; split <;> rfl
    have e2 : (initIfEmpty p m).collLong = p.collLong := by unfold initIfEmpty; split <;> rfl
    have e3 : (initIfEmpty p m).sizeUsd = p.sizeUsd := by unfold initIfEmpty; split <;> rfl
    have e4 : (initIfEmpty p m).collateral = p.collateral := by unfold initIfEmpty; split <;> rfl
    have e5 : (initIfEmpty p m).sizeTokens = p.sizeTokens := by
      unfold initIfEmpty; split
      · rename_i h0; simp [Pos.syncFunding]; exact (hp.1 h0).symm
      · rfl
    rw [e1, e2] at a b
    rw [e1] at c1; rw [e2] at c2; rw [e3] at c3; rw [e5] at c4; rw [e4] at c5
    exact ⟨a, b, c1, c2, c3, c4, c5, v1, v2⟩

/-- **one operation preserves the invariant** — successful or failing, any flags. -/
theorem inv_step (W U : Nat) (c : PerpCfg) (s : PSys) (o : POp) (hinv : Inv s) : Inv (s.step W U c o) := by
  obtain ⟨hsum, hok⟩ := hinv
  cases o with
  | openPos il cl =>
    refine ⟨fun a b => ?_, fun p hp => ?_⟩
    · simp only [PSys.step, sumKey_append, sumKey]
      rw [hsum a b]
      split <;> simp
    · simp only [PSys.step, List.mem_append, List.mem_singleton] at hp
      rcases hp with hp | hp
      · exact hok p hp
      · subst hp; simp
  | market m' =>
    simp only [PSys.step]
    split
    · rename_i hb
      refine ⟨fun a b => ?_, hok⟩
      have : bk m' a b = bk s.m a b := by
        unfold sameBookB at hb
        simp only [Bool.and_eq_true, beq_iff_eq] at hb
        obtain ⟨⟨⟨⟨⟨h1, h2⟩, h3⟩, h4⟩, h5⟩, h6⟩ := hb
        exact (SameBook.bk ⟨h1, h2, h3, h4, h5, h6⟩ a b).symm
      simp only [this]; exact hsum a b
    · exact ⟨hsum, hok⟩
  | inc i coll size pr =>
    simp only [PSys.step]
    split
    · exact ⟨hsum, hok⟩
    · rename_i p hget
      split
      · rename_i m' p' r hinc
        have hmem : p ∈ s.ps := List.mem_of_getElem? hget
        obtain ⟨⟨b1, b2, b3⟩, b4, k1, k2, z1, z2, z3, n1, n2⟩ := increase_book hinc (hok p hmem)
        refine ⟨fun a b => ?_, fun q hq => ?_⟩
        · have s1 := sumKey_set (·.sizeUsd) a b s.ps i p p' hget k1 k2
          have s2 := sumKey_set (·.sizeTokens) a b s.ps i p p' hget k1 k2
          have s3 := sumKey_set (·.collateral) a b s.ps i p p' hget k1 k2
          by_cases hk : a = p.isLong ∧ b = p.collLong
          · obtain ⟨rfl, rfl⟩ := hk
            simp only [and_self, if_true] at s1 s2 s3
            have e := hsum p.isLong p.collLong
            simp only [Prod.ext_iff] at e ⊢
            obtain ⟨e1, e2, e3⟩ := e
            refine ⟨by omega, by omega, by omega⟩
          · have hk' : ¬ (p.isLong = a ∧ p.collLong = b) := fun hh => hk ⟨hh.1.symm, hh.2.symm⟩
            simp only [hk', if_false, Nat.add_zero] at s1 s2 s3
            simp only [b4 a b hk, hsum a b, s1, s2, s3]
        · rcases mem_set _ _ _ _ hq with hq | hq
          · subst hq; constructor <;> intro hh <;> omega
          · exact hok q hq
      · exact ⟨hsum, hok⟩
  | dec i size wd fl pr =>
    simp only [PSys.step]
    split
    · exact ⟨hsum, hok⟩
    · rename_i p hget
      split
      · rename_i m' p' r hdec
        have hmem : p ∈ s.ps := List.mem_of_getElem? hget
        have hp := hok p hmem
        obtain ⟨⟨b1, b2, b3, b4⟩, b5, k1, k2, _, _, hr, ho⟩ := decrease_book hdec hp.1
        obtain ⟨_, _, z1, z2⟩ := oi_updated_by_executed_delta hdec hp
        refine ⟨fun a b => ?_, fun q hq => ?_⟩
        · have s1 := sumKey_set (·.sizeUsd) a b s.ps i p p' hget k1 k2
          have s2 := sumKey_set (·.sizeTokens) a b s.ps i p p' hget k1 k2
          have s3 := sumKey_set (·.collateral) a b s.ps i p p' hget k1 k2
          by_cases hk : a = p.isLong ∧ b = p.collLong
          · obtain ⟨rfl, rfl⟩ := hk
            simp only [and_self, if_true] at s1 s2 s3
            have e := hsum p.isLong p.collLong
            simp only [Prod.ext_iff] at e ⊢
            obtain ⟨e1, e2, e3⟩ := e
            refine ⟨by omega, by omega, by omega⟩
          · have hk' : ¬ (p.isLong = a ∧ p.collLong = b) := fun hh => hk ⟨hh.1.symm, hh.2.symm⟩
            simp only [hk', if_false, Nat.add_zero] at s1 s2 s3
            simp only [b5 a b hk, hsum a b, s1, s2, s3]
        · rcases mem_set _ _ _ _ hq with hq | hq
          · subst hq
            cases hrm : r.shouldRemove
            · obtain ⟨_, _, n1, n2⟩ := ho hrm
              constructor <;> intro hh <;> omega
            · obtain ⟨n1, n2, _⟩ := hr hrm
              constructor <;> intro _ <;> assumption
          · exact hok q hq
      · exact ⟨hsum, hok⟩

/-- **after any sequence** of position openings, increases, partial / full / capped / insolvent
decreases, liquidations, collateral-only withdrawals, failed attempts and other market
operations, each side's open interest in USD and in tokens and the collateral totals equal the
sums over the positions. -/
theorem inv_reachable (W U : Nat) (c : PerpCfg) (ops : List POp) : ∀ s : PSys, Inv s → Inv (s.run W U c ops) := by
  induction ops with
  | nil => intro s h; exact h
  | cons o os ih => intro s h; exact ih _ (inv_step W U c s o h)

/-- the fee-state updates are "other market operations": they keep the six pools. -/
theorem fee_updates_keep_book {W U : Nat} {m m' : Market} {rc : RateCfg} {pr : Prices} :
    (marketUpdateFunding W U m rc pr = .ok m' → sameBookB m m' = true) ∧
    (marketUpdateBorrowing W U m rc pr = .ok m' → sameBookB m m' = true) := by
  constructor
  · intro h
    unfold marketUpdateFunding at h
    repeat' (split at h)
    all_goals first | (cases h; done) | (cases h; simp [sameBookB])
  · intro h
    unfold marketUpdateBorrowing at h
    repeat' (split at h)
    all_goals first | (cases h; done) | (cases h; simp [sameBookB])

/-- **a close of the whole size realises the whole pnl** — whatever was requested: the executed
size delta is the one rewritten by `check_partial_close` / the cap flag (`decrease_adjusted`,
`partial_close_keeps_both_positive`); when it equals the position's size (requested in full,
PROMOTED from a partial request, or CAPPED from a larger request) the decrease realises the
position's total trader-capped pnl, reports the total uncapped pnl and closes all of
`size_in_tokens` (C11 for decreases; the pnl is computed for the size actually closed, not for
the requested one). -/
theorem promoted_close_realises_whole_pnl {W U : Nat} {m m' : Market} {c : PerpCfg} {pr : Prices} {p p' : Pos} {sd0 wd : Nat}
    {fl : DecreaseFlags} {r : DecreaseReport} (h : decrease W U m c pr p sd0 wd fl = .ok (m', p', r))
    (hfull : r.sizeDelta = p.sizeUsd) :
    ∃ uncapped total : Int,
      uncappedTotalPnl W p.isLong p.sizeUsd p.sizeTokens pr.index.min pr.index.max = some uncapped ∧
      cappedTotalPnl W U p.isLong (pnlView m pr p.isLong) pr.index.min pr.index.max uncapped = some total ∧
      r.pnl = total ∧ r.uncappedPnl = uncapped ∧ r.sizeDeltaTokens = p.sizeTokens := by
  obtain ⟨_, _, _, _, _, _, _, _, hpnl, _, _⟩ := decrease_parts h
  have hs := (C11.size_delta_tokens_spec (posPnl_sdt hpnl)).1 hfull.symm
  unfold posPnl at hpnl
  have h' := orF_ok hpnl
  obtain ⟨un, tot, hu, hc, _, _, hall⟩ := C11.partial_close_proportional h'
  obtain ⟨e1, e2⟩ := hall hfull
  exact ⟨un, tot, hu, hc, e1, e2, hs⟩

/-- every removal is such a close: a removed position was closed in full and realised its whole pnl. -/
theorem removal_realises_whole_pnl {W U : Nat} {m m' : Market} {c : PerpCfg} {pr : Prices} {p p' : Pos} {sd0 wd : Nat}
    {fl : DecreaseFlags} {r : DecreaseReport} (h : decrease W U m c pr p sd0 wd fl = .ok (m', p', r))
    (hr : r.shouldRemove = true) :
    r.sizeDelta = p.sizeUsd ∧ r.sizeDeltaTokens = p.sizeTokens ∧
    ∃ uncapped total : Int,
      uncappedTotalPnl W p.isLong p.sizeUsd p.sizeTokens pr.index.min pr.index.max = some uncapped ∧
      cappedTotalPnl W U p.isLong (pnlView m pr p.isLong) pr.index.min pr.index.max uncapped = some total ∧
      r.pnl = total ∧ r.uncappedPnl = uncapped := by
  obtain ⟨a, b⟩ := decrease_removed_full h hr
  obtain ⟨un, tot, hu, hc, e1, e2, _⟩ := promoted_close_realises_whole_pnl h a
  exact ⟨a, b, un, tot, hu, hc, e1, e2⟩

/-! ### headline over whole-market histories (`PSys.wstep`, `Gmx.Model.Whole`)

`inv_step` treats "any other market operation" as a replacement of the market guarded by
`sameBookB` — for that case the guard IS the property (audit). The statements below have no such
guard: the step function runs the REAL deposit, withdrawal, swap, clock, funding update, borrowing
update and impact distribution next to the position operations, and the frame of each of them is
proved (`Lemmas/WholeFrame.lean`, from mkt-liq's `deposit_spec` / `withdraw_spec` /
`swapApply_spec`). The conjunction with C13 (`MarketInv`) and the token ledger over the same step
function are `C08.step_preserves_MarketInv` / `C08.whole_ledger`. -/

/-- **every operation of a whole-market history keeps the C07 invariant**: deposit, withdrawal,
swap, new position, increase, decrease / liquidation, clock, funding update, borrowing update,
impact distribution — successful or failing. -/
theorem whole_inv_step (W U : Nat) (c : PerpCfg) (rc : RateCfg) (s : PSys) (o : WOp) (hinv : Inv s) :
    Inv (s.wstep W U c rc o) := by
  have mkt : Inv (match wMarketOp W U rc s.m o with | some m' => { s with m := m' } | none => s) := by
    split
    · rename_i m' hm
      have hb := wMarketOp_sameBook hm
      refine ⟨fun a b => ?_, hinv.2⟩
      have := (SameBook.bk hb a b).symm
      simp only [this]; exact hinv.1 a b
    · exact hinv
  cases o with
  | openPos il cl => exact inv_step W U c s (.openPos il cl) hinv
  | inc i coll size pr => exact inv_step W U c s (.inc i coll size pr) hinv
  | dec i size wd fl pr => exact inv_step W U c s (.dec i size wd fl pr) hinv
  | deposit l sh pr => exact mkt
  | withdraw a pr => exact mkt
  | swap il a pr => exact mkt
  | tick n => exact mkt
  | updFunding pr => exact mkt
  | updBorrowing pr => exact mkt
  | distribute => exact mkt

/-- **C07 over every whole-market history**: after any mixed sequence of liquidity, position,
clock and fee-state operations each side's open interest in USD and in tokens and the collateral
totals equal the sums over the positions. -/
theorem whole_inv_reachable (W U : Nat) (c : PerpCfg) (rc : RateCfg) (ops : List WOp) :
    ∀ s : PSys, Inv s → Inv (s.wrun W U c rc ops) := by
  induction ops with
  | nil => intro s h; exact h
  | cons o os ih => intro s h; exact ih _ (whole_inv_step W U c rc s o h)

/-! ### Non-vacuity -/
example : ((PSys.mk wMarket [wPos]).step 64 (10 ^ 9) wPerp (.dec 0 (10 * 10 ^ 9) 1799000000 {} wPrices)).ps.map (·.collateral)
    = [901000000] := by rfl
example : Inv ⟨wMarket, [wPos]⟩ :=
  ⟨fun il cl => by cases il <;> cases cl <;> rfl, fun p hp => by simp at hp; subst hp; simp [wPos]⟩

/-! #### audit additions: witnesses for the remaining hypotheses -/
/-- `sumKey_set`: replacing the only position of key (long, short-token collateral) by a smaller one. -/
example : sumKey (·.sizeUsd) true false ([wPos].set 0 { wPos with sizeUsd := 7 }) + 20 * 10 ^ 9
    = sumKey (·.sizeUsd) true false [wPos] + 7 := by
  simpa [wPos] using sumKey_set (·.sizeUsd) true false [wPos] 0 wPos { wPos with sizeUsd := 7 } rfl rfl rfl
/-- `removed_is_empty` (second branch), `oi_updated_by_executed_delta`, `partial_close_keeps_both_positive`
(right disjunct): a successful PARTIAL decrease of `wPos` (whose sizes are both non-zero, so `hp` holds):
`(removed, executed delta, delta tokens, remaining size, tokens, collateral, book of the key after)`. -/
example : (match decrease 64 (10 ^ 9) wMarket wPerp wPrices wPos (10 * 10 ^ 9) 1799000000 {} with
  | .ok (m', p', r) => some (r.shouldRemove, [r.sizeDelta, r.sizeDeltaTokens, p'.sizeUsd, p'.sizeTokens, p'.collateral], bk m' true false)
  | .error _ => none)
  = some (false, [10000000000, 100000000, 10000000000, 100000000, 901000000], 10000000000, 100000000, 901000000) := by
  decide +kernel
/-- `removed_is_empty` (first branch), `removal_realises_whole_pnl`, `promoted_close_realises_whole_pnl`
(`hfull`): a full close at a PROFIT (index 110, entered at 100): removed, everything zeroed, the whole
pnl 2·10⁹ realised and reported uncapped. -/
example : (match decrease 64 (10 ^ 9) wMarket wPerp ⟨⟨110, 110⟩, ⟨110, 110⟩, ⟨1, 1⟩⟩ wPos (20 * 10 ^ 9) 0 {} with
  | .ok (m', p', r) => some (r.shouldRemove, [r.sizeDelta, r.sizeDeltaTokens, p'.sizeUsd, p'.sizeTokens, p'.collateral], [r.pnl, r.uncappedPnl],
      bk m' true false)
  | .error _ => none) = some (true, [20000000000, 200000000, 0, 0, 0], [2000000000, 2000000000], 0, 0, 0) := by decide +kernel
/-- the PROMOTED close: requesting one unit less than the whole size (which would leave 1 unit of USD
size and zero tokens) is executed as the full close; and the CAPPED close: requesting 50 USD with the cap
flag closes the 20 USD. Both satisfy `hfull` of `promoted_close_realises_whole_pnl` with `sd0 ≠ p.sizeUsd`. -/
example : (match decrease 64 (10 ^ 9) wMarket wPerp wPrices wPos (20 * 10 ^ 9 - 1) 0 {} with
  | .ok (_, p', r) => some (r.shouldRemove, r.sizeDelta, r.sizeDeltaTokens, p'.sizeUsd, p'.sizeTokens)
  | .error _ => none) = some (true, 20000000000, 200000000, 0, 0) := by decide +kernel
example : (match decrease 64 (10 ^ 9) wMarket wPerp wPrices wPos (50 * 10 ^ 9) 0 ⟨false, false, true⟩ with
  | .ok (_, p', r) => some (r.shouldRemove, r.sizeDelta, r.sizeDeltaTokens, p'.sizeUsd, p'.sizeTokens)
  | .error _ => none) = some (true, 20000000000, 200000000, 0, 0) := by decide +kernel
/-- `increase_book`: a successful increase of `wPos` by 5 USD with 1·10⁹ collateral (fee 5·10⁷):
`(collateral delta, [delta tokens, new size, tokens, collateral], book of the key after)`. -/
example : (match increase 64 (10 ^ 9) wMarket wPerp wPrices wPos (10 ^ 9) (5 * 10 ^ 9) with
  | .ok (m', p', r) => some (r.collateralDelta, [r.sizeDeltaTokens, p'.sizeUsd, p'.sizeTokens, p'.collateral], bk m' true false)
  | .error _ => none) = some (950000000, [50000000, 25000000000, 250000000, 3750000000], 25000000000, 250000000, 3750000000) := by
  decide +kernel
/-- `inv_step` / `inv_reachable` on a concrete non-empty history from the EMPTY market: two positions
opened and increased, a partial and a full decrease, a decrease of a non-existing position and a failing
increase (both leave the state unchanged): the final positions and the two keys' books. -/
example : (fun s : PSys => (s.ps.map (fun p => (p.sizeUsd, p.sizeTokens, p.collateral)), bk s.m true false, bk s.m false true))
    ((PSys.mk { cfg := wCfg, primary := ⟨10 ^ 12, 10 ^ 14⟩ } []).run 64 (10 ^ 9) wPerp
      [.openPos true false, .inc 0 (3 * 10 ^ 9) (20 * 10 ^ 9) wPrices, .openPos false true,
       .inc 1 (10 ^ 8) (10 * 10 ^ 9) wPrices, .dec 0 (10 * 10 ^ 9) 0 {} wPrices, .dec 1 (10 * 10 ^ 9) 0 {} wPrices,
       .dec 5 1 1 {} wPrices, .inc 0 0 (10 ^ 30) wPrices])
    = ([(10000000000, 100000000, 2700000000), (0, 0, 0)], (10000000000, 100000000, 2700000000), (0, 0, 0)) := by
  decide +kernel
/-- the invariant on that reachable state, by the theorem itself. -/
example : Inv ((PSys.mk { cfg := wCfg, primary := ⟨10 ^ 12, 10 ^ 14⟩ } []).run 64 (10 ^ 9) wPerp
      [.openPos true false, .inc 0 (3 * 10 ^ 9) (20 * 10 ^ 9) wPrices, .openPos false true,
       .inc 1 (10 ^ 8) (10 * 10 ^ 9) wPrices, .dec 0 (10 * 10 ^ 9) 0 {} wPrices, .dec 1 (10 * 10 ^ 9) 0 {} wPrices]) :=
  inv_reachable _ _ _ _ _ (inv_init _ (fun il cl => by cases il <;> cases cl <;> rfl))
/-- `fee_updates_keep_book`: both updates succeed on `wMarket` one day after their clocks (and move the
clock, so `m' ≠ m`); the book is kept. -/
example : (match marketUpdateFunding 64 (10 ^ 9) ({ wMarket with clockFunding := some 0 }.tick 86400)
      ⟨⟨10 ^ 9, 20, 0, 0, 10, 0, 0, 0⟩, ⟨true, 10 ^ 9, true⟩, ⟨10 ^ 9, 0, 0, 0, 0, 10 ^ 18⟩, ⟨10 ^ 9, 0, 0, 0, 0, 10 ^ 18⟩⟩ wPrices with
    | .ok m' => some (sameBookB wMarket m', m'.clockFunding) | _ => none) = some (true, some 86400) := by decide +kernel
example : (match marketUpdateBorrowing 64 (10 ^ 9) ({ wMarket with clockBorrowing := some 0 }.tick 86400)
      ⟨⟨10 ^ 9, 20, 0, 0, 10, 0, 0, 0⟩, ⟨true, 10 ^ 9, true⟩, ⟨10 ^ 9, 0, 0, 0, 0, 10 ^ 18⟩, ⟨10 ^ 9, 0, 0, 0, 0, 10 ^ 18⟩⟩ wPrices with
    | .ok m' => some (sameBookB wMarket m', m'.clockBorrowing) | _ => none) = some (true, some 86400) := by decide +kernel

end Gmx.C07
