import Gmx.Lemmas.Position
/-!
# C11 — position profit and loss moves with the price in the right direction

Statements are about `Gmx.Perp.pnlValue` (transcription of `PositionExt::pnl_value` with
`pick_price_for_pnl`, `BaseMarketExt::pnl`, `MarketUtils::cap_pnl`), tied to the implementation
by the `pos` correspondence engine.

* the uncapped pnl of a close is monotone in the index price (up for longs, down for shorts);
* the credited pnl never exceeds the uncapped pnl and is monotone whenever the trader cap binds
  at neither price; with a binding cap it is NOT monotone
  (`capped_pnl_not_monotone_witness`, known finding F-C11);
* a partial close realises `trunc(δ_tokens · total / T)` with `δ_tokens` the ceiling (long) /
  floor (short) of `T·δ/S`.
-/
namespace Gmx.C11
open Gmx Gmx.Perp Gmx.Lem

/-- the price used for the pnl of a close: min for a long, max for a short (against the trader). -/
theorem pick_price_against_trader (mn mx : Nat) :
    pickPriceForPnl mn mx true false = mn ∧ pickPriceForPnl mn mx false false = mx := by
  constructor <;> rfl

/-- structure of a successful `pnl_value`: both results are truncated shares of the capped /
uncapped totals for the same token share. -/
theorem pnlValue_spec {W U : Nat} {isLong : Bool} {v : PnlView} {s t mn mx delta sdt : Nat} {pnl upnl : Int}
    (h : pnlValue W U isLong v s t mn mx delta = some (pnl, upnl, sdt)) :
    ∃ uncapped total : Int,
      uncappedTotalPnl W isLong s t mn mx = some uncapped ∧
      cappedTotalPnl W U isLong v mn mx uncapped = some total ∧
      sizeDeltaInTokens W isLong s t delta = some sdt ∧
      pnl = Int.tdiv ((sdt : Int) * total) (t : Int) ∧
      upnl = Int.tdiv ((sdt : Int) * uncapped) (t : Int) ∧ t ≠ 0 := by
  unfold pnlValue at h
  split at h
  · cases h
  · rename_i un hun
    split at h
    · cases h
    · rename_i tot htot
      split at h
      · cases h
      · rename_i sd hsd
        split at h
        · rename_i a b ha hb
          cases h
          obtain ⟨e1, hd⟩ := mulDivSigned_eq_tdiv ha
          obtain ⟨e2, _⟩ := mulDivSigned_eq_tdiv hb
          exact ⟨un, tot, hun, htot, hsd, e1, e2, hd⟩
        · cases h

/-- **uncapped pnl is monotone for a long**: same position, same closed size, index min price
`mn₁ ≤ mn₂` ⇒ the uncapped realised pnl does not decrease. -/
theorem uncapped_pnl_mono_long {W U : Nat} {v₁ v₂ : PnlView} {s t mn₁ mx₁ mn₂ mx₂ delta sdt₁ sdt₂ : Nat}
    {p₁ u₁ p₂ u₂ : Int} (hp : mn₁ ≤ mn₂)
    (h₁ : pnlValue W U true v₁ s t mn₁ mx₁ delta = some (p₁, u₁, sdt₁))
    (h₂ : pnlValue W U true v₂ s t mn₂ mx₂ delta = some (p₂, u₂, sdt₂)) : u₁ ≤ u₂ := by
  obtain ⟨un₁, _, a₁, _, c₁, _, e₁, _⟩ := pnlValue_spec h₁
  obtain ⟨un₂, _, a₂, _, c₂, _, e₂, _⟩ := pnlValue_spec h₂
  have := uncappedTotalPnl_eq a₁
  have := uncappedTotalPnl_eq a₂
  simp only [if_true, (pick_price_against_trader _ _).1] at *
  have hs : sdt₁ = sdt₂ := by rw [c₁] at c₂; cases c₂; rfl
  subst hs; subst e₁; subst e₂
  apply tdiv_mono
  apply Int.mul_le_mul_of_nonneg_left _ (by omega)
  have : t * mn₁ ≤ t * mn₂ := Nat.mul_le_mul_left t hp
  omega

/-- **uncapped pnl is monotone for a short** (decreasing in the index max price). -/
theorem uncapped_pnl_mono_short {W U : Nat} {v₁ v₂ : PnlView} {s t mn₁ mx₁ mn₂ mx₂ delta sdt₁ sdt₂ : Nat}
    {p₁ u₁ p₂ u₂ : Int} (hp : mx₁ ≤ mx₂)
    (h₁ : pnlValue W U false v₁ s t mn₁ mx₁ delta = some (p₁, u₁, sdt₁))
    (h₂ : pnlValue W U false v₂ s t mn₂ mx₂ delta = some (p₂, u₂, sdt₂)) : u₂ ≤ u₁ := by
  obtain ⟨un₁, _, a₁, _, c₁, _, e₁, _⟩ := pnlValue_spec h₁
  obtain ⟨un₂, _, a₂, _, c₂, _, e₂, _⟩ := pnlValue_spec h₂
  have := uncappedTotalPnl_eq a₁
  have := uncappedTotalPnl_eq a₂
  simp only [Bool.false_eq_true, if_false, (pick_price_against_trader _ _).2] at *
  have hs : sdt₁ = sdt₂ := by rw [c₁] at c₂; cases c₂; rfl
  subst hs; subst e₁; subst e₂
  apply tdiv_mono
  apply Int.mul_le_mul_of_nonneg_left _ (by omega)
  have : t * mx₁ ≤ t * mx₂ := Nat.mul_le_mul_left t hp
  omega

/-- **the credited pnl never exceeds the uncapped pnl**; a loss is never changed by the cap and
a profit never becomes a loss. -/
theorem credited_le_uncapped {W U : Nat} {isLong : Bool} {v : PnlView} {s t mn mx delta sdt : Nat} {pnl upnl : Int}
    (h : pnlValue W U isLong v s t mn mx delta = some (pnl, upnl, sdt)) :
    pnl ≤ upnl ∧ (upnl ≤ 0 → pnl = upnl ∨ pnl = 0) ∧ (0 ≤ upnl → 0 ≤ pnl) := by
  obtain ⟨un, tot, _, hc, _, e₁, e₂, ht⟩ := pnlValue_spec h
  obtain ⟨c1, _, c3⟩ := cappedTotalPnl_cases hc
  subst e₁; subst e₂
  by_cases hpos : 0 < un
  · obtain ⟨t0, t1⟩ := c3 hpos
    refine ⟨tdiv_mono _ _ _ (Int.mul_le_mul_of_nonneg_left t1 (by omega)), ?_, ?_⟩
    · intro hle
      right
      have h0 : Int.tdiv ((sdt : Int) * 0) (t : Int) ≤ Int.tdiv ((sdt : Int) * tot) (t : Int) :=
        tdiv_mono _ _ _ (Int.mul_le_mul_of_nonneg_left t0 (by omega))
      have h1 := tdiv_mono t _ _ (Int.mul_le_mul_of_nonneg_left t1 (show (0:Int) ≤ (sdt : Int) by omega))
      simp at h0
      omega
    · intro _
      have h0 : Int.tdiv ((sdt : Int) * 0) (t : Int) ≤ Int.tdiv ((sdt : Int) * tot) (t : Int) :=
        tdiv_mono _ _ _ (Int.mul_le_mul_of_nonneg_left t0 (by omega))
      simpa using h0
  · have := c1 (by omega); subst this
    refine ⟨Int.le_refl _, fun _ => Or.inl rfl, fun h => h⟩

/-- AUDIT (sharper middle clause of `credited_le_uncapped`): a strict loss is credited unchanged
(the `pnl = 0` alternative there only arises from a positive total truncated to `0`). -/
theorem loss_unchanged_by_cap {W U : Nat} {isLong : Bool} {v : PnlView} {s t mn mx delta sdt : Nat} {pnl upnl : Int}
    (h : pnlValue W U isLong v s t mn mx delta = some (pnl, upnl, sdt)) (hl : upnl < 0) : pnl = upnl := by
  obtain ⟨_, b, _⟩ := credited_le_uncapped h
  rcases b (by omega) with e | e
  · exact e
  · omega

/-- when the trader cap does not bind the credited pnl IS the uncapped pnl. -/
theorem pnl_eq_uncapped_of_cap_free {W U : Nat} {isLong : Bool} {v : PnlView} {s t mn mx delta sdt : Nat}
    {pnl upnl : Int} (h : pnlValue W U isLong v s t mn mx delta = some (pnl, upnl, sdt))
    (hfree : capBinds W U isLong v mn mx = false) : pnl = upnl := by
  obtain ⟨un, tot, _, hc, _, e₁, e₂, _⟩ := pnlValue_spec h
  have := (cappedTotalPnl_cases hc).2.1 hfree
  subst this; subst e₁; subst e₂; rfl

/-- **realised pnl is monotone when the cap binds at neither price** (long: non-decreasing in
the index price). The unrestricted clause is FALSE, see `capped_pnl_not_monotone_witness`. -/
theorem pnl_mono_uncapped_long {W U : Nat} {v₁ v₂ : PnlView} {s t mn₁ mx₁ mn₂ mx₂ delta sdt₁ sdt₂ : Nat}
    {p₁ u₁ p₂ u₂ : Int} (hp : mn₁ ≤ mn₂)
    (h₁ : pnlValue W U true v₁ s t mn₁ mx₁ delta = some (p₁, u₁, sdt₁))
    (h₂ : pnlValue W U true v₂ s t mn₂ mx₂ delta = some (p₂, u₂, sdt₂))
    (f₁ : capBinds W U true v₁ mn₁ mx₁ = false) (f₂ : capBinds W U true v₂ mn₂ mx₂ = false) : p₁ ≤ p₂ := by
  rw [pnl_eq_uncapped_of_cap_free h₁ f₁, pnl_eq_uncapped_of_cap_free h₂ f₂]
  exact uncapped_pnl_mono_long hp h₁ h₂

/-- short: non-increasing in the index price when the cap binds at neither price. -/
theorem pnl_mono_uncapped_short {W U : Nat} {v₁ v₂ : PnlView} {s t mn₁ mx₁ mn₂ mx₂ delta sdt₁ sdt₂ : Nat}
    {p₁ u₁ p₂ u₂ : Int} (hp : mx₁ ≤ mx₂)
    (h₁ : pnlValue W U false v₁ s t mn₁ mx₁ delta = some (p₁, u₁, sdt₁))
    (h₂ : pnlValue W U false v₂ s t mn₂ mx₂ delta = some (p₂, u₂, sdt₂))
    (f₁ : capBinds W U false v₁ mn₁ mx₁ = false) (f₂ : capBinds W U false v₂ mn₂ mx₂ = false) : p₂ ≤ p₁ := by
  rw [pnl_eq_uncapped_of_cap_free h₁ f₁, pnl_eq_uncapped_of_cap_free h₂ f₂]
  exact uncapped_pnl_mono_short hp h₁ h₂

/-- AUDIT (stronger form of `pnl_mono_uncapped_long`): for a long it suffices that the cap does
not bind at the HIGHER price; at the lower price the credited pnl is at most the uncapped one
anyway (`credited_le_uncapped`). So the only way to lose monotonicity is a cap binding at the
higher price, as in `capped_pnl_not_monotone_witness`. -/
theorem pnl_mono_long_of_cap_free_at_high {W U : Nat} {v₁ v₂ : PnlView} {s t mn₁ mx₁ mn₂ mx₂ delta sdt₁ sdt₂ : Nat}
    {p₁ u₁ p₂ u₂ : Int} (hp : mn₁ ≤ mn₂)
    (h₁ : pnlValue W U true v₁ s t mn₁ mx₁ delta = some (p₁, u₁, sdt₁))
    (h₂ : pnlValue W U true v₂ s t mn₂ mx₂ delta = some (p₂, u₂, sdt₂))
    (f₂ : capBinds W U true v₂ mn₂ mx₂ = false) : p₁ ≤ p₂ := by
  rw [pnl_eq_uncapped_of_cap_free h₂ f₂]
  exact Int.le_trans (credited_le_uncapped h₁).1 (uncapped_pnl_mono_long hp h₁ h₂)

/-- AUDIT (stronger form of `pnl_mono_uncapped_short`): for a short it suffices that the cap does
not bind at the LOWER price. -/
theorem pnl_mono_short_of_cap_free_at_low {W U : Nat} {v₁ v₂ : PnlView} {s t mn₁ mx₁ mn₂ mx₂ delta sdt₁ sdt₂ : Nat}
    {p₁ u₁ p₂ u₂ : Int} (hp : mx₁ ≤ mx₂)
    (h₁ : pnlValue W U false v₁ s t mn₁ mx₁ delta = some (p₁, u₁, sdt₁))
    (h₂ : pnlValue W U false v₂ s t mn₂ mx₂ delta = some (p₂, u₂, sdt₂))
    (f₁ : capBinds W U false v₁ mn₁ mx₁ = false) : p₂ ≤ p₁ := by
  rw [pnl_eq_uncapped_of_cap_free h₁ f₁]
  exact Int.le_trans (credited_le_uncapped h₂).1 (uncapped_pnl_mono_short hp h₁ h₂)

/-- **negation of the literal clause** "the realised pnl of a close never decreases as the index
price rises for a long": side open interest 10000 USD / 100 tokens, position 500 USD / 10
tokens, pool value 2000, trader cap 50 %: full close at price 110 realises 600, at price 120
only 350, because the cap binds at 120 and scales the profit by `cap / pool pnl`. Replayed on
the implementation (known finding F-C11). -/
theorem capped_pnl_not_monotone_witness :
    pnlValue 64 (10 ^ 9) true ⟨10000, 100, 2000, 1, 5 * 10 ^ 8⟩ 500 10 110 110 500 = some (600, 600, 10) ∧
    pnlValue 64 (10 ^ 9) true ⟨10000, 100, 2000, 1, 5 * 10 ^ 8⟩ 500 10 120 120 500 = some (350, 700, 10) ∧
    capBinds 64 (10 ^ 9) true ⟨10000, 100, 2000, 1, 5 * 10 ^ 8⟩ 120 120 = true := by decide

/-- AUDIT: the same failure for a SHORT (index price falls 90 → 80, the realised pnl of a full
close falls 320 → 170 because the cap binds at 80): side open interest 10000 USD / 100 tokens,
position 500 USD / 2 tokens, pool value 2000, trader cap 50 %. (Model-level witness only.) -/
theorem capped_pnl_not_monotone_short_witness :
    pnlValue 64 (10 ^ 9) false ⟨10000, 100, 2000, 1, 5 * 10 ^ 8⟩ 500 2 90 90 500 = some (320, 320, 2) ∧
    pnlValue 64 (10 ^ 9) false ⟨10000, 100, 2000, 1, 5 * 10 ^ 8⟩ 500 2 80 80 500 = some (170, 340, 2) ∧
    capBinds 64 (10 ^ 9) false ⟨10000, 100, 2000, 1, 5 * 10 ^ 8⟩ 80 80 = true := by decide

/-- the closed token share: everything on a full close, otherwise the ceiling (long) / floor
(short) of `T·δ/S` — against the trader in both cases. -/
theorem size_delta_tokens_spec {W : Nat} {isLong : Bool} {s t delta sdt : Nat}
    (h : sizeDeltaInTokens W isLong s t delta = some sdt) :
    (s = delta → sdt = t) ∧
    (s ≠ delta → s ≠ 0 ∧ (isLong = true → sdt = ceilDiv (t * delta) s) ∧ (isLong = false → sdt = t * delta / s)) ∧
    (s ≠ 0 → t * delta / s ≤ sdt ∧ (s ≠ delta → sdt ≤ t * delta / s + 1)) := by
  unfold sizeDeltaInTokens at h
  by_cases he : s = delta
  · simp only [he, if_true] at h; cases h
    refine ⟨fun _ => rfl, fun hn => absurd he hn, fun hs => ⟨?_, fun hn => absurd he hn⟩⟩
    subst he
    rw [Nat.mul_div_cancel _ (Nat.pos_of_ne_zero hs)]; exact Nat.le_refl _
  · simp only [he, if_false] at h
    cases isLong
    · simp only [Bool.false_eq_true, if_false] at h
      obtain ⟨hs, rfl, _⟩ := (C01.mulDiv_spec _ _ _ _ _).1 h
      exact ⟨fun hh => absurd hh he, fun _ => ⟨hs, fun hh => (by cases hh), fun _ => rfl⟩, fun _ => ⟨Nat.le_refl _, fun _ => (by omega)⟩⟩
    · simp only [if_true] at h
      obtain ⟨hs, rfl, _⟩ := (C01.mulDivCeil_spec _ _ _ _ _).1 h
      have hc := C01.ceil_char (t * delta) s hs
      have hf := C01.floor_char (t * delta) s hs
      refine ⟨fun hh => absurd hh he, fun _ => ⟨hs, fun _ => rfl, fun hh => (by cases hh)⟩, fun _ => ⟨?_, fun _ => ?_⟩⟩
      · -- floor ≤ ceil
        have : t * delta / s * s ≤ ceilDiv (t * delta) s * s := by omega
        exact Nat.le_of_mul_le_mul_right this (Nat.pos_of_ne_zero hs)
      · have : ceilDiv (t * delta) s * s < (t * delta / s + 1 + 1) * s := by
          rw [Nat.add_mul (t * delta / s + 1) 1 s]; omega
        have := Nat.lt_of_mul_lt_mul_right this
        omega

/-- **a partial close realises the proportional share of the pnl, up to rounding**: with `total`
the pnl of the whole position (capped as above) the realised pnl is `trunc(δ_tokens·total/T)`,
i.e. `|pnl·T − δ_tokens·total| < T`, and a full close realises exactly `total`. -/
theorem partial_close_proportional {W U : Nat} {isLong : Bool} {v : PnlView} {s t mn mx delta sdt : Nat} {pnl upnl : Int}
    (h : pnlValue W U isLong v s t mn mx delta = some (pnl, upnl, sdt)) :
    ∃ uncapped total : Int,
      uncappedTotalPnl W isLong s t mn mx = some uncapped ∧
      cappedTotalPnl W U isLong v mn mx uncapped = some total ∧
      (pnl * t - (sdt : Int) * total).natAbs < t ∧ (upnl * t - (sdt : Int) * uncapped).natAbs < t ∧
      (delta = s → pnl = total ∧ upnl = uncapped) := by
  obtain ⟨un, tot, hu, hc, hsd, e₁, e₂, ht⟩ := pnlValue_spec h
  refine ⟨un, tot, hu, hc, ?_, ?_, ?_⟩
  · subst e₁; exact tdiv_mul_sub_lt t ht _
  · subst e₂; exact tdiv_mul_sub_lt t ht _
  · intro hd
    have := (size_delta_tokens_spec hsd).1 hd.symm
    subst this; subst e₁; subst e₂
    have ht' : (sdt : Int) ≠ 0 := by omega
    exact ⟨Int.mul_tdiv_cancel_left _ ht', Int.mul_tdiv_cancel_left _ ht'⟩

/-! ### Non-vacuity -/
example : pnlValue 64 (10 ^ 9) false ⟨10 ^ 13, 10 ^ 11, 10 ^ 14, 1, 5 * 10 ^ 8⟩ (5 * 10 ^ 12) (4 * 10 ^ 10) 110 111 (10 ^ 12)
    = some (112000000000, 112000000000, 8000000000) := by decide
example : capBinds 64 (10 ^ 9) false ⟨10 ^ 13, 10 ^ 11, 10 ^ 14, 1, 5 * 10 ^ 8⟩ 110 111 = false := by decide
example : sizeDeltaInTokens 64 true 3 10 1 = some 4 ∧ sizeDeltaInTokens 64 false 3 10 1 = some 3 := by decide

/-! #### audit additions: joint satisfiability of the hypotheses of every theorem above -/
/-- cap-free LONG, partial close (200 of 500 USD) at two prices 110 < 120: all hypotheses of
`uncapped_pnl_mono_long` / `pnl_mono_uncapped_long`, and the conclusion is a strict increase. -/
example : pnlValue 64 (10 ^ 9) true ⟨10000, 100, 20000, 1, 5 * 10 ^ 8⟩ 500 10 110 111 200 = some (240, 240, 4) ∧
    pnlValue 64 (10 ^ 9) true ⟨10000, 100, 20000, 1, 5 * 10 ^ 8⟩ 500 10 120 121 200 = some (280, 280, 4) ∧
    capBinds 64 (10 ^ 9) true ⟨10000, 100, 20000, 1, 5 * 10 ^ 8⟩ 110 111 = false ∧
    capBinds 64 (10 ^ 9) true ⟨10000, 100, 20000, 1, 5 * 10 ^ 8⟩ 120 121 = false := by decide
example : (240 : Int) ≤ 280 :=
  pnl_mono_uncapped_long (W := 64) (U := 10 ^ 9) (v₁ := ⟨10000, 100, 20000, 1, 5 * 10 ^ 8⟩)
    (v₂ := ⟨10000, 100, 20000, 1, 5 * 10 ^ 8⟩) (s := 500) (t := 10) (mn₁ := 110) (mx₁ := 111) (mn₂ := 120) (mx₂ := 121)
    (delta := 200) (sdt₁ := 4) (sdt₂ := 4) (u₁ := 240) (u₂ := 280) (by decide) (by decide) (by decide) (by decide) (by decide)
example : (240 : Int) ≤ 280 :=
  uncapped_pnl_mono_long (W := 64) (U := 10 ^ 9) (v₁ := ⟨10000, 100, 20000, 1, 5 * 10 ^ 8⟩)
    (v₂ := ⟨10000, 100, 20000, 1, 5 * 10 ^ 8⟩) (s := 500) (t := 10) (mn₁ := 110) (mx₁ := 111) (mn₂ := 120) (mx₂ := 121)
    (delta := 200) (sdt₁ := 4) (sdt₂ := 4) (p₁ := 240) (p₂ := 280) (by decide) (by decide) (by decide)
/-- cap-free SHORT at two prices 41 < 47 (profit 36 → 12): `uncapped_pnl_mono_short` /
`pnl_mono_uncapped_short`. -/
example : pnlValue 64 (10 ^ 9) false ⟨10000, 100, 20000, 1, 5 * 10 ^ 8⟩ 500 10 40 41 200 = some (36, 36, 4) ∧
    pnlValue 64 (10 ^ 9) false ⟨10000, 100, 20000, 1, 5 * 10 ^ 8⟩ 500 10 45 47 200 = some (12, 12, 4) ∧
    capBinds 64 (10 ^ 9) false ⟨10000, 100, 20000, 1, 5 * 10 ^ 8⟩ 40 41 = false ∧
    capBinds 64 (10 ^ 9) false ⟨10000, 100, 20000, 1, 5 * 10 ^ 8⟩ 45 47 = false := by decide
example : (12 : Int) ≤ 36 :=
  pnl_mono_uncapped_short (W := 64) (U := 10 ^ 9) (v₁ := ⟨10000, 100, 20000, 1, 5 * 10 ^ 8⟩)
    (v₂ := ⟨10000, 100, 20000, 1, 5 * 10 ^ 8⟩) (s := 500) (t := 10) (mn₁ := 40) (mx₁ := 41) (mn₂ := 45) (mx₂ := 47)
    (delta := 200) (sdt₁ := 4) (sdt₂ := 4) (u₁ := 36) (u₂ := 12) (by decide) (by decide) (by decide) (by decide) (by decide)
example : (12 : Int) ≤ 36 :=
  uncapped_pnl_mono_short (W := 64) (U := 10 ^ 9) (v₁ := ⟨10000, 100, 20000, 1, 5 * 10 ^ 8⟩)
    (v₂ := ⟨10000, 100, 20000, 1, 5 * 10 ^ 8⟩) (s := 500) (t := 10) (mn₁ := 40) (mx₁ := 41) (mn₂ := 45) (mx₂ := 47)
    (delta := 200) (sdt₁ := 4) (sdt₂ := 4) (p₁ := 36) (p₂ := 12) (by decide) (by decide) (by decide)
/-- `pnl_mono_long_of_cap_free_at_high` where the cap DOES bind at the lower price (small pool in
`v₁`: credited 108 < uncapped 240) and not at the higher one. -/
example : capBinds 64 (10 ^ 9) true ⟨10000, 100, 1000, 1, 5 * 10 ^ 8⟩ 110 111 = true := by decide
example : (108 : Int) ≤ 280 :=
  pnl_mono_long_of_cap_free_at_high (W := 64) (U := 10 ^ 9) (v₁ := ⟨10000, 100, 1000, 1, 5 * 10 ^ 8⟩)
    (v₂ := ⟨10000, 100, 20000, 1, 5 * 10 ^ 8⟩) (s := 500) (t := 10) (mn₁ := 110) (mx₁ := 111) (mn₂ := 120) (mx₂ := 121)
    (delta := 200) (sdt₁ := 4) (sdt₂ := 4) (u₁ := 240) (u₂ := 280) (by decide) (by decide) (by decide) (by decide)
/-- `pnl_mono_short_of_cap_free_at_low` where the cap binds at the higher price only (smaller pool in `v₂`: credited 8 < uncapped 12). -/
example : pnlValue 64 (10 ^ 9) false ⟨10000, 100, 8000, 1, 5 * 10 ^ 8⟩ 500 10 45 47 200 = some (8, 12, 4) ∧
    capBinds 64 (10 ^ 9) false ⟨10000, 100, 8000, 1, 5 * 10 ^ 8⟩ 45 47 = true := by decide
example : (8 : Int) ≤ 36 :=
  pnl_mono_short_of_cap_free_at_low (W := 64) (U := 10 ^ 9) (v₁ := ⟨10000, 100, 20000, 1, 5 * 10 ^ 8⟩)
    (v₂ := ⟨10000, 100, 8000, 1, 5 * 10 ^ 8⟩) (s := 500) (t := 10) (mn₁ := 40) (mx₁ := 41) (mn₂ := 45) (mx₂ := 47)
    (delta := 200) (sdt₁ := 4) (sdt₂ := 4) (u₁ := 36) (u₂ := 12) (by decide) (by decide) (by decide) (by decide)
/-- a LOSS (long below entry): `credited_le_uncapped` second clause / `loss_unchanged_by_cap`. -/
example : pnlValue 64 (10 ^ 9) true ⟨10000, 100, 20000, 1, 5 * 10 ^ 8⟩ 500 10 40 41 200 = some (-40, -40, 4) := by decide
example : (-40 : Int) = -40 :=
  loss_unchanged_by_cap (W := 64) (U := 10 ^ 9) (isLong := true) (v := ⟨10000, 100, 20000, 1, 5 * 10 ^ 8⟩)
    (s := 500) (t := 10) (mn := 40) (mx := 41) (delta := 200) (sdt := 4) (by decide) (by decide)
/-- `credited_le_uncapped` with a BINDING cap (credited 350 < uncapped 700, both non-negative). -/
example : (350 : Int) ≤ 700 ∧ ((700 : Int) ≤ 0 → (350 : Int) = 700 ∨ (350 : Int) = 0) ∧ ((0 : Int) ≤ 700 → (0 : Int) ≤ 350) :=
  credited_le_uncapped capped_pnl_not_monotone_witness.2.1
/-- `pnl_eq_uncapped_of_cap_free` instantiated (cap-free long). -/
example : (240 : Int) = 240 :=
  pnl_eq_uncapped_of_cap_free (W := 64) (U := 10 ^ 9) (isLong := true) (v := ⟨10000, 100, 20000, 1, 5 * 10 ^ 8⟩)
    (s := 500) (t := 10) (mn := 110) (mx := 111) (delta := 200) (sdt := 4) (by decide) (by decide)
/-- `partial_close_proportional` last clause (`delta = s`, full close) is met by the first
conjunct of `capped_pnl_not_monotone_witness` (delta = s = 500); its partial case by the
examples above (delta 200 of 500). `size_delta_tokens_spec`: full close and both roundings. -/
example : sizeDeltaInTokens 64 true 500 10 500 = some 10 ∧ sizeDeltaInTokens 64 true 500 10 200 = some 4 ∧
    sizeDeltaInTokens 64 false 3 10 2 = some 6 ∧ sizeDeltaInTokens 64 true 3 10 2 = some 7 := by decide
/-- error branches: zero token size (division by zero) and zero USD size with a non-zero delta. -/
example : pnlValue 64 (10 ^ 9) true ⟨10000, 100, 20000, 1, 5 * 10 ^ 8⟩ 0 0 110 111 0 = none ∧
    sizeDeltaInTokens 64 true 0 10 1 = none := by decide

end Gmx.C11
