import Gmx.Model.Dec
import Gmx.Lemmas.Dec
/-!
# C43 — SDK amount / value ↔ Decimal conversions round-trip

Model: `Gmx.Model.Dec` (transcription of `crates/sdk/src/utils/fixed.rs` over a model of
`rust_decimal::Decimal` = 96-bit magnitude, sign, scale).

The literal property is FALSE of the code for integers above `2^96 − 1` and for more than 28
decimals (known finding F-C43, asserted by the repository's own unit tests): the `…_partial`
theorems carry exactly the guards `n ≤ 2^96 − 1`, `decimals ≤ 28`; `truncation_witness` and
friends prove the negation of the unguarded clauses on concrete inputs.
-/
namespace Gmx.C43
open Gmx.Dec

/-- `try_from_i128_with_scale` succeeds exactly on 96-bit magnitudes with scale ≤ 28, and is exact. -/
theorem tryFromI128_spec (num : Int) (scale : Nat) (d : Dec) :
    tryFromI128 num scale = some d ↔
      scale ≤ 28 ∧ num.natAbs ≤ 2 ^ 96 - 1 ∧ d = ⟨num, scale⟩ := by
  unfold tryFromI128 MAX_SCALE MAX_REPR
  by_cases h1 : scale > 28
  · simp [h1]; omega
  · by_cases h2 : num > ((2 ^ 96 - 1 : Nat) : Int)
    · simp [h1, h2]; omega
    · by_cases h3 : num < -((2 ^ 96 - 1 : Nat) : Int)
      · simp [h1, h2, h3]; omega
      · simp only [h1, h2, h3, if_false, Option.some.injEq]
        constructor
        · intro h; exact ⟨by omega, by omega, h.symm⟩
        · intro h; exact h.2.2.symm

/-- supported operands convert exactly: the Decimal is `n · 10^-decimals` on the nose. -/
theorem to_decimal_exact_partial (n decimals : Nat) (hn : n ≤ 2 ^ 96 - 1) (hd : decimals ≤ 28) :
    unsignedFixedToDecimal n decimals = .ok ⟨n, decimals⟩ := by
  have h : tryFromI128 (n : Int) decimals = some ⟨n, decimals⟩ :=
    (tryFromI128_spec _ _ _).2 ⟨hd, by omega, rfl⟩
  unfold unsignedFixedToDecimal MAX_REPR
  simp [show ¬ n > 2 ^ 96 - 1 by omega, h]

/-- with a 96-bit integer, more than 28 decimals is REPORTED (`None`), not truncated. -/
theorem to_decimal_rejects_unsupported_decimals (n decimals : Nat) (hn : n ≤ 2 ^ 96 - 1)
    (hd : 28 < decimals) : unsignedFixedToDecimal n decimals = .none := by
  have h : tryFromI128 (n : Int) decimals = none := by
    unfold tryFromI128 MAX_SCALE; simp [hd]
  unfold unsignedFixedToDecimal MAX_REPR
  simp [show ¬ n > 2 ^ 96 - 1 by omega, h]

/-- `rescale_to_mantissa` on a Decimal that already has the requested scale returns its mantissa. -/
theorem rescaleToMantissa_same_scale (m : Int) (s : Nat) :
    rescaleToMantissa ⟨m, s⟩ s = .ok m := by
  unfold rescaleToMantissa rescale
  rw [if_pos rfl, compensate_same_scale]

/-- Round trip, unsigned values: `decimal_to_value (unsigned_fixed_to_decimal n d) d = n`
for every `n ≤ 2^96 − 1` and `d ≤ 28`. -/
theorem roundtrip_value_partial (n decimals : Nat) (hn : n ≤ 2 ^ 96 - 1) (hd : decimals ≤ 28) :
    rtUnsignedValue n decimals = .ok n := by
  have hp : (2 : Nat) ^ 96 ≤ 2 ^ 128 := by decide
  unfold rtUnsignedValue decimalToValue
  rw [to_decimal_exact_partial n decimals hn hd]
  simp only [rescaleToMantissa_same_scale]
  rw [toUnsigned_natCast 128 n (by omega)]
  rfl

/-- Round trip, signed values (`i128`) with `|z| ≤ 2^96 − 1`, `d ≤ 28`. -/
theorem roundtrip_signed_value_partial (z : Int) (decimals : Nat) (hz : z.natAbs ≤ 2 ^ 96 - 1)
    (hd : decimals ≤ 28) : rtSignedValue z decimals = .ok z := by
  unfold rtSignedValue signedFixedToDecimal decimalToSignedValue
  rw [to_decimal_exact_partial z.natAbs decimals hz hd]
  by_cases h : z < 0
  · have e : -((z.natAbs : Nat) : Int) = z := by omega
    simp [Res.map, h, neg, e, rescaleToMantissa_same_scale, RT.ofI]
  · have e : ((z.natAbs : Nat) : Int) = z := by omega
    simp [Res.map, h, e, rescaleToMantissa_same_scale, RT.ofI]

/-- Round trip, `u64` amounts with `decimals ≤ 28`:
`decimal_to_amount (unsigned_amount_to_decimal n d) d = n` for ALL `n < 2^64`. -/
theorem roundtrip_u64_partial (n decimals : Nat) (hn : n < 2 ^ 64) (hd : decimals ≤ 28) :
    rtAmount n decimals = .ok n := by
  have hp : (2 : Nat) ^ 64 ≤ 2 ^ 96 - 1 := by decide
  unfold rtAmount unsignedAmountToDecimal decimalToAmount
  simp only [show ¬ decimals > 28 by omega, if_false]
  rw [to_decimal_exact_partial n decimals (by omega) hd]
  simp only [Res.expect, rescaleToMantissa_same_scale]
  rw [toUnsigned_natCast 64 n hn]
  rfl

/-- Round trip, `i64` amounts with `decimals ≤ 28`. -/
theorem roundtrip_i64_partial (z : Int) (decimals : Nat) (hz : z.natAbs ≤ 2 ^ 63)
    (hd : decimals ≤ 28) : rtSignedAmount z decimals = .ok z := by
  have hp : (2 : Nat) ^ 63 ≤ 2 ^ 96 - 1 := by decide
  unfold rtSignedAmount signedAmountToDecimal unsignedAmountToDecimal decimalToSignedValue
  simp only [show ¬ decimals > 28 by omega, if_false]
  rw [to_decimal_exact_partial z.natAbs decimals (by omega) hd]
  by_cases h : z < 0
  · have e : -((z.natAbs : Nat) : Int) = z := by omega
    simp [Res.expect, Res.map, h, neg, e, rescaleToMantissa_same_scale, RT.ofI]
  · have e : ((z.natAbs : Nat) : Int) = z := by omega
    simp [Res.expect, Res.map, h, e, rescaleToMantissa_same_scale, RT.ofI]

/-- Decimal → integer never scales silently when the value is representable: for a well-formed
Decimal whose scale does not exceed `decimals`, a successful `rescale_to_mantissa` returns
exactly `mant · 10^(decimals − scale)` — including when `rescale` stopped short and the
compensation multiplied the rest (the case fixed in 0.10.0). -/
theorem from_decimal_exact (d : Dec) (decimals : Nat) (r : Int) (hm : d.mant.natAbs < 2 ^ 96)
    (hw : d.scale ≤ 28) (hs : d.scale ≤ decimals) (h : rescaleToMantissa d decimals = .ok r) :
    r = d.mant * ((10 ^ (decimals - d.scale) : Nat) : Int) := by
  obtain ⟨a, b, c⟩ := rescale_up_exact d decimals hm hw hs
  unfold rescaleToMantissa compensate at h
  generalize rescale d decimals = v at *
  by_cases h1 : v.scale < decimals
  · rw [if_pos h1] at h
    split at h
    · cases h
      rw [c, Int.mul_assoc, ← Int.natCast_mul, ← Nat.pow_add,
        show v.scale - d.scale + (decimals - v.scale) = decimals - d.scale by omega]
    · cases h
  · have h2 : v.scale = decimals := by omega
    rw [if_neg h1, if_pos h2] at h
    cases h
    rw [c, h2]

/-- …and every error of `rescale_to_mantissa` on such an input is a genuine overflow of the
`i128` compensation (never the "invalid scale" branch): the exact result does not fit `i128`,
or the remaining power of ten alone does not. -/
theorem from_decimal_error_is_overflow (d : Dec) (decimals : Nat) (e : Err)
    (hm : d.mant.natAbs < 2 ^ 96) (hw : d.scale ≤ 28) (hs : d.scale ≤ decimals)
    (h : rescaleToMantissa d decimals = .error e) :
    e = .tooBig ∧ ¬ (fitsI128 (d.mant * ((10 ^ (decimals - d.scale) : Nat) : Int)) = true ∧
      fitsI128 ((10 ^ (decimals - (rescale d decimals).scale) : Nat) : Int) = true) := by
  obtain ⟨a, b, c⟩ := rescale_up_exact d decimals hm hw hs
  unfold rescaleToMantissa compensate at h
  generalize rescale d decimals = v at *
  by_cases h1 : v.scale < decimals
  · rw [if_pos h1] at h
    split at h
    · cases h
    · rename_i hf
      cases h
      refine ⟨rfl, ?_⟩
      intro ⟨g1, g2⟩
      apply hf
      have e : d.mant * ((10 ^ (decimals - d.scale) : Nat) : Int) =
          v.mant * ((10 ^ (decimals - v.scale) : Nat) : Int) := by
        rw [c, Int.mul_assoc, ← Int.natCast_mul, ← Nat.pow_add,
          show v.scale - d.scale + (decimals - v.scale) = decimals - d.scale by omega]
      rw [e] at g1
      rw [g1, g2]; rfl
  · have h2 : v.scale = decimals := by omega
    rw [if_neg h1, if_pos h2] at h
    cases h

/-- Decimal → integer with MORE fractional digits than requested, when the excess digits are all
zero (the value IS representable): the result is exact, no rounding takes place. -/
theorem from_decimal_down_exact_partial (d : Dec) (decimals : Nat) (hs : decimals < d.scale)
    (h0 : d.mant ≠ 0) (hdiv : 10 ^ (d.scale - decimals) ∣ d.mant.natAbs) :
    rescaleToMantissa d decimals =
      .ok (withSign (decide (d.mant < 0)) (d.mant.natAbs / 10 ^ (d.scale - decimals))) := by
  unfold rescaleToMantissa rescale
  rw [if_neg (by omega), if_neg h0]
  simp only []
  rw [if_pos (by omega), downLoop_div _ _ 0 (by omega) hdiv]
  simp only [show ¬ (d.scale - decimals = 0) by omega, if_false,
    show ¬ ((0 : Nat) ≥ 5) by omega]
  exact compensate_same_scale _ _

/-- F-C43-round: a Decimal with NON-ZERO excess fractional digits is not representable with the
requested decimals, yet `decimal_to_*` silently rounds it half away from zero instead of reporting
an error: 1.5 → 2, 1.49 → 1, −2.5 → −3 at zero decimals. Hence "every successful conversion
denotes the same value" is false. -/
theorem excess_digits_rounded_witness :
    RT.ofN (decimalToAmount ⟨15, 1⟩ 0) = .ok 2 ∧ RT.ofN (decimalToAmount ⟨149, 2⟩ 0) = .ok 1 ∧
    RT.ofI (decimalToSignedValue ⟨-25, 1⟩ 0) = .ok (-3) ∧
    ¬ (∀ (d : Dec) (decimals : Nat) (r : Int), d.mant.natAbs < 2 ^ 96 → d.scale ≤ 28 →
        RT.ofI (rescaleToMantissa d decimals) = .ok r →
        r * ((10 ^ d.scale : Nat) : Int) = d.mant * ((10 ^ decimals : Nat) : Int)) := by
  refine ⟨by decide, by decide, by decide, ?_⟩
  intro h
  have := h ⟨15, 1⟩ 0 2 (by decide) (by decide) (by decide)
  revert this
  decide

/-- `Decimal::rescale` never leaves a scale above the requested one… -/
theorem rescale_scale_le (d : Dec) (new : Nat) : (rescale d new).scale ≤ new := by
  unfold rescale
  by_cases h1 : d.scale = new
  · simp [h1]
  · by_cases h2 : d.mant = 0
    · simp only [h1, h2, if_false, if_true]
      unfold MAX_SCALE
      split
      · exact Nat.le_refl _
      · show 28 ≤ new
        omega
    · simp only [h1, h2, if_false]
      by_cases h3 : d.scale > new
      · simp only [h3, if_true]
        split <;> exact Nat.le_refl _
      · simp only [h3, if_false]
        exact Nat.sub_le _ _

/-- …so the `Ordering::Greater => "invalid scale"` branch of `rescale_to_mantissa` is dead code:
the error kind `Scale` is never produced (the generator statistics show the other error branches
— `TooBig` by power overflow, `TooBig` by product overflow, `Range` negative, `Range` too large —
all being hit). -/
theorem invalid_scale_unreachable (d : Dec) (decimals : Nat) :
    rescaleToMantissa d decimals ≠ .error .scale := by
  have h := rescale_scale_le d decimals
  unfold rescaleToMantissa compensate
  generalize rescale d decimals = v at *
  by_cases h1 : v.scale < decimals
  · rw [if_pos h1]
    split <;> simp
  · have h2 : v.scale = decimals := by omega
    rw [if_neg h1, if_pos h2]
    simp

/-- No panic, integer → Decimal: `unsigned_fixed_to_decimal` / `signed_fixed_to_decimal` return
`Some`/`None` for ALL inputs (after the fix of `convert_by_change_the_scale`). -/
theorem no_panic_fixed_to_decimal (n decimals : Nat) (z : Int) :
    unsignedFixedToDecimal n decimals ≠ .panic ∧ signedFixedToDecimal z decimals ≠ .panic := by
  have key : ∀ m, unsignedFixedToDecimal m decimals ≠ .panic := by
    intro m
    unfold unsignedFixedToDecimal
    split
    · dsimp only
      split
      · simp
      · split <;> simp
    · split <;> simp
  refine ⟨key n, ?_⟩
  unfold signedFixedToDecimal
  have := key z.natAbs
  revert this
  cases unsignedFixedToDecimal z.natAbs decimals <;> simp [Res.map]

/-- No panic, amounts: the `.expect("must be Some")` in `unsigned_amount_to_decimal` cannot
fire for any `u64` and any `u8` decimals. -/
theorem no_panic_amount (n decimals : Nat) (hn : n < 2 ^ 64) :
    unsignedAmountToDecimal n decimals ≠ .panic := by
  have hp : (2 : Nat) ^ 64 ≤ 2 ^ 96 - 1 := by decide
  unfold unsignedAmountToDecimal
  by_cases h : decimals > 28
  · simp only [h, if_true]
    split
    · simp
    · have : n / 10 ^ (decimals - 28) ≤ n := Nat.div_le_self _ _
      rw [to_decimal_exact_partial _ 28 (by omega) (by omega)]
      simp [Res.expect]
  · simp only [h, if_false]
    rw [to_decimal_exact_partial n decimals (by omega) (by omega)]
    simp [Res.expect]

/-- No panic, values: the `.expect` in `unsigned_value_to_decimal` (20 decimals) cannot fire for
any `u128` — above `2^96 − 1` the digit reduction always lands in range. -/
theorem no_panic_value (n : Nat) (hn : n < 2 ^ 128) : unsignedValueToDecimal n ≠ .panic := by
  unfold unsignedValueToDecimal MARKET_DECIMALS
  by_cases h : n ≤ 2 ^ 96 - 1
  · rw [to_decimal_exact_partial n 20 h (by omega)]; simp [Res.expect]
  · have h0 : 0 < n := by omega
    have h41 : n < 10 ^ 41 := by
      have : (2 : Nat) ^ 128 < 10 ^ 41 := by decide
      omega
    have hlo : 28 ≤ ilog10 n := le_ilog10_of_pow_le n 28 h0 h41 (by
      have : (10 : Nat) ^ 28 ≤ 2 ^ 96 - 1 := by decide
      omega)
    have hhi : ilog10 n < 39 := ilog10_lt_of_lt_pow n 39 h0 h41 (by
      have : (2 : Nat) ^ 128 < 10 ^ 39 := by decide
      omega)
    have hup := (ilog10_spec n h0 h41).2
    have hq : n / 10 ^ (ilog10 n - 27) < 10 ^ 28 := by
      rw [Nat.div_lt_iff_lt_mul (Nat.pow_pos (by omega))]
      rw [← Nat.pow_add, show 28 + (ilog10 n - 27) = ilog10 n + 1 by omega]
      exact hup
    have h28 : (10 : Nat) ^ 28 ≤ 2 ^ 96 - 1 := by decide
    have ht : tryFromI128 ((n / 10 ^ (ilog10 n - 27) : Nat) : Int) (20 - (ilog10 n - 27)) =
        some ⟨(n / 10 ^ (ilog10 n - 27) : Nat), 20 - (ilog10 n - 27)⟩ :=
      (tryFromI128_spec _ _ _).2 ⟨by omega, by rw [Int.natAbs_natCast]; omega, rfl⟩
    unfold unsignedFixedToDecimal MAX_REPR TARGET_SCALE
    simp only [show n > 2 ^ 96 - 1 by omega, if_true, show ¬ 20 < ilog10 n - 27 by omega, if_false, ht]
    simp [Res.expect]

/-- F-C43, values: `unsigned_fixed_to_decimal(2^96, 20)` silently drops the last digit and the
round trip returns `…330` instead of `…336`; hence the unguarded round-trip clause is false. -/
theorem truncation_witness :
    unsignedFixedToDecimal (2 ^ 96) 20 = .ok ⟨7922816251426433759354395033, 19⟩ ∧
    rtUnsignedValue (2 ^ 96) 20 = .ok 79228162514264337593543950330 ∧
    ¬ (∀ n decimals, n < 2 ^ 128 → decimals ≤ 28 →
        rtUnsignedValue n decimals = .ok n ∨ ∃ e, rtUnsignedValue n decimals = .err e ∨
          rtUnsignedValue n decimals = .none) := by
  have h2 : rtUnsignedValue (2 ^ 96) 20 = .ok 79228162514264337593543950330 := by decide
  refine ⟨by decide, h2, ?_⟩
  intro h
  have := h (2 ^ 96) 20 (by decide) (by decide)
  rw [h2] at this
  rcases this with h | ⟨e, h | h⟩
  · revert h; decide
  · cases h
  · cases h

/-- F-C43, `u128::MAX`: it converts to a 28-digit Decimal (eleven digits dropped) that cannot be
converted back. -/
theorem max_value_witness :
    unsignedFixedToDecimal (2 ^ 128 - 1) 20 = .ok ⟨3402823669209384634633746074, 9⟩ ∧
    rtUnsignedValue (2 ^ 128 - 1) 20 = .err .tooBig := by
  constructor <;> decide

/-- F-C43, amounts: with 29 decimals `u64::MAX` is divided down silently (last digit lost). -/
theorem amount_truncation_witness :
    unsignedAmountToDecimal (2 ^ 64 - 1) 29 = .ok ⟨1844674407370955161, 28⟩ ∧
    rtAmount (2 ^ 64 - 1) 29 = .ok 18446744073709551610 ∧
    unsignedAmountToDecimal (2 ^ 64 - 1) 48 = .ok ⟨0, 0⟩ := by
  refine ⟨by decide, by decide, by decide⟩

/-! ### Non-vacuity -/
example : rtUnsignedValue (2 ^ 96 - 1) 28 = .ok (2 ^ 96 - 1 : Nat) := by decide
example : rtAmount 100451723195 6 = .ok 100451723195 := by decide
example : rtSignedValue (-429663361044608151) 20 = .ok (-429663361044608151) := by decide
example : unsignedFixedToDecimal (2 ^ 96) 40 = .none := by decide
-- compensation: dec!(1234567891) at 20 decimals stops rescaling at 19 and multiplies the rest
example : rescale ⟨1234567891, 0⟩ 20 = ⟨12345678910000000000000000000, 19⟩ := by decide
example : RT.ofI (decimalToSignedValue ⟨1234567891, 0⟩ 20) = .ok 123456789100000000000000000000 := by decide
example : RT.ofI (decimalToSignedValue ⟨1234567891, 0⟩ 30) = .err .tooBig := by decide
-- `rescale` can leave a scale above 28 (here 34); the error is still reported, not a panic
example : (rescale ⟨92, 8⟩ 48).scale = 34 := by decide
example : RT.ofN (decimalToValue ⟨92, 8⟩ 48) = .err .tooBig := by decide
-- scaling down rounds half away from zero on the first dropped digit
example : RT.ofN (decimalToAmount ⟨15, 1⟩ 0) = .ok 2 := by decide
example : RT.ofN (decimalToAmount ⟨149, 2⟩ 0) = .ok 1 := by decide

-- added by the hygiene audit: `from_decimal_down_exact_partial` — scale reduced with exactly divisible digits (all three hypotheses)
example : RT.ofI (rescaleToMantissa ⟨1500, 3⟩ 1) = .ok 15 ∧ (1 < 3) ∧ ((1500 : Int) ≠ 0) ∧ (10 ^ (3 - 1) ∣ (1500 : Int).natAbs) := by decide
example : RT.ofI (rescaleToMantissa ⟨-1500, 3⟩ 1) = .ok (-15) := by decide

end Gmx.C43
