import Gmx.Lemmas.Impact
/-!
# C03 — price impact penalises imbalance and cannot be farmed by round trips

`fExact U e c v = ⌊g(v)·c/U⌋` is the exact impact curve (`g` = the exponent curve, unit-multiple
exponents). All statements are about the checked functions of `Gmx.Model.Impact`, which are
tied to `pool/delta.rs` by the correspondence run.
-/
namespace Gmx.C03
open Gmx Gmx.Lem

/-- the positive factor is never allowed to exceed the negative one. -/
theorem adjusted_pos_le_neg (p : ImpactParams) : (adjustedFactors p).1 ≤ (adjustedFactors p).2 := by
  unfold adjustedFactors; split <;> simp <;> omega

/-- the impact curve is monotone in the imbalance. -/
theorem applyFactors_mono {W U c e v₁ v₂ r₁ r₂ : Nat} (hv : v₁ ≤ v₂)
    (h₁ : applyFactors W U v₁ c e = some r₁) (h₂ : applyFactors W U v₂ c e = some r₂) : r₁ ≤ r₂ := by
  obtain ⟨rfl, hU⟩ := applyFactors_eq h₁
  obtain ⟨rfl, _⟩ := applyFactors_eq h₂
  exact fExact_mono hU (Nat.le_refl _) hv

/-- same-side rebalance, exact value: improved ⇒ `f₊(initial) − f₊(next)`, otherwise
`−(f₋(next) − f₋(initial))`. -/
theorem sameSide_spec {W U : Nat} {p : ImpactParams} {i n : Nat} {x : Int}
    (h : sameSideImpact W U p i n = some x) :
    (n < i → x = (fExact U p.exponent (adjustedFactors p).1 i : Int) - fExact U p.exponent (adjustedFactors p).1 n
             ∧ fExact U p.exponent (adjustedFactors p).1 n ≤ fExact U p.exponent (adjustedFactors p).1 i) ∧
    (i ≤ n → x = (fExact U p.exponent (adjustedFactors p).2 i : Int) - fExact U p.exponent (adjustedFactors p).2 n
             ∧ fExact U p.exponent (adjustedFactors p).2 i ≤ fExact U p.exponent (adjustedFactors p).2 n) := by
  unfold sameSideImpact at h
  simp only at h
  split at h
  · cases h
  · rename_i a ha
    split at h
    · cases h
    · rename_i b hb
      unfold toSigned at h
      split at h
      · cases h
      · rename_i d hd
        split at hd
        · cases hd
          by_cases hlt : n < i
          · simp only [hlt, decide_true, if_true] at ha hb h
            obtain ⟨rfl, hU⟩ := applyFactors_eq ha
            obtain ⟨rfl, _⟩ := applyFactors_eq hb
            have hm := fExact_mono (e := p.exponent) hU (Nat.le_refl (adjustedFactors p).1) (Nat.le_of_lt hlt)
            cases h
            refine ⟨fun _ => ⟨?_, hm⟩, fun h' => by omega⟩
            unfold absDiff; simp only [ge_iff_le, hm, if_true]; omega
          · simp only [hlt, decide_false, Bool.false_eq_true, if_false] at ha hb h
            have hle : i ≤ n := by omega
            obtain ⟨rfl, hU⟩ := applyFactors_eq ha
            obtain ⟨rfl, _⟩ := applyFactors_eq hb
            have hm := fExact_mono (e := p.exponent) hU (Nat.le_refl (adjustedFactors p).2) hle
            cases h
            refine ⟨fun h' => by omega, fun _ => ⟨?_, hm⟩⟩
            unfold absDiff; split <;> omega
        · cases hd

/-- same-side: a change that worsens (or keeps) the imbalance never gets a positive impact. -/
theorem sameSide_worsened_nonpos {W U : Nat} {p : ImpactParams} {i n : Nat} {x : Int}
    (h : sameSideImpact W U p i n = some x) (hw : i ≤ n) : x ≤ 0 := by
  obtain ⟨e, hm⟩ := (sameSide_spec h).2 hw; omega

/-- same-side: a change that improves the imbalance never gets a negative impact. -/
theorem sameSide_improved_nonneg {W U : Nat} {p : ImpactParams} {i n : Nat} {x : Int}
    (h : sameSideImpact W U p i n = some x) (hi : n < i) : 0 ≤ x := by
  obtain ⟨e, hm⟩ := (sameSide_spec h).1 hi; omega

/-- cross-over rebalance, exact value: `f₊(initial) − f₋(next)`. -/
theorem crossOver_spec {W U : Nat} {p : ImpactParams} {i n : Nat} {x : Int}
    (h : crossOverImpact W U p i n = some x) :
    x = (fExact U p.exponent (adjustedFactors p).1 i : Int) - fExact U p.exponent (adjustedFactors p).2 n
    ∧ U ≠ 0 := by
  unfold crossOverImpact at h
  split at h
  · cases h
  · rename_i a ha
    split at h
    · cases h
    · rename_i b hb
      obtain ⟨rfl, hU⟩ := applyFactors_eq ha
      obtain ⟨rfl, _⟩ := applyFactors_eq hb
      unfold toSigned at h
      split at h
      · cases h
      · rename_i d hd
        split at hd
        · cases hd
          refine ⟨?_, hU⟩
          unfold absDiff at h
          split at h <;> cases h <;> split <;> omega
        · cases hd

/-- cross-over: worsening (or keeping) the imbalance never gets a positive impact. -/
theorem crossOver_worsened_nonpos {W U : Nat} {p : ImpactParams} {i n : Nat} {x : Int}
    (h : crossOverImpact W U p i n = some x) (hw : i ≤ n) : x ≤ 0 := by
  obtain ⟨rfl, hU⟩ := crossOver_spec h
  have := fExact_mono (e := p.exponent) hU (adjusted_pos_le_neg p) hw
  omega

/-- any rebalance that does not improve the pool balance receives a non-positive impact. -/
theorem priceImpact_worsened_nonpos {W U : Nat} {p : ImpactParams} {d : PoolDelta} {x : Int}
    {bc : BalanceChange} (h : d.priceImpact W U p = some (x, bc)) (hbc : bc ≠ .improved) : x ≤ 0 := by
  unfold PoolDelta.priceImpact at h
  simp only at h
  split at h
  · cases h
  · rename_i v hv
    cases h
    have hw : d.initialDiff ≤ d.nextDiff := by
      unfold balanceChangeOf at hbc
      split at hbc
      · omega
      · split at hbc
        · omega
        · exact absurd rfl hbc
    split at hv
    · exact sameSide_worsened_nonpos hv hw
    · exact crossOver_worsened_nonpos hv hw

/-- an improving rebalance is never penalised when it stays on the same side, or when it
crosses over and the capped positive term dominates. (The unrestricted clause is FALSE of the
code, see `crossOver_improved_negative_witness`.) -/
theorem priceImpact_improved_nonneg_partial {W U : Nat} {p : ImpactParams} {d : PoolDelta} {x : Int}
    {bc : BalanceChange} (h : d.priceImpact W U p = some (x, bc)) (hbc : bc = .improved)
    (hside : d.isSameSide = true ∨
      fExact U p.exponent (adjustedFactors p).2 d.nextDiff ≤ fExact U p.exponent (adjustedFactors p).1 d.initialDiff) :
    0 ≤ x := by
  unfold PoolDelta.priceImpact at h
  simp only at h
  split at h
  · cases h
  · rename_i v hv
    cases h
    have hi : d.nextDiff < d.initialDiff := by
      unfold balanceChangeOf at hbc
      split at hbc
      · cases hbc
      · split at hbc
        · cases hbc
        · omega
    split at hv
    · exact sameSide_improved_nonneg hv hi
    · rename_i hs
      rcases hside with hs' | hdom
      · exact absurd hs' hs
      · obtain ⟨rfl, _⟩ := crossOver_spec hv; omega

/-- **negation of the literal clause** "an improving trade never receives a negative impact":
long 200, short 100 (USD, 9 decimals), +190 on the short side crosses over and *improves* the
imbalance (100 → 90) but is charged −71·10⁹ because the positive factor (10⁶) is smaller than
the negative one (10⁷). Replayed on the implementation (known finding F-C03). -/
theorem crossOver_improved_negative_witness :
    (PoolDelta.priceImpact 64 (10 ^ 9) ⟨2 * 10 ^ 9, 10 ^ 6, 10 ^ 7⟩
      ⟨200 * 10 ^ 9, 100 * 10 ^ 9, 200 * 10 ^ 9, 290 * 10 ^ 9⟩)
      = some (-71000000000, .improved) := by decide

/-- round trip across the balance point: the two impacts never sum to a positive total. -/
theorem roundtrip_crossover_nonpos {W U : Nat} {p : ImpactParams} {i n : Nat} {x y : Int}
    (hx : crossOverImpact W U p i n = some x) (hy : crossOverImpact W U p n i = some y) :
    x + y ≤ 0 := by
  obtain ⟨rfl, hU⟩ := crossOver_spec hx
  obtain ⟨rfl, _⟩ := crossOver_spec hy
  have h1 := fExact_mono (e := p.exponent) hU (adjusted_pos_le_neg p) (Nat.le_refl i)
  have h2 := fExact_mono (e := p.exponent) hU (adjusted_pos_le_neg p) (Nat.le_refl n)
  omega

/-- round trip on one side of the balance point: the total is at most ONE unit of USD value
(10⁻²⁰ USD on chain). The literal "never positive" is false by exactly this unit of floor
rounding, see `roundtrip_sameside_one_witness` (known finding F-C03b). -/
theorem roundtrip_sameside_le_one {W U : Nat} {p : ImpactParams} {i n : Nat} {x y : Int}
    (hx : sameSideImpact W U p i n = some x) (hy : sameSideImpact W U p n i = some y) :
    x + y ≤ 1 := by
  -- wlog shape: one leg improves, the other worsens (or both are no-ops)
  have key : ∀ {a b : Nat} {u v : Int}, b < a → sameSideImpact W U p a b = some u →
      sameSideImpact W U p b a = some v → u + v ≤ 1 := by
    intro a b u v hlt hu hv
    obtain ⟨rfl, hm1⟩ := (sameSide_spec hu).1 hlt
    obtain ⟨rfl, hm2⟩ := (sameSide_spec hv).2 (Nat.le_of_lt hlt)
    have hU : U ≠ 0 := by
      unfold sameSideImpact at hu; simp only at hu
      split at hu
      · cases hu
      · rename_i _ ha; exact (applyFactors_eq ha).2
    -- with ga ≥ gb the exponent-curve values
    have hg := gExact_mono (e := p.exponent) hU (Nat.le_of_lt hlt)
    unfold fExact at *
    generalize gExact U p.exponent a = ga at *
    generalize gExact U p.exponent b = gb at *
    have hc := adjusted_pos_le_neg p
    generalize (adjustedFactors p).1 = cp at *
    generalize (adjustedFactors p).2 = cn at *
    have b1 := (div_sub_div_bounds hU (Nat.mul_le_mul_right cp hg)).2
    have b2 := (div_sub_div_bounds hU (Nat.mul_le_mul_right cn hg)).1
    have hd : (ga * cp - gb * cp) / U ≤ (ga * cn - gb * cn) / U := by
      apply Nat.div_le_div_right
      rw [← Nat.sub_mul, ← Nat.sub_mul]
      exact Nat.mul_le_mul_left _ hc
    omega
  rcases Nat.lt_trichotomy n i with h | h | h
  · exact key h hx hy
  · subst h
    obtain ⟨rfl, _⟩ := (sameSide_spec hx).2 (Nat.le_refl _)
    obtain ⟨rfl, _⟩ := (sameSide_spec hy).2 (Nat.le_refl _)
    omega
  · have := key h hy hx; omega

/-- the bound `≤ 1` is attained: UNIT = 10⁹, exponent 1, factors 3/4,
imbalance 1 333 333 334 → 1 333 333 333 → back gives +1 then 0 (F-C03b). -/
theorem roundtrip_sameside_one_witness :
    sameSideImpact 64 (10 ^ 9) ⟨10 ^ 9, 3, 4⟩ 1333333334 1333333333 = some 1 ∧
    sameSideImpact 64 (10 ^ 9) ⟨10 ^ 9, 3, 4⟩ 1333333333 1333333334 = some 0 := by decide

theorem rev_isSameSide (d : PoolDelta) : d.rev.isSameSide = d.isSameSide := by
  unfold PoolDelta.isSameSide PoolDelta.rev
  by_cases a : d.curL ≤ d.curS <;> by_cases b : d.nextL ≤ d.nextS <;> simp [a, b]

/-- a balance change followed by its exact reverse: total impact ≤ 1 unit of value, and ≤ 0 when
the change crosses the balance point. -/
theorem roundtrip_le_one {W U : Nat} {p : ImpactParams} {d : PoolDelta} {x y : Int}
    {b₁ b₂ : BalanceChange} (hx : d.priceImpact W U p = some (x, b₁))
    (hy : d.rev.priceImpact W U p = some (y, b₂)) :
    x + y ≤ 1 ∧ (d.isSameSide = false → x + y ≤ 0) := by
  unfold PoolDelta.priceImpact at hx hy
  simp only [rev_isSameSide] at hx hy
  have e1 : d.rev.initialDiff = d.nextDiff := rfl
  have e2 : d.rev.nextDiff = d.initialDiff := rfl
  rw [e1, e2] at hy
  split at hx
  · cases hx
  · rename_i vx hvx
    split at hy
    · cases hy
    · rename_i vy hvy
      cases hx; cases hy
      by_cases hs : d.isSameSide = true
      · simp only [hs, if_true] at hvx hvy
        exact ⟨roundtrip_sameside_le_one hvx hvy, fun h => by simp [hs] at h⟩
      · simp only [hs] at hvx hvy
        have := roundtrip_crossover_nonpos hvx hvy
        exact ⟨by omega, fun _ => this⟩

/-! ### swap impact with a virtual inventory (`SwapMarketExt::swap_impact_value`) -/

/-- what `swapImpactWithVirtual` returns is the real pool's impact or, only when that is negative, a strictly
smaller virtual-inventory impact -/
theorem swapImpact_cases {W U : Nat} {p : ImpactParams} {pl ps : Nat} {virt : Option (Nat × Nat)} {dl ds : Int}
    {prl prs : Nat} {incl : Bool} {r : Int × BalanceChange}
    (h : swapImpactWithVirtual W U p pl ps virt dl ds prl prs incl = some r) :
    ∃ d x bc, PoolDelta.tryNew W pl ps dl ds prl prs = some d ∧ d.priceImpact W U p = some (x, bc) ∧
      (r = (x, bc) ∨ (x < 0 ∧ r.1 < x)) := by
  unfold swapImpactWithVirtual at h
  split at h
  · cases h
  · rename_i d hd
    split at h
    · cases h
    · rename_i x bc hx
      refine ⟨d, x, bc, hd, hx, ?_⟩
      split at h
      · cases h; exact .inl rfl
      · rename_i hc
        have hneg : x < 0 := by
          simp only [Bool.or_eq_true, decide_eq_true_eq, Bool.not_eq_true', not_or] at hc
          omega
        split at h
        · cases h; exact .inl rfl
        · split at h
          · cases h
          · split at h
            · cases h
            · split at h
              · rename_i hy; cases h; exact .inr ⟨hneg, hy⟩
              · cases h; exact .inl rfl

/-- the virtual inventory can only make the impact WORSE: the result never exceeds the real pool's impact -/
theorem swapImpact_le_real {W U : Nat} {p : ImpactParams} {pl ps : Nat} {virt : Option (Nat × Nat)} {dl ds : Int}
    {prl prs : Nat} {incl : Bool} {r : Int × BalanceChange} {d : PoolDelta} {x : Int} {bc : BalanceChange}
    (h : swapImpactWithVirtual W U p pl ps virt dl ds prl prs incl = some r)
    (hd : PoolDelta.tryNew W pl ps dl ds prl prs = some d) (hx : d.priceImpact W U p = some (x, bc)) :
    r.1 ≤ x := by
  obtain ⟨d', x', bc', hd', hx', hr⟩ := swapImpact_cases h
  rw [hd] at hd'; cases hd'
  rw [hx] at hx'; cases hx'
  rcases hr with rfl | ⟨_, hlt⟩
  · exact Int.le_refl _
  · omega

/-- **a swap or deposit that does not improve the REAL pool's balance never receives a positive impact**,
whatever the virtual inventory says -/
theorem swapImpact_worsened_nonpos {W U : Nat} {p : ImpactParams} {pl ps : Nat} {virt : Option (Nat × Nat)}
    {dl ds : Int} {prl prs : Nat} {incl : Bool} {r : Int × BalanceChange} {d : PoolDelta} {x : Int} {bc : BalanceChange}
    (h : swapImpactWithVirtual W U p pl ps virt dl ds prl prs incl = some r)
    (hd : PoolDelta.tryNew W pl ps dl ds prl prs = some d) (hx : d.priceImpact W U p = some (x, bc))
    (hbc : bc ≠ .improved) : r.1 ≤ 0 := by
  have h1 := swapImpact_le_real h hd hx
  have h2 := priceImpact_worsened_nonpos hx hbc
  omega

/-- a positive result is always the real pool's own impact -/
theorem swapImpact_pos_is_real {W U : Nat} {p : ImpactParams} {pl ps : Nat} {virt : Option (Nat × Nat)} {dl ds : Int}
    {prl prs : Nat} {incl : Bool} {r : Int × BalanceChange}
    (h : swapImpactWithVirtual W U p pl ps virt dl ds prl prs incl = some r) (hpos : 0 < r.1) :
    ∃ d, PoolDelta.tryNew W pl ps dl ds prl prs = some d ∧ d.priceImpact W U p = some r := by
  obtain ⟨d, x, bc, hd, hx, hr⟩ := swapImpact_cases h
  rcases hr with rfl | ⟨hneg, hlt⟩
  · exact ⟨d, hd, hx⟩
  · omega

/-- **round trips stay unprofitable with a virtual inventory**: a balance change and its exact reverse on
the real pool, each possibly replaced by a worse virtual impact, total at most one unit (F-C03b) -/
theorem swapImpact_roundtrip_le_one {W U : Nat} {p : ImpactParams} {pl ps pl' ps' : Nat}
    {v₁ v₂ : Option (Nat × Nat)} {dl ds dl' ds' : Int} {prl prs : Nat} {i₁ i₂ : Bool}
    {r₁ r₂ : Int × BalanceChange} {d : PoolDelta}
    (h₁ : swapImpactWithVirtual W U p pl ps v₁ dl ds prl prs i₁ = some r₁)
    (h₂ : swapImpactWithVirtual W U p pl' ps' v₂ dl' ds' prl prs i₂ = some r₂)
    (hd : PoolDelta.tryNew W pl ps dl ds prl prs = some d)
    (hrev : PoolDelta.tryNew W pl' ps' dl' ds' prl prs = some d.rev) :
    r₁.1 + r₂.1 ≤ 1 := by
  obtain ⟨d1, x, bc, hd1, hx, _⟩ := swapImpact_cases h₁
  obtain ⟨d2, y, bc2, hd2, hy, _⟩ := swapImpact_cases h₂
  rw [hd] at hd1; cases hd1
  rw [hrev] at hd2; cases hd2
  have a := swapImpact_le_real h₁ hd hx
  have b := swapImpact_le_real h₂ hrev hy
  have c := (roundtrip_le_one hx hy).1
  omega

/-- non-vacuity: real pool (300, 100) USD; +100 long worsens it (impact −400000); a virtual inventory that is
even more imbalanced the same way makes it worse, one imbalanced the other way leaves the real impact; an
improving change keeps its positive impact whatever the virtual inventory says -/
example :
    swapImpactWithVirtual 64 (10 ^ 9) ⟨2 * 10 ^ 9, 4, 8⟩ 300 100 none (100 * 10 ^ 9) 0 (10 ^ 9) (10 ^ 9) true = some (-400000, .worsened) ∧
    swapImpactWithVirtual 64 (10 ^ 9) ⟨2 * 10 ^ 9, 4, 8⟩ 300 100 (some (900, 100)) (100 * 10 ^ 9) 0 (10 ^ 9) (10 ^ 9) true = some (-1360000, .worsened) ∧
    swapImpactWithVirtual 64 (10 ^ 9) ⟨2 * 10 ^ 9, 4, 8⟩ 300 100 (some (100, 900)) (100 * 10 ^ 9) 0 (10 ^ 9) (10 ^ 9) true = some (-400000, .worsened) ∧
    swapImpactWithVirtual 64 (10 ^ 9) ⟨2 * 10 ^ 9, 4, 8⟩ 300 100 (some (900, 100)) (-100 * 10 ^ 9) 0 (10 ^ 9) (10 ^ 9) true = some (120000, .improved) := by
  decide

/-! ### Non-vacuity -/
example : sameSideImpact 128 (10 ^ 20) ⟨2 * 10 ^ 20, 4 * 10 ^ 11, 8 * 10 ^ 11⟩ (5 * 10 ^ 24) (3 * 10 ^ 24)
    = some 640000000000000000000 := by decide
example : (PoolDelta.tryNew 64 200 100 0 190000000000 1000000000 1000000000)
    = some ⟨200000000000, 100000000000, 200000000000, 290000000000⟩ := by decide

/-! ### Audit additions: stronger statement -/

/-- `priceImpact_improved_nonneg_partial` assumes, for a cross-over, exactly the inequality that makes
the result non-negative. Here the assumption is on the CONFIGURATION only: when the positive factor is
not below the negative one (the two adjusted factors coincide) the literal clause holds — an improving
change is never penalised, same side or cross-over. -/
theorem priceImpact_improved_nonneg_of_factors_eq {W U : Nat} {p : ImpactParams} {d : PoolDelta} {x : Int}
    {bc : BalanceChange} (h : d.priceImpact W U p = some (x, bc)) (hbc : bc = .improved)
    (hf : p.neg ≤ p.pos) : 0 ≤ x := by
  unfold PoolDelta.priceImpact at h
  simp only at h
  split at h
  · cases h
  · rename_i v hv
    cases h
    have hi : d.nextDiff < d.initialDiff := by
      unfold balanceChangeOf at hbc
      split at hbc
      · cases hbc
      · split at hbc
        · cases hbc
        · omega
    split at hv
    · exact sameSide_improved_nonneg hv hi
    · obtain ⟨rfl, hU⟩ := crossOver_spec hv
      have e : (adjustedFactors p).2 ≤ (adjustedFactors p).1 := by
        unfold adjustedFactors; split <;> simp <;> omega
      have := fExact_mono (e := p.exponent) hU e (Nat.le_of_lt hi)
      omega
/-- cross-over 200 → 100 (USD, 9 decimals) with equal factors 8/8: `+240000`. -/
example : (0 : Int) ≤ 240000 :=
  priceImpact_improved_nonneg_of_factors_eq (W := 64) (U := 10 ^ 9) (p := ⟨2 * 10 ^ 9, 8, 8⟩)
    (d := ⟨300 * 10 ^ 9, 100 * 10 ^ 9, 300 * 10 ^ 9, 400 * 10 ^ 9⟩) (bc := .improved) (by decide) rfl (by decide)

/-! ### Non-vacuity (audit additions): every hypothesis-carrying theorem instantiated
(UNIT 10⁹, exponent 2, factors 4/8, imbalances in USD with 9 decimals) -/
example : (320000 : Nat) ≤ 720000 :=
  applyFactors_mono (W := 64) (U := 10 ^ 9) (c := 8) (e := 2 * 10 ^ 9) (v₁ := 200 * 10 ^ 9) (v₂ := 300 * 10 ^ 9)
    (by decide) (by decide) (by decide)
example : (-400000 : Int) ≤ 0 :=
  sameSide_worsened_nonpos (W := 64) (U := 10 ^ 9) (p := ⟨2 * 10 ^ 9, 4, 8⟩) (i := 200 * 10 ^ 9) (n := 300 * 10 ^ 9)
    (by decide) (by decide)
example : (0 : Int) ≤ 200000 :=
  sameSide_improved_nonneg (W := 64) (U := 10 ^ 9) (p := ⟨2 * 10 ^ 9, 4, 8⟩) (i := 300 * 10 ^ 9) (n := 200 * 10 ^ 9)
    (by decide) (by decide)
example : (-560000 : Int) ≤ 0 :=
  crossOver_worsened_nonpos (W := 64) (U := 10 ^ 9) (p := ⟨2 * 10 ^ 9, 4, 8⟩) (i := 200 * 10 ^ 9) (n := 300 * 10 ^ 9)
    (by decide) (by decide)
/-- same-side worsening (long 300→400, short 100) and cross-over worsening (short 100→600). -/
example : (-400000 : Int) ≤ 0 :=
  priceImpact_worsened_nonpos (W := 64) (U := 10 ^ 9) (p := ⟨2 * 10 ^ 9, 4, 8⟩)
    (d := ⟨300 * 10 ^ 9, 100 * 10 ^ 9, 400 * 10 ^ 9, 100 * 10 ^ 9⟩) (bc := .worsened) (by decide) (by decide)
example : (-560000 : Int) ≤ 0 :=
  priceImpact_worsened_nonpos (W := 64) (U := 10 ^ 9) (p := ⟨2 * 10 ^ 9, 4, 8⟩)
    (d := ⟨300 * 10 ^ 9, 100 * 10 ^ 9, 300 * 10 ^ 9, 600 * 10 ^ 9⟩) (bc := .worsened) (by decide) (by decide)
/-- both disjuncts of `priceImpact_improved_nonneg_partial`: same side (400→300 long), and a
cross-over (200 → 100 the other way) whose capped positive term dominates (160000 ≥ 80000). -/
example : (0 : Int) ≤ 200000 :=
  priceImpact_improved_nonneg_partial (W := 64) (U := 10 ^ 9) (p := ⟨2 * 10 ^ 9, 4, 8⟩)
    (d := ⟨400 * 10 ^ 9, 100 * 10 ^ 9, 300 * 10 ^ 9, 100 * 10 ^ 9⟩) (bc := .improved) (by decide) rfl (.inl (by decide))
example : (0 : Int) ≤ 80000 :=
  priceImpact_improved_nonneg_partial (W := 64) (U := 10 ^ 9) (p := ⟨2 * 10 ^ 9, 4, 8⟩)
    (d := ⟨300 * 10 ^ 9, 100 * 10 ^ 9, 300 * 10 ^ 9, 400 * 10 ^ 9⟩) (bc := .improved) (by decide) rfl (.inr (by decide))
example : (-560000 : Int) + 40000 ≤ 0 :=
  roundtrip_crossover_nonpos (W := 64) (U := 10 ^ 9) (p := ⟨2 * 10 ^ 9, 4, 8⟩) (i := 200 * 10 ^ 9) (n := 300 * 10 ^ 9)
    (by decide) (by decide)
example : (-400000 : Int) + 200000 ≤ 1 :=
  roundtrip_sameside_le_one (W := 64) (U := 10 ^ 9) (p := ⟨2 * 10 ^ 9, 4, 8⟩) (i := 200 * 10 ^ 9) (n := 300 * 10 ^ 9)
    (by decide) (by decide)
/-- a change and its reverse, same side and cross-over. -/
example : (-400000 : Int) + 200000 ≤ 1 :=
  (roundtrip_le_one (W := 64) (U := 10 ^ 9) (p := ⟨2 * 10 ^ 9, 4, 8⟩)
    (d := ⟨300 * 10 ^ 9, 100 * 10 ^ 9, 400 * 10 ^ 9, 100 * 10 ^ 9⟩) (b₁ := .worsened) (b₂ := .improved)
    (by decide) (by decide)).1
example : (-560000 : Int) + 40000 ≤ 0 :=
  (roundtrip_le_one (W := 64) (U := 10 ^ 9) (p := ⟨2 * 10 ^ 9, 4, 8⟩)
    (d := ⟨300 * 10 ^ 9, 100 * 10 ^ 9, 300 * 10 ^ 9, 600 * 10 ^ 9⟩) (b₁ := .worsened) (b₂ := .improved)
    (by decide) (by decide)).2 (by decide)
/-- virtual inventory: the three joint hypotheses of `swapImpact_le_real` / `swapImpact_worsened_nonpos`
(result, real delta, real impact) on the state of the example above. -/
example : (-1360000 : Int) ≤ -400000 :=
  swapImpact_le_real (W := 64) (U := 10 ^ 9) (p := ⟨2 * 10 ^ 9, 4, 8⟩) (pl := 300) (ps := 100)
    (virt := some (900, 100)) (dl := 100 * 10 ^ 9) (ds := 0) (prl := 10 ^ 9) (prs := 10 ^ 9) (incl := true)
    (r := (-1360000, .worsened)) (d := ⟨300 * 10 ^ 9, 100 * 10 ^ 9, 400 * 10 ^ 9, 100 * 10 ^ 9⟩)
    (bc := .worsened) (by decide) (by decide) (by decide)
example : (-1360000 : Int) ≤ 0 :=
  swapImpact_worsened_nonpos (W := 64) (U := 10 ^ 9) (p := ⟨2 * 10 ^ 9, 4, 8⟩) (pl := 300) (ps := 100)
    (virt := some (900, 100)) (dl := 100 * 10 ^ 9) (ds := 0) (prl := 10 ^ 9) (prs := 10 ^ 9) (incl := true)
    (r := (-1360000, .worsened)) (d := ⟨300 * 10 ^ 9, 100 * 10 ^ 9, 400 * 10 ^ 9, 100 * 10 ^ 9⟩)
    (x := -400000) (bc := .worsened) (by decide) (by decide) (by decide) (by decide)
example : ∃ d, PoolDelta.tryNew 64 400 100 (-100 * 10 ^ 9) 0 (10 ^ 9) (10 ^ 9) = some d ∧
    d.priceImpact 64 (10 ^ 9) ⟨2 * 10 ^ 9, 4, 8⟩ = some (200000, .improved) :=
  swapImpact_pos_is_real (virt := some (900, 100)) (incl := true) (by decide) (by decide)
/-- round trip through a virtual inventory: +100 long (charged the worse virtual impact −1 360 000),
then the exact reverse (+200 000). -/
example : (-1360000 : Int) + 200000 ≤ 1 :=
  swapImpact_roundtrip_le_one (W := 64) (U := 10 ^ 9) (p := ⟨2 * 10 ^ 9, 4, 8⟩) (pl := 300) (ps := 100)
    (pl' := 400) (ps' := 100) (v₁ := some (900, 100)) (v₂ := some (900, 100)) (dl := 100 * 10 ^ 9) (ds := 0)
    (dl' := -100 * 10 ^ 9) (ds' := 0) (prl := 10 ^ 9) (prs := 10 ^ 9) (i₁ := true) (i₂ := true)
    (r₁ := (-1360000, .worsened)) (r₂ := (200000, .improved))
    (d := ⟨300 * 10 ^ 9, 100 * 10 ^ 9, 400 * 10 ^ 9, 100 * 10 ^ 9⟩) (by decide) (by decide) (by decide) (by decide)
/-- failure branches the `= some` hypotheses exclude: an exponent that is not a multiple of the unit
(NOT MODELLED: every theorem of this file is silent about such exponents), a zero unit, and an
imbalance whose square does not fit. -/
example : sameSideImpact 64 (10 ^ 9) ⟨15 * 10 ^ 8, 4, 8⟩ (200 * 10 ^ 9) (300 * 10 ^ 9) = none ∧
    sameSideImpact 64 0 ⟨2 * 10 ^ 9, 4, 8⟩ (200 * 10 ^ 9) (300 * 10 ^ 9) = none ∧
    sameSideImpact 64 (10 ^ 9) ⟨2 * 10 ^ 9, 4, 8⟩ (2 ^ 63) (300 * 10 ^ 9) = none := by decide

end Gmx.C03
