import Gmx.Lemmas.Revertible
/-!
# C21 — uncommitted market operations never leak into stored state

Model: `Gmx.Rev` (the copy-on-write `RevertibleBuffer` behind `RevertibleMarket`). An *operation*
is `begin; (read k | write k f)*; (commit | abandon)`. `Inv m` = no buffer cell's revision is ahead
of the buffer's counter; `abs m` = the stored payloads. Generic in the payload type `V` and the
counter width `W` (64 on chain); `begin` is `none` exactly when the counter would overflow (the
code panics: the instruction fails and the runtime rolls it back).
-/
namespace Gmx.C21
open Gmx.Rev
variable {V : Type}

/-- a read returns the operation's own latest write of that cell … -/
theorem read_sees_own_writes (m : M V) (k : Nat) (f : V → V) :
    read (write m k f) k = f (read m k) :=
  read_write_same m k f

/-- … and a write to one cell is invisible to reads of every other cell -/
theorem write_does_not_disturb_others (m : M V) (k j : Nat) (f : V → V) (h : j ≠ k) :
    read (write m k f) j = read m j :=
  read_write_other m k j f h

/-- whatever an earlier (abandoned or committed) operation left in the buffer, after `begin` every
read returns the stored value: an operation never reads writes left behind by an abandoned one -/
theorem read_ignores_abandoned (W : Nat) (m m1 : M V) (hi : Inv m) (hb : begin W m = some m1) (k : Nat) :
    read m1 k = abs m k := by
  have := (begin_clean hi hb).2 k
  obtain ⟨_, _, hs, _⟩ := begin_some hb
  show (if dirty m1 k = true then (m1.cells k).val else (m1.store k).val) = (m.store k).val
  rw [this, hs]; simp

/-- concretely: write anything, abandon, begin again — reads see storage, not the abandoned writes -/
theorem abandoned_writes_invisible (W : Nat) (m m1 m2 : M V) (acts : List (Act V)) (hi : Inv m)
    (hb : begin W m = some m1) (hb2 : begin W (runActs m1 acts).1 = some m2) (k : Nat) :
    read m2 k = abs m k := by
  have hi1 := (begin_clean hi hb).1
  obtain ⟨_, _, h3, _, h5⟩ := sim_acts acts m1 (abs m) (fun _ => none) (sim_begin hi hb)
  rw [read_ignores_abandoned W _ m2 (h5 hi1) hb2 k]
  simp only [abs]; rw [h3, (begin_some hb).2.2.1]

/-- storage (whole cells, revisions included) changes only on commit: begin, reads, writes and
abandon leave it untouched -/
theorem storage_changes_only_on_commit (W : Nat) (m m1 : M V) (acts : List (Act V))
    (hb : begin W m = some m1) :
    m1.store = m.store ∧ (runActs m1 acts).1.store = m.store ∧
    (finish (runActs m1 acts).1 .abandon).store = m.store := by
  have hs := (begin_some hb).2.2.1
  have : ∀ (acts : List (Act V)) (x : M V), (runActs x acts).1.store = x.store := by
    intro acts
    induction acts with
    | nil => intro x; rfl
    | cons a as ih =>
      intro x
      cases a with
      | read k => simp only [runActs]; exact ih x
      | write k f => simp only [runActs]; rw [ih, write_store]
  exact ⟨hs, by rw [this, hs], by simp only [finish]; rw [this, hs]⟩

/-- commit copies exactly the cells written in this operation (the dirty ones) and nothing else -/
theorem commit_copies_exactly_dirty (m : M V) (k : Nat) :
    (commit m).store k = if dirty m k then m.cells k else m.store k := rfl

/-- inside an operation a cell is dirty iff the operation wrote it -/
theorem dirty_iff_written (W : Nat) (m m1 : M V) (acts : List (Act V)) (hi : Inv m)
    (hb : begin W m = some m1) (k : Nat) :
    dirty (runActs m1 acts).1 k = ((specActs (abs m) (fun _ => none) acts).1 k).isSome := by
  obtain ⟨_, h2, _, _, _⟩ := sim_acts acts m1 (abs m) (fun _ => none) (sim_begin hi hb)
  rw [h2.2 k]
  cases dirty (runActs m1 acts).1 k <;> simp

/-- REFINEMENT of one operation to the transactional map: the reads return what the map returns;
after commit the stored payloads are the old ones overlaid with exactly this operation's writes
(their last values); after abandon they are unchanged -/
theorem commit_applies_exact_writes (W : Nat) (m m' : M V) (tx : Tx V) (rs : List V) (hi : Inv m)
    (h : runTx W m tx = some (m', rs)) :
    rs = (specTx (abs m) tx).2 ∧ abs m' = (specTx (abs m) tx).1 ∧ Inv m' ∧ m'.rev = m.rev + 1 :=
  sim_tx hi h

/-- a commit with no writes is a no-op on storage (whole cells) -/
theorem commit_without_writes_noop (W : Nat) (m m1 : M V) (acts : List (Act V)) (hi : Inv m)
    (hb : begin W m = some m1) (hro : ∀ a ∈ acts, ∃ k, a = Act.read k) :
    (commit (runActs m1 acts).1).store = m.store := by
  have hrun : ∀ (acts : List (Act V)) (x : M V), (∀ a ∈ acts, ∃ k, a = Act.read k) →
      (runActs x acts).1 = x := by
    intro acts
    induction acts with
    | nil => intro x _; rfl
    | cons a as ih =>
      intro x h
      obtain ⟨k, rfl⟩ := h a List.mem_cons_self
      simp only [runActs]
      exact ih x (fun b hb => h b (List.mem_cons_of_mem _ hb))
  rw [hrun acts m1 hro]
  funext k
  simp only [commit, (begin_clean hi hb).2 k, Bool.false_eq_true, if_false]
  rw [(begin_some hb).2.2.1]

/-- the counter: an operation starts iff the counter does not overflow, and each one adds one -/
theorem begin_iff_no_overflow (W : Nat) (m : M V) :
    (begin W m).isSome = true ↔ m.rev + 1 < 2 ^ W := by
  unfold begin; split <;> simp_all

/-- the invariant `cell.rev ≤ rev` is preserved by every step -/
theorem invariant_preserved (W : Nat) (m m1 : M V) (k : Nat) (f : V → V) (hi : Inv m) :
    Inv (write m k f) ∧ Inv (commit m) ∧ (begin W m = some m1 → Inv m1) :=
  ⟨inv_write m k f hi, inv_commit m hi, fun hb => (begin_clean hi hb).1⟩

/-- HISTORIES: any sequence of operations (commits, abandons, repeated abandonment, empty commits)
that does not overflow the counter behaves exactly like the transactional map: same reads, same
final stored payloads; the invariant holds at the end and the counter advanced once per operation -/
theorem history_refines (W : Nat) (m m' : M V) (txs : List (Tx V)) (rss : List (List V)) (hi : Inv m)
    (h : runHist W m txs = some (m', rss)) :
    rss = (specHist (abs m) txs).2 ∧ abs m' = (specHist (abs m) txs).1 ∧ Inv m' ∧
      m'.rev = m.rev + txs.length :=
  sim_hist txs hi h

/-- … and a history runs to completion iff the counter has room for all its operations -/
theorem history_runs_iff (W : Nat) (txs : List (Tx V)) : ∀ (m : M V),
    (runHist W m txs).isSome = true ↔ (txs = [] ∨ m.rev + txs.length < 2 ^ W) := by
  induction txs with
  | nil => intro m; simp [runHist]
  | cons tx txs ih =>
    intro m
    simp only [runHist, runTx]
    cases hb : begin W m with
    | none =>
      have : ¬ m.rev + 1 < 2 ^ W := by
        intro hlt; have := (begin_iff_no_overflow W m).2 hlt; rw [hb] at this; cases this
      simp only [Option.isSome_none, Bool.false_eq_true, false_iff, List.length_cons]
      intro h; rcases h with h | h
      · cases h
      · omega
    | some m1 =>
      have hlt : m.rev + 1 < 2 ^ W := (begin_iff_no_overflow W m).1 (by rw [hb]; rfl)
      have hr1 := (begin_some hb).1
      have hrev : (finish (runActs m1 tx.acts).1 tx.fin).rev = m.rev + 1 := by
        have : ∀ (acts : List (Act V)) (x : M V), (runActs x acts).1.rev = x.rev := by
          intro acts
          induction acts with
          | nil => intro x; rfl
          | cons a as ih2 =>
            intro x
            cases a with
            | read k => simp only [runActs]; exact ih2 x
            | write k f => simp only [runActs]; rw [ih2, write_rev]
        cases tx.fin <;> simp only [finish, commit] <;> rw [this, hr1]
      simp only
      have := ih (finish (runActs m1 tx.acts).1 tx.fin)
      cases hh : runHist W (finish (runActs m1 tx.acts).1 tx.fin) txs with
      | none =>
        rw [hh] at this
        simp only [Option.isSome_none, Bool.false_eq_true, false_iff, hrev] at this
        simp only [Option.isSome_none, Bool.false_eq_true, false_iff, List.length_cons]
        intro h; rcases h with h | h
        · cases h
        · apply this; right; omega
      | some q =>
        rw [hh] at this
        simp only [Option.isSome_some, true_iff, hrev] at this
        simp only [Option.isSome_some, true_iff, List.length_cons]
        right
        rcases this with h | h
        · subst h; simp only [List.length_nil]; omega
        · omega

/-! ### non-vacuity: payload `Int`, everything 0 initially, counter 1 as after `init` -/

example : Inv m0 := fun _ => by simp [m0]
example : ((runHist 64 m0 [⟨[w5, .read 3], .abandon⟩, ⟨[.read 3], .commit⟩]).map (·.2)) = some [[5], [0]] := by rfl
example : ((runHist 64 m0 [⟨[w5, .read 3], .commit⟩, ⟨[.read 3], .abandon⟩]).map (·.2)) = some [[5], [5]] := by rfl
example : ((runHist 64 m0 [⟨[w5], .abandon⟩, ⟨[w5], .abandon⟩, ⟨[w5, .read 3], .commit⟩]).map (fun r => abs r.1 3)) = some 5 := by rfl
example : (runHist 2 m0 [⟨[], .commit⟩, ⟨[], .commit⟩, ⟨[], .commit⟩]).isSome = false := by rfl

end Gmx.C21
