import Gmx.Lemmas.Revertible
/-!
# C21 — uncommitted market operations never leak into stored state

Model: `Gmx.Rev` (the copy-on-write `RevertibleBuffer` behind `RevertibleMarket`). An *operation*
is `begin; (read k | write k f)*; (commit | abandon)`. `Inv m` = no buffer cell's revision is ahead
of the buffer's counter; `abs m` = the stored payloads. Generic in the payload type `V` and the
counter width `W` (64 on chain); `begin` is `none` exactly when the counter would overflow (the
code panics: the instruction fails and the runtime rolls it back).
-/
namespace Gmx.C21
open Gmx.Rev
variable {V : Type}

/-- a read returns the operation's own latest write of that cell … -/
theorem read_sees_own_writes (m : M V) (k : Nat) (f : V → V) :
    read (write m k f) k = f (read m k) :=
  read_write_same m k f

/-- … and a write to one cell is invisible to reads of every other cell -/
theorem write_does_not_disturb_others (m : M V) (k j : Nat) (f : V → V) (h : j ≠ k) :
    read (write m k f) j = read m j :=
  read_write_other m k j f h

/-- whatever an earlier (abandoned or committed) operation left in the buffer, after `begin` every
read returns the stored value: an operation never reads writes left behind by an abandoned one -/
theorem read_ignores_abandoned (W : Nat) (m m1 : M V) (hi : Inv m) (hb : begin W m = some m1) (k : Nat) :
    read m1 k = abs m k := by
  have := (begin_clean hi hb).2 k
  obtain ⟨_, _, hs, _⟩ := begin_some hb
  show (if dirty m1 k = true then (m1.cells k).val else (m1.store k).val) = (m.store k).val
  rw [this, hs]; simp

/-- concretely: write anything, abandon, begin again — reads see storage, not the abandoned writes -/
theorem abandoned_writes_invisible (W : Nat) (m m1 m2 : M V) (acts : List (Act V)) (hi : Inv m)
    (hb : begin W m = some m1) (hb2 : begin W (runActs m1 acts).1 = some m2) (k : Nat) :
    read m2 k = abs m k := by
  have hi1 := (begin_clean hi hb).1
  obtain ⟨_, _, h3, _, h5⟩ := sim_acts acts m1 (abs m) (fun _ => none) (sim_begin hi hb)
  rw [read_ignores_abandoned W _ m2 (h5 hi1) hb2 k]
  simp only [abs]; rw [h3, (begin_some hb).2.2.1]

/-- storage (whole cells, revisions included) changes only on commit: begin, reads, writes and
abandon leave it untouched -/
theorem storage_changes_only_on_commit (W : Nat) (m m1 : M V) (acts : List (Act V))
    (hb : begin W m = some m1) :
    m1.store = m.store ∧ (runActs m1 acts).1.store = m.store ∧
    (finish (runActs m1 acts).1 .abandon).store = m.store := by
  have hs := (begin_some hb).2.2.1
  have : ∀ (acts : List (Act V)) (x : M V), (runActs x acts).1.store = x.store := by
    intro acts
    induction acts with
    | nil => intro x; rfl
    | cons a as ih =>
      intro x
      cases a with
      | read k => simp only [runActs]; exact ih x
      | write k f => simp only [runActs]; rw [ih, write_store]
  exact ⟨hs, by rw [this, hs], by simp only [finish]; rw [this, hs]⟩

/-- commit copies exactly the dirty cells, so committing twice is committing once, and after a commit every dirty
buffer cell and its storage cell coincide (whole cells, revision included): a later read through the buffer and a
direct read of storage agree -/
theorem commit_idempotent_and_synced (m : M V) :
    (commit (commit m)).store = (commit m).store ∧
    ∀ k, dirty m k = true → (commit m).store k = (commit m).cells k ∧ read (commit m) k = ((commit m).store k).val := by
  constructor
  · funext k
    simp only [commit, dirty]
    by_cases h : ((m.cells k).rev == m.rev) = true <;> simp [h]
  · intro k hk
    have hd : dirty (commit m) k = true := hk
    refine ⟨by simp [commit, hk], ?_⟩
    unfold Rev.read; rw [hd]; simp [commit, hk]

/-- inside an operation a cell is dirty iff the operation wrote it -/
theorem dirty_iff_written (W : Nat) (m m1 : M V) (acts : List (Act V)) (hi : Inv m)
    (hb : begin W m = some m1) (k : Nat) :
    dirty (runActs m1 acts).1 k = ((specActs (abs m) (fun _ => none) acts).1 k).isSome := by
  obtain ⟨_, h2, _, _, _⟩ := sim_acts acts m1 (abs m) (fun _ => none) (sim_begin hi hb)
  rw [h2.2 k]
  cases dirty (runActs m1 acts).1 k <;> simp

/-- REFINEMENT of one operation to the transactional map: the reads return what the map returns;
after commit the stored payloads are the old ones overlaid with exactly this operation's writes
(their last values); after abandon they are unchanged -/
theorem commit_applies_exact_writes (W : Nat) (m m' : M V) (tx : Tx V) (rs : List V) (hi : Inv m)
    (h : runTx W m tx = some (m', rs)) :
    rs = (specTx (abs m) tx).2 ∧ abs m' = (specTx (abs m) tx).1 ∧ Inv m' ∧ m'.rev = m.rev + 1 :=
  sim_tx hi h

/-- a commit with no writes is a no-op on storage (whole cells) -/
theorem commit_without_writes_noop (W : Nat) (m m1 : M V) (acts : List (Act V)) (hi : Inv m)
    (hb : begin W m = some m1) (hro : ∀ a ∈ acts, ∃ k, a = Act.read k) :
    (commit (runActs m1 acts).1).store = m.store := by
  have hrun : ∀ (acts : List (Act V)) (x : M V), (∀ a ∈ acts, ∃ k, a = Act.read k) →
      (runActs x acts).1 = x := by
    intro acts
    induction acts with
    | nil => intro x _; rfl
    | cons a as ih =>
      intro x h
      obtain ⟨k, rfl⟩ := h a List.mem_cons_self
      simp only [runActs]
      exact ih x (fun b hb => h b (List.mem_cons_of_mem _ hb))
  rw [hrun acts m1 hro]
  funext k
  simp only [commit, (begin_clean hi hb).2 k, Bool.false_eq_true, if_false]
  rw [(begin_some hb).2.2.1]

/-- the counter: an operation starts iff the counter does not overflow, and each one adds one -/
theorem begin_iff_no_overflow (W : Nat) (m : M V) :
    (begin W m).isSome = true ↔ m.rev + 1 < 2 ^ W := by
  unfold begin; split <;> simp_all

/-- the invariant `cell.rev ≤ rev` is preserved by every step -/
theorem invariant_preserved (W : Nat) (m m1 : M V) (k : Nat) (f : V → V) (hi : Inv m) :
    Inv (write m k f) ∧ Inv (commit m) ∧ (begin W m = some m1 → Inv m1) :=
  ⟨inv_write m k f hi, inv_commit m hi, fun hb => (begin_clean hi hb).1⟩

/-- HISTORIES: any sequence of operations (commits, abandons, repeated abandonment, empty commits)
that does not overflow the counter behaves exactly like the transactional map: same reads, same
final stored payloads; the invariant holds at the end and the counter advanced once per operation -/
theorem history_refines (W : Nat) (m m' : M V) (txs : List (Tx V)) (rss : List (List V)) (hi : Inv m)
    (h : runHist W m txs = some (m', rss)) :
    rss = (specHist (abs m) txs).2 ∧ abs m' = (specHist (abs m) txs).1 ∧ Inv m' ∧
      m'.rev = m.rev + txs.length :=
  sim_hist txs hi h

/-- … and a history runs to completion iff the counter has room for all its operations -/
theorem history_runs_iff (W : Nat) (txs : List (Tx V)) : ∀ (m : M V),
    (runHist W m txs).isSome = true ↔ (txs = [] ∨ m.rev + txs.length < 2 ^ W) := by
  induction txs with
  | nil => intro m; simp [runHist]
  | cons tx txs ih =>
    intro m
    simp only [runHist, runTx]
    cases hb : begin W m with
    | none =>
      have : ¬ m.rev + 1 < 2 ^ W := by
        intro hlt; have := (begin_iff_no_overflow W m).2 hlt; rw [hb] at this; cases this
      simp only [Option.isSome_none, Bool.false_eq_true, false_iff, List.length_cons]
      intro h; rcases h with h | h
      · cases h
      · omega
    | some m1 =>
      have hlt : m.rev + 1 < 2 ^ W := (begin_iff_no_overflow W m).1 (by rw [hb]; rfl)
      have hr1 := (begin_some hb).1
      have hrev : (finish (runActs m1 tx.acts).1 tx.fin).rev = m.rev + 1 := by
        have : ∀ (acts : List (Act V)) (x : M V), (runActs x acts).1.rev = x.rev := by
          intro acts
          induction acts with
          | nil => intro x; rfl
          | cons a as ih2 =>
            intro x
            cases a with
            | read k => simp only [runActs]; exact ih2 x
            | write k f => simp only [runActs]; rw [ih2, write_rev]
        cases tx.fin <;> simp only [finish, commit] <;> rw [this, hr1]
      simp only
      have := ih (finish (runActs m1 tx.acts).1 tx.fin)
      cases hh : runHist W (finish (runActs m1 tx.acts).1 tx.fin) txs with
      | none =>
        rw [hh] at this
        simp only [Option.isSome_none, Bool.false_eq_true, false_iff, hrev] at this
        simp only [Option.isSome_none, Bool.false_eq_true, false_iff, List.length_cons]
        intro h; rcases h with h | h
        · cases h
        · apply this; right; omega
      | some q =>
        rw [hh] at this
        simp only [Option.isSome_some, true_iff, hrev] at this
        simp only [Option.isSome_some, true_iff, List.length_cons]
        right
        rcases this with h | h
        · subst h; simp only [List.length_nil]; omega
        · omega

/-! ### `RevertibleVirtualInventory` (single-cell `RevertiblePoolBuffer`) -/

/-- the virtual-inventory buffer IS cell 0 of the generic buffer: running any history on it equals
running the lifted history on a multi-cell buffer and projecting (so every generic theorem above
instantiates) -/
theorem vi_is_cell0 (W : Nat) (txs : List (List (VAct V) × End)) (m : M V) :
    (runHist W m (txs.map liftTx)).map (fun r => (proj0 r.1, r.2)) = viRunHist W (proj0 m) txs :=
  proj0_runHist W txs m

theorem vi_read_sees_own_writes (v : VI V) (f : V → V) : viRead (viWrite v f) = f (viRead v) := by
  unfold viWrite viRead
  by_cases h : viDirty v = true
  · simp only [h, if_true]
    have : viDirty ({ v with cell := ⟨v.cell.rev, f v.cell.val⟩ } : VI V) = true := by
      simpa [viDirty] using h
    simp [this]
  · simp only [h, Bool.false_eq_true, if_false]
    have : viDirty ({ v with cell := ⟨v.rev, f v.store.val⟩ } : VI V) = true := by simp [viDirty]
    simp [this]

/-- reads/writes/abandon never touch the stored pool; commit with no write is a no-op -/
theorem vi_storage_changes_only_on_commit (W : Nat) (v v1 : VI V) (f : V → V) (hi : v.cell.rev ≤ v.rev)
    (hb : viBegin W v = some v1) :
    v1.store = v.store ∧ (viWrite v1 f).store = v.store ∧ viCommit v1 = v1 := by
  unfold viBegin at hb
  split at hb
  · cases hb
    refine ⟨rfl, ?_, ?_⟩
    · unfold viWrite; split <;> rfl
    · unfold viCommit
      have : viDirty ({ v with rev := v.rev + 1 } : VI V) = false := by
        simp only [viDirty]
        have : v.cell.rev ≠ v.rev + 1 := by omega
        simpa using this
      simp [this]
  · cases hb

/-- REFINEMENT for the virtual inventory: every history of operations (commits, abandons, repeated
abandonment) on the single-cell buffer behaves like the transactional map on one key -/
theorem vi_history_refines (W : Nat) (txs : List (List (VAct V) × End)) (v v' : VI V)
    (rss : List (List V)) (hi : v.cell.rev ≤ v.rev) (h : viRunHist W v txs = some (v', rss)) :
    rss = (specHist (fun _ => v.store.val) (txs.map liftTx)).2 ∧
    v'.store.val = (specHist (fun _ => v.store.val) (txs.map liftTx)).1 0 ∧
    v'.cell.rev ≤ v'.rev ∧ v'.rev = v.rev + txs.length :=
  vi_sim_hist txs v v' rss hi h

/-! ### `RevertiblePosition` (private copy, written back on commit) -/

/-- inside one position operation a read returns the stored state with ALL the operation's writes applied in
order (reads see own writes, over any list of writes) -/
theorem pos_read_sees_own_writes {P : Type} (b : PB P) (fs : List (P → P)) :
    pbRead (fs.foldl pbWrite (pbBegin b)) = fs.foldl (fun x f => f x) b.stored := by
  have : ∀ (fs : List (P → P)) (x : PB P), (fs.foldl pbWrite x).loc = fs.foldl (fun y f => f y) x.loc := by
    intro fs
    induction fs with
    | nil => intro x; rfl
    | cons f fs ih => intro x; simp only [List.foldl_cons]; rw [ih]; rfl
  exact this fs (pbBegin b)

/-- a new operation starts from the STORED position state whatever an abandoned one wrote -/
theorem pos_ignores_abandoned {P : Type} (b : PB P) (fs : List (P → P)) :
    pbRead (pbBegin (fs.foldl pbWrite (pbBegin b))) = b.stored ∧
    (fs.foldl pbWrite (pbBegin b)).stored = b.stored := by
  have : ∀ (fs : List (P → P)) (x : PB P), (fs.foldl pbWrite x).stored = x.stored := by
    intro fs
    induction fs with
    | nil => intro x; rfl
    | cons f fs ih => intro x; simp only [List.foldl_cons]; rw [ih]; rfl
  exact ⟨by simp only [pbRead, pbBegin]; exact this _ _, this _ _⟩

/-- commit stores exactly what the operation read last (its writes applied in order to the stored
state); with no writes it is a no-op -/
theorem pos_commit_exact {P : Type} (b : PB P) (fs : List (P → P)) :
    (pbCommit (fs.foldl pbWrite (pbBegin b))).stored = fs.foldl (fun x f => f x) b.stored ∧
    (pbCommit (pbBegin b)).stored = b.stored := by
  have : ∀ (fs : List (P → P)) (x : PB P), (fs.foldl pbWrite x).loc = fs.foldl (fun y f => f y) x.loc := by
    intro fs
    induction fs with
    | nil => intro x; rfl
    | cons f fs ih => intro x; simp only [List.foldl_cons]; rw [ih]; rfl
  exact ⟨by simp only [pbCommit]; rw [this]; rfl, rfl⟩

/-- `RevertiblePosition::commit` commits the market buffer and the position together; dropping it
commits neither -/
theorem pos_commit_is_joint {P : Type} (W : Nat) (m m1 : M V) (acts : List (Act V)) (b : PB P) (fs : List (P → P))
    (hi : Inv m) (hb : begin W m = some m1) :
    -- after any market reads/writes and any position writes of one operation, `commit` stores BOTH …
    abs (posCommit ((runActs m1 acts).1, fs.foldl pbWrite (pbBegin b))).1 = (specTx (abs m) ⟨acts, .commit⟩).1 ∧
    (posCommit ((runActs m1 acts).1, fs.foldl pbWrite (pbBegin b))).2.stored = fs.foldl (fun x f => f x) b.stored ∧
    -- … and dropping the operation stores NEITHER
    (runActs m1 acts).1.store = m.store ∧ (fs.foldl pbWrite (pbBegin b)).stored = b.stored := by
  have htx : runTx W m ⟨acts, .commit⟩ = some (commit (runActs m1 acts).1, (runActs m1 acts).2) := by
    simp [runTx, hb, finish]
  refine ⟨(commit_applies_exact_writes W m _ ⟨acts, .commit⟩ _ hi htx).2.1, (pos_commit_exact b fs).1,
    (storage_changes_only_on_commit W m m1 acts hb).2.1, (pos_ignores_abandoned b fs).2⟩

/-! ### `RevertibleLiquidityMarket` (mint/burn deferred to commit) -/

theorem lm_mint_spec (l l' : LM) (a : Nat) :
    lmMint l a = some l' ↔ (a < U64 ∧ l.toMint + a < U64 ∧ l.supply + (l.toMint + a) < U64 ∧
      l' = { l with toMint := l.toMint + a }) := by
  unfold lmMint
  by_cases h1 : a ≥ U64
  · simp [h1]; omega
  by_cases h2 : l.toMint + a ≥ U64
  · simp [h1, h2]; omega
  by_cases h3 : l.supply + (l.toMint + a) ≥ U64
  · simp [h1, h2, h3]; omega
  simp only [h1, h2, h3, if_false, Option.some.injEq]
  constructor
  · intro h; exact ⟨by omega, by omega, by omega, h.symm⟩
  · intro h; exact h.2.2.2.symm

theorem lm_burn_spec (l l' : LM) (a : Nat) :
    lmBurn l a = some l' ↔ (a < U64 ∧ l.toBurn + a < U64 ∧ l.toBurn + a ≤ l.supply ∧
      l' = { l with toBurn := l.toBurn + a }) := by
  unfold lmBurn
  by_cases h1 : a ≥ U64
  · simp [h1]; omega
  by_cases h2 : l.toBurn + a ≥ U64
  · simp [h1, h2]; omega
  by_cases h3 : l.supply < l.toBurn + a
  · simp [h1, h2, h3]; omega
  simp only [h1, h2, h3, if_false, Option.some.injEq]
  constructor
  · intro h; exact ⟨by omega, by omega, by omega, h.symm⟩
  · intro h; exact h.2.2.2.symm

/-- the invariant holds through any sequence of (accepted or rejected) mint/burn requests, and
the real supply is never touched before commit -/
theorem lm_requests (acts : List LAct) : ∀ (l : LM), LMInv l →
    LMInv (lmRun l acts) ∧ (lmRun l acts).supply = l.supply := by
  induction acts with
  | nil => intro l h; exact ⟨h, rfl⟩
  | cons a as ih =>
    intro l h
    cases a with
    | mint a =>
      simp only [lmRun]
      cases hm : lmMint l a with
      | none => exact ih l h
      | some l' =>
        obtain ⟨_, _, h3, rfl⟩ := (lm_mint_spec l l' a).1 hm
        have := ih { l with toMint := l.toMint + a } ⟨by simpa [Nat.add_assoc] using h3, h.2⟩
        exact this
    | burn a =>
      simp only [lmRun]
      cases hm : lmBurn l a with
      | none => exact ih l h
      | some l' =>
        obtain ⟨_, _, h3, rfl⟩ := (lm_burn_spec l l' a).1 hm
        exact ih { l with toBurn := l.toBurn + a } ⟨h.1, h3⟩

/-- `total_supply` seen inside the operation = real supply + pending mints − pending burns, and
that is exactly the mint's supply after commit (MintTo then Burn, both within `u64`, no underflow);
an operation without requests issues no CPI, an abandoned one none at all (only `commit` does) -/
-- (kept for its callers; the subtraction-free statement to cite is `lm_commit_supply_exact` / `lm_history_commit_exact` below)
theorem lm_commit_supply (l : LM) (h : LMInv l) :
    lmCommitSupply l = lmTotalSupply l ∧ lmCommitSupply l < U64 ∧
    lmCommitCpis (lmBegin l.supply) = [] := by
  unfold lmCommitSupply lmCommitCpis lmTotalSupply
  obtain ⟨h1, h2⟩ := h
  refine ⟨?_, ?_, by simp [lmBegin]⟩
  · by_cases hm : l.toMint = 0 <;> by_cases hb : l.toBurn = 0 <;> simp [hm, hb, applyCpi]
  · by_cases hm : l.toMint = 0 <;> by_cases hb : l.toBurn = 0 <;> simp [hm, hb, applyCpi] <;> omega

/-- the CPIs of a commit carry the accumulated amounts: one `MintTo(Σ mints)` (if non-zero) followed
by one `Burn(Σ burns)` (if non-zero) -/
theorem lm_commit_cpis (supply : Nat) (acts : List LAct) (hs : supply < U64) :
    -- for ANY list of mint/burn requests of one operation (accepted or rejected): at most one MintTo followed by at
    -- most one Burn, never a zero amount, and replaying them on the real supply gives what `total_supply` showed
    (lmCommitCpis (lmRun (lmBegin supply) acts)).length ≤ 2 ∧
    (∀ c ∈ lmCommitCpis (lmRun (lmBegin supply) acts), c ≠ Cpi.mintTo 0 ∧ c ≠ Cpi.burn 0) ∧
    (lmCommitCpis (lmRun (lmBegin supply) acts)).foldl applyCpi supply = lmTotalSupply (lmRun (lmBegin supply) acts) ∧
    (lmRun (lmBegin supply) acts).supply = supply := by
  have hinv : LMInv (lmBegin supply) := ⟨by simpa [lmBegin] using hs, by simp [lmBegin]⟩
  obtain ⟨hI, hsup⟩ := lm_requests acts (lmBegin supply) hinv
  have hsup' : (lmRun (lmBegin supply) acts).supply = supply := hsup
  have hc := (lm_commit_supply _ hI).1
  unfold lmCommitSupply at hc
  rw [hsup'] at hc
  refine ⟨?_, ?_, hc, hsup'⟩
  · unfold lmCommitCpis; split <;> split <;> simp
  · intro c hcmem
    unfold lmCommitCpis at hcmem
    by_cases hm : (lmRun (lmBegin supply) acts).toMint = 0 <;> by_cases hb : (lmRun (lmBegin supply) acts).toBurn = 0 <;>
      simp [hm, hb] at hcmem
    · subst hcmem; simp [hb]
    · subst hcmem; simp [hm]
    · rcases hcmem with rfl | rfl <;> simp [hm, hb]

/-! ### non-vacuity: payload `Int`, everything 0 initially, counter 1 as after `init` -/

example : Inv m0 := fun _ => by simp [m0]
example : ((runHist 64 m0 [⟨[w5, .read 3], .abandon⟩, ⟨[.read 3], .commit⟩]).map (·.2)) = some [[5], [0]] := by rfl
example : ((runHist 64 m0 [⟨[w5, .read 3], .commit⟩, ⟨[.read 3], .abandon⟩]).map (·.2)) = some [[5], [5]] := by rfl
example : ((runHist 64 m0 [⟨[w5], .abandon⟩, ⟨[w5], .abandon⟩, ⟨[w5, .read 3], .commit⟩]).map (fun r => abs r.1 3)) = some 5 := by rfl
example : (runHist 2 m0 [⟨[], .commit⟩, ⟨[], .commit⟩, ⟨[], .commit⟩]).isSome = false := by rfl

example : LMInv (lmBegin 100) := by simp [LMInv, lmBegin, U64]
example : lmRun (lmBegin 100) [.mint 5, .burn 30, .burn 80, .mint 7] = ⟨100, 12, 30⟩ := by decide
example : lmCommitCpis ⟨100, 12, 30⟩ = [.mintTo 12, .burn 30] ∧ lmCommitSupply ⟨100, 12, 30⟩ = 82 := by decide
example : ((viRunHist 64 ⟨0, ⟨0, (0 : Int)⟩, ⟨0, 0⟩⟩ [([.write (· + 5), .read], .abandon), ([.read], .commit)]).map (·.2)) = some [[5], [0]] := by rfl

/-! ### audit: further non-vacuity instances (hypotheses jointly satisfiable on NON-initial states) -/

/-- `write_does_not_disturb_others` on a concrete pair of distinct cells -/
example : read (write m0 3 (fun v => v + 5)) 4 = read m0 4 :=
  write_does_not_disturb_others m0 3 4 _ (by decide)

/-- a non-initial state satisfying `Inv`: cell 3 written (value 5) inside operation 1, not committed -/
example : Inv (write m0 3 (fun v => v + 5)) := inv_write m0 3 _ (fun _ => by simp [m0])
example : Inv (commit (write m0 3 (fun v => v + 5))) :=
  (invariant_preserved 64 (write m0 3 (fun v => v + 5)) m0 0 id (inv_write m0 3 _ (fun _ => by simp [m0]))).2.1

/-- `read_ignores_abandoned` instantiated: the abandoned write of 5 to cell 3 is really in the buffer,
yet after the next `begin` cell 3 reads the stored 0 -/
example : ((write m0 3 (fun v => v + 5)).cells 3).val = 5 ∧
    read ({ write m0 3 (fun v => v + 5) with rev := 2 } : M Int) 3 = 0 :=
  ⟨by rfl, read_ignores_abandoned 64 (write m0 3 (fun v => v + 5)) _
    (inv_write m0 3 _ (fun _ => by simp [m0])) (by rfl) 3⟩

/-- `abandoned_writes_invisible` instantiated: begin, write 5, abandon, begin -/
example : read ({ (runActs ({ m0 with rev := 2 } : M Int) [w5]).1 with rev := 3 } : M Int) 3 = 0 :=
  abandoned_writes_invisible 64 m0 ({ m0 with rev := 2 }) _ [w5] (fun _ => by simp [m0]) (by rfl) (by rfl) 3

/-- `storage_changes_only_on_commit` instantiated with a real write -/
example : (runActs ({ m0 with rev := 2 } : M Int) [w5, .read 3]).1.store = m0.store ∧
    (runActs ({ m0 with rev := 2 } : M Int) [w5, .read 3]).2 = [5] :=
  ⟨(storage_changes_only_on_commit 64 m0 ({ m0 with rev := 2 }) [w5, .read 3] (by rfl)).2.1, by rfl⟩

/-- `dirty_iff_written` instantiated: cell 3 written ⇒ dirty, cell 4 not -/
example : dirty (runActs ({ m0 with rev := 2 } : M Int) [w5]).1 3 = true ∧
    dirty (runActs ({ m0 with rev := 2 } : M Int) [w5]).1 4 = false := by
  have h := dirty_iff_written 64 m0 ({ m0 with rev := 2 }) [w5] (fun _ => by simp [m0]) (by rfl)
  exact ⟨by rw [h 3]; rfl, by rw [h 4]; rfl⟩

/-- `commit_applies_exact_writes` hypotheses: a committing operation with a write and a read -/
example : (runTx 64 m0 ⟨[w5, .read 3], .commit⟩).map (fun r => (abs r.1 3, abs r.1 4, r.1.rev, r.2)) =
    some (5, 0, 2, [5]) := by rfl

/-- `commit_without_writes_noop` instantiated on a state whose buffer still holds an ABANDONED write:
a read-only operation that commits leaves storage alone (the stale buffer cell is not copied) -/
example : (commit (runActs ({ write m0 3 (fun v => v + 5) with rev := 2 } : M Int) [.read 3]).1).store =
    (write m0 3 (fun v => v + 5)).store :=
  commit_without_writes_noop 64 (write m0 3 (fun v => v + 5)) _ [.read 3]
    (inv_write m0 3 _ (fun _ => by simp [m0])) (by rfl)
    (fun a ha => by simp at ha; exact ⟨3, ha⟩)

/-- `begin_iff_no_overflow`: both sides true (64-bit counter at 1), both sides false (2-bit counter at 3) -/
example : (begin 64 m0).isSome = true ∧ (begin 2 ({ m0 with rev := 3 } : M Int)).isSome = false := ⟨by rfl, by rfl⟩

/-- `vi_storage_changes_only_on_commit` instantiated on a non-initial single-cell buffer (rev 4, an
abandoned write of 9 in the buffer cell at revision 4, stored 7 at revision 2) -/
example : (viWrite ({ rev := 5, cell := ⟨4, 9⟩, store := ⟨2, 7⟩ } : VI Int) (· + 1)).store = ⟨2, 7⟩ ∧
    viRead (viWrite ({ rev := 5, cell := ⟨4, 9⟩, store := ⟨2, 7⟩ } : VI Int) (· + 1)) = 8 :=
  ⟨(vi_storage_changes_only_on_commit 64 ({ rev := 4, cell := ⟨4, 9⟩, store := ⟨2, 7⟩ } : VI Int) _ (· + 1)
      (Nat.le_refl 4) (by rfl)).2.1, by rfl⟩

/-- `vi_history_refines` hypotheses on that non-initial state: abandoned write, then commit of a write -/
example : ((viRunHist 64 ({ rev := 4, cell := ⟨4, 9⟩, store := ⟨2, 7⟩ } : VI Int)
    [([.read, .write (· + 5), .read], .abandon), ([.write (· * 2), .read], .commit)]).map
      (fun r => (r.1.store.val, r.1.rev, r.2))) = some (14, 6, [[7, 12], [14]]) := by rfl

/-- `lm_mint_spec` / `lm_burn_spec`: an accepted and a rejected request each -/
example : lmMint ⟨100, 5, 30⟩ 7 = some ⟨100, 12, 30⟩ ∧ lmMint ⟨100, 5, 30⟩ (U64 - 104) = none ∧
    lmBurn ⟨100, 12, 0⟩ 30 = some ⟨100, 12, 30⟩ ∧ lmBurn ⟨100, 12, 30⟩ 80 = none := by decide

/-- `LMInv` on a non-initial state (pending mint 12, pending burn 30), and `lm_requests` / `lm_commit_supply` on it -/
example : LMInv ⟨100, 12, 30⟩ := by simp [LMInv, U64]
example : LMInv (lmRun ⟨100, 12, 30⟩ [.burn 80, .burn 70, .mint 1]) ∧
    (lmRun ⟨100, 12, 30⟩ [.burn 80, .burn 70, .mint 1]) = ⟨100, 13, 100⟩ :=
  ⟨(lm_requests [.burn 80, .burn 70, .mint 1] ⟨100, 12, 30⟩ (by simp [LMInv, U64])).1, by decide⟩
example : lmCommitSupply ⟨100, 12, 30⟩ = lmTotalSupply ⟨100, 12, 30⟩ :=
  (lm_commit_supply ⟨100, 12, 30⟩ (by simp [LMInv, U64])).1

/-- AUDIT (strength): `lm_commit_supply` is stated with `Nat` truncated subtraction on both sides
(`lmTotalSupply`, `applyCpi … (.burn a)`); this version is subtraction-free: under the invariant the
`Burn` CPI never exceeds the supply it is applied to (so the token program cannot reject it and the
saturating `total_supply` never saturates), the `MintTo` keeps the supply within `u64`, and
`committed supply + burnt = old supply + minted` exactly. -/
theorem lm_commit_supply_exact (l : LM) (h : LMInv l) :
    l.toBurn ≤ l.supply + l.toMint ∧ l.supply + l.toMint < U64 ∧
    lmCommitSupply l + l.toBurn = l.supply + l.toMint ∧
    lmTotalSupply l + l.toBurn = l.supply + l.toMint := by
  obtain ⟨h0, h1, _⟩ := lm_commit_supply l h
  obtain ⟨h2, h3⟩ := h
  unfold lmTotalSupply at *
  exact ⟨by omega, h2, by omega, by omega⟩

example : lmCommitSupply ⟨100, 12, 30⟩ + 30 = 100 + 12 :=
  (lm_commit_supply_exact ⟨100, 12, 30⟩ (by simp [LMInv, U64])).2.2.1

/-- THE LIQUIDITY-MARKET COMMIT, for every request history of one operation, subtraction-free: starting an operation on a
supply below 2^64, after ANY list of mint/burn requests (accepted or rejected) the invariant holds, so the `Burn` CPI never
exceeds what it is applied to, the `MintTo` keeps the supply within `u64`, and the committed supply plus the burnt amount
is exactly the old supply plus the minted amount. The state `⟨10, 0, 30⟩` of the witness below is NOT reachable: `burn`
rejects a request that would make `to_burn` exceed the supply (`lm_burn_spec`), which the native harness replays
(`corpus/C21/c21-clocks-only.ops`: `burn 1000001` on a supply of 1000000 answers `err`, then `600000`, `400000` are accepted and
`burn 1` is rejected again). -/
theorem lm_history_commit_exact (supply : Nat) (acts : List LAct) (hs : supply < U64) :
    LMInv (lmRun (lmBegin supply) acts) ∧
    (lmRun (lmBegin supply) acts).toBurn ≤ supply + (lmRun (lmBegin supply) acts).toMint ∧
    supply + (lmRun (lmBegin supply) acts).toMint < U64 ∧
    lmCommitSupply (lmRun (lmBegin supply) acts) + (lmRun (lmBegin supply) acts).toBurn = supply + (lmRun (lmBegin supply) acts).toMint := by
  have hinv : LMInv (lmBegin supply) := ⟨by simpa [lmBegin] using hs, by simp [lmBegin]⟩
  obtain ⟨hI, hsup⟩ := lm_requests acts (lmBegin supply) hinv
  have hsup' : (lmRun (lmBegin supply) acts).supply = supply := hsup
  obtain ⟨e1, e2, e3, _⟩ := lm_commit_supply_exact _ hI
  rw [hsup'] at e1 e2 e3
  exact ⟨hI, e1, e2, e3⟩

example : lmCommitSupply (lmRun (lmBegin 100) [.mint 5, .burn 30, .burn 80, .mint 7]) + 30 = 100 + 12 :=
  (lm_history_commit_exact 100 [.mint 5, .burn 30, .burn 80, .mint 7] (by simp [U64])).2.2.2

/-- AUDIT (strength): without the invariant the truncated model arithmetic DOES hide an underflow —
`lm_commit_supply`'s hypothesis `LMInv` is necessary, not decorative -/
theorem lm_commit_supply_needs_inv_witness :
    lmCommitSupply ⟨10, 0, 30⟩ = 0 ∧ lmTotalSupply ⟨10, 0, 30⟩ = 0 ∧ ¬ LMInv ⟨10, 0, 30⟩ := by
  refine ⟨by decide, by decide, ?_⟩
  intro h; have := h.2; simp at this


end Gmx.C21
