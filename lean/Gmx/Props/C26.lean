import Gmx.Lemmas.PriceDecimal
/-!
# C26 — price decimal conversion never rounds up and never silently truncates

`tryFromPrice p d t q` = `Decimal::try_from_price(price, decimals, token_decimals, precision)`.
The price is `p · 10^-d` per token; the stored value counts steps of `10^-q` (the precision), i.e.
the exact value is `⌊p · 10^q / 10^d⌋` (`exactValue`), and the unit price (20 decimals per
smallest token unit) is `value · 10^(20 − t − q)`. All theorems are for ALL naturals `p` (so
all u128 prices) and all decimal settings.
-/
namespace Gmx.C26
open Gmx Gmx.PriceDecimal

/-- **One truncation over all branches**: on supported settings the result is the exact value
at the precision if it fits `u32`, otherwise `Overflow` — whatever branch the code takes. -/
theorem tryFromPrice_eq {p d t q : Nat} (hd : d ≤ 20) (ht : t ≤ 20) (hq : q ≤ 20) (htq : t + q ≤ 20) :
    tryFromPrice p d t q =
      if exactValue p d q < 2 ^ 32 then .ok ⟨exactValue p d q, 20 - t - q⟩ else .error .overflow :=
  tryFromPrice_eq_spec hd ht hq htq

/-- decimal settings beyond the maximum are rejected, and only those. -/
theorem exceed_iff (p d t q : Nat) :
    tryFromPrice p d t q = .error .exceedMaxDecimals ↔ (t > 20 ∨ q > 20 ∨ d > 20 ∨ t + q > 20) := by
  by_cases h : t > 20 ∨ q > 20 ∨ d > 20
  · unfold tryFromPrice; rw [if_pos h]; simp; omega
  · by_cases h2 : t + q > 20
    · unfold tryFromPrice; rw [if_neg h, if_pos h2]; simp; omega
    · rw [tryFromPrice_eq (by omega) (by omega) (by omega) (by omega)]
      split <;> simp <;> omega

/-- a successful conversion: supported settings, value = floor of the exact price at the
precision, multiplier `20 − t − q`, value fits `u32`. -/
theorem tryFromPrice_spec {p d t q : Nat} {r : Decimal} (h : tryFromPrice p d t q = .ok r) :
    d ≤ 20 ∧ t ≤ 20 ∧ q ≤ 20 ∧ t + q ≤ 20 ∧
    r.value = exactValue p d q ∧ r.mult = 20 - t - q ∧ r.value < 2 ^ 32 := by
  by_cases hv : t > 20 ∨ q > 20 ∨ d > 20 ∨ t + q > 20
  · rw [(exceed_iff p d t q).2 hv] at h; cases h
  · have hd : d ≤ 20 := by omega
    have ht : t ≤ 20 := by omega
    have hq : q ≤ 20 := by omega
    have htq : t + q ≤ 20 := by omega
    rw [tryFromPrice_eq hd ht hq htq] at h
    split at h
    · cases h; exact ⟨hd, ht, hq, htq, rfl, rfl, by assumption⟩
    · cases h

/-- **never rounds up, off by less than one precision step** (in units of the precision):
`value ≤ p·10^q / 10^d < value + 1`, cross-multiplied. -/
theorem value_floor {p d t q : Nat} {r : Decimal} (h : tryFromPrice p d t q = .ok r) :
    r.value * 10 ^ d ≤ p * 10 ^ q ∧ p * 10 ^ q < (r.value + 1) * 10 ^ d := by
  obtain ⟨_, _, _, _, hv, _, _⟩ := tryFromPrice_spec h
  rw [hv]; exact floor_bounds _ _ (pow_pos10 d)

/-- the same statement for the unit price (`to_unit_price`, 20 decimals per smallest unit):
`unit ≤ p · 10^(20−d−t) < unit + 10^mult`, cross-multiplied by `10^(d+t)`. -/
theorem unit_price_le_exact {p d t q : Nat} {r : Decimal} (h : tryFromPrice p d t q = .ok r) :
    toUnitPrice r * 10 ^ (d + t) ≤ p * 10 ^ 20 ∧
    p * 10 ^ 20 < (toUnitPrice r + 10 ^ r.mult) * 10 ^ (d + t) := by
  obtain ⟨hd, ht, hq, htq, _, hm, _⟩ := tryFromPrice_spec h
  obtain ⟨h1, h2⟩ := value_floor h
  unfold toUnitPrice
  rw [hm]
  have e1 : 10 ^ (20 - t - q) * 10 ^ (d + t) = 10 ^ d * 10 ^ (20 - q) := by
    rw [← Nat.pow_add, ← Nat.pow_add]; congr 1; omega
  have e2 : (10:Nat) ^ 20 = 10 ^ q * 10 ^ (20 - q) := by rw [← Nat.pow_add]; congr 1; omega
  constructor
  · calc r.value * 10 ^ (20 - t - q) * 10 ^ (d + t)
        = r.value * 10 ^ d * 10 ^ (20 - q) := by rw [Nat.mul_assoc, e1, ← Nat.mul_assoc]
      _ ≤ p * 10 ^ q * 10 ^ (20 - q) := Nat.mul_le_mul_right _ h1
      _ = p * 10 ^ 20 := by rw [Nat.mul_assoc, ← e2]
  · calc p * 10 ^ 20 = p * 10 ^ q * 10 ^ (20 - q) := by rw [Nat.mul_assoc, ← e2]
      _ < (r.value + 1) * 10 ^ d * 10 ^ (20 - q) := Nat.mul_lt_mul_of_pos_right h2 (pow_pos10 _)
      _ = (r.value + 1) * 10 ^ (20 - t - q) * 10 ^ (d + t) := by rw [Nat.mul_assoc, Nat.mul_assoc, e1]
      _ = (r.value * 10 ^ (20 - t - q) + 10 ^ (20 - t - q)) * 10 ^ (d + t) := by
        rw [Nat.add_mul r.value 1, Nat.one_mul]

/-- **prices that cannot be represented produce an error**: `Overflow` exactly when the exact
value needs more than 32 bits (no spurious overflow from intermediate products). -/
theorem overflow_iff {p d t q : Nat} (hd : d ≤ 20) (ht : t ≤ 20) (hq : q ≤ 20) (htq : t + q ≤ 20) :
    tryFromPrice p d t q = .error .overflow ↔ 2 ^ 32 ≤ exactValue p d q := by
  rw [tryFromPrice_eq hd ht hq htq]
  split <;> simp <;> omega

/-- the result is always one of: ok / ExceedMaxDecimals / Overflow (total, no panic branch). -/
theorem tryFromPrice_total (p d t q : Nat) :
    (∃ r, tryFromPrice p d t q = .ok r) ∨ tryFromPrice p d t q = .error .exceedMaxDecimals ∨
      tryFromPrice p d t q = .error .overflow := by
  by_cases hv : t > 20 ∨ q > 20 ∨ d > 20 ∨ t + q > 20
  · exact Or.inr (Or.inl ((exceed_iff p d t q).2 hv))
  · rw [tryFromPrice_eq (by omega) (by omega) (by omega) (by omega)]
    split
    · exact Or.inl ⟨_, rfl⟩
    · exact Or.inr (Or.inr rfl)

/-- `to_unit_price` cannot overflow `u128` (the `MAX_DECIMAL_MULTIPLIER` comment). -/
theorem toUnitPrice_fits {r : Decimal} (hv : r.value < 2 ^ 32) (hm : r.mult ≤ 20) :
    toUnitPrice r < 2 ^ 128 := by
  unfold toUnitPrice
  have h1 : 10 ^ r.mult ≤ 10 ^ 20 := Nat.pow_le_pow_right (by omega) hm
  have h2 : 2 ^ 32 * 10 ^ 20 < 2 ^ 128 := by decide
  calc r.value * 10 ^ r.mult ≤ r.value * 10 ^ 20 := Nat.mul_le_mul_left _ h1
    _ < 2 ^ 32 * 10 ^ 20 := Nat.mul_lt_mul_of_pos_right hv (by decide)
    _ < 2 ^ 128 := h2

/-- `with_unit_price(price, false)`: floor to the multiplier — never above the given price. -/
theorem withUnitPrice_floor {r r' : Decimal} {price : Nat} (h : withUnitPrice r price false = some r') :
    r'.mult = r.mult ∧ toUnitPrice r' ≤ price ∧ price < toUnitPrice r' + 10 ^ r.mult ∧ r'.value < 2 ^ 32 := by
  unfold withUnitPrice at h
  simp only [Bool.false_eq_true, if_false] at h
  split at h
  · cases h
    have := floor_bounds price (10 ^ r.mult) (pow_pos10 _)
    refine ⟨rfl, this.1, ?_, by assumption⟩
    have e := this.2; rw [Nat.add_mul, Nat.one_mul] at e; exact e
  · cases h

/-- `with_unit_price(price, true)`: ceiling — never below the given price. -/
theorem withUnitPrice_ceil {r r' : Decimal} {price : Nat} (h : withUnitPrice r price true = some r') :
    r'.mult = r.mult ∧ price ≤ toUnitPrice r' ∧ toUnitPrice r' < price + 10 ^ r.mult ∧ r'.value < 2 ^ 32 := by
  unfold withUnitPrice at h
  simp only [if_true] at h
  split at h
  · cases h
    have hc : 10 ^ r.mult ≠ 0 := Nat.ne_of_gt (pow_pos10 _)
    have h1 := Nat.div_add_mod (price + 10 ^ r.mult - 1) (10 ^ r.mult)
    have h2 := Nat.mod_lt (price + 10 ^ r.mult - 1) (pow_pos10 r.mult)
    have h3 := pow_pos10 r.mult
    unfold toUnitPrice ceilDiv
    simp only
    rw [Nat.mul_comm] at h1
    refine ⟨by first | rfl | trivial, by omega, by omega, by assumption⟩
  · cases h

/-- it fails exactly when the rounded value does not fit `u32`. -/
theorem withUnitPrice_none_iff (r : Decimal) (price : Nat) (up : Bool) :
    withUnitPrice r price up = none ↔
      2 ^ 32 ≤ (if up then ceilDiv price (10 ^ r.mult) else price / 10 ^ r.mult) := by
  unfold withUnitPrice
  simp only
  split <;> simp <;> omega

/-- re-encoding a decimal's own unit price gives it back, in both rounding modes. -/
theorem withUnitPrice_roundtrip (r : Decimal) (up : Bool) (hv : r.value < 2 ^ 32) :
    withUnitPrice r (toUnitPrice r) up = some r := by
  unfold withUnitPrice toUnitPrice
  have hp := pow_pos10 r.mult
  have e1 : r.value * 10 ^ r.mult / 10 ^ r.mult = r.value := Nat.mul_div_cancel _ hp
  have e2 : ceilDiv (r.value * 10 ^ r.mult) (10 ^ r.mult) = r.value := by
    unfold ceilDiv
    rw [show r.value * 10 ^ r.mult + 10 ^ r.mult - 1 = (10 ^ r.mult - 1) + r.value * 10 ^ r.mult by omega,
      Nat.add_mul_div_right _ _ hp, Nat.div_eq_of_lt (by omega)]
    omega
  cases up <;> simp [e1, e2, hv]

/-- `find_divisor_decimals` is the least `i ≤ 20` with `num ≤ 10^i · u128::MAX`; dividing by
`10^i` then fits `u128` (so the `unwrap` in `convert_to_u128_storage` cannot panic), and one
digit less would leave at least `u128::MAX`. -/
theorem findDivisor_spec (num : Nat) (h : num < 2 ^ 192) :
    findDivisorDecimals num ≤ 20 ∧ num / 10 ^ findDivisorDecimals num < 2 ^ 128 ∧
    (findDivisorDecimals num ≠ 0 → 2 ^ 128 - 1 ≤ num / 10 ^ (findDivisorDecimals num - 1)) :=
  findDivisor_spec' num h

/-- `convert_to_u128_storage`: never panics; `None` exactly when more digits would have to be
dropped than there are decimals; otherwise the floor quotient with the decimals reduced. -/
theorem convertToU128Storage_spec (num decimals : Nat) (h : num < 2 ^ 192) :
    (findDivisorDecimals num > decimals → convertToU128Storage num decimals = none) ∧
    (findDivisorDecimals num ≤ decimals → convertToU128Storage num decimals =
      some (some (num / 10 ^ findDivisorDecimals num, decimals - findDivisorDecimals num))) := by
  obtain ⟨_, h2, _⟩ := findDivisor_spec num h
  unfold convertToU128Storage
  constructor
  · intro hg; simp [hg]
  · intro hl; simp [show ¬ findDivisorDecimals num > decimals by omega, h2]

/-- `pyth_price_value_to_decimal`: the value is the exact floor for the price
`value · 10^exponent` at the configured precision. -/
theorem pythValueToDecimal_spec {value t q : Nat} {e : Int} {r : Decimal}
    (h : pythValueToDecimal value e t q = .ok r) :
    (e ≤ 0 → r.value = exactValue value (-e).toNat q) ∧
    (0 < e → r.value = value * 10 ^ e.toNat * 10 ^ q) ∧ r.mult = 20 - t - q ∧ r.value < 2 ^ 32 := by
  unfold pythValueToDecimal at h
  cases hpre : pythPre value e with
  | error x => rw [hpre] at h; cases h
  | ok vd =>
    obtain ⟨v, d⟩ := vd
    rw [hpre] at h
    simp only at h
    cases hr : tryFromPrice v d t q with
    | error x => rw [hr] at h; cases h
    | ok r' =>
      rw [hr] at h; cases h
      obtain ⟨_, _, _, _, hv, hm, hlt⟩ := tryFromPrice_spec hr
      obtain ⟨p1, p2⟩ := pythPre_spec hpre
      refine ⟨fun hc => ?_, fun hc => ?_, hm, hlt⟩
      · obtain ⟨rfl, rfl⟩ := p1 hc; exact hv
      · obtain ⟨rfl, rfl⟩ := p2 hc; rw [hv, exact_ge (Nat.zero_le _), Nat.sub_zero]

/-- the former F-C26 input (exponent `i32::MIN`, fixed by /repo 95e9782) now yields the
"exponent too small" error … -/
theorem pyth_min_exponent_error : pythValueToDecimal 1 (-(2 ^ 31)) 8 2 = .error .exponentTooSmall := by
  decide

/-- … and in general: every exponent is answered by a value or an error (the result type has no
panic outcome any more); `exponent too small` exactly for `e ≤ −256`, and every exponent below
`−20` (more decimals than the supported maximum) is an error. -/
theorem pyth_exponent_errors (value : Nat) (e : Int) (t q : Nat) :
    (pythValueToDecimal value e t q = .error .exponentTooSmall ↔ e ≤ -256) ∧
    (e < -20 → ∃ err, pythValueToDecimal value e t q = .error err) := by
  have hpre : e ≤ -256 → pythPre value e = .error .exponentTooSmall := by
    intro h; unfold pythPre; rw [if_pos (by omega), if_neg (by omega)]
  have hpre2 : ¬ e ≤ -256 → e ≤ 0 → pythPre value e = .ok (value, (-e).toNat) := by
    intro h h0; unfold pythPre; rw [if_pos h0, if_pos (by omega)]
  refine ⟨⟨fun h => ?_, fun h => ?_⟩, fun h => ?_⟩
  · by_cases hs : e ≤ -256
    · exact hs
    · exfalso
      unfold pythValueToDecimal at h
      by_cases h0 : e ≤ 0
      · rw [hpre2 hs h0] at h
        simp only at h
        cases hr : tryFromPrice value (-e).toNat t q <;> rw [hr] at h <;> cases h
      · cases hp : pythPre value e with
        | error x =>
          rw [hp] at h; simp only at h; cases h
          unfold pythPre at hp
          rw [if_neg h0] at hp
          split at hp
          · cases hp
          · split at hp <;> cases hp
        | ok vd =>
          obtain ⟨v, d⟩ := vd
          rw [hp] at h; simp only at h
          cases hr : tryFromPrice v d t q <;> rw [hr] at h <;> cases h
  · unfold pythValueToDecimal; rw [hpre h]
  · by_cases hs : e ≤ -256
    · exact ⟨_, by unfold pythValueToDecimal; rw [hpre hs]⟩
    · unfold pythValueToDecimal
      rw [hpre2 hs (by omega)]
      simp only
      have hx : tryFromPrice value (-e).toNat t q = .error .exceedMaxDecimals :=
        (exceed_iff value (-e).toNat t q).2 (by omega)
      rw [hx]
      exact ⟨_, rfl⟩

/-- **`pyth_price_with_confidence_to_price`: exact error conditions on the price / confidence pair.** A negative price, a
confidence larger than the price (the exact lower bound `price − confidence` would be negative — it is NOT clamped to 0) and a
`u64` overflow of the upper bound are errors; otherwise the two bounds are the conversions of exactly `price − confidence`
and `price + confidence`. -/
theorem pyth_confidence_errors (price : Int) (conf : Nat) (e : Int) (t q : Nat) (hp : price < 2 ^ 63) :
    (pythWithConfidence price conf e t q = .error .midPrice ↔ price < 0) ∧
    (pythWithConfidence price conf e t q = .error .minPrice ↔ 0 ≤ price ∧ (price : Int) < conf) ∧
    (pythWithConfidence price conf e t q = .error .maxPrice ↔ 0 ≤ price ∧ (conf : Int) ≤ price ∧ 2 ^ 64 ≤ price + conf) ∧
    (∀ mn mx, pythWithConfidence price conf e t q = .ok (mn, mx) →
      0 ≤ price ∧ (conf : Int) ≤ price ∧
      pythValueToDecimal (price.toNat - conf) e t q = .ok mn ∧ pythValueToDecimal (price.toNat + conf) e t q = .ok mx) := by
  unfold pythWithConfidence
  by_cases h1 : price < 0 ∨ ¬ price < 2 ^ 64
  · rw [if_pos h1]
    refine ⟨⟨fun _ => (by omega), fun _ => rfl⟩, ⟨fun h => (by cases h), fun h => (by omega)⟩, ⟨fun h => (by cases h), fun h => (by omega)⟩,
      fun mn mx h => (by cases h)⟩
  · rw [if_neg h1]
    by_cases h2 : conf > price.toNat
    · rw [if_pos h2]
      refine ⟨⟨fun h => (by cases h), fun h => (by omega)⟩, ⟨fun _ => (by omega), fun _ => rfl⟩, ⟨fun h => (by cases h), fun h => (by omega)⟩,
        fun mn mx h => (by cases h)⟩
    · rw [if_neg h2]
      by_cases h3 : ¬ price.toNat + conf < 2 ^ 64
      · rw [if_pos h3]
        refine ⟨⟨fun h => (by cases h), fun h => (by omega)⟩, ⟨fun h => (by cases h), fun h => (by omega)⟩, ⟨fun _ => (by omega), fun _ => rfl⟩,
          fun mn mx h => (by cases h)⟩
      · rw [if_neg h3]
        cases ha : pythValueToDecimal (price.toNat - conf) e t q with
        | error x =>
          simp only [liftPyth]
          refine ⟨⟨fun h => (by cases h), fun h => (by omega)⟩, ⟨fun h => (by cases h), fun h => (by omega)⟩,
            ⟨fun h => (by cases h), fun h => (by omega)⟩, fun mn mx h => (by cases h)⟩
        | ok mn0 =>
          simp only [liftPyth]
          cases hb : pythValueToDecimal (price.toNat + conf) e t q with
          | error x =>
            simp only [liftPyth]
            refine ⟨⟨fun h => (by cases h), fun h => (by omega)⟩, ⟨fun h => (by cases h), fun h => (by omega)⟩,
              ⟨fun h => (by cases h), fun h => (by omega)⟩, fun mn mx h => (by cases h)⟩
          | ok mx0 =>
            simp only [liftPyth]
            refine ⟨⟨fun h => (by cases h), fun h => (by omega)⟩, ⟨fun h => (by cases h), fun h => (by omega)⟩,
              ⟨fun h => (by cases h), fun h => (by omega)⟩, fun mn mx h => ?_⟩
            cases h
            exact ⟨by omega, by omega, rfl, rfl⟩

/-! ### Non-vacuity (the repo's own examples and boundary cases) -/
example : tryFromPrice 5000000000000000000000 18 8 4 = .ok ⟨50000000, 8⟩ := by decide
example : tryFromPrice 177347 10 5 9 = .ok ⟨17734, 6⟩ := by decide          -- truncation, d > t, q < d
example : tryFromPrice 500000000 5 8 4 = .ok ⟨50000000, 8⟩ := by decide     -- d < t
example : tryFromPrice (2 ^ 128 - 1) 0 20 0 = .error .overflow := by decide -- pre-multiplication overflows
example : tryFromPrice (2 ^ 32) 0 0 0 = .error .overflow := by decide
example : tryFromPrice (2 ^ 32 - 1) 0 0 0 = .ok ⟨2 ^ 32 - 1, 20⟩ := by decide
example : tryFromPrice 1 21 0 0 = .error .exceedMaxDecimals := by decide
example : tryFromPrice 1 0 11 10 = .error .exceedMaxDecimals := by decide
example : withUnitPrice ⟨0, 8⟩ 123456789012 true = some ⟨1235, 8⟩ := by decide
example : findDivisorDecimals (2 ^ 128 - 1) = 0 ∧ findDivisorDecimals (2 ^ 128) = 1 ∧
    findDivisorDecimals (2 ^ 192 - 1) = 20 := by decide
example : pythValueToDecimal 6000012345678 (-8) 8 2 = .ok ⟨6000012, 10⟩ := by decide

/-! ### Non-vacuity added by the audit (B6): the theorems instantiated on concrete inputs -/
-- `tryFromPrice_eq` / `overflow_iff`: supported settings, truncating branch `d > t`, `q < d`
example : tryFromPrice 177347 10 5 9 = .ok ⟨17734, 6⟩ :=
  (tryFromPrice_eq (p := 177347) (d := 10) (t := 5) (q := 9) (by decide) (by decide) (by decide) (by decide)).trans
    (by decide)
example : 2 ^ 32 ≤ exactValue (2 ^ 128 - 1) 0 0 :=
  (overflow_iff (p := 2 ^ 128 - 1) (d := 0) (t := 20) (q := 0) (by decide) (by decide) (by decide) (by decide)).1
    (by decide)
-- `tryFromPrice_spec`, `value_floor`, `unit_price_le_exact` on a conversion that really truncates
-- (177347·10^-10 at 9 decimals is 17734.7 steps): strict on both sides
example : (17734 : Nat) = exactValue 177347 10 9 ∧ (6 : Nat) = 20 - 5 - 9 :=
  have h := tryFromPrice_spec (p := 177347) (d := 10) (t := 5) (q := 9) (r := ⟨17734, 6⟩) (by decide)
  ⟨h.2.2.2.2.1, h.2.2.2.2.2.1⟩
example : 17734 * 10 ^ 10 ≤ 177347 * 10 ^ 9 ∧ 177347 * 10 ^ 9 < (17734 + 1) * 10 ^ 10 :=
  value_floor (p := 177347) (d := 10) (t := 5) (q := 9) (r := ⟨17734, 6⟩) (by decide)
example : toUnitPrice ⟨17734, 6⟩ * 10 ^ (10 + 5) ≤ 177347 * 10 ^ 20 ∧
    177347 * 10 ^ 20 < (toUnitPrice ⟨17734, 6⟩ + 10 ^ 6) * 10 ^ (10 + 5) :=
  unit_price_le_exact (p := 177347) (d := 10) (t := 5) (q := 9) (r := ⟨17734, 6⟩) (by decide)
-- `toUnitPrice_fits` at the extreme corner (largest value, largest multiplier)
example : toUnitPrice ⟨2 ^ 32 - 1, 20⟩ < 2 ^ 128 := toUnitPrice_fits (r := ⟨2 ^ 32 - 1, 20⟩) (by decide) (by decide)
-- `withUnitPrice_floor` (no `false` instance existed), `withUnitPrice_ceil`, both truncating
example : withUnitPrice ⟨0, 8⟩ 123456789012 false = some ⟨1234, 8⟩ := by decide
example : toUnitPrice ⟨1234, 8⟩ ≤ 123456789012 ∧ 123456789012 < toUnitPrice ⟨1234, 8⟩ + 10 ^ 8 :=
  have h := withUnitPrice_floor (r := ⟨0, 8⟩) (r' := ⟨1234, 8⟩) (price := 123456789012) (by decide)
  ⟨h.2.1, h.2.2.1⟩
example : 123456789012 ≤ toUnitPrice ⟨1235, 8⟩ ∧ toUnitPrice ⟨1235, 8⟩ < 123456789012 + 10 ^ 8 :=
  have h := withUnitPrice_ceil (r := ⟨0, 8⟩) (r' := ⟨1235, 8⟩) (price := 123456789012) (by decide)
  ⟨h.2.1, h.2.2.1⟩
-- `withUnitPrice_none_iff`: the failing side (value needs 33 bits) in both rounding modes
example : withUnitPrice ⟨0, 2⟩ (2 ^ 32 * 100) false = none ∧ withUnitPrice ⟨0, 2⟩ (2 ^ 32 * 100 - 99) true = none ∧
    withUnitPrice ⟨0, 2⟩ (2 ^ 32 * 100 - 100) true = some ⟨2 ^ 32 - 1, 2⟩ := by decide
example : 2 ^ 32 ≤ (2 ^ 32 * 100) / 10 ^ 2 :=
  (withUnitPrice_none_iff ⟨0, 2⟩ (2 ^ 32 * 100) false).1 (by decide)
-- `withUnitPrice_roundtrip`
example : withUnitPrice ⟨1235, 8⟩ (toUnitPrice ⟨1235, 8⟩) true = some ⟨1235, 8⟩ :=
  withUnitPrice_roundtrip ⟨1235, 8⟩ true (by decide)
-- `findDivisor_spec` / `convertToU128Storage_spec`: both branches, with a non-zero divisor
example : findDivisorDecimals (2 ^ 140) = 4 ∧ convertToU128Storage (2 ^ 140) 3 = none ∧
    convertToU128Storage (2 ^ 140) 18 = some (some (2 ^ 140 / 10 ^ 4, 14)) := by decide
example : convertToU128Storage (2 ^ 140) 3 = none :=
  (convertToU128Storage_spec (2 ^ 140) 3 (by decide)).1 (by decide)
example : 2 ^ 140 / 10 ^ findDivisorDecimals (2 ^ 140) < 2 ^ 128 :=
  (findDivisor_spec (2 ^ 140) (by decide)).2.1
-- `pythValueToDecimal_spec`: the positive-exponent clause (only `e ≤ 0` was witnessed)
example : pythValueToDecimal 5 2 0 1 = .ok ⟨5000, 19⟩ := by decide
example : (5000 : Nat) = 5 * 10 ^ (2 : Int).toNat * 10 ^ 1 :=
  (pythValueToDecimal_spec (value := 5) (t := 0) (q := 1) (e := 2) (r := ⟨5000, 19⟩) (by decide)).2.1 (by decide)
-- `pyth_exponent_errors`: an exponent in `(-256, -20)` is a (conversion) error, `-256` is "too small"
example : pythValueToDecimal 1 (-21) 0 0 = .error .converting ∧
    pythValueToDecimal 1 (-256) 0 0 = .error .exponentTooSmall ∧
    pythValueToDecimal 1 (-20) 0 0 = .ok ⟨0, 20⟩ := by decide

/-- AUDIT (B6), stronger than `value_floor` alone: the conversion is **order preserving** — a
higher feed price never converts to a lower stored value (same decimal settings), so rounding
down cannot invert two prices. -/
theorem value_monotone {p p' d t q : Nat} {r r' : Decimal} (hp : p ≤ p')
    (h : tryFromPrice p d t q = .ok r) (h' : tryFromPrice p' d t q = .ok r') :
    r.value ≤ r'.value ∧ r.mult = r'.mult ∧ toUnitPrice r ≤ toUnitPrice r' := by
  obtain ⟨_, _, _, _, hv, hm, _⟩ := tryFromPrice_spec h
  obtain ⟨_, _, _, _, hv', hm', _⟩ := tryFromPrice_spec h'
  have hle : r.value ≤ r'.value := by
    rw [hv, hv']; unfold exactValue
    exact Nat.div_le_div_right (Nat.mul_le_mul_right _ hp)
  refine ⟨hle, by rw [hm, hm'], ?_⟩
  unfold toUnitPrice
  rw [hm, hm']
  exact Nat.mul_le_mul_right _ hle
example : (17734 : Nat) ≤ 17735 ∧ (6 : Nat) = 6 ∧ toUnitPrice ⟨17734, 6⟩ ≤ toUnitPrice ⟨17735, 6⟩ :=
  value_monotone (p := 177347) (p' := 177350) (d := 10) (t := 5) (q := 9) (r := ⟨17734, 6⟩) (r' := ⟨17735, 6⟩)
    (by decide) (by decide) (by decide)

/-- AUDIT (B6): a price whose larger neighbour converts also converts (no overflow "hole" below a
representable price). -/
theorem ok_downward_closed {p p' d t q : Nat} {r' : Decimal} (hp : p ≤ p')
    (h' : tryFromPrice p' d t q = .ok r') : ∃ r, tryFromPrice p d t q = .ok r := by
  obtain ⟨hd, ht, hq, htq, hv', _, hlt⟩ := tryFromPrice_spec h'
  rw [tryFromPrice_eq hd ht hq htq]
  have : exactValue p d q ≤ exactValue p' d q := by
    unfold exactValue; exact Nat.div_le_div_right (Nat.mul_le_mul_right _ hp)
  rw [if_pos (by omega)]
  exact ⟨_, rfl⟩
example : ∃ r, tryFromPrice 177347 10 5 9 = .ok r :=
  ok_downward_closed (p' := 177350) (r' := ⟨17735, 6⟩) (by decide) (by decide)

-- `pyth_confidence_errors`: confidence = price − 1, price, price + 1, price 0 with confidence > 0, success
example : pythWithConfidence 6000012345678 12345678 (-8) 8 2 = .ok (⟨6000000, 10⟩, ⟨6000024, 10⟩) := by decide
example : pythWithConfidence 5 5 0 0 0 = .ok (⟨0, 20⟩, ⟨10, 20⟩) ∧ pythWithConfidence 5 4 0 0 0 = .ok (⟨1, 20⟩, ⟨9, 20⟩) := by decide
example : pythWithConfidence 5 6 0 0 0 = .error .minPrice ∧ pythWithConfidence 0 1 0 0 0 = .error .minPrice := by decide
example : pythWithConfidence (-1) 0 0 0 0 = .error .midPrice ∧ pythWithConfidence (2 ^ 63 - 1) (2 ^ 63 + 1) 0 0 0 = .error .minPrice ∧
    pythWithConfidence (2 ^ 63 - 1) (2 ^ 63 - 1) 0 0 0 = .error (.value .converting) := by decide

end Gmx.C26
