import Gmx.Model.Action
import Gmx.Gen.C23Shapes
import Gmx.Model.Life
import Gmx.Lemmas.Life2
/-!
# C23 — user actions complete or cancel exactly once and escrow always goes home
-/
namespace Gmx.C23
open Gmx

/-- the state enum only leaves `pending`, and a terminal state has no transition. -/
theorem transitions_only_from_pending (s t : AState) :
    (s.complete = some t → s = .pending ∧ t = .completed) ∧
    (s.cancel = some t → s = .pending ∧ t = .cancelled) := by
  cases s <;> cases t <;> simp [AState.complete, AState.cancel]

theorem terminal_no_transition (s : AState) (h : s.terminal = true) :
    s.complete = none ∧ s.cancel = none := by
  cases s <;> simp_all [AState.terminal, AState.complete, AState.cancel]

/-- one step never changes a terminal state. -/
theorem step_terminal_absorbing (w : ActWorld) (op : ActOp) (h : w.state.terminal = true) :
    (actStep' w op).state = w.state := by
  unfold actStep' actStep
  cases op with
  | execute o fee =>
    by_cases hc : w.closed
    · simp [hc]
    · cases o <;> cases hs : w.state <;> simp_all [AState.terminal, AState.complete, AState.cancel]
  | close a b c =>
    by_cases hc : w.closed
    · simp [hc]
    · simp only [hc]
      cases closePreprocess a b w.state c <;> simp

/-- **terminal states are absorbing** over any history. -/
theorem terminal_absorbing (w : ActWorld) (ops : List ActOp) (h : w.state.terminal = true) :
    (actRun w ops).state = w.state := by
  induction ops generalizing w with
  | nil => rfl
  | cons op ops ih =>
    show (actRun (actStep' w op) ops).state = w.state
    have h1 := step_terminal_absorbing w op h
    rw [ih (actStep' w op) (by rw [h1]; exact h), h1]

/-- number of state changes along a history -/
def changes : ActWorld → List ActOp → Nat
  | _, [] => 0
  | w, op :: ops => (if (actStep' w op).state = w.state then 0 else 1) + changes (actStep' w op) ops

theorem changes_terminal (w : ActWorld) (ops : List ActOp) (h : w.state.terminal = true) :
    changes w ops = 0 := by
  induction ops generalizing w with
  | nil => rfl
  | cons op ops ih =>
    have h1 := step_terminal_absorbing w op h
    simp only [changes, h1, if_true, Nat.zero_add]
    exact ih _ (by rw [h1]; exact h)

/-- **exactly once** — the safety half: in any history an action changes state AT MOST once
(pending → completed or pending → cancelled); that a created action eventually IS executed or cancelled is a
liveness statement about keepers and is not claimed. Together with `transitions_only_from_pending` this is
"never executed twice, never cancelled after completion, never completed after cancellation". -/
theorem exactly_once (w : ActWorld) (ops : List ActOp) : changes w ops ≤ 1 := by
  induction ops generalizing w with
  | nil => exact Nat.zero_le _
  | cons op ops ih =>
    simp only [changes]
    by_cases hs : (actStep' w op).state = w.state
    · simp only [hs, if_true, Nat.zero_add]; exact ih _
    · simp only [hs, if_false]
      have ht : (actStep' w op).state.terminal = true := by
        by_cases hw : w.state.terminal = true
        · exact absurd (step_terminal_absorbing w op hw) hs
        · have hp : w.state = .pending := by cases h : w.state <;> simp_all [AState.terminal]
          revert hs
          unfold actStep' actStep
          cases op with
          | execute o fee =>
            by_cases hc : w.closed
            · simp [hc]
            · cases o <;> simp [hc, hp, AState.complete, AState.cancel, payFee, AState.terminal]
          | close a b c =>
            by_cases hc : w.closed
            · simp [hc]
            · simp only [hc]; cases closePreprocess a b w.state c <;> simp
      rw [changes_terminal _ _ ht]; exact Nat.le_refl 1

/-- **close policy**: closing succeeds exactly for the owner, or for a keeper when the action is
terminal (or the instruction skips the completion check, as the GLV-shift close does). -/
theorem close_policy (w : ActWorld) (isOwner hasRole skip : Bool) (hc : w.closed = false) :
    (actStep w (.close isOwner hasRole skip)).isSome = true ↔
      (isOwner = true ∨ (hasRole = true ∧ (skip = true ∨ w.state.terminal = true))) := by
  unfold actStep closePreprocess
  cases isOwner <;> cases hasRole <;> cases skip <;> cases h : w.state.terminal <;> simp [hc, h]

/-- a pending action can be closed only by its owner (when the completion check is not skipped). -/
theorem pending_close_only_owner (w : ActWorld) (isOwner hasRole : Bool)
    (hp : w.state = .pending) (h : (actStep w (.close isOwner hasRole false)).isSome = true) :
    isOwner = true := by
  by_cases hc : w.closed = false
  · have := (close_policy w isOwner hasRole false hc).1 h
    simp [hp, AState.terminal] at this; exact this
  · simp [actStep, hc] at h

/-- **the funds receiver is not the owner**: an action created with a separate receiver can be closed by that
receiver only under the keeper rules (it holds the keeper role AND the action is terminal or the instruction
skips the completion check) — never as the owner, and never while the action is pending. -/
theorem receiver_cannot_close_as_owner (hasRole : Bool) (s : AState) (skip : Bool) :
    closePreprocessBy .receiver true hasRole s skip ≠ .asOwner ∧
    (closePreprocessBy .receiver true hasRole .pending false = .denied) ∧
    (closePreprocessBy .receiver true false s skip = .denied) := by
  cases hasRole <;> cases s <;> cases skip <;> decide

/-- … while the owner is always the owner, whatever receiver is recorded; and without a separate receiver the
"receiver" IS the owner -/
theorem owner_closes_regardless_of_receiver (rd hasRole : Bool) (s : AState) (skip : Bool) :
    closePreprocessBy .owner rd hasRole s skip = .asOwner ∧
    closePreprocessBy .receiver false hasRole s skip = .asOwner := by
  cases rd <;> cases hasRole <;> cases s <;> cases skip <;> decide

/-- a stranger (not the owner, no keeper role) can never close. -/
theorem stranger_cannot_close (w : ActWorld) (skip : Bool) :
    actStep w (.close false false skip) = none := by
  unfold actStep closePreprocess; by_cases hc : w.closed <;> simp [hc]

/-- closing returns every escrowed token and the unused execution fee to the owner. -/
theorem close_returns_everything (w w' : ActWorld) (a b c : Bool)
    (h : actStep w (.close a b c) = some w') :
    w'.ownerTokens = w.ownerTokens + w.escrow ∧ w'.ownerLamports = w.ownerLamports + w.lamports ∧
    w'.escrow = 0 ∧ w'.lamports = 0 ∧ w'.closed = true ∧ w'.vault = w.vault := by
  unfold actStep at h
  by_cases hc : w.closed
  · simp [hc] at h
  · simp only [hc] at h
    cases hd : closePreprocess a b w.state c <;> simp [hd] at h <;> subst h <;> simp

/-- a failed (soft) execution cancels the action, returns the escrow and writes no market. -/
theorem soft_failure_cancels (w w' : ActWorld) (fee : Nat)
    (h : actStep w (.execute .soft fee) = some w') :
    w.state = .pending ∧ w'.state = .cancelled ∧ w'.escrow = w.escrow ∧ w'.vault = w.vault ∧
    w'.marketWrites = w.marketWrites ∧ w'.ownerTokens = w.ownerTokens := by
  unfold actStep at h
  by_cases hc : w.closed
  · simp [hc] at h
  · cases hs : w.state <;> simp [hc, hs, AState.cancel, payFee] at h
    subst h; simp

/-- tokens are conserved by every instruction: owner + escrow + vault changes only by the
executed output replacing the consumed input. -/
theorem tokens_conserved_unless_executed (w : ActWorld) (op : ActOp) :
    (∀ out fee, op ≠ .execute (.success out) fee) →
    (actStep' w op).ownerTokens + (actStep' w op).escrow + (actStep' w op).vault
      = w.ownerTokens + w.escrow + w.vault := by
  intro hne
  unfold actStep' actStep
  cases op with
  | execute o fee =>
    by_cases hc : w.closed
    · simp [hc]
    · cases o with
      | success out => exact absurd rfl (hne out fee)
      | soft => cases hs : w.state <;> simp [hc, hs, AState.cancel, payFee]
      | hard => simp [hc]
  | close a b c =>
    by_cases hc : w.closed
    · simp [hc]
    · simp only [hc]; cases closePreprocess a b w.state c <;> simp <;> omega

/-- lamports are conserved by every instruction. -/
theorem lamports_conserved (w : ActWorld) (op : ActOp) :
    (actStep' w op).lamports + (actStep' w op).ownerLamports + (actStep' w op).keeperLamports
      = w.lamports + w.ownerLamports + w.keeperLamports := by
  unfold actStep' actStep
  cases op with
  | execute o fee =>
    by_cases hc : w.closed
    · simp [hc]
    · cases o <;> cases hs : w.state <;>
        simp [hc, hs, AState.cancel, AState.complete, payFee] <;> split <;> omega
  | close a b c =>
    by_cases hc : w.closed
    · simp [hc]
    · simp only [hc]; cases closePreprocess a b w.state c <;> simp <;> omega

/-- a closed action never runs again. -/
theorem closed_is_final (w : ActWorld) (ops : List ActOp) (h : w.closed = true) :
    actRun w ops = w := by
  induction ops with
  | nil => rfl
  | cons op ops ih =>
    have : actStep' w op = w := by
      unfold actStep' actStep; cases op <;> simp [h]
    show actRun (actStep' w op) ops = w
    rw [this]; exact ih

/-! ### The handler shapes the machine was transcribed from (table REGENERATED from the source) -/

open Gmx.Gen.C23 in
/-- every handler that can cancel an action after moving its escrow into a market hands the
escrow back in the cancelling branch. -/
theorem cancel_returns_escrow_everywhere :
    ∀ s ∈ sites, s.cancels = true → s.transfersEscrowIn = true → s.cancelReturnsEscrow = true := by
  decide

open Gmx.Gen.C23 in
/-- every executing handler pays the execution fee after the state change (so the refund on
close is what is left), except the two sites that carry no fee logic of their own. -/
theorem fee_paid_last_everywhere :
    ∀ s ∈ sites, s.paysFeeLast = true ∨
      s.fn = "unchecked_cancel_order_if_no_position" ∨ (s.file = "ops/order.rs" ∧ s.fn = "execute") := by
  decide

open Gmx.Gen.C23 in
/-- the only handlers that change an action's state are the reviewed ones (a new site makes
this fail and must be added to the model). -/
theorem state_changing_sites_known :
    sites.map (fun s => (s.file, s.fn)) =
      [("instructions/exchange/execute_deposit.rs", "unchecked_execute_deposit"),
       ("instructions/exchange/execute_order.rs", "invoke"),
       ("instructions/exchange/execute_order.rs", "invoke"),
       ("instructions/exchange/execute_shift.rs", "unchecked_execute_shift"),
       ("instructions/exchange/execute_withdrawal.rs", "unchecked_execute_withdrawal"),
       ("instructions/exchange/order.rs", "unchecked_cancel_order_if_no_position"),
       ("instructions/glv/deposit.rs", "unchecked_execute_glv_deposit"),
       ("instructions/glv/shift.rs", "unchecked_execute_glv_shift"),
       ("instructions/glv/withdrawal.rs", "unchecked_execute_glv_withdrawal"),
       ("ops/order.rs", "execute")] := by
  decide

open Gmx.Gen.C23 in
theorem close_shape : closeShapeOk = true := by decide

/-! ### The deposit life cycle as executed natively (`Gmx.Life`, tied to the real
`create_deposit` / `execute_deposit` / `close_deposit` entrypoints with real SPL token movement by
`harness/h_store/src/bin/life.rs`) -/

section Life
open Gmx.Life

/-- close policy on the concrete life cycle: the owner always, a keeper only for a terminal
deposit, nobody else. -/
theorem life_close_policy (s : St) (who : Who) (u d : Nat) :
    (close s who u d).isSome = true ↔
      ∃ dep, s.deps u d = some dep ∧ (who = .user u ∨ (who = .keeper ∧ dep.state ≠ 0)) := by
  unfold close
  cases h : s.deps u d with
  | none => simp
  | some dep =>
    simp only [Option.some.injEq, exists_eq_left']
    by_cases ha : who = .user u ∨ (who = .keeper ∧ dep.state ≠ 0) <;> simp [ha]

/-- closing hands every escrowed token back to the owner and removes the action. -/
theorem life_close_returns_escrow {s s' : St} {who : Who} {u d : Nat} {dep : Dep}
    (hd : s.deps u d = some dep) (h : close s who u d = some s') :
    (s'.users u).long = (s.users u).long + dep.escLong ∧
    (s'.users u).short = (s.users u).short + dep.escShort ∧ s'.deps u d = none ∧
    s'.vaultLong = s.vaultLong ∧ s'.vaultShort = s.vaultShort := by
  unfold close at h
  simp only [hd] at h
  split at h
  · cases h
  · cases h; simp [setDep, setUser]

/-- an execution changes the action state only out of `pending`, exactly once: afterwards the
state is terminal and a further execution is rejected. -/
theorem life_exec_once {s s' : St} {who : Who} {u d fee : Nat} {throw : Bool} {o : Life.Outcome} {paid : Nat}
    (h : exec s who u d fee throw = some (s', o, paid)) :
    (∃ dep, s.deps u d = some dep ∧ dep.state = 0) ∧
    (∃ dep', s'.deps u d = some dep' ∧ dep'.state ≠ 0) ∧
    ∀ fee' throw', exec s' who u d fee' throw' = none := by
  unfold exec at h
  split at h
  · cases h
  · rename_i hw
    cases hd : s.deps u d with
    | none => simp [hd] at h
    | some dep =>
      simp only [hd] at h
      split at h
      · cases h
      · rename_i hs0
        have hs0' : dep.state = 0 := by simpa using hs0
        refine ⟨⟨dep, rfl, hs0'⟩, ?_⟩
        have key : ∀ s'' : St, (∃ dep', s''.deps u d = some dep' ∧ dep'.state ≠ 0) →
            ∀ fee' throw', exec s'' who u d fee' throw' = none := by
          intro s'' ⟨dep', hd', hne⟩ fee' throw'
          unfold exec
          simp [hw, hd', hne]
        split at h
        · cases h
        · split at h
          · cases h
          · split at h
            · split at h
              · cases h
              · cases h
                have e : ∃ dep', (setDep s u d (some { dep with state := 2 })).deps u d = some dep' ∧ dep'.state ≠ 0 :=
                  ⟨{ dep with state := 2 }, by simp [setDep], by simp⟩
                exact ⟨e, key _ e⟩
            · split at h
              · split at h
                · cases h
                · cases h
                  have e : ∃ dep', (setDep s u d (some { dep with state := 2 })).deps u d = some dep' ∧ dep'.state ≠ 0 :=
                    ⟨{ dep with state := 2 }, by simp [setDep], by simp⟩
                  exact ⟨e, key _ e⟩
              · cases h
                have e : ∃ dep', ({ setDep s u d (some { dep with state := 1, escLong := 0, escShort := 0, mt := true }) with
                      vaultLong := s.vaultLong + dep.escLong, vaultShort := s.vaultShort + dep.escShort,
                      recLong := s.recLong + dep.escLong, recShort := s.recShort + dep.escShort } : St).deps u d = some dep' ∧ dep'.state ≠ 0 :=
                  ⟨{ dep with state := 1, escLong := 0, escShort := 0, mt := true }, by simp [setDep], by simp⟩
                exact ⟨e, key _ e⟩

/-- a soft failure (expired request, unreachable minimum output) cancels the deposit and touches
neither the escrow nor the vaults nor the recorded balances. -/
theorem life_soft_failure {s s' : St} {who : Who} {u d fee : Nat} {throw : Bool} {paid : Nat}
    (h : exec s who u d fee throw = some (s', Life.Outcome.cancelled, paid)) :
    throw = false ∧ s'.vaultLong = s.vaultLong ∧ s'.vaultShort = s.vaultShort ∧
    s'.recLong = s.recLong ∧ s'.recShort = s.recShort ∧
    ∃ dep dep', s.deps u d = some dep ∧ s'.deps u d = some dep' ∧ dep'.state = 2 ∧
      dep'.escLong = dep.escLong ∧ dep'.escShort = dep.escShort := by
  unfold exec at h
  split at h
  · cases h
  · cases hd : s.deps u d with
    | none => simp [hd] at h
    | some dep =>
      simp only [hd] at h
      split at h
      · cases h
      · split at h
        · cases h
        · split at h
          · cases h
          · by_cases ht : throw = true
            · simp [ht] at h
            · have ht' : throw = false := by simpa using ht
              simp only [ht, if_false] at h
              have done : ∀ {x : St}, x = setDep s u d (some { dep with state := 2 }) →
                  throw = false ∧ x.vaultLong = s.vaultLong ∧ x.vaultShort = s.vaultShort ∧
                  x.recLong = s.recLong ∧ x.recShort = s.recShort ∧
                  ∃ dep0 dep', some dep = some dep0 ∧ x.deps u d = some dep' ∧ dep'.state = 2 ∧
                    dep'.escLong = dep0.escLong ∧ dep'.escShort = dep0.escShort := by
                intro x hx; subst hx
                exact ⟨ht', rfl, rfl, rfl, rfl, dep, { dep with state := 2 }, rfl, by simp [setDep], rfl, rfl, rfl⟩
              split at h
              · cases h; exact done rfl
              · split at h
                · cases h; exact done rfl
                · cases h

end Life

/-! ### Non-vacuity -/
example : actRun ⟨.pending, false, 100, 5, 0, 0, 0, 1000, 0⟩
    [.execute .soft 3, .execute (.success 7) 1, .close false true false, .close true false false]
    = ⟨.cancelled, true, 0, 0, 100, 2, 3, 1000, 0⟩ := by decide
example : (actStep ⟨.pending, false, 100, 5, 0, 0, 0, 1000, 0⟩ (.close false true false)) = none := by decide

/-! ### ===== Stage 3: deposits, withdrawals and swap orders interleaved (`Gmx.Life2`) =====
Tied to the real `gmsol_store::entry` by `harness/h_store/src/bin/l2life.rs` (engine `l2`). Histories are
arbitrary `Op` lists of several users on one market; `run` returns the final state and the events of the
successful transactions. -/
section Life2
open Gmx.Life2

/-- (d) **Close policy**: the owner may close at any time, a keeper only once the action is completed or
cancelled, nobody else — for every kind of action. -/
theorem l2_close_policy (s : Life2.St) (who : Life.Who) (u k i : Nat) :
    (Life2.close s who u k i).isSome = true ↔
      ∃ act, s.acts u k i = some act ∧ (who = .user u ∨ (who = .keeper ∧ act.state ≠ 0)) := by
  constructor
  · intro h
    cases hc : Life2.close s who u k i with
    | none => rw [hc] at h; cases h
    | some s' => obtain ⟨act, ha, hp, _⟩ := close_some hc; exact ⟨act, ha, hp⟩
  · rintro ⟨act, ha, hp⟩
    unfold Life2.close
    simp only [ha]
    have : ¬ ¬ (who = .user u ∨ (who = .keeper ∧ act.state ≠ 0)) := fun h => h hp
    simp [this]

/-- (b) **Escrow goes home**: closing empties the slot; the INPUT side of the escrow (deposit collateral, withdrawal
market tokens, swap input) is refunded to the OWNER and the OUTPUT side (minted market tokens, withdrawn collateral,
swap output) is paid to the RECEIVER named at creation; nobody else's balance, no vault and no recorded balance
moves. -/
theorem l2_close_returns_escrow {s s' : Life2.St} {who : Life.Who} {u k i : Nat}
    (h : Life2.close s who u k i = some s') :
    ∃ act, s.acts u k i = some act ∧ s'.acts u k i = none ∧
      s' = Life2.setAct (Life2.credit (Life2.credit s u (Life2.inSide k act)) act.receiver (Life2.outSide k act)) u k i none ∧
      (∀ v, v ≠ u → v ≠ act.receiver → s'.users v = s.users v) ∧
      (∀ a b c, ¬ (a = u ∧ b = k ∧ c = i) → s'.acts a b c = s.acts a b c) ∧
      s'.vaultLong = s.vaultLong ∧ s'.vaultShort = s.vaultShort ∧ s'.recLong = s.recLong ∧ s'.recShort = s.recShort ∧
      Life2.supply s' = Life2.supply s := by
  obtain ⟨act, ha, _, rfl⟩ := close_some h
  refine ⟨act, ha, by simp [acts_setAct], rfl, ?_, ?_, rfl, rfl, rfl, rfl, rfl⟩
  · intro v hv hr; simp [Life2.setAct, Life2.credit, Life2.setUser, hv, hr]
  · intro a b c hne; simp [acts_setAct, acts_credit, hne]

/-- with a receiver different from the owner the two credits are separate: the owner gets exactly the refundable
input side, the receiver exactly the proceeds. -/
theorem l2_close_split {s s' : Life2.St} {who : Life.Who} {u k i : Nat} {act : Life2.Act}
    (h : Life2.close s who u k i = some s') (ha : s.acts u k i = some act) (hne : act.receiver ≠ u) :
    s'.users u = ⟨(s.users u).long + (Life2.inSide k act).1, (s.users u).short + (Life2.inSide k act).2.1,
                  (s.users u).mt + (Life2.inSide k act).2.2⟩ ∧
    s'.users act.receiver = ⟨(s.users act.receiver).long + (Life2.outSide k act).1,
      (s.users act.receiver).short + (Life2.outSide k act).2.1, (s.users act.receiver).mt + (Life2.outSide k act).2.2⟩ := by
  obtain ⟨act', ha', _, rfl⟩ := close_some h
  rw [ha] at ha'; cases ha'
  have hne' : u ≠ act.receiver := fun e => hne e.symm
  constructor
  · simp [Life2.setAct, Life2.credit, Life2.setUser, hne']
  · simp [Life2.setAct, Life2.credit, Life2.setUser, hne]

/-- **The receiver alone is a stranger**: a user who is not the owner of the slot can never close it — being the
funds receiver gives no right (only the owner, or a keeper once the action is completed / cancelled). -/
theorem l2_receiver_cannot_close (s : Life2.St) (u k i r : Nat) (hr : r ≠ u) :
    Life2.close s (.user r) u k i = none := by
  unfold Life2.close
  cases ha : s.acts u k i with
  | none => rfl
  | some act =>
    have h1 : ¬ (Life.Who.user r = Life.Who.user u) := by intro e; cases e; exact hr rfl
    simp [h1]

/-- **Refunds go to the owner, proceeds to the receiver — in every history.** In any state reachable from an empty
market, an action that is NOT completed (pending or cancelled) holds no proceeds, so closing it pays everything back
to the owner; a completed action holds no refundable input, so closing it pays everything to the receiver. -/
theorem l2_who_receives_what (l sh : Nat) (now : Int) (ops : List Life2.Op) (u k i : Nat) (act : Life2.Act)
    (ha : (Life2.run (Life2.init l sh now) ops).1.acts u k i = some act) :
    (act.state ≠ 1 → Life2.outSide k act = (0, 0, 0)) ∧ (act.state = 1 → Life2.inSide k act = (0, 0, 0)) := by
  have h := wf_run (wf_init l sh now) ops u k i act ha
  exact ⟨h.2, h.1⟩

/-- a cancelled (soft-failed) execution moves no token at all: escrow stays whole until close returns it (and no position
changes size). -/
theorem l2_soft_failure {s s' : Life2.St} {who : Life.Who} {u k i fee x y cl cs ch : Nat} {throw fail hard pc : Bool} {paid : Nat}
    (h : Life2.exec s who u k i fee throw fail x y hard cl cs ch pc = some (s', .cancelled, paid)) :
    throw = false ∧ ∃ act, s.acts u k i = some act ∧ s'.acts u k i = some { act with state := 2 } ∧
      s'.users = s.users ∧ s'.vaultLong = s.vaultLong ∧ s'.vaultShort = s.vaultShort ∧
      s'.recLong = s.recLong ∧ s'.recShort = s.recShort ∧ Life2.supply s' = Life2.supply s ∧ s'.posSize = s.posSize := by
  obtain ⟨_, _, act, ha, _, _, _, hcase⟩ := exec_some h
  rcases hcase with ⟨_, ht, hacts, hu, ⟨f1, f2, f3, f4, f5, f6⟩, hsz, _⟩ | ⟨ho, _⟩
  · exact ⟨ht, act, ha, by rw [hacts]; simp [acts_setAct], hu, f1, f2, f3, f4, by simp [Life2.supply, f5, f6], hsz⟩
  · cases ho

/-- (a) **Exactly once**, one transaction: only a pending action executes, it ends completed or cancelled,
and it can never be executed again (by anyone, with any arguments) — every kind, decrease orders included. -/
theorem l2_exec_once {s s' : Life2.St} {who : Life.Who} {u k i fee x y cl cs ch : Nat} {throw fail hard pc : Bool}
    {o : Life2.Outcome} {paid : Nat}
    (h : Life2.exec s who u k i fee throw fail x y hard cl cs ch pc = some (s', o, paid)) :
    who = .keeper ∧ (∃ act, s.acts u k i = some act ∧ act.state = 0) ∧
    (∃ act', s'.acts u k i = some act' ∧ (act'.state = 1 ∨ act'.state = 2)) ∧
    ∀ who' fee' throw' fail' x' y' hard' cl' cs' ch' pc',
      Life2.exec s' who' u k i fee' throw' fail' x' y' hard' cl' cs' ch' pc' = none := by
  obtain ⟨_, hw, act, ha, hst, _, _, hcase⟩ := exec_some h
  have hafter : ∃ act', s'.acts u k i = some act' ∧ (act'.state = 1 ∨ act'.state = 2) := by
    rcases hcase with ⟨_, _, hacts, _⟩ | ⟨_, _, _, hcomp⟩
    · exact ⟨{ act with state := 2 }, by rw [hacts]; simp [acts_setAct], Or.inr rfl⟩
    · obtain ⟨act', h1, _, h2, _⟩ := complete_some hcomp
      exact ⟨act', by rw [h2]; simp [acts_setAct], Or.inl h1⟩
  refine ⟨hw, ⟨act, ha, hst⟩, hafter, ?_⟩
  obtain ⟨act', ha', hs'⟩ := hafter
  intro who' fee' throw' fail' x' y' hard' cl' cs' ch' pc'
  unfold Life2.exec
  by_cases hh : hard' = true
  · simp [hh]
  · by_cases hk : who' = .keeper
    · have : act'.state ≠ 0 := by omega
      simp [hh, hk, ha', this]
    · simp [hh, hk]

/-- (a) **Exactly once**, every history from an empty market: for every slot, the number of executions
(completions + cancellations) never exceeds the number of creations, and closes + (1 if still open) equals
creations — so each incarnation of an action is executed at most once and closed at most once. -/
theorem l2_exactly_once_history (l sh : Nat) (now : Int) (ops : List Life2.Op) (u k i : Nat) :
    ((Life2.run (Life2.init l sh now) ops).2.countP (isExecuted u k i)
        ≤ (Life2.run (Life2.init l sh now) ops).2.countP (isCreated u k i)) ∧
    ((Life2.run (Life2.init l sh now) ops).2.countP (isClosed u k i)
        + openCount (Life2.run (Life2.init l sh now) ops).1 u k i
        = (Life2.run (Life2.init l sh now) ops).2.countP (isCreated u k i)) := by
  obtain ⟨h1, h2⟩ := run_counts (Life2.init l sh now) ops u k i
  have o0 : openCount (Life2.init l sh now) u k i = 0 := by simp [openCount, Life2.init]
  have p0 : pendingCount (Life2.init l sh now) u k i = 0 := by simp [pendingCount, Life2.init]
  exact ⟨by omega, by omega⟩

/-- other users' and other slots' actions are untouched by an execution (interleaving is safe). -/
theorem l2_exec_frame {s s' : Life2.St} {who : Life.Who} {u k i fee x y cl cs ch : Nat} {throw fail hard pc : Bool}
    {o : Life2.Outcome} {paid : Nat}
    (h : Life2.exec s who u k i fee throw fail x y hard cl cs ch pc = some (s', o, paid)) :
    s'.users = s.users ∧ ∀ a b c, ¬ (a = u ∧ b = k ∧ c = i) → s'.acts a b c = s.acts a b c := by
  obtain ⟨_, _, act, _, _, _, _, hcase⟩ := exec_some h
  rcases hcase with ⟨_, _, hacts, hu, _⟩ | ⟨_, _, _, hcomp⟩
  · exact ⟨hu, fun a b c hne => by rw [hacts]; simp [acts_setAct, hne]⟩
  · obtain ⟨act', _, _, h2, h3, _⟩ := complete_some hcomp
    exact ⟨h3, fun a b c hne => by rw [h2]; simp [acts_setAct, hne]⟩

/-! #### stage 3c: market-decrease orders (kind 5) on the position opened by increase orders -/

/-- **A decrease needs a live position**: while the position account of `u` does not exist, no decrease order of `u`
can be created, and no position order of `u` (increase or decrease) can be executed — by anyone, with any arguments. -/
theorem l2_no_position_no_decrease (s : Life2.St) (u : Nat) (hp : s.posOpen u = false) :
    (∀ i a b soft el rc, Life2.create s u 5 i a b soft el rc = none) ∧
    (∀ who k i fee throw fail x y hard cl cs ch pc, k ≥ 4 →
      Life2.exec s who u k i fee throw fail x y hard cl cs ch pc = none) := by
  constructor
  · intro i a b soft el rc
    rcases Option.eq_none_or_eq_some (Life2.create s u 5 i a b soft el rc) with h | ⟨s', h⟩
    · exact h
    · unfold Life2.create at h
      split at h; · cases h
      simp only at h
      split at h; · cases h
      split at h; · cases h
      simp [hp] at h
  · intro who k i fee throw fail x y hard cl cs ch pc hk
    rcases Option.eq_none_or_eq_some (Life2.exec s who u k i fee throw fail x y hard cl cs ch pc) with h | ⟨⟨s', o, paid⟩, h⟩
    · exact h
    · obtain ⟨_, _, _, _, _, ho, _⟩ := exec_some h
      rw [ho hk] at hp; cases hp

/-- **What a completed decrease does to the position**: it needs an open position of positive size; afterwards the
position is closed exactly when the execution declared it closed, and then its size is 0; otherwise it stays open
with the strictly positive remainder `size − requested`. Nobody else's position changes. -/
theorem l2_decrease_position {s s' : Life2.St} {who : Life.Who} {u i fee x y cl cs ch : Nat} {throw fail hard pc : Bool} {paid : Nat}
    (h : Life2.exec s who u 5 i fee throw fail x y hard cl cs ch pc = some (s', .completed, paid)) :
    s.posOpen u = true ∧ 0 < s.posSize u ∧
    (s'.posOpen u = false ↔ s'.posSize u = 0) ∧ (s'.posOpen u = false ↔ pc = true) ∧
    (∃ act, s.acts u 5 i = some act ∧ (pc = false → act.size < s.posSize u ∧ s'.posSize u = s.posSize u - act.size)) ∧
    (∀ v, v ≠ u → s'.posOpen v = s.posOpen v ∧ s'.posSize v = s.posSize v) := by
  obtain ⟨_, _, act, ha, _, _, _, hcase⟩ := exec_some h
  rcases hcase with ⟨ho, _⟩ | ⟨_, _, _, hcomp⟩
  · cases ho
  · obtain ⟨h1, h2, h3, h4, h5, h6, _⟩ := complete_decrease (Nat.le_refl 5) hcomp
    refine ⟨h1, h2, ?_, ?_, ⟨act, ha, ?_⟩, h6⟩
    · cases pc with
      | true => simp [h3, h4]
      | false => have := h5 rfl; simp [h3, h4]; omega
    · cases pc <;> simp [h3]
    · intro hpc; subst hpc; exact ⟨h5 rfl, by simp [h4]⟩

/-- **A position whose size reached 0 is closed and cannot be decreased again** — one transaction: after a completed
decrease that leaves size 0 the position account is gone, so no further decrease order can be created and no pending
position order of that user can be executed, until a new increase order re-creates the position. -/
theorem l2_zero_size_is_final {s s' : Life2.St} {who : Life.Who} {u i fee x y cl cs ch : Nat} {throw fail hard pc : Bool} {paid : Nat}
    (h : Life2.exec s who u 5 i fee throw fail x y hard cl cs ch pc = some (s', .completed, paid)) (hz : s'.posSize u = 0) :
    s'.posOpen u = false ∧ (∀ j a b soft el rc, Life2.create s' u 5 j a b soft el rc = none) ∧
    (∀ who' k j fee' throw' fail' x' y' hard' cl' cs' ch' pc', k ≥ 4 →
      Life2.exec s' who' u k j fee' throw' fail' x' y' hard' cl' cs' ch' pc' = none) := by
  obtain ⟨_, _, hiff, _⟩ := l2_decrease_position h
  have hp := hiff.2 hz
  exact ⟨hp, l2_no_position_no_decrease s' u hp⟩

/-- … and in EVERY history from an empty market: a position account that does not exist has size 0 (sizes never
survive a close; a size-0 position left by a failed order is removed with size 0). -/
theorem l2_closed_position_is_empty (l sh : Nat) (now : Int) (ops : List Life2.Op) (u : Nat)
    (hp : (Life2.run (Life2.init l sh now) ops).1.posOpen u = false) :
    (Life2.run (Life2.init l sh now) ops).1.posSize u = 0 :=
  posinv_run (posinv_init l sh now) ops u hp

/-- **Escrow home for decrease orders**: a decrease order escrows nothing, so closing it refunds NOTHING to the owner;
everything it holds (output token + secondary output token, both paid by the execution) goes to the RECEIVER; in
every reachable state a pending or cancelled decrease order holds nothing at all. -/
theorem l2_decrease_close {s s' : Life2.St} {who : Life.Who} {u i : Nat} {act : Life2.Act}
    (h : Life2.close s who u 5 i = some s') (ha : s.acts u 5 i = some act) :
    s'.users act.receiver = ⟨(s.users act.receiver).long + act.escLong, (s.users act.receiver).short + act.escShort,
      (s.users act.receiver).mt⟩ ∧
    (∀ v, v ≠ act.receiver → s'.users v = s.users v) ∧ s'.acts u 5 i = none := by
  obtain ⟨act', ha', _, rfl⟩ := close_some h
  rw [ha] at ha'; cases ha'
  refine ⟨?_, ?_, by simp [acts_setAct]⟩
  · by_cases hr : act.receiver = u
    · simp [Life2.setAct, Life2.credit, Life2.setUser, Life2.inSide, Life2.outSide, hr]
    · simp [Life2.setAct, Life2.credit, Life2.setUser, Life2.inSide, Life2.outSide, hr]
  · intro v hv
    by_cases hu : v = u
    · subst hu; simp [Life2.setAct, Life2.credit, Life2.setUser, Life2.inSide, Life2.outSide, hv]
    · simp [Life2.setAct, Life2.credit, Life2.setUser, Life2.inSide, Life2.outSide, hv, hu]

theorem l2_unexecuted_decrease_holds_nothing (l sh : Nat) (now : Int) (ops : List Life2.Op) (u i : Nat) (act : Life2.Act)
    (ha : (Life2.run (Life2.init l sh now) ops).1.acts u 5 i = some act) (hs : act.state ≠ 1) :
    act.escLong = 0 ∧ act.escShort = 0 := by
  have h := (l2_who_receives_what l sh now ops u 5 i act ha).1 hs
  simpa [Life2.outSide] using h

/-! non-vacuity: two users, a deposit, a withdrawal of part of the minted tokens, a swap, soft failure, closes -/
private def l2demo : List Life2.Op :=
  [.create 0 0 0 2000 300 false 500000 0, .price 0, .exec .keeper 0 0 0 300000 true false 600 0, .exec .keeper 0 0 0 1 false false 5 0,
   .close .keeper 0 0 0, .create 0 1 0 100 0 false 0 0, .create 1 2 1 40 0 false 300000 1, .exec .keeper 0 1 0 7 true false 333 50,
   .exec .keeper 1 2 1 9 false true 0 0, .close (.user 2) 1 2 1, .close .keeper 1 2 1, .close (.user 0) 0 1 0]
example : (Life2.run (Life2.init 10000 5000 100) l2demo).2 =
    [.created 0 0 0, .none, .executed 0 0 0 .completed, .none, .closed 0 0 0, .created 0 1 0, .created 1 2 1,
     .executed 0 1 0 .completed, .executed 1 2 1 .cancelled, .none, .closed 1 2 1, .closed 0 1 0] := by decide
example : let s := (Life2.run (Life2.init 10000 5000 100) l2demo).1
    (s.users 0).long = 8333 ∧ (s.users 0).short = 4750 ∧ (s.users 0).mt = 500 ∧ (s.users 1).long = 10000 ∧
    s.vaultLong = 1667 ∧ s.recLong = 1667 ∧ Life2.supply s = 500 := by decide

/-- receiver ≠ owner: user 0 deposits for receiver 2 (minted tokens go to 2, nothing to 0), user 2 withdraws for receiver 1
(collateral goes to 1); the receiver cannot close; a cancelled action refunds the owner. -/
private def l2demoR : List Life2.Op :=
  [.create 0 0 0 2000 300 false 500000 2, .price 0, .close (.user 2) 0 0 0, .exec .keeper 0 0 0 0 true false 600 0, .close .keeper 0 0 0,
   .create 2 1 0 100 0 false 0 1, .create 2 1 1 50 0 true 0 1, .exec .keeper 2 1 0 0 true false 333 50, .exec .keeper 2 1 1 0 false false 0 0,
   .close (.user 1) 2 1 0, .close .keeper 2 1 0, .close .keeper 2 1 1]
example : (Life2.run (Life2.init 10000 5000 100) l2demoR).2 =
    [.created 0 0 0, .none, .none, .executed 0 0 0 .completed, .closed 0 0 0, .created 2 1 0, .created 2 1 1,
     .executed 2 1 0 .completed, .executed 2 1 1 .cancelled, .none, .closed 2 1 0, .closed 2 1 1] := by decide
example : let s := (Life2.run (Life2.init 10000 5000 100) l2demoR).1
    (s.users 0).long = 8000 ∧ (s.users 0).mt = 0 ∧ (s.users 2).mt = 500 ∧ (s.users 2).long = 10000 ∧
    (s.users 1).long = 10333 ∧ (s.users 1).short = 5050 ∧ (s.users 1).mt = 0 := by decide

/-- position orders (kind 4, market increase, long collateral): collateral joins the pool on success, is refunded to the
owner after a soft failure, and a pool-maths hard rejection (`hard`) changes nothing. -/
example : (Life2.run (Life2.init 10000 5000 100)
    [.create 1 4 0 700 300 false 400000 1, .create 1 4 1 50 9 false 400000 2, .price 0,
     .exec .keeper 1 4 0 5 true false 0 0 true, .exec .keeper 1 4 0 5 true false 0 0, .exec .keeper 1 4 1 5 false true 0 0,
     .close .keeper 1 4 0, .close (.user 2) 1 4 1, .close .keeper 1 4 1]).2 =
    [.created 1 4 0, .created 1 4 1, .none, .none, .executed 1 4 0 .completed, .executed 1 4 1 .cancelled,
     .closed 1 4 0, .none, .closed 1 4 1] := by decide
example : let s := (Life2.run (Life2.init 10000 5000 100)
    [.create 1 4 0 700 300 false 400000 1, .create 1 4 1 50 9 false 400000 2, .price 0, .exec .keeper 1 4 0 5 true false 0 0,
     .exec .keeper 1 4 1 5 false true 0 0, .close .keeper 1 4 0, .close .keeper 1 4 1]).1
    (s.users 1).long = 9300 ∧ (s.users 2).long = 10000 ∧ s.vaultLong = 700 ∧ s.recLong = 700 := by decide

/-- decrease orders (kind 5) of user 1 for receiver 2: an increase opens 300 USD (30000 cents); a partial decrease of
10000 cents pays 50 long to the order escrow, 3 + 1 to claimable accounts and leaves 20000 cents; a decrease of
19950 cents (size − half a unit) is promoted to a full close (`pc`): the position is gone with size 0; a further decrease
order cannot be created; closing the orders pays the receiver 2, never the owner 1. -/
private def l2demoX : List Life2.Op :=
  [.create 1 4 0 700 300 false 400000 1, .price 0, .exec .keeper 1 4 0 5 true false 0 0,
   .create 1 5 0 0 10000 false 400000 2, .create 1 5 1 0 19950 false 400000 2, .price 0,
   .exec .keeper 1 5 0 5 true false 50 0 false 3 0 1 false,
   .exec .keeper 1 5 0 5 true false 50 0 false 3 0 1 false,
   .exec .keeper 1 5 1 5 true false 640 0 false 0 0 0 true,
   .create 1 5 2 0 100 false 400000 2, .close (.user 2) 1 5 0, .close .keeper 1 5 0, .close (.user 1) 1 5 1]
example : (Life2.run (Life2.init 10000 5000 100) l2demoX).2 =
    [.created 1 4 0, .none, .executed 1 4 0 .completed, .created 1 5 0, .created 1 5 1, .none, .executed 1 5 0 .completed,
     .none, .executed 1 5 1 .completed, .none, .none, .closed 1 5 0, .closed 1 5 1] := by decide
example : let s := (Life2.run (Life2.init 10000 5000 100) (l2demoX.take 7)).1
    s.posOpen 1 = true ∧ s.posSize 1 = 20000 ∧ s.vaultLong = 646 ∧ s.recLong = 646 ∧ s.claimLong = 4 := by decide
example : let s := (Life2.run (Life2.init 10000 5000 100) l2demoX).1
    s.posOpen 1 = false ∧ s.posSize 1 = 0 ∧ (s.users 1).long = 9300 ∧ (s.users 2).long = 10690 ∧ (s.users 2).short = 5000 ∧
    s.vaultLong = 6 ∧ s.recLong = 6 ∧ s.claimLong = 4 := by decide
/-- hypotheses of `l2_decrease_position` / `l2_zero_size_is_final` are met (partial and promoted close), and afterwards
no decrease order can be created -/
example : (Life2.exec (Life2.run (Life2.init 10000 5000 100) (l2demoX.take 6)).1 .keeper 1 5 0 5 true false 50 0 false 3 0 1 false).map
    (fun r => (r.2.1, r.1.posOpen 1, r.1.posSize 1)) = some (.completed, true, 20000) := by decide
example : (Life2.exec (Life2.run (Life2.init 10000 5000 100) (l2demoX.take 8)).1 .keeper 1 5 1 5 true false 640 0 false 0 0 0 true).map
    (fun r => (r.2.1, r.1.posOpen 1, r.1.posSize 1)) = some (.completed, false, 0) := by decide
example : (Life2.run (Life2.init 10000 5000 100) (l2demoX.take 9)).1.posOpen 1 = false ∧
    Life2.create (Life2.run (Life2.init 10000 5000 100) (l2demoX.take 9)).1 1 5 2 0 100 false 400000 2 = none := by decide

end Life2

/-! ## audit: further non-vacuity instances and strengthened statements -/
section Audit

/-- `terminal_no_transition`, `step_terminal_absorbing`, `terminal_absorbing`, `changes_terminal` on a terminal, still
open action that is then executed again (both ways) and closed by a keeper: the state stays, the world does change -/
example : AState.completed.complete = none ∧ AState.completed.cancel = none := terminal_no_transition .completed rfl
example : (actRun ⟨.completed, false, 7, 4, 0, 0, 1, 1000, 1⟩
      [.execute (.success 9) 1, .execute .soft 1, .close false true false]).state = .completed ∧
    actRun ⟨.completed, false, 7, 4, 0, 0, 1, 1000, 1⟩ [.execute (.success 9) 1, .execute .soft 1, .close false true false]
      = ⟨.completed, true, 0, 0, 7, 4, 1, 1000, 1⟩ :=
  ⟨terminal_absorbing _ _ rfl, by decide⟩
example : changes ⟨.cancelled, false, 7, 4, 0, 0, 1, 1000, 1⟩ [.execute (.success 9) 1, .close true false false] = 0 :=
  changes_terminal _ _ rfl

/-- `exactly_once`: the bound 1 is attained (and 0 when the only execution aborts) -/
example : changes ⟨.pending, false, 100, 5, 0, 0, 0, 1000, 0⟩
      [.execute .hard 3, .execute .soft 3, .execute (.success 7) 1, .close false true false] = 1 ∧
    changes ⟨.pending, false, 100, 5, 0, 0, 0, 1000, 0⟩ [.execute .hard 3, .close true false false] = 0 := by decide

/-- `close_policy` (`hc : closed = false`): keeper denied while pending, allowed once cancelled, allowed with `skip` -/
example : (actStep ⟨.pending, false, 100, 5, 0, 0, 0, 1000, 0⟩ (.close false true false)).isSome = false ∧
    (actStep ⟨.cancelled, false, 100, 5, 0, 0, 0, 1000, 0⟩ (.close false true false)).isSome = true ∧
    (actStep ⟨.pending, false, 100, 5, 0, 0, 0, 1000, 0⟩ (.close false true true)).isSome = true := by decide
example : (actStep ⟨.cancelled, false, 100, 5, 0, 0, 0, 1000, 0⟩ (.close false true false)).isSome = true :=
  (close_policy _ false true false rfl).2 (.inr ⟨rfl, .inr rfl⟩)
/-- `pending_close_only_owner` hypotheses are jointly satisfiable (pending, close succeeds) -/
example : (true : Bool) = true :=
  pending_close_only_owner ⟨.pending, false, 100, 5, 0, 0, 0, 1000, 0⟩ true false rfl (by decide)

/-- `close_returns_everything` / `soft_failure_cancels` hypotheses -/
example : actStep ⟨.cancelled, false, 100, 2, 0, 0, 3, 1000, 0⟩ (.close false true false) =
    some ⟨.cancelled, true, 0, 0, 100, 2, 3, 1000, 0⟩ := by decide
example : actStep ⟨.pending, false, 100, 5, 0, 0, 0, 1000, 0⟩ (.execute .soft 3) =
    some ⟨.cancelled, false, 100, 2, 0, 0, 3, 1000, 0⟩ := by decide
/-- `tokens_conserved_unless_executed` instantiated on a keeper close that really moves tokens -/
example : (actStep' ⟨.cancelled, false, 100, 2, 0, 0, 3, 1000, 0⟩ (.close false true false)).ownerTokens = 100 ∧
    (actStep' ⟨.cancelled, false, 100, 2, 0, 0, 3, 1000, 0⟩ (.close false true false)).ownerTokens +
      (actStep' ⟨.cancelled, false, 100, 2, 0, 0, 3, 1000, 0⟩ (.close false true false)).escrow +
      (actStep' ⟨.cancelled, false, 100, 2, 0, 0, 3, 1000, 0⟩ (.close false true false)).vault = 0 + 100 + 1000 :=
  ⟨by decide, tokens_conserved_unless_executed _ _ (fun _ _ h => by cases h)⟩
/-- `closed_is_final` instantiated -/
example : actRun ⟨.cancelled, true, 0, 0, 100, 2, 3, 1000, 0⟩ [.execute (.success 1) 1, .close true true true] =
    ⟨.cancelled, true, 0, 0, 100, 2, 3, 1000, 0⟩ := closed_is_final _ _ rfl

/-- AUDIT (strength): `tokens_conserved_unless_executed` EXCLUDES the successful execution by hypothesis and no
other theorem of the abstract machine describes it; this is the missing case: a successful execution happens only on an open
pending action, completes it, commits exactly one market write, leaves exactly `out` in the escrow, touches neither the
owner's tokens nor (net) the vault, and pays `min fee lamports` to the keeper. (NOTE on the model: the consumed input
escrow simply disappears and `out` appears — the abstract machine has ONE token type, so conservation across a
successful execution is not expressible here; it is what `Gmx.Life` / `Gmx.Life2` and C22 track.) -/
theorem success_execution_spec (w w' : ActWorld) (out fee : Nat)
    (h : actStep w (.execute (.success out) fee) = some w') :
    w.state = .pending ∧ w.closed = false ∧ w'.state = .completed ∧ w'.closed = false ∧ w'.escrow = out ∧
    w'.vault = w.vault ∧ w'.ownerTokens = w.ownerTokens ∧ w'.marketWrites = w.marketWrites + 1 ∧
    w'.keeperLamports = w.keeperLamports + min fee w.lamports ∧ w'.lamports = w.lamports - min fee w.lamports := by
  unfold actStep at h
  by_cases hc : w.closed
  · simp [hc] at h
  · cases hs : w.state <;> simp [hc, hs, AState.complete, payFee] at h
    subst h
    have hc' : w.closed = false := by simpa using hc
    by_cases hf : fee ≤ w.lamports
    · simp [hc', hf, Nat.min_def]
    · simp [hc', hf, Nat.min_def]

example : actStep ⟨.pending, false, 100, 5, 0, 0, 0, 1000, 0⟩ (.execute (.success 7) 9) =
    some ⟨.completed, false, 7, 0, 0, 0, 5, 1000, 1⟩ := by decide

/-- the generated table really contains handlers meeting the premises of `cancel_returns_escrow_everywhere` (a
cancelling site that moved escrow in) and of `fee_paid_last_everywhere` -/
example : (Gen.C23.sites.filter fun s => s.cancels && s.transfersEscrowIn).length = 5 ∧
    (Gen.C23.sites.filter fun s => s.paysFeeLast).length = 8 ∧ Gen.C23.sites.length = 10 := by decide

section LifeAudit
open Gmx.Life

/-- `life_close_policy` / `life_close_returns_escrow`: the owner closes a PENDING deposit and gets the escrow back; a
keeper cannot; a stranger cannot -/
example : ((create (init 1000 500 100) 0 0 300 20 false 200000).bind fun s =>
      (close s (.user 0) 0 0).map fun s' => ((s.users 0).long, (s'.users 0).long, (s'.users 0).short, (s'.deps 0 0).isSome)) =
    some (700, 1000, 500, false) := by decide
example : ((create (init 1000 500 100) 0 0 300 20 false 200000).bind fun s =>
      some ((close s .keeper 0 0).isSome, (close s (.user 1) 0 0).isSome, (close s .admin 0 0).isSome)) =
    some (false, false, false) := by decide

/-- `life_exec_once` / `life_soft_failure` hypotheses: a completed and a cancelled execution, each followed by a
rejected second execution -/
example : ((create (init 1000 500 100) 0 0 300 20 false 200000).bind fun s =>
      (exec (price s 0) .keeper 0 0 5000 false).map fun r =>
        (r.2.1, r.2.2, (exec r.1 .keeper 0 0 1 false).isSome, r.1.vaultLong)) =
    some (.completed, 5000, false, 300) := by decide
example : ((create (init 1000 500 100) 0 0 300 20 true 200000).bind fun s =>
      (exec (price s 0) .keeper 0 0 5000 false).map fun r =>
        (r.2.1, r.2.2, (exec r.1 .keeper 0 0 1 false).isSome, r.1.vaultLong, (close r.1 .keeper 0 0).isSome)) =
    some (.cancelled, 5000, false, 0, true) := by decide

end LifeAudit

section Life2Audit
open Gmx.Life2

/-- `l2_close_policy`, `l2_close_returns_escrow`, `l2_close_split` (receiver 2 ≠ owner 0), `l2_receiver_cannot_close`:
after user 0's deposit for receiver 2 completed (first four ops of `l2demoR`), a keeper close pays the minted 600
market tokens to the receiver and nothing to the owner; the receiver itself cannot close -/
example : (Life2.close (Life2.run (Life2.init 10000 5000 100) (l2demoR.take 4)).1 .keeper 0 0 0).map
      (fun s' => ((s'.users 0).long, (s'.users 0).mt, (s'.users 2).mt, (s'.acts 0 0 0).isSome)) =
    some (8000, 0, 600, false) := by decide
example : Life2.close (Life2.run (Life2.init 10000 5000 100) (l2demoR.take 4)).1 (.user 2) 0 0 0 = none :=
  l2_receiver_cannot_close _ 0 0 0 2 (by decide)

/-- `l2_who_receives_what` hypothesis (`ha`) on that reachable state: the completed deposit holds proceeds only -/
example : ∃ act, (Life2.run (Life2.init 10000 5000 100) (l2demoR.take 4)).1.acts 0 0 0 = some act ∧ act.state = 1 ∧
    act.receiver = 2 ∧ Life2.inSide 0 act = (0, 0, 0) ∧ Life2.outSide 0 act = (0, 0, 600) := ⟨_, rfl, rfl, rfl, rfl, rfl⟩

/-- `l2_soft_failure`, `l2_exec_once`, `l2_exec_frame` hypotheses: on the state after the first eight ops of `l2demoR`
the soft withdrawal `(2, 1, 1)` is cancelled (fee 0 paid), and cannot be executed again -/
example : (Life2.exec (Life2.run (Life2.init 10000 5000 100) (l2demoR.take 8)).1 .keeper 2 1 1 0 false false 0 0).map
      (fun r => (r.2.1, r.2.2, (Life2.exec r.1 .keeper 2 1 1 0 false false 0 0).isSome, r.1.vaultLong)) =
    some (.cancelled, 0, false, 1667) := by decide
/-- … and a COMPLETED execution (the withdrawal `(2, 1, 0)` on the state after seven ops) -/
example : (Life2.exec (Life2.run (Life2.init 10000 5000 100) (l2demoR.take 7)).1 .keeper 2 1 0 0 true false 333 50).map
      (fun r => (r.2.1, r.1.vaultLong, r.1.recLong, Life2.supply r.1)) = some (.completed, 1667, 1667, 500) := by decide

end Life2Audit
end Audit


end Gmx.C23
