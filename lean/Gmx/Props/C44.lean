import Gmx.Lemmas.Router
import Gmx.Lemmas.RouterInv
import Gmx.Lemmas.PathCreate
/-!
# C44 — multi-market swaps follow the declared path and move recorded balances
-/
namespace Gmx.C44
open Gmx Gmx.Lem

/-- paths with a duplicated market are rejected at execution -/
theorem duplicates_rejected (into : Bool) (s : RState) (p₁ p₂ : List Nat) (e : Nat × Nat)
    (ti : Option Nat × Option Nat) (am : Nat × Nat) (h : noDup p₁ = false ∨ noDup p₂ = false) :
    routerSwap into s p₁ p₂ e ti am = none := by
  unfold routerSwap
  split
  · rfl
  · rcases h with h | h
    · simp [h]
    · by_cases h1 : noDup p₁ = true
      · simp only [h1, Bool.not_true, Bool.false_eq_true, if_false]
        split
        · rfl
        · simp [h]
      · simp [h1]

/-- a no-op step (a market whose two tokens coincide) is rejected -/
theorem noop_step_rejected (m : RMarket) (s : RState) (tok amt : Nat) (hp : m.long = m.short) :
    swapIn m s tok amt = none :=
  swapIn_pure_none s tok amt (by simp [RMarket.isPure, hp])

/-- **the executed hops are exactly the declared path, in order**, each hop converts the previous
hop's output token and amount, no hop is a no-op, and the chain ends in the declared output token
(otherwise the swap fails). -/
theorem swapOneSide_follows_path {into : Bool} {s s' : RState} {path : List Nat}
    {expectedOut tokIn amtIn amtOut : Nat}
    (h : swapOneSide into s path expectedOut tokIn amtIn = some (s', amtOut)) :
    ∃ hops, s'.trace = s.trace ++ hops ∧ hops.map (·.market) = path ∧
      chain tokIn amtIn hops (expectedOut, amtOut) := by
  unfold swapOneSide at h
  split at h
  · cases h
  · simp only [] at h
    cases path with
    | nil =>
      simp only at h
      split at h
      · cases h; exact ⟨[], by simp, rfl, by simp [chain, *]⟩
      · cases h
    | cons first tl =>
      simp only at h
      -- step (1)
      split at h
      · cases h
      · rename_i s1 hs1
        have t1 : s1.trace = s.trace ∧ s1.cur.token = s.cur.token := by
          split at hs1
          · exact ⟨(curToMarket_trace hs1).1, curToMarket_curTok hs1⟩
          · cases hs1; exact ⟨rfl, rfl⟩
        -- step (2)
        split at h
        · cases h
        · rename_i s2 rest tok amt hs2
          have t2 : ∃ pre, s2.trace = s.trace ++ pre ∧ pre.map (·.market) ++ rest = first :: tl ∧
              chain tokIn amtIn pre (tok, amt) ∧ s2.cur.token = s.cur.token := by
            split at hs2
            · rename_i hfc
              have hfc' : first = s.cur.token := by simpa using hfc
              split at hs2
              · cases hs2
              · rename_i s2a ta aa hsw
                obtain ⟨hop, htr, hmk, hch, _, hcur, _, _⟩ := swapIn_spec hsw
                simp only [List.drop_succ_cons, List.drop_zero] at hs2
                split at hs2
                · cases hs2
                  refine ⟨[hop], by rw [htr, t1.1], by simp [hmk, t1.2, hfc'], hch, by rw [hcur, t1.2]⟩
                · rename_i nxt more
                  split at hs2
                  · cases hs2
                  · rename_i s2b hmv
                    cases hs2
                    refine ⟨[hop], by rw [(curToMarket_trace hmv).1, htr, t1.1],
                      by simp [hmk, t1.2, hfc'], hch, by rw [curToMarket_curTok hmv, hcur, t1.2]⟩
            · cases hs2
              exact ⟨[], by simp [t1.1], by simp, rfl, t1.2⟩
          obtain ⟨pre, htr2, hpath, hchpre, hcur2⟩ := t2
          split at h
          · -- rest is empty
            rename_i hre
            have : rest = [] := by simpa using hre
            subst this
            split at h
            · cases h
              refine ⟨pre, htr2, by simpa using hpath, ?_⟩
              rename_i heq; rw [← heq]; exact hchpre
            · cases h
          · rename_i hre
            have hne : rest.isEmpty = false := by simpa using hre
            split at h
            · cases h
            · rename_i s3 tok3 amt3 hal
              obtain ⟨hmid, htr3, hmap3, hch3⟩ := swapAlong_spec hal
              have hcur3 : s3.cur.token = s.cur.token := by rw [swapAlong_cur hal, hcur2]
              have hsplit := dropLast_append_last s.cur.token hne
              -- step (3)
              split at h
              · cases h
              · rename_i s5 tok5 amt5 hs5
                have t5 : ∃ post, s5.trace = s3.trace ++ post ∧
                    (if (rest.getLast?.getD s.cur.token == s.cur.token) then rest.dropLast else rest) ++ post.map (·.market) = rest ∧
                    chain tok3 amt3 post (tok5, amt5) := by
                  split at hs5
                  · rename_i hwc
                    have hwc' : rest.getLast?.getD s.cur.token = s.cur.token := by simpa using hwc
                    split at hs5
                    · cases hs5
                    · rename_i s4 hs4
                      have h4 : s4.trace = s3.trace ∧ s4.cur.token = s.cur.token := by
                        split at hs4
                        · cases hs4; exact ⟨rfl, hcur3⟩
                        · exact ⟨(marketToCur_trace hs4).1, by rw [marketToCur_curTok hs4, hcur3]⟩
                      obtain ⟨hop, htr, hmk, hch, _, _, _, _⟩ := swapIn_spec hs5
                      refine ⟨[hop], by rw [htr, h4.1], ?_, hch⟩
                      simp only [hwc, if_true, List.map_cons, List.map_nil, hmk, h4.2]
                      rw [hwc'] at hsplit; exact hsplit.symm
                  · rename_i hwc
                    cases hs5
                    exact ⟨[], by simp, by simp [hwc], rfl⟩
                obtain ⟨post, htr5, hrest, hch5⟩ := t5
                -- step (4)
                split at h
                · cases h
                · rename_i s6 hs6
                  have t6 : s6.trace = s5.trace := by
                    split at hs6
                    · exact (marketToCur_trace hs6).1
                    · cases hs6; rfl
                  split at h
                  · cases h
                    rename_i heq
                    refine ⟨pre ++ hmid ++ post, ?_, ?_, ?_⟩
                    · rw [t6, htr5, htr3, htr2]; simp [List.append_assoc]
                    · rw [← hpath]; simp only [List.map_append, List.append_assoc]
                      congr 1
                      rw [hmap3]; exact hrest
                    · rw [← heq]
                      exact chain_append (m := (tok3, amt3)) (chain_append (m := (tok, amt)) hchpre hch3) hch5
                  · cases h

/-- which side of an action's swap actually runs (a side with no input token or a zero amount
is skipped) -/
def sideRuns (t : Option Nat) (a : Nat) : Bool := t.isSome && a != 0

/-- **the whole action swap**: on success both declared paths are duplicate-free and the executed
hops are the primary path followed by the secondary path (for the sides that run), each a
token/amount chain ending in its declared output token. -/
theorem routerSwap_follows_paths {into : Bool} {s s' : RState} {p₁ p₂ : List Nat} {e : Nat × Nat}
    {ti : Option Nat × Option Nat} {am : Nat × Nat} {o₁ o₂ : Nat}
    (h : routerSwap into s p₁ p₂ e ti am = some (s', o₁, o₂)) :
    noDup p₁ = true ∧ noDup p₂ = true ∧
    ∃ h₁ h₂, s'.trace = s.trace ++ h₁ ++ h₂ ∧
      h₁.map (·.market) = (if sideRuns ti.1 am.1 then p₁ else []) ∧
      h₂.map (·.market) = (if sideRuns ti.2 am.2 then p₂ else []) ∧
      (∀ t, ti.1 = some t → am.1 ≠ 0 → chain t am.1 h₁ (e.1, o₁)) ∧
      (∀ t, ti.2 = some t → am.2 ≠ 0 → chain t am.2 h₂ (e.2, o₂)) := by
  unfold routerSwap at h
  split at h
  · cases h
  · split at h
    · cases h
    · rename_i hd1
      simp only [] at h
      split at h
      · cases h
      · rename_i s1 o1 hr1
        split at h
        · cases h
        · rename_i hd2
          split at h
          · cases h
          · rename_i s2 o2 hr2
            have hs : s2 = s' ∧ o1 = o₁ ∧ o2 = o₂ := by
              split at h
              · cases h; exact ⟨rfl, rfl, rfl⟩
              · cases h
            obtain ⟨rfl, rfl, rfl⟩ := hs
            refine ⟨by simpa using hd1, by simpa using hd2, ?_⟩
            -- first side
            have side : ∀ {sa sb : RState} {p : List Nat} {ex : Nat} {t : Option Nat} {a o : Nat},
                (match t with
                  | some t => if a ≠ 0 then swapOneSide into sa p ex t a else some (sa, 0)
                  | none => some (sa, 0)) = some (sb, o) →
                ∃ hs, sb.trace = sa.trace ++ hs ∧ hs.map (·.market) = (if sideRuns t a then p else []) ∧
                  (∀ t', t = some t' → a ≠ 0 → chain t' a hs (ex, o)) := by
              intro sa sb p ex t a o hh
              cases t with
              | none => cases hh; exact ⟨[], by simp, by simp [sideRuns], fun _ h => by cases h⟩
              | some t' =>
                by_cases ha : a ≠ 0
                · simp only [ha, ne_eq, not_false_eq_true, if_true] at hh
                  obtain ⟨hs, h1, h2, h3⟩ := swapOneSide_follows_path hh
                  refine ⟨hs, h1, by simp [sideRuns, h2, ha], fun t'' ht _ => by cases ht; exact h3⟩
                · have ha' : a = 0 := by omega
                  simp only [ha', ne_eq, not_true_eq_false, if_false] at hh
                  cases hh
                  exact ⟨[], by simp, by simp [sideRuns, ha'], fun _ _ h => absurd ha' h⟩
            obtain ⟨h₁, t1, m1, c1⟩ := side hr1
            obtain ⟨h₂, t2, m2, c2⟩ := side hr2
            exact ⟨h₁, h₂, by rw [t2, t1], m1, m2, c1, c2⟩

/-- **every hop moves exactly the swapped amount between the recorded balances of the markets
involved**: for every token, the sum of the recorded balances over the current market and all
provided markets (distinct market tokens, as `SwapMarkets::new` enforces) is unchanged by a
successful action swap — hand-overs only move balance from one market to the next. -/
theorem routerSwap_conserves_recorded {into : Bool} {s s' : RState} {p₁ p₂ : List Nat} {e : Nat × Nat}
    {ti : Option Nat × Option Nat} {am : Nat × Nat} {o₁ o₂ : Nat}
    (hnd : (s.markets.map (·.token)).Nodup)
    (h : routerSwap into s p₁ p₂ e ti am = some (s', o₁, o₂)) (t : Nat) :
    rtotal s' t = rtotal s t ∧ s'.markets.map (·.token) = s.markets.map (·.token) :=
  routerSwap_preserves (conserved_inv t (rtotal s t) _ hnd) h ⟨rfl, rfl⟩

/-! ### Non-vacuity: a three-hop swap out of the current market (0) through markets 1 and 2 -/
example : (routerSwap false
    { markets := [⟨1, 11, 12, 1000, 1000, 0, 0, 0, 0⟩, ⟨2, 12, 13, 1000, 1000, 0, 0, 0, 0⟩],
      cur := ⟨0, 10, 11, 500, 500, 100, 100, 0, 0⟩, outs := [90, 80, 70], trace := [] }
    [0, 1, 2] [] (13, 13) (some 10, none) (100, 0)).map (fun r => (r.2.1, r.1.trace.map (·.market), r.1.cur.balL, r.1.cur.balS))
    = some (70, [0, 1, 2], 500, 410) := by decide

/-! ### Creation time: `validate_and_init` / `validate_path` (every `create_*` operation) -/

/-- what a path accepted by `validate_path` looks like — and nothing else is accepted: the supplied
market accounts are pairwise distinct, each is a usable market of the store with two different
tokens (no no-op step), following the path from the input token reaches the declared output token,
and the stored path is the accounts' market tokens in order -/
theorem create_path_accepted_iff (toks : List Nat) (path : List CMarket) (tin tout : Nat) :
    (∃ r, validatePath toks path tin tout = some r) ↔
      (path.map (·.key)).Nodup ∧ (∀ m ∈ path, m.usable = true ∧ m.long ≠ m.short) ∧
      pathChain path tin = some tout := by
  unfold validatePath
  constructor
  · rintro ⟨r, h⟩
    cases hgo : validatePathGo path [] tin with
    | none => simp [hgo] at h
    | some q =>
      obtain ⟨fin, mts⟩ := q
      simp only [hgo] at h
      split at h
      · rename_i hf; subst hf
        obtain ⟨_, h2, h3, h4, _⟩ := validatePathGo_spec _ _ _ _ _ hgo
        exact ⟨h2, h3, h4⟩
      · cases h
  · rintro ⟨h1, h2, h3⟩
    have := validatePathGo_complete path [] tin tout (by simp) h1 h2 h3
    simp [this]

/-- the stored path of an accepted side is the market tokens of the supplied accounts, in order -/
theorem create_path_tokens {toks toks' mts : List Nat} {path : List CMarket} {tin tout : Nat}
    (h : validatePath toks path tin tout = some (toks', mts)) :
    mts = path.map (·.token) ∧ toks' = path.foldl (fun s m => m.addTokens s) toks := by
  unfold validatePath at h
  cases hgo : validatePathGo path [] tin with
  | none => simp [hgo] at h
  | some q =>
    obtain ⟨fin, mts'⟩ := q
    simp only [hgo] at h
    split at h
    · simp only [Option.some.injEq, Prod.mk.injEq] at h
      obtain ⟨rfl, rfl⟩ := h
      exact ⟨(validatePathGo_spec _ _ _ _ _ hgo).2.2.2.2, rfl⟩
    · cases h

/-- the two sides `validate_and_init` validates: the first `plen` accounts, then the next `slen` -/
theorem create_sides {cur : CMarket} {plen slen : Nat} {accs : List CMarket}
    {tinP tinS toutP toutS : Nat} {c : Created}
    (h : validateAndInit cur plen slen accs tinP tinS toutP toutS = some c) :
    plen + slen ≤ maxSteps ∧ plen + slen ≤ accs.length ∧
    (∃ r, validatePath (cur.addTokens []) (accs.take plen) tinP toutP = some r) ∧
    (∃ t r, validatePath t ((accs.drop plen).take slen) tinS toutS = some r) ∧
    c.primary = (accs.take plen).map (·.token) ∧
    c.secondary = ((accs.drop plen).take slen).map (·.token) ∧
    c.tokens = ((accs.drop plen).take slen).foldl (fun s m => m.addTokens s)
      ((accs.take plen).foldl (fun s m => m.addTokens s) (cur.addTokens [])) ∧
    c.tokens.length ≤ maxTokens ∧ c.current = cur.token := by
  unfold validateAndInit at h
  split at h
  · cases h
  · split at h
    · cases h
    · rename_i h1 h2
      cases hp : validatePath (cur.addTokens []) (accs.take plen) tinP toutP with
      | none => simp [hp] at h
      | some rp =>
        obtain ⟨toks1, p⟩ := rp
        simp only [hp] at h
        cases hs : validatePath toks1 ((accs.drop plen).take slen) tinS toutS with
        | none => simp [hs] at h
        | some rs =>
          obtain ⟨toks2, s⟩ := rs
          simp only [hs] at h
          split at h
          · cases h
          · rename_i h3
            simp only [Option.some.injEq] at h
            subst h
            obtain ⟨hp1, hp2⟩ := create_path_tokens hp
            obtain ⟨hs1, hs2⟩ := create_path_tokens hs
            refine ⟨by omega, by omega, ⟨_, rfl⟩, ⟨_, _, hs⟩, hp1, hs1, ?_, by simpa using Nat.le_of_not_lt h3, rfl⟩
            simp [hs2, hp2]

/-- **paths with duplicate markets are rejected at creation** (either side) -/
theorem create_rejects_duplicates (cur : CMarket) (plen slen : Nat) (accs : List CMarket)
    (tinP tinS toutP toutS : Nat)
    (h : ¬ ((accs.take plen).map (·.key)).Nodup ∨ ¬ (((accs.drop plen).take slen).map (·.key)).Nodup) :
    validateAndInit cur plen slen accs tinP tinS toutP toutS = none := by
  cases hc : validateAndInit cur plen slen accs tinP tinS toutP toutS with
  | none => rfl
  | some c =>
    obtain ⟨_, _, hp, ⟨t, hs⟩, _⟩ := create_sides hc
    rcases h with h | h
    · exact absurd ((create_path_accepted_iff _ _ _ _).mp hp).1 h
    · exact absurd ((create_path_accepted_iff _ _ _ _).mp hs).1 h

/-- **paths with a no-op step (a market whose two tokens coincide), a market of another store, a
disabled or a closed market are rejected at creation** -/
theorem create_rejects_noop_or_unusable (cur : CMarket) (plen slen : Nat) (accs : List CMarket)
    (tinP tinS toutP toutS : Nat) (m : CMarket)
    (hm : m ∈ accs.take plen ∨ m ∈ (accs.drop plen).take slen)
    (hbad : m.long = m.short ∨ m.usable = false) :
    validateAndInit cur plen slen accs tinP tinS toutP toutS = none := by
  cases hc : validateAndInit cur plen slen accs tinP tinS toutP toutS with
  | none => rfl
  | some c =>
    obtain ⟨_, _, hp, ⟨t, hs⟩, _⟩ := create_sides hc
    have key : m.usable = true ∧ m.long ≠ m.short := by
      rcases hm with hm | hm
      · exact ((create_path_accepted_iff _ _ _ _).mp hp).2.1 m hm
      · exact ((create_path_accepted_iff _ _ _ _).mp hs).2.1 m hm
    rcases hbad with hb | hb
    · exact absurd hb key.2
    · rw [key.1] at hb; cases hb

/-- **each step converts the previous step's output token and the path ends in the declared output
token, already at creation** -/
theorem create_follows_chain {cur : CMarket} {plen slen : Nat} {accs : List CMarket}
    {tinP tinS toutP toutS : Nat} {c : Created}
    (h : validateAndInit cur plen slen accs tinP tinS toutP toutS = some c) :
    pathChain (accs.take plen) tinP = some toutP ∧
    pathChain ((accs.drop plen).take slen) tinS = some toutS := by
  obtain ⟨_, _, hp, ⟨t, hs⟩, _⟩ := create_sides h
  exact ⟨((create_path_accepted_iff _ _ _ _).mp hp).2.2, ((create_path_accepted_iff _ _ _ _).mp hs).2.2⟩

/-- **creation and execution agree**: when market accounts are identified by their market token
(the market address is the PDA of store and market token), the paths written at creation pass the
execution-time duplicate check (`noDup`, i.e. `validated_primary/secondary_swap_path`), their
lengths are the declared ones and at most ten in total -/
theorem create_then_execution_check_passes {cur : CMarket} {plen slen : Nat} {accs : List CMarket}
    {tinP tinS toutP toutS : Nat} {c : Created}
    (hinj : ∀ a ∈ accs, ∀ b ∈ accs, a.token = b.token → a.key = b.key)
    (h : validateAndInit cur plen slen accs tinP tinS toutP toutS = some c) :
    noDup c.primary = true ∧ noDup c.secondary = true ∧
    c.primary.length = plen ∧ c.secondary.length = slen ∧ c.primary.length + c.secondary.length ≤ 10 := by
  obtain ⟨h1, h2, hp, ⟨t, hs⟩, e1, e2, _⟩ := create_sides h
  have nodup_tok : ∀ l : List CMarket, (∀ a ∈ l, a ∈ accs) → (l.map (·.key)).Nodup → (l.map (·.token)).Nodup := by
    intro l
    induction l with
    | nil => simp
    | cons x xs ih =>
      intro hsub hk
      simp only [List.map_cons, List.nodup_cons] at hk ⊢
      refine ⟨?_, ih (fun a ha => hsub a (List.mem_cons_of_mem _ ha)) hk.2⟩
      intro hc
      obtain ⟨y, hy, hyt⟩ := List.mem_map.mp hc
      have := hinj y (hsub y (List.mem_cons_of_mem _ hy)) x (hsub x List.mem_cons_self) hyt
      exact hk.1 (List.mem_map.mpr ⟨y, hy, this⟩)
  have sp : ∀ a ∈ accs.take plen, a ∈ accs := fun a ha => List.mem_of_mem_take ha
  have ss : ∀ a ∈ (accs.drop plen).take slen, a ∈ accs :=
    fun a ha => List.mem_of_mem_drop (List.mem_of_mem_take ha)
  have lp : c.primary.length = plen := by rw [e1]; simp; omega
  have ls : c.secondary.length = slen := by rw [e2]; simp; omega
  refine ⟨?_, ?_, lp, ls, ?_⟩
  · rw [e1]; exact (noDup_iff _).mpr (nodup_tok _ sp ((create_path_accepted_iff _ _ _ _).mp hp).1)
  · rw [e2]; exact (noDup_iff _).mpr (nodup_tok _ ss ((create_path_accepted_iff _ _ _ _).mp hs).1)
  · rw [lp, ls]; simpa [maxSteps] using h1

/-- the stored token list is strictly increasing (the `# CHECK` contract of `SwapActionParams`:
sorted, no repeats) and consists of exactly the current market's tokens and the tokens of every
market on either path -/
theorem create_tokens_sorted_and_exact {cur : CMarket} {plen slen : Nat} {accs : List CMarket}
    {tinP tinS toutP toutS : Nat} {c : Created}
    (h : validateAndInit cur plen slen accs tinP tinS toutP toutS = some c) :
    c.tokens.Pairwise (· < ·) ∧
    ∀ y, y ∈ c.tokens ↔ ∃ m, (m = cur ∨ m ∈ accs.take plen ∨ m ∈ (accs.drop plen).take slen) ∧
      (y = m.short ∨ y = m.long ∨ y = m.index) := by
  obtain ⟨_, _, _, _, _, _, et, _⟩ := create_sides h
  rw [et]
  refine ⟨foldTokens_sorted _ _ (foldTokens_sorted _ _ (addTokens_sorted _ _ List.Pairwise.nil)), ?_⟩
  intro y
  simp only [foldTokens_mem, addTokens_mem, List.not_mem_nil, or_false]
  constructor
  · rintro ((hy | ⟨m, hm, hy⟩) | ⟨m, hm, hy⟩)
    · exact ⟨cur, Or.inl rfl, hy⟩
    · exact ⟨m, Or.inr (Or.inl hm), hy⟩
    · exact ⟨m, Or.inr (Or.inr hm), hy⟩
  · rintro ⟨m, (hm | hm | hm), hy⟩
    · subst hm; exact Or.inl (Or.inl hy)
    · exact Or.inl (Or.inr ⟨m, hm, hy⟩)
    · exact Or.inr ⟨m, hm, hy⟩

/-- the `MAX_TOKENS` bound of `validate_and_init` is never the reason for a rejection: with at most
ten steps in total, two accepted sides produce at most `2·10 + 2 + 3 = 25` tokens (every step adds
its index token and at most one new side token, every side at most one new input token, the
current market three) — so the fixed `tokens` array of `SwapActionParams` cannot overflow and no
well-formed path is refused for its token count -/
theorem create_token_bound_never_fires {cur : CMarket} {plen slen : Nat} {accs : List CMarket}
    {tinP tinS toutP toutS : Nat} {t1 t2 p s : List Nat}
    (hl : plen + slen ≤ maxSteps)
    (hp : validatePath (cur.addTokens []) (accs.take plen) tinP toutP = some (t1, p))
    (hs : validatePath t1 ((accs.drop plen).take slen) tinS toutS = some (t2, s)) :
    t2.length ≤ maxTokens := by
  obtain ⟨_, e1⟩ := create_path_tokens hp
  obtain ⟨_, e2⟩ := create_path_tokens hs
  have c1 := ((create_path_accepted_iff _ _ _ _).mp ⟨_, hp⟩).2.2
  have c2 := ((create_path_accepted_iff _ _ _ _).mp ⟨_, hs⟩).2.2
  have s0 : (cur.addTokens []).Pairwise (· < ·) := addTokens_sorted _ _ List.Pairwise.nil
  have s1 : t1.Pairwise (· < ·) := e1 ▸ foldTokens_sorted _ _ s0
  have b0 := addTokens_length_le cur []
  have b1 := foldTokens_length_side (accs.take plen) (cur.addTokens []) tinP s0 (by rw [c1]; simp)
  have b2 := foldTokens_length_side ((accs.drop plen).take slen) t1 tinS s1 (by rw [c2]; simp)
  rw [← e1] at b1
  rw [← e2] at b2
  have n1 : (accs.take plen).length ≤ plen := by simp; omega
  have n2 : ((accs.drop plen).take slen).length ≤ slen := by simp; omega
  simp only [maxSteps, maxTokens, List.length_nil] at *
  omega

/-- **the payout leaves the market the path ends in**: whenever `find_last_market` selects an account, it is
the account of the LAST market of the declared path (the current market for an empty path) — the market in
which the router left the output (`swapOneSide_follows_path`: the last executed hop is the last declared
market); symmetrically `find_first_market` selects the FIRST market, where the input is recorded. It fails
exactly when that market is neither supplied nor the current market. -/
theorem find_end_market_spec (first : Bool) (path : List Nat) (cur : Nat) (supplied : List Nat) :
    (∀ r, findEndMarket first path cur supplied = some r →
      r.getD cur = ((if first then path.head? else path.getLast?).getD cur)) ∧
    (findEndMarket first path cur supplied = none ↔
      ∃ t, (if first then path.head? else path.getLast?) = some t ∧ t ∉ supplied ∧ t ≠ cur) := by
  unfold findEndMarket
  cases h : (if first then path.head? else path.getLast?) with
  | none => simp
  | some t =>
    by_cases hs : t ∈ supplied
    · simp [hs]
    · by_cases hc : t = cur
      · subst hc; simp [hs]
      · simp [hs, hc]

example : findEndMarket false [1, 2, 3] 0 [1, 2, 3] = some (some 3) ∧ findEndMarket false [1, 0] 0 [1] = some none
    ∧ findEndMarket true [1, 0] 0 [1] = some (some 1) ∧ findEndMarket false [1, 2] 0 [1] = none := by decide

/-! non-vacuity: a two-step primary path 10 → 11 → 12 and a one-step secondary path is accepted;
repeating an account, or a pure market, is not -/
example : validateAndInit ⟨50, 0, 9, 10, 11, true⟩ 2 1
    [⟨51, 1, 8, 11, 10, true⟩, ⟨52, 2, 7, 11, 12, true⟩, ⟨53, 3, 9, 13, 11, true⟩] 10 11 12 13
    = some ⟨[1, 2], [3], [7, 8, 9, 10, 11, 12, 13], 0⟩ := by decide
example : validateAndInit ⟨50, 0, 9, 10, 11, true⟩ 3 0
    [⟨51, 1, 8, 11, 10, true⟩, ⟨52, 2, 7, 11, 10, true⟩, ⟨51, 1, 8, 11, 10, true⟩] 10 11 0 0 = none := by decide
example : validateAndInit ⟨50, 0, 9, 10, 11, true⟩ 1 0 [⟨51, 1, 8, 10, 10, true⟩] 10 10 0 0 = none := by decide
example : ∀ a ∈ [(⟨51, 1, 8, 11, 10, true⟩ : CMarket), ⟨52, 2, 7, 11, 12, true⟩], ∀ b ∈ [(⟨51, 1, 8, 11, 10, true⟩ : CMarket), ⟨52, 2, 7, 11, 12, true⟩],
    a.token = b.token → a.key = b.key := by decide

end Gmx.C44
