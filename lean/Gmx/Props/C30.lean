import Gmx.Lemmas.Gt
/-!
# C30 — GT balances, mint cost and user ranks stay consistent
-/
namespace Gmx.C30
open Gmx Gmx.Gt

/-! ### minting cost depends only on the total minted -/

/-- cost bookkeeping invariant: the step counter is `total_minted / grow_step_amount` and the
minting cost is the initial cost `c0` grown `grow_steps` times — a function of the total minted
alone. -/
def CostInv (U c0 : Nat) (g : Gt) : Prop :=
  g.growSteps = g.totalMinted / g.growStepAmount ∧
  iterCost U g.costGrowFactor g.growSteps c0 = some g.mintingCost

theorem mintTo_preserves_costInv {U c0 : Nat} {now : Int} {g g' : Gt} {u u' : User} {amount : Nat}
    (hi : CostInv U c0 g) (h : mintTo U now g u amount = .ok (g', u')) : CostInv U c0 g' := by
  by_cases hne : amount = 0
  · simp [mintTo, hne] at h; obtain ⟨rfl, _⟩ := h; exact hi
  · obtain ⟨hT, _, _, _, hs, hf, _, _, _, _, hs0, hst, hc⟩ := mintTo_effect hne h
    obtain ⟨i1, i2⟩ := hi
    have hle : g.growSteps ≤ g'.growSteps := by
      rw [hst, i1]; exact Nat.div_le_div_right (by omega)
    refine ⟨by rw [hst, hT, hs], ?_⟩
    have e : g'.growSteps = g.growSteps + (g'.growSteps - g.growSteps) := by omega
    rw [e, hf, iterCost_add, i2]
    simpa using hc

/-- split independence: minting `a` then `b` (to any users) leaves the same total, step count
and minting cost as minting `a + b` at once. -/
theorem cost_split_independent {U : Nat} {n1 n2 n3 : Int} {g g1 g2 g3 : Gt}
    {u1 u1' u2 u2' u3 u3' : User} {a b : Nat}
    (hinv : g.growSteps = g.totalMinted / g.growStepAmount)
    (h1 : mintTo U n1 g u1 a = .ok (g1, u1')) (h2 : mintTo U n2 g1 u2 b = .ok (g2, u2'))
    (h3 : mintTo U n3 g u3 (a + b) = .ok (g3, u3')) :
    g2.totalMinted = g3.totalMinted ∧ g2.growSteps = g3.growSteps ∧
      g2.mintingCost = g3.mintingCost := by
  have hc : CostInv U g.mintingCost { g with growSteps := 0, totalMinted := 0 } := by
    simp [CostInv, iterCost]
  -- general route: express all three costs from `g`
  by_cases ha : a = 0
  · subst ha
    simp [mintTo] at h1; obtain ⟨rfl, _⟩ := h1
    by_cases hb : b = 0
    · subst hb; simp [mintTo] at h2 h3; obtain ⟨rfl, _⟩ := h2; obtain ⟨rfl, _⟩ := h3; simp
    · obtain ⟨t2, _, _, _, _, _, _, _, _, _, _, s2, c2⟩ := mintTo_effect hb h2
      have h3' : mintTo U n3 g u3 b = .ok (g3, u3') := by simpa using h3
      obtain ⟨t3, _, _, _, _, _, _, _, _, _, _, s3, c3⟩ := mintTo_effect hb h3'
      refine ⟨by omega, by rw [s2, s3], ?_⟩
      rw [s2] at c2; rw [s3] at c3; rw [c2] at c3; exact Option.some.inj c3
  · by_cases hb : b = 0
    · subst hb
      simp [mintTo] at h2; obtain ⟨rfl, _⟩ := h2
      obtain ⟨t1, _, _, _, _, _, _, _, _, _, _, s1, c1⟩ := mintTo_effect ha h1
      have h3' : mintTo U n3 g u3 a = .ok (g3, u3') := by simpa using h3
      obtain ⟨t3, _, _, _, _, _, _, _, _, _, _, s3, c3⟩ := mintTo_effect ha h3'
      refine ⟨by omega, by rw [s1, s3], ?_⟩
      rw [s1] at c1; rw [s3] at c3; rw [c1] at c3; exact Option.some.inj c3
    · obtain ⟨t1, _, _, _, e1, f1, _, _, _, _, _, s1, c1⟩ := mintTo_effect ha h1
      obtain ⟨t2, _, _, _, _, _, _, _, _, _, _, s2, c2⟩ := mintTo_effect hb h2
      obtain ⟨t3, _, _, _, _, _, _, _, _, _, _, s3, c3⟩ := mintTo_effect (by omega : a + b ≠ 0) h3
      have hs23 : g2.growSteps = g3.growSteps := by
        rw [s2, s3, t1, e1, Nat.add_assoc]
      have l1 : g.growSteps ≤ g1.growSteps := by
        rw [s1, hinv]; exact Nat.div_le_div_right (by omega)
      have l2 : g1.growSteps ≤ g2.growSteps := by
        rw [s2, s1, t1, e1]; exact Nat.div_le_div_right (by omega)
      refine ⟨by omega, hs23, ?_⟩
      have e : g3.growSteps - g.growSteps =
          (g1.growSteps - g.growSteps) + (g2.growSteps - g1.growSteps) := by omega
      rw [e, iterCost_add, c1] at c3
      rw [f1] at c2
      simp only [Option.bind] at c3
      rw [c2] at c3
      exact Option.some.inj c3

/-! ### ranks -/

/-- for strictly increasing thresholds the rank the code computes (binary search position) is
the number of thresholds at or below the balance. -/
theorem rank_spec : ∀ (ranks : List Nat) (a : Nat), strictSorted ranks = true →
    rankScan ranks a = (ranks.filter (fun t => decide (t ≤ a))).length
  | [], a, _ => by simp [rankScan]
  | [t], a, _ => by
    by_cases h : t ≤ a <;> simp [rankScan, h]
  | t :: t' :: ts, a, hs => by
    simp only [strictSorted, Bool.and_eq_true, decide_eq_true_eq] at hs
    have ih := rank_spec (t' :: ts) a hs.2
    by_cases h : t ≤ a
    · rw [rankScan, if_pos h, List.filter_cons_of_pos (by simp [h]), List.length_cons, ← ih]
    · -- every later threshold is larger still
      have hall : ∀ (l : List Nat) (x : Nat), strictSorted (x :: l) = true → a < x →
          (x :: l).filter (fun t => decide (t ≤ a)) = [] := by
        intro l
        induction l with
        | nil => intro x _ hx; simp; omega
        | cons y l ihl =>
          intro x hsx hx
          simp only [strictSorted, Bool.and_eq_true, decide_eq_true_eq] at hsx
          have := ihl y hsx.2 (by omega)
          rw [List.filter_cons_of_neg (by simp; omega)]
          exact this
      have hs' : strictSorted (t :: t' :: ts) = true := by
        simp [strictSorted, hs.1, hs.2]
      rw [hall _ t hs' (by omega)]
      simp [rankScan, h]

/-- `init` only accepts strictly increasing thresholds (at most `MAX_RANK = 15` of them). -/
theorem init_ranks_sorted {g g' : Gt} {now : Int} {cost factor step : Nat} {ranks : List Nat}
    (h : init g now cost factor step ranks = .ok g') :
    strictSorted g'.ranks = true ∧ g'.ranks = ranks.take 15 ∧ g'.growStepAmount = step ∧ step ≠ 0 ∧
    g'.mintingCost = cost ∧ g'.totalMinted = 0 ∧ g'.growSteps = g.growSteps ∧ g'.supply = 0 := by
  unfold init at h
  split at h
  · cases h
  · rename_i h0
    split at h
    · cases h
    · rename_i hs
      by_cases hsorted : strictSorted (ranks.take 15) = true
      · simp only [hsorted, if_true] at h
        cases h
        simp at h0
        simp [hsorted, hs, h0]
      · simp [hsorted] at h

/-! ### mint amount -/

/-- minting for a USD value yields the whole units affordable at the current cost; the
remainder (strictly less than one unit's cost) stays unminted. -/
theorem mint_amount_spec {g : Gt} {value m mv c : Nat} (h : getMintAmount g value = .ok (m, mv, c)) :
    c = g.mintingCost ∧ c ≠ 0 ∧ m = value / c ∧ mv = m * c ∧ mv ≤ value ∧ value - mv < c ∧
      m < 2 ^ 64 := by
  unfold getMintAmount toU at h
  by_cases h0 : g.mintingCost = 0
  · simp [h0] at h
  · by_cases h64 : value / g.mintingCost < 2 ^ 64
    · simp only [h0, h64, if_false, if_true] at h
      injection h with h; injection h with h1 h2; injection h2 with h2 h3
      subst h1; subst h2; subst h3
      have e1 := Nat.div_add_mod value g.mintingCost
      have e2 := Nat.mod_lt value (Nat.pos_of_ne_zero h0)
      have e3 : g.mintingCost * (value / g.mintingCost) = value / g.mintingCost * g.mintingCost :=
        Nat.mul_comm _ _
      refine ⟨rfl, h0, rfl, ?_, ?_, ?_, h64⟩ <;> omega
    · simp [h0, h64] at h

theorem mint_amount_zero_cost (g : Gt) (value : Nat) (h : g.mintingCost = 0) :
    getMintAmount g value = .error .config := by simp [getMintAmount, h]

/-! ### histories -/

structure Inv (U c0 : Nat) (w : World) : Prop where
  supply : w.g.supply = sumAmounts w.users
  cost : CostInv U c0 w.g
  rank : ∀ u ∈ w.users, u.rank = rankScan w.g.ranks u.amount
  vault : w.vault.amount = sumExchange w.users
  /-- an initialised exchange vault has a non-zero window (so `ts / time_window` never divides by 0) -/
  window : w.vault.initialized = true → w.vault.timeWindow ≠ 0

theorem mem_setUser {us : List User} {i : Nat} {u x : User} (h : x ∈ setUser us i u) :
    x = u ∨ x ∈ us := by
  unfold setUser at h
  rcases List.mem_or_eq_of_mem_set h with h | h
  · exact Or.inr h
  · exact Or.inl h

/-- a mint keeps the invariant. -/
theorem mint_preserves {U c0 : Nat} {w : World} {now : Int} {uid amount : Nat} {u u' : User} {g' : Gt}
    (hi : Inv U c0 w) (hu : w.users[uid]? = some u) (h : mintTo U now w.g u amount = .ok (g', u')) :
    Inv U c0 { w with g := g', users := setUser w.users uid u' } ∧
      w.g.totalMinted ≤ g'.totalMinted := by
  by_cases hne : amount = 0
  · simp [mintTo, hne] at h; obtain ⟨rfl, rfl⟩ := h
    have : setUser w.users uid u = w.users := by
      unfold setUser; exact set_self _ _ _ hu
    rw [this]; exact ⟨hi, Nat.le_refl _⟩
  · obtain ⟨hT, hS, _, hr, _, _, hA, _, hX, hR, _, _, _⟩ := mintTo_effect hne h
    refine ⟨⟨?_, mintTo_preserves_costInv hi.cost h, ?_, ?_, hi.window⟩, by omega⟩
    · have := sum_set (·.amount) w.users uid u u' hu
      simp only [sumAmounts, setUser] at *
      have := hi.supply
      simp only [sumAmounts] at this
      omega
    · intro x hx
      rcases mem_setUser hx with rfl | hx
      · simp [hr, hR]
      · simpa [hr] using hi.rank x hx
    · have := sum_set (·.exchange) w.users uid u u' hu
      simp only [sumExchange, setUser] at *
      have := hi.vault
      simp only [sumExchange] at this
      omega

theorem burn_preserves {U c0 : Nat} {w : World} {uid amount : Nat} {u u' : User} {g' : Gt}
    (hi : Inv U c0 w) (hu : w.users[uid]? = some u) (h : burnFrom w.g u amount = .ok (g', u')) :
    Inv U c0 { w with g := g', users := setUser w.users uid u' } ∧ g'.totalMinted = w.g.totalMinted ∧
      g'.ranks = w.g.ranks ∧ g'.gtVault = w.g.gtVault := by
  by_cases hne : amount = 0
  · simp [burnFrom, hne] at h; obtain ⟨rfl, rfl⟩ := h
    have : setUser w.users uid u = w.users := by
      unfold setUser; exact set_self _ _ _ hu
    rw [this]; exact ⟨hi, rfl, rfl, rfl⟩
  · obtain ⟨h1, h2, hS, hA, rfl, _, hX, hR⟩ := burnFrom_effect hne h
    refine ⟨⟨?_, ?_, ?_, ?_, hi.window⟩, rfl, rfl, rfl⟩
    · have := sum_set (·.amount) w.users uid u u' hu
      simp only [sumAmounts, setUser] at *
      have := hi.supply
      simp only [sumAmounts] at this
      omega
    · exact hi.cost
    · intro x hx
      rcases mem_setUser hx with rfl | hx
      · simpa using hR
      · simpa using hi.rank x hx
    · have := sum_set (·.exchange) w.users uid u u' hu
      simp only [sumExchange, setUser] at *
      have := hi.vault
      simp only [sumExchange] at this
      omega

/-- every successful instruction keeps the invariant and never decreases the total minted. -/
theorem stepE_preserves {U c0 : Nat} {w w' : World} {op : Op} (hi : Inv U c0 w)
    (h : stepE U w op = .ok w') : Inv U c0 w' ∧ w.g.totalMinted ≤ w'.g.totalMinted := by
  cases op with
  | mint now uid amount =>
    simp only [stepE] at h
    cases hu : w.users[uid]? with
    | none => simp [hu] at h
    | some u =>
      simp only [hu] at h
      cases hm : mintTo U now w.g u amount with
      | error e => simp [hm] at h
      | ok p =>
        obtain ⟨g', u'⟩ := p
        simp only [hm] at h; injection h with h; subst h
        exact mint_preserves hi hu hm
  | burn uid amount =>
    simp only [stepE] at h
    cases hu : w.users[uid]? with
    | none => simp [hu] at h
    | some u =>
      simp only [hu] at h
      cases hm : burnFrom w.g u amount with
      | error e => simp [hm] at h
      | ok p =>
        obtain ⟨g', u'⟩ := p
        simp only [hm] at h; injection h with h; subst h
        obtain ⟨a, b, _, _⟩ := burn_preserves hi hu hm
        exact ⟨a, by simp [b]⟩
  | mintValue now uid value =>
    simp only [stepE] at h
    cases hu : w.users[uid]? with
    | none => simp [hu] at h
    | some u =>
      simp only [hu] at h
      cases hg : getMintAmount w.g value with
      | error e => simp [hg] at h
      | ok q =>
        obtain ⟨m, mv, c⟩ := q
        simp only [hg] at h
        cases hm : mintTo U now w.g u m with
        | error e => simp [hm] at h
        | ok p =>
          obtain ⟨g', u'⟩ := p
          simp only [hm] at h; injection h with h; subst h
          exact mint_preserves hi hu hm
  | vaultInit now tw =>
    simp only [stepE] at h
    cases hv : vaultInit w.vault now tw with
    | error e => simp [hv] at h
    | ok v =>
      simp only [hv] at h; injection h with h; subst h
      have this : v.amount = w.vault.amount ∧ (v.initialized = true → v.timeWindow ≠ 0) := by
        unfold Gt.vaultInit at hv
        split at hv
        · cases hv
        · split at hv
          · cases hv
          · rename_i htw; cases hv; exact ⟨rfl, fun _ => by simp only; omega⟩
      exact ⟨⟨hi.supply, hi.cost, hi.rank, by simpa [this.1] using hi.vault, this.2⟩, Nat.le_refl _⟩
  | request now uid amount =>
    simp only [stepE] at h
    cases hu : w.users[uid]? with
    | none => simp [hu] at h
    | some u =>
      simp only [hu] at h
      cases hm : requestExchange w.g u w.vault now amount with
      | error e => simp [hm] at h
      | ok p =>
        obtain ⟨g', u', v'⟩ := p
        simp only [hm] at h; injection h with h; subst h
        unfold requestExchange at hm
        by_cases hvi : w.vault.initialized = true
        · simp only [hvi, Bool.not_true, Bool.false_eq_true, if_false] at hm
          cases hb : burnFrom w.g u amount with
          | error e => simp [hb] at hm
          | ok q =>
            obtain ⟨g1, u1⟩ := q
            simp only [hb] at hm
            cases hd : validateDepositable w.vault now with
            | error e => simp [hd] at hm
            | ok _ =>
              simp only [hd, checkedAdd, toU] at hm
              by_cases hva : w.vault.amount + amount < 2 ^ 64
              · by_cases hxa : u1.exchange + amount < 2 ^ 64
                · simp only [hva, hxa, if_true] at hm
                  injection hm with hm; injection hm with e1 e2; injection e2 with e2 e3
                  subst e1; subst e2; subst e3
                  obtain ⟨⟨b1, b2, b3, b4, b5⟩, bt, br, _⟩ := burn_preserves hi hu hb
                  have hlt : uid < w.users.length := (List.getElem?_eq_some_iff.1 hu).1
                  refine ⟨⟨?_, b2, ?_, ?_, fun _ => hi.window hvi⟩, by simp [bt]⟩
                  · have s1 := sum_set (·.amount) w.users uid u u1 hu
                    have s2 := sum_set (·.amount) w.users uid u { u1 with exchange := u1.exchange + amount } hu
                    simp only [sumAmounts, setUser] at *
                    omega
                  · intro x hx
                    rcases mem_setUser hx with rfl | hx
                    · have := b3 u1 (by unfold setUser; exact mem_set_self' _ _ _ hlt)
                      simpa using this
                    · have := hi.rank x hx
                      simpa [br] using this
                  · have s1 := sum_set (·.exchange) w.users uid u u1 hu
                    have s2 := sum_set (·.exchange) w.users uid u { u1 with exchange := u1.exchange + amount } hu
                    simp only [sumExchange, setUser] at *
                    omega
                · simp [hva, hxa] at hm
              · simp [hva] at hm
        · simp [hvi] at hm
  | confirm now =>
    simp only [stepE] at h
    cases hc : confirmVault w.g w.vault now with
    | error e => simp [hc] at h
    | ok p =>
      obtain ⟨g', v', amt⟩ := p
      simp only [hc] at h; injection h with h; subst h
      unfold confirmVault at hc
      by_cases hvi : w.vault.initialized = true
      · simp only [hvi, Bool.not_true, Bool.false_eq_true, if_false] at hc
        cases hd : validateConfirmable w.vault now with
        | error e => simp [hd] at hc
        | ok _ =>
          simp only [hd, checkedAdd, toU] at hc
          by_cases hz : w.vault.amount = 0
          · simp only [hz, if_true] at hc
            injection hc with hc; injection hc with e1 e2; injection e2 with e2 e3
            subst e1; subst e2
            exact ⟨⟨hi.supply, hi.cost, hi.rank, by simpa [hz] using hi.vault, fun _ => hi.window hvi⟩, Nat.le_refl _⟩
          · simp only [hz, if_false] at hc
            by_cases hg : w.g.gtVault + w.vault.amount < 2 ^ 64
            · simp only [hg, if_true] at hc
              injection hc with hc; injection hc with e1 e2; injection e2 with e2 e3
              subst e1; subst e2
              exact ⟨⟨hi.supply, hi.cost, hi.rank, by simpa using hi.vault, fun _ => hi.window hvi⟩, Nat.le_refl _⟩
            · simp [hg] at hc
      · simp [hvi] at hc

theorem step_preserves {U c0 : Nat} (w : World) (op : Op) (hi : Inv U c0 w) :
    Inv U c0 (step U w op) ∧ w.g.totalMinted ≤ (step U w op).g.totalMinted := by
  unfold step
  cases h : stepE U w op with
  | ok w' => exact stepE_preserves hi h
  | error e => exact ⟨hi, Nat.le_refl _⟩

theorem run_preserves {U c0 : Nat} (ops : List Op) : ∀ (w : World), Inv U c0 w →
    Inv U c0 (run U w ops) ∧ w.g.totalMinted ≤ (run U w ops).g.totalMinted := by
  induction ops with
  | nil => intro w hi; exact ⟨hi, Nat.le_refl _⟩
  | cons op ops ih =>
    intro w hi
    obtain ⟨h1, h2⟩ := step_preserves w op hi
    obtain ⟨h3, h4⟩ := ih _ h1
    exact ⟨by simpa [run] using h3, by simp only [run, List.foldl_cons] at h4 ⊢; omega⟩

/-- after any sequence of mints, burns, value-mints and exchange requests/confirmations over
any number of users, the buyback-able supply equals the sum of user balances. -/
theorem supply_eq_sum_balances {U c0 : Nat} (w : World) (ops : List Op) (hi : Inv U c0 w) :
    (run U w ops).g.supply = sumAmounts (run U w ops).users :=
  (run_preserves ops w hi).1.supply

/-- total minted never decreases. -/
theorem total_minted_monotone {U c0 : Nat} (w : World) (ops : List Op) (hi : Inv U c0 w) :
    w.g.totalMinted ≤ (run U w ops).g.totalMinted :=
  (run_preserves ops w hi).2

/-- after any history the minting cost is the initial cost grown `total_minted / grow_step`
times: it depends only on the total minted, not on how minting was split. -/
theorem cost_function_of_total_minted {U c0 : Nat} (w : World) (ops : List Op) (hi : Inv U c0 w) :
    let g := (run U w ops).g
    iterCost U g.costGrowFactor (g.totalMinted / g.growStepAmount) c0 = some g.mintingCost := by
  obtain ⟨h1, h2⟩ := (run_preserves ops w hi).1.cost
  simp only; rw [← h1]; exact h2

/-- after any history every user's rank is the number of thresholds at or below the balance —
provided it was so initially (true for fresh users iff no threshold is 0; see the witness). -/
theorem rank_always_count_partial {U c0 : Nat} (w : World) (ops : List Op) (hi : Inv U c0 w)
    (hs : strictSorted (run U w ops).g.ranks = true) :
    ∀ u ∈ (run U w ops).users,
      u.rank = ((run U w ops).g.ranks.filter (fun t => decide (t ≤ u.amount))).length := by
  intro u hu
  rw [← rank_spec _ _ hs]
  exact (run_preserves ops w hi).1.rank u hu

/-- the deposited GT in the vault is the sum of the users' exchange records. -/
theorem vault_eq_sum_exchanges {U c0 : Nat} (w : World) (ops : List Op) (hi : Inv U c0 w) :
    (run U w ops).vault.amount = sumExchange (run U w ops).users :=
  (run_preserves ops w hi).1.vault

/-- a freshly initialised GT state with fresh users satisfies the invariant when the first
threshold is positive. -/
theorem fresh_world_inv {U : Nat} {g : Gt} (n : Nat) (h0 : g.supply = 0) (ht : g.totalMinted = 0)
    (hg : g.growSteps = 0) (hr : rankScan g.ranks 0 = 0) :
    Inv U g.mintingCost { g := g, users := List.replicate n {}, vault := {} } := by
  refine ⟨?_, ⟨by simp [hg, ht], by simp [hg, iterCost]⟩, ?_, ?_, by simp⟩
  · simp [sumAmounts, h0]
  · intro u hu; rw [List.eq_of_mem_replicate hu]; simpa using hr.symm
  · simp [sumExchange]

/-- WITNESS (literal property fails in a degenerate configuration): with a rank threshold of 0
a fresh user holds balance 0 and rank 0 although one threshold is at or below the balance; the
rank is only recomputed by a non-zero mint or burn. -/
theorem rank_fresh_user_witness :
    strictSorted [0, 10] = true ∧ ({} : User).rank = 0 ∧
      ([0, 10].filter (fun t => decide (t ≤ ({} : User).amount))).length = 1 ∧
      (mintTo (10 ^ 20) 5 { growStepAmount := 100, mintingCost := 1, ranks := [0, 10] } {} 0).map
        (fun p => p.2.rank) = .ok 0 := by
  refine ⟨by decide, rfl, by decide, by rfl⟩

/-! ### exchange window -/

theorem depositable_iff (v : Vault) (now : Int) :
    validateDepositable v now = .ok () ↔
      v.confirmed = false ∧ v.timeWindow ≠ 0 ∧
        windowIndex now v.timeWindow = windowIndex v.ts v.timeWindow := by
  unfold validateDepositable
  cases hc : v.confirmed <;> by_cases hz : v.timeWindow = 0 <;>
    by_cases h : windowIndex now v.timeWindow = windowIndex v.ts v.timeWindow <;> simp [h, hz]

theorem confirmable_iff (v : Vault) (now : Int) :
    validateConfirmable v now = .ok () ↔
      v.initialized = true ∧ v.confirmed = false ∧ v.timeWindow ≠ 0 ∧
        windowIndex now v.timeWindow > windowIndex v.ts v.timeWindow := by
  unfold validateConfirmable
  cases hi : v.initialized <;> cases hc : v.confirmed <;> by_cases hz : v.timeWindow = 0 <;>
    by_cases h : windowIndex now v.timeWindow > windowIndex v.ts v.timeWindow <;> simp [h, hz]

/-- an initialised vault always has a positive window, so the division in the window index is
never by zero on the request/confirm paths (which require `is_initialized`). -/
theorem vaultInit_window_pos {v v' : Vault} {now : Int} {tw : Nat} (h : vaultInit v now tw = .ok v') :
    v'.initialized = true ∧ v'.timeWindow = tw ∧ tw ≠ 0 ∧ v'.ts = now ∧ v'.confirmed = v.confirmed := by
  unfold Gt.vaultInit at h
  split at h
  · cases h
  · split at h
    · cases h
    · rename_i h2; cases h; simp [h2]

/-- a vault is never depositable and confirmable at the same instant. -/
theorem not_depositable_and_confirmable (v : Vault) (now : Int) :
    ¬ (validateDepositable v now = .ok () ∧ validateConfirmable v now = .ok ()) := by
  rw [depositable_iff, confirmable_iff]
  intro ⟨⟨_, _, h1⟩, _, _, _, h2⟩
  omega

/-- once confirmed a vault accepts no deposit and no second confirmation. -/
theorem confirmed_is_final (v : Vault) (now : Int) (h : v.confirmed = true) :
    validateDepositable v now = .error .precond ∧ validateConfirmable v now = .error .precond := by
  unfold validateDepositable validateConfirmable
  cases hi : v.initialized <;> simp [h]

/-- for non-negative timestamps and a positive window the deposit window is exactly the
aligned interval `[k·tw, (k+1)·tw)` containing the vault's creation time. -/
theorem window_interval (ts now : Nat) (tw : Nat) (htw : 0 < tw) :
    windowIndex (now : Int) (tw : Int) = windowIndex (ts : Int) (tw : Int) ↔
      ts / tw * tw ≤ now ∧ now < (ts / tw + 1) * tw := by
  unfold windowIndex
  rw [Int.tdiv_eq_ediv_of_nonneg (by omega), Int.tdiv_eq_ediv_of_nonneg (by omega)]
  rw [← Int.natCast_ediv, ← Int.natCast_ediv]
  rw [Int.natCast_inj]
  constructor
  · intro h
    rw [← h]
    have e1 := Nat.div_add_mod now tw
    have e2 := Nat.mod_lt now htw
    rw [Nat.add_mul, Nat.mul_comm (now / tw) tw]
    omega
  · intro ⟨h1, h2⟩
    apply Nat.le_antisymm
    · exact Nat.lt_succ_iff.1 ((Nat.div_lt_iff_lt_mul htw).2 h2)
    · exact (Nat.le_div_iff_mul_le htw).2 h1

/-! ### Non-vacuity -/
example : iterCost (10 ^ 20) (101 * 10 ^ 18) 2 (5 * 10 ^ 18) = some 5100500000000000000 := by decide
example : rankScan [10, 20, 30] 25 = 2 := by decide
example : getMintAmount { mintingCost := 7 } 30 = .ok (4, 28, 7) := by rfl
def exWorld : World :=
  { g := { growStepAmount := 10, mintingCost := 100, costGrowFactor := 2 * 10 ^ 20, ranks := [5] },
    users := [({} : User), ({} : User)] }
example : (run (10 ^ 20) exWorld [.mint 1 0 7, .mint 2 1 8, .burn 0 3]).g.mintingCost = 200 := by decide
example : validateConfirmable { initialized := true, ts := 95, timeWindow := 100 } 100 = .ok () := by rfl

/-! ### Non-vacuity added by the audit (B6): the invariant on the initial AND on a reached state,
a concrete run through every instruction kind, and each theorem instantiated -/

/-- the invariant holds on the initial example world (hypotheses of `fresh_world_inv` are met) … -/
theorem exWorld_inv_witness : Inv (10 ^ 20) 100 exWorld :=
  fresh_world_inv (U := 10 ^ 20) (g := exWorld.g) 2 rfl rfl rfl (by decide)

/-- a history using every instruction once: mint 7 to user 0; value-mint 1650 (= 16 GT at cost 100,
crossing two cost steps) to user 1; open a 100 s exchange window at t = 50; user 0 deposits 3 at
t = 60; user 1 burns 2; the vault is confirmed in the next window (t = 150) -/
local notation "exOps" =>
  ([Op.mint 1 0 7, Op.mintValue 2 1 1650, Op.vaultInit 50 100, Op.request 60 0 3, Op.burn 1 2, Op.confirm 150] : List Op)

-- every instruction succeeded (the values can only arise if none was skipped as an error)
local notation "exEnd" => (run (10 ^ 20) exWorld exOps)
example : (exEnd).g.supply = 18 ∧ (exEnd).g.totalMinted = 23 ∧ (exEnd).g.mintingCost = 400 ∧ (exEnd).g.growSteps = 2 ∧
    (exEnd).g.gtVault = 3 ∧ (exEnd).vault.amount = 3 ∧ (exEnd).vault.confirmed = true ∧
    (exEnd).users.map (·.amount) = [4, 14] ∧ (exEnd).users.map (·.rank) = [0, 1] ∧
    (exEnd).users.map (·.exchange) = [3, 0] := by decide +kernel
-- … and on that non-initial reached state (`run_preserves` instantiated on the non-empty run)
example : Inv (10 ^ 20) 100 (run (10 ^ 20) exWorld exOps) := (run_preserves exOps exWorld exWorld_inv_witness).1
example : (run (10 ^ 20) exWorld exOps).g.supply = sumAmounts (run (10 ^ 20) exWorld exOps).users :=
  supply_eq_sum_balances exWorld exOps exWorld_inv_witness
example : exWorld.g.totalMinted ≤ (run (10 ^ 20) exWorld exOps).g.totalMinted :=
  total_minted_monotone exWorld exOps exWorld_inv_witness
example : iterCost (10 ^ 20) (run (10 ^ 20) exWorld exOps).g.costGrowFactor
    ((run (10 ^ 20) exWorld exOps).g.totalMinted / (run (10 ^ 20) exWorld exOps).g.growStepAmount) 100 =
    some (run (10 ^ 20) exWorld exOps).g.mintingCost :=
  cost_function_of_total_minted exWorld exOps exWorld_inv_witness
example : iterCost (10 ^ 20) (2 * 10 ^ 20) (23 / 10) 100 = some 400 := by decide
example : ∀ u ∈ (run (10 ^ 20) exWorld exOps).users,
    u.rank = ((run (10 ^ 20) exWorld exOps).g.ranks.filter (fun t => decide (t ≤ u.amount))).length :=
  rank_always_count_partial exWorld exOps exWorld_inv_witness (by decide +kernel)
example : (run (10 ^ 20) exWorld exOps).vault.amount = sumExchange (run (10 ^ 20) exWorld exOps).users :=
  vault_eq_sum_exchanges exWorld exOps exWorld_inv_witness
-- `step_preserves` on a failing instruction (burn more than the balance): the world is unchanged
example : step (10 ^ 20) exWorld (.burn 0 1) = exWorld := by decide +kernel
example : Inv (10 ^ 20) 100 (step (10 ^ 20) exWorld (.burn 0 1)) := (step_preserves exWorld _ exWorld_inv_witness).1

-- `stepE_preserves` / `mint_preserves`: the hypotheses are met by the first mint …
example : (stepE (10 ^ 20) exWorld (.mint 1 0 7)).map (fun w => (w.g.supply, w.users.map (·.amount))) = .ok (7, [7, 0]) := by
  rfl
example : ∀ w', stepE (10 ^ 20) exWorld (.mint 1 0 7) = .ok w' →
    Inv (10 ^ 20) 100 w' ∧ exWorld.g.totalMinted ≤ w'.g.totalMinted :=
  fun _ h => stepE_preserves exWorld_inv_witness h
example : exWorld.users[0]? = some ({} : User) ∧
    (mintTo (10 ^ 20) 1 exWorld.g {} 7).map (fun p => (p.1.totalMinted, p.2.amount, p.2.rank)) = .ok (7, 7, 1) :=
  ⟨rfl, rfl⟩
example : ∀ g' u', mintTo (10 ^ 20) 1 exWorld.g {} 7 = .ok (g', u') →
    Inv (10 ^ 20) 100 { exWorld with g := g', users := setUser exWorld.users 0 u' } ∧
      exWorld.g.totalMinted ≤ g'.totalMinted :=
  fun _ _ h => mint_preserves (uid := 0) exWorld_inv_witness rfl h
-- … and `burn_preserves` by a burn on the world reached after it
example : (run (10 ^ 20) exWorld [.mint 1 0 7]).users[0]? = some { rank := 1, amount := 7, totalMinted := 7, lastMintedAt := 1 } ∧
    (burnFrom (run (10 ^ 20) exWorld [.mint 1 0 7]).g { rank := 1, amount := 7, totalMinted := 7, lastMintedAt := 1 } 3).map
      (fun p => (p.1.supply, p.2.amount, p.2.rank)) = .ok (4, 4, 0) := by
  refine ⟨by decide +kernel, by rfl⟩
example : ∀ g' u', burnFrom (run (10 ^ 20) exWorld [.mint 1 0 7]).g
      { rank := 1, amount := 7, totalMinted := 7, lastMintedAt := 1 } 3 = .ok (g', u') →
    Inv (10 ^ 20) 100 { g := g', users := setUser (run (10 ^ 20) exWorld [.mint 1 0 7]).users 0 u', vault := (run (10 ^ 20) exWorld [.mint 1 0 7]).vault } ∧
    g'.totalMinted = (run (10 ^ 20) exWorld [.mint 1 0 7]).g.totalMinted ∧
    g'.ranks = (run (10 ^ 20) exWorld [.mint 1 0 7]).g.ranks ∧
    g'.gtVault = (run (10 ^ 20) exWorld [.mint 1 0 7]).g.gtVault :=
  fun _ _ h => burn_preserves (uid := 0) (run_preserves [.mint 1 0 7] exWorld exWorld_inv_witness).1
    (by decide +kernel) h

-- `mintTo_preserves_costInv`: a mint that crosses a cost step (15 / 10 = 1 step, cost 100 → 200)
example : CostInv (10 ^ 20) 100 exWorld.g := exWorld_inv_witness.cost
example : (mintTo (10 ^ 20) 1 exWorld.g {} 15).map (fun p => (p.1.growSteps, p.1.mintingCost)) = .ok (1, 200) := by rfl
example : ∀ g' u', mintTo (10 ^ 20) 1 exWorld.g {} 15 = .ok (g', u') → CostInv (10 ^ 20) 100 g' :=
  fun _ _ h => mintTo_preserves_costInv exWorld_inv_witness.cost h
-- `cost_split_independent`: 7 then 8 (to different users, at different times) against 15 at once;
-- the three mints succeed, the second one from the state the first one produced
example : ((mintTo (10 ^ 20) 1 exWorld.g {} 7).bind fun p => mintTo (10 ^ 20) 2 p.1 { amount := 1 } 8).map
      (fun p => (p.1.totalMinted, p.1.growSteps, p.1.mintingCost)) = .ok (15, 1, 200) ∧
    (mintTo (10 ^ 20) 3 exWorld.g { amount := 2 } 15).map
      (fun p => (p.1.totalMinted, p.1.growSteps, p.1.mintingCost)) = .ok (15, 1, 200) := ⟨rfl, rfl⟩
example : ∀ g1 g2 g3 u1' u2' u3', mintTo (10 ^ 20) 1 exWorld.g {} 7 = .ok (g1, u1') →
    mintTo (10 ^ 20) 2 g1 { amount := 1 } 8 = .ok (g2, u2') →
    mintTo (10 ^ 20) 3 exWorld.g { amount := 2 } 15 = .ok (g3, u3') →
    g2.totalMinted = g3.totalMinted ∧ g2.growSteps = g3.growSteps ∧ g2.mintingCost = g3.mintingCost :=
  fun _ _ _ _ _ _ h1 h2 h3 => cost_split_independent (by decide) h1 h2 h3

-- `rank_spec`: sorted thresholds; and why the hypothesis is needed (unsorted: scan 1, count 2)
example : rankScan [10, 20, 30] 25 = ([10, 20, 30].filter (fun t => decide (t ≤ 25))).length :=
  rank_spec [10, 20, 30] 25 (by decide)
example : rankScan [10, 30, 20] 25 = 1 ∧ ([10, 30, 20].filter (fun t => decide (t ≤ 25))).length = 2 := by decide
-- `init_ranks_sorted`: a successful init, and the two rejections it is about
example : (init {} 5 100 (2 * 10 ^ 20) 10 [5, 10, 40]).map (fun g => (g.ranks, g.growStepAmount, g.mintingCost)) =
    .ok ([5, 10, 40], 10, 100) := by rfl
example : ∀ g', init {} 5 100 (2 * 10 ^ 20) 10 [5, 10, 40] = .ok g' → strictSorted g'.ranks = true :=
  fun _ h => (init_ranks_sorted h).1
example : init {} 5 100 (2 * 10 ^ 20) 10 [5, 5] = .error .config ∧ init {} 5 100 (2 * 10 ^ 20) 0 [5] = .error .config ∧
    init { totalMinted := 1 } 5 100 (2 * 10 ^ 20) 10 [5] = .error .initialized := ⟨rfl, rfl, rfl⟩
-- `mint_amount_spec` / `mint_amount_zero_cost`
example : (4 : Nat) = 30 / 7 ∧ (28 : Nat) = 4 * 7 ∧ 28 ≤ 30 ∧ 30 - 28 < 7 :=
  have h := mint_amount_spec (g := { mintingCost := 7 }) (value := 30) (m := 4) (mv := 28) (c := 7) (by rfl)
  ⟨h.2.2.1, h.2.2.2.1, h.2.2.2.2.1, h.2.2.2.2.2.1⟩
example : getMintAmount {} 30 = .error .config := mint_amount_zero_cost {} 30 rfl
example : getMintAmount { mintingCost := 1 } (2 ^ 64) = .error .overflow := by rfl
-- `mem_setUser`
example : ({ amount := 3 } : User) = { amount := 3 } ∨ ({ amount := 3 } : User) ∈ [({} : User)] :=
  mem_setUser (us := [{}]) (i := 0) (by decide)

-- exchange window: `depositable_iff`, `confirmable_iff`, `vaultInit_window_pos`, `confirmed_is_final`
example : validateDepositable { initialized := true, ts := 95, timeWindow := 100 } 60 = .ok () ∧
    validateDepositable { initialized := true, ts := 95, timeWindow := 100 } 100 = .error .arg ∧
    validateDepositable { initialized := true, ts := 95, timeWindow := 0 } 60 = .error .divZero := ⟨rfl, rfl, rfl⟩
example : windowIndex 60 100 = windowIndex 95 100 :=
  ((depositable_iff { initialized := true, ts := 95, timeWindow := 100 } 60).1 rfl).2.2
example : windowIndex 100 100 > windowIndex 95 100 :=
  ((confirmable_iff { initialized := true, ts := 95, timeWindow := 100 } 100).1 rfl).2.2.2
example : vaultInit {} 50 100 = .ok { initialized := true, ts := 50, timeWindow := 100 } ∧
    vaultInit {} 50 0 = .error .arg ∧ vaultInit { initialized := true } 50 100 = .error .precond := ⟨rfl, rfl, rfl⟩
example : (100 : Nat) ≠ 0 :=
  (vaultInit_window_pos (v := {}) (v' := { initialized := true, ts := 50, timeWindow := 100 }) (now := 50) (tw := 100)
    rfl).2.2.1
example : validateDepositable { initialized := true, confirmed := true, ts := 95, timeWindow := 100 } 60 = .error .precond ∧
    validateConfirmable { initialized := true, confirmed := true, ts := 95, timeWindow := 100 } 200 = .error .precond :=
  confirmed_is_final _ _ rfl
-- `window_interval`: ts = 95, window 100 ⇒ deposits in [0, 100)
example : windowIndex ((60 : Nat) : Int) ((100 : Nat) : Int) = windowIndex ((95 : Nat) : Int) ((100 : Nat) : Int) :=
  (window_interval 95 60 100 (by decide)).2 ⟨by decide, by decide⟩
example : 95 / 100 * 100 ≤ 60 ∧ 60 < (95 / 100 + 1) * 100 := (window_interval 95 60 100 (by decide)).1 (by decide)
-- outside the domain of `window_interval` (negative clock, model only): truncation toward zero makes the
-- window around 0 twice as long — `-50` and `50` share an index
example : windowIndex (-50) 100 = windowIndex 50 100 ∧ windowIndex (-99) 100 = windowIndex 99 100 := by decide

/-- AUDIT (B6), new: no instruction changes the rank thresholds, the grow step or the grow factor
(they are fixed by `init`) … -/
theorem stepE_keeps_config {U : Nat} {w w' : World} {op : Op} (h : stepE U w op = .ok w') :
    w'.g.ranks = w.g.ranks ∧ w'.g.growStepAmount = w.g.growStepAmount ∧
      w'.g.costGrowFactor = w.g.costGrowFactor := by
  have hmint : ∀ {now : Int} {g g' : Gt} {u u' : User} {amount : Nat}, mintTo U now g u amount = .ok (g', u') →
      g'.ranks = g.ranks ∧ g'.growStepAmount = g.growStepAmount ∧ g'.costGrowFactor = g.costGrowFactor := by
    intro now g g' u u' amount hm
    by_cases hne : amount = 0
    · simp [mintTo, hne] at hm; obtain ⟨rfl, _⟩ := hm; exact ⟨rfl, rfl, rfl⟩
    · obtain ⟨_, _, _, hr, hs, hf, _⟩ := mintTo_effect hne hm
      exact ⟨hr, hs, hf⟩
  have hburn : ∀ {g g' : Gt} {u u' : User} {amount : Nat}, burnFrom g u amount = .ok (g', u') →
      g'.ranks = g.ranks ∧ g'.growStepAmount = g.growStepAmount ∧ g'.costGrowFactor = g.costGrowFactor := by
    intro g g' u u' amount hb
    by_cases hne : amount = 0
    · simp [burnFrom, hne] at hb; obtain ⟨rfl, _⟩ := hb; exact ⟨rfl, rfl, rfl⟩
    · obtain ⟨_, _, _, _, rfl, _⟩ := burnFrom_effect hne hb
      exact ⟨rfl, rfl, rfl⟩
  cases op with
  | mint now uid amount =>
    simp only [stepE] at h
    cases hu : w.users[uid]? with
    | none => simp [hu] at h
    | some u =>
      simp only [hu] at h
      cases hm : mintTo U now w.g u amount with
      | error e => simp [hm] at h
      | ok p =>
        obtain ⟨g', u'⟩ := p
        simp only [hm] at h; injection h with h; subst h
        exact hmint hm
  | burn uid amount =>
    simp only [stepE] at h
    cases hu : w.users[uid]? with
    | none => simp [hu] at h
    | some u =>
      simp only [hu] at h
      cases hm : burnFrom w.g u amount with
      | error e => simp [hm] at h
      | ok p =>
        obtain ⟨g', u'⟩ := p
        simp only [hm] at h; injection h with h; subst h
        exact hburn hm
  | mintValue now uid value =>
    simp only [stepE] at h
    cases hu : w.users[uid]? with
    | none => simp [hu] at h
    | some u =>
      simp only [hu] at h
      cases hg : getMintAmount w.g value with
      | error e => simp [hg] at h
      | ok q =>
        obtain ⟨m, mv, c⟩ := q
        simp only [hg] at h
        cases hm : mintTo U now w.g u m with
        | error e => simp [hm] at h
        | ok p =>
          obtain ⟨g', u'⟩ := p
          simp only [hm] at h; injection h with h; subst h
          exact hmint hm
  | vaultInit now tw =>
    simp only [stepE] at h
    cases hv : vaultInit w.vault now tw with
    | error e => simp [hv] at h
    | ok v =>
      simp only [hv] at h; injection h with h; subst h
      exact ⟨rfl, rfl, rfl⟩
  | request now uid amount =>
    simp only [stepE] at h
    cases hu : w.users[uid]? with
    | none => simp [hu] at h
    | some u =>
      simp only [hu] at h
      cases hm : requestExchange w.g u w.vault now amount with
      | error e => simp [hm] at h
      | ok p =>
        obtain ⟨g', u', v'⟩ := p
        simp only [hm] at h; injection h with h; subst h
        unfold requestExchange at hm
        by_cases hvi : w.vault.initialized = true
        · simp only [hvi, Bool.not_true, Bool.false_eq_true, if_false] at hm
          cases hb : burnFrom w.g u amount with
          | error e => simp [hb] at hm
          | ok q =>
            obtain ⟨g1, u1⟩ := q
            simp only [hb] at hm
            cases hd : validateDepositable w.vault now with
            | error e => simp [hd] at hm
            | ok _ =>
              simp only [hd, checkedAdd, toU] at hm
              by_cases hva : w.vault.amount + amount < 2 ^ 64
              · by_cases hxa : u1.exchange + amount < 2 ^ 64
                · simp only [hva, hxa, if_true] at hm
                  injection hm with hm; injection hm with e1 e2; injection e2 with e2 e3
                  subst e1; subst e2; subst e3
                  exact hburn hb
                · simp [hva, hxa] at hm
              · simp [hva] at hm
        · simp [hvi] at hm
  | confirm now =>
    simp only [stepE] at h
    cases hc : confirmVault w.g w.vault now with
    | error e => simp [hc] at h
    | ok p =>
      obtain ⟨g', v', amt⟩ := p
      simp only [hc] at h; injection h with h; subst h
      unfold confirmVault at hc
      by_cases hvi : w.vault.initialized = true
      · simp only [hvi, Bool.not_true, Bool.false_eq_true, if_false] at hc
        cases hd : validateConfirmable w.vault now with
        | error e => simp [hd] at hc
        | ok _ =>
          simp only [hd, checkedAdd, toU] at hc
          by_cases hz : w.vault.amount = 0
          · simp only [hz, if_true] at hc
            injection hc with hc; injection hc with e1 e2; injection e2 with e2 e3
            subst e1; subst e2
            exact ⟨rfl, rfl, rfl⟩
          · simp only [hz, if_false] at hc
            by_cases hg : w.g.gtVault + w.vault.amount < 2 ^ 64
            · simp only [hg, if_true] at hc
              injection hc with hc; injection hc with e1 e2; injection e2 with e2 e3
              subst e1; subst e2
              exact ⟨rfl, rfl, rfl⟩
            · simp [hg] at hc
      · simp [hvi] at hc

/-- … so they are the initial ones after any history. -/
theorem run_keeps_config {U : Nat} (ops : List Op) : ∀ (w : World),
    (run U w ops).g.ranks = w.g.ranks ∧ (run U w ops).g.growStepAmount = w.g.growStepAmount ∧
      (run U w ops).g.costGrowFactor = w.g.costGrowFactor := by
  induction ops with
  | nil => intro w; exact ⟨rfl, rfl, rfl⟩
  | cons op ops ih =>
    intro w
    have s : (step U w op).g.ranks = w.g.ranks ∧ (step U w op).g.growStepAmount = w.g.growStepAmount ∧
        (step U w op).g.costGrowFactor = w.g.costGrowFactor := by
      unfold step
      cases h : stepE U w op with
      | ok w' => exact stepE_keeps_config h
      | error e => exact ⟨rfl, rfl, rfl⟩
    have t := ih (step U w op)
    simp only [run, List.foldl_cons] at t ⊢
    exact ⟨t.1.trans s.1, t.2.1.trans s.2.1, t.2.2.trans s.2.2⟩

/-- AUDIT (B6), stronger form of `rank_always_count_partial`: the sortedness hypothesis is about
the INITIAL thresholds (what `init_ranks_sorted` establishes), not about the state after the
history, and the count is over the initial thresholds. -/
theorem rank_always_count {U c0 : Nat} (w : World) (ops : List Op) (hi : Inv U c0 w)
    (hs : strictSorted w.g.ranks = true) :
    ∀ u ∈ (run U w ops).users, u.rank = (w.g.ranks.filter (fun t => decide (t ≤ u.amount))).length := by
  intro u hu
  have e := (run_keeps_config (U := U) ops w).1
  have := rank_always_count_partial w ops hi (by rw [e]; exact hs) u hu
  rw [e] at this
  exact this
example : ∀ u ∈ (run (10 ^ 20) exWorld exOps).users,
    u.rank = (([5] : List Nat).filter (fun t => decide (t ≤ u.amount))).length :=
  rank_always_count exWorld exOps exWorld_inv_witness (by decide)

/-- AUDIT (B6): with the grow step fixed, the cost after any history is the initial cost grown
`total_minted / initial grow step` times with the initial factor. -/
theorem cost_function_of_total_minted_init {U c0 : Nat} (w : World) (ops : List Op) (hi : Inv U c0 w) :
    iterCost U w.g.costGrowFactor ((run U w ops).g.totalMinted / w.g.growStepAmount) c0 =
      some (run U w ops).g.mintingCost := by
  have e := run_keeps_config (U := U) ops w
  have := cost_function_of_total_minted w ops hi
  simp only [e.2.1, e.2.2] at this
  exact this
example : iterCost (10 ^ 20) (2 * 10 ^ 20) ((run (10 ^ 20) exWorld exOps).g.totalMinted / 10) 100 =
    some (run (10 ^ 20) exWorld exOps).g.mintingCost :=
  cost_function_of_total_minted_init exWorld exOps exWorld_inv_witness

/-! ### round 4: the division by a zero window is unreachable over every history; the cost theorem
under the real `is_initialized` guard; the uninitialised GT state is frozen -/

theorem nextMintingCost_not_divZero (U : Nat) (g : Gt) (n : Nat) :
    nextMintingCost U g n ≠ .error .divZero := by
  intro h
  unfold nextMintingCost at h
  by_cases h0 : g.growStepAmount = 0
  · simp [h0] at h
  · simp only [h0, if_false] at h
    repeat' split at h
    all_goals first | cases h | simp at h

theorem updateCum_not_divZero (U : Nat) (now : Int) (g : Gt) :
    updateCum U now g ≠ .error .divZero := by
  intro h
  unfold updateCum at h
  repeat' split at h
  all_goals first | cases h | simp at h

theorem mintTo_not_divZero (U : Nat) (now : Int) (g : Gt) (u : User) (amount : Nat) :
    mintTo U now g u amount ≠ .error .divZero := by
  intro h
  unfold mintTo at h
  repeat' split at h
  all_goals first
    | (cases h; first
         | exact nextMintingCost_not_divZero _ _ _ (by assumption)
         | exact updateCum_not_divZero _ _ _ (by assumption))
    | cases h

theorem burnFrom_not_divZero (g : Gt) (u : User) (amount : Nat) :
    burnFrom g u amount ≠ .error .divZero := by
  intro h
  unfold burnFrom at h
  repeat' split at h
  all_goals first | cases h | simp_all

theorem getMintAmount_not_divZero (g : Gt) (value : Nat) :
    getMintAmount g value ≠ .error .divZero := by
  intro h
  unfold getMintAmount at h
  repeat' split at h
  all_goals first | cases h | simp_all

/-- the window check divides by zero only for a zero window. -/
theorem divZero_only_zero_window (v : Vault) (now : Int) :
    (validateDepositable v now = .error .divZero → v.timeWindow = 0) ∧
    (validateConfirmable v now = .error .divZero → v.timeWindow = 0) := by
  constructor <;> intro h
  · unfold validateDepositable at h
    repeat' split at h
    all_goals first | assumption | cases h
  · unfold validateConfirmable at h
    repeat' split at h
    all_goals first | assumption | cases h

/-- no instruction of a world satisfying the invariant ends in the division-by-zero panic: the
request and confirm paths check `is_initialized` first, and an initialised vault has a non-zero
window. -/
theorem stepE_never_divZero {U c0 : Nat} {w : World} (hi : Inv U c0 w) (op : Op) :
    stepE U w op ≠ .error .divZero := by
  intro h
  cases op with
  | mint now uid amount =>
    simp only [stepE] at h
    cases hu : w.users[uid]? with
    | none => simp [hu] at h
    | some u =>
      simp only [hu] at h
      cases hm : mintTo U now w.g u amount with
      | error e => simp only [hm] at h; injection h with h; subst h; exact mintTo_not_divZero _ _ _ _ _ hm
      | ok p => obtain ⟨g', u'⟩ := p; simp [hm] at h
  | burn uid amount =>
    simp only [stepE] at h
    cases hu : w.users[uid]? with
    | none => simp [hu] at h
    | some u =>
      simp only [hu] at h
      cases hm : burnFrom w.g u amount with
      | error e => simp only [hm] at h; injection h with h; subst h; exact burnFrom_not_divZero _ _ _ hm
      | ok p => obtain ⟨g', u'⟩ := p; simp [hm] at h
  | mintValue now uid value =>
    simp only [stepE] at h
    cases hu : w.users[uid]? with
    | none => simp [hu] at h
    | some u =>
      simp only [hu] at h
      cases hg : getMintAmount w.g value with
      | error e => simp only [hg] at h; injection h with h; subst h; exact getMintAmount_not_divZero _ _ hg
      | ok q =>
        obtain ⟨m, mv, c⟩ := q
        simp only [hg] at h
        cases hm : mintTo U now w.g u m with
        | error e => simp only [hm] at h; injection h with h; subst h; exact mintTo_not_divZero _ _ _ _ _ hm
        | ok p => obtain ⟨g', u'⟩ := p; simp [hm] at h
  | vaultInit now tw =>
    simp only [stepE] at h
    cases hv : Gt.vaultInit w.vault now tw with
    | ok v => simp [hv] at h
    | error e =>
      simp only [hv] at h; injection h with h; subst h
      unfold Gt.vaultInit at hv
      by_cases h1 : w.vault.initialized = true
      · simp [h1] at hv
      · by_cases h2 : tw = 0 <;> simp [h1, h2] at hv
  | request now uid amount =>
    simp only [stepE] at h
    cases hu : w.users[uid]? with
    | none => simp [hu] at h
    | some u =>
      simp only [hu] at h
      cases hm : requestExchange w.g u w.vault now amount with
      | ok p => obtain ⟨g', u', v'⟩ := p; simp [hm] at h
      | error e =>
        simp only [hm] at h; injection h with h; subst h
        unfold requestExchange at hm
        by_cases hvi : w.vault.initialized = true
        · simp only [hvi, Bool.not_true, Bool.false_eq_true, if_false] at hm
          cases hb : burnFrom w.g u amount with
          | error e => simp only [hb] at hm; injection hm with hm; subst hm; exact burnFrom_not_divZero _ _ _ hb
          | ok q =>
            obtain ⟨g1, u1⟩ := q
            simp only [hb] at hm
            cases hd : validateDepositable w.vault now with
            | error e =>
              simp only [hd] at hm; injection hm with hm; subst hm
              exact hi.window hvi ((divZero_only_zero_window w.vault now).1 hd)
            | ok _ =>
              simp only [hd] at hm
              repeat' split at hm
              all_goals first | cases hm | simp_all
        · simp [hvi] at hm
  | confirm now =>
    simp only [stepE] at h
    cases hc : confirmVault w.g w.vault now with
    | ok p => obtain ⟨g', v', amt⟩ := p; simp [hc] at h
    | error e =>
      simp only [hc] at h; injection h with h; subst h
      unfold confirmVault at hc
      by_cases hvi : w.vault.initialized = true
      · simp only [hvi, Bool.not_true, Bool.false_eq_true, if_false] at hc
        cases hd : validateConfirmable w.vault now with
        | error e =>
          simp only [hd] at hc; injection hc with hc; subst hc
          exact hi.window hvi ((divZero_only_zero_window w.vault now).2 hd)
        | ok _ =>
          simp only [hd] at hc
          repeat' split at hc
          all_goals first | cases hc | simp_all
      · simp [hvi] at hc

/-- over EVERY history: after any sequence of instructions no further instruction can hit the
division by a zero window, and the window predicates themselves never do on an initialised vault. -/
theorem divZero_unreachable {U c0 : Nat} (w : World) (ops : List Op) (hi : Inv U c0 w) (op : Op) (now : Int) :
    stepE U (run U w ops) op ≠ .error .divZero ∧
    ((run U w ops).vault.initialized = true →
      validateDepositable (run U w ops).vault now ≠ .error .divZero ∧
      validateConfirmable (run U w ops).vault now ≠ .error .divZero) := by
  have hi' := (run_preserves ops w hi).1
  refine ⟨stepE_never_divZero hi' op, fun hv => ⟨fun h => ?_, fun h => ?_⟩⟩
  · exact hi'.window hv ((divZero_only_zero_window _ now).1 h)
  · exact hi'.window hv ((divZero_only_zero_window _ now).2 h)

/-- WITNESS: on an UNINITIALISED vault (`time_window = 0`) the public `validate_depositable` does
divide by zero (Rust panic, replayed by `gt depositable` on a fresh world) — which is why the
instruction paths check `is_initialized` first. -/
theorem depositable_uninitialised_panics (now : Int) :
    validateDepositable {} now = .error .divZero := by rfl

/-- the minting cost after any history, under the real guard (`is_initialized`, i.e. a non-zero
grow step — no `x / 0`): the initial cost grown `total_minted / grow_step` times; the guard itself
is preserved. -/
theorem cost_function_of_total_minted_initialised {U c0 : Nat} (w : World) (ops : List Op)
    (hi : Inv U c0 w) (hinit : w.g.growStepAmount ≠ 0) :
    (run U w ops).g.growStepAmount = w.g.growStepAmount ∧ (run U w ops).g.growStepAmount ≠ 0 ∧
    iterCost U w.g.costGrowFactor ((run U w ops).g.totalMinted / w.g.growStepAmount) c0 =
      some (run U w ops).g.mintingCost := by
  have e := run_keeps_config (U := U) ops w
  exact ⟨e.2.1, by rw [e.2.1]; exact hinit, cost_function_of_total_minted_init w ops hi⟩

/-- the uninitialised branch, explicitly: with `grow_step_amount = 0` every non-zero mint is
rejected (`InvalidGTConfig`, or `TokenAmountOverflow` if the total does not fit) … -/
theorem mint_uninitialised_rejected {U : Nat} {now : Int} {g : Gt} {u : User} {amount : Nat}
    (h0 : g.growStepAmount = 0) (hne : amount ≠ 0) :
    mintTo U now g u amount = .error .config ∨ mintTo U now g u amount = .error .overflow := by
  unfold mintTo checkedAdd toU
  simp only [hne, if_false]
  by_cases h1 : g.totalMinted + amount < 2 ^ 64
  · left; simp [h1, nextMintingCost, h0]
  · right; simp [h1]

/-- … so an uninitialised GT state is frozen: after any history nothing was minted and the
cost bookkeeping is untouched (the `x / 0 = 0` reading of `cost_function_of_total_minted` is
never exercised). -/
theorem uninitialised_gt_frozen {U : Nat} (ops : List Op) : ∀ (w : World), w.g.growStepAmount = 0 →
    (run U w ops).g.growStepAmount = 0 ∧ (run U w ops).g.totalMinted = w.g.totalMinted ∧
    (run U w ops).g.growSteps = w.g.growSteps ∧ (run U w ops).g.mintingCost = w.g.mintingCost := by
  have hmint : ∀ {now : Int} {g g' : Gt} {u u' : User} {amount : Nat}, g.growStepAmount = 0 →
      mintTo U now g u amount = .ok (g', u') → g' = g := by
    intro now g g' u u' amount h0 hm
    by_cases hne : amount = 0
    · simp [mintTo, hne] at hm; exact hm.1.symm
    · rcases mint_uninitialised_rejected (U := U) (now := now) (u := u) h0 hne with h | h <;> rw [h] at hm <;> cases hm
  have hstep : ∀ (w w' : World) (op : Op), w.g.growStepAmount = 0 → stepE U w op = .ok w' →
      w'.g.growStepAmount = 0 ∧ w'.g.totalMinted = w.g.totalMinted ∧ w'.g.growSteps = w.g.growSteps ∧
        w'.g.mintingCost = w.g.mintingCost := by
    intro w w' op h0 h
    have hb : ∀ {g g' : Gt} {u u' : User} {amount : Nat}, burnFrom g u amount = .ok (g', u') →
        g'.growStepAmount = g.growStepAmount ∧ g'.totalMinted = g.totalMinted ∧ g'.growSteps = g.growSteps ∧
          g'.mintingCost = g.mintingCost := by
      intro g g' u u' amount hbf
      by_cases hne : amount = 0
      · simp [burnFrom, hne] at hbf; obtain ⟨rfl, _⟩ := hbf; exact ⟨rfl, rfl, rfl, rfl⟩
      · obtain ⟨_, _, _, _, rfl, _⟩ := burnFrom_effect hne hbf; exact ⟨rfl, rfl, rfl, rfl⟩
    cases op with
    | mint now uid amount =>
      simp only [stepE] at h
      cases hu : w.users[uid]? with
      | none => simp [hu] at h
      | some u =>
        simp only [hu] at h
        cases hm : mintTo U now w.g u amount with
        | error e => simp [hm] at h
        | ok p =>
          obtain ⟨g', u'⟩ := p
          simp only [hm] at h; injection h with h; subst h
          have := hmint h0 hm; simp [this, h0]
    | burn uid amount =>
      simp only [stepE] at h
      cases hu : w.users[uid]? with
      | none => simp [hu] at h
      | some u =>
        simp only [hu] at h
        cases hm : burnFrom w.g u amount with
        | error e => simp [hm] at h
        | ok p =>
          obtain ⟨g', u'⟩ := p
          simp only [hm] at h; injection h with h; subst h
          obtain ⟨a, b, c, d⟩ := hb hm; exact ⟨by simp [a, h0], b, c, d⟩
    | mintValue now uid value =>
      simp only [stepE] at h
      cases hu : w.users[uid]? with
      | none => simp [hu] at h
      | some u =>
        simp only [hu] at h
        cases hg : getMintAmount w.g value with
        | error e => simp [hg] at h
        | ok q =>
          obtain ⟨m, mv, c⟩ := q
          simp only [hg] at h
          cases hm : mintTo U now w.g u m with
          | error e => simp [hm] at h
          | ok p =>
            obtain ⟨g', u'⟩ := p
            simp only [hm] at h; injection h with h; subst h
            have := hmint h0 hm; simp [this, h0]
    | vaultInit now tw =>
      simp only [stepE] at h
      cases hv : Gt.vaultInit w.vault now tw with
      | error e => simp [hv] at h
      | ok v => simp only [hv] at h; injection h with h; subst h; exact ⟨h0, rfl, rfl, rfl⟩
    | request now uid amount =>
      simp only [stepE] at h
      cases hu : w.users[uid]? with
      | none => simp [hu] at h
      | some u =>
        simp only [hu] at h
        cases hm : requestExchange w.g u w.vault now amount with
        | error e => simp [hm] at h
        | ok p =>
          obtain ⟨g', u', v'⟩ := p
          simp only [hm] at h; injection h with h; subst h
          unfold requestExchange at hm
          by_cases hvi : w.vault.initialized = true
          · simp only [hvi, Bool.not_true, Bool.false_eq_true, if_false] at hm
            cases hbf : burnFrom w.g u amount with
            | error e => simp [hbf] at hm
            | ok q =>
              obtain ⟨g1, u1⟩ := q
              simp only [hbf] at hm
              cases hd : validateDepositable w.vault now with
              | error e => simp [hd] at hm
              | ok _ =>
                simp only [hd, checkedAdd, toU] at hm
                by_cases hva : w.vault.amount + amount < 2 ^ 64
                · by_cases hxa : u1.exchange + amount < 2 ^ 64
                  · simp only [hva, hxa, if_true] at hm
                    injection hm with hm; injection hm with e1 e2
                    subst e1
                    obtain ⟨a, b, c, d⟩ := hb hbf; exact ⟨by simp [a, h0], b, c, d⟩
                  · simp [hva, hxa] at hm
                · simp [hva] at hm
          · simp [hvi] at hm
    | confirm now =>
      simp only [stepE] at h
      cases hc : confirmVault w.g w.vault now with
      | error e => simp [hc] at h
      | ok p =>
        obtain ⟨g', v', amt⟩ := p
        simp only [hc] at h; injection h with h; subst h
        unfold confirmVault at hc
        by_cases hvi : w.vault.initialized = true
        · simp only [hvi, Bool.not_true, Bool.false_eq_true, if_false] at hc
          cases hd : validateConfirmable w.vault now with
          | error e => simp [hd] at hc
          | ok _ =>
            simp only [hd, checkedAdd, toU] at hc
            by_cases hz : w.vault.amount = 0
            · simp only [hz, if_true] at hc
              injection hc with hc; injection hc with e1 e2; subst e1
              exact ⟨h0, rfl, rfl, rfl⟩
            · simp only [hz, if_false] at hc
              by_cases hg : w.g.gtVault + w.vault.amount < 2 ^ 64
              · simp only [hg, if_true] at hc
                injection hc with hc; injection hc with e1 e2; subst e1
                exact ⟨h0, rfl, rfl, rfl⟩
              · simp [hg] at hc
        · simp [hvi] at hc
  intro w
  induction ops generalizing w with
  | nil => intro h0; exact ⟨h0, rfl, rfl, rfl⟩
  | cons op ops ih =>
    intro h0
    simp only [run, List.foldl_cons]
    have hs : (step U w op).g.growStepAmount = 0 ∧ (step U w op).g.totalMinted = w.g.totalMinted ∧
        (step U w op).g.growSteps = w.g.growSteps ∧ (step U w op).g.mintingCost = w.g.mintingCost := by
      unfold step
      cases h : stepE U w op with
      | ok w' => exact hstep w w' op h0 h
      | error e => exact ⟨h0, rfl, rfl, rfl⟩
    obtain ⟨a, b, c, d⟩ := ih (step U w op) hs.1
    simp only [run] at a b c d
    exact ⟨a, b.trans hs.2.1, c.trans hs.2.2.1, d.trans hs.2.2.2⟩

example : mintTo (10 ^ 20) 5 {} {} 7 = .error .config := by rfl
example : getMintAmount {} 100 = .error .config := by rfl
example : (run (10 ^ 20) { g := {}, users := [({} : User)] } [.mint 1 0 7, .mintValue 2 0 50, .burn 0 0]).g = {} := by decide

end Gmx.C30
