import Gmx.Model.GtBank
import Gmx.Lemmas.GtBank
/-!
# C37 — treasury factors stay valid and GT buyback payouts are proportional

Model: `Gmx.Model.GtBank`. A bank is `(confirmed, remaining confirmed GT, balances per token)`.
`claim b g` is `CompleteGtExchange::execute` for an exchange of `g` GT; `runClaims` is any order of
claim attempts (failed ones change nothing). Tokens are paired positionally (`List.zip`).
-/
namespace Gmx.C37
open Gmx Gmx.GtBank

/-- a setter that succeeds stores exactly the requested factor, which is at most 100%. -/
theorem factor_le_unit {cur f n prev : Nat} (h : setFactor cur f = .ok (n, prev)) :
    n = f ∧ prev = cur ∧ n ≤ UNIT := by
  unfold setFactor at h
  split at h
  · cases h
  · split at h
    · cases h
    · cases h; exact ⟨rfl, rfl, by omega⟩

theorem factor_rejects_above_unit (cur f : Nat) (h : UNIT < f) :
    setFactor cur f = .error .invalidArgument := by
  simp [setFactor, h]

/-- any sequence of setter calls (successful or not) keeps a valid factor valid; a fresh
config starts at 0. -/
theorem factors_stay_valid (cur : Nat) (fs : List Nat) (h : cur ≤ UNIT) :
    fs.foldl (fun c f => match setFactor c f with | .ok (n, _) => n | .error _ => c) cur ≤ UNIT := by
  induction fs generalizing cur with
  | nil => exact h
  | cons f fs ih =>
    simp only [List.foldl_cons]
    apply ih
    cases hs : setFactor cur f with
    | error e => exact h
    | ok r =>
      obtain ⟨n, prev⟩ := r
      exact (factor_le_unit hs).2.2

/-- each claim receives, per token, `⌊balance · gt / remaining⌋`; the bank's balances drop by exactly
that and the remaining confirmed GT by `gt`. -/
theorem claim_amount_spec {b b' : Bank} {g n : Nat} {amts : List Nat}
    (h : claim b g = some (b', n, amts)) (hg : 0 < g) :
    g ≤ b.remaining ∧
    amts = b.balances.map (fun B => B * g / b.remaining) ∧
    b'.balances = b.balances.map (fun B => B - B * g / b.remaining) ∧
    b'.remaining = b.remaining - g ∧ b'.confirmed = b.confirmed :=
  claim_some h hg

/-- an empty claim changes nothing and pays nothing. -/
theorem claim_zero_noop (b : Bank) : claim b 0 = some (b, 0, b.balances.map (fun _ => 0)) :=
  claim_zero b

/-- a claim never pays more of a token than the bank holds. -/
theorem never_overpay {b b' : Bank} {g n : Nat} {amts : List Nat}
    (h : claim b g = some (b', n, amts)) : ∀ p ∈ List.zip b.balances amts, p.2 ≤ p.1 := by
  intro p hp
  by_cases hg : g = 0
  · subst hg
    rw [claim_zero] at h; cases h
    obtain ⟨q, _, rfl⟩ := mem_zip_map_right _ _ _ _ hp
    exact Nat.zero_le _
  · obtain ⟨hgr, ha, _⟩ := claim_some h (by omega)
    rw [ha] at hp
    obtain ⟨q, hq, rfl⟩ := mem_zip_map_right _ _ _ _ hp
    have e := zip_self_eq q hq
    simp only
    rw [e]
    exact share_le q.2 g b.remaining hgr

/-- no spurious failures: with `u64` balances a claim fails exactly when it asks for more GT than
remains confirmed. -/
theorem claim_fails_iff (b : Bank) (g : Nat) (hb : ∀ B ∈ b.balances, B < 2 ^ 64) :
    claim b g = none ↔ b.remaining < g := by
  by_cases hg : g = 0
  · subst hg; simp [claim]
  · by_cases hlt : b.remaining < g
    · simp [claim, hg, hlt]
    · have hR : b.remaining ≠ 0 := by omega
      have hle : g ≤ b.remaining := by omega
      simp [claim, hg, hlt, claimAll_total hR hle b.balances hb]

/-- **every claimant gets at least the floor share of the ORIGINAL balances**, whatever the
order and sizes of the claims (invariant `B_cur · R₀ ≥ B₀ · R_cur`). The statement is about a bank with
`0 < b0.remaining`; for `b0.remaining = 0` the quotient is Lean's `n / 0 = 0` and the inequality carries no
information — that degenerate case is stated separately and exactly by `empty_bank_pays_nothing` below. -/
theorem floor_share_of_original (b0 : Bank) (gs : List Nat) :
    ∀ e ∈ (runClaims b0 gs).2, ∀ p ∈ List.zip b0.balances e.2,
      p.1 * e.1 / b0.remaining ≤ p.2 := by
  suffices H : ∀ (gs : List Nat) (b : Bank), Dominates b0 b →
      ∀ e ∈ (runClaims b gs).2, ∀ p ∈ List.zip b0.balances e.2, p.1 * e.1 / b0.remaining ≤ p.2 from
    H gs b0 (dominates_refl b0)
  intro gs
  induction gs with
  | nil => intro b _ e he; simp [runClaims] at he
  | cons g gs ih =>
    intro b hD e he
    simp only [runClaims] at he
    cases hc : claim b g with
    | none => rw [hc] at he; exact ih b hD e he
    | some r =>
      obtain ⟨b', n, amts⟩ := r
      rw [hc] at he
      simp only [List.mem_cons] at he
      obtain ⟨hD', hshare⟩ := dominates_claim hD hc
      rcases he with rfl | he
      · exact hshare
      · exact ih b' hD' e he

/-- the degenerate case of `floor_share_of_original`, stated for what it is: from a bank with NO remaining GT only
zero-size claims succeed, and they pay nothing (so "floor share" `B·0/0` is not hiding a payout). -/
theorem empty_bank_pays_nothing (b0 : Bank) (h0 : b0.remaining = 0) (gs : List Nat) :
    (runClaims b0 gs).1 = b0 ∧ ∀ e ∈ (runClaims b0 gs).2, e.1 = 0 ∧ ∀ a ∈ e.2, a = 0 := by
  induction gs with
  | nil => exact ⟨rfl, fun e he => by simp [runClaims] at he⟩
  | cons g gs ih =>
    by_cases hg : g = 0
    · subst hg
      simp only [runClaims, claim_zero_noop]
      refine ⟨ih.1, ?_⟩
      intro e he
      simp only [List.mem_cons] at he
      rcases he with rfl | he
      · exact ⟨rfl, fun a ha => by simp at ha; exact ha.2.symm⟩
      · exact ih.2 e he
    · have hn : claim b0 g = none := by
        have : b0.remaining < g := by omega
        simp [claim, hg, this]
      simp only [runClaims, hn]
      exact ih

/-- … and `floor_share_of_original` read with the hypothesis it is about: with `0 < b0.remaining` the bound is the true
rational share rounded down, i.e. `B₀ · g ≤ (paid + 1) · R₀ − 1`. -/
theorem floor_share_of_original_pos (b0 : Bank) (hR : 0 < b0.remaining) (gs : List Nat) :
    ∀ e ∈ (runClaims b0 gs).2, ∀ p ∈ List.zip b0.balances e.2,
      p.1 * e.1 < (p.2 + 1) * b0.remaining := by
  intro e he p hp
  have h := floor_share_of_original b0 gs e he p hp
  have := Nat.lt_mul_of_div_lt (Nat.lt_succ_of_le h) hR
  simpa [Nat.mul_comm] using this

example : (runClaims ⟨true, 0, [10, 7]⟩ [0, 3, 0]).2 = [(0, [0, 0]), (0, [0, 0])] := by decide

/-- **account binding**: an exchange can only be completed against the bank of ITS OWN GT exchange vault — a bank bound
to another vault is rejected whatever it holds (so no other vault's bank pays, and no other bank's remaining GT is
burnt); with the own bank the instruction is exactly `claim`. -/
theorem claim_foreign_bank_rejected (bankVault exVault : Nat) (b : Bank) (g : Nat) (h : bankVault ≠ exVault) :
    claimWith bankVault exVault b g = none := by
  simp [claimWith, h]

theorem claimWith_own (v : Nat) (b : Bank) (g : Nat) : claimWith v v b g = claim b g := by
  simp [claimWith]

example : (claimWith 0 0 ⟨true, 10, [100, 7]⟩ 5).isSome = true ∧ claimWith 1 0 ⟨true, 10, [100, 7]⟩ 5 = none := by decide

/-- the claim that takes all remaining GT drains the bank: it pays every balance in full. -/
theorem last_claim_drains {b b' : Bank} {n : Nat} {amts : List Nat} (hR : 0 < b.remaining)
    (h : claim b b.remaining = some (b', n, amts)) :
    amts = b.balances ∧ (∀ B ∈ b'.balances, B = 0) ∧ b'.remaining = 0 := by
  obtain ⟨_, ha, hb, hr, _⟩ := claim_some h hR
  have hR' : b.remaining ≠ 0 := by omega
  refine ⟨?_, ?_, by omega⟩
  · rw [ha]; simp [Nat.mul_div_cancel _ hR]
  · intro B hB
    rw [hb] at hB
    obtain ⟨x, _, rfl⟩ := List.mem_map.1 hB
    simp [Nat.mul_div_cancel _ hR]

/-- over any history from a bank with confirmed GT: once all confirmed GT has been claimed, the
bank is empty. -/
theorem all_claimed_drains (b0 : Bank) (gs : List Nat) (h0 : 0 < b0.remaining)
    (hend : (runClaims b0 gs).1.remaining = 0) : ∀ B ∈ (runClaims b0 gs).1.balances, B = 0 := by
  suffices H : ∀ (gs : List Nat) (b : Bank), (b.remaining = 0 → ∀ B ∈ b.balances, B = 0) →
      (runClaims b gs).1.remaining = 0 → ∀ B ∈ (runClaims b gs).1.balances, B = 0 from
    H gs b0 (by intro h; omega) hend
  intro gs
  induction gs with
  | nil => intro b hP hz; simpa [runClaims] using hP (by simpa [runClaims] using hz)
  | cons g gs ih =>
    intro b hP hz
    simp only [runClaims] at hz ⊢
    cases hc : claim b g with
    | none => rw [hc] at hz; simp only at hz ⊢; exact ih b hP hz
    | some r =>
      obtain ⟨b', n, amts⟩ := r
      rw [hc] at hz; simp only at hz ⊢
      apply ih b' _ hz
      intro hr0
      by_cases hg : g = 0
      · subst hg; rw [claim_zero] at hc; cases hc; exact hP hr0
      · obtain ⟨hgr, _, hb, hr, _⟩ := claim_some hc (by omega)
        have : g = b.remaining := by omega
        subst this
        exact (last_claim_drains (by omega) hc).2.1

/-- `reserve_balances` keeps `⌊balance · num / den⌋ ≤ balance` per token (num ≤ den enforced). -/
theorem reserve_one_spec {num den bal r : Nat} (h : reserveOne num den bal = some r) (hb : bal ≠ 0) :
    den ≠ 0 ∧ r = bal * num / den ∧ r ≤ bal := by
  unfold reserveOne at h
  simp only [hb, if_false] at h
  split at h
  · cases h
  · rename_i q hq
    unfold mulDiv toU at hq
    split at hq
    · cases hq
    · rename_i hd
      split at hq
      · cases hq
        split at h
        · split at h
          · cases h; exact ⟨hd, rfl, by assumption⟩
          · cases h
        · cases h
      · cases hq

/-! ### Non-vacuity -/
example : claim ⟨true, 91660, [0, 15, 1023, 0]⟩ 64758 = some (⟨true, 26902, [0, 5, 301, 0]⟩, 2, [0, 10, 722, 0]) := by decide
example : (runClaims ⟨true, 10, [7, 100]⟩ [3, 11, 3, 4]).1 = ⟨true, 0, [0, 0]⟩ := by decide
example : (runClaims ⟨true, 10, [7, 100]⟩ [3, 11, 3, 4]).2 = [(3, [2, 30]), (3, [2, 30]), (4, [3, 40])] := by decide
example : setFactor 0 (10 ^ 20) = .ok (10 ^ 20, 0) ∧ setFactor 0 (10 ^ 20 + 1) = .error .invalidArgument := by
  constructor <;> rfl
example : claim ⟨true, 5, [2 ^ 64 - 1]⟩ 5 = some (⟨true, 0, [0]⟩, 1, [2 ^ 64 - 1]) := by decide
example : reserveOne 1 3 10 = some 3 := by decide

-- added by the hygiene audit: the failing side of `claim_fails_iff`, and `reserve_one_spec` / `factor_le_unit` hypotheses
example : claim ⟨true, 5, [7, 9]⟩ 6 = none ∧ (∀ B ∈ ([7, 9] : List Nat), B < 2 ^ 64) := by decide
example : reserveOne 2 3 10 = some 6 ∧ (10 : Nat) ≠ 0 := by decide

end Gmx.C37
