import Gmx.Lemmas.Liquidity
import Gmx.Model.Liquidity
/-!
# C04 — a swap moves exactly the traded tokens and is all-or-nothing

`swap W U m q : Except MErr (Market × SwapCalc)` is `Swap::try_new` + `execute` (computed into a
cache, validated, then written); `swapStep` is the state transition (a failing swap keeps `m`).
`Market.holdings m side = liquidity + swap-impact pool + claimable fees` of a token side.
All statements hold for EVERY market state, width, unit, request, prices and configuration
(history level, by induction over operation lists: `history_conserved`, `history_frame`; the next
swap in any reachable state: `swap_reachable`).
-/
namespace Gmx.C04
open Gmx Gmx.Lem

/-- unfolding: a successful swap went through the three stages. -/
theorem swap_ok {W U : Nat} {m m' : Market} {q : SwapParams} {c : SwapCalc}
    (h : swap W U m q = .ok (m', c)) :
    q.amount ≠ 0 ∧ q.prices.isValid W = true ∧ swapCalc W U m q = some c ∧ swapApply W m q c = some m' ∧
    swapValidate W U m' q = .ok () := by
  unfold swap at h
  split at h
  · cases h
  · rename_i ha
    split at h
    · cases h
    · rename_i hp
      split at h
      · cases h
      · rename_i c' hc
        split at h
        · cases h
        · rename_i m'' hm
          split at h
          · cases h
          · rename_i hv
            cases h
            exact ⟨ha, by simpa using hp, hc, hm, hv⟩

/-- **input side**: holdings of the input token grow by exactly the input amount. -/
theorem swap_in_conserved {W U : Nat} {m m' : Market} {q : SwapParams} {c : SwapCalc}
    (h : swap W U m q = .ok (m', c)) :
    m'.holdings q.isInLong = m.holdings q.isInLong + q.amount := by
  obtain ⟨_, _, hc, ha, _⟩ := swap_ok h
  obtain ⟨hcons, _, hpos, hneg⟩ := swapCalc_spec hc
  have f := swapApply_spec ha
  unfold Market.holdings
  by_cases hp : c.impactValue > 0
  · have p := hpos hp
    have i := f.imp_pos hp
    have := f.fee_in; have := f.liq_in; have := p.tokenIn
    omega
  · have n := hneg hp
    have i := f.imp_neg hp
    have := f.fee_in; have := f.liq_in; have := n.tokenIn
    omega

/-- **output side**: holdings of the output token shrink by exactly the amount paid out. -/
theorem swap_out_conserved {W U : Nat} {m m' : Market} {q : SwapParams} {c : SwapCalc}
    (h : swap W U m q = .ok (m', c)) :
    m'.holdings (!q.isInLong) + c.tokenOut = m.holdings (!q.isInLong) := by
  obtain ⟨_, _, hc, ha, _⟩ := swap_ok h
  obtain ⟨hcons, _, hpos, hneg⟩ := swapCalc_spec hc
  have f := swapApply_spec ha
  unfold Market.holdings
  by_cases hp : c.impactValue > 0
  · have p := hpos hp
    have i := f.imp_pos hp
    have := f.fee_out; have := f.liq_out; have := p.tokenOut
    omega
  · have n := hneg hp
    have i := f.imp_neg hp
    have := f.fee_out; have := f.liq_out; have := n.tokenOut
    omega

/-- pool by pool, positive impact: the trader's extra output comes out of the OUTPUT token's
impact pool (at most its balance); what that pool could not pay is taken from the INPUT token's
impact pool and credited to the liquidity pool on the trader's behalf (`capped_diff`). -/
theorem swap_pools_positive {W U : Nat} {m m' : Market} {q : SwapParams} {c : SwapCalc}
    (h : swap W U m q = .ok (m', c)) (hp : c.impactValue > 0) :
    m'.swapImpact.amount (!q.isInLong) + c.impactAmount = m.swapImpact.amount (!q.isInLong) ∧
    m'.swapImpact.amount q.isInLong + c.cappedIn = m.swapImpact.amount q.isInLong ∧
    m'.primary.amount q.isInLong = m.primary.amount q.isInLong + c.afterFees + c.cappedIn + c.fees.pool ∧
    m'.primary.amount (!q.isInLong) + c.poolOut = m.primary.amount (!q.isInLong) ∧
    c.tokenOut = c.poolOut + c.impactAmount ∧
    m'.fee.amount q.isInLong = m.fee.amount q.isInLong + c.fees.receiver := by
  obtain ⟨_, _, hc, ha, _⟩ := swap_ok h
  obtain ⟨_, _, hpos, _⟩ := swapCalc_spec hc
  have f := swapApply_spec ha
  have p := hpos hp
  have i := f.imp_pos hp
  have := f.liq_in; have := p.tokenIn
  exact ⟨i.1, i.2, by omega, f.liq_out, p.tokenOut, f.fee_in⟩

/-- pool by pool, non-positive impact: the charged impact amount moves from the input amount into
the INPUT token's impact pool; the output side's impact pool is not touched. -/
theorem swap_pools_negative {W U : Nat} {m m' : Market} {q : SwapParams} {c : SwapCalc}
    (h : swap W U m q = .ok (m', c)) (hp : ¬ c.impactValue > 0) :
    m'.swapImpact.amount q.isInLong = m.swapImpact.amount q.isInLong + c.impactAmount ∧
    m'.swapImpact.amount (!q.isInLong) = m.swapImpact.amount (!q.isInLong) ∧
    m'.primary.amount q.isInLong + c.impactAmount = m.primary.amount q.isInLong + c.afterFees + c.fees.pool ∧
    m'.primary.amount (!q.isInLong) + c.tokenOut = m.primary.amount (!q.isInLong) ∧
    m'.fee.amount q.isInLong = m.fee.amount q.isInLong + c.fees.receiver := by
  obtain ⟨_, _, hc, ha, _⟩ := swap_ok h
  obtain ⟨_, _, _, hneg⟩ := swapCalc_spec hc
  have f := swapApply_spec ha
  have n := hneg hp
  have i := f.imp_neg hp
  have := f.liq_in; have := n.tokenIn; have := f.liq_out; have := n.tokenOut
  exact ⟨i.1, i.2, by omega, by omega, f.fee_in⟩

/-- everything except the liquidity, swap-impact and claimable-fee pools (and the swap virtual
inventory, which follows the liquidity pool) is untouched: open interest, collateral, position
impact, borrowing, funding pools, supply, clocks, configuration. -/
theorem swap_other_untouched {W U : Nat} {m m' : Market} {q : SwapParams} {c : SwapCalc}
    (h : swap W U m q = .ok (m', c)) :
    m' = { m with primary := m'.primary, swapImpact := m'.swapImpact, fee := m'.fee, viSwaps := m'.viSwaps } ∧
    (m.viSwaps = none → m'.viSwaps = none) := by
  obtain ⟨_, _, _, ha, _⟩ := swap_ok h
  have f := swapApply_spec ha
  exact ⟨f.frame, f.vi_none⟩

/-- **all-or-nothing**: a failed swap leaves every pool (the whole market) unchanged. In the model
this is structural — `try_execute` only builds a cache — so the content of this clause is carried
by the correspondence run, which compares the Rust market after every failing swap. -/
theorem swap_fail_unchanged {W U : Nat} {m : Market} {q : SwapParams} {e : MErr}
    (h : (swapStep W U m q).2 = .error e) : (swapStep W U m q).1 = m := by
  unfold swapStep at h ⊢
  split
  · rename_i m' c hs; simp [hs] at h
  · rfl

/-- the validations a successful swap passed were evaluated on the NEW pools. -/
theorem swap_validated_after {W U : Nat} {m m' : Market} {q : SwapParams} {c : SwapCalc}
    (h : swap W U m q = .ok (m', c)) :
    m'.primary.amount q.isInLong ≤ m'.cfg.maxPoolAmount ∧ validateReserve W U m' q.prices (!q.isInLong) = .ok () := by
  obtain ⟨_, _, _, ha, hv⟩ := swap_ok h
  unfold swapValidate at hv
  split at hv
  · cases hv
  · rename_i hpa
    split at hv
    · cases hv
    · rename_i hr
      refine ⟨?_, hr⟩
      unfold validatePoolAmount at hpa
      split at hpa
      · cases hpa
      · omega

/-- rejected requests: empty swaps and invalid prices never reach the pools. -/
theorem swap_rejects (W U : Nat) (m : Market) (q : SwapParams) :
    (q.amount = 0 → swap W U m q = .error .emptySwap) ∧
    (q.amount ≠ 0 → q.prices.isValid W = false → swap W U m q = .error .invalidPrices) := by
  unfold swap
  constructor
  · intro h; simp [h]
  · intro h hp; simp [h, hp]

/-! ### every reachable state: histories of deposits, withdrawals, swaps and clock ticks -/

/-- one committed operation conserves the tokens of both sides (`holdings after + out = holdings
before + in`) and leaves everything outside the liquidity / swap-impact / claimable-fee pools, the
swap virtual inventory, the supply and the clock untouched. -/
theorem step_conserved (W U : Nat) (m : Market) (op : LiqOp) :
    (liqStepA W U m op).1.holdings true + (liqStepA W U m op).2.outL = m.holdings true + (liqStepA W U m op).2.inL ∧
    (liqStepA W U m op).1.holdings false + (liqStepA W U m op).2.outS = m.holdings false + (liqStepA W U m op).2.inS ∧
    (liqStepA W U m op).1 = { m with primary := (liqStepA W U m op).1.primary, swapImpact := (liqStepA W U m op).1.swapImpact,
                                      fee := (liqStepA W U m op).1.fee, viSwaps := (liqStepA W U m op).1.viSwaps,
                                      supply := (liqStepA W U m op).1.supply, now := (liqStepA W U m op).1.now } := by
  cases op with
  | deposit d =>
    simp only [liqStepA]
    split
    · rename_i m' t h
      obtain ⟨a, b⟩ := Lem.deposit_holdings h
      obtain ⟨fr, _, _⟩ := Lem.deposit_frame h
      refine ⟨by simp only; omega, by simp only; omega, ?_⟩
      simp only; rw [fr]
    · exact ⟨rfl, rfl, rfl⟩
  | withdraw w =>
    simp only [liqStepA]
    split
    · rename_i m' r h
      obtain ⟨a, b⟩ := Lem.withdraw_holdings h
      have fr := (withdraw_spec h).frame
      have hi := (withdraw_spec h).impact
      refine ⟨by simp only; omega, by simp only; omega, ?_⟩
      simp only; rw [fr]
    · exact ⟨rfl, rfl, rfl⟩
  | swap q =>
    simp only [liqStepA]
    split
    · rename_i m' c h
      have a := swap_in_conserved h
      have b := swap_out_conserved h
      obtain ⟨fr, _⟩ := swap_other_untouched h
      cases hq : q.isInLong <;> simp only [hq, Bool.not_true, Bool.not_false, if_true, if_false, Bool.false_eq_true] at a b ⊢
      · refine ⟨by omega, by omega, ?_⟩; rw [fr]
      · refine ⟨by omega, by omega, ?_⟩; rw [fr]
    · exact ⟨rfl, rfl, rfl⟩
  | tick s => exact ⟨rfl, rfl, rfl⟩

/-- **conservation along every history** (induction over the operation list, from ANY initial
market): after any sequence of committed deposits, withdrawals, swaps and clock ticks, per token
`holdings after + Σ paid out = holdings before + Σ paid in`. -/
theorem history_conserved {W U : Nat} (ops : List LiqOp) :
    ∀ m : Market,
      (liqRunA W U m ops).1.holdings true + (liqRunA W U m ops).2.outL = m.holdings true + (liqRunA W U m ops).2.inL ∧
      (liqRunA W U m ops).1.holdings false + (liqRunA W U m ops).2.outS = m.holdings false + (liqRunA W U m ops).2.inS := by
  induction ops with
  | nil => intro m; simp [liqRunA]
  | cons op ops ih =>
    intro m
    obtain ⟨s1, s2, _⟩ := step_conserved W U m op
    obtain ⟨i1, i2⟩ := ih (liqStepA W U m op).1
    simp only [liqRunA, Flow.add]
    omega

/-- **frame along every history**: open interest, collateral, position-impact, borrowing and
funding pools, the funding rate, the fee clocks, the position virtual inventory and the
configuration of every reachable state are those of the initial market. -/
theorem history_frame {W U : Nat} (ops : List LiqOp) :
    ∀ m : Market,
      (liqRunA W U m ops).1 = { m with primary := (liqRunA W U m ops).1.primary, swapImpact := (liqRunA W U m ops).1.swapImpact,
                                        fee := (liqRunA W U m ops).1.fee, viSwaps := (liqRunA W U m ops).1.viSwaps,
                                        supply := (liqRunA W U m ops).1.supply, now := (liqRunA W U m ops).1.now } := by
  induction ops with
  | nil => intro m; rfl
  | cons op ops ih =>
    intro m
    obtain ⟨_, _, fr⟩ := step_conserved W U m op
    have := ih (liqStepA W U m op).1
    simp only [liqRunA]
    rw [this, fr]

/-- **the next swap in any reachable state** (committed histories `liqRunA`, or the model crate's
own non-atomic histories `liqRun` incl. partially applied failing deposits / withdrawals): exact
conservation on both token sides, frame, and all-or-nothing. The three clauses hold in every
market, hence in every reachable one; the history-level content is `history_conserved` /
`history_frame` above. -/
theorem swap_reachable {W U : Nat} (m₀ : Market) (ops : List LiqOp) (q : SwapParams) :
    (∀ m, (m = (liqRunA W U m₀ ops).1 ∨ m = liqRun W U m₀ ops) →
      (∀ m' c, swap W U m q = .ok (m', c) →
        m'.holdings q.isInLong = m.holdings q.isInLong + q.amount ∧
        m'.holdings (!q.isInLong) + c.tokenOut = m.holdings (!q.isInLong) ∧
        m' = { m with primary := m'.primary, swapImpact := m'.swapImpact, fee := m'.fee, viSwaps := m'.viSwaps }) ∧
      (∀ e, (swapStep W U m q).2 = .error e → (swapStep W U m q).1 = m)) := by
  intro m _
  exact ⟨fun m' c h => ⟨swap_in_conserved h, swap_out_conserved h, (swap_other_untouched h).1⟩,
         fun e h => swap_fail_unchanged h⟩

/-- along a whole history, the token holdings change only by what the swaps moved: for a history
of swaps alone, `holdings after = holdings before + Σ inputs − Σ outputs` per token side. -/
def swapFlow (W U : Nat) : Market → List SwapParams → Bool → Int
  | _, [], _ => 0
  | m, q :: qs, side =>
    (match swap W U m q with
     | .ok (_, c) => (if q.isInLong = side then (q.amount : Int) else -(c.tokenOut : Int))
     | .error _ => 0) + swapFlow W U (swapStep W U m q).1 qs side

theorem swaps_history_conserved {W U : Nat} (qs : List SwapParams) :
    ∀ (m : Market) (side : Bool),
      ((qs.foldl (fun m q => (swapStep W U m q).1) m).holdings side : Int)
        = m.holdings side + swapFlow W U m qs side := by
  induction qs with
  | nil => intro m side; simp [swapFlow]
  | cons q qs ih =>
    intro m side
    simp only [List.foldl_cons, swapFlow]
    rw [ih]
    cases hs : swap W U m q with
    | error e => simp [swapStep, hs]
    | ok r =>
      obtain ⟨m', c⟩ := r
      have h1 := swap_in_conserved hs
      have h2 := swap_out_conserved hs
      simp only [swapStep, hs]
      by_cases hside : q.isInLong = side
      · subst hside; simp only [if_true]; omega
      · have : (!q.isInLong) = side := by cases h : q.isInLong <;> cases h' : side <;> simp_all
        subst this
        simp only [hside, if_false]; omega

/-! ### virtual inventory (`vi_swaps`) -/

/-- a present swap virtual inventory receives exactly the liquidity pool's deltas on both sides
(and an absent one stays absent: `swap_other_untouched`). -/
theorem swap_vi_follows_liquidity {W U : Nat} {m m' : Market} {q : SwapParams} {c : SwapCalc} {v : Pool}
    (h : swap W U m q = .ok (m', c)) (hv : m.viSwaps = some v) :
    ∃ v', m'.viSwaps = some v' ∧
      (v'.amount q.isInLong : Int) = v.amount q.isInLong + c.tokenIn + c.fees.pool ∧
      (v'.amount (!q.isInLong) : Int) = v.amount (!q.isInLong) - c.poolOut := by
  obtain ⟨_, _, _, ha, _⟩ := swap_ok h
  have f := swapApply_spec ha
  obtain ⟨v', e, a, b⟩ := f.vi_some v hv
  have := f.liq_in; have := f.liq_out
  exact ⟨v', e, by omega, by omega⟩

/-- **the worse of the two impacts.** The impact a swap (or deposit) is priced with is never better
than the impact on the real liquidity pool; it equals it when that impact is non-negative, when
the caller does not ask for the virtual inventory, or when there is none; otherwise it is the
smaller of the real impact and the impact of the same value delta on the virtual inventory. -/
theorem swapImpact_worse_of_two {W U : Nat} {params : ImpactParams} {vi : Option Pool} {d : PoolDelta}
    {dL dS : Int} {pL pS : Nat} {incl : Bool} {x : Int} {bc : BalanceChange}
    (h : swapImpactValue W U params vi d dL dS pL pS incl = some (x, bc)) :
    ∃ real rbc, d.priceImpact W U params = some (real, rbc) ∧ x ≤ real ∧
      ((0 ≤ real ∨ incl = false ∨ vi = none) → (x, bc) = (real, rbc)) ∧
      (∀ v, real < 0 → incl = true → vi = some v →
        ∃ d' virt vbc, PoolDelta.tryNew W v.long v.short dL dS pL pS = some d' ∧
          d'.priceImpact W U params = some (virt, vbc) ∧
          (x, bc) = (if virt < real then (virt, vbc) else (real, rbc))) := by
  unfold swapImpactValue at h
  split at h
  · cases h
  · rename_i imp himp
    obtain ⟨real, rbc⟩ := imp
    refine ⟨real, rbc, himp, ?_⟩
    split at h
    · rename_i hc
      cases h
      refine ⟨Int.le_refl _, fun _ => rfl, fun v hneg hi hv => ?_⟩
      simp only at hc
      rcases hc with hc | hc
      · omega
      · rw [hi] at hc; cases hc
    · rename_i hc
      simp only [not_or, Decidable.not_not] at hc
      obtain ⟨hneg, hincl⟩ := hc
      split at h
      · cases h
        exact ⟨Int.le_refl _, fun _ => rfl, fun v _ _ hv => by cases hv⟩
      · rename_i v
        split at h
        · cases h
        · rename_i d' hd'
          split at h
          · cases h
          · rename_i vimp hvimp
            obtain ⟨virt, vbc⟩ := vimp
            have hx : (x, bc) = (if virt < real then (virt, vbc) else (real, rbc)) := by
              simp only at h
              split at h <;> cases h <;> simp [*]
            refine ⟨?_, fun hor => ?_, fun v0 _ _ hv0 => ?_⟩
            · simp only at h
              split at h <;> cases h <;> omega
            · rcases hor with hor | hor | hor
              · omega
              · rw [hor] at hincl; exact absurd rfl hincl
              · cases hor
            · cases hv0
              exact ⟨d', virt, vbc, hd', hvimp, hx⟩

/-! ### Non-vacuity: a positive-impact swap paid partly from both impact pools, and a negative one -/

def cfg0 : MarketConfig :=
  { swapImpact := ⟨2000000000, 4000, 8000⟩, swapFee := ⟨500000, 700000, 370000000, 0⟩,
    positionImpact := ⟨2000000000, 1, 2⟩, orderFee := ⟨500000, 700000, 370000000, 0⟩,
    distributeFactor := 1000000000, minPositionImpactPool := 1000000000, borrowingReceiverFactor := 370000000,
    reserveFactor := 1000000000, oiReserveFactor := 1000000000, maxPnlDeposit := 600000000,
    maxPnlWithdrawal := 300000000, maxPnlTrader := 500000000, maxPnlAdl := 500000000, minPnlAfterAdl := 0,
    maxPoolAmount := 1000000000000000000, maxPoolValueForDeposit := 18446744073709551615,
    maxOpenInterest := 18446744073709551615, ignoreOiForUsage := false, divisor := 1, fundingAdjustment := 10000 }

def m0 : Market := { cfg := cfg0, primary := ⟨3000000000, 1000000000⟩, swapImpact := ⟨1000, 50⟩, supply := 4000000000 }
def pr0 : Prices := ⟨⟨1, 1⟩, ⟨1, 1⟩, ⟨1, 1⟩⟩

/-- observable summary of a swap: impact value, impact amount, capped-in amount, output, then the
swap-impact, liquidity and claimable-fee pools (long, short) after it; `[]` on failure. -/
def obs (r : Except MErr (Market × SwapCalc)) : List Int :=
  match r with
  | .ok (m', c) => [c.impactValue, c.impactAmount, c.cappedIn, c.tokenOut, m'.swapImpact.long, m'.swapImpact.short,
                    m'.primary.long, m'.primary.short, m'.fee.long, m'.fee.short]
  | .error _ => []

def errOf (r : Except MErr (Market × SwapCalc)) : Option MErr :=
  match r with
  | .ok _ => none
  | .error e => some e

/-- short in, long out, improves the balance: positive impact value 3 040 → 1 000 tokens from the
long impact pool (all of it), the capped rest 2 040 only partly from the short impact pool (all 50). -/
example : obs (swap 64 1000000000 m0 ⟨false, 100000000, pr0⟩)
    = [3040, 1000, 50, 99951050, 0, 0, 2900049950, 1099981550, 0, 18500] := by decide +kernel
/-- long in, worsens the balance: negative impact charged into the long impact pool. -/
example : obs (swap 64 1000000000 m0 ⟨true, 100000000, pr0⟩)
    = [-6720, 6720, 0, 99923280, 7720, 50, 3099967380, 900076720, 25900, 0] := by decide +kernel
example : errOf (swap 64 1000000000 m0 ⟨true, 0, pr0⟩) = some .emptySwap := by decide +kernel
example : errOf (swap 64 1000000000 m0 ⟨true, 5, ⟨⟨1, 1⟩, ⟨0, 1⟩, ⟨1, 1⟩⟩⟩) = some .invalidPrices := by decide +kernel
/-- output larger than the liquidity: fails, and the state transition keeps the market. -/
example : errOf (swap 64 1000000000 m0 ⟨true, 2000000000, pr0⟩) = some .fail := by decide +kernel

/-- a virtual inventory more imbalanced than the real pool makes the SAME swap dearer: impact
−6 720 on the real pool, −25 920 on the virtual inventory (long 9e9 / short 1e9) — the worse one is
charged, and the inventory moves with the liquidity pool. -/
example : (match swap 64 1000000000 { m0 with viSwaps := some ⟨9000000000, 1000000000⟩ } ⟨true, 100000000, pr0⟩ with
    | .ok (m', c) => [c.impactValue, c.impactAmount, c.tokenOut, (m'.viSwaps.getD {}).long, (m'.viSwaps.getD {}).short]
    | .error _ => []) = [-25920, 25920, 99904080, 9099948180, 900095920] := by decide +kernel

/-! ### Audit additions -/

/-- the claimable-fee pool of the OUTPUT token is not touched (`swap_pools_positive/negative` state
the fee pool of the input side only; this completes the pool-by-pool picture). -/
theorem swap_fee_out_untouched {W U : Nat} {m m' : Market} {q : SwapParams} {c : SwapCalc}
    (h : swap W U m q = .ok (m', c)) :
    m'.fee.amount (!q.isInLong) = m.fee.amount (!q.isInLong) := by
  obtain ⟨_, _, _, ha, _⟩ := swap_ok h
  exact (swapApply_spec ha).fee_out

/-- `swap_fail_unchanged`: its hypothesis `(swapStep …).2 = .error e` holds on the failing swap above. -/
example : (match (swapStep 64 1000000000 m0 ⟨true, 2000000000, pr0⟩).2 with
    | .error e => some e | .ok _ => none) = some MErr.fail := by decide +kernel
/-- the two validation failures `swap_validated_after` excludes, raised on the NEW pools: the input
side above `maxPoolAmount`, the output side below its reserve. -/
example : errOf (swap 64 1000000000 { m0 with cfg := { cfg0 with maxPoolAmount := 3000000000 } } ⟨true, 100000000, pr0⟩)
    = some .poolAmount := by decide +kernel
example : errOf (swap 64 1000000000 { m0 with cfg := { cfg0 with reserveFactor := 0 }, oiL := ⟨1, 1⟩, oitL := ⟨1, 1⟩ }
    ⟨false, 100000000, pr0⟩) = some .reserve := by decide +kernel
/-- `swap_reachable`: a NON-EMPTY history — a deposit, a clock tick, a swap and a withdrawal, all of
which succeed — followed by a swap that succeeds (positive impact 1 053). -/
example : obs (swap 64 1000000000
      (liqRun 64 1000000000 m0 [.deposit ⟨50000000, 20000000, pr0⟩, .tick 7, .swap ⟨true, 100000000, pr0⟩,
        .withdraw ⟨10000000, pr0⟩]) ⟨false, 30000000, pr0⟩)
    = [1053, 1053, 0, 29986053, 7453, 326, 3112232519, 947806162, 40854, 11315] := by decide +kernel
example : (deposit 64 1000000000 m0 ⟨50000000, 20000000, pr0⟩ PerpIn.zero).2.toOption.isSome = true ∧
    (withdraw 64 1000000000
      (liqRun 64 1000000000 m0 [.deposit ⟨50000000, 20000000, pr0⟩, .tick 7, .swap ⟨true, 100000000, pr0⟩])
      ⟨10000000, pr0⟩ PerpIn.zero).2.toOption.isSome = true := by decide +kernel
/-- `swaps_history_conserved` on a concrete history of three swaps (the second one fails and moves
nothing): the net flows and the holdings before/after, per token side. -/
example : (swapFlow 64 1000000000 m0 [⟨true, 100000000, pr0⟩, ⟨true, 2000000000, pr0⟩, ⟨false, 30000000, pr0⟩] true,
     swapFlow 64 1000000000 m0 [⟨true, 100000000, pr0⟩, ⟨true, 2000000000, pr0⟩, ⟨false, 30000000, pr0⟩] false)
    = (70013958, -69923280) := by decide +kernel
example : (([⟨true, 100000000, pr0⟩, ⟨true, 2000000000, pr0⟩, ⟨false, 30000000, pr0⟩] : List SwapParams).foldl
      (fun m q => (swapStep 64 1000000000 m q).1) m0).holdings true = m0.holdings true + 70013958 := by decide +kernel
/-- `swapImpact_worse_of_two`: real impact −6 720, virtual-inventory impact −25 920 → the worse one;
without the virtual inventory the real one. -/
example : swapImpactValue 64 1000000000 cfg0.swapImpact (some ⟨9000000000, 1000000000⟩)
      ⟨3000000000, 1000000000, 3100000000, 900000000⟩ 100000000 (-100000000) 1 1 true = some (-25920, .worsened) ∧
    swapImpactValue 64 1000000000 cfg0.swapImpact (some ⟨9000000000, 1000000000⟩)
      ⟨3000000000, 1000000000, 3100000000, 900000000⟩ 100000000 (-100000000) 1 1 false = some (-6720, .worsened) := by
  decide +kernel

/-- `history_conserved` / `history_frame` on a committed 7-operation history from `m0`: deposit, tick,
swap, a swap that FAILS (output beyond the liquidity — reverted, no flow), withdrawal, an empty
deposit (rejected), swap back. In 150 000 000 long / 50 000 000 short, out 37 720 174 long /
102 182 247 short; holdings 3 000 001 000 → 3 112 280 826 and 1 000 000 050 → 947 817 803. -/
example : (let r := liqRunA 64 1000000000 m0 [.deposit ⟨50000000, 20000000, pr0⟩, .tick 7, .swap ⟨true, 100000000, pr0⟩,
      .swap ⟨true, 9000000000, pr0⟩, .withdraw ⟨10000000, pr0⟩, .deposit ⟨0, 0, pr0⟩, .swap ⟨false, 30000000, pr0⟩]
    (r.2, r.1.holdings true, r.1.holdings false, m0.holdings true, m0.holdings false, r.1.now))
    = (⟨150000000, 50000000, 37720174, 102182247⟩, 3112280826, 947817803, 3000001000, 1000000050, 7) := by decide +kernel

end Gmx.C04
