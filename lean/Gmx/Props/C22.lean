import Gmx.Model.Vault
import Gmx.Model.Router
import Gmx.Gen.C22Sites
import Gmx.Model.Life
import Gmx.Lemmas.Life2
/-!
# C22 — market vaults stay solvent after every instruction
-/
namespace Gmx.C22
open Gmx

/-- the property's solvency statement for one market (exact integers) -/
def Solvent (m : VMarket) : Prop :=
  if m.pure then
    m.liqL + m.impL + m.feeL + (m.liqS + m.impS + m.feeS) ≤ m.balL ∧
    m.colLL + m.colSL + (m.colLS + m.colSS) ≤ m.balL
  else
    (m.liqL + m.impL + m.feeL ≤ m.balL ∧ m.colLL + m.colSL ≤ m.balL) ∧
    (m.liqS + m.impS + m.feeS ≤ m.balS ∧ m.colLS + m.colSS ≤ m.balS)

theorem u128Add_some {a b r : Nat} (h : u128Add a b = some r) : r = a + b := by
  unfold u128Add at h; split at h <;> cases h; rfl

theorem minOneSide_some {m : VMarket} {b : Bool} {r : Nat} (h : m.minOneSide b = some r) :
    r = if b then m.liqL + m.impL + m.feeL else m.liqS + m.impS + m.feeS := by
  unfold VMarket.minOneSide at h
  cases b <;> simp only [Bool.false_eq_true, if_false, if_true] at h ⊢
  all_goals
    split at h
    · cases h
    · rename_i x hx; rw [u128Add_some h, u128Add_some hx]

theorem collateralOneSide_some {m : VMarket} {b : Bool} {r : Nat} (h : m.collateralOneSide b = some r) :
    r = if b then m.colLL + m.colSL else m.colLS + m.colSS := by
  unfold VMarket.collateralOneSide at h
  cases b <;> simp only [Bool.false_eq_true, if_false, if_true] at h ⊢ <;> exact u128Add_some h

/-- what a passing single-token validation guarantees -/
theorem validateToken_sound {m : VMarket} {isLong : Bool} {ex : Nat}
    (h : m.validateToken isLong ex = some true) :
    ex ≤ m.balance isLong ∧
    (if m.pure then m.liqL + m.impL + m.feeL + (m.liqS + m.impS + m.feeS)
      else if isLong then m.liqL + m.impL + m.feeL else m.liqS + m.impS + m.feeS) ≤ m.balance isLong - ex ∧
    (if m.pure then m.colLL + m.colSL + (m.colLS + m.colSS)
      else if isLong then m.colLL + m.colSL else m.colLS + m.colSS) ≤ m.balance isLong - ex := by
  unfold VMarket.validateToken at h
  split at h
  · cases h
  · rename_i hex
    simp only [] at h
    split at h
    · cases h
    · rename_i mn0 hmn0
      have e0 := minOneSide_some hmn0
      split at h
      · cases h
      · rename_i mn hmn
        split at h
        · cases h
        · rename_i hbal
          split at h
          · cases h
          · rename_i c0 hc0
            have ec0 := collateralOneSide_some hc0
            split at h
            · cases h
            · rename_i c hc
              have hle : c ≤ m.balance isLong - ex := by simpa using h
              refine ⟨by omega, ?_, ?_⟩
              · by_cases hp : m.pure = true
                · simp only [hp, if_true] at hmn ⊢
                  split at hmn
                  · cases hmn
                  · rename_i o ho
                    have eo := minOneSide_some ho
                    have := u128Add_some hmn
                    cases isLong <;> simp_all <;> omega
                · simp only [hp, if_false] at hmn ⊢
                  cases hmn
                  cases isLong <;> simp_all <;> omega
              · by_cases hp : m.pure = true
                · simp only [hp, if_true] at hc ⊢
                  split at hc
                  · cases hc
                  · rename_i o ho
                    have eo := collateralOneSide_some ho
                    have := u128Add_some hc
                    cases isLong <;> simp_all <;> omega
                · simp only [hp, if_false] at hc ⊢
                  cases hc
                  cases isLong <;> simp_all <;> omega

/-- **`validate_market_balances(0, 0)` succeeding implies the market is solvent** in the sense of
the property: every instruction that ends with it leaves the market solvent or fails. -/
theorem validate_establishes_solvency {m : VMarket} (h : m.validate 0 0 = some true) : Solvent m := by
  unfold VMarket.validate at h
  unfold Solvent
  by_cases hp : m.pure = true
  · simp only [hp, if_true] at h ⊢
    split at h
    · have := validateToken_sound h
      simp [hp, VMarket.balance] at this
      omega
    · cases h
  · have hp' : m.pure = false := by simpa using hp
    simp only [hp', Bool.false_eq_true, if_false] at h ⊢
    cases h1 : m.validateToken true 0 with
    | none => simp [h1] at h
    | some v =>
      cases v with
      | false => simp [h1] at h
      | true =>
        simp only [h1] at h
        have a := validateToken_sound h1
        have b := validateToken_sound h
        simp [hp', VMarket.balance] at a b
        omega

/-- excluded amounts: the validation with `(exL, exS)` excluded guarantees solvency of the market
after those amounts have left it. -/
theorem validate_excluding_sound {m : VMarket} {exL exS : Nat} (hnp : m.pure = false)
    (h : m.validate exL exS = some true) :
    Solvent { m with balL := m.balL - exL, balS := m.balS - exS } ∧ exL ≤ m.balL ∧ exS ≤ m.balS := by
  unfold VMarket.validate at h
  simp only [hnp, Bool.false_eq_true, if_false] at h
  cases h1 : m.validateToken true exL with
  | none => simp [h1] at h
  | some v =>
    cases v with
    | false => simp [h1] at h
    | true =>
      simp only [h1] at h
      have a := validateToken_sound h1
      have b := validateToken_sound h
      simp [hnp, VMarket.balance] at a b
      refine ⟨?_, by omega, by omega⟩
      unfold Solvent; simp [hnp]; omega

/-! ### vault bookkeeping: recorded balances never exceed the vault -/

/-- markets as a finite family `i < n` -/
structure World where
  n : Nat
  mkt : Nat → VMkt
  vault : Nat → Nat

def World.total (w : World) (t : Nat) : Nat := ((List.range w.n).map fun i => (w.mkt i).recorded t).sum

def upd (f : Nat → VMkt) (i : Nat) (x : VMkt) : Nat → VMkt := fun k => if k = i then x else f k

theorem sum_range_upd (f : Nat → VMkt) (g : VMkt → Nat) (i : Nat) (x : VMkt) :
    ∀ n, ((List.range n).map fun k => g (upd f i x k)).sum + (if i < n then g (f i) else 0)
        = ((List.range n).map fun k => g (f k)).sum + (if i < n then g x else 0)
  | 0 => by simp
  | n + 1 => by
    have ih := sum_range_upd f g i x n
    simp only [List.range_succ, List.map_append, List.sum_append, List.map_cons, List.map_nil,
      List.sum_cons, List.sum_nil, Nat.add_zero]
    by_cases h1 : i < n
    · have h2 : i < n + 1 := by omega
      have h3 : n ≠ i := by omega
      simp only [h1, h2, if_true, upd, h3, if_false] at ih ⊢
      omega
    · by_cases h2 : i = n
      · subst h2
        simp only [Nat.lt_irrefl, if_false, Nat.add_zero, Nat.lt_succ_self, if_true, upd] at ih ⊢
        omega
      · have h4 : ¬ i < n + 1 := by omega
        have h3 : n ≠ i := by omega
        simp only [h1, h4, if_false, Nat.add_zero, upd, h3] at ih ⊢
        omega

/-- one instruction-level movement of tokens; `none` = it fails and nothing changes -/
def wstep (w : World) : VOp → Option World
  | .transferIn i isLong amt =>
    if i < w.n then
      let m := w.mkt i
      some { w with mkt := upd w.mkt i (m.addBal isLong amt),
                    vault := fun t => if t = m.tokenOf isLong then w.vault t + amt else w.vault t }
    else none
  | .transferOut i isLong amt =>
    if i < w.n then
      let m := w.mkt i
      match m.subBal isLong amt with
      | none => none
      | some m' =>
        if amt ≤ w.vault (m.tokenOf isLong) then
          some { w with mkt := upd w.mkt i m',
                        vault := fun t => if t = m.tokenOf isLong then w.vault t - amt else w.vault t }
        else none
    else none
  | .move i j tok amt =>
    if i < w.n ∧ j < w.n ∧ i ≠ j then
      let a := w.mkt i
      let b := w.mkt j
      -- both markets must hold `tok`
      match (if a.long = tok then some true else if a.short = tok then some false else none),
            (if b.long = tok then some true else if b.short = tok then some false else none) with
      | some sa, some sb =>
        match a.subBal sa amt with
        | none => none
        | some a' => some { w with mkt := upd (upd w.mkt i a') j (b.addBal sb amt) }
      | _, _ => none
    else none
  | .donate tok amt => some { w with vault := fun t => if t = tok then w.vault t + amt else w.vault t }

theorem recorded_addBal (m : VMkt) (isLong : Bool) (amt t : Nat) :
    (m.addBal isLong amt).recorded t = m.recorded t + (if t = m.tokenOf isLong then amt else 0) := by
  unfold VMkt.addBal VMkt.recorded VMkt.tokenOf
  cases isLong <;> by_cases h1 : m.long = m.short <;> by_cases h2 : m.long = t <;> by_cases h3 : m.short = t <;>
    simp_all <;> omega

theorem recorded_subBal {m m' : VMkt} {isLong : Bool} {amt : Nat} (h : m.subBal isLong amt = some m') (t : Nat) :
    m'.recorded t + (if t = m.tokenOf isLong then amt else 0) = m.recorded t := by
  unfold VMkt.subBal at h
  unfold VMkt.recorded VMkt.tokenOf
  split at h <;> split at h <;> cases h
  all_goals
    cases isLong <;> by_cases h1 : m.long = m.short <;> by_cases h2 : m.long = t <;> by_cases h3 : m.short = t <;>
      simp_all <;> omega

def Covered (w : World) : Prop := ∀ t, w.total t ≤ w.vault t

/-- **every token movement keeps the recorded balances of all markets sharing a vault within the
vault's actual balance** (each recorded movement is paired with a token transfer of the same
amount; market-to-market hand-overs do not touch the vault). -/
theorem wstep_covered {w w' : World} {op : VOp} (hc : Covered w) (h : wstep w op = some w') :
    Covered w' := by
  intro t
  have hct := hc t
  cases op with
  | transferIn i isLong amt =>
    simp only [wstep] at h
    split at h
    · rename_i hi
      cases h
      have := sum_range_upd w.mkt (fun m => m.recorded t) i ((w.mkt i).addBal isLong amt) w.n
      simp only [hi, if_true, recorded_addBal] at this
      simp only [World.total] at hct ⊢
      by_cases ht : t = (w.mkt i).tokenOf isLong
      · subst ht; simp only [if_true] at this ⊢; omega
      · simp only [ht, if_false] at this ⊢; omega
    · cases h
  | transferOut i isLong amt =>
    simp only [wstep] at h
    split at h
    · rename_i hi
      split at h
      · cases h
      · rename_i m' hm'
        split at h
        · rename_i hv
          cases h
          have := sum_range_upd w.mkt (fun m => m.recorded t) i m' w.n
          have e := recorded_subBal hm' t
          simp only [hi, if_true] at this
          simp only [World.total] at hct ⊢
          by_cases ht : t = (w.mkt i).tokenOf isLong
          · subst ht; simp only [if_true] at e this ⊢; omega
          · simp only [ht, if_false] at e this ⊢; omega
        · cases h
    · cases h
  | move i j tok amt =>
    simp only [wstep] at h
    split at h
    · rename_i hij
      obtain ⟨hi, hj, hne⟩ := hij
      split at h
      · rename_i sa sb hsa hsb
        split at h
        · cases h
        · rename_i a' ha'
          cases h
          have s1 := sum_range_upd w.mkt (fun m => m.recorded t) i a' w.n
          have s2 := sum_range_upd (upd w.mkt i a') (fun m => m.recorded t) j ((w.mkt j).addBal sb amt) w.n
          have e1 := recorded_subBal ha' t
          have hju : upd w.mkt i a' j = w.mkt j := by simp [upd, Ne.symm hne]
          simp only [hi, hj, if_true, hju, recorded_addBal] at s1 s2
          have ta : (w.mkt i).tokenOf sa = tok := by
            unfold VMkt.tokenOf; split at hsa
            · cases hsa; simp [*]
            · split at hsa
              · cases hsa; simp [*]
              · cases hsa
          have tb : (w.mkt j).tokenOf sb = tok := by
            unfold VMkt.tokenOf; split at hsb
            · cases hsb; simp [*]
            · split at hsb
              · cases hsb; simp [*]
              · cases hsb
          rw [ta] at e1; rw [tb] at s2
          simp only [World.total] at hct ⊢
          by_cases ht : t = tok
          · subst ht; simp only [if_true] at e1 s1 s2 ⊢; omega
          · simp only [ht, if_false] at e1 s1 s2 ⊢; omega
      · cases h
    · cases h
  | donate tok amt =>
    simp only [wstep] at h
    cases h
    simp only [World.total] at hct ⊢
    by_cases ht : t = tok
    · subst ht; simp only [if_true]; omega
    · simp only [ht, if_false]; omega

def wrun (w : World) : List VOp → World
  | [] => w
  | op :: ops => wrun ((wstep w op).getD w) ops

/-- over any history of transfers, hand-overs and donations (failed ones change nothing) -/
theorem vault_covers_history (w : World) (ops : List VOp) (hc : Covered w) : Covered (wrun w ops) := by
  induction ops generalizing w with
  | nil => exact hc
  | cons op ops ih =>
    simp only [wrun]
    cases h : wstep w op with
    | none => simpa using ih w hc
    | some w' => simpa using ih w' (wstep_covered hc h)

/-! ### the vault clause on the natively executed deposit life cycle (`Gmx.Life`, tied to the real
entrypoints with real SPL token movement by `harness/h_store/src/bin/life.rs`) -/
section Life
open Gmx.Life

def LifeCovered (s : St) : Prop := s.recLong ≤ s.vaultLong ∧ s.recShort ≤ s.vaultShort

theorem life_create_frame {s s' : St} {u d l sh el : Nat} {ms : Bool} (h : create s u d l sh ms el = some s') :
    s'.recLong = s.recLong ∧ s'.recShort = s.recShort ∧ s'.vaultLong = s.vaultLong ∧ s'.vaultShort = s.vaultShort := by
  unfold create at h
  cases hd : s.deps u d with
  | some _ => simp [hd] at h
  | none =>
    simp only [hd] at h
    by_cases c1 : l = 0 ∧ sh = 0
    · simp [c1] at h
    · by_cases c2 : (s.users u).long < l ∨ (s.users u).short < sh
      · simp [c1, c2] at h
      · by_cases c3 : el < MIN_EXEC_LAMPORTS
        · simp [c1, c2, c3] at h
        · simp only [c1, c2, c3, if_false] at h
          cases h; simp [setDep, setUser]

theorem life_close_frame {s s' : St} {who : Who} {u d : Nat} (h : close s who u d = some s') :
    s'.recLong = s.recLong ∧ s'.recShort = s.recShort ∧ s'.vaultLong = s.vaultLong ∧ s'.vaultShort = s.vaultShort := by
  unfold close at h
  cases hd : s.deps u d with
  | none => simp [hd] at h
  | some dep =>
    simp only [hd] at h
    split at h
    · cases h
    · cases h; simp [setDep, setUser]

/-- an execution either leaves recorded and vault balances alone (cancelled) or adds exactly THE DEPOSIT'S ESCROWED
amounts to both (completed). -/
theorem life_exec_frame {s s' : St} {who : Who} {u d fee : Nat} {throw : Bool} {o : Life.Outcome} {paid : Nat}
    (h : exec s who u d fee throw = some (s', o, paid)) :
    ∃ dep, s.deps u d = some dep ∧
      s'.recLong = s.recLong + (if o = .completed then dep.escLong else 0) ∧
      s'.vaultLong = s.vaultLong + (if o = .completed then dep.escLong else 0) ∧
      s'.recShort = s.recShort + (if o = .completed then dep.escShort else 0) ∧
      s'.vaultShort = s.vaultShort + (if o = .completed then dep.escShort else 0) := by
  unfold exec at h
  split at h
  · cases h
  · cases hd : s.deps u d with
    | none => simp [hd] at h
    | some dep =>
      simp only [hd] at h
      split at h
      · cases h
      · split at h
        · cases h
        · split at h
          · cases h
          · by_cases ht : throw = true
            · simp only [ht, if_true] at h
              split at h
              · cases h
              · split at h
                · cases h
                · cases h; exact ⟨dep, rfl, rfl, rfl, rfl, rfl⟩
            · simp only [ht, if_false] at h
              split at h
              · cases h; exact ⟨dep, rfl, by simp [setDep], by simp [setDep], by simp [setDep], by simp [setDep]⟩
              · split at h
                · cases h; exact ⟨dep, rfl, by simp [setDep], by simp [setDep], by simp [setDep], by simp [setDep]⟩
                · cases h; exact ⟨dep, rfl, rfl, rfl, rfl, rfl⟩

/-- creating, executing (any outcome) and closing a deposit keep the market's recorded balances
within the real vault balances. -/
theorem life_recorded_le_vault {s : St} (hc : LifeCovered s) :
    (∀ {u d l sh ms el s'}, create s u d l sh ms el = some s' → LifeCovered s') ∧
    (∀ {who u d fee throw s' o paid}, exec s who u d fee throw = some (s', o, paid) → LifeCovered s') ∧
    (∀ {who u d s'}, close s who u d = some s' → LifeCovered s') := by
  obtain ⟨h1, h2⟩ := hc
  refine ⟨?_, ?_, ?_⟩
  · intro u d l sh ms el s' h
    obtain ⟨a, b, c, e⟩ := life_create_frame h
    exact ⟨by omega, by omega⟩
  · intro who u d fee throw s' o paid h
    obtain ⟨dep, _, e1, e2, e3, e4⟩ := life_exec_frame h
    exact ⟨by omega, by omega⟩
  · intro who u d s' h
    obtain ⟨a, b, c, e⟩ := life_close_frame h
    exact ⟨by omega, by omega⟩

end Life

/-! ### every recorded movement in the program is one of the modelled kinds (table REGENERATED) -/
open Gmx.Gen.C22 in
theorem all_record_sites_classified : ∀ s ∈ sites, s.kind ≠ "unknown" := by decide

/-- the reviewed list (hand-written): every recorded movement is either paired with an SPL
transfer of the same amount or is one half of a market-to-market hand-over -/
def expectedSites : List (String × String) := [
  ("instructions/market.rs", "spl_transfer_in_then_record"),
  ("ops/market.rs", "spl_transfer_in_then_record"),
  ("ops/market.rs", "spl_transfer_out_then_record"),
  ("ops/market.rs", "market_to_market_out"),
  ("ops/market.rs", "market_to_market_in"),
  ("ops/market.rs", "market_to_market_out"),
  ("ops/market.rs", "market_to_market_in"),
  ("states/market/revertible/swap_market.rs", "market_to_market_in"),
  ("states/market/revertible/swap_market.rs", "market_to_market_out"),
  ("states/market/revertible/swap_market.rs", "market_to_market_out"),
  ("states/market/revertible/swap_market.rs", "market_to_market_in"),
  ("states/market/revertible/swap_market.rs", "market_to_market_out"),
  ("states/market/revertible/swap_market.rs", "market_to_market_in"),
  ("states/market/revertible/swap_market.rs", "market_to_market_out"),
  ("states/market/revertible/swap_market.rs", "market_to_market_in"),
  ("states/market/revertible/swap_market.rs", "market_to_market_out"),
  ("states/market/revertible/swap_market.rs", "market_to_market_in")
]

open Gmx.Gen.C22 in
theorem record_sites_known :
    sites.map (fun s => (s.file, s.kind)) = expectedSites := by decide

/-! ### Non-vacuity -/
example : (⟨false, 100, 50, 5, 0, 1, 1, 10, 0, 0, 20, 106, 51⟩ : VMarket).validate 0 0 = some true := by decide
example : (⟨false, 100, 50, 5, 0, 1, 1, 10, 0, 0, 20, 105, 51⟩ : VMarket).validate 0 0 = some false := by decide
example : (⟨true, 51, 50, 0, 0, 0, 0, 0, 0, 0, 0, 101, 0⟩ : VMarket).validate 1 0 = some false := by decide

/-! ### ===== Stage 3: solvency over interleaved deposits, withdrawals and swap orders (`Gmx.Life2`) =====
Tied to the real `gmsol_store::entry` by `harness/h_store/src/bin/l2life.rs` (engine `l2`). -/
section Life2
open Gmx.Life2

/-- (c) **Solvency after every step of every history**: recorded balances never exceed the vault balances and
burns never exceed mints (so `supply = minted − burned` is exact), from an empty market, for any interleaving of
creations, executions (completed or soft-failed), closes, clock ticks and price updates of any users. -/
theorem l2_recorded_le_vault (l sh : Nat) (now : Int) (ops : List Life2.Op) :
    (Life2.run (Life2.init l sh now) ops).1.recLong ≤ (Life2.run (Life2.init l sh now) ops).1.vaultLong ∧
    (Life2.run (Life2.init l sh now) ops).1.recShort ≤ (Life2.run (Life2.init l sh now) ops).1.vaultShort ∧
    (Life2.run (Life2.init l sh now) ops).1.burned ≤ (Life2.run (Life2.init l sh now) ops).1.minted ∧
    Life2.supply (Life2.run (Life2.init l sh now) ops).1 + (Life2.run (Life2.init l sh now) ops).1.burned
      = (Life2.run (Life2.init l sh now) ops).1.minted := by
  have h := solvent_run (solvent_init l sh now) ops
  refine ⟨h.long, h.short, h.supply, ?_⟩
  have := h.supply
  unfold Life2.supply
  omega

/-- … and the invariant is inductive from ANY solvent state (one transaction). -/
theorem l2_solvent_step {s : Life2.St} (h : Life2.Solvent s) (op : Life2.Op) : Life2.Solvent (Life2.step s op).1 :=
  solvent_step h op

/-- how the supply and the recorded/vault pair move on a completed execution: a deposit mints `x` and adds its
escrow to both vault and record; a withdrawal burns exactly its escrowed market tokens and removes the paid
amounts from both; a swap adds the input to and removes the output from both. -/
theorem l2_complete_deposit {s s' : Life2.St} {u i x y : Nat} {act : Life2.Act}
    (h : Life2.complete s u 0 i act x y = some s') :
    s'.minted = s.minted + x ∧ s'.burned = s.burned ∧
    s'.vaultLong = s.vaultLong + act.escLong ∧ s'.recLong = s.recLong + act.escLong ∧
    s'.vaultShort = s.vaultShort + act.escShort ∧ s'.recShort = s.recShort + act.escShort := by
  simp [Life2.complete] at h; subst h; simp [Life2.setAct]

/-- a completed withdrawal, from a solvent state: burns exactly its escrowed market tokens and removes the paid amounts
`x y` from BOTH vault and record — stated without truncated subtraction (the model guards the RECORDED balance,
`x ≤ s.recLong`; solvency lifts that to the vault) — and the result is solvent. -/
theorem l2_complete_withdrawal {s s' : Life2.St} {u i x y : Nat} {act : Life2.Act} (hs : Life2.Solvent s)
    (h : Life2.complete s u 1 i act x y = some s') :
    s'.burned = s.burned + act.escMt ∧ s'.minted = s.minted ∧
    s'.vaultLong + x = s.vaultLong ∧ s'.recLong + x = s.recLong ∧
    s'.vaultShort + y = s.vaultShort ∧ s'.recShort + y = s.recShort ∧ Life2.Solvent s' := by
  obtain ⟨b, m, bm, vl, rl, xl, vs, rs, ys⟩ := complete_withdrawal_raw h
  have := hs.long; have := hs.short
  exact ⟨b, m, by omega, by omega, by omega, by omega, ⟨by omega, by omega, bm⟩⟩

/-- a completed market-increase order (kind 4) moves exactly its escrowed collateral into vault and record; nothing
leaves the pool and the supply is untouched. -/
theorem l2_complete_increase {s s' : Life2.St} {u i x y : Nat} {act : Life2.Act}
    (h : Life2.complete s u 4 i act x y = some s') :
    s'.vaultLong = s.vaultLong + act.escLong ∧ s'.recLong = s.recLong + act.escLong ∧
    s'.vaultShort = s.vaultShort ∧ s'.recShort = s.recShort ∧ s'.minted = s.minted ∧ s'.burned = s.burned := by
  simp [Life2.complete] at h; subst h; simp [Life2.setAct]

/-- stage 3c — a completed market-decrease order (kind 5): exactly the declared outputs `x y` (to the order escrow) and
the declared claimable amounts `cl cs` (owner) and `ch` (holding) leave BOTH the vault and the recorded balance; the
claimable totals grow by exactly those amounts; the supply is untouched; from a solvent state nothing truncates and
the result is solvent (so `recorded ≤ vault` survives every decrease — also covered by `l2_recorded_le_vault`). -/
theorem l2_complete_decrease {s s' : Life2.St} {u i x y cl cs ch : Nat} {pc : Bool} {act : Life2.Act} (hs : Life2.Solvent s)
    (h : Life2.complete s u 5 i act x y cl cs ch pc = some s') :
    s'.vaultLong + (x + cl + ch) = s.vaultLong ∧ s'.recLong + (x + cl + ch) = s.recLong ∧
    s'.vaultShort + (y + cs) = s.vaultShort ∧ s'.recShort + (y + cs) = s.recShort ∧
    s'.claimLong = s.claimLong + cl + ch ∧ s'.claimShort = s.claimShort + cs ∧
    s'.minted = s.minted ∧ s'.burned = s.burned ∧ Life2.Solvent s' ∧
    (∃ act', s'.acts u 5 i = some act' ∧ act'.escLong = act.escLong + x ∧ act'.escShort = act.escShort + y) := by
  obtain ⟨_, _, _, _, _, _, v1, r1, v2, r2, c1, c2, hle⟩ := complete_decrease (Nat.le_refl 5) h
  obtain ⟨hl, hsh⟩ := hle hs
  obtain ⟨_, _, _, _, _, hsol, _⟩ := complete_some h
  have hrest : s'.minted = s.minted ∧ s'.burned = s.burned ∧
      (∃ act', s'.acts u 5 i = some act' ∧ act'.escLong = act.escLong + x ∧ act'.escShort = act.escShort + y) := by
    have h' := h
    simp only [Life2.complete] at h'; simp at h'
    obtain ⟨_, _, _, h'⟩ := h'
    subst h'
    exact ⟨rfl, rfl, { act with state := 1, escLong := act.escLong + x, escShort := act.escShort + y },
      by simp [Life2.setAct], rfl, rfl⟩
  exact ⟨by omega, r1, by omega, r2, c1, c2, hrest.1, hrest.2.1, hsol hs, hrest.2.2⟩

example : (Life2.run (Life2.init 10000 5000 100)
    [.create 1 4 0 700 300 false 400000 1, .price 0, .exec .keeper 1 4 0 5 true false 0 0,
     .create 1 5 0 0 10000 false 400000 2, .price 0, .exec .keeper 1 5 0 5 true false 50 0 false 3 0 1 false]).1.recLong = 646 := by decide
example : ∃ s', Life2.complete { Life2.init 10000 5000 100 with vaultLong := 701, recLong := 700, posSize := fun _ => 30000 } 1 5 0
      { state := 0, escLong := 0, escShort := 0, escMt := 0, createdAt := 100, execLamports := 400000, soft := false, receiver := 2, size := 10000 }
      50 0 3 0 1 false = some s' ∧ s'.vaultLong = 647 ∧ s'.recLong = 646 ∧ s'.claimLong = 4 ∧ s'.posSize 1 = 20000 :=
  ⟨_, rfl, rfl, rfl, rfl, rfl⟩

example : (Life2.run (Life2.init 10000 5000 100)
    [.create 0 0 0 2000 300 false 500000 0, .price 0, .exec .keeper 0 0 0 0 true false 600 0, .close (.user 0) 0 0 0,
     .create 0 1 0 100 0 false 0 0, .exec .keeper 0 1 0 0 true false 333 50]).1.recLong = 1667 := by decide

end Life2

/-! ## the swap router validates every output market with ALL of its pending outputs excluded

After a multi-market swap the output amounts remain deposited in their output markets and are paid out by
the enclosing instruction (withdrawal, decrease order). `revertible_swap` therefore validates each output
market with what is about to leave it excluded. When both sides end in the same market and the same token,
both amounts must be excluded AT ONCE: checking them one at a time accepts a state in which paying both out
leaves the recorded balance below the position collateral. -/
section Router

/-- two exclusions of the same long-side token accumulate to their sum -/
theorem excl_same_long (m : RMarket) (t a₁ a₂ : Nat) (hs : m.side t = some true) (e : Nat × Nat)
    (h : m.excl t t a₁ a₂ = some e) : e = (a₁ + a₂, 0) := by
  unfold RMarket.excl RMarket.exclSide at h
  simp only [hs] at h
  by_cases h1 : a₁ = 0 <;> by_cases h2 : a₂ = 0
  · simp [h1, h2] at h; simp [h1, h2, ← h]
  · simp only [h1, h2, if_true, if_false, Option.bind_some, Nat.zero_add] at h
    split at h
    · cases h; simp [h1]
    · cases h
  · simp only [h1, h2, if_true, if_false, Nat.zero_add] at h
    split at h
    · simp at h; simp [h2, ← h]
    · cases h
  · simp only [h1, h2, if_false, Nat.zero_add] at h
    split at h
    · simp only [Option.bind_some, h2, if_false] at h
      split at h
      · cases h; rfl
      · cases h
    · cases h

/-- … and of the same short-side token -/
theorem excl_same_short (m : RMarket) (t a₁ a₂ : Nat) (hs : m.side t = some false) (e : Nat × Nat)
    (h : m.excl t t a₁ a₂ = some e) : e = (0, a₁ + a₂) := by
  unfold RMarket.excl RMarket.exclSide at h
  simp only [hs] at h
  by_cases h1 : a₁ = 0 <;> by_cases h2 : a₂ = 0
  · simp [h1, h2] at h; simp [h1, h2, ← h]
  · simp only [h1, h2, if_true, if_false, Option.bind_some, Nat.zero_add] at h
    split at h
    · cases h; simp [h1]
    · cases h
  · simp only [h1, h2, if_true, if_false, Nat.zero_add] at h
    split at h
    · simp at h; simp [h2, ← h]
    · cases h
  · simp only [h1, h2, if_false, Nat.zero_add] at h
    split at h
    · simp only [Option.bind_some, h2, if_false] at h
      split at h
      · cases h; rfl
      · cases h
    · cases h

/-- excluding two amounts of the same long-side token from an impure market checks them JOINTLY -/
theorem validExcl_joint_long (m : RMarket) (t a₁ a₂ : Nat) (hp : m.isPure = false) (hs : m.side t = some true)
    (h : m.validExcl t t a₁ a₂ = true) : m.colL + a₁ + a₂ ≤ m.balL := by
  unfold RMarket.validExcl at h
  split at h
  · cases h
  · rename_i e he
    have := excl_same_long m t a₁ a₂ hs e he
    subst this
    simp only [RMarket.validBalances, hp, Bool.false_eq_true, if_false, RMarket.colOk, Bool.false_or, if_true,
      Bool.and_eq_true, decide_eq_true_eq] at h
    omega

theorem validExcl_joint_short (m : RMarket) (t a₁ a₂ : Nat) (hp : m.isPure = false) (hs : m.side t = some false)
    (h : m.validExcl t t a₁ a₂ = true) : m.colS + a₁ + a₂ ≤ m.balS := by
  unfold RMarket.validExcl at h
  split at h
  · cases h
  · rename_i e he
    have := excl_same_short m t a₁ a₂ hs e he
    subst this
    simp only [RMarket.validBalances, hp, Bool.false_eq_true, if_false, RMarket.colOk, Bool.false_or, if_true,
      Bool.and_eq_true, decide_eq_true_eq] at h
    omega

/-- a successful action swap passed the final validation (by construction of the router) -/
theorem routerSwap_final_validated {into : Bool} {s s' : RState} {p₁ p₂ : List Nat} {e : Nat × Nat}
    {ti : Option Nat × Option Nat} {am : Nat × Nat} {o₁ o₂ : Nat}
    (h : routerSwap into s p₁ p₂ e ti am = some (s', o₁, o₂)) :
    finalBalCheck into s' p₁ p₂ e o₁ o₂ = true := by
  unfold routerSwap at h
  split at h
  · cases h
  · split at h
    · cases h
    · simp only [] at h
      split at h
      · cases h
      · split at h
        · cases h
        · split at h
          · cases h
          · split at h
            · rename_i hc
              simp only [Option.some.injEq, Prod.mk.injEq] at h
              obtain ⟨rfl, rfl, rfl⟩ := h
              simp only [Bool.and_eq_true] at hc
              exact hc.2
            · cases h

/-- **both outputs in one market and one token are covered together**: after a successful swap OUT of the
current market whose two paths end in the same provided market `x` with the same output token `t` on `x`'s
long side, `x`'s recorded long balance covers its position collateral plus BOTH output amounts. -/
theorem same_market_outputs_jointly_covered {s s' : RState} {p₁ p₂ : List Nat} {t : Nat}
    {ti : Option Nat × Option Nat} {am : Nat × Nat} {o₁ o₂ : Nat} {x : Nat} {m : RMarket}
    (h : routerSwap false s p₁ p₂ (t, t) ti am = some (s', o₁, o₂))
    (h1 : p₁.getLast? = some x) (h2 : p₂.getLast? = some x) (hx : x ≠ s'.cur.token)
    (hm : findMarket s'.markets x = some m) (hp : m.isPure = false) (hs : m.side t = some true) :
    m.colL + o₁ + o₂ ≤ m.balL := by
  have hf := routerSwap_final_validated h
  unfold finalBalCheck at hf
  simp only [h1, h2, Option.getD_some, Bool.false_eq_true, if_false, if_true, hx, hm, Bool.and_eq_true] at hf
  exact validExcl_joint_long m t o₁ o₂ hp hs hf.1

/-- non-vacuity state: collateral `col` of token 13 in market 2 (balance 1000) -/
def exSt (col : Nat) : RState :=
  { markets := [⟨2, 12, 13, 1000, 1000, 0, 0, 0, col⟩], cur := ⟨0, 12, 12, 5000, 0, 0, 0, 0, 0⟩, outs := [30, 30], trace := [] }

/-- outputs 30 + 30 are rejected jointly at collateral 950 although each alone would pass; at 940 the swap goes through -/
example :
    (routerSwap false (exSt 950) [2] [2] (13, 13) (some 12, some 12) (40, 40)).isSome = false ∧
    (routerSwap false (exSt 940) [2] [2] (13, 13) (some 12, some 12) (40, 40)).isSome = true ∧
    (⟨2, 12, 13, 1080, 1000, 0, 0, 0, 950⟩ : RMarket).validExcl 13 13 30 0 = true := by decide

/-- … and when both sides end in the CURRENT market (empty paths, or paths whose last market is the current
one), the current market's balance covers its collateral plus both outputs -/
theorem current_market_outputs_jointly_covered {s s' : RState} {p₁ p₂ : List Nat} {t : Nat}
    {ti : Option Nat × Option Nat} {am : Nat × Nat} {o₁ o₂ : Nat}
    (h : routerSwap false s p₁ p₂ (t, t) ti am = some (s', o₁, o₂))
    (h1 : p₁.getLast?.getD s'.cur.token = s'.cur.token) (h2 : p₂.getLast?.getD s'.cur.token = s'.cur.token)
    (hp : s'.cur.isPure = false) (hs : s'.cur.side t = some true) :
    s'.cur.colL + o₁ + o₂ ≤ s'.cur.balL := by
  have hf := routerSwap_final_validated h
  unfold finalBalCheck at hf
  simp only [h1, h2, Bool.false_eq_true, if_false, if_true, Bool.and_eq_true] at hf
  exact validExcl_joint_long s'.cur t o₁ o₂ hp hs hf.1

/-- non-vacuity: withdrawing both legs as token 12 straight from the current market (empty paths) -/
example : (routerSwap false { markets := [], cur := ⟨0, 12, 13, 1000, 1000, 0, 0, 940, 0⟩, outs := [], trace := [] }
    [] [] (12, 12) (some 12, some 12) (30, 30)).isSome = true ∧
  (routerSwap false { markets := [], cur := ⟨0, 12, 13, 1000, 1000, 0, 0, 950, 0⟩, outs := [], trace := [] }
    [] [] (12, 12) (some 12, some 12) (30, 30)).isSome = false := by decide

end Router

/-! ## audit: further non-vacuity instances and strengthened statements -/
section Audit

/-- `u128Add_some`, `minOneSide_some`, `collateralOneSide_some`: the `some` branch is reachable (and the
`none` = overflow branch too) -/
example : u128Add 3 4 = some 7 ∧ u128Add (2 ^ 128 - 1) 1 = none := by decide
example : (⟨false, 100, 50, 5, 0, 1, 1, 10, 0, 0, 20, 106, 51⟩ : VMarket).minOneSide true = some 106 ∧
    (⟨false, 100, 50, 5, 0, 1, 1, 10, 0, 0, 20, 106, 51⟩ : VMarket).minOneSide false = some 51 ∧
    (⟨false, 100, 50, 5, 0, 1, 1, 10, 7, 3, 20, 106, 51⟩ : VMarket).collateralOneSide true = some 13 ∧
    (⟨false, 100, 50, 5, 0, 1, 1, 10, 7, 3, 20, 106, 51⟩ : VMarket).collateralOneSide false = some 27 := by decide

/-- `validateToken_sound` hypothesis with a NON-ZERO exclusion (impure and pure market) -/
example : (⟨false, 100, 50, 5, 0, 1, 1, 10, 0, 0, 20, 126, 51⟩ : VMarket).validateToken true 20 = some true ∧
    (⟨true, 51, 50, 0, 0, 0, 0, 3, 4, 5, 6, 111, 0⟩ : VMarket).validateToken false 10 = some true := by decide

/-- `validate_establishes_solvency` instantiated on a PURE market (the existing example is impure) -/
example : Solvent ⟨true, 51, 50, 0, 0, 0, 0, 3, 4, 5, 6, 101, 0⟩ :=
  validate_establishes_solvency (by decide)

/-- `validate_excluding_sound` instantiated with non-zero exclusions on both sides -/
example : Solvent ⟨false, 100, 50, 5, 0, 1, 1, 10, 0, 0, 20, 106, 51⟩ ∧ 20 ≤ 126 ∧ 9 ≤ 60 :=
  validate_excluding_sound (m := ⟨false, 100, 50, 5, 0, 1, 1, 10, 0, 0, 20, 126, 60⟩) (exL := 20) (exS := 9)
    rfl (by decide)

/-- AUDIT (strength): `validate_excluding_sound` assumes `m.pure = false`; the pure-market counterpart (both
exclusions are summed and taken from the single recorded balance) -/
theorem validate_excluding_sound_pure {m : VMarket} {exL exS : Nat} (hp : m.pure = true)
    (h : m.validate exL exS = some true) :
    Solvent { m with balL := m.balL - (exL + exS) } ∧ exL + exS ≤ m.balL := by
  unfold VMarket.validate at h
  simp only [hp, if_true] at h
  split at h
  · have a := validateToken_sound h
    simp [hp, VMarket.balance] at a
    refine ⟨?_, by omega⟩
    unfold Solvent; simp [hp]; omega
  · cases h

example : Solvent ⟨true, 51, 50, 0, 0, 0, 0, 3, 4, 5, 6, 101, 0⟩ ∧ 7 + 3 ≤ 111 :=
  validate_excluding_sound_pure (m := ⟨true, 51, 50, 0, 0, 0, 0, 3, 4, 5, 6, 111, 0⟩) (exL := 7) (exS := 3)
    rfl (by decide)

/-- … and the pure market of the file's third example is rejected with ONE unit excluded although it is solvent -/
example : Solvent ⟨true, 51, 50, 0, 0, 0, 0, 0, 0, 0, 0, 101, 0⟩ := validate_establishes_solvency (by decide)

/-- `recorded_subBal` hypothesis (long side, short side, pure market, and the rejected underflow) -/
example : (⟨12, 13, ⟨false, 0, 0, 0, 0, 0, 0, 0, 0, 0, 0, 100, 50⟩⟩ : VMkt).subBal true 40 =
      some ⟨12, 13, ⟨false, 0, 0, 0, 0, 0, 0, 0, 0, 0, 0, 60, 50⟩⟩ ∧
    (⟨12, 13, ⟨false, 0, 0, 0, 0, 0, 0, 0, 0, 0, 0, 100, 50⟩⟩ : VMkt).subBal false 50 =
      some ⟨12, 13, ⟨false, 0, 0, 0, 0, 0, 0, 0, 0, 0, 0, 100, 0⟩⟩ ∧
    (⟨12, 12, ⟨true, 0, 0, 0, 0, 0, 0, 0, 0, 0, 0, 100, 0⟩⟩ : VMkt).subBal false 30 =
      some ⟨12, 12, ⟨true, 0, 0, 0, 0, 0, 0, 0, 0, 0, 0, 70, 0⟩⟩ ∧
    (⟨12, 13, ⟨false, 0, 0, 0, 0, 0, 0, 0, 0, 0, 0, 100, 50⟩⟩ : VMkt).subBal false 51 = none := by decide

/-- `wstep_covered` / `vault_covers_history`: a concrete `Covered` world — two markets (12/13 and 12/14) SHARING
the vault of token 12, the vault holding a donated surplus — in which every kind of step succeeds, a failed step
(an over-withdrawal) is skipped, and the history ends in a non-initial covered world -/
example : ∃ w : World, Covered w ∧
    (wstep w (.transferIn 1 false 5)).isSome = true ∧ (wstep w (.transferOut 0 true 40)).isSome = true ∧
    (wstep w (.move 0 1 12 100)).isSome = true ∧ (wstep w (.transferOut 0 true 101)).isSome = false ∧
    Covered (wrun w [.transferOut 0 true 40, .transferOut 0 true 101, .move 0 1 12 60, .donate 13 1, .transferIn 1 false 5]) ∧
    (wrun w [.transferOut 0 true 40, .transferOut 0 true 101, .move 0 1 12 60, .donate 13 1, .transferIn 1 false 5]).total 12 = 210 ∧
    (wrun w [.transferOut 0 true 40, .transferOut 0 true 101, .move 0 1 12 60, .donate 13 1, .transferIn 1 false 5]).vault 12 = 260 ∧
    ((wrun w [.transferOut 0 true 40, .transferOut 0 true 101, .move 0 1 12 60, .donate 13 1, .transferIn 1 false 5]).mkt 1).st.balL = 210 := by
  have hc : Covered ⟨2, fun i => if i = 0 then ⟨12, 13, ⟨false, 0, 0, 0, 0, 0, 0, 0, 0, 0, 0, 100, 50⟩⟩
                                   else ⟨12, 14, ⟨false, 0, 0, 0, 0, 0, 0, 0, 0, 0, 0, 150, 70⟩⟩,
                     fun t => if t = 12 then 300 else if t = 13 then 50 else if t = 14 then 70 else 0⟩ := by
    intro t
    by_cases h12 : t = 12
    · subst h12; decide
    · by_cases h13 : t = 13
      · subst h13; decide
      · by_cases h14 : t = 14
        · subst h14; decide
        · have a : ¬ 12 = t := fun h => h12 h.symm
          have b : ¬ 13 = t := fun h => h13 h.symm
          have c : ¬ 14 = t := fun h => h14 h.symm
          simp [World.total, List.range_succ, VMkt.recorded, a, b, c]
  exact ⟨_, hc, by decide, by decide, by decide, by decide, vault_covers_history _ _ hc, by decide, by decide, by decide⟩

section LifeAudit
open Gmx.Life

/-- `life_create_frame` / `life_exec_frame` / `life_close_frame` / `life_recorded_le_vault`: their hypotheses are
met along a real life cycle (create → price → execute completed → close), on the initial state and on a
non-initial one (second deposit created and CANCELLED after the first completed) -/
example : LifeCovered (init 1000 500 100) := ⟨Nat.le_refl _, Nat.le_refl _⟩
example : ((create (init 1000 500 100) 0 0 300 20 false 200000).bind fun s =>
      (exec (price s 0) .keeper 0 0 5000 false).map fun r =>
        (r.1.recLong, r.1.vaultLong, r.1.recShort, r.1.vaultShort, r.2.1, r.2.2)) =
    some (300, 300, 20, 20, .completed, 5000) := by decide
example : ((create (init 1000 500 100) 0 0 300 20 false 200000).bind fun s =>
      (exec (price s 0) .keeper 0 0 5000 false).bind fun r =>
        (close r.1 .keeper 0 0).bind fun s2 =>
          (create s2 0 1 100 0 true 200000).bind fun s3 =>
            (exec s3 .keeper 0 1 9 false).bind fun r2 =>
              (close r2.1 (.user 0) 0 1).map fun s4 =>
                (r2.2.1, s4.recLong, s4.vaultLong, s4.recShort, (s4.users 0).long, (s4.users 0).short)) =
    some (.cancelled, 300, 300, 20, 700, 480) := by decide
/-- `life_recorded_le_vault` instantiated on a NON-initial covered state (vault holds a donated surplus) -/
example : ∀ s', create { init 1000 500 100 with vaultLong := 310, recLong := 300, vaultShort := 20, recShort := 20 }
      0 0 300 20 false 200000 = some s' → LifeCovered s' :=
  fun _ h => (life_recorded_le_vault (s := { init 1000 500 100 with vaultLong := 310, recLong := 300, vaultShort := 20, recShort := 20 })
    ⟨by decide, by decide⟩).1 h
example : (create { init 1000 500 100 with vaultLong := 310, recLong := 300, vaultShort := 20, recShort := 20 }
      0 0 300 20 false 200000).isSome = true := by decide

end LifeAudit

section Life2Audit
open Gmx.Life2

/-- `l2_solvent_step` on the initial and on a non-initial solvent state -/
example : Life2.Solvent (Life2.step (Life2.init 10000 5000 100) (.create 0 0 0 2000 300 false 500000 0)).1 :=
  l2_solvent_step (solvent_init _ _ _) _
example : Life2.Solvent { Life2.init 10000 5000 100 with vaultLong := 2001, recLong := 2000, vaultShort := 300, recShort := 300, minted := 600, burned := 10 } := ⟨by decide, by decide, by decide⟩

/-- `l2_complete_deposit` hypothesis: a deposit escrowing 2000/300 completes and mints 600 -/
example : ∃ s', Life2.complete (Life2.init 10000 5000 100) 0 0 0 { state := 0, escLong := 2000, escShort := 300, escMt := 0, createdAt := 100, execLamports := 500000, soft := false, receiver := 0 } 600 0 = some s' ∧
    s'.minted = 600 ∧ s'.vaultLong = 2000 ∧ s'.recShort = 300 := ⟨_, rfl, rfl, rfl, rfl⟩

/-- `l2_complete_withdrawal` hypothesis: burning 100 market tokens for 333/50 on a funded market; and the
rejected branches (pays out more than recorded; burns more than the supply) -/
example : ∃ s', Life2.complete { Life2.init 10000 5000 100 with vaultLong := 2001, recLong := 2000, vaultShort := 300, recShort := 300, minted := 600, burned := 10 } 0 1 0 { state := 0, escLong := 0, escShort := 0, escMt := 100, createdAt := 100, execLamports := 0, soft := false, receiver := 0 } 333 50 = some s' ∧
    s'.burned = 110 ∧ s'.vaultLong = 1668 ∧ s'.recLong = 1667 ∧ s'.recShort = 250 := ⟨_, rfl, rfl, rfl, rfl, rfl⟩
example : (Life2.complete { Life2.init 10000 5000 100 with vaultLong := 2001, recLong := 2000, minted := 600, burned := 10 }
      0 1 0 { state := 0, escLong := 0, escShort := 0, escMt := 100, createdAt := 100, execLamports := 0, soft := false, receiver := 0 } 2001 0).isSome = false ∧
    (Life2.complete { Life2.init 10000 5000 100 with vaultLong := 2001, recLong := 2000, minted := 600, burned := 10 }
      0 1 0 { state := 0, escLong := 0, escShort := 0, escMt := 591, createdAt := 100, execLamports := 0, soft := false, receiver := 0 } 1 0).isSome = false := by decide

/-- `l2_complete_increase` hypothesis -/
example : ∃ s', Life2.complete (Life2.init 10000 5000 100) 0 4 0 { state := 0, escLong := 700, escShort := 0, escMt := 0, createdAt := 100, execLamports := 500000, soft := false, receiver := 0 } 0 0 = some s' ∧
    s'.vaultLong = 700 ∧ s'.recLong = 700 := ⟨_, rfl, rfl, rfl⟩

/-- AUDIT (strength): the audit found `l2_complete_withdrawal` stated with `Nat` truncated subtraction on the vault side; the
main theorem is now the subtraction-free one (from a `Solvent` state, result solvent) and this is its corollary in the
audit's original order of conjuncts. -/
theorem l2_complete_withdrawal_exact {s s' : Life2.St} {u i x y : Nat} {act : Life2.Act} (hs : Life2.Solvent s)
    (h : Life2.complete s u 1 i act x y = some s') :
    s'.vaultLong + x = s.vaultLong ∧ s'.recLong + x = s.recLong ∧
    s'.vaultShort + y = s.vaultShort ∧ s'.recShort + y = s.recShort ∧
    s'.burned = s.burned + act.escMt ∧ Life2.Solvent s' := by
  obtain ⟨b, _, vl, rl, vs, rs, hsol⟩ := l2_complete_withdrawal hs h
  exact ⟨vl, rl, vs, rs, b, hsol⟩

example : Life2.Solvent { Life2.init 10000 5000 100 with vaultLong := 2001, recLong := 2000, vaultShort := 300, recShort := 300, minted := 600, burned := 10 } ∧
    (Life2.complete { Life2.init 10000 5000 100 with vaultLong := 2001, recLong := 2000, vaultShort := 300, recShort := 300, minted := 600, burned := 10 } 0 1 0 { state := 0, escLong := 0, escShort := 0, escMt := 100, createdAt := 100, execLamports := 0, soft := false, receiver := 0 } 333 50).isSome = true :=
  ⟨⟨by decide, by decide, by decide⟩, by decide⟩

/-- AUDIT (strength): the docstring of `l2_complete_deposit` promises the swap case ("a swap adds the input to and
removes the output from both") but no theorem states it; here it is for both swap kinds, subtraction-free on the
recorded side and — from a `Solvent` state — on the vault side too -/
theorem l2_complete_swap {s s' : Life2.St} {u i x y : Nat} {act : Life2.Act} (hs : Life2.Solvent s) :
    (Life2.complete s u 2 i act x y = some s' →
      s'.vaultLong = s.vaultLong + act.escLong ∧ s'.recLong = s.recLong + act.escLong ∧
      s'.vaultShort + x = s.vaultShort ∧ s'.recShort + x = s.recShort ∧
      s'.minted = s.minted ∧ s'.burned = s.burned) ∧
    (Life2.complete s u 3 i act x y = some s' →
      s'.vaultShort = s.vaultShort + act.escShort ∧ s'.recShort = s.recShort + act.escShort ∧
      s'.vaultLong + x = s.vaultLong ∧ s'.recLong + x = s.recLong ∧
      s'.minted = s.minted ∧ s'.burned = s.burned) := by
  have := hs.long; have := hs.short
  constructor
  · intro h
    simp [Life2.complete] at h
    obtain ⟨h1, rfl⟩ := h
    simp [Life2.setAct]; omega
  · intro h
    simp [Life2.complete] at h
    obtain ⟨h1, rfl⟩ := h
    simp [Life2.setAct]; omega

example : ∃ s', Life2.complete { Life2.init 10000 5000 100 with vaultLong := 2001, recLong := 2000, vaultShort := 300, recShort := 300, minted := 600, burned := 10 } 0 2 0 { state := 0, escLong := 40, escShort := 0, escMt := 0, createdAt := 100, execLamports := 500000, soft := false, receiver := 0 } 30 0 = some s' ∧
    s'.vaultLong = 2041 ∧ s'.recLong = 2040 ∧ s'.vaultShort = 270 ∧ s'.recShort = 270 := ⟨_, rfl, rfl, rfl, rfl, rfl⟩

end Life2Audit

section RouterAudit

/-- `excl_same_long` / `excl_same_short` / `validExcl_joint_long` / `validExcl_joint_short`: hypotheses met with
both amounts non-zero -/
example : (⟨2, 13, 12, 1000, 1080, 0, 0, 940, 0⟩ : RMarket).side 13 = some true ∧
    (⟨2, 13, 12, 1000, 1080, 0, 0, 940, 0⟩ : RMarket).excl 13 13 30 30 = some (60, 0) ∧
    (⟨2, 13, 12, 1000, 1080, 0, 0, 940, 0⟩ : RMarket).validExcl 13 13 30 30 = true ∧
    (⟨2, 13, 12, 1000, 1080, 0, 0, 941, 0⟩ : RMarket).validExcl 13 13 30 30 = false := by decide
example : (⟨2, 12, 13, 1080, 1000, 0, 0, 0, 940⟩ : RMarket).side 13 = some false ∧
    (⟨2, 12, 13, 1080, 1000, 0, 0, 0, 940⟩ : RMarket).excl 13 13 30 30 = some (0, 60) ∧
    (⟨2, 12, 13, 1080, 1000, 0, 0, 0, 940⟩ : RMarket).validExcl 13 13 30 30 = true := by decide
example : (940 : Nat) + 30 + 30 ≤ 1000 :=
  validExcl_joint_long ⟨2, 13, 12, 1000, 1080, 0, 0, 940, 0⟩ 13 30 30 rfl (by decide) (by decide)

/-- `same_market_outputs_jointly_covered` instantiated: the file's example `exSt` has token 13 on the SHORT side of
market 2, so it does not meet `hs : m.side t = some true`; this is the mirrored state (13 = long token of market 2) -/
example : (940 : Nat) + 30 + 30 ≤ 1000 :=
  same_market_outputs_jointly_covered
    (s := { markets := [⟨2, 13, 12, 1000, 1000, 0, 0, 940, 0⟩], cur := ⟨0, 12, 12, 5000, 0, 0, 0, 0, 0⟩, outs := [30, 30], trace := [] })
    (s' := { markets := [⟨2, 13, 12, 1000, 1080, 0, 0, 940, 0⟩], cur := ⟨0, 12, 12, 4920, 0, 0, 0, 0, 0⟩, outs := [],
             trace := [⟨2, 12, 13, 40, 30⟩, ⟨2, 12, 13, 40, 30⟩] })
    (p₁ := [2]) (p₂ := [2]) (t := 13) (ti := (some 12, some 12)) (am := (40, 40)) (o₁ := 30) (o₂ := 30) (x := 2)
    (m := ⟨2, 13, 12, 1000, 1080, 0, 0, 940, 0⟩)
    (by rfl) (by rfl) (by rfl) (by decide) (by rfl) (by rfl) (by rfl)

/-- AUDIT (strength): `same_market_outputs_jointly_covered` only covers an output token on the LONG side of the
output market; the short-side counterpart (which is what the file's `exSt` example exercises) -/
theorem same_market_outputs_jointly_covered_short {s s' : RState} {p₁ p₂ : List Nat} {t : Nat}
    {ti : Option Nat × Option Nat} {am : Nat × Nat} {o₁ o₂ : Nat} {x : Nat} {m : RMarket}
    (h : routerSwap false s p₁ p₂ (t, t) ti am = some (s', o₁, o₂))
    (h1 : p₁.getLast? = some x) (h2 : p₂.getLast? = some x) (hx : x ≠ s'.cur.token)
    (hm : findMarket s'.markets x = some m) (hp : m.isPure = false) (hs : m.side t = some false) :
    m.colS + o₁ + o₂ ≤ m.balS := by
  have hf := routerSwap_final_validated h
  unfold finalBalCheck at hf
  simp only [h1, h2, Option.getD_some, Bool.false_eq_true, if_false, if_true, hx, hm, Bool.and_eq_true] at hf
  exact validExcl_joint_short m t o₁ o₂ hp hs hf.1

example : (940 : Nat) + 30 + 30 ≤ 1000 :=
  same_market_outputs_jointly_covered_short
    (s := exSt 940)
    (s' := { markets := [⟨2, 12, 13, 1080, 1000, 0, 0, 0, 940⟩], cur := ⟨0, 12, 12, 4920, 0, 0, 0, 0, 0⟩, outs := [],
             trace := [⟨2, 12, 13, 40, 30⟩, ⟨2, 12, 13, 40, 30⟩] })
    (p₁ := [2]) (p₂ := [2]) (t := 13) (ti := (some 12, some 12)) (am := (40, 40)) (o₁ := 30) (o₂ := 30) (x := 2)
    (m := ⟨2, 12, 13, 1080, 1000, 0, 0, 0, 940⟩)
    (by rfl) (by rfl) (by rfl) (by decide) (by rfl) (by rfl) (by rfl)

end RouterAudit
end Audit


end Gmx.C22
