import Gmx.Model.Fee
import Gmx.Props.C01
/-!
# C02 — fee splitting never creates or loses tokens
-/
namespace Gmx.C02
open Gmx

/-- unfolding lemma: what a successful `applyFees` computed. -/
theorem applyFees_some {W U : Nat} {p : FeeParams} {bc : BalanceChange} {a net : Nat} {f : Fees}
    (h : applyFees W U p bc a = some (net, f)) :
    ∃ fee, feeOf W U p bc a = some fee ∧ receiverFee W U p fee = some f.receiver ∧
      f.receiver ≤ fee ∧ f.pool = fee - f.receiver ∧ fee ≤ a ∧ net = a - fee := by
  unfold applyFees at h
  split at h
  · cases h
  · rename_i fee hfee
    split at h
    · cases h
    · rename_i r hr
      unfold checkedSub at h
      split at h
      · cases h
      · rename_i pool hpool
        split at hpool
        · cases hpool
          split at h
          · cases h
          · rename_i net' hnet
            split at hnet
            · cases hnet; cases h
              exact ⟨fee, hfee, hr, by assumption, rfl, by assumption, rfl⟩
            · cases hnet
        · cases hpool

/-- **conservation**: net amount + pool share + receiver share = gross amount, exactly. -/
theorem applyFees_conserves {W U : Nat} {p : FeeParams} {bc : BalanceChange} {a net : Nat} {f : Fees}
    (h : applyFees W U p bc a = some (net, f)) : net + f.pool + f.receiver = a := by
  obtain ⟨fee, _, _, h1, h2, h3, h4⟩ := applyFees_some h
  omega

/-- the fee (both shares together) never exceeds the gross amount — for ANY factors. -/
theorem applyFees_fee_le {W U : Nat} {p : FeeParams} {bc : BalanceChange} {a net : Nat} {f : Fees}
    (h : applyFees W U p bc a = some (net, f)) : f.pool + f.receiver ≤ a := by
  obtain ⟨fee, _, _, h1, h2, h3, h4⟩ := applyFees_some h
  omega

/-- the fee formula: `⌊a·f/U⌋ − ⌊⌊a·f/U⌋·d/U⌋`. -/
theorem feeOf_spec {W U : Nat} {p : FeeParams} {bc : BalanceChange} {a fee : Nat}
    (h : feeOf W U p bc a = some fee) :
    U ≠ 0 ∧ fee = a * p.factor bc / U - (a * p.factor bc / U) * p.disc / U ∧
    (a * p.factor bc / U) * p.disc / U ≤ a * p.factor bc / U := by
  unfold feeOf at h
  split at h
  · cases h
  · rename_i f hf
    obtain ⟨hU, rfl, _⟩ := (C01.applyFactor_spec _ _ _ _ _).1 hf
    split at h
    · cases h
    · rename_i d hd
      obtain ⟨_, rfl, _⟩ := (C01.applyFactor_spec _ _ _ _ _).1 hd
      unfold checkedSub at h
      split at h
      · cases h; exact ⟨hU, rfl, by assumption⟩
      · cases h

/-- invalid configuration (computed fee above the gross amount, e.g. factor > 100%) fails
instead of producing a larger-than-input fee. -/
theorem applyFees_none_of_fee_gt {W U : Nat} {p : FeeParams} {bc : BalanceChange} {a fee : Nat}
    (hf : feeOf W U p bc a = some fee) (hgt : a < fee) : applyFees W U p bc a = none := by
  unfold applyFees
  rw [hf]
  simp only
  have hn : ¬ fee ≤ a := by omega
  split
  · rfl
  · split
    · rfl
    · simp [checkedSub, hn]

/-- a receiver factor above 100% that would give the receiver more than the fee fails. -/
theorem applyFees_none_of_recv_gt {W U : Nat} {p : FeeParams} {bc : BalanceChange} {a fee r : Nat}
    (hf : feeOf W U p bc a = some fee) (hr : receiverFee W U p fee = some r) (hgt : fee < r) :
    applyFees W U p bc a = none := by
  unfold applyFees
  have hn : ¬ r ≤ fee := by omega
  rw [hf]; simp only [hr]
  simp [checkedSub, hn]

/-- a discount above 100% (discount larger than the fee itself) fails. -/
theorem feeOf_none_of_discount_gt {W U : Nat} {p : FeeParams} {bc : BalanceChange} {a f d : Nat}
    (hf : applyFactor W U a (p.factor bc) = some f) (hd : applyFactor W U f p.disc = some d)
    (hgt : f < d) : feeOf W U p bc a = none := by
  have hn : ¬ d ≤ f := by omega
  unfold feeOf; rw [hf]; simp only [hd]; simp [checkedSub, hn]

/-- a discount never raises the fee: larger discount factor ⇒ smaller-or-equal fee. -/
theorem discount_antitone {W U : Nat} {p : FeeParams} {bc : BalanceChange} {a d₁ d₂ f₁ f₂ : Nat}
    (hd : d₁ ≤ d₂)
    (h₁ : feeOf W U { p with disc := d₁ } bc a = some f₁)
    (h₂ : feeOf W U { p with disc := d₂ } bc a = some f₂) : f₂ ≤ f₁ := by
  obtain ⟨_, rfl, _⟩ := feeOf_spec h₁
  obtain ⟨_, rfl, _⟩ := feeOf_spec h₂
  have e : ({ p with disc := d₁ } : FeeParams).factor bc = p.factor bc := by cases bc <;> rfl
  have e' : ({ p with disc := d₂ } : FeeParams).factor bc = p.factor bc := by cases bc <;> rfl
  simp only [e, e']
  have : a * p.factor bc / U * d₁ / U ≤ a * p.factor bc / U * d₂ / U :=
    Nat.div_le_div_right (Nat.mul_le_mul_left _ hd)
  omega

/-- in particular a discounted fee is at most the undiscounted one. -/
theorem discount_le_undiscounted {W U : Nat} {p : FeeParams} {bc : BalanceChange} {a d f₀ f : Nat}
    (h₀ : feeOf W U { p with disc := 0 } bc a = some f₀)
    (h : feeOf W U { p with disc := d } bc a = some f) : f ≤ f₀ :=
  discount_antitone (Nat.zero_le d) h₀ h

/-- with all factors at most 100% (and a unit that exists) the computation never fails
spuriously: the split always exists. -/
theorem applyFees_total {W U : Nat} {p : FeeParams} {bc : BalanceChange} {a : Nat}
    (hU : U ≠ 0) (ha : a < 2 ^ W) (hpos : p.pos ≤ U) (hneg : p.neg ≤ U) (hrecv : p.recv ≤ U)
    (hdisc : p.disc ≤ U) : ∃ r, applyFees W U p bc a = some r := by
  have hfac : p.factor bc ≤ U := by cases bc <;> simp [FeeParams.factor] <;> assumption
  have le_of (x f : Nat) (hf : f ≤ U) : x * f / U ≤ x := by
    calc x * f / U ≤ x * U / U := Nat.div_le_div_right (Nat.mul_le_mul_left _ hf)
      _ = x := Nat.mul_div_cancel _ (Nat.pos_of_ne_zero hU)
  obtain ⟨x, hx⟩ : ∃ x, x = a * p.factor bc / U := ⟨_, rfl⟩
  obtain ⟨d, hd⟩ : ∃ d, d = x * p.disc / U := ⟨_, rfl⟩
  obtain ⟨r, hr⟩ : ∃ r, r = (x - d) * p.recv / U := ⟨_, rfl⟩
  have h1 : x ≤ a := hx ▸ le_of a _ hfac
  have h2 : d ≤ x := hd ▸ le_of x _ hdisc
  have h3 : r ≤ x - d := hr ▸ le_of (x - d) _ hrecv
  have l1 : x < 2 ^ W := by omega
  have l2 : d < 2 ^ W := by omega
  have l3 : r < 2 ^ W := by omega
  have l4 : x - d ≤ a := by omega
  have e1 : applyFactor W U a (p.factor bc) = some x := by
    simp only [applyFactor, mulDiv, toU, hU, if_false, ← hx, l1, if_true]
  have e2 : applyFactor W U x p.disc = some d := by
    simp only [applyFactor, mulDiv, toU, hU, if_false, ← hd, l2, if_true]
  have e3 : feeOf W U p bc a = some (x - d) := by
    simp only [feeOf, e1, e2, checkedSub, h2, if_true]
  have e4 : receiverFee W U p (x - d) = some r := by
    simp only [receiverFee, applyFactor, mulDiv, toU, hU, if_false, ← hr, l3, if_true]
  refine ⟨(a - (x - d), { pool := x - d - r, receiver := r }), ?_⟩
  simp only [applyFees, e3, e4, checkedSub, h3, l4, if_true]

/-- order fees: the two shares add up to the fee amount, which is the fee value converted at
the minimum price and rounded down; the fee value is the `fee` of the order size. -/
theorem orderFees_split {W U : Nat} {p : FeeParams} {pmin pmax size : Nat} {bc : BalanceChange}
    {o : OrderFees} (h : orderFees W U p pmin pmax size bc = .ok o) :
    pmin ≠ 0 ∧ pmax ≠ 0 ∧ feeOf W U p bc size = some o.feeValue ∧
    o.pool + o.receiver = o.feeValue / pmin ∧
    receiverFee W U p (o.feeValue / pmin) = some o.receiver := by
  unfold orderFees at h
  split at h
  · cases h
  · rename_i hz
    split at h
    · cases h
    · rename_i fv hfv
      simp only at h
      split at h
      · cases h
      · rename_i r hr
        unfold checkedSub at h
        split at h
        · cases h
        · rename_i pool hpool
          split at hpool
          · cases hpool; cases h
            refine ⟨by omega, by omega, hfv, ?_, hr⟩
            simp; omega
          · cases hpool

/-- with a fee factor of at most 100% the order fee value never exceeds the order size. -/
theorem orderFees_value_le_size {W U : Nat} {p : FeeParams} {pmin pmax size : Nat}
    {bc : BalanceChange} {o : OrderFees} (h : orderFees W U p pmin pmax size bc = .ok o)
    (hf : p.factor bc ≤ U) : o.feeValue ≤ size := by
  obtain ⟨_, _, hfee, _, _⟩ := orderFees_split h
  obtain ⟨hU, he, _⟩ := feeOf_spec hfee
  have : size * p.factor bc / U ≤ size := by
    calc size * p.factor bc / U ≤ size * U / U := Nat.div_le_div_right (Nat.mul_le_mul_left _ hf)
      _ = size := Nat.mul_div_cancel _ (Nat.pos_of_ne_zero hU)
  rw [he]; exact Nat.le_trans (Nat.sub_le _ _) this

theorem orderFees_zero_price (W U : Nat) (p : FeeParams) (pmax size : Nat) (bc : BalanceChange) :
    orderFees W U p 0 pmax size bc = .error .invalidPrices := by
  simp [orderFees]

/-- liquidation fee: the amount is the fee value divided by the min price rounded UP. -/
theorem liquidationFee_roundsUp {W U factor recvFactor size pmin : Nat} {l : LiqFees}
    (h : liquidationFee W U factor recvFactor size pmin = some l) (hf : factor ≠ 0) :
    pmin ≠ 0 ∧ l.feeValue = size * factor / U ∧ l.amount = ceilDiv l.feeValue pmin ∧
    l.receiver = l.amount * recvFactor / U := by
  unfold liquidationFee at h
  simp only [hf, if_false] at h
  split at h
  · cases h
  · rename_i fv hfv
    obtain ⟨_, rfl, _⟩ := (C01.applyFactor_spec _ _ _ _ _).1 hfv
    split at h
    · cases h
    · rename_i amt hamt
      obtain ⟨hp, rfl, _⟩ := C01.roundUpDiv_sound hamt
      split at h
      · cases h
      · rename_i r hr
        obtain ⟨_, rfl, _⟩ := (C01.applyFactor_spec _ _ _ _ _).1 hr
        cases h
        exact ⟨hp, rfl, rfl, rfl⟩

/-- the receiver's share of a liquidation fee never exceeds the fee when its factor ≤ 100%. -/
theorem liquidationFee_split {W U factor recvFactor size pmin : Nat} {l : LiqFees}
    (h : liquidationFee W U factor recvFactor size pmin = some l) (hr : recvFactor ≤ U) (hU : U ≠ 0) :
    l.receiver ≤ l.amount := by
  by_cases hf : factor = 0
  · simp [liquidationFee, hf] at h; subst h; simp
  · obtain ⟨_, _, _, h4⟩ := liquidationFee_roundsUp h hf
    rw [h4]
    calc l.amount * recvFactor / U ≤ l.amount * U / U := Nat.div_le_div_right (Nat.mul_le_mul_left _ hr)
      _ = l.amount := Nat.mul_div_cancel _ (Nat.pos_of_ne_zero hU)

/-! ### Non-vacuity -/
example : applyFees 128 (10 ^ 20) ⟨5 * 10 ^ 16, 7 * 10 ^ 16, 37 * 10 ^ 18, 0⟩ .worsened (10 ^ 12)
    = some (999300000000, ⟨441000000, 259000000⟩) := by decide
example : applyFees 64 (10 ^ 9) ⟨0, 2 * 10 ^ 9, 0, 0⟩ .worsened 1000 = none := by decide
example : (orderFees 64 (10 ^ 9) ⟨500000, 700000, 370000000, 0⟩ 10 11 (10 ^ 12) .improved)
    = .ok ⟨31500000, 18500000, 500000000⟩ := by rfl
example : liquidationFee 64 (10 ^ 9) 2000000 370000000 (10 ^ 12) 7
    = some ⟨2000000000, 285714286, 105714285⟩ := by decide

/-! ### Audit additions: stronger statements -/

/-- `orderFees_zero_price` covers only the min price; a zero MAX price is rejected as well. -/
theorem orderFees_zero_max_price (W U : Nat) (p : FeeParams) (pmin size : Nat) (bc : BalanceChange) :
    orderFees W U p pmin 0 size bc = .error .invalidPrices := by
  simp [orderFees]

/-- liquidation fee value never exceeds the size for a factor ≤ 100%, and a successful non-zero
factor computation had a non-zero unit (so the `/ U` of `liquidationFee_roundsUp` is a real division). -/
theorem liquidationFee_value_le_size {W U factor recvFactor size pmin : Nat} {l : LiqFees}
    (h : liquidationFee W U factor recvFactor size pmin = some l) (hf : factor ≤ U) :
    l.feeValue ≤ size ∧ (factor ≠ 0 → U ≠ 0) := by
  by_cases hz : factor = 0
  · simp [liquidationFee, hz] at h; subst h; exact ⟨Nat.zero_le _, fun h => absurd hz h⟩
  · have hU : U ≠ 0 := by
      have h' := h
      unfold liquidationFee at h'; simp only [hz, if_false] at h'
      split at h'
      · cases h'
      · rename_i fv hfv; exact ((C01.applyFactor_spec _ _ _ _ _).1 hfv).1
    obtain ⟨_, h2, _, _⟩ := liquidationFee_roundsUp h hz
    refine ⟨?_, fun _ => hU⟩
    rw [h2]
    calc size * factor / U ≤ size * U / U := Nat.div_le_div_right (Nat.mul_le_mul_left _ hf)
      _ = size := Nat.mul_div_cancel _ (Nat.pos_of_ne_zero hU)
example : (2000000000 : Nat) ≤ 10 ^ 12 :=
  (liquidationFee_value_le_size (W := 64) (U := 10 ^ 9) (factor := 2000000) (recvFactor := 370000000)
    (size := 10 ^ 12) (pmin := 7) (l := ⟨2000000000, 285714286, 105714285⟩) (by decide) (by decide)).1

/-! ### Non-vacuity (audit additions): every hypothesis-carrying theorem instantiated -/
/-- a fee WITH a discount (10%) and a receiver share (37%): conservation on non-zero shares. -/
example : 999370000000 + 396900000 + 233100000 = 10 ^ 12 :=
  applyFees_conserves (f := ⟨396900000, 233100000⟩)
    (by decide : applyFees 64 (10 ^ 9) ⟨500000, 700000, 370000000, 100000000⟩ .worsened (10 ^ 12)
      = some (999370000000, ⟨396900000, 233100000⟩))
example : feeOf 64 (10 ^ 9) ⟨500000, 700000, 370000000, 100000000⟩ .worsened (10 ^ 12) = some 630000000 := by decide
/-- factor 200%: fee 2000 > amount 1000. -/
example : applyFees 64 (10 ^ 9) ⟨0, 2 * 10 ^ 9, 0, 0⟩ .worsened 1000 = none :=
  applyFees_none_of_fee_gt (fee := 2000) (by decide) (by decide)
/-- receiver factor 200%: receiver share 1000 > fee 500. -/
example : applyFees 64 (10 ^ 9) ⟨0, 5 * 10 ^ 8, 2 * 10 ^ 9, 0⟩ .worsened 1000 = none :=
  applyFees_none_of_recv_gt (fee := 500) (r := 1000) (by decide) (by decide) (by decide)
/-- discount 200%: discount 1000 > fee 500. -/
example : feeOf 64 (10 ^ 9) ⟨0, 5 * 10 ^ 8, 0, 2 * 10 ^ 9⟩ .worsened 1000 = none :=
  feeOf_none_of_discount_gt (f := 500) (d := 1000) (by decide) (by decide) (by decide)
/-- discounts 10% and 50% of a 50% fee on 1000: 450 and 250. -/
example : (250 : Nat) ≤ 450 :=
  discount_antitone (W := 64) (U := 10 ^ 9) (p := ⟨0, 5 * 10 ^ 8, 0, 0⟩) (bc := .worsened) (a := 1000)
    (d₁ := 10 ^ 8) (d₂ := 5 * 10 ^ 8) (by decide) (by decide) (by decide)
example : (250 : Nat) ≤ 500 :=
  discount_le_undiscounted (W := 64) (U := 10 ^ 9) (p := ⟨0, 5 * 10 ^ 8, 0, 0⟩) (bc := .worsened) (a := 1000)
    (d := 5 * 10 ^ 8) (by decide) (by decide)
example : ∃ r, applyFees 128 (10 ^ 20) ⟨5 * 10 ^ 16, 7 * 10 ^ 16, 37 * 10 ^ 18, 10 ^ 19⟩ .worsened (10 ^ 12) = some r :=
  applyFees_total (by decide) (by decide) (by decide) (by decide) (by decide) (by decide)
example : (500000000 : Nat) ≤ 10 ^ 12 :=
  orderFees_value_le_size (W := 64) (U := 10 ^ 9) (p := ⟨500000, 700000, 370000000, 0⟩) (pmin := 10) (pmax := 11)
    (bc := .improved) (o := ⟨31500000, 18500000, 500000000⟩) (by rfl) (by decide)
/-- order fees with a discount, and the computation-error branch (factor 200% with discount 300%). -/
example : (orderFees 64 (10 ^ 9) ⟨500000, 700000, 370000000, 100000000⟩ 10 11 (10 ^ 12) .improved)
    = .ok ⟨28350000, 16650000, 450000000⟩ := by rfl
example : (orderFees 64 (10 ^ 9) ⟨0, 2 * 10 ^ 9, 0, 3 * 10 ^ 9⟩ 10 11 1000 .worsened) = .error .computation := by rfl
example : (105714285 : Nat) ≤ 285714286 :=
  liquidationFee_split (W := 64) (U := 10 ^ 9) (factor := 2000000) (recvFactor := 370000000) (size := 10 ^ 12)
    (pmin := 7) (l := ⟨2000000000, 285714286, 105714285⟩) (by decide) (by decide) (by decide)
/-- zero factor short-circuits (even with a zero price); a non-zero factor with a zero price fails. -/
example : liquidationFee 64 (10 ^ 9) 0 5 (10 ^ 12) 0 = some ⟨0, 0, 0⟩ ∧
    liquidationFee 64 (10 ^ 9) 2000000 370000000 (10 ^ 12) 0 = none := by decide

/-! ### exact failure condition (audit follow-up, design.d/AUDIT.md C02) -/

/-- **exact failure condition of `apply_fees`**: it fails precisely when the fee cannot be computed, the
receiver share cannot be computed, the receiver share exceeds the fee, or the fee exceeds the amount -/
theorem applyFees_none_iff (W U : Nat) (p : FeeParams) (bc : BalanceChange) (a : Nat) :
    applyFees W U p bc a = none ↔
      feeOf W U p bc a = none ∨
      ∃ fee, feeOf W U p bc a = some fee ∧
        (receiverFee W U p fee = none ∨ ∃ r, receiverFee W U p fee = some r ∧ (fee < r ∨ a < fee)) := by
  unfold applyFees checkedSub
  cases hf : feeOf W U p bc a with
  | none => simp
  | some fee =>
    cases hr : receiverFee W U p fee with
    | none => simp [hr]
    | some r =>
      simp only [hr, reduceCtorEq, false_or, Option.some.injEq, exists_eq_left', exists_eq_left]
      by_cases h1 : r ≤ fee
      · by_cases h2 : fee ≤ a
        · simp [h1, h2] <;> omega
        · simp [h1, h2] <;> omega
      · simp [h1] <;> omega

example : applyFees 64 (10 ^ 9) ⟨5 * 10 ^ 7, 5 * 10 ^ 7, 37 * 10 ^ 7, 0⟩ .improved 1000 = some (950, ⟨32, 18⟩) := by decide

/-! ### position-fee aggregation (seed C02-3) -/

/-- **position fees are split exactly**: whenever the three aggregates are defined, what goes to the pool plus
what goes to the fee receiver is exactly what the position is charged (excluding funding) — order, borrowing
and liquidation fees together; nothing is created or lost -/
theorem feeAgg_split_exact {W : Nat} {f : FeeAgg} {p r t : Nat}
    (hp : f.forPool W = some p) (hr : f.forReceiver W = some r) (ht : f.totalCost W = some t) : p + r = t := by
  unfold FeeAgg.forPool poolPart checkedSub checkedAdd toU at hp
  unfold FeeAgg.forReceiver checkedAdd toU at hr
  unfold FeeAgg.totalCost checkedAdd toU at ht
  cases hl : f.liq with
  | none =>
    simp only [hl] at hp hr ht
    repeat' split at hp
    all_goals first | cases hp | skip
    all_goals
      repeat' split at hr
      all_goals first | cases hr | skip
    all_goals
      repeat' split at ht
      all_goals first | cases ht | skip
    all_goals simp_all
    all_goals omega
  | some lq =>
    obtain ⟨l, lr⟩ := lq
    simp only [hl] at hp hr ht
    repeat' split at hp
    all_goals first | cases hp | skip
    all_goals
      repeat' split at hr
      all_goals first | cases hr | skip
    all_goals
      repeat' split at ht
      all_goals first | cases ht | skip
    all_goals simp_all
    all_goals omega

example : (⟨100, 40, 30, 10, some (20, 7)⟩ : FeeAgg).forPool 64 = some 133 ∧
    (⟨100, 40, 30, 10, some (20, 7)⟩ : FeeAgg).forReceiver 64 = some 57 ∧
    (⟨100, 40, 30, 10, some (20, 7)⟩ : FeeAgg).totalCost 64 = some 190 := by decide

end Gmx.C02
